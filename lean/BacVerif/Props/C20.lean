/-
  C20 — A schedule shows the value its calendar dictates at every instant, never stale.

  Property text → formal statement  (model: `BacVerif/Model/Schedule.lean`, the
  tree after the five repairs in /verif/fixes/C20-*.patch; independent spec:
  `BacVerif/Lemmas/SchedSpec.lean`)

  * "date patterns (any/odd/even month, last/odd/even day, week-of-month,
    day-of-week, open-ended ranges) match exactly the calendar dates they
    denote"                  → `match_date_iff`, `match_weeknday_iff`, `match_range_iff`,
                               `calendar_entry_iff`, `period_iff`; the calendar itself:
                               `leap_rule`, `month_length_rule`, `succDay_is_next_ordinal`,
                               `civil_inverts_ordinal`, `weekday_of_ordinal`
  * "the evaluated value is the one BACnet prescribes: the latest
    non-relinquished entry of the highest-priority exception in force that day,
    otherwise the latest entry of that weekday's list, otherwise the default"
                             → `eval_is_spec` (`specValue`; `latest_is_greatest` says
                               that "last entry whose time has come" is the latest one)
  * "The value cannot change between the evaluated instant and the
    next-transition time reported with it"
                             → `no_change_before_next`, `next_after_now`, `next_by_midnight`
  * "so a schedule driven by that timer shows the right value at all times and
    keeps running across days and across the edges of its effective period"
                             → `rearm_strictly_future` (any instant: inside, before, after,
                               at the edges of the period — no hypothesis on the period),
                               `runs_forever`, `never_stale`, `write_rearms`

  Hypotheses (all decidable, see the `example`s): `ValidTuple d` (a real
  calendar date, weekday number 1..7), `ValidCfg` (period ends unspecified or
  real dates, 7 daily lists or none, exception periods the standard defines,
  priorities 1..16), `SortedCfg` (time lists ordered by time), `ProperCfg`
  (entry times are times of day), instants before 2155-01-01 (`horizon`: in
  year 2155 the year octet IS the wildcard 255 and `datetime_to_time` refuses it).
  Not modelled: `time.mktime` under DST (runs use TZ=UTC); the timer is
  assumed to fire exactly at its deadline (C14).
-/
import BacVerif.Lemmas.SchedRun
namespace BacVerif.C20
open BacVerif.Sched

/-! ## the calendar -/

theorem leap_rule (y : Nat) : isLeap y = true ↔ Leap (1900 + y) := isLeap_iff y

theorem month_length_rule (y m : Nat) (h1 : 1 ≤ m) (h12 : m ≤ 12) :
    daysInMonth y m = .ok (SpecMonthLen (1900 + y) m) := daysInMonth_ok y m h1 h12

/-- the day after a real date is a real date with the next ordinal and the next weekday -/
theorem succDay_is_next_ordinal (d : Date) (h : ValidDate d) :
    ValidDate (succDay d) ∧
    dayNum (succDay d).y (succDay d).m (succDay d).d = dayNum d.y d.m d.d + 1 :=
  ⟨validDate_succDay d h, dayNum_succDay d h.1⟩

/-- the model of `localtime` inverts the model of `mktime`, for every ordinal -/
theorem civil_inverts_ordinal (n : Nat) :
    ValidDate (civil n) ∧ dayNum (civil n).y (civil n).m (civil n).d = n :=
  ⟨validDate_civil n, dayNum_civil n⟩

theorem weekday_of_ordinal (n : Nat) : (civil n).w = n % 7 + 1 := dow_civil n

/-- test (not a theorem about all dates): known anchors -/
example : civil 59 = ⟨0, 3, 1, 4⟩ ∧ civil 424 = ⟨1, 3, 1, 5⟩ ∧ dayNum 70 1 1 = 25567 ∧
    dayNum 100 2 29 = 36583 ∧ dowOf 36583 = 2 := by
  decide +kernel

/-! ## the matchers -/

/-- `match_date` decides what the pattern denotes — every real date, EVERY pattern tuple -/
theorem match_date_iff (d p : Date) (h : ValidTuple d) :
    matchDate d p = .ok (decide (DenotesDate p d)) := matchDate_eq d p h

/-- `match_weeknday` — every real date, every pattern with a week field the standard defines -/
theorem match_weeknday_iff (d : Date) (mp wp dp : Nat) (h : ValidTuple d) (hv : ValidWeek wp) :
    matchWeekNDay d mp wp dp = .ok (decide (DenotesWND mp wp dp d)) :=
  matchWeekNDay_eq d mp wp dp h hv

/-- `match_date_range` (repaired) — tuple comparison is ordinal comparison and
    an unspecified end is open, on either side -/
theorem match_range_iff (d s e : Date) (hd : ValidYMD d) (hs : RangeEnd s) (he : RangeEnd e) :
    matchRange d s e = true ↔ DenotesRange s e d := matchRange_iff d s e hd hs he

theorem calendar_entry_iff (d : Date) (e : CalEntry) (h : ValidTuple d) (hw : WFEntry e) :
    dateInEntry d e = .ok (decide (DenotesEntry e d)) := dateInEntry_eq d e h hw

theorem period_iff (d : Date) (p : Period) (h : ValidTuple d) (hw : WFPeriod p) :
    periodMatch d p = .ok (decide (DenotesPeriod p d)) := periodMatch_eq d p h hw

/-- the "always" period — the witness of defect #14 — is in force on every real date -/
theorem always_period (d : Date) (hd : ValidYMD d) :
    matchRange d ⟨255, 255, 255, 255⟩ ⟨255, 255, 255, 255⟩ = true := by
  rw [match_range_iff d _ _ hd (Or.inl ⟨rfl, rfl, rfl⟩) (Or.inl ⟨rfl, rfl, rfl⟩)]
  exact ⟨Or.inl ⟨rfl, rfl, rfl⟩, Or.inl ⟨rfl, rfl, rfl⟩⟩

-- non-vacuity: a leap day, "last day of an even month", "last Tuesday", a half-open range
example : ValidTuple ⟨100, 2, 29, 2⟩ := by decide
example : DenotesDate ⟨255, 14, 32, 255⟩ ⟨100, 2, 29, 2⟩ := by decide
example : ValidWeek 6 ∧ DenotesWND 255 6 2 ⟨100, 2, 29, 2⟩ := by decide
example : RangeEnd ⟨255, 255, 255, 255⟩ ∧ RangeEnd ⟨100, 2, 29, 255⟩ ∧
    DenotesRange ⟨255, 255, 255, 255⟩ ⟨100, 2, 29, 255⟩ ⟨100, 2, 29, 2⟩ ∧
    ¬ DenotesRange ⟨255, 255, 255, 255⟩ ⟨100, 2, 29, 255⟩ ⟨100, 3, 1, 3⟩ := by decide +kernel

/-! ## the value -/

/-- in a time-ordered list the entry picked by `latest` is the one with the
    greatest time that has come -/
theorem latest_is_greatest {l : List TV} {t : Time} {e : TV} (hs : SortedTVs l)
    (h : latest l t = some e) :
    e ∈ l ∧ e.time.le t = true ∧ ∀ x ∈ l, x.time.le t = true → x.time.le e.time = true := by
  unfold latest at h
  have hmem : e ∈ l.filter fun e => e.time.le t := List.mem_of_getLast? h
  have hsf : SortedTVs (l.filter fun e => e.time.le t) := List.Pairwise.filter _ hs
  refine ⟨(List.mem_filter.mp hmem).1, (List.mem_filter.mp hmem).2, ?_⟩
  intro x hx hxt
  have hxf : x ∈ l.filter fun e => e.time.le t := List.mem_filter.mpr ⟨hx, hxt⟩
  generalize (l.filter fun e => e.time.le t) = f at *
  clear hmem hs hx hxt
  induction f with
  | nil => cases hxf
  | cons a rest ih =>
    cases rest with
    | nil =>
      simp at h hxf; subst h; subst hxf; exact Time.le_refl _
    | cons b r =>
      rw [List.getLast?_cons_cons] at h
      rcases List.mem_cons.mp hxf with hxa | hxr
      · subst hxa; exact sorted_head hsf e (List.mem_of_getLast? h)
      · exact ih h (sorted_tail hsf) hxr

/-- **eval is spec** -/
theorem eval_is_spec (cfg : Cfg) (d : Date) (t : Time) (hv : ValidCfg cfg) (hs : SortedCfg cfg)
    (hd : ValidTuple d) :
    ∃ r, evalSchedule cfg d t = .ok r ∧ r.map Prod.fst = specValue cfg d t :=
  eval_spec cfg d t hv hs hd

/-- **no change before next** — for EVERY configuration, sorted or not: from
    the evaluated time up to (excluding) the reported transition `eval`
    returns the same value and the same transition -/
theorem no_change_before_next {cfg : Cfg} {d : Date} {t t' : Time} {v : Nat} {n : Time}
    (h : evalSchedule cfg d t = .ok (some (v, n))) (htt : t.le t' = true) (hn : t'.lt n = true) :
    evalSchedule cfg d t' = .ok (some (v, n)) := eval_stable h htt hn

/-- **next after now** — every configuration, every time of day -/
theorem next_after_now {cfg : Cfg} {d : Date} {t : Time} {v : Nat} {n : Time}
    (ht : t.lt nextDay = true) (h : evalSchedule cfg d t = .ok (some (v, n))) : t.lt n = true :=
  eval_next_later ht h

/-- the reported transition is an entry time of the configuration or the start of the next day -/
theorem next_by_midnight {cfg : Cfg} {d : Date} {t : Time} {v : Nat} {n : Time}
    (hp : ProperCfg cfg) (h : evalSchedule cfg d t = .ok (some (v, n))) :
    n = nextDay ∨ n.Proper :=
  eval_next_P (fun k => k = nextDay ∨ k.Proper) (Or.inl rfl)
    (by rw [excList_eq]; exact fun se hse tv htv => Or.inr (hp.1 se hse tv htv))
    (fun day hday tv htv => Or.inr (hp.2 day hday tv htv)) h

/-! ### a concrete configuration meeting every hypothesis (non-vacuity) -/

def anyDay : Period := .entry (.date ⟨255, 255, 255, 255⟩)

/-- two exceptions with the SAME priority (the second one also relinquishes),
    one with a lower priority on the last Friday of odd months from a calendar
    reference, a weekly schedule, effective from 1900-03-01, open-ended (year 0
    keeps the kernel evaluation of `civil` in the tests below shallow) -/
def demo : Cfg :=
  { effStart := ⟨0, 3, 1, 255⟩, effEnd := ⟨255, 255, 255, 255⟩
    weekly := some (List.replicate 7
      [⟨⟨8, 0, 0, 0⟩, .v 8⟩, ⟨⟨14, 0, 0, 0⟩, .null⟩, ⟨⟨17, 0, 0, 50⟩, .v 42⟩])
    exc := some
      [ ⟨.ref (some [.weekNDay 13 6 5, .range ⟨0, 12, 24, 255⟩ ⟨0, 12, 26, 255⟩]),
          [⟨⟨0, 0, 0, 0⟩, .v 7⟩], 9⟩,
        ⟨anyDay, [⟨⟨9, 0, 0, 0⟩, .v 1⟩, ⟨⟨10, 0, 0, 0⟩, .v 2⟩, ⟨⟨11, 0, 0, 0⟩, .null⟩], 5⟩,
        ⟨anyDay, [⟨⟨12, 0, 0, 0⟩, .v 5⟩, ⟨⟨13, 0, 0, 0⟩, .null⟩], 5⟩ ]
    dflt := 0 }

example : ValidCfg demo ∧ SortedCfg demo ∧ ProperCfg demo ∧ demo.fault = false := by decide +kernel

-- tests (kernel evaluation of single instances, not the theorems): the
-- same-priority witness, the relinquish falling through to the weekly list and
-- to the lower-priority exception, and the day before the effective period
def outcome (r : Except SErr (Option (Nat × Time))) : Option (Option (Nat × Time)) :=
  match r with
  | .ok x => some x
  | .error _ => none

example : outcome (evalSchedule demo ⟨0, 3, 5, 1⟩ ⟨9, 30, 0, 0⟩) = some (some (1, ⟨10, 0, 0, 0⟩)) := by decide +kernel
example : outcome (evalSchedule demo ⟨0, 3, 5, 1⟩ ⟨11, 30, 0, 0⟩) = some (some (8, ⟨12, 0, 0, 0⟩)) := by decide +kernel
example : outcome (evalSchedule demo ⟨0, 3, 5, 1⟩ ⟨12, 30, 0, 0⟩) = some (some (5, ⟨13, 0, 0, 0⟩)) := by decide +kernel
example : outcome (evalSchedule demo ⟨0, 3, 30, 5⟩ ⟨13, 30, 0, 0⟩) = some (some (7, ⟨24, 0, 0, 0⟩)) := by decide +kernel
example : outcome (evalSchedule demo ⟨0, 2, 28, 3⟩ ⟨13, 30, 0, 0⟩) = some none := by decide +kernel
example : specValue demo ⟨0, 3, 5, 1⟩ ⟨12, 30, 0, 0⟩ = some 5 := by decide +kernel
example : ValidDate ⟨0, 3, 5, 1⟩ ∧ ValidDate ⟨0, 3, 30, 5⟩ ∧ ValidDate ⟨0, 2, 28, 3⟩ := by decide +kernel

/-! ## the interpreter task -/

/-- **the re-arming step**: for every state and every instant before 2155 —
    inside, before, after or at an edge of the effective period (there is no
    hypothesis about the period) — `process_task` raises nothing, sets the
    present value to what `eval` says (or leaves it alone outside the period)
    and installs the task for an instant strictly in the future, at the
    latest the next midnight -/
theorem rearm_strictly_future (cfg : Cfg) (st : IState) (now : Nat) (hf : cfg.fault = false)
    (hv : ValidCfg cfg) (hp : ProperCfg cfg) (hh : now < horizon) :
    ∃ r, evalSchedule cfg (dateOf now) (timeOf now) = .ok r ∧
      processTask cfg st now =
        ({ pv := (r.map Prod.fst).getD st.pv,
           deadline := some (now / usPerDay * usPerDay + (waitFor r).us) }, none) ∧
      now < now / usPerDay * usPerDay + (waitFor r).us ∧
      now / usPerDay * usPerDay + (waitFor r).us ≤ (now / usPerDay + 1) * usPerDay :=
  processTask_rearms cfg st now hf hv hp hh

/-- a write to weeklySchedule / exceptionSchedule / effectivePeriod /
    scheduleDefault re-evaluates at once under the new configuration and
    re-arms in the same way; from that instant on `never_stale` applies with
    the new configuration (`trajectory cfg' st now`) -/
theorem write_rearms (cfg' : Cfg) (st : IState) (now : Nat) (hf : cfg'.fault = false)
    (hv : ValidCfg cfg') (hp : ProperCfg cfg') (hh : now < horizon) :
    ∃ pv w, scheduleChanged cfg' st now = ({ pv := pv, deadline := some w }, none) ∧ now < w := by
  obtain ⟨r, _, h2, h3, _⟩ := processTask_rearms cfg' st now hf hv hp hh
  exact ⟨_, _, h2, h3⟩

/-- **runs forever**: the k-th evaluation of a timer-driven schedule (any k)
    leaves the task installed strictly later, no later than the next
    midnight, and the (k+1)-th evaluation happens exactly then -/
theorem runs_forever (cfg : Cfg) (st0 : IState) (t0 : Nat) (hf : cfg.fault = false)
    (hv : ValidCfg cfg) (hp : ProperCfg cfg) (k : Nat)
    (hh : (trajectory cfg st0 t0 k).1 < horizon) :
    ∃ w, (trajectory cfg st0 t0 k).2.deadline = some w ∧ (trajectory cfg st0 t0 k).1 < w ∧
      w ≤ ((trajectory cfg st0 t0 k).1 / usPerDay + 1) * usPerDay ∧
      (trajectory cfg st0 t0 (k + 1)).1 = w :=
  runs_forever_step cfg st0 t0 hf hv hp k hh

/-- **never stale**: at EVERY instant τ from the creation to 2155 the present
    value — the one set by the last evaluation at or before τ, while the task
    waits for an instant after τ — is the value BACnet prescribes for τ -/
theorem never_stale (cfg : Cfg) (st0 : IState) (t0 : Nat) (hf : cfg.fault = false)
    (hv : ValidCfg cfg) (hp : ProperCfg cfg) (hs : SortedCfg cfg) (τ : Nat) (h0 : t0 ≤ τ)
    (hτ : τ < horizon) :
    ∃ k w, (trajectory cfg st0 t0 k).1 ≤ τ ∧ (trajectory cfg st0 t0 k).2.deadline = some w ∧ τ < w ∧
      (trajectory cfg st0 t0 (k + 1)).1 = w ∧
      ∀ v, specValue cfg (dateOf τ) (timeOf τ) = some v → (trajectory cfg st0 t0 k).2.pv = v :=
  never_stale_spec cfg st0 t0 hf hv hp hs τ h0 hτ

/-- the same against `eval` itself, without the ordering hypothesis -/
theorem never_stale_wrt_eval (cfg : Cfg) (st0 : IState) (t0 : Nat) (hf : cfg.fault = false)
    (hv : ValidCfg cfg) (hp : ProperCfg cfg) (τ : Nat) (h0 : t0 ≤ τ) (hτ : τ < horizon) :
    ∃ k w, (trajectory cfg st0 t0 k).1 ≤ τ ∧ (trajectory cfg st0 t0 k).2.deadline = some w ∧ τ < w ∧
      (trajectory cfg st0 t0 (k + 1)).1 = w ∧
      ∀ v n, evalSchedule cfg (dateOf τ) (timeOf τ) = .ok (some (v, n)) →
        (trajectory cfg st0 t0 k).2.pv = v :=
  never_stale_eval cfg st0 t0 hf hv hp τ h0 hτ

-- tests: the schedule created on 1900-02-26 10:00 UTC, three days before its
-- effective period: it does not crash, leaves the present value alone and
-- waits for midnight; on 1900-03-01 00:00 it starts
def t0demo : Nat := (56 * 86400 + 36000) * 1000000
example : t0demo < horizon := by decide +kernel
example : trajectory demo ⟨999, none⟩ t0demo 0 = (t0demo, ⟨999, some (57 * usPerDay)⟩) := by
  decide +kernel
example : trajectory demo ⟨999, none⟩ t0demo 3 = (59 * usPerDay, ⟨0, some (59 * usPerDay + 8 * 3600000000)⟩) := by
  decide +kernel

end BacVerif.C20
