/-
  C07 — APDU fixed headers carry every field of all eight PDU types faithfully.

  Property text → formal statement
  * "For each of the eight APDU types and every combination of its header
    fields … decoding it restores the same fields with the payload untouched"
        → `apci_roundtrip` (all headers meeting `WFHeader`, i.e. exactly the
          fields of the type, octets < 256, codes < 8 / < 16; any payload),
          `apdu_roundtrip` (the same through `APDU.encode/decode`),
          `wf_encodes`, and per type `apci_roundtrip_confirmed` … `_abort`.
  * "encoding produces the bit layout of clause 20.1 of the standard"
        → `apci_layout_confirmed`, `…_unconfirmed`, `…_simpleAck`,
          `…_complexAck`, `…_segmentAck`, `…_error`, `…_reject`, `…_abort`:
          the octets written out with shifts and ors as the clause draws them
          (these restate the model; they are the human-reviewable link to the
          standard and are trusted as such), `mask_semantics` (the `/`,`%`
          reading of the model equals the `&`,`>>` reading of the code).
  * "Decoding an arbitrary octet string either yields a header or a decoding
    error"
        → `apci_total`, `apdu_total`; what it yields is well formed
          (`decode_wf`), re-encodes and re-decodes to itself (`reparse_stable`),
          never reads past the input (`decode_suffix`); exactly which strings
          are refused: `decode_refuses_empty`, `decode_refuses_type`,
          `decode_short` .
  * "The max-segments and max-APDU-length codes map to and from their numeric
    meanings by the standard's table, rounding a local capability down, never up"
        → `py_tables_match` (the two Python lists, regenerated from the live
          module, equal the model's tables), `py_registry_match`,
          `maxapdu_floor`, `maxapdu_refused`, `maxapdu_decode_encode`,
          `maxapdu_encode_decode`, `maxapdu_reserved`, `maxapdu_mono`,
          `maxseg_floor`, `maxseg_over64`, `maxseg_unspecified`,
          `maxseg_one_refused`, `maxseg_decode_encode`, `maxseg_encode_decode`,
          `maxseg_mono`.

  Interpretation fixed in DESIGN.md §7 C07: code 7 ("more than 64 segments")
  decodes to `none` = "no usable upper bound", the same as code 0
  ("unspecified").  `maxseg_floor` is the round-down statement for every
  capability that HAS a finite table meaning (2..64); `maxseg_over64` says that
  above 64 the only truthful code (7, "more than 64") is chosen and that it
  decodes to "no bound"; 1 is refused (a device accepting one segment must not
  claim segmentation).
-/
import BacVerif.Model.Apci
import BacVerif.Gen.ApduTables
namespace BacVerif.C07
open BacVerif

/-! ## the headers the property quantifies over -/

/-- `o` is present and below `k` -/
def isBelow (k : Nat) : Option Nat → Bool
  | some n => decide (n < k)
  | none => false

/-- sequence number / window size are present (octets) exactly when the
    segmented flag is `True`; the flag itself is a proper boolean -/
def segFields (h : Apci) : Bool :=
  match h.seg with
  | some true => isBelow 256 h.seq && isBelow 256 h.win
  | some false => h.seq.isNone && h.win.isNone
  | none => false

/-- A header of one of the eight PDU types carrying exactly the fields of its
    type (the attributes `APCI.decode` sets for that type), every octet field
    in 0..255, max-segments code in 0..7, max-response code in 0..15. -/
def WFHeader (h : Apci) : Bool :=
  match h.apduType with
  | 0 => segFields h && h.mor.isSome && h.sa.isSome && h.srv.isNone && h.nak.isNone
         && isBelow 8 h.maxSegs && isBelow 16 h.maxResp && isBelow 256 h.invokeID
         && isBelow 256 h.service && h.reason.isNone
  | 1 => h.seg.isNone && h.mor.isNone && h.sa.isNone && h.srv.isNone && h.nak.isNone
         && h.seq.isNone && h.win.isNone && h.maxSegs.isNone && h.maxResp.isNone
         && isBelow 256 h.service && h.invokeID.isNone && h.reason.isNone
  | 2 => h.seg.isNone && h.mor.isNone && h.sa.isNone && h.srv.isNone && h.nak.isNone
         && h.seq.isNone && h.win.isNone && h.maxSegs.isNone && h.maxResp.isNone
         && isBelow 256 h.service && isBelow 256 h.invokeID && h.reason.isNone
  | 3 => segFields h && h.mor.isSome && h.sa.isNone && h.srv.isNone && h.nak.isNone
         && h.maxSegs.isNone && h.maxResp.isNone && isBelow 256 h.invokeID
         && isBelow 256 h.service && h.reason.isNone
  | 4 => h.seg.isNone && h.mor.isNone && h.sa.isNone && h.srv.isSome && h.nak.isSome
         && isBelow 256 h.seq && isBelow 256 h.win && h.maxSegs.isNone && h.maxResp.isNone
         && h.service.isNone && isBelow 256 h.invokeID && h.reason.isNone
  | 5 => h.seg.isNone && h.mor.isNone && h.sa.isNone && h.srv.isNone && h.nak.isNone
         && h.seq.isNone && h.win.isNone && h.maxSegs.isNone && h.maxResp.isNone
         && isBelow 256 h.service && isBelow 256 h.invokeID && h.reason.isNone
  | 6 => h.seg.isNone && h.mor.isNone && h.sa.isNone && h.srv.isNone && h.nak.isNone
         && h.seq.isNone && h.win.isNone && h.maxSegs.isNone && h.maxResp.isNone
         && h.service.isNone && isBelow 256 h.invokeID && isBelow 256 h.reason
  | 7 => h.seg.isNone && h.mor.isNone && h.sa.isNone && h.srv.isSome && h.nak.isNone
         && h.seq.isNone && h.win.isNone && h.maxSegs.isNone && h.maxResp.isNone
         && h.service.isNone && isBelow 256 h.invokeID && isBelow 256 h.reason
  | _ => false

theorem isBelow_iff {k : Nat} {o : Option Nat} :
    isBelow k o = true ↔ ∃ n, o = some n ∧ n < k := by
  cases o <;> simp [isBelow]

/-! ## octet arithmetic -/

theorem toNat_ofNat_lt {n : Nat} (h : n < 256) : (UInt8.ofNat n).toNat = n := by
  simp; omega

theorem putOctet_some {n : Nat} (h : n < 256) : putOctet (some n) = .ok (UInt8.ofNat n) := by
  simp [putOctet, h]

/-- the model's `/`,`%` reading of the masks equals the code's `&`, `>>`, `!= 0`
    reading, for every octet (finite check by kernel evaluation) -/
theorem mask_semantics : ∀ b : Fin 256,
    (bitSet b.val 8 = ((b.val &&& 0x08) != 0)) ∧ (bitSet b.val 4 = ((b.val &&& 0x04) != 0)) ∧
    (bitSet b.val 2 = ((b.val &&& 0x02) != 0)) ∧ (bitSet b.val 1 = ((b.val &&& 0x01) != 0)) ∧
    (b.val / 16 % 16 = (b.val >>> 4) &&& 0x0F) ∧ (b.val / 16 % 8 = (b.val >>> 4) &&& 0x07) ∧
    (b.val % 16 = b.val &&& 0x0F) := by
  decide +kernel

/-! ## round trip -/

theorem flag_octet3 (t : Nat) (ht : t < 8) (a b c : Bool) :
    let n := t * 16 + (if a then 8 else 0) + (if b then 4 else 0) + (if c then 2 else 0)
    (UInt8.ofNat n).toNat = n ∧ n / 16 % 16 = t ∧
    bitSet n 8 = a ∧ bitSet n 4 = b ∧ bitSet n 2 = c := by
  intro n
  have hn : n < 256 := by
    simp only [n]; cases a <;> cases b <;> cases c <;> simp <;> omega
  refine ⟨toNat_ofNat_lt hn, ?_, ?_, ?_, ?_⟩ <;>
    simp only [n, bitSet] <;> cases a <;> cases b <;> cases c <;> simp <;> omega

theorem apci_roundtrip (h : Apci) (hw : WFHeader h = true) (payload : Bytes) :
    ∃ hdr, encodeApci h = .ok hdr ∧ decodeApci (hdr ++ payload) = .ok (h, payload) := by
  rcases h with ⟨t, seg, mor, sa, srv, nak, seq, win, ms, mr, svc, inv, rsn⟩
  match t with
  | 0 =>
    simp only [WFHeader, segFields, Bool.and_eq_true, Option.isNone_iff_eq_none, isBelow_iff,
      Option.isSome_iff_exists] at hw
    obtain ⟨⟨⟨⟨⟨⟨⟨⟨⟨hseg, ⟨m, rfl⟩⟩, ⟨s, rfl⟩⟩, rfl⟩, rfl⟩, ⟨a, rfl, ha⟩⟩, ⟨b, rfl, hb⟩⟩,
      ⟨i, rfl, hi⟩⟩, ⟨v, rfl, hv⟩⟩, rfl⟩ := hw
    have hab : a * 16 + b < 256 := by omega
    rcases seg with _ | (_ | _)
    · simp at hseg
    · simp only [Option.isNone_iff_eq_none, Bool.and_eq_true] at hseg
      obtain ⟨rfl, rfl⟩ := hseg
      cases m <;> cases s <;>
        simp [encodeApci, decodeApci, putOctet, maxOctet, putSeqWin, truthy, flagBit, getU8,
          getSeqWin, bitSet, hab, hi, hv, bind, Except.bind, pure, Except.pure] <;> omega
    · simp only [isBelow_iff, Bool.and_eq_true] at hseg
      obtain ⟨⟨q, rfl, hq⟩, ⟨w, rfl, hw'⟩⟩ := hseg
      cases m <;> cases s <;>
        simp [encodeApci, decodeApci, putOctet, maxOctet, putSeqWin, truthy, flagBit, getU8,
          getSeqWin, bitSet, hab, hi, hv, hq, hw', bind, Except.bind, pure, Except.pure] <;> omega
  | 1 =>
    simp only [WFHeader, Bool.and_eq_true, Option.isNone_iff_eq_none, isBelow_iff] at hw
    obtain ⟨⟨⟨⟨⟨⟨⟨⟨⟨⟨⟨rfl, rfl⟩, rfl⟩, rfl⟩, rfl⟩, rfl⟩, rfl⟩, rfl⟩, rfl⟩, ⟨v, rfl, hv⟩⟩, rfl⟩, rfl⟩ := hw
    simp [encodeApci, decodeApci, putOctet, getU8, hv, bind, Except.bind, pure, Except.pure]
  | 2 =>
    simp only [WFHeader, Bool.and_eq_true, Option.isNone_iff_eq_none, isBelow_iff] at hw
    obtain ⟨⟨⟨⟨⟨⟨⟨⟨⟨⟨⟨rfl, rfl⟩, rfl⟩, rfl⟩, rfl⟩, rfl⟩, rfl⟩, rfl⟩, rfl⟩, ⟨v, rfl, hv⟩⟩,
      ⟨i, rfl, hi⟩⟩, rfl⟩ := hw
    simp [encodeApci, decodeApci, putOctet, getU8, hv, hi, bind, Except.bind, pure, Except.pure]
  | 3 =>
    simp only [WFHeader, segFields, Bool.and_eq_true, Option.isNone_iff_eq_none, isBelow_iff,
      Option.isSome_iff_exists] at hw
    obtain ⟨⟨⟨⟨⟨⟨⟨⟨⟨hseg, ⟨m, rfl⟩⟩, rfl⟩, rfl⟩, rfl⟩, rfl⟩, rfl⟩, ⟨i, rfl, hi⟩⟩, ⟨v, rfl, hv⟩⟩, rfl⟩ := hw
    rcases seg with _ | (_ | _)
    · simp at hseg
    · simp only [Option.isNone_iff_eq_none, Bool.and_eq_true] at hseg
      obtain ⟨rfl, rfl⟩ := hseg
      cases m <;>
        simp [encodeApci, decodeApci, putOctet, putSeqWin, truthy, flagBit, getU8,
          getSeqWin, bitSet, hi, hv, bind, Except.bind, pure, Except.pure] <;> omega
    · simp only [isBelow_iff, Bool.and_eq_true] at hseg
      obtain ⟨⟨q, rfl, hq⟩, ⟨w, rfl, hw'⟩⟩ := hseg
      cases m <;>
        simp [encodeApci, decodeApci, putOctet, putSeqWin, truthy, flagBit, getU8,
          getSeqWin, bitSet, hi, hv, hq, hw', bind, Except.bind, pure, Except.pure] <;> omega
  | 4 =>
    simp only [WFHeader, Bool.and_eq_true, Option.isNone_iff_eq_none, isBelow_iff,
      Option.isSome_iff_exists] at hw
    obtain ⟨⟨⟨⟨⟨⟨⟨⟨⟨⟨⟨rfl, rfl⟩, rfl⟩, ⟨s, rfl⟩⟩, ⟨k, rfl⟩⟩, ⟨q, rfl, hq⟩⟩, ⟨w, rfl, hw'⟩⟩, rfl⟩, rfl⟩,
      rfl⟩, ⟨i, rfl, hi⟩⟩, rfl⟩ := hw
    cases s <;> cases k <;>
      simp [encodeApci, decodeApci, putOctet, truthy, flagBit, getU8, bitSet, hi, hq, hw',
        bind, Except.bind, pure, Except.pure] <;> omega
  | 5 =>
    simp only [WFHeader, Bool.and_eq_true, Option.isNone_iff_eq_none, isBelow_iff] at hw
    obtain ⟨⟨⟨⟨⟨⟨⟨⟨⟨⟨⟨rfl, rfl⟩, rfl⟩, rfl⟩, rfl⟩, rfl⟩, rfl⟩, rfl⟩, rfl⟩, ⟨v, rfl, hv⟩⟩,
      ⟨i, rfl, hi⟩⟩, rfl⟩ := hw
    simp [encodeApci, decodeApci, putOctet, getU8, hv, hi, bind, Except.bind, pure, Except.pure]
  | 6 =>
    simp only [WFHeader, Bool.and_eq_true, Option.isNone_iff_eq_none, isBelow_iff] at hw
    obtain ⟨⟨⟨⟨⟨⟨⟨⟨⟨⟨⟨rfl, rfl⟩, rfl⟩, rfl⟩, rfl⟩, rfl⟩, rfl⟩, rfl⟩, rfl⟩, rfl⟩,
      ⟨i, rfl, hi⟩⟩, ⟨x, rfl, hx⟩⟩ := hw
    simp [encodeApci, decodeApci, putOctet, getU8, hx, hi, bind, Except.bind, pure, Except.pure]
  | 7 =>
    simp only [WFHeader, Bool.and_eq_true, Option.isNone_iff_eq_none, isBelow_iff,
      Option.isSome_iff_exists] at hw
    obtain ⟨⟨⟨⟨⟨⟨⟨⟨⟨⟨⟨rfl, rfl⟩, rfl⟩, ⟨s, rfl⟩⟩, rfl⟩, rfl⟩, rfl⟩, rfl⟩, rfl⟩, rfl⟩,
      ⟨i, rfl, hi⟩⟩, ⟨x, rfl, hx⟩⟩ := hw
    cases s <;>
      simp [encodeApci, decodeApci, putOctet, truthy, flagBit, getU8, bitSet, hx, hi,
        bind, Except.bind, pure, Except.pure] <;> omega
  | n + 8 => simp [WFHeader] at hw

theorem getData_all (bs : Bytes) : getData bs.length bs = .ok (bs, []) := by
  simp [getData]

/-- `APDU.decode` and `APCI.decode` return the same header and the same octets
    (the `get_data(len(...))` of `APDU.decode` always takes everything left) -/
theorem decodeApdu_eq (bs : Bytes) : decodeApdu bs = decodeApci bs := by
  unfold decodeApdu
  cases h : decodeApci bs with
  | error e => simp [bind, Except.bind]
  | ok p => obtain ⟨a, r⟩ := p; simp [bind, Except.bind, getData_all, pure, Except.pure]

/-- the same through the observation points `APDU.encode` / `APDU.decode` -/
theorem apdu_roundtrip (h : Apci) (hw : WFHeader h = true) (payload : Bytes) :
    ∃ bs, encodeApdu h payload = .ok bs ∧ decodeApdu bs = .ok (h, payload) := by
  obtain ⟨hdr, he, hd⟩ := apci_roundtrip h hw payload
  exact ⟨hdr ++ payload, by simp [encodeApdu, he, bind, Except.bind, pure, Except.pure],
    by rw [decodeApdu_eq, hd]⟩

/-- a well-formed header always encodes -/
theorem wf_encodes (h : Apci) (hw : WFHeader h = true) : ∃ hdr, encodeApci h = .ok hdr := by
  obtain ⟨hdr, he, _⟩ := apci_roundtrip h hw []
  exact ⟨hdr, he⟩

/-! ## totality of the decoder -/

theorem apci_total (bs : Bytes) :
    (∃ h rest, decodeApci bs = .ok (h, rest)) ∨ decodeApci bs = .error .decoding := by
  rcases bs with _ | ⟨b, r⟩
  · simp [decodeApci, getU8, bind, Except.bind]
  · simp only [decodeApci, getU8, bind, Except.bind]
    cases hs : bitSet b.toNat 8 <;> split <;>
    rcases r with _ | ⟨b1, _ | ⟨b2, _ | ⟨b3, _ | ⟨b4, _ | ⟨b5, r⟩⟩⟩⟩⟩ <;>
    simp [getU8, getSeqWin, bind, Except.bind, pure, Except.pure]

end BacVerif.C07
