/-
  C07 — APDU fixed headers carry every field of all eight PDU types faithfully.

  Property text → formal statement
  * "For each of the eight APDU types and every combination of its header
    fields … decoding it restores the same fields with the payload untouched"
        → `apci_roundtrip` (all headers meeting `WFHeader`, i.e. exactly the
          fields of the type, octets < 256, codes < 8 / < 16; any payload),
          `apdu_roundtrip` (the same through `APDU.encode/decode`),
          `wf_encodes`, and per type `apci_roundtrip_confirmed` … `_abort`;
          `wf_mkConfirmed` … `wf_mkAbort`: the model's constructors (used by the
          protocol models) only build headers inside `WFHeader`.
  * "encoding produces the bit layout of clause 20.1 of the standard"
        → `apci_layout_confirmed`, `…_unconfirmed`, `…_simpleAck`,
          `…_complexAck`, `…_segmentAck`, `…_error`, `…_reject`, `…_abort`:
          the octets written out with shifts and ors as the clause draws them
          (these restate the model; they are the human-reviewable link to the
          standard and are trusted as such), `mask_semantics` (the `/`,`%`
          reading of the model equals the `&`,`>>` reading of the code).
  * "Decoding an arbitrary octet string either yields a header or a decoding
    error"
        → `apci_total`, `apdu_total`; what it yields is well formed
          (`decode_wf`), re-encodes and re-decodes to itself (`reparse_stable`),
          never reads past the input (`decode_suffix`); exactly which strings
          are refused: `decode_refuses_empty`, `decode_refuses_type`,
          `decode_short` .
  * "The max-segments and max-APDU-length codes map to and from their numeric
    meanings by the standard's table, rounding a local capability down, never up"
        → `py_tables_match` (the two Python lists, regenerated from the live
          module, equal the model's tables), `py_registry_match`,
          `maxapdu_floor`, `maxapdu_refused`, `maxapdu_decode_encode`,
          `maxapdu_encode_decode`, `maxapdu_reserved`, `maxapdu_mono`,
          `maxseg_floor`, `maxseg_over64`, `maxseg_unspecified`,
          `maxseg_one_refused`, `maxseg_decode_encode`, `maxseg_encode_decode`,
          `maxseg_mono`.

  Interpretation fixed in DESIGN.md §7 C07: code 7 ("more than 64 segments")
  decodes to `none` = "no usable upper bound", the same as code 0
  ("unspecified").  `maxseg_floor` is the round-down statement for every
  capability that HAS a finite table meaning (2..64); `maxseg_over64` says that
  above 64 the only truthful code (7, "more than 64") is chosen and that it
  decodes to "no bound"; 1 is refused (a device accepting one segment must not
  claim segmentation).
-/
import BacVerif.Model.Apci
import BacVerif.Gen.ApduTables
namespace BacVerif.C07
open BacVerif

/-! ## the headers the property quantifies over -/

/-- `o` is present and below `k` -/
def isBelow (k : Nat) : Option Nat → Bool
  | some n => decide (n < k)
  | none => false

/-- sequence number / window size are present (octets) exactly when the
    segmented flag is `True`; the flag itself is a proper boolean -/
def segFields (h : Apci) : Bool :=
  match h.seg with
  | some true => isBelow 256 h.seq && isBelow 256 h.win
  | some false => h.seq.isNone && h.win.isNone
  | none => false

/-- A header of one of the eight PDU types carrying exactly the fields of its
    type (the attributes `APCI.decode` sets for that type), every octet field
    in 0..255, max-segments code in 0..7, max-response code in 0..15. -/
def WFHeader (h : Apci) : Bool :=
  match h.apduType with
  | 0 => segFields h && h.mor.isSome && h.sa.isSome && h.srv.isNone && h.nak.isNone
         && isBelow 8 h.maxSegs && isBelow 16 h.maxResp && isBelow 256 h.invokeID
         && isBelow 256 h.service && h.reason.isNone
  | 1 => h.seg.isNone && h.mor.isNone && h.sa.isNone && h.srv.isNone && h.nak.isNone
         && h.seq.isNone && h.win.isNone && h.maxSegs.isNone && h.maxResp.isNone
         && isBelow 256 h.service && h.invokeID.isNone && h.reason.isNone
  | 2 => h.seg.isNone && h.mor.isNone && h.sa.isNone && h.srv.isNone && h.nak.isNone
         && h.seq.isNone && h.win.isNone && h.maxSegs.isNone && h.maxResp.isNone
         && isBelow 256 h.service && isBelow 256 h.invokeID && h.reason.isNone
  | 3 => segFields h && h.mor.isSome && h.sa.isNone && h.srv.isNone && h.nak.isNone
         && h.maxSegs.isNone && h.maxResp.isNone && isBelow 256 h.invokeID
         && isBelow 256 h.service && h.reason.isNone
  | 4 => h.seg.isNone && h.mor.isNone && h.sa.isNone && h.srv.isSome && h.nak.isSome
         && isBelow 256 h.seq && isBelow 256 h.win && h.maxSegs.isNone && h.maxResp.isNone
         && h.service.isNone && isBelow 256 h.invokeID && h.reason.isNone
  | 5 => h.seg.isNone && h.mor.isNone && h.sa.isNone && h.srv.isNone && h.nak.isNone
         && h.seq.isNone && h.win.isNone && h.maxSegs.isNone && h.maxResp.isNone
         && isBelow 256 h.service && isBelow 256 h.invokeID && h.reason.isNone
  | 6 => h.seg.isNone && h.mor.isNone && h.sa.isNone && h.srv.isNone && h.nak.isNone
         && h.seq.isNone && h.win.isNone && h.maxSegs.isNone && h.maxResp.isNone
         && h.service.isNone && isBelow 256 h.invokeID && isBelow 256 h.reason
  | 7 => h.seg.isNone && h.mor.isNone && h.sa.isNone && h.srv.isSome && h.nak.isNone
         && h.seq.isNone && h.win.isNone && h.maxSegs.isNone && h.maxResp.isNone
         && h.service.isNone && isBelow 256 h.invokeID && isBelow 256 h.reason
  | _ => false

theorem isBelow_iff {k : Nat} {o : Option Nat} :
    isBelow k o = true ↔ ∃ n, o = some n ∧ n < k := by
  cases o <;> simp [isBelow]

/-! ## octet arithmetic -/

theorem toNat_ofNat_lt {n : Nat} (h : n < 256) : (UInt8.ofNat n).toNat = n := by
  simp; omega

theorem u8lt (x : UInt8) : x.toNat < 256 := x.toNat_lt

theorem putOctet_some {n : Nat} (h : n < 256) : putOctet (some n) = .ok (UInt8.ofNat n) := by
  simp [putOctet, h]

/-- the model's `/`,`%` reading of the masks equals the code's `&`, `>>`, `!= 0`
    reading, for every octet (finite check by kernel evaluation) -/
theorem mask_semantics : ∀ b : Fin 256,
    (bitSet b.val 8 = ((b.val &&& 0x08) != 0)) ∧ (bitSet b.val 4 = ((b.val &&& 0x04) != 0)) ∧
    (bitSet b.val 2 = ((b.val &&& 0x02) != 0)) ∧ (bitSet b.val 1 = ((b.val &&& 0x01) != 0)) ∧
    (b.val / 16 % 16 = (b.val >>> 4) &&& 0x0F) ∧ (b.val / 16 % 8 = (b.val >>> 4) &&& 0x07) ∧
    (b.val % 16 = b.val &&& 0x0F) := by
  decide +kernel

/-! ## round trip -/

theorem apci_roundtrip (h : Apci) (hw : WFHeader h = true) (payload : Bytes) :
    ∃ hdr, encodeApci h = .ok hdr ∧ decodeApci (hdr ++ payload) = .ok (h, payload) := by
  rcases h with ⟨t, seg, mor, sa, srv, nak, seq, win, ms, mr, svc, inv, rsn⟩
  match t with
  | 0 =>
    simp only [WFHeader, segFields, Bool.and_eq_true, Option.isNone_iff_eq_none, isBelow_iff,
      Option.isSome_iff_exists] at hw
    obtain ⟨⟨⟨⟨⟨⟨⟨⟨⟨hseg, ⟨m, rfl⟩⟩, ⟨s, rfl⟩⟩, rfl⟩, rfl⟩, ⟨a, rfl, ha⟩⟩, ⟨b, rfl, hb⟩⟩,
      ⟨i, rfl, hi⟩⟩, ⟨v, rfl, hv⟩⟩, rfl⟩ := hw
    have hab : a * 16 + b < 256 := by omega
    rcases seg with _ | (_ | _)
    · simp at hseg
    · simp only [Option.isNone_iff_eq_none, Bool.and_eq_true] at hseg
      obtain ⟨rfl, rfl⟩ := hseg
      cases m <;> cases s <;>
        simp [encodeApci, decodeApci, putOctet, maxOctet, putSeqWin, truthy, flagBit, getU8,
          getSeqWin, bitSet, hab, hi, hv, bind, Except.bind, pure, Except.pure] <;> omega
    · simp only [isBelow_iff, Bool.and_eq_true] at hseg
      obtain ⟨⟨q, rfl, hq⟩, ⟨w, rfl, hw'⟩⟩ := hseg
      cases m <;> cases s <;>
        simp [encodeApci, decodeApci, putOctet, maxOctet, putSeqWin, truthy, flagBit, getU8,
          getSeqWin, bitSet, hab, hi, hv, hq, hw', bind, Except.bind, pure, Except.pure] <;> omega
  | 1 =>
    simp only [WFHeader, Bool.and_eq_true, Option.isNone_iff_eq_none, isBelow_iff] at hw
    obtain ⟨⟨⟨⟨⟨⟨⟨⟨⟨⟨⟨rfl, rfl⟩, rfl⟩, rfl⟩, rfl⟩, rfl⟩, rfl⟩, rfl⟩, rfl⟩, ⟨v, rfl, hv⟩⟩, rfl⟩, rfl⟩ := hw
    simp [encodeApci, decodeApci, putOctet, getU8, hv, bind, Except.bind, pure, Except.pure]
  | 2 =>
    simp only [WFHeader, Bool.and_eq_true, Option.isNone_iff_eq_none, isBelow_iff] at hw
    obtain ⟨⟨⟨⟨⟨⟨⟨⟨⟨⟨⟨rfl, rfl⟩, rfl⟩, rfl⟩, rfl⟩, rfl⟩, rfl⟩, rfl⟩, rfl⟩, ⟨v, rfl, hv⟩⟩,
      ⟨i, rfl, hi⟩⟩, rfl⟩ := hw
    simp [encodeApci, decodeApci, putOctet, getU8, hv, hi, bind, Except.bind, pure, Except.pure]
  | 3 =>
    simp only [WFHeader, segFields, Bool.and_eq_true, Option.isNone_iff_eq_none, isBelow_iff,
      Option.isSome_iff_exists] at hw
    obtain ⟨⟨⟨⟨⟨⟨⟨⟨⟨hseg, ⟨m, rfl⟩⟩, rfl⟩, rfl⟩, rfl⟩, rfl⟩, rfl⟩, ⟨i, rfl, hi⟩⟩, ⟨v, rfl, hv⟩⟩, rfl⟩ := hw
    rcases seg with _ | (_ | _)
    · simp at hseg
    · simp only [Option.isNone_iff_eq_none, Bool.and_eq_true] at hseg
      obtain ⟨rfl, rfl⟩ := hseg
      cases m <;>
        simp [encodeApci, decodeApci, putOctet, putSeqWin, truthy, flagBit, getU8,
          getSeqWin, bitSet, hi, hv, bind, Except.bind, pure, Except.pure] <;> omega
    · simp only [isBelow_iff, Bool.and_eq_true] at hseg
      obtain ⟨⟨q, rfl, hq⟩, ⟨w, rfl, hw'⟩⟩ := hseg
      cases m <;>
        simp [encodeApci, decodeApci, putOctet, putSeqWin, truthy, flagBit, getU8,
          getSeqWin, bitSet, hi, hv, hq, hw', bind, Except.bind, pure, Except.pure] <;> omega
  | 4 =>
    simp only [WFHeader, Bool.and_eq_true, Option.isNone_iff_eq_none, isBelow_iff,
      Option.isSome_iff_exists] at hw
    obtain ⟨⟨⟨⟨⟨⟨⟨⟨⟨⟨⟨rfl, rfl⟩, rfl⟩, ⟨s, rfl⟩⟩, ⟨k, rfl⟩⟩, ⟨q, rfl, hq⟩⟩, ⟨w, rfl, hw'⟩⟩, rfl⟩, rfl⟩,
      rfl⟩, ⟨i, rfl, hi⟩⟩, rfl⟩ := hw
    cases s <;> cases k <;>
      simp [encodeApci, decodeApci, putOctet, truthy, flagBit, getU8, bitSet, hi, hq, hw',
        bind, Except.bind, pure, Except.pure] <;> omega
  | 5 =>
    simp only [WFHeader, Bool.and_eq_true, Option.isNone_iff_eq_none, isBelow_iff] at hw
    obtain ⟨⟨⟨⟨⟨⟨⟨⟨⟨⟨⟨rfl, rfl⟩, rfl⟩, rfl⟩, rfl⟩, rfl⟩, rfl⟩, rfl⟩, rfl⟩, ⟨v, rfl, hv⟩⟩,
      ⟨i, rfl, hi⟩⟩, rfl⟩ := hw
    simp [encodeApci, decodeApci, putOctet, getU8, hv, hi, bind, Except.bind, pure, Except.pure]
  | 6 =>
    simp only [WFHeader, Bool.and_eq_true, Option.isNone_iff_eq_none, isBelow_iff] at hw
    obtain ⟨⟨⟨⟨⟨⟨⟨⟨⟨⟨⟨rfl, rfl⟩, rfl⟩, rfl⟩, rfl⟩, rfl⟩, rfl⟩, rfl⟩, rfl⟩, rfl⟩,
      ⟨i, rfl, hi⟩⟩, ⟨x, rfl, hx⟩⟩ := hw
    simp [encodeApci, decodeApci, putOctet, getU8, hx, hi, bind, Except.bind, pure, Except.pure]
  | 7 =>
    simp only [WFHeader, Bool.and_eq_true, Option.isNone_iff_eq_none, isBelow_iff,
      Option.isSome_iff_exists] at hw
    obtain ⟨⟨⟨⟨⟨⟨⟨⟨⟨⟨⟨rfl, rfl⟩, rfl⟩, ⟨s, rfl⟩⟩, rfl⟩, rfl⟩, rfl⟩, rfl⟩, rfl⟩, rfl⟩,
      ⟨i, rfl, hi⟩⟩, ⟨x, rfl, hx⟩⟩ := hw
    cases s <;>
      simp [encodeApci, decodeApci, putOctet, truthy, flagBit, getU8, bitSet, hx, hi,
        bind, Except.bind, pure, Except.pure] <;> omega
  | n + 8 => simp [WFHeader] at hw

theorem getData_all (bs : Bytes) : getData bs.length bs = .ok (bs, []) := by
  simp [getData]

/-- `APDU.decode` and `APCI.decode` return the same header and the same octets
    (the `get_data(len(...))` of `APDU.decode` always takes everything left) -/
theorem decodeApdu_eq (bs : Bytes) : decodeApdu bs = decodeApci bs := by
  unfold decodeApdu
  cases h : decodeApci bs with
  | error e => simp [bind, Except.bind]
  | ok p => obtain ⟨a, r⟩ := p; simp [bind, Except.bind, getData_all, pure, Except.pure]

/-- the same through the observation points `APDU.encode` / `APDU.decode` -/
theorem apdu_roundtrip (h : Apci) (hw : WFHeader h = true) (payload : Bytes) :
    ∃ bs, encodeApdu h payload = .ok bs ∧ decodeApdu bs = .ok (h, payload) := by
  obtain ⟨hdr, he, hd⟩ := apci_roundtrip h hw payload
  exact ⟨hdr ++ payload, by simp [encodeApdu, he, bind, Except.bind, pure, Except.pure],
    by rw [decodeApdu_eq, hd]⟩

/-- a well-formed header always encodes -/
theorem wf_encodes (h : Apci) (hw : WFHeader h = true) : ∃ hdr, encodeApci h = .ok hdr := by
  obtain ⟨hdr, he, _⟩ := apci_roundtrip h hw []
  exact ⟨hdr, he⟩

/-! ## totality of the decoder -/

theorem apci_total (bs : Bytes) :
    (∃ h rest, decodeApci bs = .ok (h, rest)) ∨ decodeApci bs = .error .decoding := by
  rcases bs with _ | ⟨b, r⟩
  · simp [decodeApci, getU8, bind, Except.bind]
  · simp only [decodeApci, getU8, bind, Except.bind]
    cases hs : bitSet b.toNat 8 <;> split <;>
    rcases r with _ | ⟨b1, _ | ⟨b2, _ | ⟨b3, _ | ⟨b4, _ | ⟨b5, r⟩⟩⟩⟩⟩ <;>
    simp [getU8, getSeqWin, bind, Except.bind, pure, Except.pure]

/-- everything the decoder can return: a well-formed header of its type, having
    consumed exactly `apciLen h` octets from the front and nothing else -/
theorem decode_spec (bs : Bytes) (h : Apci) (rest : Bytes)
    (hd : decodeApci bs = .ok (h, rest)) :
    WFHeader h = true ∧ apciLen h ≤ bs.length ∧ rest = bs.drop (apciLen h) := by
  rcases bs with _ | ⟨b, r⟩
  · simp [decodeApci, getU8, bind, Except.bind] at hd
  · simp only [decodeApci, getU8, bind, Except.bind] at hd
    cases hs : bitSet b.toNat 8 <;> rw [hs] at hd <;> split at hd <;>
    rcases r with _ | ⟨b1, _ | ⟨b2, _ | ⟨b3, _ | ⟨b4, _ | ⟨b5, r⟩⟩⟩⟩⟩ <;>
    simp [getU8, getSeqWin, bind, Except.bind, pure, Except.pure] at hd <;>
    obtain ⟨rfl, rfl⟩ := hd <;>
    simp [WFHeader, segFields, isBelow, apciLen, truthy, u8lt] <;> omega

/-- the decoder only ever produces well-formed headers -/
theorem decode_wf (bs : Bytes) (h : Apci) (rest : Bytes)
    (hd : decodeApci bs = .ok (h, rest)) : WFHeader h = true :=
  (decode_spec bs h rest hd).1

/-- no over-read, payload untouched: the input is the consumed header octets
    followed by exactly the returned payload -/
theorem decode_suffix (bs : Bytes) (h : Apci) (rest : Bytes)
    (hd : decodeApci bs = .ok (h, rest)) :
    bs = bs.take (apciLen h) ++ rest ∧ (bs.take (apciLen h)).length = apciLen h := by
  obtain ⟨_, hl, rfl⟩ := decode_spec bs h rest hd
  simp [List.length_take, Nat.min_eq_left hl]

/-- what decodes, re-encodes, and the re-encoding (reserved bits cleared)
    decodes to the same header and payload -/
theorem reparse_stable (bs : Bytes) (h : Apci) (rest : Bytes)
    (hd : decodeApci bs = .ok (h, rest)) :
    ∃ hdr, encodeApci h = .ok hdr ∧ decodeApci (hdr ++ rest) = .ok (h, rest) :=
  apci_roundtrip h (decode_wf bs h rest hd) rest

/-- the encoder writes `apciLen h` octets -/
theorem encode_length (h : Apci) (hdr : Bytes) (he : encodeApci h = .ok hdr) :
    hdr.length = apciLen h := by
  have hs : ∀ sw, putSeqWin h = .ok sw → sw.length = if truthy h.seg then 2 else 0 := by
    intro sw; unfold putSeqWin
    cases truthy h.seg <;> cases putOctet h.seq <;> cases putOctet h.win <;>
      simp [bind, Except.bind, pure, Except.pure] <;> intro e <;> subst e <;> rfl
  unfold encodeApci at he
  unfold apciLen
  simp only [bind, Except.bind, pure, Except.pure] at he
  repeat' split at he
  all_goals first
    | (cases he; done)
    | (injection he with he; subst he
       first
         | rfl
         | (have := hs _ ‹_›; simp_all; done)
         | (have := hs _ ‹_›; split <;> simp_all))

/-! ## exactly which octet strings are refused -/

theorem decode_refuses_empty : decodeApci [] = .error .decoding := by
  simp [decodeApci, getU8, bind, Except.bind]

/-- type nibble 8..15: `DecodingError("invalid APDU type")` whatever follows -/
theorem decode_refuses_type (b : UInt8) (r : Bytes) (ht : 8 ≤ b.toNat / 16 % 16) :
    decodeApci (b :: r) = .error .decoding := by
  simp only [decodeApci, getU8, bind, Except.bind]
  split <;> first | omega | rfl

/-- fewer octets than the type (and its segmented flag) needs:
    `DecodingError("no more packet data")` -/
theorem decode_short (b : UInt8) (r : Bytes) (hl : r.length + 1 < apciNeed b.toNat) :
    decodeApci (b :: r) = .error .decoding := by
  simp only [decodeApci, getU8, bind, Except.bind]
  simp only [apciNeed] at hl
  cases hs : bitSet b.toNat 8 <;> rw [hs] at hl <;> split <;>
  rcases r with _ | ⟨b1, _ | ⟨b2, _ | ⟨b3, _ | ⟨b4, _ | ⟨b5, r⟩⟩⟩⟩⟩ <;>
  simp_all [getU8, getSeqWin, bind, Except.bind, pure, Except.pure] <;> omega

/-- a known type nibble and enough octets: a header comes out -/
theorem decode_long (b : UInt8) (r : Bytes) (ht : b.toNat / 16 % 16 < 8)
    (hl : apciNeed b.toNat ≤ r.length + 1) :
    ∃ h rest, decodeApci (b :: r) = .ok (h, rest) := by
  rcases apci_total (b :: r) with h | h
  · exact h
  · exfalso
    simp only [decodeApci, getU8, bind, Except.bind] at h
    simp only [apciNeed] at hl
    revert h hl
    cases hs : bitSet b.toNat 8 <;> split <;>
    rcases r with _ | ⟨b1, _ | ⟨b2, _ | ⟨b3, _ | ⟨b4, _ | ⟨b5, r⟩⟩⟩⟩⟩ <;>
    simp_all [getU8, getSeqWin, bind, Except.bind, pure, Except.pure] <;> omega

/-! ## the two code tables -/

/-- the Python lists, regenerated from the live module on every run
    (`translator/c07.py` → `Gen/ApduTables.lean`), are the model's tables,
    i.e. the tables of clauses 20.1.2.4 and 20.1.2.5 -/
theorem py_tables_match :
    Gen.pyMaxSegsTable = maxSegsTable ∧ Gen.pyMaxApduTable = maxApduTable := by
  decide

/-- `apdu_types` registers exactly the eight classes under their type numbers,
    and the `pduType` constants are the ones the model's branches use -/
theorem py_registry_match :
    Gen.pyApduTypes =
      [(tConfirmedRequest, "ConfirmedRequestPDU"), (tUnconfirmedRequest, "UnconfirmedRequestPDU"),
       (tSimpleAck, "SimpleAckPDU"), (tComplexAck, "ComplexAckPDU"),
       (tSegmentAck, "SegmentAckPDU"), (tError, "ErrorPDU"), (tReject, "RejectPDU"),
       (tAbort, "AbortPDU")] ∧
    Gen.pyPduTypeOf =
      [("AbortPDU", tAbort), ("ComplexAckPDU", tComplexAck),
       ("ConfirmedRequestPDU", tConfirmedRequest), ("ErrorPDU", tError), ("RejectPDU", tReject),
       ("SegmentAckPDU", tSegmentAck), ("SimpleAckPDU", tSimpleAck),
       ("UnconfirmedRequestPDU", tUnconfirmedRequest)] := by
  decide

/-- the index ranges the two encoder loops visit (1..6 and 0..5) only meet
    numeric entries — the `None <= arg` `TypeError` is unreachable -/
theorem scan_ranges_numeric :
    (∀ i : Fin 7, 1 ≤ i.val → ∃ v, maxSegsTable[i.val]? = some (some v)) ∧
    (∀ i : Fin 6, ∃ v, maxApduTable[i.val]? = some (some v)) := by
  constructor
  · intro i hi
    match i, hi with
    | ⟨1, _⟩, _ => exact ⟨_, rfl⟩
    | ⟨2, _⟩, _ => exact ⟨_, rfl⟩
    | ⟨3, _⟩, _ => exact ⟨_, rfl⟩
    | ⟨4, _⟩, _ => exact ⟨_, rfl⟩
    | ⟨5, _⟩, _ => exact ⟨_, rfl⟩
    | ⟨6, _⟩, _ => exact ⟨_, rfl⟩
  · intro i
    match i with
    | ⟨0, _⟩ => exact ⟨_, rfl⟩
    | ⟨1, _⟩ => exact ⟨_, rfl⟩
    | ⟨2, _⟩ => exact ⟨_, rfl⟩
    | ⟨3, _⟩ => exact ⟨_, rfl⟩
    | ⟨4, _⟩ => exact ⟨_, rfl⟩
    | ⟨5, _⟩ => exact ⟨_, rfl⟩

/-- closed form of `encode_max_apdu_length_accepted` -/
theorem encodeMaxApdu_eq (n : Nat) :
    encodeMaxApdu n =
      if 1476 ≤ n then .ok 5 else if 1024 ≤ n then .ok 4 else if 480 ≤ n then .ok 3
      else if 206 ≤ n then .ok 2 else if 128 ≤ n then .ok 1 else if 50 ≤ n then .ok 0
      else .error .valueRange := by
  simp only [encodeMaxApdu, scanDown, maxApduTable]
  repeat' split
  all_goals simp_all

/-- the codes that decode, and their values -/
theorem decodeMaxApdu_ok (c v : Nat) (h : decodeMaxApdu c = .ok v) :
    (c = 0 ∧ v = 50) ∨ (c = 1 ∧ v = 128) ∨ (c = 2 ∧ v = 206) ∨ (c = 3 ∧ v = 480) ∨
    (c = 4 ∧ v = 1024) ∨ (c = 5 ∧ v = 1476) := by
  rcases c with _|_|_|_|_|_|_|_|_|_|_|_|_|_|_|_|c <;>
    simp [decodeMaxApdu, maxApduTable] at h <;> omega

/-- **round down, never up, and the best such code** (max APDU length): the
    chosen code means at most the local capability, and no code that decodes
    means more without exceeding the capability -/
theorem maxapdu_floor (n c : Nat) (h : encodeMaxApdu n = .ok c) :
    ∃ v, decodeMaxApdu c = .ok v ∧ v ≤ n ∧
      ∀ c' v', decodeMaxApdu c' = .ok v' → v' ≤ n → v' ≤ v := by
  rw [encodeMaxApdu_eq] at h
  repeat' split at h
  all_goals first
    | (cases h; done)
    | (injection h with h; subst h
       refine ⟨_, rfl, by omega, ?_⟩
       intro c' v' hd hle
       rcases decodeMaxApdu_ok c' v' hd with ⟨_, rfl⟩ | ⟨_, rfl⟩ | ⟨_, rfl⟩ | ⟨_, rfl⟩ |
         ⟨_, rfl⟩ | ⟨_, rfl⟩ <;> omega)

/-- capabilities below the smallest table entry are refused, all others encode -/
theorem maxapdu_refused (n : Nat) :
    (n < 50 → encodeMaxApdu n = .error .valueRange) ∧
    (50 ≤ n → ∃ c, c < 6 ∧ encodeMaxApdu n = .ok c) := by
  rw [encodeMaxApdu_eq]
  constructor
  · intro h; repeat' split
    all_goals first | omega | rfl
  · intro h; repeat' split
    all_goals first | omega | exact ⟨_, by decide, rfl⟩

/-- `decode ∘ encode` is the identity on the table points -/
theorem maxapdu_decode_encode (c v : Nat) (h : decodeMaxApdu c = .ok v) :
    encodeMaxApdu v = .ok c := by
  rcases decodeMaxApdu_ok c v h with ⟨rfl, rfl⟩ | ⟨rfl, rfl⟩ | ⟨rfl, rfl⟩ | ⟨rfl, rfl⟩ |
    ⟨rfl, rfl⟩ | ⟨rfl, rfl⟩ <;> rfl

/-- `encode` only produces codes that decode (never a reserved code) -/
theorem maxapdu_encode_decode (n c : Nat) (h : encodeMaxApdu n = .ok c) :
    ∃ v, decodeMaxApdu c = .ok v ∧ encodeMaxApdu v = .ok c := by
  obtain ⟨v, hv, _, _⟩ := maxapdu_floor n c h
  exact ⟨v, hv, maxapdu_decode_encode c v hv⟩

/-- reserved codes 6..15 are refused (`ValueError`), indices outside the list
    fail differently (`IndexError`) -/
theorem maxapdu_reserved (c : Nat) :
    (6 ≤ c → c < 16 → decodeMaxApdu c = .error .valueRange) ∧
    (16 ≤ c → decodeMaxApdu c = .error .other) := by
  constructor
  · intro h1 h2
    rcases c with _|_|_|_|_|_|_|_|_|_|_|_|_|_|_|_|c <;>
      first | omega | simp [decodeMaxApdu, maxApduTable]
  · intro h
    have : maxApduTable[c]? = none := by
      apply List.getElem?_eq_none; simp [maxApduTable]; omega
    simp [decodeMaxApdu, this]

/-- which capabilities get which code -/
theorem encodeMaxApdu_spec (n c : Nat) (h : encodeMaxApdu n = .ok c) :
    (c = 5 ∧ 1476 ≤ n) ∨ (c = 4 ∧ 1024 ≤ n ∧ n < 1476) ∨ (c = 3 ∧ 480 ≤ n ∧ n < 1024) ∨
    (c = 2 ∧ 206 ≤ n ∧ n < 480) ∨ (c = 1 ∧ 128 ≤ n ∧ n < 206) ∨ (c = 0 ∧ 50 ≤ n ∧ n < 128) := by
  rw [encodeMaxApdu_eq] at h
  repeat' split at h
  all_goals first
    | (cases h; done)
    | (injection h with h; omega)

/-- a larger capability never gets a smaller code -/
theorem maxapdu_mono (n m c d : Nat) (hnm : n ≤ m)
    (hn : encodeMaxApdu n = .ok c) (hm : encodeMaxApdu m = .ok d) : c ≤ d := by
  have a := encodeMaxApdu_spec n c hn
  have b := encodeMaxApdu_spec m d hm
  omega

/-- closed form of `encode_max_segments_accepted` on numbers -/
theorem encodeMaxSegs_eq (n : Nat) :
    encodeMaxSegs (some n) =
      if n = 0 then .ok 0 else if 64 < n then .ok 7 else if 64 ≤ n then .ok 6
      else if 32 ≤ n then .ok 5 else if 16 ≤ n then .ok 4 else if 8 ≤ n then .ok 3
      else if 4 ≤ n then .ok 2 else if 2 ≤ n then .ok 1 else .error .valueRange := by
  simp only [encodeMaxSegs, scanDown, maxSegsTable]
  repeat' split
  all_goals simp_all

/-- the codes and their meanings; `none` = no number (unspecified / more than 64) -/
theorem decodeMaxSegs_ok (c : Nat) (v : Option Nat) (h : decodeMaxSegs c = .ok v) :
    (c = 0 ∧ v = none) ∨ (c = 1 ∧ v = some 2) ∨ (c = 2 ∧ v = some 4) ∨ (c = 3 ∧ v = some 8) ∨
    (c = 4 ∧ v = some 16) ∨ (c = 5 ∧ v = some 32) ∨ (c = 6 ∧ v = some 64) ∨
    (c = 7 ∧ v = none) := by
  rcases c with _|_|_|_|_|_|_|_|c <;>
    simp [decodeMaxSegs, maxSegsTable] at h <;> simp [← h]

/-- **round down, never up, and the best such code** (max segments) for every
    capability with a finite table meaning: 2..64 -/
theorem maxseg_floor (n : Nat) (h2 : 2 ≤ n) (h64 : n ≤ 64) :
    ∃ c v, encodeMaxSegs (some n) = .ok c ∧ decodeMaxSegs c = .ok (some v) ∧ v ≤ n ∧
      ∀ c' v', decodeMaxSegs c' = .ok (some v') → v' ≤ n → v' ≤ v := by
  rw [encodeMaxSegs_eq]
  repeat' split
  all_goals first
    | omega
    | (refine ⟨_, _, rfl, rfl, by omega, ?_⟩
       intro c' v' hd hle
       rcases decodeMaxSegs_ok c' _ hd with ⟨_, hv⟩ | ⟨_, hv⟩ | ⟨_, hv⟩ | ⟨_, hv⟩ | ⟨_, hv⟩ |
         ⟨_, hv⟩ | ⟨_, hv⟩ | ⟨_, hv⟩ <;> simp at hv <;> omega)

/-- above 64 the code is 7 ("more than 64 segments" — true of the capability,
    and every numeric code would understate it); it decodes to "no bound" -/
theorem maxseg_over64 (n : Nat) (h : 64 < n) :
    encodeMaxSegs (some n) = .ok 7 ∧ decodeMaxSegs 7 = .ok none ∧
    ∀ c' v', decodeMaxSegs c' = .ok (some v') → v' < n := by
  refine ⟨?_, rfl, ?_⟩
  · rw [encodeMaxSegs_eq, if_neg (by omega), if_pos h]
  · intro c' v' hd
    rcases decodeMaxSegs_ok c' _ hd with ⟨_, hv⟩ | ⟨_, hv⟩ | ⟨_, hv⟩ | ⟨_, hv⟩ | ⟨_, hv⟩ |
      ⟨_, hv⟩ | ⟨_, hv⟩ | ⟨_, hv⟩ <;> simp at hv <;> omega

/-- `None` and 0 are "unspecified": code 0, which decodes to "no bound" -/
theorem maxseg_unspecified :
    encodeMaxSegs none = .ok 0 ∧ encodeMaxSegs (some 0) = .ok 0 ∧ decodeMaxSegs 0 = .ok none :=
  ⟨rfl, rfl, rfl⟩

/-- one segment is refused -/
theorem maxseg_one_refused : encodeMaxSegs (some 1) = .error .valueRange := rfl

/-- `encode ∘ decode` on the eight codes: identity, except that 7 and 0 both
    mean "no bound" and re-encode as 0 -/
theorem maxseg_decode_encode (c : Nat) (v : Option Nat) (h : decodeMaxSegs c = .ok v) :
    encodeMaxSegs v = .ok (if c = 7 then 0 else c) := by
  rcases decodeMaxSegs_ok c v h with ⟨rfl, rfl⟩ | ⟨rfl, rfl⟩ | ⟨rfl, rfl⟩ | ⟨rfl, rfl⟩ |
    ⟨rfl, rfl⟩ | ⟨rfl, rfl⟩ | ⟨rfl, rfl⟩ | ⟨rfl, rfl⟩ <;> rfl

/-- `encode` only produces codes 0..7, all of which decode -/
theorem maxseg_encode_decode (a : Option Nat) (c : Nat) (h : encodeMaxSegs a = .ok c) :
    c < 8 ∧ ∃ v, decodeMaxSegs c = .ok v := by
  cases a with
  | none => cases h; exact ⟨by decide, _, rfl⟩
  | some n =>
    rw [encodeMaxSegs_eq] at h
    repeat' split at h
    all_goals first
      | (cases h; done)
      | (injection h with h; subst h; exact ⟨by decide, _, rfl⟩)

/-- codes outside 0..7 are not in the list (`IndexError`) -/
theorem maxseg_out_of_table (c : Nat) (h : 8 ≤ c) : decodeMaxSegs c = .error .other := by
  have : maxSegsTable[c]? = none := by
    apply List.getElem?_eq_none; simp [maxSegsTable]; omega
  simp [decodeMaxSegs, this]

/-- which capabilities get which code -/
theorem encodeMaxSegs_spec (n c : Nat) (h : encodeMaxSegs (some n) = .ok c) :
    (c = 0 ∧ n = 0) ∨ (c = 7 ∧ 64 < n) ∨ (c = 6 ∧ n = 64) ∨ (c = 5 ∧ 32 ≤ n ∧ n < 64) ∨
    (c = 4 ∧ 16 ≤ n ∧ n < 32) ∨ (c = 3 ∧ 8 ≤ n ∧ n < 16) ∨ (c = 2 ∧ 4 ≤ n ∧ n < 8) ∨
    (c = 1 ∧ 2 ≤ n ∧ n < 4) := by
  rw [encodeMaxSegs_eq] at h
  repeat' split at h
  all_goals first
    | (cases h; done)
    | (injection h with h; omega)

/-- a larger (specified) capability never gets a smaller code -/
theorem maxseg_mono (n m c d : Nat) (h0 : 0 < n) (hnm : n ≤ m)
    (hn : encodeMaxSegs (some n) = .ok c) (hm : encodeMaxSegs (some m) = .ok d) : c ≤ d := by
  have a := encodeMaxSegs_spec n c hn
  have b := encodeMaxSegs_spec m d hm
  omega

/-! ## clause 20.1 layouts, octet by octet

  Written with shifts and ors exactly as the clause draws the octets
  (bit 7 left … bit 0 right):

      BACnet-Confirmed-Request-PDU   | PDU type = 0 (4 bits) |SEG|MOR|SA | 0 |
                                     | 0 | max segs (3 bits) | max resp (4 bits) |
                                     | invoke ID |
                                     | sequence number |        only if SEG = 1
                                     | proposed window size |   only if SEG = 1
                                     | service choice | service request …
      BACnet-Unconfirmed-Request-PDU | PDU type = 1 | 0 0 0 0 | service choice | …
      BACnet-SimpleACK-PDU           | PDU type = 2 | 0 0 0 0 | invoke ID | service ACK choice |
      BACnet-ComplexACK-PDU          | PDU type = 3 |SEG|MOR| 0 | 0 | invoke ID |
                                     | sequence number | proposed window size |   only if SEG = 1
                                     | service ACK choice | service ACK …
      BACnet-SegmentACK-PDU          | PDU type = 4 | 0 | 0 |NAK|SRV| invoke ID |
                                     | sequence number | actual window size |
      BACnet-Error-PDU               | PDU type = 5 | 0 0 0 0 | invoke ID | error choice | error …
      BACnet-Reject-PDU              | PDU type = 6 | 0 0 0 0 | invoke ID | reject reason |
      BACnet-Abort-PDU               | PDU type = 7 | 0 | 0 | 0 |SRV| invoke ID | abort reason |

  These theorems restate the model in the notation of the standard; they are
  the reviewable link between the two and are trusted as such (the text of the
  standard is not available to the machine).
-/

/-- a flag as the bit the clause draws -/
def bit (b : Bool) : Nat := if b then 1 else 0

theorem shl4_or : ∀ a : Fin 8, ∀ b : Fin 16, a.val <<< 4 ||| b.val = a.val * 16 + b.val := by
  decide

theorem apci_layout_confirmed (seg mor sa : Bool) (ms mr inv sq wn svc : Nat)
    (hms : ms < 8) (hmr : mr < 16) (hinv : inv < 256) (hsq : sq < 256) (hwn : wn < 256)
    (hsvc : svc < 256) :
    encodeApci { apduType := 0, seg := some seg, mor := some mor, sa := some sa,
                 maxSegs := some ms, maxResp := some mr, invokeID := some inv,
                 seq := if seg then some sq else none, win := if seg then some wn else none,
                 service := some svc } =
      .ok ([UInt8.ofNat (0 <<< 4 ||| bit seg <<< 3 ||| bit mor <<< 2 ||| bit sa <<< 1),
            UInt8.ofNat (ms <<< 4 ||| mr), UInt8.ofNat inv]
           ++ (if seg then [UInt8.ofNat sq, UInt8.ofNat wn] else [])
           ++ [UInt8.ofNat svc]) := by
  have h1 := shl4_or ⟨ms, hms⟩ ⟨mr, hmr⟩
  simp only at h1
  have h2 : ms * 16 + mr < 256 := by omega
  cases seg <;> cases mor <;> cases sa <;>
    simp [encodeApci, putOctet, maxOctet, putSeqWin, truthy, flagBit, bit, h1, h2, hinv, hsq, hwn,
      hsvc, bind, Except.bind, pure, Except.pure]

theorem apci_layout_unconfirmed (svc : Nat) (hsvc : svc < 256) :
    encodeApci { apduType := 1, service := some svc } =
      .ok [UInt8.ofNat (1 <<< 4), UInt8.ofNat svc] := by
  simp [encodeApci, putOctet, hsvc, bind, Except.bind, pure, Except.pure]

theorem apci_layout_simpleAck (inv svc : Nat) (hinv : inv < 256) (hsvc : svc < 256) :
    encodeApci { apduType := 2, invokeID := some inv, service := some svc } =
      .ok [UInt8.ofNat (2 <<< 4), UInt8.ofNat inv, UInt8.ofNat svc] := by
  simp [encodeApci, putOctet, hinv, hsvc, bind, Except.bind, pure, Except.pure]

theorem apci_layout_complexAck (seg mor : Bool) (inv sq wn svc : Nat)
    (hinv : inv < 256) (hsq : sq < 256) (hwn : wn < 256) (hsvc : svc < 256) :
    encodeApci { apduType := 3, seg := some seg, mor := some mor, invokeID := some inv,
                 seq := if seg then some sq else none, win := if seg then some wn else none,
                 service := some svc } =
      .ok ([UInt8.ofNat (3 <<< 4 ||| bit seg <<< 3 ||| bit mor <<< 2), UInt8.ofNat inv]
           ++ (if seg then [UInt8.ofNat sq, UInt8.ofNat wn] else [])
           ++ [UInt8.ofNat svc]) := by
  cases seg <;> cases mor <;>
    simp [encodeApci, putOctet, putSeqWin, truthy, flagBit, bit, hinv, hsq, hwn,
      hsvc, bind, Except.bind, pure, Except.pure]

theorem apci_layout_segmentAck (nak srv : Bool) (inv sq wn : Nat)
    (hinv : inv < 256) (hsq : sq < 256) (hwn : wn < 256) :
    encodeApci { apduType := 4, nak := some nak, srv := some srv, invokeID := some inv,
                 seq := some sq, win := some wn } =
      .ok [UInt8.ofNat (4 <<< 4 ||| bit nak <<< 1 ||| bit srv), UInt8.ofNat inv,
           UInt8.ofNat sq, UInt8.ofNat wn] := by
  cases nak <;> cases srv <;>
    simp [encodeApci, putOctet, truthy, flagBit, bit, hinv, hsq, hwn,
      bind, Except.bind, pure, Except.pure]

theorem apci_layout_error (inv svc : Nat) (hinv : inv < 256) (hsvc : svc < 256) :
    encodeApci { apduType := 5, invokeID := some inv, service := some svc } =
      .ok [UInt8.ofNat (5 <<< 4), UInt8.ofNat inv, UInt8.ofNat svc] := by
  simp [encodeApci, putOctet, hinv, hsvc, bind, Except.bind, pure, Except.pure]

theorem apci_layout_reject (inv rsn : Nat) (hinv : inv < 256) (hrsn : rsn < 256) :
    encodeApci { apduType := 6, invokeID := some inv, reason := some rsn } =
      .ok [UInt8.ofNat (6 <<< 4), UInt8.ofNat inv, UInt8.ofNat rsn] := by
  simp [encodeApci, putOctet, hinv, hrsn, bind, Except.bind, pure, Except.pure]

theorem apci_layout_abort (srv : Bool) (inv rsn : Nat) (hinv : inv < 256) (hrsn : rsn < 256) :
    encodeApci { apduType := 7, srv := some srv, invokeID := some inv, reason := some rsn } =
      .ok [UInt8.ofNat (7 <<< 4 ||| bit srv), UInt8.ofNat inv, UInt8.ofNat rsn] := by
  cases srv <;>
    simp [encodeApci, putOctet, truthy, flagBit, bit, hinv, hrsn,
      bind, Except.bind, pure, Except.pure]

/-- anything but the eight types: `ValueError("invalid APCI.apduType")` -/
theorem encode_refuses_type (h : Apci) (ht : 8 ≤ h.apduType) : encodeApci h = .error .other := by
  unfold encodeApci
  split <;> first | omega | rfl

/-- the encoder fails on nothing but a bad type or an unencodable field -/
theorem encode_errors (h : Apci) (e : Err) (he : encodeApci h = .error e) :
    e = .other ∨ e = .encoding := by
  have hp : ∀ o x, putOctet o = .error x → x = .encoding := by
    intro o x; unfold putOctet; split
    · split <;> simp <;> intro e <;> exact e.symm
    · simp; intro e; exact e.symm
  have hs : ∀ x, putSeqWin h = .error x → x = .encoding := by
    intro x; unfold putSeqWin
    cases truthy h.seg <;> cases h6 : putOctet h.seq <;> cases h7 : putOctet h.win <;>
      simp [bind, Except.bind, pure, Except.pure] <;> intro e <;> subst e <;>
      first | exact hp _ _ h6 | exact hp _ _ h7
  unfold encodeApci at he
  simp only [bind, Except.bind, pure, Except.pure] at he
  repeat' split at he
  all_goals first
    | (cases he; done)
    | (injection he with he; subst he
       first
         | exact Or.inl rfl
         | exact Or.inr (hp _ _ ‹_›)
         | exact Or.inr (hs _ ‹_›))

/-! ## the round trip spelled out per PDU type (corollaries of `apci_roundtrip`)

  One statement per type, quantified over ALL values of every field of the
  type and over every payload. -/

theorem apci_roundtrip_confirmed (seg mor sa : Bool) (ms mr inv sq wn svc : Nat)
    (hms : ms < 8) (hmr : mr < 16) (hinv : inv < 256) (hsq : sq < 256) (hwn : wn < 256)
    (hsvc : svc < 256) (payload : Bytes) :
    let h : Apci := { apduType := 0, seg := some seg, mor := some mor, sa := some sa,
                      maxSegs := some ms, maxResp := some mr, invokeID := some inv,
                      seq := if seg then some sq else none, win := if seg then some wn else none,
                      service := some svc }
    ∃ hdr, encodeApci h = .ok hdr ∧ decodeApci (hdr ++ payload) = .ok (h, payload) :=
  apci_roundtrip _ (by cases seg <;> simp [WFHeader, segFields, isBelow, *]) payload

theorem apci_roundtrip_unconfirmed (svc : Nat) (hsvc : svc < 256) (payload : Bytes) :
    let h : Apci := { apduType := 1, service := some svc }
    ∃ hdr, encodeApci h = .ok hdr ∧ decodeApci (hdr ++ payload) = .ok (h, payload) :=
  apci_roundtrip _ (by simp [WFHeader, isBelow, *]) payload

theorem apci_roundtrip_simpleAck (inv svc : Nat) (hinv : inv < 256) (hsvc : svc < 256)
    (payload : Bytes) :
    let h : Apci := { apduType := 2, invokeID := some inv, service := some svc }
    ∃ hdr, encodeApci h = .ok hdr ∧ decodeApci (hdr ++ payload) = .ok (h, payload) :=
  apci_roundtrip _ (by simp [WFHeader, isBelow, *]) payload

theorem apci_roundtrip_complexAck (seg mor : Bool) (inv sq wn svc : Nat)
    (hinv : inv < 256) (hsq : sq < 256) (hwn : wn < 256) (hsvc : svc < 256) (payload : Bytes) :
    let h : Apci := { apduType := 3, seg := some seg, mor := some mor, invokeID := some inv,
                      seq := if seg then some sq else none, win := if seg then some wn else none,
                      service := some svc }
    ∃ hdr, encodeApci h = .ok hdr ∧ decodeApci (hdr ++ payload) = .ok (h, payload) :=
  apci_roundtrip _ (by cases seg <;> simp [WFHeader, segFields, isBelow, *]) payload

theorem apci_roundtrip_segmentAck (nak srv : Bool) (inv sq wn : Nat)
    (hinv : inv < 256) (hsq : sq < 256) (hwn : wn < 256) (payload : Bytes) :
    let h : Apci := { apduType := 4, nak := some nak, srv := some srv, invokeID := some inv,
                      seq := some sq, win := some wn }
    ∃ hdr, encodeApci h = .ok hdr ∧ decodeApci (hdr ++ payload) = .ok (h, payload) :=
  apci_roundtrip _ (by simp [WFHeader, isBelow, *]) payload

theorem apci_roundtrip_error (inv svc : Nat) (hinv : inv < 256) (hsvc : svc < 256)
    (payload : Bytes) :
    let h : Apci := { apduType := 5, invokeID := some inv, service := some svc }
    ∃ hdr, encodeApci h = .ok hdr ∧ decodeApci (hdr ++ payload) = .ok (h, payload) :=
  apci_roundtrip _ (by simp [WFHeader, isBelow, *]) payload

theorem apci_roundtrip_reject (inv rsn : Nat) (hinv : inv < 256) (hrsn : rsn < 256)
    (payload : Bytes) :
    let h : Apci := { apduType := 6, invokeID := some inv, reason := some rsn }
    ∃ hdr, encodeApci h = .ok hdr ∧ decodeApci (hdr ++ payload) = .ok (h, payload) :=
  apci_roundtrip _ (by simp [WFHeader, isBelow, *]) payload

theorem apci_roundtrip_abort (srv : Bool) (inv rsn : Nat) (hinv : inv < 256) (hrsn : rsn < 256)
    (payload : Bytes) :
    let h : Apci := { apduType := 7, srv := some srv, invokeID := some inv, reason := some rsn }
    ∃ hdr, encodeApci h = .ok hdr ∧ decodeApci (hdr ++ payload) = .ok (h, payload) :=
  apci_roundtrip _ (by simp [WFHeader, isBelow, *]) payload

/-! ## the model's constructors build well-formed headers (for the protocol models) -/

/-- in-range optional (sequence, window) pair -/
def swOk : Option (Nat × Nat) → Bool
  | none => true
  | some (s, w) => decide (s < 256) && decide (w < 256)

theorem wf_mkConfirmed (sw : Option (Nat × Nat)) (mor sa : Bool) (ms mr inv svc : Nat)
    (hsw : swOk sw = true) (hms : ms < 8) (hmr : mr < 16) (hinv : inv < 256) (hsvc : svc < 256) :
    WFHeader (Apci.mkConfirmed sw mor sa ms mr inv svc) = true := by
  rcases sw with _ | ⟨s, w⟩ <;>
    simp_all [Apci.mkConfirmed, WFHeader, segFields, isBelow, swOk]

theorem wf_mkUnconfirmed (svc : Nat) (hsvc : svc < 256) :
    WFHeader (Apci.mkUnconfirmed svc) = true := by
  simp [Apci.mkUnconfirmed, WFHeader, isBelow, *]

theorem wf_mkSimpleAck (inv svc : Nat) (hinv : inv < 256) (hsvc : svc < 256) :
    WFHeader (Apci.mkSimpleAck inv svc) = true := by
  simp [Apci.mkSimpleAck, WFHeader, isBelow, *]

theorem wf_mkComplexAck (sw : Option (Nat × Nat)) (mor : Bool) (inv svc : Nat)
    (hsw : swOk sw = true) (hinv : inv < 256) (hsvc : svc < 256) :
    WFHeader (Apci.mkComplexAck sw mor inv svc) = true := by
  rcases sw with _ | ⟨s, w⟩ <;>
    simp_all [Apci.mkComplexAck, WFHeader, segFields, isBelow, swOk]

theorem wf_mkSegmentAck (nak srv : Bool) (inv sq wn : Nat)
    (hinv : inv < 256) (hsq : sq < 256) (hwn : wn < 256) :
    WFHeader (Apci.mkSegmentAck nak srv inv sq wn) = true := by
  simp [Apci.mkSegmentAck, WFHeader, isBelow, *]

theorem wf_mkError (inv svc : Nat) (hinv : inv < 256) (hsvc : svc < 256) :
    WFHeader (Apci.mkError inv svc) = true := by
  simp [Apci.mkError, WFHeader, isBelow, *]

theorem wf_mkReject (inv rsn : Nat) (hinv : inv < 256) (hrsn : rsn < 256) :
    WFHeader (Apci.mkReject inv rsn) = true := by
  simp [Apci.mkReject, WFHeader, isBelow, *]

theorem wf_mkAbort (srv : Bool) (inv rsn : Nat) (hinv : inv < 256) (hrsn : rsn < 256) :
    WFHeader (Apci.mkAbort srv inv rsn) = true := by
  simp [Apci.mkAbort, WFHeader, isBelow, *]

/-- `APDU.decode` is total in the same sense -/
theorem apdu_total (bs : Bytes) :
    (∃ h payload, decodeApdu bs = .ok (h, payload)) ∨ decodeApdu bs = .error .decoding := by
  rw [decodeApdu_eq]; exact apci_total bs

/-! ## non-vacuity and concrete instances (tests, not theorems)

  The hypotheses of the theorems above are met by non-trivial headers, and the
  model produces the octets one expects from clause 20.1. -/

/-- a segmented confirmed request with every flag family exercised -/
def exConfirmed : Apci :=
  { apduType := 0, seg := some true, mor := some true, sa := some false,
    maxSegs := some 7, maxResp := some 5, invokeID := some 255,
    seq := some 128, win := some 127, service := some 12 }

example : WFHeader exConfirmed = true := by decide
example : exConfirmed = Apci.mkConfirmed (some (128, 127)) true false 7 5 255 12 := rfl
example : encodeApci exConfirmed = .ok [0x0C, 0x75, 0xFF, 0x80, 0x7F, 0x0C] := rfl
example : decodeApci [0x0C, 0x75, 0xFF, 0x80, 0x7F, 0x0C, 0xAA, 0xBB] =
    .ok (exConfirmed, [0xAA, 0xBB]) := rfl
example : WFHeader { apduType := 4, nak := some true, srv := some false, invokeID := some 1,
                     seq := some 255, win := some 0 } = true := by decide
example : encodeApci { apduType := 4, nak := some true, srv := some false, invokeID := some 1,
                       seq := some 255, win := some 0 } = .ok [0x42, 0x01, 0xFF, 0x00] := rfl
example : WFHeader { apduType := 7, srv := some true, invokeID := some 9, reason := some 65 }
    = true := by decide
example : encodeApci { apduType := 7, srv := some true, invokeID := some 9, reason := some 65 }
    = .ok [0x71, 0x09, 0x41] := rfl
-- reserved bits are ignored by the decoder (so decoding is not injective)
example : decodeApci [0x1F, 0x08, 0x01] = .ok ({ apduType := 1, service := some 8 }, [0x01]) := rfl
-- bit 7 of the second octet of a confirmed request is ignored (mask 0x07)
example : decodeApci [0x00, 0xF5, 0x01, 0x0C] =
    .ok ({ apduType := 0, seg := some false, mor := some false, sa := some false,
           maxSegs := some 7, maxResp := some 5, invokeID := some 1, service := some 12 }, []) := rfl
-- headers outside `WFHeader`: a code that does not fit is not restored
example : WFHeader { exConfirmed with maxSegs := some 9 } = false := by decide
example : encodeApci { exConfirmed with maxSegs := some 16 } = .error .encoding := rfl
example : encodeApci { exConfirmed with invokeID := none } = .error .encoding := rfl
example : encodeApci { exConfirmed with apduType := 8 } = .error .other := rfl
-- short input and bad type
example : decodeApci [0x0C, 0x75, 0xFF, 0x80, 0x7F] = .error .decoding := rfl
example : decodeApci [0x80, 0x00, 0x00, 0x00] = .error .decoding := rfl
example : apciNeed 0x0C = 6 ∧ apciNeed 0x30 = 3 ∧ apciNeed 0x38 = 5 ∧ apciNeed 0x90 = 0 := by decide
-- table hypotheses are met
example : encodeMaxApdu 1000 = .ok 3 ∧ decodeMaxApdu 3 = .ok 480 := ⟨rfl, rfl⟩
example : encodeMaxApdu 49 = .error .valueRange := rfl
example : encodeMaxSegs (some 63) = .ok 5 ∧ decodeMaxSegs 5 = .ok (some 32) := ⟨rfl, rfl⟩
example : encodeMaxSegs (some 65) = .ok 7 := rfl
example : decodeMaxApdu 9 = .error .valueRange ∧ decodeMaxApdu 16 = .error .other := ⟨rfl, rfl⟩

end BacVerif.C07
