import BacVerif.Model.Route
namespace BacVerif.C06
open BacVerif BacVerif.Route

theorem hop_measure (t : TNode) (a : Adapter) (f g : Packet) (h : g ∈ emitted t a f) :
    g.npci.fuel < f.npci.fuel := emitted_fuel t a f g h

end BacVerif.C06
