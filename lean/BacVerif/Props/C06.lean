/-
  C06 — Routers deliver each packet once to exactly the addressed stations.

  Property text → formal statement  (model: BacVerif/Model/Route.lean, which describes the
  tree after fixes/C06-no-echo-via-cache.patch)

  * "Each router hop lowers the hop count by one"             → `hop_decrement`
  * "nothing is forwarded back onto the network it came from" → `no_echo`
  * "or once the count is exhausted"                          → `hop_exhausted`
  * "a local broadcast stays on its network"                  → `local_stays_local`
                                                                (+ `station_never_forwards`),
                                                                end to end `tree_local_broadcast_once`
  * SADR bookkeeping that makes replies possible              → `sadr_rule`
  * who hands the packet to its application                   → `local_delivery_iff`
  * "The source address shown to a recipient names the originator's network and station"
                                                              → `source_shown` (per hop),
                                                                `tree_*_once` (end to end)
  * "so forwarding terminates even if the topology contains a cycle"
        → `forwarding_terminates`: `deliverAll` is a total function on EVERY topology — Lean
          accepts its recursion with the hop count (`Npci.fuel`) as the decreasing measure,
          and that is legitimate only because of `emitted_fuel` (= `hop_decrement` +
          `hop_exhausted`); `forwarding_chain_bound`: no chain of forwardings is longer than
          the hop count of the first frame (≤ 255).
  * "a global broadcast reaches every station of every network … each recipient exactly once"
        → `tree_global_broadcast_once`   (BacVerif/Lemmas/RouteTree.lean for the machinery)
  * "a remote broadcast reaches every station of the target network", "a unicast reaches the
    addressed station and nobody else's application"
        → `tree_remote_broadcast_once`, `tree_unicast_once` (warm caches consistent with the tree)
  * "so that a reply sent to it arrives at the originator"    → `reply_routable`
  * "multi-hop paths discovered on demand" (cold caches): on a LINE of networks of any length,
    one discovery at a time → `discovery_line`, `cold_line_unicast_once`,
    `cold_line_remote_broadcast_once` (stateful simulator `runWorld`); on general trees and for
    concurrent discoveries: modelled (`recv`, `originate`, the service element handlers), tied
    to the code by the lockstep / e2e-node / e2e-world streams and checked end to end, NOT a
    theorem (see notes/C06.md) — partial.

  All per-hop theorems quantify over EVERY node (any number of adapters, any local adapter,
  with or without application), every cache, every arrival adapter, link source/destination
  and every decoded NPCI.  `recv_is_route` ties the pure decision `route` to the stateful
  component `recv` that the lockstep correspondence runs against the real code.
-/
import BacVerif.Model.Route
import BacVerif.Lemmas.RouteGlobal
import BacVerif.Lemmas.RouteUnicast
import BacVerif.Lemmas.RouteDiscovery
set_option linter.unusedSimpArgs false
namespace BacVerif.C06
open BacVerif BacVerif.Route

/-! ## per-hop facts about the forwarding block -/

theorem findPath_mem {c : Cache} {l : List Adapter} {dn : Nat} {a : Adapter} {m : Mac}
    (h : findPath c l dn = some (a, m)) : a ∈ l ∧ c.get a.net dn = some m := by
  induction l with
  | nil => simp [findPath] at h
  | cons x xs ih =>
    simp only [findPath] at h
    split at h
    · rename_i m' hm
      simp at h
      obtain ⟨rfl, rfl⟩ := h
      exact ⟨List.mem_cons_self, hm⟩
    · obtain ⟨h1, h2⟩ := ih h
      exact ⟨List.mem_cons_of_mem _ h1, h2⟩

theorem mem_others {n : Node} {arr a : Adapter} (h : a ∈ n.others arr) :
    a ∈ n.adapters ∧ a.aid ≠ arr.aid := by
  simpa [Node.others] using h

theorem byNet_mem {n : Node} {net : Option Nat} {x : Adapter} (h : n.byNet net = some x) :
    x ∈ n.adapters ∧ x.net = net := by
  unfold Node.byNet at h
  exact ⟨List.mem_of_find?_eq_some h, by simpa using List.find?_some h⟩

/-- what the forwarding block can emit: a copy (hop lowered by one, SADR set, DADR kept or —
    on the last leg — removed) or a Who-Is-Router-To-Network -/
def fwdCopy (p : Npci) (s : Nat × Mac) (keep : Bool) : Npci :=
  { p with hop := p.hop - 1, sadr := some s, dadr := if keep then p.dadr else none }

inductive FwdShape (arr : Adapter) (src : Mac) (p : Npci) : Out → Prop
  | copy (a : Adapter) (l : Link) (s : Nat × Mac) (keep : Bool) :
      a.aid ≠ arr.aid → fwdSadr arr src p = some s →
      FwdShape arr src p (.send a l (fwdCopy p s keep))
  | whoIs (a : Adapter) (dn : Nat) : a.aid ≠ arr.aid → FwdShape arr src p (.send a .bcast (whoIs dn))
  | raised (k : Raised) : FwdShape arr src p (.raised k)

theorem fwdRemote_shape (n : Node) (c : Cache) (arr : Adapter) (src : Mac) (p : Npci) (s : Nat × Mac)
    (d : Dadr) (dn : Nat) (hs : fwdSadr arr src p = some s) (hd : p.dadr = some d) (o : Out)
    (h : o ∈ fwdRemote n c arr { p with hop := p.hop - 1, sadr := some s } d dn) :
    FwdShape arr src p o := by
  unfold fwdRemote at h
  split at h
  · rename_i x hx
    split at h
    · simp at h
    · rename_i hne
      simp only [List.mem_singleton] at h
      subst h
      have := FwdShape.copy (p := p) x (lastLeg d) s false (by simpa using hne) hs
      simpa [fwdCopy] using this
  · split at h
    · rename_i a m hf
      simp only [List.mem_singleton] at h
      subst h
      have hm := (mem_others (findPath_mem hf).1).2
      have := FwdShape.copy (p := p) a (.to m) s true hm hs
      simpa [fwdCopy, hd] using this
    · simp only [List.mem_map] at h
      obtain ⟨a, ha, rfl⟩ := h
      exact .whoIs a dn (mem_others ha).2

theorem forward_shape (n : Node) (c : Cache) (arr : Adapter) (src : Mac) (p : Npci) (o : Out)
    (h : o ∈ forward n c arr src p) :
    FwdShape arr src p o ∧ p.dadr.isSome ∧ p.hop ≠ 0 ∧ n.adapters.length ≠ 1 := by
  unfold forward at h
  split at h
  · simp at h
  rename_i hlen
  split at h
  · simp at h
  rename_i hhop
  split at h
  · simp at h
  rename_i d hd
  refine ⟨?_, by simp [hd], by simpa using hhop, by simpa using hlen⟩
  split at h
  · simp at h; subst h; exact .raised _
  rename_i s hs
  cases d with
  | gb =>
    simp only [fwdCopies, List.mem_map] at h
    obtain ⟨a, ha, rfl⟩ := h
    have := FwdShape.copy (p := p) a .bcast s true (mem_others ha).2 hs
    simpa [fwdCopy, hd] using this
  | rs dn m => exact fwdRemote_shape n c arr src p s _ dn hs hd o h
  | rb dn => exact fwdRemote_shape n c arr src p s _ dn hs hd o h



theorem sends_shape {n : Node} {c : Cache} {arr : Adapter} {src : Mac} {dst : Link} {p : Npci}
    {a : Adapter} {l : Link} {q : Npci} (h : (a, l, q) ∈ (route n c arr src dst p).sends) :
    FwdShape arr src p (.send a l q) ∧ p.dadr.isSome ∧ p.hop ≠ 0 ∧ n.adapters.length ≠ 1 := by
  simp only [Decision.sends, List.mem_filterMap] at h
  obtain ⟨o, ho, hx⟩ := h
  cases o with
  | send v l' q' =>
    simp at hx
    obtain ⟨rfl, rfl, rfl⟩ := hx
    exact forward_shape _ _ _ _ _ _ (route_out_forward _ _ _ _ _ _ _ _ _ ho)
  | up u => simp at hx
  | raised k => simp at hx

/-- **no_echo** — nothing is ever sent on the adapter the frame arrived on -/
theorem no_echo (n : Node) (c : Cache) (arr : Adapter) (src : Mac) (dst : Link) (p : Npci)
    (a : Adapter) (l : Link) (q : Npci) (h : (a, l, q) ∈ (route n c arr src dst p).sends) :
    a.aid ≠ arr.aid := by
  have := (sends_shape h).1
  cases this <;> assumption

/-- **hop_decrement** — every copy sent on has `hop' + 1 = hop` (the only other frame a hop can
    emit is a Who-Is-Router-To-Network, which carries no DADR and is never forwarded) -/
theorem hop_decrement (n : Node) (c : Cache) (arr : Adapter) (src : Mac) (dst : Link) (p : Npci)
    (a : Adapter) (l : Link) (q : Npci) (h : (a, l, q) ∈ (route n c arr src dst p).sends) :
    (q.hop + 1 = p.hop ∧ q.msg = p.msg ∧ q.data = p.data ∧ (q.dadr = p.dadr ∨ q.dadr = none))
    ∨ (∃ dn, q = whoIs dn ∧ l = .bcast) := by
  obtain ⟨hs, _, hh, _⟩ := sends_shape h
  cases hs with
  | copy a l s keep _ _ =>
    left
    refine ⟨by simp [fwdCopy]; omega, rfl, rfl, ?_⟩
    cases keep <;> simp [fwdCopy]
  | whoIs a dn _ => right; exact ⟨dn, rfl, rfl⟩

/-- … and nothing at all is sent once the count is exhausted -/
theorem hop_exhausted (n : Node) (c : Cache) (arr : Adapter) (src : Mac) (dst : Link) (p : Npci)
    (h0 : p.hop = 0) : (route n c arr src dst p).sends = [] := by
  apply List.eq_nil_iff_forall_not_mem.mpr
  intro ⟨a, l, q⟩ h
  exact (sends_shape h).2.2.1 h0

/-- **local_stays_local** — a frame without DADR (local station / local broadcast traffic) is
    never forwarded, whatever the node, cache and message -/
theorem local_stays_local (n : Node) (c : Cache) (arr : Adapter) (src : Mac) (dst : Link) (p : Npci)
    (h0 : p.dadr = none) : (route n c arr src dst p).sends = [] := by
  apply List.eq_nil_iff_forall_not_mem.mpr
  intro ⟨a, l, q⟩ h
  have := (sends_shape h).2.1
  simp [h0] at this

/-- a node with a single adapter never forwards -/
theorem station_never_forwards (n : Node) (c : Cache) (arr : Adapter) (src : Mac) (dst : Link) (p : Npci)
    (h1 : n.adapters.length = 1) : (route n c arr src dst p).sends = [] := by
  apply List.eq_nil_iff_forall_not_mem.mpr
  intro ⟨a, l, q⟩ h
  exact (sends_shape h).2.2.2 h1

/-- **sadr_rule** — the SADR of a forwarded copy is the inbound SADR if there is one, else
    (number of the arrival network, link source) -/
theorem sadr_rule (n : Node) (c : Cache) (arr : Adapter) (src : Mac) (dst : Link) (p : Npci)
    (a : Adapter) (l : Link) (q : Npci) (h : (a, l, q) ∈ (route n c arr src dst p).sends)
    (hcopy : ∀ dn, q ≠ whoIs dn) :
    match p.sadr with
    | some s => q.sadr = some s
    | none => ∃ an, arr.net = some an ∧ q.sadr = some (an, src) := by
  obtain ⟨hs, _, _, _⟩ := sends_shape h
  cases hs with
  | copy a l s keep _ hsadr =>
    unfold fwdSadr at hsadr
    split at hsadr
    · rename_i s' hs'
      simp at hsadr; subst hsadr
      simp [hs', fwdCopy]
    · rename_i hs'
      simp only [hs']
      cases hn : arr.net with
      | none => simp [hn] at hsadr
      | some an =>
        simp [hn] at hsadr; subst hsadr
        exact ⟨an, rfl, by simp [fwdCopy]⟩
  | whoIs a dn _ => exact absurd rfl (hcopy dn)


/-- the property's reading of "this frame is addressed to the application of this node" -/
def addressedHere (loc arr : Adapter) (p : Npci) : Prop :=
  match p.dadr with
  | none => arr.aid = loc.aid                                   -- no DADR: on the local adapter only
  | some .gb => True                                            -- global broadcast
  | some (.rb d) => some d ≠ arr.net ∧ some d = loc.net         -- remote broadcast for the local net
  | some (.rs d m) => some d ≠ arr.net ∧ some d = loc.net ∧ loc.addr = some m

instance (loc arr : Adapter) (p : Npci) : Decidable (addressedHere loc arr p) := by
  unfold addressedHere; split <;> exact inferInstance

/-- "it needs to look routed" -/
def lifted (n : Node) (loc arr : Adapter) : Prop := n.adapters.length > 1 ∧ arr.aid ≠ loc.aid

instance (n : Node) (loc arr : Adapter) : Decidable (lifted n loc arr) := by
  unfold lifted; exact inferInstance

/-- the one way local delivery can fail although the frame is addressed here:
    `RemoteStation(adapter.adapterNet, …)` with an unknown arrival network number -/
def sourceNameable (n : Node) (loc arr : Adapter) (p : Npci) : Prop :=
  ¬ (lifted n loc arr ∧ p.sadr = none ∧ arr.net = none)

instance (n : Node) (loc arr : Adapter) (p : Npci) : Decidable (sourceNameable n loc arr p) := by
  unfold sourceNameable; exact inferInstance

theorem classify_go {loc arr : Adapter} {p : Npci} :
    (∃ fm, classify loc arr p = .go true fm) ↔ (addressedHere loc arr p ∨ (p.dadr = none ∧ p.msg.isSome)) := by
  unfold classify addressedHere
  cases hd : p.dadr with
  | none => simp
  | some d =>
    cases d with
    | gb => simp
    | rb d =>
      by_cases h1 : some d = arr.net <;> simp [h1]
    | rs d m =>
      by_cases h1 : some d = arr.net <;> simp [h1]
      by_cases h2 : some d = loc.net <;> simp [h2]
      cases ha : loc.addr with
      | none => simp
      | some a => simp; exact ⟨fun h => h.symm, fun h => h.symm⟩

theorem shown_ok {n : Node} {loc arr : Adapter} {src : Mac} {dst : Link} {p : Npci} :
    (∃ u, shown n loc arr src dst p = .ok u) ↔ sourceNameable n loc arr p := by
  unfold shown sourceNameable lifted
  by_cases hl : n.adapters.length > 1 ∧ arr.aid ≠ loc.aid
  · have : (decide (n.adapters.length > 1) && (arr.aid != loc.aid)) = true := by simpa using hl
    simp only [this, if_true]
    cases hs : p.sadr with
    | some s => simp
    | none =>
      cases hn : arr.net with
      | none => simp [hl]
      | some an => simp
  · have : (decide (n.adapters.length > 1) && (arr.aid != loc.aid)) = false := by
      simpa [Bool.and_eq_false_iff] using hl
    simp [this, hl]

theorem route_up {n : Node} {c : Cache} {arr : Adapter} {src : Mac} {dst : Link} {p : Npci}
    {loc : Adapter} (hloc : n.loc = some loc) (u : Up) :
    (route n c arr src dst p).up = some u ↔
      (spoofed n p = false ∧ (∃ fm, classify loc arr p = .go true fm) ∧ p.msg = none ∧ n.hasApp = true
        ∧ shown n loc arr src dst p = .ok u) := by
  unfold route
  simp only [hloc]
  by_cases hsp : spoofed n p = true
  · simp [hsp]
  · simp only [hsp]
    cases hc : classify loc arr p with
    | drop k => simp
    | raised k => simp
    | go pl fm =>
      unfold routeGo
      cases hm : p.msg with
      | some t =>
        simp only []
        repeat' split
        all_goals simp
      | none =>
        cases pl <;> cases hh : n.hasApp <;> simp
        cases hsh : shown n loc arr src dst p <;> simp

/-- **local_delivery_iff** — the application of a node is handed the packet iff it has one, the
    packet is an application-layer message that does not claim to come from one of the node's own
    networks, and it is addressed here: global broadcast, remote broadcast for the local network,
    remote station with the local network and MAC, or no DADR on the local adapter -/
theorem local_delivery_iff (n : Node) (c : Cache) (arr : Adapter) (src : Mac) (dst : Link) (p : Npci)
    (loc : Adapter) (hloc : n.loc = some loc) (hname : sourceNameable n loc arr p) :
    (route n c arr src dst p).up.isSome ↔
      (n.hasApp = true ∧ p.msg = none ∧ spoofed n p = false ∧ addressedHere loc arr p) := by
  obtain ⟨u0, hu0⟩ := shown_ok.mpr hname
  constructor
  · intro h
    obtain ⟨u, hu⟩ := Option.isSome_iff_exists.mp h
    obtain ⟨h1, h2, h3, h4, _⟩ := (route_up hloc u).mp hu
    refine ⟨h4, h3, h1, ?_⟩
    rcases classify_go.mp h2 with h | ⟨_, h⟩
    · exact h
    · simp [h3] at h
  · intro ⟨h1, h2, h3, h4⟩
    apply Option.isSome_iff_exists.mpr
    exact ⟨u0, (route_up hloc u0).mpr ⟨h3, classify_go.mpr (Or.inl h4), h2, h1, hu0⟩⟩

/-- **source_shown** — the source handed upward is the SADR if the frame has one, else the link
    source — as a remote station of the arrival network on a multi-adapter node when the frame
    did not arrive on the local adapter; payload, priority and expecting-reply are unchanged; a
    global broadcast is shown as such -/
theorem source_shown (n : Node) (c : Cache) (arr : Adapter) (src : Mac) (dst : Link) (p : Npci)
    (loc : Adapter) (hloc : n.loc = some loc) (u : Up) (h : (route n c arr src dst p).up = some u) :
    (match p.sadr with
     | some (sn, sm) => u.src = .remoteStation sn sm
     | none => if lifted n loc arr then ∃ an, arr.net = some an ∧ u.src = .remoteStation an src
               else u.src = .localStation src)
    ∧ u.data = p.data ∧ u.er = p.er ∧ u.prio = p.prio
    ∧ (p.dadr = some .gb → u.dst = some .global) := by
  obtain ⟨_, _, _, _, hs⟩ := (route_up hloc u).mp h
  unfold shown at hs
  by_cases hl : lifted n loc arr
  · have : (decide (n.adapters.length > 1) && (arr.aid != loc.aid)) = true := by
      simpa [lifted] using hl
    simp only [this, if_true] at hs
    cases hsa : p.sadr with
    | some s =>
      simp only [hsa] at hs
      injection hs with hs; subst hs
      refine ⟨rfl, rfl, rfl, rfl, ?_⟩
      intro hd; simp [hd]
    | none =>
      simp only [hsa] at hs
      cases hn : arr.net with
      | none => simp [hn] at hs
      | some an =>
        simp only [hn] at hs
        injection hs with hs; subst hs
        refine ⟨?_, rfl, rfl, rfl, ?_⟩
        · simp [hl]
        · intro hd; simp [hd]
  · have : (decide (n.adapters.length > 1) && (arr.aid != loc.aid)) = false := by
      simpa [lifted, Bool.and_eq_false_iff] using hl
    simp only [this] at hs
    simp at hs
    subst hs
    refine ⟨?_, rfl, rfl, rfl, ?_⟩
    · cases hsa : p.sadr with
      | some s => simp
      | none => simp [hl]
    · intro hd; simp [hd]


/-- the observable effect of a decision -/
def Decision.outs (d : Decision) : List Out := (d.up.map Out.up).toList ++ d.out

/-- **recv_is_route** — for application-layer frames the stateful component (what the lockstep
    correspondence runs against the real `NetworkServiceAccessPoint`) does exactly what the pure
    decision says; the only state change is the learned path -/
theorem recv_is_route (s : St) (arr : Adapter) (src : Mac) (dst : Link) (p : Npci)
    (hmsg : p.msg = none) (hne : s.node.adapters ≠ []) :
    (recv s arr src dst p).2 = Decision.outs (route s.node s.cache arr src dst p)
    ∧ ((recv s arr src dst p).1 = s ∨
       (recv s arr src dst p).1 = { s with cache := learned s.cache arr src p }) := by
  unfold recv route
  have : s.node.adapters.isEmpty = false := by
    cases h : s.node.adapters with
    | nil => exact absurd h hne
    | cons _ _ => rfl
  simp only [this]
  cases hloc : s.node.loc with
  | none => simp [Decision.outs]
  | some loc =>
    simp only []
    by_cases hsp : spoofed s.node p = true
    · simp [hsp, Decision.outs]
    · simp only [hsp]
      cases hc : classify loc arr p with
      | drop k => simp [Decision.outs]
      | raised k => simp [Decision.outs]
      | go pl fm =>
        unfold routeGo
        simp only [hmsg]
        cases pl <;> cases hh : s.node.hasApp <;> simp [Decision.outs, hasRaised]
        cases hsh : shown s.node loc arr src dst p <;> simp


/-! ## termination on every topology -/

/-- a chain of `k` successive forwardings in an arbitrary internetwork, starting with frame `f` -/
inductive Chain (topo : Topology) : Packet → Nat → Prop
  | done (f : Packet) : Chain topo f 0
  | step (f g : Packet) (t : TNode) (a : Adapter) (k : Nat) :
      t ∈ topo → a ∈ t.node.adapters → hears f a = true → g ∈ emitted t a f →
      Chain topo g k → Chain topo f (k + 1)

/-- **forwarding_chain_bound** — on every topology (cycles included, any caches) a frame is
    forwarded through at most `hop count` generations: at most 255 -/
theorem forwarding_chain_bound (topo : Topology) (f : Packet) (k : Nat) (h : Chain topo f k) :
    k ≤ f.npci.fuel ∧ f.npci.fuel ≤ f.npci.hop := by
  induction h with
  | done f => exact ⟨Nat.zero_le _, by unfold Npci.fuel; split <;> omega⟩
  | step f g t a k _ _ _ hg _ ih =>
    have := emitted_fuel t a f g hg
    refine ⟨by omega, by unfold Npci.fuel; split <;> omega⟩

/-- **forwarding_terminates** — the global simulator is a total function on every topology:
    this is its defining equation, which Lean accepted with `Npci.fuel` (the hop count) as the
    decreasing measure (`Route.deliverAll`, `decreasing_by emitted_fuel`) -/
theorem forwarding_terminates (topo : Topology) (f : Packet) :
    deliverAll topo f = topo.flatMap fun t =>
      (t.node.adapters.filter (hears f)).flatMap fun a =>
        delivered t a f ++ (emitted t a f).flatMap (fun g => deliverAll topo g) :=
  deliverAll_eq topo f

/-- the measure really is the hop count: a forwarded frame has a strictly smaller one -/
theorem hop_measure (t : TNode) (a : Adapter) (f g : Packet) (h : g ∈ emitted t a f) :
    g.npci.fuel < f.npci.fuel := emitted_fuel t a f g h


/-! ## global broadcast on trees -/

mutual
theorem NetTree.population_lans (S : NetTree) (x : Nat × Station) (h : x ∈ S.population) : x.1 ∈ S.lans := by
  match S with
  | .mk lan sts rs =>
    simp only [NetTree.population, List.mem_append, List.mem_map] at h
    rcases h with ⟨s, _, rfl⟩ | h
    · simp [NetTree.lans]
    · simp [NetTree.lans, Routers.population_lans rs x h]
theorem Routers.population_lans (rs : Routers) (x : Nat × Station) (h : x ∈ rs.population) : x.1 ∈ rs.lans := by
  match rs with
  | .nil => simp [Routers.population] at h
  | .cons ua um la c bf ds rest =>
    simp only [Routers.population, List.mem_append] at h
    rcases h with (h | h) | h
    · simp [Routers.lans, Downs.population_lans bf x h]
    · simp [Routers.lans, Downs.population_lans ds x h]
    · simp [Routers.lans, Routers.population_lans rest x h]
theorem Downs.population_lans (ds : Downs) (x : Nat × Station) (h : x ∈ ds.population) : x.1 ∈ ds.lans := by
  match ds with
  | .nil => simp [Downs.population] at h
  | .cons aid mac sub rest =>
    simp only [Downs.population, List.mem_append] at h
    rcases h with h | h
    · simp [Downs.lans, NetTree.population_lans sub x h]
    · simp [Downs.lans, Downs.population_lans rest x h]
end

/-- the deliveries of a global broadcast from `o` on tree `T`: `originate` at `o`, then the
    global simulator on every frame it put on a LAN -/
def gbDeliveries (T : NetTree) (o : Station) (er : Bool) (prio : Nat) (data : Bytes) : List Delivery :=
  (originPackets (originate (o.st T.lan) .global er prio data).2).flatMap (deliverAll T.nodes)

/-- … never to the originator -/
theorem tree_global_broadcast_not_to_originator (T : NetTree) (o : Station) (er : Bool) (prio : Nat)
    (data : Bytes) (ho : o ∈ T.stations) (hnd : T.lans.Nodup) (hwf : T.wf [] = true) (hh : T.height ≤ 255)
    (x : Delivery) (hx : x ∈ gbDeliveries T o er prio data) : ¬ (x.lan = T.lan ∧ x.mac = o.mac) := by
  unfold gbDeliveries at hx
  rw [tree_global_broadcast T o er prio data ho hnd hwf hh] at hx
  simp only [List.mem_append, List.mem_map, List.mem_filter, gbExpect] at hx
  rcases hx with ⟨s, ⟨_, hs⟩, rfl⟩ | ⟨y, hy, rfl⟩
  · simp at hs; simp [hs]
  · have := Routers.population_lans _ y hy
    intro ⟨e, _⟩
    cases T with
    | mk lan sts rs =>
      simp only [NetTree.lans, List.nodup_cons, NetTree.routers, NetTree.lan] at hnd this e
      exact hnd.1 (e ▸ this)

/-- … and to every other station: same-network stations see `o` as a local station, all others
    see `o`'s network number and MAC; everybody sees the destination "global broadcast" and the
    unchanged payload -/
theorem tree_global_broadcast_reaches_all (T : NetTree) (o : Station) (er : Bool) (prio : Nat)
    (data : Bytes) (ho : o ∈ T.stations) (hnd : T.lans.Nodup) (hwf : T.wf [] = true) (hh : T.height ≤ 255)
    (x : Nat × Station) (hx : x ∈ T.population) (hne : ¬ (x.1 = T.lan ∧ x.2.mac = o.mac)) :
    ⟨x.1, x.2.mac,
      ⟨if x.1 = T.lan then .localStation o.mac else .remoteStation T.lan o.mac, some .global, er, prio, data⟩⟩
      ∈ gbDeliveries T o er prio data := by
  unfold gbDeliveries
  rw [tree_global_broadcast T o er prio data ho hnd hwf hh]
  cases T with
  | mk lan sts rs =>
    simp only [NetTree.population, List.mem_append, List.mem_map] at hx
    simp only [NetTree.lan, NetTree.stations, NetTree.routers, List.mem_append, List.mem_map, List.mem_filter]
    simp only [NetTree.lan] at hne
    rcases hx with ⟨s, hs, rfl⟩ | hx
    · left
      refine ⟨s, ⟨hs, ?_⟩, ?_⟩
      · simpa using hne
      · simp [lbUp]
    · right
      have hl := Routers.population_lans rs x hx
      simp only [NetTree.lans, List.nodup_cons] at hnd
      have : x.1 ≠ lan := fun e => hnd.1 (e ▸ hl)
      simp only [gbExpect, List.mem_map]
      exact ⟨x, hx, by simp [gbUp, this]⟩

/-! ### non-vacuity: a concrete internetwork that meets the hypotheses -/

/-- three networks, a three-port router and a two-port router behind it:
    net 1 {stations 01 (knows its number), 02 (bound without number and address)}
      └ router R1 [port 0a on net 1 | port 0b on net 2 | port 0c on net 3], local adapter = port on net 2
          ├ net 2 {station 05} ─ router R2 [port 0d on net 2 | port 0e on net 4] ─ net 4 {stations 06, 07}
          └ net 3 {station 08 (address only)} -/
def demoTree : NetTree :=
  .mk 1 [⟨[1], true, true, []⟩, ⟨[2], false, false, []⟩]
    (.cons 0 [0x0a] 1 [] .nil
      (.cons 1 [0x0b]
          (.mk 2 [⟨[5], true, true, []⟩]
            (.cons 0 [0x0d] 0 [] .nil
              (.cons 1 [0x0e] (.mk 4 [⟨[6], true, true, []⟩, ⟨[7], false, true, []⟩] .nil) .nil) .nil))
        (.cons 2 [0x0c] (.mk 3 [⟨[8], false, true, []⟩] .nil) .nil))
      .nil)

example : demoTree.lans.Nodup ∧ demoTree.wf [] = true ∧ demoTree.height ≤ 255 ∧
    (⟨[1], true, true, []⟩ : Station) ∈ demoTree.stations := by decide


/-! ## tree-shaped internetworks: exactly-once delivery

  `NetTree` (Lemmas/RouteTree.lean) is an arbitrary finite tree: a network with any number of
  stations (each bound with or without its network number / address) and any number of routers,
  each router with any number of further ports, each port leading to another `NetTree`.  It is
  rooted at the originator's network — every tree-shaped internetwork can be read that way from
  any of its networks.  `T.nodes` flattens it to a plain `Topology`, on which the *general*
  simulator `deliverAll` (the one that also runs on cyclic topologies) is evaluated.
  Hypotheses, all decidable: network numbers pairwise different (`T.lans.Nodup`), on every
  network the MACs of stations and router ports pairwise different, a router's adapter ids
  different and its local adapter one of them (`T.wf`), at most 255 router levels. -/

/-- **tree_global_broadcast_once** — the deliveries of a global broadcast from station `o` are
    EXACTLY this list (depth-first order): one entry per other station of `o`'s network, one per
    station of every other network; the originator's own entry is absent.  Each station of the
    tree occurs in `T.stations` / `T.routers.population` once, hence receives exactly one copy. -/
theorem tree_global_broadcast_once (T : NetTree) (o : Station) (er : Bool) (prio : Nat) (data : Bytes)
    (ho : o ∈ T.stations) (hnd : T.lans.Nodup) (hwf : T.wf [] = true) (hh : T.height ≤ 255) :
    gbDeliveries T o er prio data =
      (T.stations.filter (fun s => s.mac != o.mac)).map
          (fun s => ⟨T.lan, s.mac, lbUp o.mac .global er prio data⟩)
        ++ gbExpect (T.lan, o.mac) er prio data T.routers.population :=
  tree_global_broadcast T o er prio data ho hnd hwf hh

/-- a worked instance: 5 stations besides the originator, 5 deliveries -/
example : (gbDeliveries demoTree ⟨[1], true, true, []⟩ false 0 [0x10, 8]).map (fun d => (d.lan, d.mac)) =
    [(1, [2]), (2, [5]), (4, [6]), (4, [7]), (3, [8])] := by
  rw [tree_global_broadcast_once demoTree _ false 0 _ (by decide) (by decide) (by decide) (by decide)]
  decide

/-! ## local traffic on trees -/

/-- **tree_local_broadcast_once** — "a local broadcast stays on its network — each recipient
    exactly once": handed to every other station of the originator's network, once each, source
    shown = the originator's local address; nothing reaches any other network -/
theorem tree_local_broadcast_once (T : NetTree) (o : Station) (er : Bool) (prio : Nat) (data : Bytes)
    (hnd : T.lans.Nodup) (hwf : T.wf [] = true) :
    localDeliveries T o .bcast er prio data =
      (T.stations.filter (fun s => s.mac != o.mac)).map
        (fun s => ⟨T.lan, s.mac, ⟨.localStation o.mac, some .localBroadcast, er, prio, data⟩⟩) := by
  rw [tree_local T o .bcast er prio data hnd hwf]
  simp [macOk, Station.adapter, Link.toAddr]

/-- a local unicast reaches the stations with that MAC on the originator's network only -/
theorem tree_local_unicast_once (T : NetTree) (o : Station) (m : Mac) (er : Bool) (prio : Nat) (data : Bytes)
    (hnd : T.lans.Nodup) (hwf : T.wf [] = true) :
    localDeliveries T o (.to m) er prio data =
      (T.stations.filter (fun s => s.mac == m)).map
        (fun s => ⟨T.lan, s.mac, ⟨.localStation o.mac, some (.localStation m), er, prio, data⟩⟩) := by
  rw [tree_local T o (.to m) er prio data hnd hwf]
  simp [macOk, Station.adapter, Link.toAddr]

/-! ## remote traffic on trees with caches consistent with the tree

  `T.warm d` (Lemmas/RouteUnicast.lean) says, for every router on the path from the root to
  network `d`: either `d` is directly connected, or the cache search the code performs over the
  router's other adapters finds the port towards `d` and there the next router of the path.
  The originator's own cache names the first router (`hoc`).  A router's root-facing adapter may
  sit anywhere in its adapter list (`before ++ [up] ++ downs`). -/

/-- **tree_remote_broadcast_once** — a remote broadcast for network `d` (anywhere else in the
    tree), caches on the path consistent with the tree: delivered to every station of `d`,
    each exactly once, and to nobody else; shown source = originator's network and MAC, shown
    destination = local broadcast -/
theorem tree_remote_broadcast_once (T : NetTree) (o : Station) (d : Nat) (m1 : Mac) (er : Bool) (prio : Nat)
    (data : Bytes)
    (ho : o ∈ T.stations) (hnd : T.lans.Nodup) (hwf : T.wf [] = true) (hh : T.height ≤ 255)
    (hd : d ∈ T.routers.lans) (hm1 : T.routers.nextHop d = some m1)
    (hoc : o.cache.get (o.adapter T.lan).net d = some m1) (hwarm : T.warm d = true) :
    routedDeliveries T o (.rb d) er prio data =
      (T.stationsOn d).map
        (fun s => ⟨d, s.mac, ⟨.remoteStation T.lan o.mac, some .localBroadcast, er, prio, data⟩⟩) := by
  have := tree_routed T o (.rb d) m1 er prio data ho hnd hwf hh (by simp) hd hm1 hoc hwarm
    (by intro m hm; simp at hm)
  rw [this]
  have hf : (T.stationsOn d).filter (lkSel .bcast) = T.stationsOn d :=
    List.filter_eq_self.mpr (fun _ _ => rfl)
  simp [rtExpect, lastLeg, rtUp, Link.toAddr, Dadr.net, hf]

/-- **tree_unicast_once** — a unicast to station `t` of network `d` (anywhere else in the tree),
    caches on the path consistent with the tree: exactly one delivery, to `t`; shown source =
    originator's network and MAC; shown destination = `t`'s own address -/
theorem tree_unicast_once (T : NetTree) (o t : Station) (d : Nat) (m1 : Mac) (er : Bool) (prio : Nat)
    (data : Bytes)
    (ho : o ∈ T.stations) (hnd : T.lans.Nodup) (hwf : T.wf [] = true) (hh : T.height ≤ 255)
    (hd : d ∈ T.routers.lans) (ht : t ∈ T.stationsOn d) (hm1 : T.routers.nextHop d = some m1)
    (hoc : o.cache.get (o.adapter T.lan).net d = some m1) (hwarm : T.warm d = true) :
    routedDeliveries T o (.rs d t.mac) er prio data =
      [⟨d, t.mac, ⟨.remoteStation T.lan o.mac, some (.localStation t.mac), er, prio, data⟩⟩] := by
  have := tree_routed T o (.rs d t.mac) m1 er prio data ho hnd hwf hh (by simp) hd hm1 hoc hwarm
    (by intro m hm
        simp only [Dadr.net, Dadr.rs.injEq, true_and] at hm
        exact ⟨t, ht, hm⟩)
  rw [this]
  simp only [rtExpect, lastLeg, Dadr.net]
  have hsel : lkSel (.to t.mac) = fun s => s.mac == t.mac := by
    funext s; rfl
  rw [hsel, filter_mac_single _ t (NetTree.stationsOn_nodup T [] hwf d) ht]
  simp [rtUp, Link.toAddr]

/-- **reply_routable** — the source shown to the recipient, used as the destination of a reply,
    brings the reply to the originator and to nobody else.  `T` is the internetwork read from
    the originator's network, `T'` the same internetwork read from the recipient's network
    (two applications of `tree_unicast_once`). -/
theorem reply_routable (T T' : NetTree) (o t : Station) (m1 m1' : Mac)
    (er : Bool) (prio : Nat) (data : Bytes) (er' : Bool) (prio' : Nat) (data' : Bytes)
    (ho : o ∈ T.stations) (hnd : T.lans.Nodup) (hwf : T.wf [] = true) (hh : T.height ≤ 255)
    (hd : T'.lan ∈ T.routers.lans) (ht : t ∈ T.stationsOn T'.lan)
    (hm1 : T.routers.nextHop T'.lan = some m1)
    (hoc : o.cache.get (o.adapter T.lan).net T'.lan = some m1) (hwarm : T.warm T'.lan = true)
    (ht' : t ∈ T'.stations) (hnd' : T'.lans.Nodup) (hwf' : T'.wf [] = true) (hh' : T'.height ≤ 255)
    (hd' : T.lan ∈ T'.routers.lans) (ho' : o ∈ T'.stationsOn T.lan)
    (hm1' : T'.routers.nextHop T.lan = some m1')
    (htc : t.cache.get (t.adapter T'.lan).net T.lan = some m1') (hwarm' : T'.warm T.lan = true) :
    ∃ shown : Addr,
      routedDeliveries T o (.rs T'.lan t.mac) er prio data =
        [⟨T'.lan, t.mac, ⟨shown, some (.localStation t.mac), er, prio, data⟩⟩] ∧
      ∀ dd : Dadr, dd.toAddr = shown →
        routedDeliveries T' t dd er' prio' data' =
          [⟨T.lan, o.mac, ⟨.remoteStation T'.lan t.mac, some (.localStation o.mac), er', prio', data'⟩⟩] := by
  refine ⟨.remoteStation T.lan o.mac,
    tree_unicast_once T o t T'.lan m1 er prio data ho hnd hwf hh hd ht hm1 hoc hwarm, ?_⟩
  intro dd hdd
  cases dd with
  | gb => simp [Dadr.toAddr] at hdd
  | rb n => simp [Dadr.toAddr] at hdd
  | rs n m =>
    simp only [Dadr.toAddr, Addr.remoteStation.injEq] at hdd
    obtain ⟨rfl, rfl⟩ := hdd
    exact tree_unicast_once T' t o T.lan m1' er' prio' data' ht' hnd' hwf' hh' hd' ho' hm1' htc hwarm'

/-! ### non-vacuity: the demo internetwork with caches consistent with the tree, read from
    network 1 (originator 01) and from network 4 (recipient 06) -/

/-- `demoTree` with warm caches on the path 1 → 2 → 4 -/
def demoWarm : NetTree :=
  .mk 1 [⟨[1], true, true, [((some 1, 4), [0x0a])]⟩, ⟨[2], false, false, []⟩]
    (.cons 0 [0x0a] 1 [((some 2, 4), [0x0d]), ((some 2, 1), [0xee])] .nil
      (.cons 1 [0x0b]
          (.mk 2 [⟨[5], true, true, []⟩]
            (.cons 0 [0x0d] 0 [((some 2, 1), [0x0b])] .nil
              (.cons 1 [0x0e] (.mk 4 [⟨[6], true, true, [((some 4, 1), [0x0e])]⟩, ⟨[7], false, true, []⟩] .nil) .nil)
              .nil))
        (.cons 2 [0x0c] (.mk 3 [⟨[8], false, true, []⟩] .nil) .nil))
      .nil)

/-- the same internetwork read from network 4: the SAME nodes (same adapter lists, same
    caches) — router R2's up port is now its second adapter, R1's its second of three -/
def demoWarm' : NetTree :=
  .mk 4 [⟨[6], true, true, [((some 4, 1), [0x0e])]⟩, ⟨[7], false, true, []⟩]
    (.cons 1 [0x0e] 0 [((some 2, 1), [0x0b])]
      (.cons 0 [0x0d]
          (.mk 2 [⟨[5], true, true, []⟩]
            (.cons 1 [0x0b] 1 [((some 2, 4), [0x0d]), ((some 2, 1), [0xee])]
              (.cons 0 [0x0a] (.mk 1 [⟨[1], true, true, [((some 1, 4), [0x0a])]⟩, ⟨[2], false, false, []⟩] .nil) .nil)
              (.cons 2 [0x0c] (.mk 3 [⟨[8], false, true, []⟩] .nil) .nil)
              .nil))
        .nil)
      .nil
      .nil)

/-- … literally the same set of nodes -/
example : demoWarm'.nodes.isPerm demoWarm.nodes = true := by decide

def demoO : Station := ⟨[1], true, true, [((some 1, 4), [0x0a])]⟩
def demoT : Station := ⟨[6], true, true, [((some 4, 1), [0x0e])]⟩

example : demoO ∈ demoWarm.stations ∧ demoWarm.lans.Nodup ∧ demoWarm.wf [] = true ∧ demoWarm.height ≤ 255 ∧
    demoWarm'.lan ∈ demoWarm.routers.lans ∧ demoT ∈ demoWarm.stationsOn demoWarm'.lan ∧
    demoWarm.routers.nextHop demoWarm'.lan = some [0x0a] ∧
    demoO.cache.get (demoO.adapter demoWarm.lan).net demoWarm'.lan = some [0x0a] ∧
    demoWarm.warm demoWarm'.lan = true := by decide

example : demoT ∈ demoWarm'.stations ∧ demoWarm'.lans.Nodup ∧ demoWarm'.wf [] = true ∧ demoWarm'.height ≤ 255 ∧
    demoWarm.lan ∈ demoWarm'.routers.lans ∧ demoO ∈ demoWarm'.stationsOn demoWarm.lan ∧
    demoWarm'.routers.nextHop demoWarm.lan = some [0x0e] ∧
    demoT.cache.get (demoT.adapter demoWarm'.lan).net demoWarm.lan = some [0x0e] ∧
    demoWarm'.warm demoWarm.lan = true := by decide


/-! ## cold caches: paths discovered on demand (line of networks)

  `Route.runWorld` is the STATEFUL global simulator: every node is a `Route.St` (cache, parked
  packets), a frame is handed to every hearing node in turn (`Route.recv`, the function the
  lockstep runs against the real code), the frames a node sends are queued FIFO.
  `Lemmas/RouteDiscovery.lean` proves, by induction over a line of ANY length, that the
  Who-Is-Router wave travels up a cold line to the router connected to `d`, the I-Am-Router
  answer travels back (unicast on the last network, relayed as broadcasts further down), and
  what every router and every overhearing station has learned (`warmHops`) — `wave`,
  `discovery_line` (= discovery_warms_path).  `warm_line` shows the result satisfies `T.warm d`,
  so the warm theorems apply to the released packet.
  Assumptions, stated honestly: a LINE (two-port routers, up port first), all router caches
  empty and the asker without a path to `d` (other stations' caches arbitrary), ONE discovery at
  a time (nothing else in flight), the asker listed first among the stations of its network;
  the flight of the released packet is evaluated with `deliverAll`, i.e. caches frozen at their
  post-discovery state, exactly as in the warm theorems (a concrete fully stateful run is
  checked by kernel evaluation below).  General trees (Who-Is floods every branch) and
  concurrent discoveries are NOT proved — the end-to-end history stream checks them. -/


/-- the all-cold line as a world of node states, the asker `A` holding the parked packet -/
def coldWorld (lan0 : Nat) (A : Station) (S0 : List Station) (hops : List Hop) (dd : Dadr)
    (er : Bool) (prio : Nat) (data : Bytes) : World :=
  stationSt lan0 [(dd.net, [rtp (some dd) none none er prio data 255])] A :: unitWorld lan0 S0 hops

/-- … which is the flattened line with `A`'s `originate` applied -/
theorem coldWorld_eq (lan0 : Nat) (A : Station) (S0 : List Station) (hops : List Hop) :
    ((lineTree lan0 (A :: S0) hops).nodes.map mkSt).tail = unitWorld lan0 S0 hops ∧
    ((lineTree lan0 (A :: S0) hops).nodes.map mkSt).head? = some (stationSt lan0 [] A) := by
  rw [lineTree_world]
  simp [unitWorld]

/-- **cold_line_unicast_once** — `tree_unicast_once` WITHOUT the warm-cache hypothesis, on a line
    of networks `lan0 – R1 – … – Rn – …` whose caches are ALL empty (routers; the asker has no
    path to `d`), one discovery at a time:
    (1) `originate` parks the packet and broadcasts Who-Is-Router;
    (2) run in the stateful simulator the exchange settles after `n` frames with nothing handed
        to any application, nothing parked, the internetwork = `warmLine` and the released
        packet (addressed to the first router) as the only frame in flight;
    (3) that packet is then delivered exactly once, to `t`, with source = `A`'s network and MAC
        (caches frozen at their post-discovery state, as in the warm theorems). -/
theorem cold_line_unicast_once (lan0 : Nat) (A : Station) (S0 : List Station) (h : Hop) (hs : List Hop)
    (x : Hop) (t : Station) (er : Bool) (prio : Nat) (data : Bytes)
    (hx : x ∈ h :: hs) (ht : t ∈ x.stations) (hd16 : x.lan < 65536)
    (hnd : (lan0 :: (h :: hs).map (·.lan)).Nodup) (hcold : ∀ y ∈ h :: hs, y.cache = [])
    (hA : A.cache.get (A.adapter lan0).net x.lan = none)
    (hwf : (lineTree lan0 (A :: S0) (h :: hs)).wf [] = true) (hlen : (h :: hs).length ≤ 255) :
    originate (stationSt lan0 [] A) (.remoteStation x.lan t.mac) er prio data =
      (stationSt lan0 [(x.lan, [rtp (some (.rs x.lan t.mac)) none none er prio data 255])] A,
       [.send (A.adapter lan0) .bcast (whoIsP none x.lan)]) ∧
    ∃ n, runWorld n (coldWorld lan0 A S0 (h :: hs) (.rs x.lan t.mac) er prio data)
        [⟨lan0, A.mac, .bcast, whoIsP none x.lan⟩] [] =
      ((warmLine lan0 A S0 h hs x.lan).nodes.map mkSt,
       [⟨lan0, A.mac, .to h.upMac, rtp (some (.rs x.lan t.mac)) none none er prio data 255⟩], []) ∧
    deliverAll (warmLine lan0 A S0 h hs x.lan).nodes
        ⟨lan0, A.mac, .to h.upMac, rtp (some (.rs x.lan t.mac)) none none er prio data 255⟩ =
      [⟨x.lan, t.mac, ⟨.remoteStation lan0 A.mac, some (.localStation t.mac), er, prio, data⟩⟩] := by
  have hdin : (Dadr.rs x.lan t.mac).net ∈ (h :: hs).map (·.lan) := List.mem_map_of_mem hx
  have hok := wf_lineOk_top lan0 A S0 (h :: hs) hwf
  obtain ⟨h1, n, h2⟩ := discovery_line lan0 A S0 h hs (.rs x.lan t.mac) er prio data (by simp) hdin hd16 hnd hcold hA hok
  refine ⟨by simpa [coldWorld, Dadr.toAddr, Dadr.net] using h1, n, by simpa [coldWorld, Dadr.net] using h2, ?_⟩
  have hr := cold_line_routed lan0 A S0 h hs (.rs x.lan t.mac) er prio data (by simp) hdin hnd hwf hlen
    (by
      intro m hm
      simp only [Dadr.net, Dadr.rs.injEq, true_and] at hm
      exact ⟨x, hx, rfl, hm ▸ List.mem_map_of_mem ht⟩)
  simp only [Dadr.net] at hr
  rw [hr]
  -- exactly one station of the destination network has that MAC
  have hskel := warmHops_skel x.lan (h :: hs) lan0 A.mac none
  obtain ⟨x', hx', hsk⟩ := skel_mem hskel x hx
  obtain ⟨hl', hst'⟩ := skel_station hsk
  have hnd0 := hnd
  simp only [List.nodup_cons] at hnd0
  have hdl : x.lan ≠ lan0 := fun e => hnd0.1 (e ▸ List.mem_map_of_mem hx)
  have hlans : (warmHops x.lan lan0 A.mac none (h :: hs)).map (·.lan) = (h :: hs).map (·.lan) := same_lans hskel
  have hso : (warmLine lan0 A S0 h hs x.lan).stationsOn x.lan = x'.stations := by
    simp only [warmLine, lineTree, NetTree.stationsOn, hdl, if_false]
    exact hopsTree_stationsOn x.lan _ (by rw [hlans]; exact hnd0.2) x' hx' hl'
  have hwfT : (warmLine lan0 A S0 h hs x.lan).wf [] = true := by
    rw [warmLine, lineTree_wf_skel lan0 (A :: S0) _ (h :: hs) _ [] ?_ hskel]
    · exact hwf
    · simp only [List.map_cons, List.map_map]
      congr 1
      apply List.map_congr_left
      intro s _
      simp only [Function.comp]
      split <;> simp [Station.learnD]
  have hmem : t.mac ∈ x'.stations.map (·.mac) := hst' ▸ List.mem_map_of_mem ht
  obtain ⟨t', ht', hmac⟩ := List.mem_map.mp hmem
  have hnodup := NetTree.stationsOn_nodup (warmLine lan0 A S0 h hs x.lan) [] hwfT x.lan
  rw [hso] at hnodup ⊢
  simp only [rtExpect, lastLeg]
  have hsel : lkSel (.to t.mac) = fun s => s.mac == t'.mac := by
    funext s; simp [lkSel, hmac]
  rw [hsel, filter_mac_single _ t' hnodup ht']
  simp [rtUp, Link.toAddr, hmac]



/-- **cold_line_remote_broadcast_once** — the same for a remote broadcast: after the discovery
    has settled the released packet reaches every station of network `x.lan`, each exactly once,
    and nobody else -/
theorem cold_line_remote_broadcast_once (lan0 : Nat) (A : Station) (S0 : List Station) (h : Hop) (hs : List Hop)
    (x : Hop) (er : Bool) (prio : Nat) (data : Bytes)
    (hx : x ∈ h :: hs) (hd16 : x.lan < 65536)
    (hnd : (lan0 :: (h :: hs).map (·.lan)).Nodup) (hcold : ∀ y ∈ h :: hs, y.cache = [])
    (hA : A.cache.get (A.adapter lan0).net x.lan = none)
    (hwf : (lineTree lan0 (A :: S0) (h :: hs)).wf [] = true) (hlen : (h :: hs).length ≤ 255) :
    originate (stationSt lan0 [] A) (.remoteBroadcast x.lan) er prio data =
      (stationSt lan0 [(x.lan, [rtp (some (.rb x.lan)) none none er prio data 255])] A,
       [.send (A.adapter lan0) .bcast (whoIsP none x.lan)]) ∧
    ∃ n, runWorld n (coldWorld lan0 A S0 (h :: hs) (.rb x.lan) er prio data)
        [⟨lan0, A.mac, .bcast, whoIsP none x.lan⟩] [] =
      ((warmLine lan0 A S0 h hs x.lan).nodes.map mkSt,
       [⟨lan0, A.mac, .to h.upMac, rtp (some (.rb x.lan)) none none er prio data 255⟩], []) ∧
    deliverAll (warmLine lan0 A S0 h hs x.lan).nodes
        ⟨lan0, A.mac, .to h.upMac, rtp (some (.rb x.lan)) none none er prio data 255⟩ =
      (x.stations.map (·.mac)).map
        (fun m => ⟨x.lan, m, ⟨.remoteStation lan0 A.mac, some .localBroadcast, er, prio, data⟩⟩) := by
  have hdin : (Dadr.rb x.lan).net ∈ (h :: hs).map (·.lan) := List.mem_map_of_mem hx
  have hok := wf_lineOk_top lan0 A S0 (h :: hs) hwf
  obtain ⟨h1, n, h2⟩ := discovery_line lan0 A S0 h hs (.rb x.lan) er prio data (by simp) hdin hd16 hnd hcold hA hok
  refine ⟨by simpa [Dadr.toAddr, Dadr.net] using h1, n, by simpa [coldWorld, Dadr.net] using h2, ?_⟩
  have hr := cold_line_routed lan0 A S0 h hs (.rb x.lan) er prio data (by simp) hdin hnd hwf hlen
    (by intro m hm; simp at hm)
  simp only [Dadr.net] at hr
  rw [hr]
  have hskel := warmHops_skel x.lan (h :: hs) lan0 A.mac none
  obtain ⟨x', hx', hsk⟩ := skel_mem hskel x hx
  obtain ⟨hl', hst'⟩ := skel_station hsk
  have hnd0 := hnd
  simp only [List.nodup_cons] at hnd0
  have hdl : x.lan ≠ lan0 := fun e => hnd0.1 (e ▸ List.mem_map_of_mem hx)
  have hlans : (warmHops x.lan lan0 A.mac none (h :: hs)).map (·.lan) = (h :: hs).map (·.lan) := same_lans hskel
  have hso : (warmLine lan0 A S0 h hs x.lan).stationsOn x.lan = x'.stations := by
    simp only [warmLine, lineTree, NetTree.stationsOn, hdl, if_false]
    exact hopsTree_stationsOn x.lan _ (by rw [hlans]; exact hnd0.2) x' hx' hl'
  rw [hso, ← hst']
  have hf : x'.stations.filter (lkSel .bcast) = x'.stations := List.filter_eq_self.mpr (fun _ _ => rfl)
  simp [rtExpect, lastLeg, hf, rtUp, Link.toAddr, List.map_map, Function.comp]

/-! ### non-vacuity: a cold line of four networks -/

/-- `1 –R1– 2 –R2– 3 –R3– 4`, every cache empty -/
def demoHops : List Hop :=
  [⟨0, [0x0a], 1, [0x0b], 0, [], 2, [⟨[5], true, true, []⟩]⟩,
   ⟨0, [0x0c], 1, [0x0d], 1, [], 3, [⟨[6], false, false, []⟩, ⟨[7], true, true, []⟩]⟩,
   ⟨0, [0x0e], 1, [0x0f], 0, [], 4, [⟨[8], true, true, []⟩, ⟨[9], false, true, []⟩]⟩]

def demoA : Station := ⟨[1], true, true, []⟩

example : (⟨0, [0x0e], 1, [0x0f], 0, [], 4, [⟨[8], true, true, []⟩, ⟨[9], false, true, []⟩]⟩ : Hop) ∈ demoHops ∧
    (1 :: demoHops.map (·.lan)).Nodup ∧ (∀ y ∈ demoHops, y.cache = []) ∧
    demoA.cache.get (demoA.adapter 1).net 4 = none ∧
    (lineTree 1 (demoA :: [⟨[2], false, false, []⟩]) demoHops).wf [] = true ∧ demoHops.length ≤ 255 := by
  decide



/-- the whole thing run concretely in the STATEFUL simulator (caches keep evolving during the
    flight of the released packet as well): station 01 of network 1 → station 09 of network 4.
    After 6 frames only the released packet is in flight, nothing delivered yet; after 10 frames
    the internetwork is silent and exactly one APDU has been handed up — to 09, from `1:01`. -/
example :
    let w := coldWorld 1 demoA [⟨[2], false, false, []⟩] demoHops (.rs 4 [9]) false 0 [0x10, 8]
    let r6 := runWorld 6 w [⟨1, [1], .bcast, whoIsP none 4⟩] []
    let r10 := runWorld 10 w [⟨1, [1], .bcast, whoIsP none 4⟩] []
    r6.2.1 = [⟨1, [1], .to [0x0a], rtp (some (.rs 4 [9])) none none false 0 [0x10, 8] 255⟩] ∧ r6.2.2 = [] ∧
    r10.2.1 = [] ∧
    r10.2.2 = [⟨4, [9], ⟨.remoteStation 1 [1], some (.localStation [9]), false, 0, [0x10, 8]⟩⟩] := by
  decide +kernel



end BacVerif.C06
