/-
  Props.C03Octets — closing the stack at OCTET level: C01 ∘ C02 ∘ C03.

  Part 1 (`encode_tags_wf`): every tag the generic encoder emits for a
  structurally valid value is well-formed in the sense of C02, hence (C02
  `taglist_roundtrip`) the octets parse back to exactly the tag list — the side
  condition of `codec_octets` is discharged.

  Part 2: TYPED values (`TVal`): the structure of `Val` with C01 `PrimVal`
  leaves.  `TVal.erase` replaces every leaf by the payload C01's encoder
  produces, `typeValF` reads the payloads back with C01's decoder of the
  primitive kind the SCHEMA names.  `typed_erase`: for a typed value that
  conforms (`tconforms`: structure as `conforms`, every leaf `Valid`, `Fits`
  and of the schema's kind) the erasure conforms and types back to the value
  (C01 `prim_roundtrip` leaf by leaf).

  The composition (`pdu_octets_roundtrip`, …) is at the end of Props/C03.lean.
-/
import BacVerif.Lemmas.C03EncWF
import BacVerif.Lemmas.C03Prim
import BacVerif.Lemmas.C03WFEnv
import BacVerif.Props.C02
import BacVerif.Model.Typed
namespace BacVerif.C03
open BacVerif BacVerif.Schema BacVerif.Codec BacVerif.SchemaWF

/-! ## Part 1: emitted tags are C02-well-formed -/

theorem tagWFb_sound {t : Tag} (h : tagWFb t = true) : C02.WF t := by
  unfold tagWFb at h
  simp only [Bool.and_eq_true, decide_eq_true_eq] at h
  obtain ⟨⟨h1, h2⟩, h3⟩ := h
  refine ⟨h1, h2, ?_⟩
  cases hc : t.cls <;> rw [hc] at h3 <;> simp only at h3 ⊢
  · split at h3
    · rename_i h1'; simp [h1', List.isEmpty_iff.mp h3]
    · rename_i h1'; simp [h1', beq_iff_eq.mp h3]
  · exact beq_iff_eq.mp h3
  · simp only [Bool.and_eq_true, beq_iff_eq, List.isEmpty_iff] at h3; exact h3
  · simp only [Bool.and_eq_true, beq_iff_eq, List.isEmpty_iff] at h3; exact h3

theorem enc_wf_all (env : Env) (I : Table) (hwf : WFEnv env I) :
    ∀ fuel τ, τ < fuel → EncWF (encodeTyF env fuel) (conformsF env fuel) τ := by
  intro fuel
  induction fuel with
  | zero => intro τ h; omega
  | succ fuel ih =>
    intro τ hτ v ts hc he
    simp only [conformsF] at hc
    simp only [encodeTyF] at he
    cases henv : env[τ]? with
    | none => simp [henv] at hc
    | some d =>
      rw [henv] at hc he
      simp only at hc he
      obtain ⟨_, hok⟩ := wf_entry hwf henv
      exact def_wf env (encodeTyF env fuel) (conformsF env fuel) I τ d hok
        (fun j hj => ih j (by omega)) v hc ts he

/-- **encode_tags_wf**: in a well-formed environment every tag of the encoding
    of a structurally valid value is C02-well-formed. -/
theorem encode_tags_wf (env : Env) (I : Table) (hwf : WFEnv env I) (τ : Nat) (v : Val)
    (hc : conforms env τ v = true) (ts : List Tag) (he : encodeTy env τ v = .ok ts) :
    ∀ t ∈ ts, C02.WF t :=
  fun t ht => tagWFb_sound (enc_wf_all env I hwf (τ + 1) τ (Nat.lt_succ_self τ) v ts hc he t ht)

/-! ## Part 2: typed values -/

open BacVerif.Typed

/-- a leaf of the schema's primitive kind `a`: representable (C01 `Valid`), its data
    fits a tag header (C01 `Fits`), and it is a value OF THAT KIND -/
def leafT (a : Nat) (pv : PrimVal) : Bool :=
  decide (C01.Valid pv) && decide (C01.Fits pv) && ((tyOf pv).appTag == a)

abbrev TConf := Nat → TVal → Bool

def tconformsRef (env : Env) (tconf : TConf) (r : Ref) (tv : TVal) : Bool :=
  match kindOf env r, tv with
  | .prim a, .prim pv => leafT a pv
  | .anyAtomic, .atom pv => leafT (tyOf pv).appTag pv
  | .seqOf j, tv | .listOf j, tv | .struct j, tv => tconf j tv
  | _, _ => false

def tconformsFields (env : Env) (tconf : TConf) : List Field → List (Option TVal) → Bool
  | [], [] => true
  | f :: fs, none :: vs => f.opt && tconformsFields env tconf fs vs
  | f :: fs, some v :: vs => tconformsRef env tconf f.ref v && tconformsFields env tconf fs vs
  | _, _ => false

def tconformsDef (env : Env) (tconf : TConf) : TyDef → TVal → Bool
  | .seq fs, .seq vs => tconformsFields env tconf fs vs
  | .choice alts, .choice i v =>
    (match alts[i]? with | some a => tconformsRef env tconf a.ref v | none => false)
  | .list _ elem fixed, .list vs =>
    vs.all (tconformsRef env tconf elem) &&
    (match fixed with | some n => vs.length == n | none => true)
  | .any, .tags ts => balancedFrom 0 ts && ts.all tagWFb
  | .nameValue dt, .seq [some (.prim name), value] =>
    leafT 7 name &&
    (match value with
     | none => true
     | some (.atom pv) => leafT (tyOf pv).appTag pv
     | some (.seq fs) => tconf dt (.seq fs)
     | some _ => false)
  | _, _ => false

def tconformsF (env : Env) : Nat → Nat → TVal → Bool
  | 0, _, _ => false
  | fuel + 1, τ, tv =>
    match env[τ]? with
    | none => false
    | some d => tconformsDef env (tconformsF env fuel) d tv

/-- `tv` is a structurally valid TYPED value of class `env[τ]`: structure as
    `conforms`, every leaf a representable C01 value of the kind the schema names -/
def tconforms (env : Env) (τ : Nat) (tv : TVal) : Bool := tconformsF env (τ + 1) τ tv

theorem ofAppTag_appTag (pt : PrimTy) : PrimTy.ofAppTag pt.appTag = some pt := by
  cases pt <;> rfl

/-- one leaf: C01 `prim_roundtrip` / `encodePrim_shape` through `leaf_of_prim` -/
theorem leafT_ok {a : Nat} {pv : PrimVal} (h : leafT a pv = true) :
    ∃ t, encodePrim pv = .ok t ∧ t.num = a ∧ leafOK a t.lvt t.data = true ∧
      typeLeaf a t.lvt t.data = .ok pv := by
  unfold leafT at h
  simp only [Bool.and_eq_true, decide_eq_true_eq, beq_iff_eq] at h
  obtain ⟨⟨hv, hf⟩, ha⟩ := h
  obtain ⟨t, he, _, hnum, hok, hdec⟩ := leaf_of_prim pv hv hf
  subst ha
  exact ⟨t, he, hnum, hok, by simp [typeLeaf, ofAppTag_appTag, hdec]⟩

section
variable (env : Env) (conf : Nat → Val → Bool) (tconf : TConf) (ty : Ty)

/-- what the induction provides for a class index below the current one -/
def TGood (j : Nat) : Prop :=
  ∀ tv, tconf j tv = true → ∃ v, tv.erase = .ok v ∧ conf j v = true ∧ ty j v = .ok tv

theorem tgood_ref (τ : Nat) (r : Ref)
    (hsub : ∀ j, TGood conf tconf ty j)
    (tv : TVal) (hc : tconformsRef env tconf r tv = true) :
    ∃ v, tv.erase = .ok v ∧ conformsRef env conf r v = true ∧ typeRef env ty r v = .ok tv := by
  unfold tconformsRef at hc
  cases hk : kindOf env r with
  | prim a =>
    rw [hk] at hc
    cases tv with
    | prim pv =>
      obtain ⟨t, he, _, hok, hty⟩ := leafT_ok hc
      exact ⟨.prim t.lvt t.data, by simp [TVal.erase, he], by simp [conformsRef, hk, hok],
        by simp [typeRef, hk, hty]⟩
    | _ => simp at hc
  | anyAtomic =>
    rw [hk] at hc
    cases tv with
    | atom pv =>
      obtain ⟨t, he, hnum, hok, hty⟩ := leafT_ok hc
      have h12 := leafOK_le hok
      refine ⟨.atom t.num t.lvt t.data, by simp [TVal.erase, he], ?_, ?_⟩
      · simp [conformsRef, hk, hnum, hok, h12]
      · simp [typeRef, hk, hnum, hty]
    | _ => simp at hc
  | seqOf j =>
    rw [hk] at hc
    obtain ⟨v, h1, h2, h3⟩ := hsub j tv (by simpa using hc)
    exact ⟨v, h1, by simp [conformsRef, hk, h2], by simp [typeRef, hk, h3]⟩
  | listOf j =>
    rw [hk] at hc
    obtain ⟨v, h1, h2, h3⟩ := hsub j tv (by simpa using hc)
    exact ⟨v, h1, by simp [conformsRef, hk, h2], by simp [typeRef, hk, h3]⟩
  | struct j =>
    rw [hk] at hc
    obtain ⟨v, h1, h2, h3⟩ := hsub j tv (by simpa using hc)
    exact ⟨v, h1, by simp [conformsRef, hk, h2], by simp [typeRef, hk, h3]⟩
  | bad => rw [hk] at hc; simp at hc

theorem tgood_fields (hsub : ∀ j, TGood conf tconf ty j) :
    ∀ (fs : List Field) (tvs : List (Option TVal)), tconformsFields env tconf fs tvs = true →
      ∃ vs, TVal.eraseOpts tvs = .ok vs ∧ conformsFields env conf fs vs = true ∧
        typeFields env ty fs vs = .ok tvs := by
  intro fs
  induction fs with
  | nil =>
    intro tvs hc
    cases tvs with
    | nil => exact ⟨[], by simp [TVal.eraseOpts], by simp [conformsFields], by simp [typeFields]⟩
    | cons _ _ => simp [tconformsFields] at hc
  | cons f fs ih =>
    intro tvs hc
    cases tvs with
    | nil => simp [tconformsFields] at hc
    | cons otv tvs =>
      cases otv with
      | none =>
        simp only [tconformsFields, Bool.and_eq_true] at hc
        obtain ⟨vs, h1, h2, h3⟩ := ih tvs hc.2
        exact ⟨none :: vs, by simp [TVal.eraseOpts, h1], by simp [conformsFields, hc.1, h2],
          by simp [typeFields, h3]⟩
      | some tv =>
        simp only [tconformsFields, Bool.and_eq_true] at hc
        obtain ⟨v, g1, g2, g3⟩ := tgood_ref env conf tconf ty 0 f.ref hsub tv hc.1
        obtain ⟨vs, h1, h2, h3⟩ := ih tvs hc.2
        exact ⟨some v :: vs, by simp [TVal.eraseOpts, g1, h1], by simp [conformsFields, g2, h2],
          by simp [typeFields, g3, h3]⟩

theorem tgood_elems (elem : Ref) (hsub : ∀ j, TGood conf tconf ty j) :
    ∀ (tvs : List TVal), tvs.all (tconformsRef env tconf elem) = true →
      ∃ vs, TVal.eraseList tvs = .ok vs ∧ vs.all (conformsRef env conf elem) = true ∧
        typeElems env ty elem vs = .ok tvs ∧ vs.length = tvs.length := by
  intro tvs
  induction tvs with
  | nil => intro _; exact ⟨[], by simp [TVal.eraseList], by simp, by simp [typeElems], rfl⟩
  | cons tv tvs ih =>
    intro hc
    simp only [List.all_cons, Bool.and_eq_true] at hc
    obtain ⟨v, g1, g2, g3⟩ := tgood_ref env conf tconf ty 0 elem hsub tv hc.1
    obtain ⟨vs, h1, h2, h3, h4⟩ := ih hc.2
    exact ⟨v :: vs, by simp [TVal.eraseList, g1, h1], by simp [g2, h2], by simp [typeElems, g3, h3],
      by simp [h4]⟩

/-- ONE CLASS -/
theorem tgood_def (d : TyDef) (hsub : ∀ j, TGood conf tconf ty j)
    (tv : TVal) (hc : tconformsDef env tconf d tv = true) :
    ∃ v, tv.erase = .ok v ∧ conformsDef env conf d v = true ∧ typeDef env ty d v = .ok tv := by
  cases d with
  | seq fs =>
    cases tv with
    | seq tvs =>
      simp only [tconformsDef] at hc
      obtain ⟨vs, h1, h2, h3⟩ := tgood_fields env conf tconf ty hsub fs tvs hc
      exact ⟨.seq vs, by simp [TVal.erase, h1], by simp [conformsDef, h2], by simp [typeDef, h3]⟩
    | _ => simp [tconformsDef] at hc
  | choice alts =>
    cases tv with
    | choice i x =>
      simp only [tconformsDef] at hc
      cases hi : alts[i]? with
      | none => simp [hi] at hc
      | some a =>
        rw [hi] at hc
        obtain ⟨v, g1, g2, g3⟩ := tgood_ref env conf tconf ty 0 a.ref hsub x hc
        exact ⟨.choice i v, by simp [TVal.erase, g1], by simp [conformsDef, hi, g2],
          by simp [typeDef, hi, g3]⟩
    | _ => simp [tconformsDef] at hc
  | list k elem fixed =>
    cases tv with
    | list tvs =>
      simp only [tconformsDef, Bool.and_eq_true] at hc
      obtain ⟨vs, h1, h2, h3, h4⟩ := tgood_elems env conf tconf ty elem hsub tvs hc.1
      refine ⟨.list vs, by simp [TVal.erase, h1], ?_, by simp [typeDef, h3]⟩
      simp only [conformsDef, Bool.and_eq_true, h2, true_and]
      rw [h4]; exact hc.2
    | _ => simp [tconformsDef] at hc
  | any =>
    cases tv with
    | tags ts =>
      simp only [tconformsDef] at hc
      exact ⟨.tags ts, by simp [TVal.erase], by simpa [conformsDef] using hc, by simp [typeDef]⟩
    | _ => simp [tconformsDef] at hc
  | nameValue dt =>
    -- the typed value has the shape `.seq [some (.prim name), value]`
    have hshape : ∃ name value, tv = .seq [some (.prim name), value] := by
      cases tv with
      | seq fs =>
        cases fs with
        | nil => simp [tconformsDef] at hc
        | cons x fs1 =>
          cases x with
          | none => simp [tconformsDef] at hc
          | some nm =>
            cases nm with
            | prim name =>
              cases fs1 with
              | nil => simp [tconformsDef] at hc
              | cons value fs2 =>
                cases fs2 with
                | cons _ _ => simp [tconformsDef] at hc
                | nil => exact ⟨name, value, rfl⟩
            | _ => simp [tconformsDef] at hc
      | _ => simp [tconformsDef] at hc
    obtain ⟨name, value, rfl⟩ := hshape
    simp only [tconformsDef, Bool.and_eq_true] at hc
    obtain ⟨t, he, _, hok, hty⟩ := leafT_ok hc.1
    cases value with
    | none =>
      exact ⟨.seq [some (.prim t.lvt t.data), none], by simp [TVal.erase, TVal.eraseOpts, he],
        by simp [conformsDef, hok], by simp [typeDef, hty]⟩
    | some x =>
      cases x with
      | atom pv =>
        obtain ⟨t2, he2, hnum2, hok2, hty2⟩ := leafT_ok hc.2
        have h12 := leafOK_le hok2
        refine ⟨.seq [some (.prim t.lvt t.data), some (.atom t2.num t2.lvt t2.data)],
          by simp [TVal.erase, TVal.eraseOpts, he, he2], ?_, ?_⟩
        · simp [conformsDef, hok, hnum2, hok2, h12]
        · simp [typeDef, hty, hnum2, hty2]
      | seq fs =>
        have hc2 := hc.2
        simp only at hc2
        obtain ⟨v, g1, g2, g3⟩ := hsub dt (.seq fs) hc2
        -- the erasure of a `.seq` is a `.seq`
        have hvs : ∃ vs, v = .seq vs := by
          simp only [TVal.erase] at g1
          split at g1
          · simp only [Except.ok.injEq] at g1; exact ⟨_, g1.symm⟩
          · simp at g1
        obtain ⟨vs, rfl⟩ := hvs
        refine ⟨.seq [some (.prim t.lvt t.data), some (.seq vs)], ?_, ?_, ?_⟩
        · simp only [TVal.erase] at g1 ⊢
          simp only [TVal.eraseOpts, TVal.erase, he]
          split at g1
          · rename_i vs' hvs'
            simp only [Except.ok.injEq, Val.seq.injEq] at g1
            subst g1
            simp [hvs']
          · simp at g1
        · simp [conformsDef, hok, g2]
        · simp [typeDef, hty, g3]
      | prim _ => simp at hc
      | tags _ => simp at hc
      | choice _ _ => simp at hc
      | list _ => simp at hc
end

/-- the induction over the reference depth -/
theorem tgood_all (env : Env) :
    ∀ fuel τ, TGood (conformsF env fuel) (tconformsF env fuel) (typeValF env fuel) τ := by
  intro fuel
  induction fuel with
  | zero => intro τ tv hc; simp [tconformsF] at hc
  | succ fuel ih =>
    intro τ tv hc
    simp only [tconformsF] at hc
    cases henv : env[τ]? with
    | none => simp [henv] at hc
    | some d =>
      rw [henv] at hc
      obtain ⟨v, h1, h2, h3⟩ := tgood_def env (conformsF env fuel) (tconformsF env fuel)
        (typeValF env fuel) d ih tv hc
      exact ⟨v, h1, by simp [conformsF, henv, h2], by simp [typeValF, henv, h3]⟩

/-- **typed_erase**: a conforming typed value erases to a structurally valid
    value tree that types back to it (C01 `prim_roundtrip` at every leaf). -/
theorem typed_erase (env : Env) (τ : Nat) (tv : TVal) (hc : tconforms env τ tv = true) :
    ∃ v, tv.erase = .ok v ∧ conforms env τ v = true ∧ typeVal env τ v = .ok tv :=
  tgood_all env (τ + 1) τ tv hc

end BacVerif.C03
