/-
  Props.C03Octets — closing the stack at OCTET level: C01 ∘ C02 ∘ C03.

  Part 1 (`encode_tags_wf`): every tag the generic encoder emits for a
  structurally valid value is well-formed in the sense of C02, hence (C02
  `taglist_roundtrip`) the octets parse back to exactly the tag list — the side
  condition of `codec_octets` is discharged.

  Part 2: TYPED values (`TVal`): the structure of `Val` with C01 `PrimVal`
  leaves.  `TVal.erase` replaces every leaf by the payload C01's encoder
  produces, `typeValF` reads the payloads back with C01's decoder of the
  primitive kind the SCHEMA names.  `typed_erase`: for a typed value that
  conforms (`tconforms`: structure as `conforms`, every leaf `Valid`, `Fits`
  and of the schema's kind) the erasure conforms and types back to the value
  (C01 `prim_roundtrip` leaf by leaf).

  The composition (`pdu_octets_roundtrip`, …) is at the end of Props/C03.lean.
-/
import BacVerif.Lemmas.C03EncWF
import BacVerif.Lemmas.C03Prim
import BacVerif.Lemmas.C03WFEnv
import BacVerif.Props.C02
namespace BacVerif.C03
open BacVerif BacVerif.Schema BacVerif.Codec BacVerif.SchemaWF

/-! ## Part 1: emitted tags are C02-well-formed -/

theorem tagWFb_sound {t : Tag} (h : tagWFb t = true) : C02.WF t := by
  unfold tagWFb at h
  simp only [Bool.and_eq_true, decide_eq_true_eq] at h
  obtain ⟨⟨h1, h2⟩, h3⟩ := h
  refine ⟨h1, h2, ?_⟩
  cases hc : t.cls <;> rw [hc] at h3 <;> simp only at h3 ⊢
  · split at h3
    · rename_i h1'; simp [h1', List.isEmpty_iff.mp h3]
    · rename_i h1'; simp [h1', beq_iff_eq.mp h3]
  · exact beq_iff_eq.mp h3
  · simp only [Bool.and_eq_true, beq_iff_eq, List.isEmpty_iff] at h3; exact h3
  · simp only [Bool.and_eq_true, beq_iff_eq, List.isEmpty_iff] at h3; exact h3

theorem enc_wf_all (env : Env) (I : Table) (hwf : WFEnv env I) :
    ∀ fuel τ, τ < fuel → EncWF (encodeTyF env fuel) (conformsF env fuel) τ := by
  intro fuel
  induction fuel with
  | zero => intro τ h; omega
  | succ fuel ih =>
    intro τ hτ v ts hc he
    simp only [conformsF] at hc
    simp only [encodeTyF] at he
    cases henv : env[τ]? with
    | none => simp [henv] at hc
    | some d =>
      rw [henv] at hc he
      simp only at hc he
      obtain ⟨_, hok⟩ := wf_entry hwf henv
      exact def_wf env (encodeTyF env fuel) (conformsF env fuel) I τ d hok
        (fun j hj => ih j (by omega)) v hc ts he

/-- **encode_tags_wf**: in a well-formed environment every tag of the encoding
    of a structurally valid value is C02-well-formed. -/
theorem encode_tags_wf (env : Env) (I : Table) (hwf : WFEnv env I) (τ : Nat) (v : Val)
    (hc : conforms env τ v = true) (ts : List Tag) (he : encodeTy env τ v = .ok ts) :
    ∀ t ∈ ts, C02.WF t :=
  fun t ht => tagWFb_sound (enc_wf_all env I hwf (τ + 1) τ (Nat.lt_succ_self τ) v ts hc he t ht)

end BacVerif.C03
