/-
  C14 — Scheduled work runs once, in order, never early; failures stay isolated.

  Model: `BacVerif.Model.Task` (TaskManager + _Task/RecurringTask attributes +
  core.run / core.run_once / core.deferred, the tree AFTER fixes/C14-*.patch).
  A history is any `List Op` (install at / after / bare re-install, recurring
  install, suspend, resume, defer, tick, single step, run_once pass, run pass)
  applied to a `Fresh` world: ANY assignment of task classes, scripted bodies
  (raising or not, deferring anything), spin and tick length.  All theorems
  below are for all histories of any length, by induction over the history and
  over the fuel of the loops (`reachable_winv`).

  RE-ENTRANT bodies: task bodies and deferred functions (at any depth) may use
  the scheduler while they run — `Act`: install any task at / after, suspend
  any task (themselves included), call `stop()`, PUMP the loop (call
  `run_once()` themselves, nested to any depth) — possibly raising afterwards.
  The nested pass is a parameter (`[Pump]`, assumed to satisfy `PumpOK`:
  it preserves the two invariants); `pumpAt_ok` proves that the real one —
  `runOnceLoop` again, one level down — does, at every depth, so everything
  applies to the model the driver runs (`reachable_winv_real`).
  Which theorems hold for which bodies:
  * for ALL bodies (arbitrary acts, pumping included): the invariant
    (`reachable_winv`) and every clause read off it — `fire_order`,
    `never_early`, `once_per_install`, `install_fate`, `pending_or_done`,
    `removed_never_fires`, `one_entry_iff_flagged`, `deferred_once` (every
    submitted function exactly once, as multisets); the manager-level theorems
    (`reinstall_moves…`, `install_moves`, `fire_is_min`, the recurring
    arithmetic, the refinement);
  * for bodies that do anything BUT PUMP (`GoodW noPump`): `deferred_fifo`
    (submission ORDER; a pumping callback legitimately reorders: the nested
    pass runs what was deferred since its batch began before the rest of that
    batch) and the deferred-queue theorems `drain_queue_empty`,
    `deferred_isolated`, `batch_isolated`, `drain_calls`;
  * for bodies in which NOBODY INSTALLS TASK `t` (`GoodW (calm t)`; they may do
    anything else, to `t` or to others): `suspended_silent`,
    `unscheduled_silent`;
  * for bodies that LEAVE THE SCHEDULER ALONE (`Passive`): the completeness
    theorems `runOnce_complete`, `runLoop_complete`, `advOnce_complete`,
    `advRun_complete`, `fires_exactly_once`, and `runOnce_pass_sorted`.  They
    are false of the code for bodies that install tasks (run_once decides
    whether to go round again BEFORE the body runs; a body may install a task
    in the past); the harness oracle evaluates the weaker, true form on the
    real code (what was pending and due when the pass began has fired).

  Property text → formal statement
  * "Tasks fire in non-decreasing order of their due time and, among equal
    times, in the order they were installed"
        → `fire_order` (for every pair of firings that were pending together the
          earlier one has the smaller `(due, installation number)`),
          `runOnce_pass_sorted` (the firings of one run_once pass are strictly
          sorted by `(due, installation number)`),
          `fire_is_min` (one step: the popped entry is the heap minimum),
          `refine_pop` (… = the head of the abstract sorted list)
  * "a task never fires before its time"              → `never_early`
  * "fires once per installation"
        → `once_per_install` (no installation number twice in the log),
          `install_fate` (every installation is exactly one of queued / fired /
          deleted), `fires_exactly_once` + `advOnce_complete` / `advRun_complete`
          (after a complete pass nothing due is left: what was not deleted and
          whose time has come HAS fired)
  * "does not fire after being suspended"
        → `suspended_silent`, `unscheduled_silent` (task level, arbitrary
          continuation that does not re-arm the task), `removed_never_fires`
          (installation level)
  * "re-installing a pending task moves it rather than duplicating it"
        → `reinstall_moves`, `reinstall_moves_delta`, `install_moves` (one entry,
          at the new time, newest number; nobody else touched) and the invariant
          `one_entry_iff_flagged` (at most one heap entry per task, present iff
          `isScheduled`) for every reachable state
  * "A recurring task fires once at each successive multiple of its interval
    (plus offset), starting strictly after installation"
        → `recurring_grid` (k-th firing = first slot + k·interval, on the grid,
          after installation), `slotAfter_grid/_gt/_le/_first/_succ`,
          `recurring_no_burst`, and the link to the model `installRecurring_time`,
          `process_heap` (the re-install inside process_task happens even when
          the body raised).  Exact integers; Python floats are a checked, not a
          proved, refinement (harness stream `grid`).
  * "Every function handed to the deferred-call queue is called exactly once in
    submission order"
        → `deferred_once` (all callbacks: called ++ queued = submitted as multisets),
          `deferred_fifo` (invariant: submitted = called ++ queued, as lists),
          `drain_queue_empty` (the drain loop terminates with an empty queue),
          hence `calls = subs` after every pass (`advOnce_complete`)
  * "an exception raised by one task or deferred function does not prevent the
    others that are already queued or due from running"
        → `deferred_isolated` (the call sequence is the same for EVERY choice of
          raising members, at any depth), `batch_isolated` (every member of a
          batch is called, the raising ones are logged), `runOnce_complete`,
          `runLoop_complete` (quantified over all bodies, raising or not: the
          pass still fires everything that is due)
  * refinement of the list-of-triples heap to an abstract sorted multiset of
    deadlines → `refine_pop`, `refine_idle`, `refine_push`, `refine_suspend`

  * histories that BEGIN BEFORE THE MANAGER EXISTS (tasks installed at import
    time are only listed, `TaskManager.__init__` replays the list): `Pre`,
    `mkManager_winv`, `reachable_winv_pre` (all the clauses read off the
    invariant hold for such histories), `premgr_time` (each listed one-shot task
    is armed at its LAST time), `premgr_order` (the order of the LAST installs is
    the order of the installation numbers: a pre-manager re-install moves the
    task behind what was installed in the meantime)

  Partial / not proved: float arithmetic of the recurring slot (see above);
  `runLoop` is modelled with explicit fuel and its completeness theorem is
  conditional on the loop reaching `stop()` (a bound on the number of recurring
  firings before `T` is not proved; run_once and the drain loop need no such
  hypothesis: `runOnce_complete`, `drain_queue_empty`).
-/
import BacVerif.Model.Task
namespace BacVerif.C14
open BacVerif.Task

/-! ## heap lemmas -/

theorem before_refl (a : Entry) : a.before a := by unfold Entry.before; omega
theorem before_trans {a b c : Entry} (h1 : a.before b) (h2 : b.before c) : a.before c := by
  unfold Entry.before at *; omega
theorem before_total (a b : Entry) : a.before b ∨ b.before a := by
  unfold Entry.before; omega

theorem popMin_none {h : List Entry} : popMin h = none ↔ h = [] := by
  cases h with
  | nil => simp [popMin]
  | cons e r =>
    simp only [popMin]
    cases popMin r with
    | none => simp
    | some p => obtain ⟨m, r'⟩ := p; simp; split <;> simp

theorem popMin_some {h : List Entry} {m : Entry} {r : List Entry} (hp : popMin h = some (m, r)) :
    h.Perm (m :: r) ∧ ∀ e ∈ r, m.before e := by
  induction h generalizing m r with
  | nil => simp [popMin] at hp
  | cons e t ih =>
    simp only [popMin] at hp
    cases ht : popMin t with
    | none =>
      rw [ht] at hp
      have : t = [] := popMin_none.mp ht
      simp at hp; obtain ⟨rfl, rfl⟩ := hp
      subst this; simp
    | some p =>
      obtain ⟨m', r'⟩ := p
      rw [ht] at hp
      obtain ⟨hperm, hmin⟩ := ih ht
      simp only at hp
      split at hp
      · rename_i hb
        simp at hp; obtain ⟨rfl, rfl⟩ := hp
        refine ⟨List.Perm.refl _, ?_⟩
        intro x hx
        have hx' : x ∈ m' :: r' := hperm.mem_iff.mp hx
        rcases List.mem_cons.mp hx' with rfl | hx''
        · exact hb
        · exact before_trans hb (hmin x hx'')
      · rename_i hb
        simp at hp; obtain ⟨rfl, rfl⟩ := hp
        refine ⟨?_, ?_⟩
        · exact (List.Perm.cons e hperm).trans (List.Perm.swap _ _ _)
        · intro x hx
          rcases List.mem_cons.mp hx with rfl | hx''
          · rcases before_total x m' with h | h
            · exact absurd h hb
            · exact h
          · exact hmin x hx''

theorem removeTid_none {tid : Nat} {h : List Entry} : removeTid tid h = none ↔ ∀ e ∈ h, e.tid ≠ tid := by
  induction h with
  | nil => simp [removeTid]
  | cons e t ih =>
    simp only [removeTid]
    split
    · rename_i he; simp [he]
    · rename_i he
      cases hr : removeTid tid t with
      | none => simp [he]; exact ih.mp hr
      | some p =>
        simp
        intro _
        have : ¬ ∀ e ∈ t, e.tid ≠ tid := fun hh => by rw [ih.mpr hh] at hr; simp at hr
        simpa using this

theorem removeTid_some {tid : Nat} {h : List Entry} {x : Entry} {r : List Entry}
    (hp : removeTid tid h = some (x, r)) : x.tid = tid ∧ h.Perm (x :: r) := by
  induction h generalizing x r with
  | nil => simp [removeTid] at hp
  | cons e t ih =>
    simp only [removeTid] at hp
    split at hp
    · rename_i he
      simp at hp; obtain ⟨rfl, rfl⟩ := hp
      exact ⟨he, List.Perm.refl _⟩
    · cases hr : removeTid tid t with
      | none => rw [hr] at hp; simp at hp
      | some p =>
        obtain ⟨x', r'⟩ := p
        rw [hr] at hp; simp at hp; obtain ⟨rfl, rfl⟩ := hp
        obtain ⟨h1, h2⟩ := ih hr
        exact ⟨h1, (List.Perm.cons e h2).trans (List.Perm.swap _ _ _)⟩

/-! ## the schedule invariant -/

/-- strict `(due, seq)` order -/
def keyLt (d1 s1 d2 s2 : Nat) : Prop := d1 < d2 ∨ (d1 = d2 ∧ s1 < s2)

instance (d1 s1 d2 s2 : Nat) : Decidable (keyLt d1 s1 d2 s2) := by unfold keyLt; exact inferInstance

/-- "the earlier firing `f` wins against `g` whenever `g` was already installed when `f` fired" -/
def Ordered (f g : Fire) : Prop := g.seq < f.ctr → keyLt f.due f.seq g.due g.seq

/-- Invariant of the schedule (`tm`) together with the log of firings.
    `part` says that the installation numbers `0 … counter-1` are split three
    ways — still queued, fired, deleted by suspend_task — without overlap or
    repetition. -/
structure SInv (tm : TM) (fired : List Fire) : Prop where
  part : (tm.heap.map (·.seq) ++ fired.map (·.seq) ++ tm.removed).Perm (List.range tm.counter)
  tid_nodup : (tm.heap.map (·.tid)).Nodup
  flag_iff : ∀ t, tm.flag t = true ↔ ∃ e ∈ tm.heap, e.tid = t
  fired_ctr : ∀ f ∈ fired, f.seq < f.ctr ∧ f.ctr ≤ tm.counter
  order_heap : ∀ f ∈ fired, ∀ e ∈ tm.heap, e.seq < f.ctr → keyLt f.due f.seq e.time e.seq
  order : fired.Pairwise Ordered
  early : ∀ f ∈ fired, f.due ≤ f.now

theorem SInv.init (tm : TM) (h1 : tm.heap = []) (h2 : tm.counter = 0) (h3 : tm.removed = [])
    (h4 : ∀ t, tm.flag t = false) : SInv tm [] := by
  constructor <;> simp [h1, h2, h3, h4]

theorem SInv.nodup_all {tm : TM} {fired : List Fire} (h : SInv tm fired) :
    (tm.heap.map (·.seq) ++ fired.map (·.seq) ++ tm.removed).Nodup :=
  h.part.nodup_iff.mpr List.nodup_range

theorem SInv.seq_nodup {tm : TM} {fired : List Fire} (h : SInv tm fired) :
    (tm.heap.map (·.seq)).Nodup := by
  have := h.nodup_all
  rw [List.append_assoc] at this
  exact (List.nodup_append.mp this).1

theorem SInv.heap_seq_lt {tm : TM} {fired : List Fire} (h : SInv tm fired) {e : Entry}
    (he : e ∈ tm.heap) : e.seq < tm.counter := by
  have : e.seq ∈ tm.heap.map (·.seq) ++ fired.map (·.seq) ++ tm.removed := by
    simp only [List.mem_append, List.mem_map]; exact Or.inl (Or.inl ⟨e, he, rfl⟩)
  exact List.mem_range.mp (h.part.mem_iff.mp this)

theorem SInv.congr {tm tm' : TM} {fired : List Fire} (h : SInv tm fired)
    (h1 : tm'.heap = tm.heap) (h2 : tm'.counter = tm.counter) (h3 : tm'.flag = tm.flag)
    (h4 : tm'.removed = tm.removed) : SInv tm' fired := by
  constructor
  · rw [h1, h2, h4]; exact h.part
  · rw [h1]; exact h.tid_nodup
  · rw [h1, h3]; exact h.flag_iff
  · rw [h2]; exact h.fired_ctr
  · rw [h1]; exact h.order_heap
  · exact h.order
  · exact h.early

/-- an entry leaves the heap through `suspend_task` -/
theorem SInv.rm {tm tm' : TM} {fired : List Fire} {x : Entry} (h : SInv tm fired)
    (hheap : tm.heap.Perm (x :: tm'.heap)) (hflag : tm'.flag = upd tm.flag x.tid false)
    (hrem : tm'.removed = tm.removed ++ [x.seq]) (hctr : tm'.counter = tm.counter) :
    SInv tm' fired := by
  have htid : (x.tid :: tm'.heap.map (·.tid)).Nodup := by
    have := (hheap.map (·.tid)).nodup_iff.mp h.tid_nodup
    simpa using this
  have hsub : ∀ e ∈ tm'.heap, e ∈ tm.heap := fun e he => hheap.mem_iff.mpr (List.mem_cons_of_mem _ he)
  constructor
  · rw [hrem, hctr]
    refine List.Perm.trans ?_ h.part
    have h1 : (tm.heap.map (·.seq)).Perm (x.seq :: tm'.heap.map (·.seq)) := by
      simpa using hheap.map (·.seq)
    refine List.Perm.trans ?_ ((h1.append_right _).append_right _).symm
    simp only [List.cons_append, ← List.append_assoc]
    exact List.perm_append_singleton _ _
  · exact (List.nodup_cons.mp htid).2
  · intro t
    rw [hflag]
    unfold upd
    have hx : x.tid ∉ tm'.heap.map (·.tid) := (List.nodup_cons.mp htid).1
    by_cases ht : t = x.tid
    · subst ht
      simp only [if_true]
      constructor
      · intro hf; cases hf
      · rintro ⟨e, he, het⟩
        exact absurd (List.mem_map.mpr ⟨e, he, het⟩) hx
    · simp only [if_neg ht]
      rw [h.flag_iff t]
      constructor
      · rintro ⟨e, he, het⟩
        rcases List.mem_cons.mp (hheap.mem_iff.mp he) with rfl | he'
        · exact absurd het.symm ht
        · exact ⟨e, he', het⟩
      · rintro ⟨e, he, het⟩
        exact ⟨e, hsub e he, het⟩
  · rw [hctr]; exact h.fired_ctr
  · intro f hf e he; exact h.order_heap f hf e (hsub e he)
  · exact h.order
  · exact h.early

/-- an entry enters the heap through `install_task` -/
theorem SInv.push {tm tm' : TM} {fired : List Fire} {t tid : Nat} (h : SInv tm fired)
    (hno : ∀ e ∈ tm.heap, e.tid ≠ tid)
    (hheap : tm'.heap = ⟨t, tm.counter, tid⟩ :: tm.heap) (hflag : tm'.flag = upd tm.flag tid true)
    (hrem : tm'.removed = tm.removed) (hctr : tm'.counter = tm.counter + 1) :
    SInv tm' fired := by
  constructor
  · rw [hheap, hrem, hctr, List.range_succ]
    simp only [List.map_cons, List.cons_append]
    exact (List.Perm.cons _ h.part).trans (List.perm_append_singleton _ _).symm
  · rw [hheap]
    simp only [List.map_cons]
    refine List.nodup_cons.mpr ⟨?_, h.tid_nodup⟩
    intro hm
    obtain ⟨e, he, het⟩ := List.mem_map.mp hm
    exact hno e he het
  · intro t'
    rw [hflag, hheap]
    unfold upd
    by_cases ht : t' = tid
    · subst ht; simp
    · simp only [if_neg ht, List.mem_cons]
      rw [h.flag_iff t']
      constructor
      · rintro ⟨e, he, het⟩; exact ⟨e, Or.inr he, het⟩
      · rintro ⟨e, he | he, het⟩
        · subst he; exact absurd het.symm ht
        · exact ⟨e, he, het⟩
  · intro f hf; have := h.fired_ctr f hf; omega
  · intro f hf e he hlt
    rw [hheap] at he
    rcases List.mem_cons.mp he with rfl | he'
    · have := h.fired_ctr f hf; simp at hlt; omega
    · exact h.order_heap f hf e he' hlt
  · exact h.order
  · exact h.early

/-- an entry leaves the heap through `get_next_task` and is fired -/
theorem SInv.pop {tm tm' : TM} {fired : List Fire} {e : Entry} {now : Nat} (h : SInv tm fired)
    (hheap : tm.heap.Perm (e :: tm'.heap)) (hmin : ∀ x ∈ tm'.heap, e.before x)
    (hflag : tm'.flag = upd tm.flag e.tid false) (hrem : tm'.removed = tm.removed)
    (hctr : tm'.counter = tm.counter) (hdue : e.time ≤ now) :
    SInv tm' (fired ++ [⟨e.tid, e.time, e.seq, now, tm.counter⟩]) := by
  have he : e ∈ tm.heap := hheap.mem_iff.mpr (List.mem_cons_self)
  have hsub : ∀ x ∈ tm'.heap, x ∈ tm.heap := fun x hx => hheap.mem_iff.mpr (List.mem_cons_of_mem _ hx)
  have hseq : (e.seq :: tm'.heap.map (·.seq)).Nodup := by
    have := (hheap.map (·.seq)).nodup_iff.mp h.seq_nodup
    simpa using this
  -- everything but `part`, `fired_ctr`, `order_heap`, `order`, `early` is as for `rm`
  have hrm : SInv { tm' with removed := tm.removed ++ [e.seq] } fired :=
    h.rm (x := e) hheap hflag rfl hctr
  constructor
  · rw [hrem, hctr]
    refine List.Perm.trans ?_ h.part
    have h1 : (tm.heap.map (·.seq)).Perm (e.seq :: tm'.heap.map (·.seq)) := by
      simpa using hheap.map (·.seq)
    refine List.Perm.trans ?_ ((h1.append_right _).append_right _).symm
    simp only [List.map_append, List.map_cons, List.map_nil, List.cons_append]
    have : List.map (fun x => x.seq) tm'.heap ++ (List.map (fun x => x.seq) fired ++ [e.seq]) ++ tm.removed
        = (List.map (fun x => x.seq) tm'.heap ++ List.map (fun x => x.seq) fired) ++ e.seq :: tm.removed := by
      simp [List.append_assoc]
    rw [this]; exact List.perm_middle
  · exact hrm.tid_nodup
  · exact hrm.flag_iff
  · intro f hf
    rcases List.mem_append.mp hf with hf | hf
    · rw [hctr]; exact h.fired_ctr f hf
    · simp at hf; subst hf; simp; rw [hctr]; exact ⟨h.heap_seq_lt he, Nat.le_refl _⟩
  · intro f hf x hx hlt
    rcases List.mem_append.mp hf with hf | hf
    · exact h.order_heap f hf x (hsub x hx) hlt
    · simp at hf; subst hf
      simp only
      have hb := hmin x hx
      have hne : e.seq ≠ x.seq := by
        intro heq
        have := (List.nodup_cons.mp hseq).1
        exact this (List.mem_map.mpr ⟨x, hx, heq.symm⟩)
      unfold Entry.before at hb; unfold keyLt; omega
  · refine List.pairwise_append.mpr ⟨h.order, by simp, ?_⟩
    intro f hf g hg
    simp at hg; subst hg
    intro hlt
    exact h.order_heap f hf e he hlt
  · intro f hf
    rcases List.mem_append.mp hf with hf | hf
    · exact h.early f hf
    · simp at hf; subst hf; exact hdue
/-! ## the TaskManager operations preserve the invariant -/

theorem suspend_inv {tm : TM} {fired : List Fire} (tid : Nat) (h : SInv tm fired) :
    SInv (tm.suspend tid) fired := by
  unfold TM.suspend
  cases hr : removeTid tid tm.heap with
  | none => exact h.congr rfl rfl rfl rfl
  | some p =>
    obtain ⟨x, r⟩ := p
    obtain ⟨hx, hperm⟩ := removeTid_some hr
    exact h.rm (x := x) hperm (by simp [hx]) rfl rfl

theorem suspend_no_tid {tm : TM} {fired : List Fire} (tid : Nat) (h : SInv tm fired) :
    ∀ e ∈ (tm.suspend tid).heap, e.tid ≠ tid := by
  unfold TM.suspend
  cases hr : removeTid tid tm.heap with
  | none => exact removeTid_none.mp hr
  | some p =>
    obtain ⟨x, r⟩ := p
    obtain ⟨hx, hperm⟩ := removeTid_some hr
    have hn : (x.tid :: r.map (·.tid)).Nodup := by
      have := (hperm.map (·.tid)).nodup_iff.mp h.tid_nodup
      simpa using this
    intro e he het
    exact (List.nodup_cons.mp hn).1 (List.mem_map.mpr ⟨e, he, by simp [het, hx]⟩)

theorem install_inv {tm : TM} {fired : List Fire} (tid : Nat) (h : SInv tm fired) :
    SInv (tm.install tid).1 fired := by
  unfold TM.install
  cases ht : tm.ttime tid with
  | none => exact h
  | some t =>
    simp only
    by_cases hf : tm.flag tid = true
    · simp only [hf, if_true]
      exact (suspend_inv tid h).push (suspend_no_tid tid h) rfl rfl rfl rfl
    · simp only [hf]
      refine h.push ?_ rfl rfl rfl rfl
      intro e he het
      exact hf ((h.flag_iff tid).mpr ⟨e, he, het⟩)

theorem installTask_inv {tm : TM} {fired : List Fire} (now tid : Nat) (w d : Option Nat)
    (h : SInv tm fired) : SInv (tm.installTask now tid w d).1 fired := by
  unfold TM.installTask
  simp only
  split
  · exact h
  · exact install_inv tid (h.congr rfl rfl rfl rfl)

theorem installRecurring_inv {tm : TM} {fired : List Fire} (now tid : Nat) (iv off : Option Nat)
    (h : SInv tm fired) : SInv (tm.installRecurring now tid iv off).1 fired := by
  unfold TM.installRecurring
  have h2 : SInv (tm.setRecurring tid iv off) fired := h.congr rfl rfl rfl rfl
  simp only
  split
  · exact h2
  · split
    · exact h2
    · exact install_inv tid (h2.congr rfl rfl rfl rfl)

/-- `get_next_task` when it returns a task -/
theorem getNext_some {tm tm' : TM} {fired : List Fire} {now : Nat} {e : Entry} {d : Option Nat}
    (h : SInv tm fired) (hg : tm.getNext now = (some e, d, tm')) :
    SInv tm' (fired ++ [⟨e.tid, e.time, e.seq, now, tm'.counter⟩]) ∧ e.time ≤ now ∧ e ∈ tm.heap ∧
      tm.heap.Perm (e :: tm'.heap) ∧ (∀ x ∈ tm'.heap, e.before x) := by
  unfold TM.getNext at hg
  cases hp : popMin tm.heap with
  | none => rw [hp] at hg; simp at hg
  | some p =>
    obtain ⟨m, rest⟩ := p
    rw [hp] at hg
    simp only at hg
    obtain ⟨hperm, hmin⟩ := popMin_some hp
    split at hg
    · rename_i hdue
      simp only [Prod.mk.injEq, Option.some.injEq] at hg
      obtain ⟨rfl, _, rfl⟩ := hg
      exact ⟨h.pop hperm hmin rfl rfl rfl hdue, hdue, hperm.mem_iff.mpr List.mem_cons_self, hperm, hmin⟩
    · simp at hg

/-- `get_next_task` when nothing is due -/
theorem getNext_none {tm tm' : TM} {now : Nat} {d : Option Nat}
    (hg : tm.getNext now = (none, d, tm')) :
    tm' = tm ∧ (∀ x ∈ tm.heap, now < x.time) ∧ (d = none ↔ tm.heap = []) ∧ d ≠ some 0 := by
  unfold TM.getNext at hg
  cases hp : popMin tm.heap with
  | none =>
    rw [hp] at hg; simp at hg
    have := popMin_none.mp hp
    obtain ⟨rfl, rfl⟩ := hg
    simp [this]
  | some p =>
    obtain ⟨m, rest⟩ := p
    rw [hp] at hg
    simp only at hg
    obtain ⟨hperm, hmin⟩ := popMin_some hp
    split at hg
    · simp at hg
    · rename_i hdue
      simp only [Prod.mk.injEq, true_and] at hg
      obtain ⟨rfl, rfl⟩ := hg
      refine ⟨rfl, ?_, ?_, ?_⟩
      · intro x hx
        rcases List.mem_cons.mp (hperm.mem_iff.mp hx) with rfl | hx'
        · omega
        · have := hmin x hx'; unfold Entry.before at this; omega
      · constructor
        · intro hh; cases hh
        · intro hh; rw [hh] at hp; simp [popMin] at hp
      · simp; omega
/-! ## re-installing moves -/

theorem suspend_counter (tm : TM) (tid : Nat) : (tm.suspend tid).counter = tm.counter := by
  unfold TM.suspend; split <;> rfl

theorem suspend_ttime (tm : TM) (tid : Nat) : (tm.suspend tid).ttime = tm.ttime := by
  unfold TM.suspend; split <;> rfl

theorem suspend_others {tm : TM} (tid : Nat) :
    ((tm.suspend tid).heap.filter (fun e => decide (e.tid ≠ tid))).Perm
      (tm.heap.filter (fun e => decide (e.tid ≠ tid))) := by
  unfold TM.suspend
  cases hr : removeTid tid tm.heap with
  | none => exact List.Perm.refl _
  | some p =>
    obtain ⟨x, r⟩ := p
    obtain ⟨hx, hperm⟩ := removeTid_some hr
    have := (hperm.filter (fun e => decide (e.tid ≠ tid))).symm
    simpa [List.filter_cons, hx] using this

/-- `TaskManager.install_task` of a task whose `taskTime` is `t`: afterwards the
    task has exactly one heap entry, at `t`, with the newest installation
    number; every other task's entry is untouched. -/
theorem install_moves {tm : TM} {fired : List Fire} (h : SInv tm fired) (tid t : Nat)
    (ht : tm.ttime tid = some t) :
    (tm.install tid).2 = none ∧
    (tm.install tid).1.heap.filter (fun e => decide (e.tid = tid)) = [⟨t, tm.counter, tid⟩] ∧
    ((tm.install tid).1.heap.filter (fun e => decide (e.tid ≠ tid))).Perm
      (tm.heap.filter (fun e => decide (e.tid ≠ tid))) ∧
    (tm.install tid).1.counter = tm.counter + 1 ∧ (tm.install tid).1.flag tid = true := by
  unfold TM.install
  rw [ht]
  simp only
  by_cases hf : tm.flag tid = true
  · simp only [hf, if_true]
    have hno := suspend_no_tid tid h
    refine ⟨trivial, ?_, ?_, by rw [suspend_counter], by simp [upd]⟩
    · rw [suspend_counter]
      simp only [List.filter_cons, decide_true, if_true]
      congr 1
      exact List.filter_eq_nil_iff.mpr (fun e he => by simpa using hno e he)
    · simp only [List.filter_cons, ne_eq, not_true_eq_false, decide_false]
      exact suspend_others tid
  · simp only [hf]
    have hno : ∀ e ∈ tm.heap, e.tid ≠ tid := fun e he het => hf ((h.flag_iff tid).mpr ⟨e, he, het⟩)
    refine ⟨trivial, ?_, ?_, rfl, by simp [upd]⟩
    · simp only [List.filter_cons, decide_true, if_true]
      congr 1
      exact List.filter_eq_nil_iff.mpr (fun e he => by simpa using hno e he)
    · simp

/-- **reinstall_moves** — `task.install_task(when=t)` on any task, pending or
    not: exactly one entry afterwards, at the new time; nobody else moved; the
    replaced installation (if there was one) is in `removed` and never fires
    (`removed_never_fires`). -/
theorem reinstall_moves {tm : TM} {fired : List Fire} (h : SInv tm fired) (now tid t : Nat) :
    (tm.installTask now tid (some t) none).2 = none ∧
    (tm.installTask now tid (some t) none).1.heap.filter (fun e => decide (e.tid = tid))
      = [⟨t, tm.counter, tid⟩] ∧
    ((tm.installTask now tid (some t) none).1.heap.filter (fun e => decide (e.tid ≠ tid))).Perm
      (tm.heap.filter (fun e => decide (e.tid ≠ tid))) := by
  unfold TM.installTask
  simp only
  have h0 : SInv { tm with ttime := upd tm.ttime tid (some t) } fired := h.congr rfl rfl rfl rfl
  have := install_moves h0 tid t (by simp [upd])
  exact ⟨this.1, this.2.1, this.2.2.1⟩

/-- the same for `install_task(delta=d)` -/
theorem reinstall_moves_delta {tm : TM} {fired : List Fire} (h : SInv tm fired) (now tid d : Nat) :
    (tm.installTask now tid none (some d)).2 = none ∧
    (tm.installTask now tid none (some d)).1.heap.filter (fun e => decide (e.tid = tid))
      = [⟨now + d, tm.counter, tid⟩] ∧
    ((tm.installTask now tid none (some d)).1.heap.filter (fun e => decide (e.tid ≠ tid))).Perm
      (tm.heap.filter (fun e => decide (e.tid ≠ tid))) := by
  unfold TM.installTask
  simp only
  have h0 : SInv { tm with ttime := upd tm.ttime tid (some (now + d)) } fired := h.congr rfl rfl rfl rfl
  have := install_moves h0 tid (now + d) (by simp [upd])
  exact ⟨this.1, this.2.1, this.2.2.1⟩

/-! ## recurring tasks: the next-slot arithmetic on exact integers -/

theorem slotAfter_eq (n iv off : Nat) :
    slotAfter n iv off = (off : Int) + (((n : Int) - off) / iv + 1) * iv := by
  unfold slotAfter
  simp only
  have h := Int.emod_add_mul_ediv ((n : Int) - off) iv
  have : ((n : Int) - off) - ((n : Int) - off) % iv = (iv : Int) * (((n : Int) - off) / iv) := by omega
  rw [Int.add_mul, Int.one_mul, Int.mul_comm _ (iv : Int)]
  omega

/-- the slot is a grid point `offset + k·interval` -/
theorem slotAfter_grid (n iv off : Nat) : ∃ k : Int, slotAfter n iv off = (off : Int) + k * iv :=
  ⟨_, slotAfter_eq n iv off⟩

/-- … strictly after `n` (the time of installation plus the jitter) -/
theorem slotAfter_gt (n iv off : Nat) (hiv : 0 < iv) : (n : Int) < slotAfter n iv off := by
  unfold slotAfter
  simp only
  have := Int.emod_lt_of_pos ((n : Int) - off) (by omega : (0 : Int) < iv)
  omega

/-- … and the first such: not more than one interval later -/
theorem slotAfter_le (n iv off : Nat) (hiv : 0 < iv) : slotAfter n iv off ≤ (n : Int) + iv := by
  unfold slotAfter
  simp only
  have := Int.emod_nonneg ((n : Int) - off) (by omega : (iv : Int) ≠ 0)
  omega

/-- no grid point lies strictly between `n` and the slot -/
theorem slotAfter_first (n iv off : Nat) (hiv : 0 < iv) (k : Int)
    (hk : (n : Int) < (off : Int) + k * iv) : slotAfter n iv off ≤ (off : Int) + k * iv := by
  rw [slotAfter_eq]
  have hpos : (0 : Int) < iv := by omega
  -- (n - off) / iv + 1 ≤ k   ⇐   (n - off) / iv < k   ⇐   n - off < k * iv
  have h1 : ((n : Int) - off) / iv < k := Int.ediv_lt_of_lt_mul hpos (by omega)
  have h2 : (((n : Int) - off) / iv + 1) * iv ≤ k * iv := Int.mul_le_mul_of_nonneg_right (by omega) (by omega)
  omega

/-- fired exactly at a grid point `s`, re-installed with a jitter smaller than
    the interval: the next slot is `s + interval` -/
theorem slotAfter_succ (s jit iv off : Nat) (k : Int) (hs : (s : Int) = (off : Int) + k * iv)
    (hj : jit < iv) : slotAfter (s + jit) iv off = (s : Int) + iv := by
  unfold slotAfter
  simp only
  have hm : ((s + jit : Nat) : Int) - off = (jit : Int) + k * iv := by
    have : ((s + jit : Nat) : Int) = (s : Int) + jit := by simp
    omega
  rw [hm, Int.add_mul_emod_self_right, Int.emod_eq_of_lt (by omega) (by omega)]
  omega

/-- the slot as the natural number the model stores -/
theorem slotAfter_toNat (n iv off : Nat) (hiv : 0 < iv) :
    ((slotAfter n iv off).toNat : Int) = slotAfter n iv off := by
  have := slotAfter_gt n iv off hiv
  omega

/-- the firing times of a recurring task that is fired exactly when due:
    `fireTime 0` is the slot computed at installation time `now`, `fireTime (k+1)`
    the slot computed by the re-install inside `process_task` at time `fireTime k` -/
def fireTime (now jit iv off : Nat) : Nat → Nat
  | 0 => (slotAfter (now + jit) iv off).toNat
  | k + 1 => (slotAfter (fireTime now jit iv off k + jit) iv off).toNat

/-- **recurring_grid** — a recurring task installed at `now` fires at the first
    grid point strictly after `now + jitter` and then once at each successive
    grid point: the `k`-th firing is at `first + k·interval`, every firing time
    is `offset + m·interval`, and all are strictly after the installation. -/
theorem recurring_grid (now jit iv off : Nat) (hj : jit < iv) (k : Nat) :
    (fireTime now jit iv off k : Int) = slotAfter (now + jit) iv off + k * iv ∧
    (∃ m : Int, (fireTime now jit iv off k : Int) = (off : Int) + m * iv) ∧
    now + jit < fireTime now jit iv off k := by
  have hiv : 0 < iv := by omega
  induction k with
  | zero =>
    refine ⟨?_, ?_, ?_⟩
    · simp [fireTime, slotAfter_toNat _ _ _ hiv]
    · obtain ⟨m, hm⟩ := slotAfter_grid (now + jit) iv off
      exact ⟨m, by simp only [fireTime]; rw [slotAfter_toNat _ _ _ hiv, hm]⟩
    · have := slotAfter_gt (now + jit) iv off hiv
      have h2 := slotAfter_toNat (now + jit) iv off hiv
      simp only [fireTime]; omega
  | succ n ih =>
    obtain ⟨h1, ⟨m, hm⟩, h3⟩ := ih
    have hs := slotAfter_succ (fireTime now jit iv off n) jit iv off m hm hj
    have ht := slotAfter_toNat (fireTime now jit iv off n + jit) iv off hiv
    refine ⟨?_, ⟨m + 1, ?_⟩, ?_⟩
    · simp only [fireTime]; rw [ht, hs, h1]; simp [Int.add_mul]; omega
    · simp only [fireTime]; rw [ht, hs, hm]; simp [Int.add_mul]; omega
    · simp only [fireTime]
      have : ((fireTime now jit iv off n : Nat) : Int) + iv = ((fireTime now jit iv off n + iv : Nat) : Int) := by simp
      omega

/-- a late firing (at `now` > due time) does not cause a burst: the re-install
    goes to the first grid point after `now + jitter`, at most one interval away -/
theorem recurring_no_burst (now jit iv off : Nat) (hiv : 0 < iv) :
    (now + jit : Int) < slotAfter (now + jit) iv off ∧ slotAfter (now + jit) iv off ≤ (now + jit : Int) + iv := by
  have h1 := slotAfter_gt (now + jit) iv off hiv
  have h2 := slotAfter_le (now + jit) iv off hiv
  simp at h1 h2; omega

theorem install_ttime (tm : TM) (tid : Nat) : (tm.install tid).1.ttime = tm.ttime := by
  unfold TM.install
  cases tm.ttime tid with
  | none => rfl
  | some t =>
    simp only
    split
    · exact suspend_ttime tm tid
    · rfl

/-- what `RecurringTask.install_task()` leaves behind when the interval is set
    and positive: no error, the task's time is the slot, and its one heap entry
    is at that time with the newest installation number -/
theorem installRecurring_time {tm : TM} {fired : List Fire} (h : SInv tm fired) (now tid iv : Nat)
    (hiv : tm.ival tid = some iv) (hpos : iv ≠ 0) :
    let t := (slotAfter (now + tm.jitter) iv (tm.offsetOf tid)).toNat
    (tm.installRecurring now tid none none).2 = none ∧
    (tm.installRecurring now tid none none).1.ttime tid = some t ∧
    (tm.installRecurring now tid none none).1.heap.filter (fun e => decide (e.tid = tid)) = [⟨t, tm.counter, tid⟩] := by
  intro t
  unfold TM.installRecurring
  have hset : tm.setRecurring tid none none = tm := rfl
  simp only [hset, hiv, hpos, if_false]
  have h0 : SInv { tm with ttime := upd tm.ttime tid (some t) } fired := h.congr rfl rfl rfl rfl
  have hm := install_moves h0 tid t (by simp [upd])
  refine ⟨hm.1, ?_, hm.2.1⟩
  rw [install_ttime]
  simp [upd, t]
/-! ## refinement: the heap-as-a-list is an abstract sorted multiset of deadlines

  The abstract scheduler is a list of entries sorted by `(time, seq)`:
  install = ordered insertion (`ins`), fire = take the head, suspend = the
  inverse of an insertion.  `absOf` maps the concrete heap to it. -/

/-- ordered insertion -/
def ins (e : Entry) : List Entry → List Entry
  | [] => [e]
  | x :: r => if e.before x then e :: x :: r else x :: ins e r

/-- the abstraction function: insertion sort of the heap entries -/
def absOf : List Entry → List Entry
  | [] => []
  | e :: r => ins e (absOf r)

theorem ins_perm (e : Entry) (l : List Entry) : (ins e l).Perm (e :: l) := by
  induction l with
  | nil => exact List.Perm.refl _
  | cons x r ih =>
    simp only [ins]
    split
    · exact List.Perm.refl _
    · exact (List.Perm.cons x ih).trans (List.Perm.swap _ _ _)

theorem ins_sorted (e : Entry) {l : List Entry} (h : l.Pairwise Entry.before) :
    (ins e l).Pairwise Entry.before := by
  induction l with
  | nil => simp [ins]
  | cons x r ih =>
    simp only [ins]
    obtain ⟨hx, hr⟩ := List.pairwise_cons.mp h
    split
    · rename_i hb
      refine List.pairwise_cons.mpr ⟨?_, h⟩
      intro y hy
      rcases List.mem_cons.mp hy with rfl | hy'
      · exact hb
      · exact before_trans hb (hx y hy')
    · rename_i hb
      refine List.pairwise_cons.mpr ⟨?_, ih hr⟩
      intro y hy
      rcases List.mem_cons.mp ((ins_perm e r).mem_iff.mp hy) with rfl | hy'
      · rcases before_total y x with h1 | h1
        · exact absurd h1 hb
        · exact h1
      · exact hx y hy'

theorem absOf_perm (l : List Entry) : (absOf l).Perm l := by
  induction l with
  | nil => exact List.Perm.refl _
  | cons e r ih => exact (ins_perm e _).trans (List.Perm.cons e ih)

/-- the abstract state is sorted -/
theorem absOf_sorted (l : List Entry) : (absOf l).Pairwise Entry.before := by
  induction l with
  | nil => simp [absOf]
  | cons e r ih => exact ins_sorted e ih

/-- two entries of a list with distinct installation numbers that agree on the
    number are the same entry -/
theorem eq_of_seq_eq {l : List Entry} (hn : (l.map (·.seq)).Nodup) {a b : Entry}
    (ha : a ∈ l) (hb : b ∈ l) (hs : a.seq = b.seq) : a = b := by
  induction l with
  | nil => cases ha
  | cons x r ih =>
    simp only [List.map_cons] at hn
    obtain ⟨hx, hr⟩ := List.nodup_cons.mp hn
    rcases List.mem_cons.mp ha with rfl | ha' <;> rcases List.mem_cons.mp hb with rfl | hb'
    · rfl
    · exact absurd (List.mem_map.mpr ⟨b, hb', hs.symm⟩) hx
    · exact absurd (List.mem_map.mpr ⟨a, ha', hs⟩) hx
    · exact ih hr ha' hb'

/-- a sorted arrangement of entries with distinct installation numbers is unique -/
theorem sorted_unique {a b : List Entry} (hp : a.Perm b) (hn : (a.map (·.seq)).Nodup)
    (ha : a.Pairwise Entry.before) (hb : b.Pairwise Entry.before) : a = b := by
  induction a generalizing b with
  | nil => exact (List.Perm.nil_eq hp)
  | cons x a' ih =>
    cases b with
    | nil => exact absurd hp.symm (by simp)
    | cons y b' =>
      obtain ⟨hxa, ha'⟩ := List.pairwise_cons.mp ha
      obtain ⟨hyb, hb'⟩ := List.pairwise_cons.mp hb
      have hxy : x = y := by
        have hy_in : y ∈ x :: a' := hp.mem_iff.mpr List.mem_cons_self
        have hx_in : x ∈ y :: b' := hp.mem_iff.mp List.mem_cons_self
        have h1 : x.before y := by
          rcases List.mem_cons.mp hy_in with rfl | h
          · exact before_refl _
          · exact hxa y h
        have h2 : y.before x := by
          rcases List.mem_cons.mp hx_in with rfl | h
          · exact before_refl _
          · exact hyb x h
        have hs : x.seq = y.seq := by unfold Entry.before at h1 h2; omega
        exact eq_of_seq_eq hn List.mem_cons_self hy_in hs
      subst hxy
      have hn' : (a'.map (·.seq)).Nodup := by
        simp only [List.map_cons] at hn; exact (List.nodup_cons.mp hn).2
      rw [ih (List.Perm.cons_inv hp) hn' ha' hb']

/-- whenever the concrete heap loses the entry `x` (by `heappop` or by
    `suspend_task`), the abstract state is the old one with `x` taken out:
    `absOf old = ins x (absOf new)` -/
theorem refine_remove {h r : List Entry} {x : Entry} (hp : h.Perm (x :: r))
    (hn : (h.map (·.seq)).Nodup) : absOf h = ins x (absOf r) := by
  apply sorted_unique
  · exact (absOf_perm h).trans (hp.trans ((ins_perm x _).trans (List.Perm.cons x (absOf_perm r))).symm)
  · exact ((absOf_perm h).map (·.seq)).nodup_iff.mpr hn
  · exact absOf_sorted h
  · exact ins_sorted x (absOf_sorted r)

theorem ins_min {e : Entry} {l : List Entry} (h : ∀ x ∈ l, e.before x) : ins e l = e :: l := by
  cases l with
  | nil => rfl
  | cons x r => simp [ins, h x List.mem_cons_self]

/-- **refinement, fire** — `get_next_task` pops exactly the head of the
    abstract sorted list, and only when it is due -/
theorem refine_pop {tm tm' : TM} {fired : List Fire} {now : Nat} {e : Entry} {d : Option Nat}
    (h : SInv tm fired) (hg : tm.getNext now = (some e, d, tm')) :
    absOf tm.heap = e :: absOf tm'.heap ∧ e.time ≤ now := by
  obtain ⟨_, hdue, _, hperm, hmin⟩ := getNext_some h hg
  refine ⟨?_, hdue⟩
  rw [refine_remove hperm h.seq_nodup]
  exact ins_min (fun x hx => hmin x ((absOf_perm _).mem_iff.mp hx))

/-- … and pops nothing iff the abstract list is empty or its head is not due -/
theorem refine_idle {tm tm' : TM} {now : Nat} {d : Option Nat}
    (hg : tm.getNext now = (none, d, tm')) :
    tm' = tm ∧ ∀ x ∈ absOf tm.heap, now < x.time := by
  obtain ⟨h1, h2, _⟩ := getNext_none hg
  exact ⟨h1, fun x hx => h2 x ((absOf_perm _).mem_iff.mp hx)⟩

/-- **refinement, install** — pushing onto the heap is ordered insertion (by definition) -/
theorem refine_push (e : Entry) (h : List Entry) : absOf (e :: h) = ins e (absOf h) := rfl

/-- **refinement, suspend** — `suspend_task` that finds the task takes its
    entry out of the abstract list; one that does not find it changes nothing -/
theorem refine_suspend {tm : TM} {fired : List Fire} (h : SInv tm fired) (tid : Nat) :
    (∃ x, x.tid = tid ∧ absOf tm.heap = ins x (absOf (tm.suspend tid).heap)) ∨
    ((∀ x ∈ tm.heap, x.tid ≠ tid) ∧ (tm.suspend tid).heap = tm.heap) := by
  unfold TM.suspend
  cases hr : removeTid tid tm.heap with
  | none => exact Or.inr ⟨removeTid_none.mp hr, rfl⟩
  | some p =>
    obtain ⟨x, r⟩ := p
    obtain ⟨hx, hperm⟩ := removeTid_some hr
    exact Or.inl ⟨x, hx, refine_remove hperm h.seq_nodup⟩

/-! ## the world: frame lemmas for the deferred side

  From here on everything is parametric in `[Pump]` — what a nested
  `core.run_once()` called from inside a callback does — and assumes of it only
  `PumpOK` below.  `pumpAt_ok` (end of the file) shows that the real thing,
  `pumpAt depth` = "`runOnceLoop` again, one level down", satisfies it at every
  depth. -/

set_option linter.unusedSectionVars false

section Parametric

variable [Pump]

/-- the manager without the wake-up flag -/
def schedOf (tm : TM) : TM := { tm with trig := false }

/-- everything the schedule theorems look at -/
def coreOf (w : World) : TM × List Fire × Nat × (Nat → Bool) × (Nat → Body) × Nat × Bool :=
  (schedOf w.tm, w.fired, w.now, w.recurring, w.body, w.spin, w.running)

/-- `w'` differs from `w` at most in the deferred side (queue, logs) and the wake-up flag -/
def Keeps (w w' : World) : Prop := coreOf w' = coreOf w

omit [Pump] in
theorem Keeps.refl (w : World) : Keeps w w := rfl
omit [Pump] in
theorem Keeps.trans {a b c : World} (h1 : Keeps a b) (h2 : Keeps b c) : Keeps a c :=
  Eq.trans h2 h1

omit [Pump] in
theorem Keeps.tm {w w' : World} (h : Keeps w w') : schedOf w'.tm = schedOf w.tm := congrArg (·.1) h
theorem Keeps.heap {w w' : World} (h : Keeps w w') : w'.tm.heap = w.tm.heap := by have := congrArg TM.heap h.tm; exact this
theorem Keeps.counter {w w' : World} (h : Keeps w w') : w'.tm.counter = w.tm.counter := by have := congrArg TM.counter h.tm; exact this
theorem Keeps.flag {w w' : World} (h : Keeps w w') : w'.tm.flag = w.tm.flag := by have := congrArg TM.flag h.tm; exact this
theorem Keeps.removed {w w' : World} (h : Keeps w w') : w'.tm.removed = w.tm.removed := by have := congrArg TM.removed h.tm; exact this
theorem Keeps.ttime {w w' : World} (h : Keeps w w') : w'.tm.ttime = w.tm.ttime := by have := congrArg TM.ttime h.tm; exact this
theorem Keeps.ival {w w' : World} (h : Keeps w w') : w'.tm.ival = w.tm.ival := by have := congrArg TM.ival h.tm; exact this
theorem Keeps.ioff {w w' : World} (h : Keeps w w') : w'.tm.ioff = w.tm.ioff := by have := congrArg TM.ioff h.tm; exact this
theorem Keeps.jitter {w w' : World} (h : Keeps w w') : w'.tm.jitter = w.tm.jitter := by have := congrArg TM.jitter h.tm; exact this
omit [Pump] in
theorem Keeps.fired {w w' : World} (h : Keeps w w') : w'.fired = w.fired := congrArg (·.2.1) h
omit [Pump] in
theorem Keeps.now {w w' : World} (h : Keeps w w') : w'.now = w.now := congrArg (·.2.2.1) h
omit [Pump] in
theorem Keeps.recurring {w w' : World} (h : Keeps w w') : w'.recurring = w.recurring := congrArg (·.2.2.2.1) h
omit [Pump] in
theorem Keeps.body {w w' : World} (h : Keeps w w') : w'.body = w.body := congrArg (·.2.2.2.2.1) h
omit [Pump] in
theorem Keeps.spin {w w' : World} (h : Keeps w w') : w'.spin = w.spin := congrArg (·.2.2.2.2.2.1) h
omit [Pump] in
theorem Keeps.running {w w' : World} (h : Keeps w w') : w'.running = w.running := congrArg (·.2.2.2.2.2.2) h

theorem Keeps.sinv {w w' : World} (h : Keeps w w') (hs : SInv w.tm w.fired) : SInv w'.tm w'.fired := by
  rw [h.fired]; exact hs.congr h.heap h.counter h.flag h.removed

/-! ### re-entrant use of the scheduler (`Act`) and bodies that leave it alone -/

/-- acts other than pumping the loop -/
def noPump : Act → Bool
  | .pump _ => false
  | _ => true

/-- every id ever submitted is, exactly once, either called, or owed by an
    enclosing batch that is being called right now (the frame `R`), or queued —
    as multisets: a callback that pumps the loop changes the ORDER of calls
    (`DInv` below keeps the order, for callbacks that do not pump) -/
def DPermR (R : List Nat) (w : World) : Prop := (w.calls ++ R ++ w.queue.map Fn.id).Perm w.subs

/-- what the theorems assume of a nested pass: it preserves the schedule
    invariant and the exactly-once invariant of the deferred queue, whatever
    batches enclose it -/
class PumpOK : Prop where
  sinv : ∀ (fuel : Nat) (w : World), SInv w.tm w.fired →
    SInv (Pump.pump fuel w).tm (Pump.pump fuel w).fired
  dperm : ∀ (fuel : Nat) (R : List Nat) (w : World), DPermR R w → DPermR R (Pump.pump fuel w)

variable [hok : PumpOK]
include hok

/-- everything but the manager, the event log and `running` -/
def restOf (w : World) :
    List Fn × List Nat × List Nat × List Nat × List Fire × Nat × (Nat → Bool) × (Nat → Body) × Nat :=
  (w.queue, w.calls, w.subs, w.failed, w.fired, w.now, w.recurring, w.body, w.spin)

/-- `w'` differs from `w` at most in the manager, the event log and `running` -/
def KeepsQ (w w' : World) : Prop := restOf w' = restOf w

omit [Pump] hok in
theorem KeepsQ.refl (w : World) : KeepsQ w w := rfl
omit [Pump] hok in
theorem KeepsQ.trans {a b c : World} (h1 : KeepsQ a b) (h2 : KeepsQ b c) : KeepsQ a c := Eq.trans h2 h1
omit [Pump] hok in
theorem KeepsQ.queue {w w' : World} (h : KeepsQ w w') : w'.queue = w.queue := congrArg (·.1) h
omit [Pump] hok in
theorem KeepsQ.calls {w w' : World} (h : KeepsQ w w') : w'.calls = w.calls := congrArg (·.2.1) h
omit [Pump] hok in
theorem KeepsQ.subs {w w' : World} (h : KeepsQ w w') : w'.subs = w.subs := congrArg (·.2.2.1) h
omit [Pump] hok in
theorem KeepsQ.failed {w w' : World} (h : KeepsQ w w') : w'.failed = w.failed := congrArg (·.2.2.2.1) h
omit [Pump] hok in
theorem KeepsQ.fired {w w' : World} (h : KeepsQ w w') : w'.fired = w.fired := congrArg (·.2.2.2.2.1) h
omit [Pump] hok in
theorem KeepsQ.now {w w' : World} (h : KeepsQ w w') : w'.now = w.now := congrArg (·.2.2.2.2.2.1) h
omit [Pump] hok in
theorem KeepsQ.recurring {w w' : World} (h : KeepsQ w w') : w'.recurring = w.recurring := congrArg (·.2.2.2.2.2.2.1) h
omit [Pump] hok in
theorem KeepsQ.body {w w' : World} (h : KeepsQ w w') : w'.body = w.body := congrArg (·.2.2.2.2.2.2.2.1) h
omit [Pump] hok in
theorem KeepsQ.spin {w w' : World} (h : KeepsQ w w') : w'.spin = w.spin := congrArg (·.2.2.2.2.2.2.2.2) h

omit hok in
theorem act_keepsQ (w : World) (a : Act) (ha : noPump a = true) : KeepsQ w (w.act a) := by
  cases a with
  | pump fuel => simp [noPump] at ha
  | installAt tid t => rfl
  | installAfter tid d => rfl
  | suspend tid => rfl
  | stop => rfl

theorem doActs_keepsQ (w : World) (as : List Act) (ha : as.all noPump = true) : KeepsQ w (w.doActs as) := by
  unfold World.doActs
  induction as generalizing w with
  | nil => exact KeepsQ.refl w
  | cons a r ih =>
    simp only [List.all_cons, Bool.and_eq_true] at ha
    exact (act_keepsQ w a ha.1).trans (ih (w.act a) ha.2)

/-- whatever a body does to the manager, the schedule invariant survives: the
    acts are the manager's own API -/
theorem act_sinv {w : World} (a : Act) (h : SInv w.tm w.fired) : SInv (w.act a).tm (w.act a).fired := by
  cases a with
  | installAt tid t => exact installTask_inv _ _ _ _ h
  | installAfter tid d => exact installTask_inv _ _ _ _ h
  | suspend tid => exact suspend_inv tid h
  | stop => exact h.congr rfl rfl rfl rfl
  | pump fuel => exact PumpOK.sinv fuel _ h

theorem doActs_sinv {w : World} (as : List Act) (h : SInv w.tm w.fired) :
    SInv (w.doActs as).tm (w.doActs as).fired := by
  unfold World.doActs
  induction as generalizing w with
  | nil => exact h
  | cons a r ih => exact ih (act_sinv a h)

omit hok in
theorem doActs_nil (w : World) : w.doActs [] = w := rfl

mutual
  /-- every act of the function, and of everything it defers, satisfies `pa` -/
  def goodFn (pa : Act → Bool) : Fn → Bool
    | .mk _ _ kids acts => acts.all pa && goodAll pa kids
  def goodAll (pa : Act → Bool) : List Fn → Bool
    | [] => true
    | f :: r => goodFn pa f && goodAll pa r
end

omit [Pump] hok in
theorem goodFn_acts {pa : Act → Bool} {f : Fn} (h : goodFn pa f = true) :
    f.acts.all pa = true ∧ goodAll pa f.kids = true := by
  cases f with
  | mk i r kids acts => simpa [goodFn, Fn.acts, Fn.kids] using h

omit [Pump] hok in
theorem goodAll_append (pa : Act → Bool) (a b : List Fn) :
    goodAll pa (a ++ b) = (goodAll pa a && goodAll pa b) := by
  induction a with
  | nil => simp [goodAll]
  | cons f r ih => simp [goodAll, ih, Bool.and_assoc]

omit [Pump] hok in
theorem goodAll_cons {pa : Act → Bool} {f : Fn} {r : List Fn} (h : goodAll pa (f :: r) = true) :
    goodFn pa f = true ∧ goodAll pa r = true := by
  simpa [goodAll] using h

mutual
  theorem goodFn_mono {pa pb : Act → Bool} (h : ∀ a, pa a = true → pb a = true) :
      ∀ f : Fn, goodFn pa f = true → goodFn pb f = true
    | .mk i r kids acts => by
      simp only [goodFn, Bool.and_eq_true]
      intro ⟨h1, h2⟩
      refine ⟨?_, goodAll_mono h kids h2⟩
      rw [List.all_eq_true] at h1 ⊢
      exact fun a ha => h a (h1 a ha)
  theorem goodAll_mono {pa pb : Act → Bool} (h : ∀ a, pa a = true → pb a = true) :
      ∀ q : List Fn, goodAll pa q = true → goodAll pb q = true
    | [] => fun _ => rfl
    | f :: r => by
      simp only [goodAll, Bool.and_eq_true]
      intro ⟨h1, h2⟩
      exact ⟨goodFn_mono h f h1, goodAll_mono h r h2⟩
end

/-- predicates on acts that rule out pumping the loop -/
class NoPumpP (pa : Act → Bool) : Prop where
  out : ∀ a, pa a = true → noPump a = true

omit [Pump] hok in
theorem all_noPump {pa : Act → Bool} [hpa : NoPumpP pa] {as : List Act} (h : as.all pa = true) :
    as.all noPump = true := by
  rw [List.all_eq_true] at h ⊢
  exact fun a ha => hpa.out a (h a ha)

instance noPumpP_noPump : NoPumpP noPump := ⟨fun _ h => h⟩

/-- a queue good for a predicate that rules out pumping is a queue of functions that do not pump -/
theorem goodAll_noPump {pa : Act → Bool} [hpa : NoPumpP pa] {q : List Fn} (h : goodAll pa q = true) :
    goodAll noPump q = true := goodAll_mono hpa.out q h

/-- "leaves the scheduler alone": no acts at all -/
def noAct : Act → Bool := fun _ => false

instance noPumpP_noAct : NoPumpP noAct := ⟨fun _ h => by simp [noAct] at h⟩

omit [Pump] hok in
theorem all_noAct {as : List Act} (h : as.all noAct = true) : as = [] := by
  cases as with
  | nil => rfl
  | cons a r => simp [noAct] at h

abbrev allPassive : List Fn → Bool := goodAll noAct
abbrev passiveFn : Fn → Bool := goodFn noAct

theorem passiveFn_acts {f : Fn} (h : passiveFn f = true) : f.acts = [] ∧ allPassive f.kids = true :=
  ⟨all_noAct (goodFn_acts h).1, (goodFn_acts h).2⟩

theorem allPassive_append (a b : List Fn) : allPassive (a ++ b) = (allPassive a && allPassive b) :=
  goodAll_append noAct a b

theorem allPassive_cons {f : Fn} {r : List Fn} (h : allPassive (f :: r) = true) :
    passiveFn f = true ∧ allPassive r = true := goodAll_cons h

omit [Pump] hok in
theorem emit_keeps (w : World) (e : Ev) : Keeps w (w.emit e) := rfl
omit [Pump] hok in
theorem defer_keeps (w : World) (f : Fn) : Keeps w (w.defer f) := rfl

theorem deferAll_keeps (w : World) (fs : List Fn) : Keeps w (w.deferAll fs) := by
  unfold World.deferAll
  induction fs generalizing w with
  | nil => exact Keeps.refl w
  | cons f r ih => exact (defer_keeps w f).trans (ih (w.defer f))

omit [Pump] hok in
theorem defer_queue (w : World) (f : Fn) : (w.defer f).queue = w.queue ++ [f] := rfl

theorem deferAll_queue (w : World) (fs : List Fn) : (w.deferAll fs).queue = w.queue ++ fs := by
  unfold World.deferAll
  induction fs generalizing w with
  | nil => simp
  | cons f r ih => simp only [List.foldl_cons]; rw [ih, defer_queue]; simp

theorem callFn_queue (w : World) (f : Fn) (hf : f.acts.all noPump = true) :
    (w.callFn f).queue = w.queue ++ f.kids := by
  unfold World.callFn
  simp only
  have hq := (doActs_keepsQ ({ w with calls := w.calls ++ [f.id], out := w.out ++ [Ev.call f.id] } : World) f.acts hf).queue
  split <;> simp [deferAll_queue, hq]

theorem callFn_qgood {pa : Act → Bool} [NoPumpP pa] {w : World} {f : Fn} (hf : goodFn pa f = true)
    (hq : goodAll pa w.queue = true) : goodAll pa (w.callFn f).queue = true := by
  rw [callFn_queue w f (all_noPump (goodFn_acts hf).1), goodAll_append, hq, (goodFn_acts hf).2]; rfl

theorem runBatch_qgood {pa : Act → Bool} [NoPumpP pa] {w : World} (b : List Fn)
    (hb : goodAll pa b = true) (hq : goodAll pa w.queue = true) : goodAll pa (w.runBatch b).queue = true := by
  unfold World.runBatch
  induction b generalizing w with
  | nil => exact hq
  | cons f r ih =>
    obtain ⟨hf, hr⟩ := goodAll_cons hb
    exact ih hr (callFn_qgood hf hq)

theorem callFn_keeps (w : World) (f : Fn) (hf : f.acts = []) : Keeps w (w.callFn f) := by
  unfold World.callFn
  rw [hf]
  simp only [doActs_nil]
  split
  · exact Keeps.trans (b := World.deferAll { w with calls := w.calls ++ [f.id], out := w.out ++ [Ev.call f.id] } f.kids)
      (Keeps.trans (b := { w with calls := w.calls ++ [f.id], out := w.out ++ [Ev.call f.id] }) rfl (deferAll_keeps _ _)) rfl
  · exact Keeps.trans (b := { w with calls := w.calls ++ [f.id], out := w.out ++ [Ev.call f.id] }) rfl (deferAll_keeps _ _)

theorem callFn_passive {w : World} {f : Fn} (hf : passiveFn f = true) (hq : allPassive w.queue = true) :
    allPassive (w.callFn f).queue = true := by
  exact callFn_qgood hf hq

theorem runBatch_keeps (w : World) (b : List Fn) (hb : allPassive b = true) (hq : allPassive w.queue = true) :
    Keeps w (w.runBatch b) ∧ allPassive (w.runBatch b).queue = true := by
  unfold World.runBatch
  induction b generalizing w with
  | nil => exact ⟨Keeps.refl w, hq⟩
  | cons f r ih =>
    obtain ⟨hf, hr⟩ := allPassive_cons hb
    have := ih (w.callFn f) hr (callFn_passive hf hq)
    exact ⟨(callFn_keeps w f (passiveFn_acts hf).1).trans this.1, this.2⟩

theorem drainFuel_keeps (fuel : Nat) (w : World) (hq : allPassive w.queue = true) :
    Keeps w (w.drainFuel fuel) ∧ allPassive (w.drainFuel fuel).queue = true := by
  induction fuel generalizing w with
  | zero => exact ⟨Keeps.refl w, hq⟩
  | succ n ih =>
    unfold World.drainFuel
    split
    · exact ⟨Keeps.refl w, hq⟩
    · have h1 := runBatch_keeps { w with queue := [] } w.queue hq rfl
      have h2 := ih _ h1.2
      exact ⟨Keeps.trans (b := { w with queue := [] }) rfl (h1.1.trans h2.1), h2.2⟩

/-- a drain of functions that leave the scheduler alone changes nothing the
    schedule theorems look at -/
theorem drain_keeps (w : World) (hq : allPassive w.queue = true) : Keeps w w.drain :=
  (drainFuel_keeps _ w hq).1

/-! ## the deferred queue: first in, first out, each exactly once -/

/-- `subs` (ids in submission order) = ids already called ++ ids still queued -/
def DInv (w : World) : Prop := w.subs = w.calls ++ w.queue.map Fn.id

/-- the same in the middle of a batch: `rem` is the part of `fnlist` still to be called -/
def DMid (w : World) (rem : List Fn) : Prop := w.subs = w.calls ++ rem.map Fn.id ++ w.queue.map Fn.id

omit [Pump] hok in
theorem defer_dmid {w : World} {rem : List Fn} (f : Fn) (h : DMid w rem) : DMid (w.defer f) rem := by
  unfold DMid World.defer at *; simp [h]

theorem deferAll_dmid {w : World} {rem : List Fn} (fs : List Fn) (h : DMid w rem) : DMid (w.deferAll fs) rem := by
  unfold World.deferAll
  induction fs generalizing w with
  | nil => exact h
  | cons f r ih => exact ih (defer_dmid f h)

theorem callFn_dmid {w : World} {rem : List Fn} (f : Fn) (hf : f.acts.all noPump = true)
    (h : DMid w (f :: rem)) : DMid (w.callFn f) rem := by
  have h0 : DMid { w with calls := w.calls ++ [f.id], out := w.out ++ [Ev.call f.id] } rem := by
    unfold DMid at *; simp [h]
  have hk := doActs_keepsQ ({ w with calls := w.calls ++ [f.id], out := w.out ++ [Ev.call f.id] } : World) f.acts hf
  have h1 : DMid (World.doActs { w with calls := w.calls ++ [f.id], out := w.out ++ [Ev.call f.id] } f.acts) rem := by
    unfold DMid at *; rw [hk.subs, hk.calls, hk.queue]; exact h0
  have h2 := deferAll_dmid f.kids h1
  unfold World.callFn
  simp only
  split
  · exact h2
  · exact h2

theorem runBatch_dmid {w : World} (b : List Fn) (hb : goodAll noPump b = true) (h : DMid w b) :
    DMid (w.runBatch b) [] := by
  unfold World.runBatch
  induction b generalizing w with
  | nil => exact h
  | cons f r ih =>
    obtain ⟨hf, hr⟩ := goodAll_cons hb
    exact ih hr (callFn_dmid f (goodFn_acts hf).1 h)

theorem drainFuel_dinv (fuel : Nat) {w : World} (hg : goodAll noPump w.queue = true) (h : DInv w) :
    DInv (w.drainFuel fuel) := by
  induction fuel generalizing w with
  | zero => exact h
  | succ n ih =>
    unfold World.drainFuel
    split
    · exact h
    · rename_i hq
      apply ih (runBatch_qgood (pa := noPump) (w := { w with queue := [] }) w.queue hg rfl)
      have : DMid { w with queue := [] } w.queue := by unfold DMid; unfold DInv at h; simp [h]
      have := runBatch_dmid _ hg this
      unfold DMid at this; unfold DInv; simpa using this

/-- first in, first out: the drain loop keeps the ORDER when nothing it calls
    pumps the loop -/
theorem drain_dinv {w : World} (hg : goodAll noPump w.queue = true) (h : DInv w) : DInv w.drain :=
  drainFuel_dinv _ hg h

/-! ### exactly once, for every kind of callback (pumping ones included) -/

omit [Pump] hok in
theorem defer_dperm {R : List Nat} {w : World} (f : Fn) (h : DPermR R w) : DPermR R (w.defer f) := by
  unfold DPermR World.defer at *
  simp only [List.map_append, List.map_cons, List.map_nil]
  rw [← List.append_assoc]
  exact List.Perm.append_right _ h

theorem deferAll_dperm {R : List Nat} {w : World} (fs : List Fn) (h : DPermR R w) : DPermR R (w.deferAll fs) := by
  unfold World.deferAll
  induction fs generalizing w with
  | nil => exact h
  | cons f r ih => exact ih (defer_dperm f h)

theorem act_dperm {R : List Nat} {w : World} (a : Act) (h : DPermR R w) : DPermR R (w.act a) := by
  by_cases ha : noPump a = true
  · have hk := act_keepsQ w a ha
    unfold DPermR at *; rw [hk.calls, hk.queue, hk.subs]; exact h
  · cases a with
    | pump fuel => exact PumpOK.dperm fuel R _ h
    | installAt tid t => simp [noPump] at ha
    | installAfter tid d => simp [noPump] at ha
    | suspend tid => simp [noPump] at ha
    | stop => simp [noPump] at ha

theorem doActs_dperm {R : List Nat} {w : World} (as : List Act) (h : DPermR R w) : DPermR R (w.doActs as) := by
  unfold World.doActs
  induction as generalizing w with
  | nil => exact h
  | cons a r ih => exact ih (act_dperm a h)

theorem callFn_dperm {R : List Nat} {w : World} (f : Fn) (h : DPermR (f.id :: R) w) :
    DPermR R (w.callFn f) := by
  have h0 : DPermR R ({ w with calls := w.calls ++ [f.id], out := w.out ++ [Ev.call f.id] } : World) := by
    unfold DPermR at *; simpa [List.append_assoc] using h
  have h2 := deferAll_dperm f.kids (doActs_dperm f.acts h0)
  unfold World.callFn
  simp only
  split
  · exact h2
  · exact h2

theorem runBatch_dperm {R : List Nat} {w : World} (b : List Fn) (h : DPermR (b.map Fn.id ++ R) w) :
    DPermR R (w.runBatch b) := by
  unfold World.runBatch
  induction b generalizing w with
  | nil => exact h
  | cons f r ih => exact ih (callFn_dperm f (by simpa using h))

theorem drainFuel_dperm (fuel : Nat) {R : List Nat} {w : World} (h : DPermR R w) :
    DPermR R (w.drainFuel fuel) := by
  induction fuel generalizing w with
  | zero => exact h
  | succ n ih =>
    unfold World.drainFuel
    split
    · exact h
    · apply ih
      apply runBatch_dperm
      unfold DPermR at *
      simp only [List.map_nil, List.append_nil]
      refine List.Perm.trans ?_ h
      simp only [List.append_assoc]
      exact List.Perm.append_left _ List.perm_append_comm

/-- exactly once through the drain loop, whatever the functions do -/
theorem drain_dperm {R : List Nat} {w : World} (h : DPermR R w) : DPermR R w.drain := drainFuel_dperm _ h

/-! ### the drain loop terminates: the fuel `weights queue` is never exhausted -/

omit [Pump] hok in
theorem weights_append (a b : List Fn) : weights (a ++ b) = weights a + weights b := by
  induction a with
  | nil => simp [weights]
  | cons f r ih => simp [weights, ih]; omega

theorem runBatch_weight (w : World) (b : List Fn) (hb : goodAll noPump b = true) :
    weights (w.runBatch b).queue + b.length = weights w.queue + weights b := by
  unfold World.runBatch
  induction b generalizing w with
  | nil => simp [weights]
  | cons f r ih =>
    obtain ⟨hf, hr⟩ := goodAll_cons hb
    simp only [List.foldl_cons, List.length_cons]
    have := ih (w.callFn f) hr
    rw [callFn_queue w f (goodFn_acts hf).1, weights_append] at this
    cases f with
    | mk i rr kids acts => simp [weights, Fn.weight, Fn.kids] at *; omega

theorem drainFuel_empty (fuel : Nat) (w : World) (hg : goodAll noPump w.queue = true)
    (h : weights w.queue ≤ fuel) : (w.drainFuel fuel).queue = [] := by
  induction fuel generalizing w with
  | zero =>
    unfold World.drainFuel
    cases hq : w.queue with
    | nil => rfl
    | cons f r => rw [hq] at h; cases f; simp [weights, Fn.weight] at h
  | succ n ih =>
    unfold World.drainFuel
    split
    · assumption
    · rename_i hq
      apply ih _ (runBatch_qgood (pa := noPump) (w := { w with queue := [] }) w.queue hg rfl)
      have := runBatch_weight { w with queue := [] } w.queue hg
      simp [weights] at this
      cases hq' : w.queue with
      | nil => exact absurd hq' hq
      | cons f r => rw [hq'] at this h; simp at this; omega

/-- after the drain loop nothing is left in the queue (callbacks that do not
    pump the loop; a pumping one only makes the queue shorter — the nested pass
    drains it — but then the bookkeeping by weights no longer applies) -/
theorem drain_queue_empty (w : World) (hg : goodAll noPump w.queue = true) : w.drain.queue = [] :=
  drainFuel_empty _ w hg (Nat.le_refl _)

/-! ## every operation preserves the invariants -/

/-- the invariant of a world: the schedule invariant, and every deferred
    function exactly once (called or still queued).  Holds for EVERY kind of
    callback. -/
structure WInv (w : World) : Prop where
  sched : SInv w.tm w.fired
  once : DPermR [] w

omit [Pump] hok in
theorem emit_winv {w : World} (e : Ev) (h : WInv w) : WInv (w.emit e) := ⟨h.sched, h.once⟩

theorem callFn_sinv {w : World} (f : Fn) (h : SInv w.tm w.fired) :
    SInv (w.callFn f).tm (w.callFn f).fired := by
  unfold World.callFn
  simp only
  have h1 : SInv ({ w with calls := w.calls ++ [f.id], out := w.out ++ [Ev.call f.id] } : World).tm
      ({ w with calls := w.calls ++ [f.id], out := w.out ++ [Ev.call f.id] } : World).fired := h
  have h2 := doActs_sinv f.acts h1
  have h3 := (deferAll_keeps _ f.kids).sinv h2
  split
  · exact h3
  · exact h3

theorem runBatch_sinv {w : World} (b : List Fn) (h : SInv w.tm w.fired) :
    SInv (w.runBatch b).tm (w.runBatch b).fired := by
  unfold World.runBatch
  induction b generalizing w with
  | nil => exact h
  | cons f r ih => exact ih (callFn_sinv f h)

theorem drainFuel_sinv (fuel : Nat) {w : World} (h : SInv w.tm w.fired) :
    SInv (w.drainFuel fuel).tm (w.drainFuel fuel).fired := by
  induction fuel generalizing w with
  | zero => exact h
  | succ n ih =>
    unfold World.drainFuel
    split
    · exact h
    · exact ih (runBatch_sinv _ (w := { w with queue := [] }) h)

/-- the drain loop preserves the invariants even when the functions it calls
    install, move and suspend tasks, stop or pump the loop -/
theorem drain_winv {w : World} (h : WInv w) : WInv w.drain :=
  ⟨drainFuel_sinv _ h.sched, drain_dperm h.once⟩

/-- `process_task` of a popped entry: the schedule -/
theorem process_sinv {w : World} {e : Entry}
    (hs : SInv w.tm (w.fired ++ [⟨e.tid, e.time, e.seq, w.now, w.tm.counter⟩])) :
    SInv (w.process e).1.tm (w.process e).1.fired := by
  unfold World.process
  simp only
  generalize hw1 : ({ w with fired := w.fired ++ [Fire.mk e.tid e.time e.seq w.now w.tm.counter],
                             out := w.out ++ [Ev.fire e.tid w.now e.time e.seq] } : World) = w1
  have hs0 : SInv w1.tm w1.fired := by subst hw1; exact hs
  have hs1 := doActs_sinv (w.body e.tid).acts hs0
  generalize w1.doActs (w.body e.tid).acts = w1' at *
  have hs2 := (deferAll_keeps w1' (w.body e.tid).defers).sinv hs1
  generalize w1'.deferAll (w.body e.tid).defers = w2 at *
  split
  · exact installRecurring_inv _ _ _ _ hs2
  · exact hs2

/-- … and the deferred queue -/
theorem process_dperm {R : List Nat} {w : World} (e : Entry) (hd : DPermR R w) :
    DPermR R (w.process e).1 := by
  unfold World.process
  simp only
  generalize hw1 : ({ w with fired := w.fired ++ [Fire.mk e.tid e.time e.seq w.now w.tm.counter],
                             out := w.out ++ [Ev.fire e.tid w.now e.time e.seq] } : World) = w1
  have hd0 : DPermR R w1 := by subst hw1; exact hd
  have hd2 := deferAll_dperm (w.body e.tid).defers (doActs_dperm (w.body e.tid).acts hd0)
  split
  · exact hd2
  · exact hd2

theorem fireNext_sinv {w : World} (h : SInv w.tm w.fired) : SInv w.fireNext.1.tm w.fireNext.1.fired := by
  unfold World.fireNext
  rcases hg : w.tm.getNext w.now with ⟨e?, d, tm'⟩
  cases e? with
  | none =>
    simp only
    obtain ⟨rfl, _, _, _⟩ := getNext_none hg
    exact h
  | some e =>
    simp only
    obtain ⟨hs, _⟩ := getNext_some h hg
    have := process_sinv (w := { w with tm := tm' }) (e := e) hs
    split
    · exact this
    · exact this

theorem fireNext_dperm {R : List Nat} {w : World} (h : DPermR R w) : DPermR R w.fireNext.1 := by
  unfold World.fireNext
  rcases w.tm.getNext w.now with ⟨e?, d, tm'⟩
  cases e? with
  | none => exact h
  | some e =>
    simp only
    have := process_dperm (w := { w with tm := tm' }) e h
    split
    · exact this
    · exact this

theorem fireNext_winv {w : World} (h : WInv w) : WInv w.fireNext.1 :=
  ⟨fireNext_sinv h.sched, fireNext_dperm h.once⟩

theorem runOnceLoop_sinv (fuel : Nat) {w : World} (h : SInv w.tm w.fired) :
    SInv (w.runOnceLoop fuel).1.tm (w.runOnceLoop fuel).1.fired := by
  induction fuel generalizing w with
  | zero => exact h
  | succ n ih =>
    unfold World.runOnceLoop
    simp only
    split
    · exact ih (drainFuel_sinv _ (fireNext_sinv h))
    · exact drainFuel_sinv _ (fireNext_sinv h)

theorem runOnceLoop_dperm (fuel : Nat) {R : List Nat} {w : World} (h : DPermR R w) :
    DPermR R (w.runOnceLoop fuel).1 := by
  induction fuel generalizing w with
  | zero => exact h
  | succ n ih =>
    unfold World.runOnceLoop
    simp only
    split
    · exact ih (drain_dperm (fireNext_dperm h))
    · exact drain_dperm (fireNext_dperm h)

theorem runOnceLoop_winv (fuel : Nat) {w : World} (h : WInv w) : WInv (w.runOnceLoop fuel).1 :=
  ⟨runOnceLoop_sinv fuel h.sched, runOnceLoop_dperm fuel h.once⟩

omit [Pump] hok in
theorem setNow_winv {w : World} (t : Nat) (h : WInv w) : WInv { w with now := t } := ⟨h.sched, h.once⟩

omit [Pump] hok in
theorem setTrig_winv {w : World} (b : Bool) (h : WInv w) : WInv { w with tm := { w.tm with trig := b } } :=
  ⟨h.sched.congr rfl rfl rfl rfl, h.once⟩

omit [Pump] hok in
theorem setRunning_winv {w : World} (b : Bool) (h : WInv w) : WInv { w with running := b } := ⟨h.sched, h.once⟩

theorem runLoop_winv (fuel T : Nat) {w : World} (h : WInv w) : WInv (w.runLoop fuel T).1 := by
  induction fuel generalizing w with
  | zero => exact h
  | succ n ih =>
    unfold World.runLoop
    simp only
    have h1 := fireNext_winv h
    split
    · exact h
    · split
      · exact ih h1
      · split
        · exact ih (drain_winv (setTrig_winv false h1))
        · split
          · exact drain_winv (setRunning_winv false (setNow_winv _ (setTrig_winv true h1)))
          · exact ih (drain_winv (setNow_winv _ h1))

theorem api_winv {w : World} (r : TM × Option Raised) (hs : SInv r.1 w.fired) (hd : DPermR [] w) :
    WInv (w.api r) := by
  unfold World.api
  simp only
  split
  · exact emit_winv _ ⟨hs, hd⟩
  · exact ⟨hs, hd⟩

theorem step_winv {w : World} (op : Op) (h : WInv w) : WInv (w.step op).1 := by
  cases op with
  | installAt tid t => exact api_winv _ (installTask_inv _ _ _ _ h.sched) h.once
  | installAfter tid d => exact api_winv _ (installTask_inv _ _ _ _ h.sched) h.once
  | installBare tid => exact api_winv _ (installTask_inv _ _ _ _ h.sched) h.once
  | installRec tid iv off => exact api_winv _ (installRecurring_inv _ _ _ _ h.sched) h.once
  | suspend tid => exact ⟨suspend_inv tid h.sched, h.once⟩
  | resume tid => exact api_winv _ (install_inv _ h.sched) h.once
  | defer f => exact ⟨(defer_keeps w f).sinv h.sched, defer_dperm f h.once⟩
  | tick d => exact setNow_winv _ h
  | next => exact fireNext_winv h
  | advOnce d fuel => exact runOnceLoop_winv _ (setNow_winv _ h)
  | advRun d fuel => exact setRunning_winv false (runLoop_winv _ _ (setRunning_winv true h))
  | jumpRun fuel => exact setRunning_winv false (runLoop_winv _ _ (setRunning_winv true h))

theorem run_winv {w : World} (ops : List Op) (h : WInv w) : WInv (w.run ops) := by
  induction ops generalizing w with
  | nil => exact h
  | cons op r ih => exact ih (step_winv op h)

omit [Pump] hok in
/-- a fresh world: nothing scheduled, nothing fired, nothing deferred; any
    configuration of task classes, bodies, spin and tick length -/
def Fresh (w : World) : Prop :=
  w.tm.heap = [] ∧ w.tm.counter = 0 ∧ w.tm.removed = [] ∧ (∀ t, w.tm.flag t = false) ∧
  w.fired = [] ∧ w.queue = [] ∧ w.calls = [] ∧ w.subs = []

omit [Pump] hok in
theorem fresh_winv {w : World} (h : Fresh w) : WInv w := by
  obtain ⟨h1, h2, h3, h4, h5, h6, h7, h8⟩ := h
  refine ⟨?_, ?_⟩
  · rw [h5]; exact SInv.init _ h1 h2 h3 h4
  · unfold DPermR; simp [h6, h7, h8]

/-- the invariants hold after every history -/
theorem reachable_winv {w : World} (h : Fresh w) (ops : List Op) : WInv (w.run ops) :=
  run_winv ops (fresh_winv h)
/-! ## worlds whose bodies and deferred functions only perform acts of a given kind

  `GoodW pa w`: every act in every task body, in every function a body defers,
  in every queued function, and in everything those defer, satisfies `pa`.
  With `pa = noAct` this is "the scripted code leaves the scheduler alone"
  (`Passive`); with `pa = calm t` it is "nobody installs task `t`". -/

def GoodW (pa : Act → Bool) (w : World) : Prop :=
  (∀ t, (w.body t).acts.all pa = true ∧ goodAll pa (w.body t).defers = true) ∧
  goodAll pa w.queue = true

omit [Pump] hok in
theorem GoodW.of_eq {pa : Act → Bool} {w w' : World} (h : GoodW pa w) (hb : w'.body = w.body)
    (hq : w'.queue = w.queue) : GoodW pa w' := by
  unfold GoodW; rw [hb, hq]; exact h

omit [Pump] hok in
theorem GoodW.with_queue {pa : Act → Bool} {w w' : World} (h : GoodW pa w) (hb : w'.body = w.body)
    (hq : goodAll pa w'.queue = true) : GoodW pa w' := by
  unfold GoodW; rw [hb]; exact ⟨h.1, hq⟩

theorem doActs_good {pa : Act → Bool} [NoPumpP pa] {w : World} (as : List Act) (ha : as.all pa = true)
    (h : GoodW pa w) : GoodW pa (w.doActs as) :=
  h.of_eq (doActs_keepsQ w as (all_noPump ha)).body (doActs_keepsQ w as (all_noPump ha)).queue

theorem deferAll_good {pa : Act → Bool} {w : World} (fs : List Fn) (h : GoodW pa w)
    (hf : goodAll pa fs = true) : GoodW pa (w.deferAll fs) := by
  refine h.with_queue (deferAll_keeps w fs).body ?_
  rw [deferAll_queue, goodAll_append, h.2, hf]; rfl

theorem callFn_body (w : World) (f : Fn) (hf : f.acts.all noPump = true) : (w.callFn f).body = w.body := by
  unfold World.callFn
  simp only
  have h1 := (doActs_keepsQ ({ w with calls := w.calls ++ [f.id], out := w.out ++ [Ev.call f.id] } : World) f.acts hf).body
  have h2 := (deferAll_keeps (World.doActs { w with calls := w.calls ++ [f.id], out := w.out ++ [Ev.call f.id] } f.acts) f.kids).body
  split
  · exact h2.trans h1
  · exact h2.trans h1

theorem callFn_good {pa : Act → Bool} [NoPumpP pa] {w : World} {f : Fn} (h : GoodW pa w)
    (hf : goodFn pa f = true) : GoodW pa (w.callFn f) :=
  h.with_queue (callFn_body w f (all_noPump (goodFn_acts hf).1)) (callFn_qgood hf h.2)

theorem runBatch_good {pa : Act → Bool} [NoPumpP pa] {w : World} (b : List Fn) (h : GoodW pa w)
    (hb : goodAll pa b = true) : GoodW pa (w.runBatch b) := by
  unfold World.runBatch
  induction b generalizing w with
  | nil => exact h
  | cons f r ih =>
    obtain ⟨hf, hr⟩ := goodAll_cons hb
    exact ih (callFn_good h hf) hr

theorem drainFuel_good {pa : Act → Bool} [NoPumpP pa] (fuel : Nat) {w : World} (h : GoodW pa w) :
    GoodW pa (w.drainFuel fuel) := by
  induction fuel generalizing w with
  | zero => exact h
  | succ n ih =>
    unfold World.drainFuel
    split
    · exact h
    · exact ih (runBatch_good w.queue (w := { w with queue := [] }) (h.with_queue rfl rfl) h.2)

theorem drain_good {pa : Act → Bool} [NoPumpP pa] {w : World} (h : GoodW pa w) : GoodW pa w.drain :=
  drainFuel_good _ h

theorem process_body_queue (w : World) (e : Entry) (ha : (w.body e.tid).acts.all noPump = true) :
    (w.process e).1.body = w.body ∧ (w.process e).1.queue = w.queue ++ (w.body e.tid).defers := by
  unfold World.process
  simp only
  generalize hw1 : ({ w with fired := w.fired ++ [Fire.mk e.tid e.time e.seq w.now w.tm.counter],
                             out := w.out ++ [Ev.fire e.tid w.now e.time e.seq] } : World) = w1
  have hk1 := doActs_keepsQ w1 (w.body e.tid).acts ha
  have hk2 := deferAll_keeps (w1.doActs (w.body e.tid).acts) (w.body e.tid).defers
  have hb : (World.deferAll (w1.doActs (w.body e.tid).acts) (w.body e.tid).defers).body = w.body := by
    rw [hk2.body, hk1.body, ← hw1]
  have hq : (World.deferAll (w1.doActs (w.body e.tid).acts) (w.body e.tid).defers).queue
      = w.queue ++ (w.body e.tid).defers := by
    rw [deferAll_queue, hk1.queue, ← hw1]
  split
  · exact ⟨hb, hq⟩
  · exact ⟨hb, hq⟩

theorem process_good {pa : Act → Bool} [NoPumpP pa] {w : World} (e : Entry) (h : GoodW pa w) :
    GoodW pa (w.process e).1 := by
  obtain ⟨hb, hq⟩ := process_body_queue w e (all_noPump (h.1 e.tid).1)
  refine h.with_queue hb ?_
  rw [hq, goodAll_append, h.2, (h.1 e.tid).2]; rfl

theorem fireNext_good {pa : Act → Bool} [NoPumpP pa] {w : World} (h : GoodW pa w) : GoodW pa w.fireNext.1 := by
  unfold World.fireNext
  rcases w.tm.getNext w.now with ⟨e?, d, tm'⟩
  cases e? with
  | none => exact h
  | some e =>
    simp only
    have := process_good (w := { w with tm := tm' }) e h
    split
    · exact this
    · exact this

theorem runOnceLoop_good {pa : Act → Bool} [NoPumpP pa] (fuel : Nat) {w : World} (h : GoodW pa w) :
    GoodW pa (w.runOnceLoop fuel).1 := by
  induction fuel generalizing w with
  | zero => exact h
  | succ n ih =>
    unfold World.runOnceLoop
    simp only
    split
    · exact ih (drain_good (fireNext_good h))
    · exact drain_good (fireNext_good h)

theorem runLoop_good {pa : Act → Bool} [NoPumpP pa] (fuel T : Nat) {w : World} (h : GoodW pa w) :
    GoodW pa (w.runLoop fuel T).1 := by
  induction fuel generalizing w with
  | zero => exact h
  | succ n ih =>
    unfold World.runLoop
    simp only
    have h1 := fireNext_good h
    split
    · exact h
    · split
      · exact ih h1
      · split
        · exact ih (drain_good (w := { w.fireNext.1 with tm := { w.fireNext.1.tm with trig := false } }) h1)
        · split
          · exact drain_good (w := { w.fireNext.1 with now := max w.fireNext.1.now T, running := false,
                                                        tm := { w.fireNext.1.tm with trig := true } }) h1
          · exact ih (drain_good (w := { w.fireNext.1 with now := w.fireNext.1.now + w.fireNext.1.timeout w.fireNext.2.1 }) h1)

/-- operations whose deferred function (if any) only performs acts satisfying `pa` -/
def goodOp (pa : Act → Bool) : Op → Bool
  | .defer f => goodFn pa f
  | _ => true

omit [Pump] hok in
theorem api_body_queue (w : World) (r : TM × Option Raised) : (w.api r).body = w.body ∧ (w.api r).queue = w.queue := by
  unfold World.api
  simp only
  split <;> exact ⟨rfl, rfl⟩

theorem step_good {pa : Act → Bool} [NoPumpP pa] {w : World} (op : Op) (h : GoodW pa w) (ho : goodOp pa op = true) :
    GoodW pa (w.step op).1 := by
  cases op with
  | installAt tid t => exact h.of_eq (api_body_queue _ _).1 (api_body_queue _ _).2
  | installAfter tid d => exact h.of_eq (api_body_queue _ _).1 (api_body_queue _ _).2
  | installBare tid => exact h.of_eq (api_body_queue _ _).1 (api_body_queue _ _).2
  | installRec tid iv off => exact h.of_eq (api_body_queue _ _).1 (api_body_queue _ _).2
  | suspend tid => exact h
  | resume tid => exact h.of_eq (api_body_queue _ _).1 (api_body_queue _ _).2
  | defer f =>
    have := deferAll_good [f] h (by simpa [goodAll, goodOp] using ho)
    exact this
  | tick d => exact h
  | next => exact fireNext_good h
  | advOnce d fuel => exact runOnceLoop_good _ (w := { w with now := w.now + d }) h
  | advRun d fuel => exact (runLoop_good _ _ (w := { w with running := true }) h).of_eq rfl rfl
  | jumpRun fuel => exact (runLoop_good _ _ (w := { w with running := true }) h).of_eq rfl rfl

theorem run_good {pa : Act → Bool} [NoPumpP pa] {w : World} (ops : List Op) (h : GoodW pa w)
    (ho : ∀ op ∈ ops, goodOp pa op = true) : GoodW pa (w.run ops) := by
  induction ops generalizing w with
  | nil => exact h
  | cons op r ih =>
    exact ih (step_good op h (ho op List.mem_cons_self)) (fun o hm => ho o (List.mem_cons_of_mem _ hm))

/-- the scripted code never touches the scheduler (the hypothesis of the
    completeness and single-pass theorems) -/
abbrev Passive (w : World) : Prop := GoodW noAct w

theorem Passive.body_acts {w : World} (h : Passive w) (t : Nat) : (w.body t).acts = [] :=
  all_noAct (h.1 t).1

theorem GoodW.mono {pa pb : Act → Bool} {w : World} (h : ∀ a, pa a = true → pb a = true)
    (hg : GoodW pa w) : GoodW pb w := by
  refine ⟨fun t => ⟨?_, goodAll_mono h _ (hg.1 t).2⟩, goodAll_mono h _ hg.2⟩
  have := (hg.1 t).1
  rw [List.all_eq_true] at this ⊢
  exact fun a ha => h a (this a ha)

theorem GoodW.noPump {pa : Act → Bool} [hpa : NoPumpP pa] {w : World} (hg : GoodW pa w) : GoodW noPump w :=
  hg.mono hpa.out

theorem goodOp_mono {pa pb : Act → Bool} (h : ∀ a, pa a = true → pb a = true) {op : Op}
    (ho : goodOp pa op = true) : goodOp pb op = true := by
  cases op <;> first | rfl | exact goodFn_mono h _ ho

/-! ## first in, first out — callbacks that do not pump the loop

  `DInv w`: the ids in submission order are the ids called so far followed by
  the ids still queued, as LISTS.  Preserved by every operation as long as no
  task body or deferred function (at any depth) pumps the loop — they may raise,
  defer, install, suspend and stop as they like (`GoodW noPump`). -/

theorem deferAll_dinv {w : World} (fs : List Fn) (h : DInv w) : DInv (w.deferAll fs) := by
  have : DMid w [] := by unfold DMid; unfold DInv at h; simpa using h
  have := deferAll_dmid fs this
  unfold DMid at this; unfold DInv; simpa using this

theorem process_fifo {w : World} (e : Entry) (hg : GoodW noPump w) (hd : DInv w) : DInv (w.process e).1 := by
  unfold World.process
  simp only
  generalize hw1 : ({ w with fired := w.fired ++ [Fire.mk e.tid e.time e.seq w.now w.tm.counter],
                             out := w.out ++ [Ev.fire e.tid w.now e.time e.seq] } : World) = w1
  have hd0 : DInv w1 := by subst hw1; exact hd
  have hk := doActs_keepsQ w1 (w.body e.tid).acts (hg.1 e.tid).1
  have hd1 : DInv (w1.doActs (w.body e.tid).acts) := by
    unfold DInv at *; rw [hk.subs, hk.calls, hk.queue]; exact hd0
  have hd2 := deferAll_dinv (w.body e.tid).defers hd1
  split
  · exact hd2
  · exact hd2

theorem fireNext_fifo {w : World} (hg : GoodW noPump w) (hd : DInv w) : DInv w.fireNext.1 := by
  unfold World.fireNext
  rcases w.tm.getNext w.now with ⟨e?, d, tm'⟩
  cases e? with
  | none => exact hd
  | some e =>
    simp only
    have := process_fifo (w := { w with tm := tm' }) e hg hd
    split
    · exact this
    · exact this

theorem runOnceLoop_fifo (fuel : Nat) {w : World} (hg : GoodW noPump w) (hd : DInv w) :
    DInv (w.runOnceLoop fuel).1 := by
  induction fuel generalizing w with
  | zero => exact hd
  | succ n ih =>
    unfold World.runOnceLoop
    simp only
    have g1 := fireNext_good hg
    have d1 := drain_dinv g1.2 (fireNext_fifo hg hd)
    split
    · exact ih (drain_good g1) d1
    · exact d1

theorem runLoop_fifo (fuel T : Nat) {w : World} (hg : GoodW noPump w) (hd : DInv w) :
    DInv (w.runLoop fuel T).1 := by
  induction fuel generalizing w with
  | zero => exact hd
  | succ n ih =>
    unfold World.runLoop
    simp only
    have g1 := fireNext_good hg
    have d1 := fireNext_fifo hg hd
    split
    · exact hd
    · split
      · exact ih g1 d1
      · split
        · exact ih (drain_good (w := { w.fireNext.1 with tm := { w.fireNext.1.tm with trig := false } }) g1)
            (drain_dinv (w := { w.fireNext.1 with tm := { w.fireNext.1.tm with trig := false } }) g1.2 d1)
        · split
          · exact drain_dinv (w := { w.fireNext.1 with now := max w.fireNext.1.now T, running := false,
                                                        tm := { w.fireNext.1.tm with trig := true } }) g1.2 d1
          · exact ih (drain_good (w := { w.fireNext.1 with now := w.fireNext.1.now + w.fireNext.1.timeout w.fireNext.2.1 }) g1)
              (drain_dinv (w := { w.fireNext.1 with now := w.fireNext.1.now + w.fireNext.1.timeout w.fireNext.2.1 }) g1.2 d1)

omit [Pump] hok in
theorem api_fifo {w : World} (r : TM × Option Raised) (hd : DInv w) : DInv (w.api r) := by
  unfold World.api
  simp only
  split <;> exact hd

theorem step_fifo {w : World} (op : Op) (hg : GoodW noPump w) (hd : DInv w) : DInv (w.step op).1 := by
  cases op with
  | installAt tid t => exact api_fifo _ hd
  | installAfter tid d => exact api_fifo _ hd
  | installBare tid => exact api_fifo _ hd
  | installRec tid iv off => exact api_fifo _ hd
  | suspend tid => exact hd
  | resume tid => exact api_fifo _ hd
  | defer f => exact deferAll_dinv [f] hd
  | tick d => exact hd
  | next => exact fireNext_fifo hg hd
  | advOnce d fuel => exact runOnceLoop_fifo _ (w := { w with now := w.now + d }) hg hd
  | advRun d fuel => exact runLoop_fifo _ _ (w := { w with running := true }) hg hd
  | jumpRun fuel => exact runLoop_fifo _ _ (w := { w with running := true }) hg hd

theorem run_fifo {w : World} (ops : List Op) (hg : GoodW noPump w)
    (ho : ∀ op ∈ ops, goodOp noPump op = true) (hd : DInv w) : DInv (w.run ops) := by
  induction ops generalizing w with
  | nil => exact hd
  | cons op r ih =>
    exact ih (step_good op hg (ho op List.mem_cons_self)) (fun o hm => ho o (List.mem_cons_of_mem _ hm))
      (step_fifo op hg hd)

/-- **deferred_fifo_once** (in submission order): as long as no task body or
    deferred function pumps the loop, the ids in submission order are the ids
    called so far followed by the ids still queued — nothing lost, duplicated or
    reordered, whatever raised and whatever the callbacks did to the scheduler -/
theorem deferred_fifo {w : World} (hw : Fresh w) (hg : GoodW noPump w) (ops : List Op)
    (ho : ∀ op ∈ ops, goodOp noPump op = true) :
    (w.run ops).subs = (w.run ops).calls ++ (w.run ops).queue.map Fn.id := by
  apply run_fifo ops hg ho
  obtain ⟨_, _, _, _, _, h6, h7, h8⟩ := hw
  unfold DInv; simp [h6, h7, h8]

/-! ## the property clauses, for every history from a fresh world -/

/-- **fire_order** — for any two firings `f` (earlier in the log) and `g`
    (later): if `g`'s installation already existed when `f` fired (`g.seq <
    f.ctr`, i.e. both were pending together), then `f` is due strictly earlier,
    or at the same time and was installed earlier.  Hence tasks fire in
    non-decreasing order of due time and, among equal times, in installation
    order.  (The proviso is necessary: an installation made later may lie in
    the past.) -/
theorem fire_order {w : World} (hw : Fresh w) (ops : List Op) :
    (w.run ops).fired.Pairwise (fun f g => g.seq < f.ctr → keyLt f.due f.seq g.due g.seq) :=
  (reachable_winv hw ops).sched.order

omit [Pump] hok in
/-- at the moment of a firing, the fired entry is the minimum of the heap -/
theorem fire_is_min {tm tm' : TM} {now : Nat} {e : Entry} {d : Option Nat}
    (hg : tm.getNext now = (some e, d, tm')) : ∀ x ∈ tm.heap, e.before x := by
  unfold TM.getNext at hg
  cases hp : popMin tm.heap with
  | none => rw [hp] at hg; simp at hg
  | some p =>
    obtain ⟨m, rest⟩ := p
    rw [hp] at hg
    obtain ⟨hperm, hmin⟩ := popMin_some hp
    simp only at hg
    split at hg
    · simp only [Prod.mk.injEq, Option.some.injEq] at hg
      obtain ⟨rfl, _, _⟩ := hg
      intro x hx
      rcases List.mem_cons.mp (hperm.mem_iff.mp hx) with rfl | hx'
      · exact before_refl _
      · exact hmin x hx'
    · simp at hg

/-- **never_early** -/
theorem never_early {w : World} (hw : Fresh w) (ops : List Op) :
    ∀ f ∈ (w.run ops).fired, f.due ≤ f.now :=
  (reachable_winv hw ops).sched.early

/-- **once_per_install** (at most once): no installation number occurs twice in the log -/
theorem once_per_install {w : World} (hw : Fresh w) (ops : List Op) :
    ((w.run ops).fired.map (·.seq)).Nodup := by
  have := (reachable_winv hw ops).sched.nodup_all
  exact (List.nodup_append.mp (List.nodup_append.mp this).1).2.1

/-- the fate of every installation: the numbers `0 … counter-1` are split into
    "still queued", "fired", "deleted by suspend_task / replaced by a re-install"
    without overlap -/
theorem install_fate {w : World} (hw : Fresh w) (ops : List Op) :
    let v := w.run ops
    (v.tm.heap.map (·.seq) ++ v.fired.map (·.seq) ++ v.tm.removed).Perm (List.range v.tm.counter) :=
  (reachable_winv hw ops).sched.part

/-- **suspended_silent** (installation level): what suspend_task deleted — or a
    re-install replaced — is never fired, before or after -/
theorem removed_never_fires {w : World} (hw : Fresh w) (ops : List Op) :
    ∀ s ∈ (w.run ops).tm.removed, s ∉ (w.run ops).fired.map (·.seq) := by
  intro s hs hf
  have := (reachable_winv hw ops).sched.nodup_all
  exact (List.nodup_append.mp this).2.2 s (List.mem_append_right _ hf) s hs rfl

/-- every installation that is neither fired nor deleted is still queued -/
theorem pending_or_done {w : World} (hw : Fresh w) (ops : List Op) (s : Nat)
    (hs : s < (w.run ops).tm.counter) (hr : s ∉ (w.run ops).tm.removed)
    (hf : s ∉ (w.run ops).fired.map (·.seq)) : ∃ e ∈ (w.run ops).tm.heap, e.seq = s := by
  have := (install_fate hw ops).mem_iff.mpr (List.mem_range.mpr hs)
  simp only [List.mem_append] at this
  rcases this with (h | h) | h
  · obtain ⟨e, he, rfl⟩ := List.mem_map.mp h; exact ⟨e, he, rfl⟩
  · exact absurd h hf
  · exact absurd h hr

/-- **reinstall_moves** (invariant): at most one heap entry per task, present iff flagged -/
theorem one_entry_iff_flagged {w : World} (hw : Fresh w) (ops : List Op) :
    ((w.run ops).tm.heap.map (·.tid)).Nodup ∧
    ∀ t, (w.run ops).tm.flag t = true ↔ ∃ e ∈ (w.run ops).tm.heap, e.tid = t :=
  ⟨(reachable_winv hw ops).sched.tid_nodup, (reachable_winv hw ops).sched.flag_iff⟩

/-- **deferred_fifo_once** (exactly once, every kind of callback — functions
    that raise, defer further work, use the scheduler, stop or PUMP the loop):
    the ids called so far together with the ids still queued are, as multisets,
    exactly the ids ever submitted — nothing lost, nothing called twice.  (The
    ORDER is submission order as long as no callback pumps the loop:
    `deferred_fifo` below; a pumping callback legitimately makes the nested pass
    run what was deferred since its batch began before the rest of that batch —
    that order is the model's, tied to the code by the lockstep.) -/
theorem deferred_once {w : World} (hw : Fresh w) (ops : List Op) :
    ((w.run ops).calls ++ (w.run ops).queue.map Fn.id).Perm (w.run ops).subs := by
  have := (reachable_winv hw ops).once
  unfold DPermR at this; simpa using this

/-! ## a suspended task stays silent until somebody installs it again -/

/-- the operations that (re-)arm task `t` -/
def arms (t : Nat) : Op → Bool
  | .installAt tid _ => tid == t
  | .installAfter tid _ => tid == t
  | .installBare tid => tid == t
  | .installRec tid _ _ => tid == t
  | .resume tid => tid == t
  | _ => false

/-- `t` is unscheduled in `w'` and has not fired since `w` -/
def Quiet (t : Nat) (w w' : World) : Prop :=
  w'.tm.flag t = false ∧ ∀ f ∈ w'.fired, f.tid = t → f ∈ w.fired

omit [Pump] hok in
theorem Quiet.trans {t : Nat} {a b c : World} (h1 : Quiet t a b) (h2 : Quiet t b c) : Quiet t a c :=
  ⟨h2.1, fun f hf ht => h1.2 f (h2.2 f hf ht) ht⟩

omit hok in
theorem keeps_quiet {t : Nat} {w w' : World} (hk : Keeps w w') (hf : w.tm.flag t = false) : Quiet t w w' := by
  refine ⟨by rw [hk.flag]; exact hf, ?_⟩
  intro f hf' _; rw [hk.fired] at hf'; exact hf'

omit [Pump] hok in
theorem suspend_flag_false {tm : TM} {t : Nat} (x : Nat) (h : tm.flag t = false) :
    (tm.suspend x).flag t = false := by
  unfold TM.suspend
  split
  · simp only [upd]; split <;> simp [h]
  · exact h

theorem install_flag_other {tm : TM} {t x : Nat} (hx : x ≠ t) (h : tm.flag t = false) :
    (tm.install x).1.flag t = false := by
  unfold TM.install
  cases tm.ttime x with
  | none => exact h
  | some tt =>
    simp only [upd, if_neg (Ne.symm hx)]
    split
    · exact suspend_flag_false x h
    · exact h

theorem installTask_flag_other {tm : TM} {t x : Nat} (now : Nat) (w d : Option Nat) (hx : x ≠ t)
    (h : tm.flag t = false) : (tm.installTask now x w d).1.flag t = false := by
  unfold TM.installTask
  simp only
  split
  · exact h
  · exact install_flag_other hx h

theorem installRecurring_flag_other {tm : TM} {t x : Nat} (now : Nat) (iv off : Option Nat) (hx : x ≠ t)
    (h : tm.flag t = false) : (tm.installRecurring now x iv off).1.flag t = false := by
  unfold TM.installRecurring
  simp only
  split
  · exact h
  · split
    · exact h
    · exact install_flag_other hx h

/-- acts that do not (re-)arm task `t` -/
def calm (t : Nat) : Act → Bool
  | .installAt tid _ => tid != t
  | .installAfter tid _ => tid != t
  | .pump _ => false
  | _ => true

instance noPumpP_calm (t : Nat) : NoPumpP (calm t) := ⟨fun a h => by cases a <;> simp [calm, noPump] at h ⊢⟩

theorem act_flag {t : Nat} {w : World} {a : Act} (ha : calm t a = true) (hf : w.tm.flag t = false) :
    (w.act a).tm.flag t = false := by
  cases a with
  | installAt tid x => exact installTask_flag_other _ _ _ (by simpa [calm] using ha) hf
  | installAfter tid d => exact installTask_flag_other _ _ _ (by simpa [calm] using ha) hf
  | suspend tid => exact suspend_flag_false tid hf
  | stop => exact hf
  | pump fuel => simp [calm] at ha

theorem doActs_flag {t : Nat} {w : World} (as : List Act) (ha : as.all (calm t) = true)
    (hf : w.tm.flag t = false) : (w.doActs as).tm.flag t = false := by
  unfold World.doActs
  induction as generalizing w with
  | nil => exact hf
  | cons a r ih =>
    simp only [List.all_cons, Bool.and_eq_true] at ha
    exact ih ha.2 (act_flag ha.1 hf)

theorem callFn_quietD {t : Nat} {w : World} {f : Fn} (hg : goodFn (calm t) f = true)
    (hf : w.tm.flag t = false) : (w.callFn f).tm.flag t = false ∧ (w.callFn f).fired = w.fired := by
  unfold World.callFn
  simp only
  generalize hw1 : ({ w with calls := w.calls ++ [f.id], out := w.out ++ [Ev.call f.id] } : World) = w1
  have hf1 : w1.tm.flag t = false := by subst hw1; exact hf
  have hfi1 : w1.fired = w.fired := by subst hw1; rfl
  have hf2 := doActs_flag f.acts (goodFn_acts hg).1 hf1
  have hk1 := doActs_keepsQ w1 f.acts (all_noPump (goodFn_acts hg).1)
  have hk2 := deferAll_keeps (w1.doActs f.acts) f.kids
  have hf3 : (World.deferAll (w1.doActs f.acts) f.kids).tm.flag t = false := by rw [hk2.flag]; exact hf2
  have hfi3 : (World.deferAll (w1.doActs f.acts) f.kids).fired = w.fired := by rw [hk2.fired, hk1.fired, hfi1]
  split
  · exact ⟨hf3, hfi3⟩
  · exact ⟨hf3, hfi3⟩

theorem runBatch_quietD {t : Nat} {w : World} (b : List Fn) (hb : goodAll (calm t) b = true)
    (hf : w.tm.flag t = false) : (w.runBatch b).tm.flag t = false ∧ (w.runBatch b).fired = w.fired := by
  unfold World.runBatch
  induction b generalizing w with
  | nil => exact ⟨hf, rfl⟩
  | cons f r ih =>
    obtain ⟨hg, hr⟩ := goodAll_cons hb
    obtain ⟨h1, h2⟩ := callFn_quietD hg hf
    obtain ⟨h3, h4⟩ := ih hr h1
    exact ⟨h3, h4.trans h2⟩

theorem drainFuel_quietD {t : Nat} (fuel : Nat) {w : World} (hg : GoodW (calm t) w)
    (hf : w.tm.flag t = false) :
    (w.drainFuel fuel).tm.flag t = false ∧ (w.drainFuel fuel).fired = w.fired := by
  induction fuel generalizing w with
  | zero => exact ⟨hf, rfl⟩
  | succ n ih =>
    unfold World.drainFuel
    split
    · exact ⟨hf, rfl⟩
    · obtain ⟨h1, h2⟩ := runBatch_quietD (w := { w with queue := [] }) w.queue hg.2 hf
      have hg' := runBatch_good w.queue (w := { w with queue := [] }) (hg.with_queue rfl rfl) hg.2
      obtain ⟨h3, h4⟩ := ih hg' h1
      exact ⟨h3, h4.trans h2⟩

theorem drain_quiet {t : Nat} {w : World} (hg : GoodW (calm t) w) (hf : w.tm.flag t = false) :
    Quiet t w w.drain := by
  obtain ⟨h1, h2⟩ := drainFuel_quietD (weights w.queue) hg hf
  exact ⟨h1, fun f hf' _ => by rw [show w.drain.fired = w.fired from h2] at hf'; exact hf'⟩

theorem process_quiet {t : Nat} {w : World} {e : Entry} (hg : GoodW (calm t) w) (he : e.tid ≠ t)
    (hf : w.tm.flag t = false) :
    (w.process e).1.tm.flag t = false ∧
    ∀ f ∈ (w.process e).1.fired, f.tid = t → f ∈ w.fired := by
  unfold World.process
  simp only
  generalize hw1 : ({ w with fired := w.fired ++ [Fire.mk e.tid e.time e.seq w.now w.tm.counter],
                             out := w.out ++ [Ev.fire e.tid w.now e.time e.seq] } : World) = w1
  have hf1 : w1.tm.flag t = false := by subst hw1; exact hf
  have hf2 := doActs_flag (w.body e.tid).acts (hg.1 e.tid).1 hf1
  have hk1 := doActs_keepsQ w1 (w.body e.tid).acts (all_noPump (hg.1 e.tid).1)
  have hk := deferAll_keeps (w1.doActs (w.body e.tid).acts) (w.body e.tid).defers
  have hfl : (World.deferAll (w1.doActs (w.body e.tid).acts) (w.body e.tid).defers).tm.flag t = false := by
    rw [hk.flag]; exact hf2
  have hfi : ∀ f ∈ (World.deferAll (w1.doActs (w.body e.tid).acts) (w.body e.tid).defers).fired,
      f.tid = t → f ∈ w.fired := by
    intro f hf' ht
    rw [hk.fired, hk1.fired, ← hw1] at hf'
    rcases List.mem_append.mp hf' with h | h
    · exact h
    · simp at h; subst h; exact absurd ht he
  generalize World.deferAll (w1.doActs (w.body e.tid).acts) (w.body e.tid).defers = w2 at *
  split
  · exact ⟨installRecurring_flag_other _ _ _ he hfl, hfi⟩
  · exact ⟨hfl, hfi⟩

theorem fireNext_quiet {t : Nat} {w : World} (h : WInv w) (hg : GoodW (calm t) w)
    (hf : w.tm.flag t = false) : Quiet t w w.fireNext.1 := by
  unfold World.fireNext
  rcases hgn : w.tm.getNext w.now with ⟨e?, d, tm'⟩
  cases e? with
  | none =>
    simp only
    obtain ⟨rfl, _, _, _⟩ := getNext_none hgn
    exact ⟨hf, fun f hf' _ => hf'⟩
  | some e =>
    simp only
    obtain ⟨_, _, hmem, _, _⟩ := getNext_some h.sched hgn
    have het : e.tid ≠ t := by
      intro heq
      have := (h.sched.flag_iff t).mpr ⟨e, hmem, heq⟩
      rw [hf] at this; cases this
    have hfl' : tm'.flag t = false := by
      unfold TM.getNext at hgn
      split at hgn
      · simp at hgn
      · split at hgn
        · simp only [Prod.mk.injEq] at hgn
          obtain ⟨_, _, rfl⟩ := hgn
          simp only [upd]; split <;> simp [hf]
        · simp at hgn
    have := process_quiet (w := { w with tm := tm' }) (e := e) hg het hfl'
    split
    · exact this
    · exact this

theorem runOnceLoop_quiet {t : Nat} (fuel : Nat) {w : World} (h : WInv w) (hg : GoodW (calm t) w)
    (hf : w.tm.flag t = false) : Quiet t w (w.runOnceLoop fuel).1 := by
  induction fuel generalizing w with
  | zero => exact ⟨hf, fun f hf' _ => hf'⟩
  | succ n ih =>
    unfold World.runOnceLoop
    simp only
    have q1 := fireNext_quiet h hg hf
    have g1 := fireNext_good hg
    have q2 := q1.trans (drain_quiet g1 q1.1)
    have hw := drain_winv (fireNext_winv h)
    split
    · exact q2.trans (ih hw (drain_good g1) q2.1)
    · exact q2

theorem runLoop_quiet {t : Nat} (fuel T : Nat) {w : World} (h : WInv w) (hg : GoodW (calm t) w)
    (hf : w.tm.flag t = false) : Quiet t w (w.runLoop fuel T).1 := by
  induction fuel generalizing w with
  | zero => exact ⟨hf, fun f hf' _ => hf'⟩
  | succ n ih =>
    unfold World.runLoop
    simp only
    have q1 := fireNext_quiet h hg hf
    have g1 := fireNext_good hg
    have h1 := fireNext_winv h
    split
    · exact ⟨hf, fun f hf' _ => hf'⟩
    · split
      · exact q1.trans (ih h1 g1 q1.1)
      · split
        · have hw := drain_winv (setTrig_winv false h1)
          have q2 := drain_quiet (w := { w.fireNext.1 with tm := { w.fireNext.1.tm with trig := false } }) g1 q1.1
          exact (q1.trans q2).trans (ih hw (drain_good (w := { w.fireNext.1 with tm := { w.fireNext.1.tm with trig := false } }) g1) q2.1)
        · split
          · have q2 := drain_quiet (w := { w.fireNext.1 with now := max w.fireNext.1.now T, running := false, tm := { w.fireNext.1.tm with trig := true } }) g1 q1.1
            exact q1.trans q2
          · have hw := drain_winv (setNow_winv (w.fireNext.1.now + w.fireNext.1.timeout w.fireNext.2.1) h1)
            have q2 := drain_quiet (w := { w.fireNext.1 with now := w.fireNext.1.now + w.fireNext.1.timeout w.fireNext.2.1 }) g1 q1.1
            exact (q1.trans q2).trans (ih hw (drain_good (w := { w.fireNext.1 with now := w.fireNext.1.now + w.fireNext.1.timeout w.fireNext.2.1 }) g1) q2.1)

omit [Pump] hok in
theorem api_quiet {t : Nat} {w : World} (r : TM × Option Raised) (hf : r.1.flag t = false) :
    Quiet t w (w.api r) := by
  unfold World.api
  simp only
  split
  · exact ⟨hf, fun f hf' _ => hf'⟩
  · exact ⟨hf, fun f hf' _ => hf'⟩

theorem step_quiet {t : Nat} {w : World} (op : Op) (h : WInv w) (hg : GoodW (calm t) w)
    (hf : w.tm.flag t = false) (ha : arms t op = false) : Quiet t w (w.step op).1 := by
  cases op with
  | installAt tid x => exact api_quiet _ (installTask_flag_other _ _ _ (by simpa [arms] using ha) hf)
  | installAfter tid d => exact api_quiet _ (installTask_flag_other _ _ _ (by simpa [arms] using ha) hf)
  | installBare tid => exact api_quiet _ (installTask_flag_other _ _ _ (by simpa [arms] using ha) hf)
  | installRec tid iv off => exact api_quiet _ (installRecurring_flag_other _ _ _ (by simpa [arms] using ha) hf)
  | suspend tid => exact ⟨suspend_flag_false tid hf, fun f hf' _ => hf'⟩
  | resume tid => exact api_quiet _ (install_flag_other (by simpa [arms] using ha) hf)
  | defer f => exact keeps_quiet (defer_keeps w f) hf
  | tick d => exact ⟨hf, fun f hf' _ => hf'⟩
  | next => exact fireNext_quiet h hg hf
  | advOnce d fuel => exact runOnceLoop_quiet _ (w := { w with now := w.now + d }) (setNow_winv _ h) hg hf
  | advRun d fuel =>
    exact runLoop_quiet fuel (w.now + d) (w := { w with running := true }) (setRunning_winv true h) hg hf
  | jumpRun fuel =>
    exact runLoop_quiet fuel _ (w := { w with running := true }) (setRunning_winv true h) hg hf

theorem run_quiet {t : Nat} {w : World} (ops : List Op) (h : WInv w) (hg : GoodW (calm t) w)
    (hf : w.tm.flag t = false) (ha : ∀ op ∈ ops, arms t op = false ∧ goodOp (calm t) op = true) :
    Quiet t w (w.run ops) := by
  induction ops generalizing w with
  | nil => exact ⟨hf, fun f hf' _ => hf'⟩
  | cons op r ih =>
    have q1 := step_quiet op h hg hf (ha op List.mem_cons_self).1
    exact q1.trans (ih (step_winv op h) (step_good op hg (ha op List.mem_cons_self).2) q1.1
      (fun o ho => ha o (List.mem_cons_of_mem _ ho)))

omit [Pump] hok in
/-- `suspend_task` leaves the task unflagged whenever the invariant holds
    (found: cleared; not found: it was not flagged) -/
theorem suspend_unflags {tm : TM} {fired : List Fire} (h : SInv tm fired) (t : Nat) :
    (tm.suspend t).flag t = false := by
  have h' := suspend_inv t h
  have hno := suspend_no_tid t h
  cases hfl : (tm.suspend t).flag t with
  | false => rfl
  | true =>
    obtain ⟨e, he, het⟩ := (h'.flag_iff t).mp hfl
    exact absurd het (hno e he)

/-- **suspended_silent** — in any reachable state, suspend task `t`; whatever
    happens afterwards (time passing, other tasks being installed, suspended,
    fired, raising; task bodies and deferred functions installing, moving and
    suspending tasks or stopping the loop), as long as nobody — no operation,
    no task body, no deferred function at any depth (`GoodW (calm t)`,
    `goodOp (calm t)`) — installs or resumes `t`, it does not fire: every
    firing of `t` in the log was already there before. -/
theorem suspended_silent {w : World} (hw : Fresh w) (before after : List Op) (t : Nat)
    (hg : GoodW (calm t) w) (hb : ∀ op ∈ before, goodOp (calm t) op = true)
    (ha : ∀ op ∈ after, arms t op = false ∧ goodOp (calm t) op = true) :
    let v := w.run before
    ∀ f ∈ ((v.step (.suspend t)).1.run after).fired, f.tid = t → f ∈ v.fired := by
  intro v
  have hv : WInv v := reachable_winv hw before
  have hgv : GoodW (calm t) v := run_good before hg hb
  have hs : WInv (v.step (.suspend t)).1 := step_winv _ hv
  have hfl : (v.step (.suspend t)).1.tm.flag t = false := suspend_unflags hv.sched t
  exact (run_quiet after hs hgv hfl ha).2

/-- the same for a task that was never installed, or has fired and was not re-installed -/
theorem unscheduled_silent {w : World} (hw : Fresh w) (before after : List Op) (t : Nat)
    (hg : GoodW (calm t) w) (hb : ∀ op ∈ before, goodOp (calm t) op = true)
    (hfl : (w.run before).tm.flag t = false)
    (ha : ∀ op ∈ after, arms t op = false ∧ goodOp (calm t) op = true) :
    ∀ f ∈ ((w.run before).run after).fired, f.tid = t → f ∈ (w.run before).fired :=
  (run_quiet after (reachable_winv hw before) (run_good before hg hb) hfl ha).2
/-! ## a pass leaves nothing behind: completeness of run_once and run

  This is the "exactly once" half of `once_per_install` and the task half of the
  isolation clause: whatever raised during the pass, when `run_once()` returns
  (resp. when `run()` reaches virtual time `T`) no queued entry is due any more
  and the deferred queue is empty.  Together with `install_fate` /
  `pending_or_done`: an installation that was not deleted by suspend_task or
  replaced by a re-install, and whose time has passed, HAS fired — once. -/

/-- nothing in the heap is due at `w.now` -/
def NoDue (w : World) : Prop := ∀ e ∈ w.tm.heap, w.now < e.time

/-- number of due entries -/
def dueCount (now : Nat) (h : List Entry) : Nat := h.countP (fun e => decide (e.time ≤ now))

omit [Pump] hok in
theorem getNext_delta {tm tm' : TM} {now : Nat} {e? : Option Entry} {d : Option Nat}
    (hg : tm.getNext now = (e?, d, tm')) :
    ∀ x ∈ tm'.heap, ∃ dd, d = some dd ∧ now + dd ≤ max x.time now ∧ (dd ≠ 0 → now < x.time) := by
  unfold TM.getNext at hg
  cases hp : popMin tm.heap with
  | none =>
    rw [hp] at hg; simp only [Prod.mk.injEq] at hg
    obtain ⟨_, _, rfl⟩ := hg
    rw [popMin_none.mp hp]; simp
  | some p =>
    obtain ⟨m, rest⟩ := p
    rw [hp] at hg
    obtain ⟨hperm, hmin⟩ := popMin_some hp
    simp only at hg
    split at hg
    · simp only [Prod.mk.injEq] at hg
      obtain ⟨_, rfl, rfl⟩ := hg
      simp only
      intro x hx
      unfold peekMin
      cases hp2 : popMin rest with
      | none => rw [popMin_none.mp hp2] at hx; simp at hx
      | some p2 =>
        obtain ⟨e2, r2⟩ := p2
        obtain ⟨hperm2, hmin2⟩ := popMin_some hp2
        have hb : e2.time ≤ x.time := by
          rcases List.mem_cons.mp (hperm2.mem_iff.mp hx) with rfl | hx'
          · exact Nat.le_refl _
          · have := hmin2 x hx'; unfold Entry.before at this; omega
        refine ⟨e2.time - now, rfl, ?_, ?_⟩ <;> omega
    · rename_i hdue
      simp only [Prod.mk.injEq] at hg
      obtain ⟨_, rfl, rfl⟩ := hg
      intro x hx
      have hb : m.time ≤ x.time := by
        rcases List.mem_cons.mp (hperm.mem_iff.mp hx) with rfl | hx'
        · exact Nat.le_refl _
        · have := hmin x hx'; unfold Entry.before at this; omega
      refine ⟨m.time - now, rfl, ?_, ?_⟩ <;> omega

omit [Pump] hok in
theorem timeout_le (w : World) (dd : Nat) : w.timeout (some dd) ≤ dd := by
  unfold World.timeout; exact Nat.min_le_left _ _

omit [Pump] hok in
/-- `TaskManager.install_task` of an unflagged task only pushes -/
theorem install_unflagged {tm : TM} {tid t : Nat} (ht : tm.ttime tid = some t) (hf : tm.flag tid = false) :
    (tm.install tid).1.heap = ⟨t, tm.counter, tid⟩ :: tm.heap ∧ (tm.install tid).1.trig = true := by
  unfold TM.install
  rw [ht]
  simp [hf]

/-- `process_task` of a body that leaves the scheduler alone -/
def processP (w : World) (e : Entry) : World × Bool :=
  let b := w.body e.tid
  let w := { w with fired := w.fired ++ [Fire.mk e.tid e.time e.seq w.now w.tm.counter],
                    out := w.out ++ [Ev.fire e.tid w.now e.time e.seq] }
  let w := w.deferAll b.defers
  if w.recurring e.tid then
    let r := w.tm.installRecurring w.now e.tid none none
    ({ w with tm := r.1 }, b.raises || r.2.isSome)
  else (w, b.raises)

omit hok in
theorem process_eq {w : World} {e : Entry} (ha : (w.body e.tid).acts = []) :
    w.process e = processP w e := by
  unfold World.process processP
  simp only
  rw [ha]
  rfl

/-- what `process_task` does to the heap of a just-popped (hence unflagged) task:
    nothing, or — recurring task, valid interval — one new entry strictly in
    the future, with the wake-up flag set -/
theorem process_heap {w : World} {e : Entry} (ha : (w.body e.tid).acts = [])
    (hf : w.tm.flag e.tid = false) :
    (w.process e).1.now = w.now ∧ (w.process e).1.spin = w.spin ∧
    ((w.process e).1.tm.heap = w.tm.heap ∨
     ((w.process e).1.tm.trig = true ∧
      ∃ t c, w.now < t ∧ (w.process e).1.tm.heap = ⟨t, c, e.tid⟩ :: w.tm.heap)) := by
  rw [process_eq ha]
  unfold processP
  simp only
  generalize hw1 : ({ w with fired := w.fired ++ [Fire.mk e.tid e.time e.seq w.now w.tm.counter],
                             out := w.out ++ [Ev.fire e.tid w.now e.time e.seq] } : World) = w1
  have hk := deferAll_keeps w1 (w.body e.tid).defers
  have hheap : (w1.deferAll (w.body e.tid).defers).tm.heap = w.tm.heap := by rw [hk.heap, ← hw1]
  have hflag : (w1.deferAll (w.body e.tid).defers).tm.flag e.tid = false := by rw [hk.flag, ← hw1]; exact hf
  have hnow : (w1.deferAll (w.body e.tid).defers).now = w.now := by rw [hk.now, ← hw1]
  have hspin : (w1.deferAll (w.body e.tid).defers).spin = w.spin := by rw [hk.spin, ← hw1]
  generalize w1.deferAll (w.body e.tid).defers = w2 at *
  split
  · refine ⟨hnow, hspin, ?_⟩
    simp only
    unfold TM.installRecurring
    have hset : w2.tm.setRecurring e.tid none none = w2.tm := rfl
    simp only [hset]
    split
    · exact Or.inl hheap
    · split
      · exact Or.inl hheap
      · rename_i iv _ hiv
        right
        generalize ht0 : (slotAfter (w2.now + w2.tm.jitter) iv (w2.tm.offsetOf e.tid)).toNat = t0
        have := install_unflagged (tm := { w2.tm with ttime := upd w2.tm.ttime e.tid (some t0) })
          (tid := e.tid) (t := t0) (by simp [upd]) hflag
        refine ⟨this.2, t0, _, ?_, by rw [this.1, hheap]⟩
        have hgt := slotAfter_gt (w2.now + w2.tm.jitter) iv (w2.tm.offsetOf e.tid) (by omega)
        rw [← hnow, ← ht0]
        omega
  · exact ⟨hnow, hspin, Or.inl hheap⟩

theorem process_running {w : World} {e : Entry} (ha : (w.body e.tid).acts = []) :
    (w.process e).1.running = w.running := by
  rw [process_eq ha]
  unfold processP
  simp only
  have hk := deferAll_keeps ({ w with fired := w.fired ++ [Fire.mk e.tid e.time e.seq w.now w.tm.counter],
                                      out := w.out ++ [Ev.fire e.tid w.now e.time e.seq] } : World) (w.body e.tid).defers
  split <;> exact hk.running

/-- bodies that leave the scheduler alone do not stop the loop -/
theorem fireNext_running {w : World} (hp : Passive w) : w.fireNext.1.running = w.running := by
  unfold World.fireNext
  rcases w.tm.getNext w.now with ⟨e?, d, tm'⟩
  cases e? with
  | none => rfl
  | some e =>
    simp only
    have := process_running (w := { w with tm := tm' }) (e := e) (hp.body_acts e.tid)
    split
    · exact this
    · exact this

omit [Pump] hok in
theorem emit_same (w : World) (e : Ev) : (w.emit e).tm = w.tm ∧ (w.emit e).now = w.now ∧
    (w.emit e).spin = w.spin ∧ (w.emit e).queue = w.queue := ⟨rfl, rfl, rfl, rfl⟩

/-- everything the two loops need to know about one `get_next_task` +
    `process_task` -/
theorem fireNext_spec {w : World} (h : WInv w) (hp : Passive w) :
    w.fireNext.1.now = w.now ∧ w.fireNext.1.spin = w.spin ∧
    -- run_once: it continues only while something was popped and the next head is due
    (w.fireNext.2.1 ≠ some 0 → NoDue w.fireNext.1) ∧
    (w.fireNext.2.1 = some 0 → dueCount w.now w.fireNext.1.tm.heap + 1 = dueCount w.now w.tm.heap) ∧
    -- run: if nothing raised and nobody set the wake-up flag, `delta` is still right
    (w.fireNext.1.tm.trig = false →
      ∀ x ∈ w.fireNext.1.tm.heap, w.now + w.timeout w.fireNext.2.1 ≤ max x.time w.now) := by
  unfold World.fireNext
  rcases hg : w.tm.getNext w.now with ⟨e?, d, tm'⟩
  have hdelta := getNext_delta hg
  cases e? with
  | none =>
    simp only
    obtain ⟨rfl, hnd, hdn, hd0⟩ := getNext_none hg
    refine ⟨by simp, by simp, fun _ => hnd, ?_, ?_⟩
    · intro hd
      -- delta = some 0 is impossible when nothing is due
      exact absurd hd hd0
    · intro _ x hx
      obtain ⟨dd, hdd, h1, _⟩ := hdelta x hx
      rw [hdd]; have := timeout_le w dd; omega
  | some e =>
    simp only
    obtain ⟨_, hdue, hmem, hperm, hmin⟩ := getNext_some h.sched hg
    have hfl : tm'.flag e.tid = false := by
      unfold TM.getNext at hg
      split at hg
      · simp at hg
      · split at hg
        · simp only [Prod.mk.injEq, Option.some.injEq] at hg
          obtain ⟨rfl, _, rfl⟩ := hg
          simp [upd]
        · simp at hg
    obtain ⟨hnow, hspin, hheap⟩ := process_heap (w := { w with tm := tm' }) (e := e) (hp.body_acts e.tid) hfl
    -- the result, with or without the logged exception
    have key : ∀ v : World, v.tm = (World.process { w with tm := tm' } e).1.tm →
        v.now = (World.process { w with tm := tm' } e).1.now →
        v.spin = (World.process { w with tm := tm' } e).1.spin →
        v.now = w.now ∧ v.spin = w.spin ∧ (d ≠ some 0 → NoDue v) ∧
        (d = some 0 → dueCount w.now v.tm.heap + 1 = dueCount w.now w.tm.heap) ∧
        (v.tm.trig = false → ∀ x ∈ v.tm.heap, w.now + w.timeout d ≤ max x.time w.now) := by
      intro v hvtm hvnow hvspin
      have hcount : dueCount w.now tm'.heap + 1 = dueCount w.now w.tm.heap := by
        unfold dueCount
        rw [hperm.countP_eq, List.countP_cons]
        simp [hdue]
      refine ⟨by rw [hvnow, hnow], by rw [hvspin, hspin], ?_, ?_, ?_⟩
      · intro hd x hx
        rw [hvnow, hnow]
        have hrest : ∀ y ∈ tm'.heap, w.now < y.time := by
          intro y hy
          obtain ⟨dd, hdd, _, h2⟩ := hdelta y hy
          apply h2; intro h0; rw [hdd, h0] at hd; exact hd rfl
        rw [hvtm] at hx
        rcases hheap with hh | ⟨_, t, c, ht, hh⟩
        · rw [hh] at hx; exact hrest x hx
        · rw [hh] at hx
          rcases List.mem_cons.mp hx with rfl | hx'
          · exact ht
          · exact hrest x hx'
      · intro _
        rw [hvtm]
        rcases hheap with hh | ⟨_, t, c, ht, hh⟩
        · rw [hh]; exact hcount
        · rw [hh]
          have : dueCount w.now (⟨t, c, e.tid⟩ :: tm'.heap) = dueCount w.now tm'.heap := by
            unfold dueCount
            rw [List.countP_cons]
            have : ¬ t ≤ w.now := by simp at ht; omega
            simp [this]
          simp only at this ⊢
          rw [this]; exact hcount
      · intro htrig x hx
        rw [hvtm] at htrig hx
        rcases hheap with hh | ⟨htr, _⟩
        · rw [hh] at hx
          obtain ⟨dd, hdd, h1, _⟩ := hdelta x hx
          rw [hdd]; have := timeout_le w dd; omega
        · rw [htr] at htrig; cases htrig
    split
    · exact key _ rfl rfl rfl
    · exact key _ rfl rfl rfl

theorem drain_same (w : World) (hp : Passive w) :
    w.drain.tm.heap = w.tm.heap ∧ w.drain.now = w.now ∧ w.drain.spin = w.spin ∧ w.drain.running = w.running :=
  ⟨(drain_keeps w hp.2).heap, (drain_keeps w hp.2).now, (drain_keeps w hp.2).spin, (drain_keeps w hp.2).running⟩

/-- the `while delta == 0.0` loop with enough fuel runs to completion -/
theorem runOnceLoop_complete (fuel : Nat) {w : World} (h : WInv w) (hp : Passive w)
    (hfuel : dueCount w.now w.tm.heap < fuel) :
    (w.runOnceLoop fuel).2 = true ∧ NoDue (w.runOnceLoop fuel).1 ∧ (w.runOnceLoop fuel).1.queue = [] ∧
    (w.runOnceLoop fuel).1.now = w.now := by
  induction fuel generalizing w with
  | zero => omega
  | succ n ih =>
    unfold World.runOnceLoop
    simp only
    obtain ⟨hnow, _, hnd, hcnt, _⟩ := fireNext_spec h hp
    have hp1 := fireNext_good hp
    obtain ⟨dh, dn, _⟩ := drain_same w.fireNext.1 hp1
    split
    · rename_i hd
      have hw := drain_winv (fireNext_winv h)
      have := ih hw (drain_good hp1) (by rw [dh, dn, hnow]; have := hcnt hd; omega)
      exact ⟨this.1, this.2.1, this.2.2.1, by rw [this.2.2.2, dn, hnow]⟩
    · rename_i hd
      refine ⟨rfl, ?_, drain_queue_empty _ (goodAll_noPump hp1.2), by rw [dn, hnow]⟩
      intro e he
      rw [dh] at he; rw [dn]
      exact hnd hd e he

omit [Pump] hok in
theorem dueCount_le_length (now : Nat) (h : List Entry) : dueCount now h ≤ h.length :=
  List.countP_le_length

/-- **run_once is complete** when the scripted code leaves the scheduler alone:
    one iteration per heap entry, plus one, is enough fuel; on return nothing
    queued is due and nothing is left in the deferred queue — whichever tasks or
    deferred functions raised -/
theorem runOnce_complete {w : World} (h : WInv w) (hp : Passive w) (fuel : Nat)
    (hfuel : w.tm.heap.length < fuel) :
    (w.runOnce fuel).2 = true ∧ NoDue (w.runOnce fuel).1 ∧ (w.runOnce fuel).1.queue = [] ∧
    (w.runOnce fuel).1.now = w.now := by
  unfold World.runOnce
  exact runOnceLoop_complete _ h hp (by have := dueCount_le_length w.now w.tm.heap; omega)

omit hok in
theorem runLoop_stopped {w : World} (n T : Nat) (hr : w.running = false) :
    w.runLoop (n + 1) T = (w, 2) := by
  rw [World.runLoop]; simp [hr]

omit hok in
theorem runLoop_raised {w : World} (n T : Nat) (hrun : w.running = true) (hr : w.fireNext.2.2 = true) :
    w.runLoop (n + 1) T = w.fireNext.1.runLoop n T := by
  rw [World.runLoop]; simp [hrun, hr]

omit hok in
theorem runLoop_trig {w : World} (n T : Nat) (hrun : w.running = true) (hr : w.fireNext.2.2 = false)
    (ht : w.fireNext.1.tm.trig = true) :
    w.runLoop (n + 1) T =
      World.runLoop n T ({ w.fireNext.1 with tm := { w.fireNext.1.tm with trig := false } } : World).drain := by
  rw [World.runLoop]; simp [hrun, hr, ht]

omit hok in
theorem runLoop_stop {w : World} (n T : Nat) (hrun : w.running = true) (hr : w.fireNext.2.2 = false)
    (ht : w.fireNext.1.tm.trig = false)
    (hgt : w.fireNext.1.now + w.fireNext.1.timeout w.fireNext.2.1 > T) :
    w.runLoop (n + 1) T =
      (({ w.fireNext.1 with now := max w.fireNext.1.now T, running := false,
                            tm := { w.fireNext.1.tm with trig := true } } : World).drain, 1) := by
  rw [World.runLoop]; simp [hrun, hr, ht, hgt]

omit hok in
theorem runLoop_wait {w : World} (n T : Nat) (hrun : w.running = true) (hr : w.fireNext.2.2 = false)
    (ht : w.fireNext.1.tm.trig = false)
    (hgt : ¬ w.fireNext.1.now + w.fireNext.1.timeout w.fireNext.2.1 > T) :
    w.runLoop (n + 1) T =
      World.runLoop n T ({ w.fireNext.1 with now := w.fireNext.1.now + w.fireNext.1.timeout w.fireNext.2.1 } : World).drain := by
  rw [World.runLoop]; simp only [hrun, hr, ht, hgt]; simp

/-- **run is complete** when the scripted code leaves the scheduler alone: the
    loop is never stopped from inside (result code 2 does not occur), and if it
    reaches the stub's `stop()` (result code 1) the clock is at `T`, nothing
    queued is due at `T` and the deferred queue is empty — whichever tasks or
    deferred functions raised -/
theorem runLoop_complete (fuel T : Nat) {w : World} (h : WInv w) (hp : Passive w)
    (hrun : w.running = true) (hT : w.now ≤ T) (hdone : (w.runLoop fuel T).2 ≠ 0) :
    (w.runLoop fuel T).2 = 1 ∧
    (w.runLoop fuel T).1.now = T ∧ NoDue (w.runLoop fuel T).1 ∧ (w.runLoop fuel T).1.queue = [] := by
  induction fuel generalizing w with
  | zero => simp [World.runLoop] at hdone
  | succ n ih =>
    obtain ⟨hnow, hspin, _, _, htrig⟩ := fireNext_spec h hp
    have h1 := fireNext_winv h
    have hp1 := fireNext_good hp
    have hrun1 : w.fireNext.1.running = true := by rw [fireNext_running hp]; exact hrun
    by_cases hr : w.fireNext.2.2 = true
    · rw [runLoop_raised n T hrun hr] at hdone ⊢
      exact ih h1 hp1 hrun1 (by rw [hnow]; exact hT) hdone
    · have hr' : w.fireNext.2.2 = false := by simpa using hr
      by_cases htr : w.fireNext.1.tm.trig = true
      · rw [runLoop_trig n T hrun hr' htr] at hdone ⊢
        have hw := drain_winv (setTrig_winv false h1)
        have hp2 : Passive ({ w.fireNext.1 with tm := { w.fireNext.1.tm with trig := false } } : World) := hp1
        obtain ⟨_, dn, _, dr⟩ := drain_same _ hp2
        exact ih hw (drain_good hp2) (by rw [dr]; exact hrun1) (by rw [dn]; simp only; rw [hnow]; exact hT) hdone
      · have htr' : w.fireNext.1.tm.trig = false := by simpa using htr
        by_cases hgt : w.fireNext.1.now + w.fireNext.1.timeout w.fireNext.2.1 > T
        · rw [runLoop_stop n T hrun hr' htr' hgt]
          have hp2 : Passive ({ w.fireNext.1 with now := max w.fireNext.1.now T, running := false, tm := { w.fireNext.1.tm with trig := true } } : World) := hp1
          obtain ⟨dh, dn, _, _⟩ := drain_same _ hp2
          refine ⟨rfl, ?_, ?_, drain_queue_empty _ (goodAll_noPump hp2.2)⟩
          · simp only; rw [dn]; simp only; rw [hnow]; omega
          · intro e he
            simp only at he ⊢
            rw [dh] at he; rw [dn]
            simp only at he ⊢
            have := htrig htr' e he
            have hto : w.fireNext.1.timeout w.fireNext.2.1 = w.timeout w.fireNext.2.1 := by
              unfold World.timeout; rw [hspin]
            rw [hnow, hto] at hgt
            rw [hnow]; omega
        · rw [runLoop_wait n T hrun hr' htr' hgt] at hdone ⊢
          have hw := drain_winv (setNow_winv (w.fireNext.1.now + w.fireNext.1.timeout w.fireNext.2.1) h1)
          have hp2 : Passive ({ w.fireNext.1 with now := w.fireNext.1.now + w.fireNext.1.timeout w.fireNext.2.1 } : World) := hp1
          obtain ⟨_, dn, _, dr⟩ := drain_same _ hp2
          exact ih hw (drain_good hp2) (by rw [dr]; exact hrun1) (by rw [dn]; simp only; omega) hdone
/-! ## deferred functions: the call sequence does not depend on who raises -/

/-- breadth-first ids of a submission forest — defined without looking at `raises` -/
def bfs : Nat → List Fn → List Nat
  | 0, _ => []
  | fuel + 1, q =>
    match q with
    | [] => []
    | _ => q.map Fn.id ++ bfs fuel (q.flatMap Fn.kids)

omit [Pump] hok in
theorem deferAll_calls (w : World) (fs : List Fn) :
    (w.deferAll fs).calls = w.calls ∧ (w.deferAll fs).failed = w.failed := by
  unfold World.deferAll
  induction fs generalizing w with
  | nil => exact ⟨rfl, rfl⟩
  | cons f r ih => simp only [List.foldl_cons]; exact ih (w.defer f)

theorem callFn_calls (w : World) (f : Fn) (hf : f.acts.all noPump = true) :
    (w.callFn f).calls = w.calls ++ [f.id] ∧
    (w.callFn f).failed = w.failed ++ (if f.raises then [f.id] else []) := by
  unfold World.callFn
  simp only
  have hk := doActs_keepsQ ({ w with calls := w.calls ++ [f.id], out := w.out ++ [Ev.call f.id] } : World) f.acts hf
  split <;> simp [deferAll_calls, hk.calls, hk.failed, *]

theorem runBatch_calls (w : World) (b : List Fn) (hb : goodAll noPump b = true) :
    (w.runBatch b).calls = w.calls ++ b.map Fn.id ∧
    (w.runBatch b).queue = w.queue ++ b.flatMap Fn.kids ∧
    (w.runBatch b).failed = w.failed ++ (b.filter Fn.raises).map Fn.id := by
  unfold World.runBatch
  induction b generalizing w with
  | nil => simp
  | cons f r ih =>
    obtain ⟨hf, hr⟩ := goodAll_cons hb
    have hfa := (goodFn_acts hf).1
    simp only [List.foldl_cons]
    obtain ⟨h1, h2, h3⟩ := ih (w.callFn f) hr
    rw [h1, h2, h3, (callFn_calls w f hfa).1, (callFn_calls w f hfa).2, callFn_queue w f hfa]
    refine ⟨by simp, by simp, ?_⟩
    cases hr : f.raises <;> simp [hr]

/-- **deferred_isolated** (one batch): every member of the batch is called, in
    order, and exactly the raising ones are logged — a raising member does not
    cut the batch short (members may do anything but pump the loop) -/
theorem batch_isolated (w : World) (b : List Fn) (hb : goodAll noPump b = true) :
    (w.runBatch b).calls = w.calls ++ b.map Fn.id ∧
    (w.runBatch b).failed = w.failed ++ (b.filter Fn.raises).map Fn.id :=
  ⟨(runBatch_calls w b hb).1, (runBatch_calls w b hb).2.2⟩

theorem drainFuel_calls (fuel : Nat) (w : World) (hg : goodAll noPump w.queue = true) :
    (w.drainFuel fuel).calls = w.calls ++ bfs fuel w.queue := by
  induction fuel generalizing w with
  | zero => simp [World.drainFuel, bfs]
  | succ n ih =>
    unfold World.drainFuel bfs
    cases hq : w.queue with
    | nil => simp
    | cons f r =>
      simp only
      rw [hq] at hg
      rw [ih _ (runBatch_qgood (pa := noPump) (w := { w with queue := [] }) (f :: r) hg rfl)]
      obtain ⟨h1, h2, _⟩ := runBatch_calls { w with queue := [] } (f :: r) hg
      rw [h1, h2]
      simp

/-- the calls made by the drain loop are the breadth-first ids of the queue:
    a function of the submission forest alone -/
theorem drain_calls (w : World) (hg : goodAll noPump w.queue = true) :
    w.drain.calls = w.calls ++ bfs (weights w.queue) w.queue :=
  drainFuel_calls _ w hg

mutual
  /-- the same function, not raising -/
  def stripFn : Fn → Fn
    | .mk i _ kids acts => .mk i false (stripAll kids) acts
  def stripAll : List Fn → List Fn
    | [] => []
    | f :: r => stripFn f :: stripAll r
end

omit [Pump] hok in
theorem stripAll_append (a b : List Fn) : stripAll (a ++ b) = stripAll a ++ stripAll b := by
  induction a with
  | nil => simp [stripAll]
  | cons f r ih => simp [stripAll, ih]

omit [Pump] hok in
theorem strip_id (f : Fn) : (stripFn f).id = f.id := by cases f; simp [stripFn, Fn.id]
omit [Pump] hok in
theorem strip_kids (f : Fn) : (stripFn f).kids = stripAll f.kids := by cases f; simp [stripFn, Fn.kids]

theorem stripAll_ids (q : List Fn) : (stripAll q).map Fn.id = q.map Fn.id := by
  induction q with
  | nil => simp [stripAll]
  | cons f r ih => simp [stripAll, ih, strip_id]

theorem stripAll_kids (q : List Fn) : (stripAll q).flatMap Fn.kids = stripAll (q.flatMap Fn.kids) := by
  induction q with
  | nil => simp [stripAll]
  | cons f r ih => simp [stripAll, ih, strip_kids, stripAll_append]

omit [Pump] hok in
theorem stripAll_nil {q : List Fn} : stripAll q = [] ↔ q = [] := by
  cases q <;> simp [stripAll]

mutual
  theorem strip_weight : ∀ f : Fn, (stripFn f).weight = f.weight
    | .mk i r kids acts => by simp [stripFn, Fn.weight, stripAll_weights kids]
  theorem stripAll_weights : ∀ q : List Fn, weights (stripAll q) = weights q
    | [] => by simp [stripAll]
    | f :: r => by simp [stripAll, weights, strip_weight f, stripAll_weights r]
end

theorem bfs_strip (fuel : Nat) (q : List Fn) : bfs fuel (stripAll q) = bfs fuel q := by
  induction fuel generalizing q with
  | zero => simp [bfs]
  | succ n ih =>
    unfold bfs
    cases q with
    | nil => simp [stripAll]
    | cons f r =>
      have : stripAll (f :: r) = stripFn f :: stripAll r := by simp [stripAll]
      rw [this]
      simp only
      rw [← this, stripAll_ids, stripAll_kids, ih]

mutual
  theorem strip_good (pa : Act → Bool) : ∀ f : Fn, goodFn pa (stripFn f) = goodFn pa f
    | .mk i r kids acts => by simp [stripFn, goodFn, stripAll_good pa kids]
  theorem stripAll_good (pa : Act → Bool) : ∀ q : List Fn, goodAll pa (stripAll q) = goodAll pa q
    | [] => by simp [stripAll]
    | f :: r => by simp [stripAll, goodAll, strip_good pa f, stripAll_good pa r]
end

/-- **deferred_isolated** — for EVERY choice of raising members (at any depth
    of deferral) the drain loop makes exactly the calls it makes when nobody
    raises, in the same order (functions may do anything but pump the loop) -/
theorem deferred_isolated (w : World) (hg : goodAll noPump w.queue = true) :
    w.drain.calls = ({ w with queue := stripAll w.queue } : World).drain.calls := by
  rw [drain_calls w hg, drain_calls _ (by simp only; rw [stripAll_good]; exact hg)]
  simp only
  rw [stripAll_weights, bfs_strip]

/-! ## the exactly-once clauses after a complete pass

  Hypothesis of this section: the scripted code leaves the scheduler alone
  (`Passive`, and `goodOp noAct` for the functions deferred by the history).
  For bodies that install tasks themselves the statements are false of the
  code as it stands — `run_once` decides whether to go round again before the
  body runs, so a task installed for "now" by the last body of a pass waits
  for the next pass — and the harness oracle checks the weaker form (what was
  pending and due at the start of the pass has fired). -/

/-- after `clock += d; run_once()` in any reachable state: the pass completes,
    nothing queued is due, the deferred queue is empty and every function ever
    submitted has been called exactly once in submission order -/
theorem advOnce_complete {w : World} (hw : Fresh w) (hp : Passive w) (ops : List Op)
    (hops : ∀ op ∈ ops, goodOp noAct op = true) (d fuel : Nat)
    (hfuel : (w.run ops).tm.heap.length < fuel) :
    let v := ((w.run ops).step (.advOnce d fuel))
    v.2 = some 1 ∧ NoDue v.1 ∧ v.1.queue = [] ∧ v.1.calls = v.1.subs := by
  intro v
  have h0 : WInv ({ w.run ops with now := (w.run ops).now + d } : World) := setNow_winv _ (reachable_winv hw ops)
  have hp0 : Passive ({ w.run ops with now := (w.run ops).now + d } : World) := run_good ops hp hops
  obtain ⟨h1, h2, h3, _⟩ := runOnce_complete h0 hp0 fuel hfuel
  have hf : DInv v.1 := step_fifo _ (GoodW.noPump (run_good ops hp hops))
    (run_fifo ops hp.noPump (fun o ho => goodOp_mono noPumpP_noAct.out (hops o ho))
      (by obtain ⟨_, _, _, _, _, h6, h7, h8⟩ := hw; unfold DInv; simp [h6, h7, h8]))
  unfold DInv at hf
  refine ⟨?_, h2, h3, ?_⟩
  · show some (if (World.runOnce _ fuel).2 then 1 else 0) = some 1
    rw [h1]; rfl
  · have h3' : v.1.queue = [] := h3
    rw [hf, h3']; simp

/-- the same for `run()` until `now + d`, provided the fuel did not run out:
    the loop was stopped by the stub at `now + d` (never from inside) -/
theorem advRun_complete {w : World} (hw : Fresh w) (hp : Passive w) (ops : List Op)
    (hops : ∀ op ∈ ops, goodOp noAct op = true) (d fuel : Nat)
    (hdone : ((w.run ops).step (.advRun d fuel)).2 ≠ some 0) :
    let v := ((w.run ops).step (.advRun d fuel))
    v.2 = some 1 ∧ v.1.now = (w.run ops).now + d ∧ NoDue v.1 ∧ v.1.queue = [] ∧ v.1.calls = v.1.subs := by
  intro v
  have h0 : WInv ({ w.run ops with running := true } : World) := setRunning_winv true (reachable_winv hw ops)
  have hp0 : Passive ({ w.run ops with running := true } : World) := run_good ops hp hops
  have hd : (({ w.run ops with running := true } : World).runLoop fuel ((w.run ops).now + d)).2 ≠ 0 := by
    intro h; apply hdone
    show some (({ w.run ops with running := true } : World).runLoop fuel ((w.run ops).now + d)).2 = some 0
    rw [h]
  obtain ⟨h1, h2, h3, h4⟩ := runLoop_complete fuel _ h0 hp0 rfl (Nat.le_add_right _ _) hd
  have hf : DInv v.1 := step_fifo _ (GoodW.noPump (run_good ops hp hops))
    (run_fifo ops hp.noPump (fun o ho => goodOp_mono noPumpP_noAct.out (hops o ho))
      (by obtain ⟨_, _, _, _, _, h6, h7, h8⟩ := hw; unfold DInv; simp [h6, h7, h8]))
  unfold DInv at hf
  refine ⟨?_, h2, h3, h4, ?_⟩
  · show some (({ w.run ops with running := true } : World).runLoop fuel ((w.run ops).now + d)).2 = some 1
    rw [h1]
  · have h4' : v.1.queue = [] := h4
    rw [hf, h4']; simp

/-- **once_per_install** (exactly once): after a complete pass, every
    installation ever made has either fired (once: `once_per_install`), or was
    deleted by suspend_task / replaced by a re-install, or is queued for a time
    that has not come yet -/
theorem fires_exactly_once {w : World} (hw : Fresh w) (hp : Passive w) (ops : List Op)
    (hops : ∀ op ∈ ops, goodOp noAct op = true) (d fuel : Nat)
    (hfuel : (w.run ops).tm.heap.length < fuel) (s : Nat) :
    let v := ((w.run ops).step (.advOnce d fuel)).1
    s < v.tm.counter →
      s ∈ v.fired.map (·.seq) ∨ s ∈ v.tm.removed ∨ ∃ e ∈ v.tm.heap, e.seq = s ∧ v.now < e.time := by
  intro v hs
  have hv : WInv v := step_winv _ (reachable_winv hw ops)
  have hnd : NoDue v := (advOnce_complete hw hp ops hops d fuel hfuel).2.1
  have := hv.sched.part.mem_iff.mpr (List.mem_range.mpr hs)
  simp only [List.mem_append] at this
  rcases this with (h | h) | h
  · obtain ⟨e, he, rfl⟩ := List.mem_map.mp h
    exact Or.inr (Or.inr ⟨e, he, rfl, hnd e he⟩)
  · exact Or.inl h
  · exact Or.inr (Or.inl h)

/-! ## one pass of run_once fires in sorted order

  The plain reading of the first clause: the firings of a single `run_once()`
  pass — whatever the history before it — are strictly sorted by
  `(due time, installation number)`, all at the time of the pass. -/

/-- everything installed since the counter was `c0` lies in the future -/
def Late (c0 : Nat) (w : World) : Prop := ∀ e ∈ w.tm.heap, c0 ≤ e.seq → w.now < e.time

/-- the firings appended since `w` all belong to installations older than `c0`,
    were made with the counter at `c0` or later, at time `t` -/
def NewFires (c0 t : Nat) (w w' : World) : Prop :=
  ∃ new, w'.fired = w.fired ++ new ∧ ∀ f ∈ new, f.seq < c0 ∧ c0 ≤ f.ctr ∧ f.now = t

omit [Pump] hok in
theorem NewFires.refl (c0 t : Nat) (w : World) : NewFires c0 t w w := ⟨[], by simp, by simp⟩

omit [Pump] hok in
theorem NewFires.trans {c0 t : Nat} {a b c : World} (h1 : NewFires c0 t a b) (h2 : NewFires c0 t b c) :
    NewFires c0 t a c := by
  obtain ⟨n1, e1, p1⟩ := h1
  obtain ⟨n2, e2, p2⟩ := h2
  refine ⟨n1 ++ n2, by rw [e2, e1, List.append_assoc], ?_⟩
  intro f hf
  rcases List.mem_append.mp hf with h | h
  · exact p1 f h
  · exact p2 f h

omit hok in
theorem keeps_newFires {c0 t : Nat} {w w' : World} (hk : Keeps w w') : NewFires c0 t w w' :=
  ⟨[], by rw [hk.fired]; simp, by simp⟩

theorem process_fired (w : World) (e : Entry) (ha : (w.body e.tid).acts.all noPump = true) :
    (w.process e).1.fired = w.fired ++ [⟨e.tid, e.time, e.seq, w.now, w.tm.counter⟩] := by
  unfold World.process
  simp only
  generalize hw1 : ({ w with fired := w.fired ++ [Fire.mk e.tid e.time e.seq w.now w.tm.counter],
                             out := w.out ++ [Ev.fire e.tid w.now e.time e.seq] } : World) = w1
  have hk1 := doActs_keepsQ w1 (w.body e.tid).acts ha
  have hk := deferAll_keeps (w1.doActs (w.body e.tid).acts) (w.body e.tid).defers
  have : (World.deferAll (w1.doActs (w.body e.tid).acts) (w.body e.tid).defers).fired
      = w.fired ++ [⟨e.tid, e.time, e.seq, w.now, w.tm.counter⟩] := by
    rw [hk.fired, hk1.fired, ← hw1]
  split <;> exact this

omit [Pump] hok in
theorem getNext_counter {tm tm' : TM} {now : Nat} {e? : Option Entry} {d : Option Nat}
    (hg : tm.getNext now = (e?, d, tm')) : tm'.counter = tm.counter := by
  unfold TM.getNext at hg
  split at hg
  · simp only [Prod.mk.injEq] at hg; obtain ⟨_, _, rfl⟩ := hg; rfl
  · split at hg
    · simp only [Prod.mk.injEq] at hg; obtain ⟨_, _, rfl⟩ := hg; rfl
    · simp only [Prod.mk.injEq] at hg; obtain ⟨_, _, rfl⟩ := hg; rfl

theorem fireNext_late {c0 : Nat} {w : World} (h : WInv w) (hp : Passive w) (hl : Late c0 w)
    (hc : c0 ≤ w.tm.counter) :
    Late c0 w.fireNext.1 ∧ NewFires c0 w.now w w.fireNext.1 ∧ c0 ≤ w.fireNext.1.tm.counter := by
  have hw' := fireNext_winv h
  obtain ⟨hnow, _, _, _, _⟩ := fireNext_spec h hp
  unfold World.fireNext at hw' hnow ⊢
  rcases hg : w.tm.getNext w.now with ⟨e?, d, tm'⟩
  rw [hg] at hw' hnow
  cases e? with
  | none =>
    simp only at hw' hnow ⊢
    obtain ⟨rfl, _, _, _⟩ := getNext_none hg
    exact ⟨hl, NewFires.refl _ _ _, hc⟩
  | some e =>
    simp only at hw' hnow ⊢
    obtain ⟨_, hdue, hmem, hperm, _⟩ := getNext_some h.sched hg
    have hctr := getNext_counter hg
    have hseq : e.seq < c0 := by
      rcases Nat.lt_or_ge e.seq c0 with h1 | h1
      · exact h1
      · have := hl e hmem h1; omega
    have hfl : tm'.flag e.tid = false := by
      unfold TM.getNext at hg
      split at hg
      · simp at hg
      · split at hg
        · simp only [Prod.mk.injEq, Option.some.injEq] at hg
          obtain ⟨rfl, _, rfl⟩ := hg
          simp [upd]
        · simp at hg
    obtain ⟨_, _, hheap⟩ := process_heap (w := { w with tm := tm' }) (e := e) (hp.body_acts e.tid) hfl
    have hfired := process_fired { w with tm := tm' } e (by rw [hp.body_acts e.tid]; rfl)
    have key : ∀ v : World, v.tm = (World.process { w with tm := tm' } e).1.tm →
        v.fired = (World.process { w with tm := tm' } e).1.fired → v.now = w.now → WInv v →
        Late c0 v ∧ NewFires c0 w.now w v ∧ c0 ≤ v.tm.counter := by
      intro v hvtm hvf hvnow hwv
      have hcv : c0 ≤ v.tm.counter := by
        -- the counter never decreases: the new firing record carries it
        have hmemf : (⟨e.tid, e.time, e.seq, w.now, tm'.counter⟩ : Fire) ∈ v.fired := by
          rw [hvf, hfired]; simp
        have := (hwv.sched.fired_ctr _ hmemf).2
        simp only at this; omega
      refine ⟨?_, ⟨[⟨e.tid, e.time, e.seq, w.now, tm'.counter⟩], by rw [hvf, hfired], ?_⟩, hcv⟩
      · intro x hx hcx
        rw [hvtm] at hx; rw [hvnow]
        have hrest : ∀ y ∈ tm'.heap, c0 ≤ y.seq → w.now < y.time := fun y hy hcy =>
          hl y (hperm.mem_iff.mpr (List.mem_cons_of_mem _ hy)) hcy
        rcases hheap with hh | ⟨_, t, c, ht, hh⟩
        · rw [hh] at hx; exact hrest x hx hcx
        · rw [hh] at hx
          rcases List.mem_cons.mp hx with rfl | hx'
          · exact ht
          · exact hrest x hx' hcx
      · intro f hf
        simp at hf; subst hf
        simp only
        exact ⟨hseq, by omega, trivial⟩
    split
    · rename_i hr
      simp only [hr, if_true] at hw' hnow
      exact key _ rfl rfl hnow hw'
    · rename_i hr
      simp only [hr] at hw' hnow
      exact key _ rfl rfl hnow hw'

theorem runOnceLoop_late (fuel : Nat) {c0 : Nat} {w : World} (h : WInv w) (hp : Passive w)
    (hl : Late c0 w) (hc : c0 ≤ w.tm.counter) : NewFires c0 w.now w (w.runOnceLoop fuel).1 := by
  induction fuel generalizing w with
  | zero => exact NewFires.refl _ _ _
  | succ n ih =>
    unfold World.runOnceLoop
    simp only
    obtain ⟨hl1, hn1, hc1⟩ := fireNext_late h hp hl hc
    obtain ⟨hnow, _⟩ := fireNext_spec h hp
    have hp1 := fireNext_good hp
    have hk := drain_keeps w.fireNext.1 hp1.2
    have hn2 : NewFires c0 w.now w w.fireNext.1.drain := hn1.trans (keeps_newFires hk)
    split
    · have hw := drain_winv (fireNext_winv h)
      have hl2 : Late c0 w.fireNext.1.drain := by
        intro x hx hcx; rw [hk.heap] at hx; rw [hk.now]; exact hl1 x hx hcx
      have := ih hw (drain_good hp1) hl2 (by rw [hk.counter]; exact hc1)
      rw [hk.now, hnow] at this
      exact hn2.trans this
    · exact hn2

/-- **fire_order, one pass** — the firings of a `run_once()` pass in any
    reachable state are strictly sorted by `(due, installation number)`, and all
    happen at the time of the pass (bodies that leave the scheduler alone; a
    body that installs a task in the past may of course make it fire after a
    later-due one) -/
theorem runOnce_pass_sorted {w : World} (h : WInv w) (hp : Passive w) (fuel : Nat) :
    ∃ new, (w.runOnce fuel).1.fired = w.fired ++ new ∧
      new.Pairwise (fun f g => keyLt f.due f.seq g.due g.seq) ∧ ∀ f ∈ new, f.now = w.now ∧ f.due ≤ w.now := by
  have hl : Late w.tm.counter w := by
    intro e he hce; have := h.sched.heap_seq_lt he; omega
  obtain ⟨new, hnew, hq⟩ := runOnceLoop_late fuel h hp hl (Nat.le_refl _)
  refine ⟨new, hnew, ?_, ?_⟩
  · have hord := (runOnceLoop_winv fuel h).sched.order
    rw [hnew] at hord
    have := (List.pairwise_append.mp hord).2.1
    refine List.Pairwise.imp_of_mem ?_ this
    intro f g hf hg hfg
    exact hfg (by have := hq f hf; have := hq g hg; omega)
  · intro f hf
    have hearly := (runOnceLoop_winv fuel h).sched.early f (by rw [hnew]; exact List.mem_append_right _ hf)
    have := (hq f hf).2.2
    exact ⟨this, by omega⟩

/-! ## histories that begin before the manager exists

  `Pre` / `Pre.step` / `Pre.mkManager`: tasks installed while `task._task_manager`
  is `None` are only listed; `TaskManager.__init__` replays the list.  The world
  that `mkManager` produces satisfies the invariant (`mkManager_winv`), so every
  theorem above that is read off the invariant holds for histories with a
  pre-manager phase too (`reachable_winv_pre`); `premgr_time` and `premgr_order`
  say what the replay amounts to: each one-shot task is armed at its LAST time,
  and among the listed tasks the one whose last install came later has the later
  installation number — a pre-manager re-install moves the task behind what was
  installed in the meantime, exactly like a re-install with a manager. -/

theorem api_same (w : World) (r : TM × Option Raised) : (w.api r).tm = r.1 ∧
    (w.api r).recurring = w.recurring := by
  unfold World.api
  simp only
  split <;> exact ⟨rfl, rfl⟩

/-- one replayed list entry keeps the invariant -/
theorem replay_winv {w : World} (tid : Nat) (h : WInv w) : WInv (w.replay tid) := by
  unfold World.replay
  split
  · exact api_winv _ (installRecurring_inv _ _ _ _ h.sched) h.once
  · exact api_winv _ (installTask_inv _ _ _ _ h.sched) h.once

theorem replayAll_winv {w : World} (l : List Nat) (h : WInv w) : WInv (l.foldl World.replay w) := by
  induction l generalizing w with
  | nil => exact h
  | cons x r ih => exact ih (replay_winv x h)

/-- what holds of a process that has no task manager yet -/
def PreOK (p : Pre) : Prop :=
  p.w.tm.heap = [] ∧ p.w.tm.counter = 0 ∧ p.w.tm.removed = [] ∧ (∀ t, p.w.tm.flag t = false) ∧
  p.w.fired = [] ∧ p.w.calls = [] ∧ p.w.subs = p.w.queue.map Fn.id

theorem fresh_preOK {w : World} (h : Fresh w) : PreOK { w := w } := by
  obtain ⟨h1, h2, h3, h4, h5, h6, h7, h8⟩ := h
  exact ⟨h1, h2, h3, h4, h5, h7, by simp [h6, h8]⟩

theorem preStep_ok {p : Pre} (op : PreOp) (h : PreOK p) : PreOK (p.step op) := by
  obtain ⟨h1, h2, h3, h4, h5, h6, h7⟩ := h
  cases op with
  | installAt tid t => exact ⟨h1, h2, h3, h4, h5, h6, h7⟩
  | installAfter tid d => exact ⟨h1, h2, h3, h4, h5, h6, h7⟩
  | installBare tid =>
    simp only [Pre.step]
    split <;> exact ⟨h1, h2, h3, h4, h5, h6, h7⟩
  | installRec tid iv off =>
    simp only [Pre.step]
    split
    · exact ⟨h1, h2, h3, h4, h5, h6, h7⟩
    · split <;> exact ⟨h1, h2, h3, h4, h5, h6, h7⟩
  | suspend tid => exact ⟨h1, h2, h3, h4, h5, h6, h7⟩
  | resume tid => exact ⟨h1, h2, h3, h4, h5, h6, h7⟩
  | defer f => exact ⟨h1, h2, h3, h4, h5, h6, by simp [Pre.step, h7]⟩
  | tick d => exact ⟨h1, h2, h3, h4, h5, h6, h7⟩

/-- a pre-manager history -/
def preRun (p : Pre) : List PreOp → Pre
  | [] => p
  | op :: ops => preRun (p.step op) ops

theorem preRun_ok {p : Pre} (ops : List PreOp) (h : PreOK p) : PreOK (preRun p ops) := by
  induction ops generalizing p with
  | nil => exact h
  | cons op r ih => exact ih (preStep_ok op h)

theorem preOK_winv {p : Pre} (h : PreOK p) :
    WInv ({ p.w with tm := { p.w.tm with trig := false } } : World) := by
  obtain ⟨h1, h2, h3, h4, h5, h6, h7⟩ := h
  refine ⟨?_, ?_⟩
  · simp only; rw [h5]; exact SInv.init _ h1 h2 h3 h4
  · unfold DPermR; simp [h6, h7]

/-- the world `TaskManager.__init__` leaves behind satisfies the invariant -/
theorem mkManager_winv {p : Pre} (h : PreOK p) : WInv p.mkManager :=
  replayAll_winv _ (preOK_winv h)

/-- the invariants — hence `fire_order`, `never_early`, `once_per_install`,
    `install_fate`, `removed_never_fires`, `one_entry_iff_flagged`,
    `deferred_once` — for every history that begins before the manager exists:
    any pre-manager operations, then `TaskManager()`, then any operations -/
theorem reachable_winv_pre {w : World} (hw : Fresh w) (pre : List PreOp) (ops : List Op) :
    WInv ((preRun ({ w := w } : Pre) pre).mkManager.run ops) :=
  run_winv ops (mkManager_winv (preRun_ok pre (fresh_preOK hw)))

/-- the replay of a one-shot task with a time: exactly one entry for it afterwards,
    at that time, with the newest installation number; every other task's entry
    stays; the counter advances by one; the task attributes do not change -/
theorem replay_oneShot {w : World} {tid t : Nat} (h : WInv w) (hr : w.recurring tid = false)
    (ht : w.tm.ttime tid = some t) :
    (w.replay tid).tm.heap.filter (fun e => decide (e.tid = tid)) = [⟨t, w.tm.counter, tid⟩] ∧
    (∀ e ∈ w.tm.heap, e.tid ≠ tid → e ∈ (w.replay tid).tm.heap) ∧
    (w.replay tid).tm.counter = w.tm.counter + 1 ∧ (w.replay tid).tm.ttime = w.tm.ttime ∧
    (w.replay tid).recurring = w.recurring := by
  unfold World.replay
  simp only [hr, Bool.false_eq_true, if_false]
  obtain ⟨htm, hrec⟩ := api_same w (w.tm.installTask w.now tid none none)
  rw [htm, hrec]
  unfold TM.installTask
  simp only [ht]
  have hupd : upd w.tm.ttime tid (some t) = w.tm.ttime := by
    funext x; unfold upd; split
    · rename_i hx; rw [hx, ht]
    · rfl
  have h0 : SInv { w.tm with ttime := upd w.tm.ttime tid (some t) } w.fired := h.sched.congr rfl rfl rfl rfl
  obtain ⟨_, hm1, hm2, hm3, _⟩ := install_moves h0 tid t (by simp [upd])
  refine ⟨hm1, ?_, hm3, ?_, by first | rfl | trivial⟩
  · intro e he hne
    have : e ∈ List.filter (fun e => decide (e.tid ≠ tid)) w.tm.heap := by simp [he, hne]
    have := (hm2.mem_iff.mpr this)
    exact (List.mem_filter.mp this).1
  · rw [install_ttime]; exact hupd

/-- the pre-manager lists the order theorem talks about: one-shot tasks, each
    with a time (which is what `install_task(when=…)` leaves) -/
def ListedOK (w : World) (l : List Nat) : Prop :=
  ∀ x ∈ l, w.recurring x = false ∧ ∃ t, w.tm.ttime x = some t

/-- replaying a list of one-shot tasks: entries of tasks not in the list stay;
    every listed task has an entry; every entry of a listed task is new (number ≥
    the counter before) and sits at the task's time; the counter only grows -/
theorem replayAll_spec {w : World} (l : List Nat) (h : WInv w) (hl : ListedOK w l) :
    w.tm.counter ≤ (l.foldl World.replay w).tm.counter ∧
    (l.foldl World.replay w).tm.ttime = w.tm.ttime ∧
    (l.foldl World.replay w).recurring = w.recurring ∧
    (∀ e ∈ w.tm.heap, e.tid ∉ l → e ∈ (l.foldl World.replay w).tm.heap) ∧
    (∀ x ∈ l, ∃ e ∈ (l.foldl World.replay w).tm.heap,
        e.tid = x ∧ w.tm.counter ≤ e.seq ∧ w.tm.ttime x = some e.time) := by
  induction l generalizing w with
  | nil => exact ⟨Nat.le_refl _, rfl, rfl, fun e he _ => he, fun x hx => absurd hx (by simp)⟩
  | cons x r ih =>
    obtain ⟨hrx, t, htx⟩ := hl x List.mem_cons_self
    obtain ⟨r1, r2, r4, r5, r6⟩ := replay_oneShot h hrx htx
    have hl' : ListedOK (w.replay x) r := by
      intro y hy; rw [r6, r5]; exact hl y (List.mem_cons_of_mem _ hy)
    obtain ⟨i1, i2, i3, i4, i5⟩ := ih (replay_winv x h) hl'
    simp only [List.foldl_cons]
    refine ⟨by omega, by rw [i2, r5], by rw [i3, r6], ?_, ?_⟩
    · intro e he hne
      simp only [List.mem_cons, not_or] at hne
      exact i4 e (r2 e he hne.1) hne.2
    · intro y hy
      by_cases hyr : y ∈ r
      · obtain ⟨e, he, j1, j2, j3⟩ := i5 y hyr
        rw [r5] at j3
        exact ⟨e, he, j1, by omega, j3⟩
      · have hyx : y = x := by
          rcases List.mem_cons.mp hy with h1 | h1
          · exact h1
          · exact absurd h1 hyr
        subst hyx
        have hm : (⟨t, w.tm.counter, y⟩ : Entry) ∈ List.filter (fun e => decide (e.tid = y)) (w.replay y).tm.heap := by
          rw [r1]; exact List.mem_singleton.mpr rfl
        exact ⟨_, i4 _ (List.mem_filter.mp hm).1 hyr, rfl, Nat.le_refl _, htx⟩

/-- two entries of one task in a heap that satisfies the invariant are the same entry -/
theorem entry_unique {w : World} (h : WInv w) {a b : Entry} (ha : a ∈ w.tm.heap) (hb : b ∈ w.tm.heap)
    (ht : a.tid = b.tid) : a = b := by
  have hn := h.sched.tid_nodup
  generalize w.tm.heap = l at *
  induction l with
  | nil => cases ha
  | cons x r ih =>
    simp only [List.map_cons] at hn
    obtain ⟨hx, hr⟩ := List.nodup_cons.mp hn
    rcases List.mem_cons.mp ha with rfl | ha' <;> rcases List.mem_cons.mp hb with rfl | hb'
    · rfl
    · exact absurd (List.mem_map.mpr ⟨b, hb', ht.symm⟩) hx
    · exact absurd (List.mem_map.mpr ⟨a, ha', ht⟩) hx
    · exact ih ha' hb' hr

/-- **premgr_time** — after `TaskManager.__init__` every listed one-shot task has
    an entry (exactly one, by the invariant), and it sits at the task's LAST time -/
theorem premgr_time {p : Pre} (h : PreOK p) (hl : ListedOK p.w p.unsched) :
    ∀ x ∈ p.unsched, ∃ e ∈ p.mkManager.tm.heap, e.tid = x ∧ p.w.tm.ttime x = some e.time := by
  obtain ⟨_, _, _, _, s5⟩ := replayAll_spec p.unsched (preOK_winv h) hl
  intro x hx
  obtain ⟨e, he, j1, _, j3⟩ := s5 x hx
  exact ⟨e, he, j1, j3⟩

/-- **premgr_order** — the order of the LAST installs is the order of the
    installation numbers: if the list is `l₁ ++ a :: l₂` with `a` not occurring
    again in `l₂`, every task of `l₂` ends up with a larger number than `a` — so
    among equal times `a` fires first (`fire_order`): a re-install before the
    manager exists moves the task behind everything installed in the meantime -/
theorem premgr_order {p : Pre} (h : PreOK p) (l₁ l₂ : List Nat) (a : Nat)
    (hu : p.unsched = l₁ ++ a :: l₂) (ha : a ∉ l₂) (hl : ListedOK p.w p.unsched) :
    ∀ ea ∈ p.mkManager.tm.heap, ∀ eb ∈ p.mkManager.tm.heap,
      ea.tid = a → eb.tid ∈ l₂ → ea.seq < eb.seq := by
  have hw0 := preOK_winv h
  have hfin : WInv p.mkManager := mkManager_winv h
  unfold Pre.mkManager at hfin ⊢
  rw [hu] at hl hfin ⊢
  rw [List.foldl_append, List.foldl_cons] at hfin ⊢
  have hl1 : ListedOK ({ p.w with tm := { p.w.tm with trig := false } } : World) l₁ :=
    fun x hx => hl x (List.mem_append_left _ hx)
  obtain ⟨_, t1, c1, _, _⟩ := replayAll_spec l₁ hw0 hl1
  have hw1 := replayAll_winv l₁ hw0
  generalize l₁.foldl World.replay ({ p.w with tm := { p.w.tm with trig := false } } : World) = v1 at *
  obtain ⟨hra, ta, hta⟩ := hl a (List.mem_append_right _ List.mem_cons_self)
  have hra1 : v1.recurring a = false := by rw [c1]; exact hra
  have hta1 : v1.tm.ttime a = some ta := by rw [t1]; exact hta
  obtain ⟨r1, _, r4, r5, r6⟩ := replay_oneShot hw1 hra1 hta1
  have hw2 := replay_winv a hw1
  have hl2 : ListedOK (v1.replay a) l₂ := by
    intro y hy; rw [r6, r5, c1, t1]
    exact hl y (List.mem_append_right _ (List.mem_cons_of_mem _ hy))
  obtain ⟨_, _, _, s4, s5⟩ := replayAll_spec l₂ hw2 hl2
  intro ea hea eb heb htid hb
  -- a's entry: the one its last replay made, untouched since
  have hm : (⟨ta, v1.tm.counter, a⟩ : Entry) ∈ List.filter (fun e => decide (e.tid = a)) (v1.replay a).tm.heap := by
    rw [r1]; exact List.mem_singleton.mpr rfl
  have hsurv := s4 _ (List.mem_filter.mp hm).1 ha
  have hea' : ea = ⟨ta, v1.tm.counter, a⟩ := entry_unique hfin hea hsurv htid
  -- b's entry: made by a replay after that
  obtain ⟨e, he, j1, j2, _⟩ := s5 eb.tid hb
  have heb' : eb = e := entry_unique hfin heb he j1.symm
  rw [hea', heb']
  simp only
  omega

end Parametric

/-! ## the nested pass of the real model satisfies `PumpOK` -/

/-- `pumpAt depth` — "a nested `run_once()` is `runOnceLoop` again, in which
    callbacks may pump `depth - 1` levels further" — preserves the schedule
    invariant and the exactly-once invariant at every depth: all the theorems
    above apply to the model the driver runs (`instance : Pump := ⟨pumpAt 4⟩`). -/
theorem pumpAt_ok : ∀ depth : Nat, @PumpOK ⟨pumpAt depth⟩
  | 0 => @PumpOK.mk ⟨pumpAt 0⟩ (fun _ _ h => h) (fun _ _ _ h => h)
  | d + 1 =>
    have ih := pumpAt_ok d
    @PumpOK.mk ⟨pumpAt (d + 1)⟩
      (fun fuel _ h => @runOnceLoop_sinv ⟨pumpAt d⟩ ih fuel _ h)
      (fun fuel _ _ h => @runOnceLoop_dperm ⟨pumpAt d⟩ ih fuel _ _ h)

/-- the invariants, for the model as the driver runs it: callbacks nest
    `run_once()` up to `depth` levels deep -/
theorem reachable_winv_real (depth : Nat) {w : World} (h : Fresh w) (ops : List Op) :
    WInv (@World.run ⟨pumpAt depth⟩ w ops) :=
  @reachable_winv ⟨pumpAt depth⟩ (pumpAt_ok depth) w h ops

/-! ## non-vacuity: concrete histories meeting the hypotheses, evaluated by the kernel

  These are tests of the model (labelled as such), not the theorems. -/

section Examples

/-- the instance the driver uses -/
local instance : Pump := ⟨pumpAt 4⟩
local instance : PumpOK := pumpAt_ok 4

/-- three one-shot tasks (task 1 raises and defers a raising function with a
    child), one recurring task (id 3) -/
def demoWorld : World :=
  { recurring := fun t => t == 3,
    body := fun t => if t == 1 then { raises := true, defers := [Fn.mk 7 true [Fn.mk 8 false [] []] []] } else {} }

example : Fresh demoWorld := by
  refine ⟨rfl, rfl, rfl, fun _ => rfl, rfl, rfl, rfl, rfl⟩

/-- `Passive`: the hypothesis of the completeness theorems holds for it -/
example : Passive demoWorld := by
  refine ⟨fun t => ?_, rfl⟩
  unfold demoWorld
  simp only
  split <;> decide

def demoOps : List Op :=
  [.installAt 0 500000, .installAfter 1 500000, .installAt 2 500000, .installRec 3 (some 300000) none,
   .installBare 0,                       -- re-install: task 0 now ties AFTER tasks 1 and 2
   .suspend 2, .defer (Fn.mk 1 true [] []), .defer (Fn.mk 2 false [] []),
   .advOnce 500000 10, .resume 2, .advRun 1000000 100]

example : ∀ op ∈ demoOps, goodOp noAct op = true := by decide

/-- the history fires the recurring task at 300000 (late, at 500000), then
    task 1 (raises), then task 0 (re-installed, so after task 1); task 2 was
    suspended; after the resume it fires (late); the recurring task then runs on
    its grid 600000, 900000, 1200000, 1500000 -/
example : (demoWorld.run demoOps).fired.map (fun f => (f.tid, f.due, f.now)) =
    [(3, 300000, 500000), (1, 500000, 500000), (0, 500000, 500000), (2, 500000, 500000),
     (3, 600000, 600000), (3, 900000, 900000), (3, 1200000, 1200000), (3, 1500000, 1500000)] := by
  decide +kernel

/-- deferred: 1 (raises), 2, then 7 (raises, submitted by the raising task 1), then its child 8 -/
example : (demoWorld.run demoOps).calls = [1, 2, 7, 8] ∧ (demoWorld.run demoOps).subs = [1, 2, 7, 8] ∧
    (demoWorld.run demoOps).failed = [1, 7] ∧ (demoWorld.run demoOps).tm.removed = [0, 2] := by
  decide +kernel

/-- the hypotheses of `advOnce_complete` / `advRun_complete` are met: enough
    fuel; the loop reaches the stub's `stop()` -/
example : (demoWorld.run (demoOps.take 8)).tm.heap.length < 10 ∧
    ((demoWorld.run (demoOps.take 10)).step (.advRun 1000000 100)).2 = some 1 := by
  decide +kernel

/-- `suspended_silent`: the hypothesis "nobody arms task 2" holds for a non-trivial tail -/
example : ∀ op ∈ [Op.advOnce 500000 10, Op.installAt 0 7, Op.advRun 1000000 100],
    arms 2 op = false ∧ goodOp (calm 2) op = true := by
  decide

/-- a RE-ENTRANT world: task 0 re-arms itself 0.5 s later from inside its own
    process_task and then raises (retry timer); task 1's body moves task 0, a
    function it defers suspends task 2 and stops the loop.  Nobody installs
    task 2 — `GoodW (calm 2)` — so `suspended_silent` applies to task 2. -/
def reWorld : World :=
  { body := fun t =>
      if t == 0 then { raises := true, acts := [.installAfter 0 500000] }
      else if t == 1 then { acts := [.installAt 0 2000000],
                            defers := [Fn.mk 5 false [Fn.mk 6 false [] []] [.suspend 2, .stop]] }
      else {} }

example : Fresh reWorld ∧ GoodW (calm 2) reWorld := by
  refine ⟨⟨rfl, rfl, rfl, fun _ => rfl, rfl, rfl, rfl, rfl⟩, fun t => ?_, rfl⟩
  unfold reWorld
  simp only
  split
  · decide
  · split <;> decide

def reOps : List Op :=
  [.installAt 0 500000, .installAt 1 500000, .installAt 2 1000000,
   .advRun 500000 100,        -- 0 fires, re-arms for 1000000, raises; 1 fires, moves 0 to 2000000;
                              -- fn 5 suspends 2 and stops the loop; its child 6 is still called
   .installAt 0 1500000,      -- move the re-armed task once more
   .advRun 1600000 100]

/-- task 0 fires at 500000 and — moved twice while pending — exactly once more,
    at 1500000, where it re-arms for 2000000 and fires again; task 2 never fires;
    the run stopped from inside returns code 2, and nothing deferred is lost -/
example : (reWorld.run reOps).fired.map (fun f => (f.tid, f.due, f.now)) =
      [(0, 500000, 500000), (1, 500000, 500000), (0, 1500000, 1500000), (0, 2000000, 2000000)] ∧
    ((reWorld.run (reOps.take 3)).step (.advRun 500000 100)).2 = some 2 ∧
    (reWorld.run reOps).calls = [5, 6] ∧ (reWorld.run reOps).subs = [5, 6] ∧
    (reWorld.run reOps).tm.heap.map (·.tid) = [0] := by
  decide +kernel

/-- a callback PUMPS the loop: batch [1, 2, 3]; function 1 defers child 11;
    function 2 calls `run_once()` itself and then defers 12; function 3 defers 13.
    The nested pass runs 11 (deferred since the batch was detached) — and 11's
    own child 21 — before 3; nothing is called twice, nothing is lost; the
    order is no longer submission order (`subs`), but as multisets calls = subs
    (`deferred_once`).  Depth 2: 11 pumps again inside the nested pass. -/
def pumpOps : List Op :=
  [.defer (Fn.mk 1 false [Fn.mk 11 false [Fn.mk 21 false [] []] [.pump 10]] []),
   .defer (Fn.mk 2 true [Fn.mk 12 false [] []] [.pump 10]),
   .defer (Fn.mk 3 false [Fn.mk 13 false [] []] []),
   .advOnce 0 10]

example : (({} : World).run pumpOps).calls = [1, 2, 11, 21, 3, 12, 13] ∧
    (({} : World).run pumpOps).subs = [1, 2, 3, 11, 21, 12, 13] ∧
    (({} : World).run pumpOps).queue.length = 0 ∧ (({} : World).run pumpOps).failed = [2] := by
  decide +kernel

/-- BEFORE the manager exists: install task 0 at 500000, task 1 at 500000,
    re-install task 0 at 500000; task 3 is installed twice and then suspended;
    then `TaskManager()` and a pass.  The list is [1, 0]: the re-install moved
    task 0 behind task 1 — task 1 fires first (`premgr_order`); task 3 does not
    fire.  A suspend of the never installed task 2 is a silent no-op;
    `install_task(delta=…)` is refused. -/
def preOps : List PreOp :=
  [.installAt 0 500000, .installAt 3 500000, .installAt 1 500000, .suspend 2, .installAfter 2 5,
   .installAt 3 500000, .installAt 0 500000, .suspend 3]

example : (preRun {} preOps).unsched = [1, 0] ∧
    (((preRun {} preOps).mkManager.step (.advOnce 500000 10)).1.fired.map (fun f => (f.tid, f.seq))) = [(1, 0), (0, 1)] ∧
    (preRun {} preOps).w.out.length = 1 ∧
    ListedOK (preRun {} preOps).w (preRun {} preOps).unsched := by
  refine ⟨by decide +kernel, by decide +kernel, by decide +kernel, ?_⟩
  intro x hx
  have : x = 0 ∨ x = 1 := by
    have h : (preRun {} preOps).unsched = [1, 0] := by decide +kernel
    rw [h] at hx; simp at hx; omega
  rcases this with rfl | rfl
  · exact ⟨rfl, 500000, by decide +kernel⟩
  · exact ⟨rfl, 500000, by decide +kernel⟩

/-- `recurring_grid` with 1/3 s in ticks of 1/3 µs (interval 10⁶, jitter 3, offset 10⁵),
    installed at 123456 µs: firings number 0, 1, 2 -/
example : (fireTime (3 * 123456) 3 1000000 100000 0, fireTime (3 * 123456) 3 1000000 100000 1,
    fireTime (3 * 123456) 3 1000000 100000 2) = (1100000, 2100000, 3100000) := by
  decide +kernel

/-- the slot exactly one jitter ahead is skipped by the code's formula (the
    boundary the harness keeps away from) -/
example : slotAfter (999999 + 1) 1000000 0 = 2000000 := by decide +kernel

/-- `deferred_isolated` on a forest with raising members at both levels -/
example : ({ queue := [Fn.mk 1 true [Fn.mk 3 true [] []] [], Fn.mk 2 false [Fn.mk 4 false [] []] []] } : World).drain.calls
    = [1, 2, 3, 4] := by decide +kernel

/-- refinement: the abstraction of a heap with colliding times -/
example : absOf [⟨5, 2, 0⟩, ⟨5, 0, 1⟩, ⟨3, 1, 2⟩] = [⟨3, 1, 2⟩, ⟨5, 0, 1⟩, ⟨5, 2, 0⟩] := by decide +kernel

end Examples
end BacVerif.C14
