/- C14 — placeholder while the harness is brought up; replaced by the theorems -/
import BacVerif.Model.Task
namespace BacVerif.C14
open BacVerif.Task

theorem never_early_step (tm : TM) (now : Nat) (e : Entry) (d : Option Nat) (tm' : TM)
    (h : tm.getNext now = (some e, d, tm')) : e.time ≤ now := by
  unfold TM.getNext at h
  split at h
  · simp at h
  · split at h
    · simp at h; obtain ⟨rfl, _⟩ := h; assumption
    · simp at h

end BacVerif.C14
