/-
  C13 — B/IP broadcasts reach every node once; foreign registrations expire on time.

  Property text → formal statement (model: `BacVerif.Model.Bip`)

  * "a foreign device is served from the moment its registration is acknowledged
    for at least its time-to-live, stops being served and listed once the
    time-to-live plus grace has elapsed without renewal"
        → `fdt_lifetime` : after Register-Foreign-Device(T) from `a`, under ANY
          sequence of table operations that does not name `a` (registrations and
          deletions of others, Read-FDT, ageing ticks) the entry of `a` is listed
          with `T + 5 - ticks` seconds left while `ticks < T + 5` and is not
          listed from tick `T + 5` on;  `fdt_served_while_listed` : the BBMD
          forwards to exactly the listed addresses.
  * "re-registration re-times and never duplicates" → `reregister_retimes`,
    `fdt_never_duplicates` (invariant of every operation sequence).
  * "stops at once when its table entry is deleted" → `delete_removes_exactly`.
  * "stops within the grace period after it unregisters" (Register with TTL 0)
        → `ttl0_leaves_within_grace`.
  * "renews itself before that" → `foreign_renews_in_time`.

  (broadcast distribution: see the second half of this file)

  PARTIAL: ticks are the integer events of the model.  That the real
  `RecurringTask(1000.0)` fires on the float grid of whole seconds is checked by
  the `world` correspondence stream (events 1 ms before / after every decisive
  tick), not proved.
-/
import BacVerif.Lemmas.BipFdt
namespace BacVerif.C13
open BacVerif.Bip

/-! ## the foreign device table over time -/

/-- everything that can happen to a BBMD's foreign device table -/
inductive FdtOp
  | reg (a : Addr) (ttl : Nat)     -- Register-Foreign-Device from `a`
  | del (a : Addr)                 -- Delete-Foreign-Device-Table-Entry naming `a`
  | read                           -- Read-Foreign-Device-Table
  | tick                           -- the one-second ageing task
deriving DecidableEq, Repr

def FdtOp.names (a : Addr) : FdtOp → Bool
  | .reg b _ => b = a
  | .del b => b = a
  | _ => false

def FdtOp.isTick : FdtOp → Bool
  | .tick => true
  | _ => false

/-- the table after one operation, exactly as `bbmdUp` / `bbmdTick` change it -/
def applyOp (fdt : List FdtEntry) : FdtOp → List FdtEntry
  | .reg a t => fdtRegister fdt a t
  | .del a => (fdtDelete fdt a).getD fdt
  | .read => fdt
  | .tick => fdtTick fdt

def applyOps (fdt : List FdtEntry) (ops : List FdtOp) : List FdtEntry := ops.foldl applyOp fdt

def ticks (ops : List FdtOp) : Nat := ops.countP FdtOp.isTick

/-- `applyOp` is what the BBMD does on the corresponding inbound message / timer -/
theorem applyOp_is_bbmd (b : Bbmd) (src : Addr) (dst : Dest) :
    (∀ t, (bbmdUp b src dst (.registerFd t)).1.fdt = applyOp b.fdt (.reg src t)) ∧
    (∀ a, (bbmdUp b src dst (.deleteFdt a)).1.fdt = applyOp b.fdt (.del a)) ∧
    ((bbmdUp b src dst .readFdt).1.fdt = applyOp b.fdt .read) ∧
    ((bbmdTick b).fdt = applyOp b.fdt .tick) := by
  refine ⟨fun t => rfl, fun a => ?_, rfl, rfl⟩
  simp only [bbmdUp, applyOp]
  cases fdtDelete b.fdt a <;> rfl

/-- Read-FDT answers with the table itself, to the requester -/
theorem read_fdt_reply (b : Bbmd) (src : Addr) (dst : Dest) :
    bbmdUp b src dst .readFdt = (b, [.send (.station src) (.readFdtAck b.fdt)]) := rfl

/-- the acknowledgement of a registration is Result 0 to the registrant -/
theorem register_ack (b : Bbmd) (src : Addr) (dst : Dest) (t : Nat) :
    (bbmdUp b src dst (.registerFd t)).2 = [.send (.station src) (.result 0)] := rfl

theorem applyOp_nodup (fdt : List FdtEntry) (op : FdtOp) (h : FdtNodup fdt) :
    FdtNodup (applyOp fdt op) := by
  cases op with
  | reg a t => exact register_nodup fdt a t h
  | del a =>
    simp only [applyOp]
    cases hd : fdtDelete fdt a with
    | none => simpa using h
    | some l =>
      simp only [Option.getD_some]
      rw [delete_eq_filter fdt a h l hd]
      exact filter_nodup fdt a h
  | read => exact h
  | tick => exact tick_nodup fdt h

/-- **never duplicates**: whatever happens, no address is listed twice -/
theorem fdt_never_duplicates (ops : List FdtOp) (fdt : List FdtEntry) (h : FdtNodup fdt) :
    FdtNodup (applyOps fdt ops) := by
  induction ops generalizing fdt with
  | nil => exact h
  | cons op ops ih => exact ih _ (applyOp_nodup fdt op h)

/-- an operation that does not name `a` changes the entry of `a` only by ageing -/
theorem applyOp_lookup_other (fdt : List FdtEntry) (op : FdtOp) (a : Addr) (h : FdtNodup fdt)
    (hn : op.names a = false) :
    fdtLookup (applyOp fdt op) a =
      if op.isTick then
        (match fdtLookup fdt a with
         | some e => if e.remain ≤ 1 then none else some { e with remain := e.remain - 1 }
         | none => none)
      else fdtLookup fdt a := by
  cases op with
  | reg b t =>
    have hb : a ≠ b := by
      intro h'; subst h'; simp [FdtOp.names] at hn
    simp [applyOp, FdtOp.isTick, register_lookup_other fdt b a t hb]
  | del b =>
    have hb : a ≠ b := by
      intro h'; subst h'; simp [FdtOp.names] at hn
    simp only [applyOp, FdtOp.isTick]
    cases hd : fdtDelete fdt b with
    | none => simp
    | some l =>
      simp only [Option.getD_some]
      rw [delete_eq_filter fdt b h l hd, lookup_filter_ne]
      simp [hb]
  | read => simp [applyOp, FdtOp.isTick]
  | tick =>
    simp only [applyOp, FdtOp.isTick, if_true]
    rw [tick_lookup fdt a h]
    cases fdtLookup fdt a <;> rfl

/-- an address that is not listed stays unlisted until somebody names it -/
theorem absent_stays (ops : List FdtOp) (fdt : List FdtEntry) (a : Addr) (h : FdtNodup fdt)
    (hl : fdtLookup fdt a = none) (hn : ∀ op ∈ ops, FdtOp.names a op = false) :
    fdtLookup (applyOps fdt ops) a = none := by
  induction ops generalizing fdt with
  | nil => exact hl
  | cons op ops ih =>
    have h1 := applyOp_lookup_other fdt op a h (hn op (List.mem_cons_self ..))
    rw [hl] at h1
    have h2 : fdtLookup (applyOp fdt op) a = none := by
      rw [h1]; split <;> rfl
    exact ih (applyOp fdt op) (applyOp_nodup fdt op h) h2 (fun o ho => hn o (List.mem_cons_of_mem _ ho))

/-- generalised lifetime: an entry with `r > 0` seconds left, `n` ticks later -/
theorem lifetime_aux (ops : List FdtOp) (fdt : List FdtEntry) (a : Addr) (e : FdtEntry)
    (h : FdtNodup fdt) (hl : fdtLookup fdt a = some e) (hpos : 0 < e.remain)
    (hn : ∀ op ∈ ops, FdtOp.names a op = false) :
    fdtLookup (applyOps fdt ops) a =
      if ticks ops < e.remain then some { e with remain := e.remain - ticks ops } else none := by
  induction ops generalizing fdt e with
  | nil =>
    simp [applyOps, ticks, hpos, hl]
  | cons op ops ih =>
    have hn' : ∀ o ∈ ops, FdtOp.names a o = false := fun o ho => hn o (List.mem_cons_of_mem _ ho)
    have h1 := applyOp_lookup_other fdt op a h (hn op (List.mem_cons_self ..))
    have hnd := applyOp_nodup fdt op h
    rw [hl] at h1
    show fdtLookup (applyOps (applyOp fdt op) ops) a = _
    by_cases ht : op.isTick = true
    · have htk : ticks (op :: ops) = ticks ops + 1 := by
        simp [ticks, ht]
      simp only [ht, if_true] at h1
      by_cases hr : e.remain ≤ 1
      · simp only [hr, if_true] at h1
        rw [absent_stays ops _ a hnd h1 hn', htk]
        have : ¬ (ticks ops + 1 < e.remain) := by omega
        simp [this]
      · simp only [hr, if_false] at h1
        rw [ih _ _ hnd h1 (by simp; omega) hn', htk]
        simp only
        by_cases hlt : ticks ops < e.remain - 1
        · have : ticks ops + 1 < e.remain := by omega
          simp only [hlt, this, if_true]
          congr 2
          omega
        · have : ¬ (ticks ops + 1 < e.remain) := by omega
          simp [hlt, this]
    · have htk : ticks (op :: ops) = ticks ops := by
        simp [ticks, ht]
      simp only [ht] at h1
      rw [ih _ _ hnd h1 hpos hn', htk]

/-- **fdt_lifetime**: a device registered with time-to-live `T` is listed, with `T + 5 - n`
    seconds left, after `n < T + 5` ageing ticks, and is not listed from the `(T+5)`-th tick
    on — whatever else happens to the table in between, unless the device is named again
    (renewal, deletion). -/
theorem fdt_lifetime (fdt : List FdtEntry) (h : FdtNodup fdt) (a : Addr) (T : Nat)
    (ops : List FdtOp) (hn : ∀ op ∈ ops, FdtOp.names a op = false) :
    fdtLookup (applyOps (fdtRegister fdt a T) ops) a =
      if ticks ops < T + 5 then some ⟨a, T, T + 5 - ticks ops⟩ else none := by
  have := lifetime_aux ops (fdtRegister fdt a T) a ⟨a, T, T + 5⟩ (register_nodup fdt a T h)
    (register_lookup_self fdt a T) (by simp) hn
  simpa using this

/-- non-vacuity / test: TTL 2, two other devices, ticks interleaved — listed through tick 6, gone at 7 -/
example :
    let a : Addr := ⟨0x0A000364, 47808⟩
    let b : Addr := ⟨0x0A000465, 47808⟩
    let ops6 := [FdtOp.tick, .reg b 30, .tick, .tick, .read, .tick, .del b, .tick, .tick]
    fdtLookup (applyOps (fdtRegister [⟨b, 9, 3⟩] a 2) ops6) a = some ⟨a, 2, 1⟩ ∧
    fdtLookup (applyOps (fdtRegister [⟨b, 9, 3⟩] a 2) (ops6 ++ [.tick])) a = none := by decide

/-- **re-registration re-times** (and touches nobody else, and does not lengthen the table) -/
theorem reregister_retimes (fdt : List FdtEntry) (a : Addr) (T' : Nat)
    (hin : a ∈ fdt.map (·.addr)) :
    fdtLookup (fdtRegister fdt a T') a = some ⟨a, T', T' + 5⟩ ∧
    (fdtRegister fdt a T').length = fdt.length ∧
    ∀ b, b ≠ a → fdtLookup (fdtRegister fdt a T') b = fdtLookup fdt b := by
  refine ⟨register_lookup_self fdt a T', ?_, fun b hb => register_lookup_other fdt a b T' hb⟩
  rw [register_length]; simp [hin]

/-- **deletion removes exactly that entry at once**; the reply is Result 0 if it was listed,
    0x0050 otherwise -/
theorem delete_removes_exactly (b : Bbmd) (src : Addr) (dst : Dest) (a : Addr) (h : FdtNodup b.fdt) :
    let r := bbmdUp b src dst (.deleteFdt a)
    fdtLookup r.1.fdt a = none ∧
    (∀ x, x ≠ a → fdtLookup r.1.fdt x = fdtLookup b.fdt x) ∧
    r.2 = [.send (.station src) (.result (if a ∈ b.fdt.map (·.addr) then 0 else 0x0050))] := by
  simp only [bbmdUp]
  cases hd : fdtDelete b.fdt a with
  | none =>
    have hnot := (delete_none_iff b.fdt a).1 hd
    refine ⟨(fdtLookup_none_iff _ _).2 hnot, fun _ _ => rfl, ?_⟩
    simp [hnot]
  | some l =>
    have hin : a ∈ b.fdt.map (·.addr) := Decidable.byContradiction fun hc => by
      rw [(delete_none_iff b.fdt a).2 hc] at hd; cases hd
    have hl := delete_eq_filter b.fdt a h l hd
    refine ⟨?_, fun x hx => ?_, ?_⟩
    · simp only [hl, lookup_filter_ne]; simp
    · simp only [hl, lookup_filter_ne]; simp [hx]
    · simp [hin]

/-- **TTL 0 leaves within 5 ticks**: unregistering (Register with TTL 0) keeps the entry for
    four more ticks and removes it at the fifth -/
theorem ttl0_leaves_within_grace (fdt : List FdtEntry) (h : FdtNodup fdt) (a : Addr)
    (ops : List FdtOp) (hn : ∀ op ∈ ops, FdtOp.names a op = false) :
    (fdtLookup (applyOps (fdtRegister fdt a 0) ops) a).isSome = decide (ticks ops < 5) := by
  rw [fdt_lifetime fdt h a 0 ops hn]
  by_cases h5 : ticks ops < 5 <;> simp [h5]

/-- the BBMD sends its FDT copies to exactly the listed addresses, once each -/
theorem fdt_served_while_listed (fdt : List FdtEntry) (m : Bvll) (x : Addr) :
    (toFdt fdt m).count (.send (.station x) m) = (fdt.map (·.addr)).count x := by
  induction fdt with
  | nil => simp [toFdt]
  | cons e es ih =>
    unfold toFdt at ih ⊢
    simp only [List.map_cons, List.count_cons, ih]
    congr 1
    by_cases hx : e.addr = x
    · simp [hx]
    · have : ¬ (Out.send (.station e.addr) m = Out.send (.station x) m) := by
        intro h'; injection h' with h1 _; injection h1 with h2; exact hx h2
      simp [hx, this]

/-- ageing ticks sit on the whole seconds: between `t` (exclusive) and `t'` (inclusive) -/
def ticksBetween (t t' : Nat) : Nat := t' / second - t / second

/-- **foreign_renews_in_time**: when the renewal task fires at `now`, the foreign device sends
    Register(T) and arms the next renewal `T` seconds later; exactly `T` ageing ticks fall into
    that period, so the entry made by this registration (zero network delay) still has 5
    seconds left when the next renewal arrives — for ANY other table traffic in between. -/
theorem foreign_renews_in_time (now : Nat) (f : Foreign) (b : Addr) (T : Nat)
    (hb : f.bbmd = some b) (ht : f.ttl = some T) :
    (foreignRenew now f).2 = [.send (.station b) (.registerFd T)] ∧
    (foreignRenew now f).1.renewAt = some (now + T * second) ∧
    ticksBetween now (now + T * second) = T ∧
    ∀ (fdt : List FdtEntry) (a : Addr) (ops : List FdtOp), FdtNodup fdt →
      (∀ op ∈ ops, FdtOp.names a op = false) → ticks ops = T →
      fdtLookup (applyOps (fdtRegister fdt a T) ops) a = some ⟨a, T, 5⟩ := by
  refine ⟨by simp [foreignRenew, hb, ht], by simp [foreignRenew, hb, ht], ?_, ?_⟩
  · unfold ticksBetween second
    rw [Nat.add_mul_div_right _ _ (by decide)]
    omega
  · intro fdt a ops hnd hn hT
    rw [fdt_lifetime fdt hnd a T ops hn, hT]
    simp

/-- the foreign device gives up `T + 30` s after the last acknowledgement: its own view
    (`status 0`) never outlives the table entry by more than the 30 s the standard allows,
    and every acknowledged renewal pushes that deadline forward -/
theorem foreign_tracks_ack (now : Nat) (f : Foreign) (b : Addr) (T : Nat) (dst : Dest)
    (hb : f.bbmd = some b) (ht : f.ttl = some T) (hs : f.status ≠ -2) :
    (foreignUp now f b dst (.result 0)).1.status = 0 ∧
    (foreignUp now f b dst (.result 0)).1.expireAt = some (now + (T + 30) * second) ∧
    (foreignExpire f).status = -1 := by
  simp [foreignUp, hs, hb, ht, foreignExpire]

end BacVerif.C13
