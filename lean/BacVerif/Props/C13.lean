/-
  C13 — B/IP broadcasts reach every node once; foreign registrations expire on time.

  Property text → formal statement (model: `BacVerif.Model.Bip`)

  * "a foreign device is served from the moment its registration is acknowledged
    for at least its time-to-live, stops being served and listed once the
    time-to-live plus grace has elapsed without renewal"
        → `fdt_lifetime` : after Register-Foreign-Device(T) from `a`, under ANY
          sequence of table operations that does not name `a` (registrations and
          deletions of others, Read-FDT, ageing ticks) the entry of `a` is listed
          with `T + 5 - ticks` seconds left while `ticks < T + 5` and is not
          listed from tick `T + 5` on;  `fdt_served_while_listed` : the BBMD
          forwards to exactly the listed addresses.
  * "re-registration re-times and never duplicates" → `reregister_retimes`,
    `fdt_never_duplicates` (invariant of every operation sequence).
  * "stops at once when its table entry is deleted" → `delete_removes_exactly`.
  * "stops within the grace period after it unregisters" (Register with TTL 0)
        → `ttl0_leaves_within_grace`.
  * "renews itself before that" → `foreign_renews_in_time`.

  * "renews itself before that" / served for its whole life
        → `live_registration_never_dropped`, `periodic_renewal_never_dropped` : under ANY timeline
          in which every (re-)registration with TTL t is followed by at most t+4 ticks before the
          next (periodic renewal every T s gives exactly T), the entry is listed after EVERY prefix.
  * "a broadcast originated by any node (ordinary, BBMD or foreign) is handed to the network
    layer of every other node exactly once and never back to its originator, with the true
    originator as source address"
        → `bbmd_once` : for ANY number of subnets, ordinary nodes, foreign devices, in ANY
          order, one BBMD per subnet, every BBMD listing every BBMD (`Mesh`), each BDT entry
          either TWO-HOP (unicast to the peer, which re-broadcasts) or ONE-HOP (directed broadcast
          that the target subnet's router port accepts; the receiving BBMD does not re-broadcast
          what arrived as a broadcast) — mixed freely per pair (`Pop`) — and no foreign device on
          a subnet its own BBMD broadcasts into (`NoEcho`): `World.broadcast` from an ordinary
          node, a BBMD or a registered foreign device runs to quiescence within the fuel, changes
          no state, hands up nothing but the payload with the originator as source and
          "broadcast" as destination, exactly once at every other served node and never at the
          originator (`Outcome`).
        → `bbmd_multiplicity` : the same WITHOUT `NoEcho`: copies at x = [x ≠ o] + `echoes`
          (closed sums over the BDTs: a foreign device also hears its own BBMD's local
          re-broadcast / one-hop directed broadcast when it sits where that goes).
        → `foreign_on_own_subnet_multiplicity` : the excluded misconfiguration counted (two-hop
          mesh, foreign device on its own BBMD's subnet): own broadcast comes back once, any other
          foreign device's broadcast arrives twice, an ordinary node's / BBMD's broadcast twice
          unless it starts on the device's own subnet (once).
        → `partial_bdt_characterisation_ordinary / _bbmd / _foreign` : for an ARBITRARY BDT
          relation (entries naming BBMDs, two-hop or one-hop) the number of copies at any node is
          the closed form {same subnet} + {subnets listed by the first BBMD: their BBMD, their
          ordinary nodes, its registered foreign devices} + {the first BBMD's own foreign devices}
          + {extra copies at misplaced foreign devices}.
        → `unregistered_foreign_hears_nothing` : while a foreign device's status is not 0
          nothing is handed up at it, whatever flies.

  PARTIAL: ticks are the integer events of the model.  That the real
  `RecurringTask(1000.0)` fires on the float grid of whole seconds is checked by
  the `world` correspondence stream (events 1 ms before / after every decisive
  tick), not proved.
-/
import BacVerif.Lemmas.BipFdt
import BacVerif.Lemmas.BipOnce
import BacVerif.Lemmas.BipShape
namespace BacVerif.C13
open BacVerif.Bip

/-! ## the foreign device table over time -/

/-- everything that can happen to a BBMD's foreign device table -/
inductive FdtOp
  | reg (a : Addr) (ttl : Nat)     -- Register-Foreign-Device from `a`
  | del (a : Addr)                 -- Delete-Foreign-Device-Table-Entry naming `a`
  | read                           -- Read-Foreign-Device-Table
  | tick                           -- the one-second ageing task
deriving DecidableEq, Repr

def FdtOp.names (a : Addr) : FdtOp → Bool
  | .reg b _ => b = a
  | .del b => b = a
  | _ => false

def FdtOp.isTick : FdtOp → Bool
  | .tick => true
  | _ => false

/-- the table after one operation, exactly as `bbmdUp` / `bbmdTick` change it -/
def applyOp (fdt : List FdtEntry) : FdtOp → List FdtEntry
  | .reg a t => fdtRegister fdt a t
  | .del a => (fdtDelete fdt a).getD fdt
  | .read => fdt
  | .tick => fdtTick fdt

def applyOps (fdt : List FdtEntry) (ops : List FdtOp) : List FdtEntry := ops.foldl applyOp fdt

def ticks (ops : List FdtOp) : Nat := ops.countP FdtOp.isTick

/-- `applyOp` is what the BBMD does on the corresponding inbound message / timer -/
theorem applyOp_is_bbmd (b : Bbmd) (src : Addr) (dst : Dest) :
    (∀ t, (bbmdUp b src dst (.registerFd t)).1.fdt = applyOp b.fdt (.reg src t)) ∧
    (∀ a, (bbmdUp b src dst (.deleteFdt a)).1.fdt = applyOp b.fdt (.del a)) ∧
    ((bbmdUp b src dst .readFdt).1.fdt = applyOp b.fdt .read) ∧
    ((bbmdTick b).fdt = applyOp b.fdt .tick) := by
  refine ⟨fun t => rfl, fun a => ?_, rfl, rfl⟩
  simp only [bbmdUp, applyOp]
  cases fdtDelete b.fdt a <;> rfl

/-- Read-FDT answers with the table itself, to the requester -/
theorem read_fdt_reply (b : Bbmd) (src : Addr) (dst : Dest) :
    bbmdUp b src dst .readFdt = (b, [.send (.station src) (.readFdtAck b.fdt)]) := rfl

/-- the acknowledgement of a registration is Result 0 to the registrant -/
theorem register_ack (b : Bbmd) (src : Addr) (dst : Dest) (t : Nat) :
    (bbmdUp b src dst (.registerFd t)).2 = [.send (.station src) (.result 0)] := rfl

theorem applyOp_nodup (fdt : List FdtEntry) (op : FdtOp) (h : FdtNodup fdt) :
    FdtNodup (applyOp fdt op) := by
  cases op with
  | reg a t => exact register_nodup fdt a t h
  | del a =>
    simp only [applyOp]
    cases hd : fdtDelete fdt a with
    | none => simpa using h
    | some l =>
      simp only [Option.getD_some]
      rw [delete_eq_filter fdt a h l hd]
      exact filter_nodup fdt a h
  | read => exact h
  | tick => exact tick_nodup fdt h

/-- **never duplicates**: whatever happens, no address is listed twice -/
theorem fdt_never_duplicates (ops : List FdtOp) (fdt : List FdtEntry) (h : FdtNodup fdt) :
    FdtNodup (applyOps fdt ops) := by
  induction ops generalizing fdt with
  | nil => exact h
  | cons op ops ih => exact ih _ (applyOp_nodup fdt op h)

/-- an operation that does not name `a` changes the entry of `a` only by ageing -/
theorem applyOp_lookup_other (fdt : List FdtEntry) (op : FdtOp) (a : Addr) (h : FdtNodup fdt)
    (hn : op.names a = false) :
    fdtLookup (applyOp fdt op) a =
      if op.isTick then
        (match fdtLookup fdt a with
         | some e => if e.remain ≤ 1 then none else some { e with remain := e.remain - 1 }
         | none => none)
      else fdtLookup fdt a := by
  cases op with
  | reg b t =>
    have hb : a ≠ b := by
      intro h'; subst h'; simp [FdtOp.names] at hn
    simp [applyOp, FdtOp.isTick, register_lookup_other fdt b a t hb]
  | del b =>
    have hb : a ≠ b := by
      intro h'; subst h'; simp [FdtOp.names] at hn
    simp only [applyOp, FdtOp.isTick]
    cases hd : fdtDelete fdt b with
    | none => simp
    | some l =>
      simp only [Option.getD_some]
      rw [delete_eq_filter fdt b h l hd, lookup_filter_ne]
      simp [hb]
  | read => simp [applyOp, FdtOp.isTick]
  | tick =>
    simp only [applyOp, FdtOp.isTick, if_true]
    rw [tick_lookup fdt a h]
    cases fdtLookup fdt a <;> rfl

/-- an address that is not listed stays unlisted until somebody names it -/
theorem absent_stays (ops : List FdtOp) (fdt : List FdtEntry) (a : Addr) (h : FdtNodup fdt)
    (hl : fdtLookup fdt a = none) (hn : ∀ op ∈ ops, FdtOp.names a op = false) :
    fdtLookup (applyOps fdt ops) a = none := by
  induction ops generalizing fdt with
  | nil => exact hl
  | cons op ops ih =>
    have h1 := applyOp_lookup_other fdt op a h (hn op (List.mem_cons_self ..))
    rw [hl] at h1
    have h2 : fdtLookup (applyOp fdt op) a = none := by
      rw [h1]; split <;> rfl
    exact ih (applyOp fdt op) (applyOp_nodup fdt op h) h2 (fun o ho => hn o (List.mem_cons_of_mem _ ho))

/-- generalised lifetime: an entry with `r > 0` seconds left, `n` ticks later -/
theorem lifetime_aux (ops : List FdtOp) (fdt : List FdtEntry) (a : Addr) (e : FdtEntry)
    (h : FdtNodup fdt) (hl : fdtLookup fdt a = some e) (hpos : 0 < e.remain)
    (hn : ∀ op ∈ ops, FdtOp.names a op = false) :
    fdtLookup (applyOps fdt ops) a =
      if ticks ops < e.remain then some { e with remain := e.remain - ticks ops } else none := by
  induction ops generalizing fdt e with
  | nil =>
    simp [applyOps, ticks, hpos, hl]
  | cons op ops ih =>
    have hn' : ∀ o ∈ ops, FdtOp.names a o = false := fun o ho => hn o (List.mem_cons_of_mem _ ho)
    have h1 := applyOp_lookup_other fdt op a h (hn op (List.mem_cons_self ..))
    have hnd := applyOp_nodup fdt op h
    rw [hl] at h1
    show fdtLookup (applyOps (applyOp fdt op) ops) a = _
    by_cases ht : op.isTick = true
    · have htk : ticks (op :: ops) = ticks ops + 1 := by
        simp [ticks, ht]
      simp only [ht, if_true] at h1
      by_cases hr : e.remain ≤ 1
      · simp only [hr, if_true] at h1
        rw [absent_stays ops _ a hnd h1 hn', htk]
        have : ¬ (ticks ops + 1 < e.remain) := by omega
        simp [this]
      · simp only [hr, if_false] at h1
        rw [ih _ _ hnd h1 (by simp; omega) hn', htk]
        simp only
        by_cases hlt : ticks ops < e.remain - 1
        · have : ticks ops + 1 < e.remain := by omega
          simp only [hlt, this, if_true]
          congr 2
          omega
        · have : ¬ (ticks ops + 1 < e.remain) := by omega
          simp [hlt, this]
    · have htk : ticks (op :: ops) = ticks ops := by
        simp [ticks, ht]
      simp only [ht] at h1
      rw [ih _ _ hnd h1 hpos hn', htk]

/-- **fdt_lifetime**: a device registered with time-to-live `T` is listed, with `T + 5 - n`
    seconds left, after `n < T + 5` ageing ticks, and is not listed from the `(T+5)`-th tick
    on — whatever else happens to the table in between, unless the device is named again
    (renewal, deletion). -/
theorem fdt_lifetime (fdt : List FdtEntry) (h : FdtNodup fdt) (a : Addr) (T : Nat)
    (ops : List FdtOp) (hn : ∀ op ∈ ops, FdtOp.names a op = false) :
    fdtLookup (applyOps (fdtRegister fdt a T) ops) a =
      if ticks ops < T + 5 then some ⟨a, T, T + 5 - ticks ops⟩ else none := by
  have := lifetime_aux ops (fdtRegister fdt a T) a ⟨a, T, T + 5⟩ (register_nodup fdt a T h)
    (register_lookup_self fdt a T) (by simp) hn
  simpa using this

/-- non-vacuity / test: TTL 2, two other devices, ticks interleaved — listed through tick 6, gone at 7 -/
example :
    let a : Addr := ⟨0x0A000364, 47808⟩
    let b : Addr := ⟨0x0A000465, 47808⟩
    let ops6 := [FdtOp.tick, .reg b 30, .tick, .tick, .read, .tick, .del b, .tick, .tick]
    fdtLookup (applyOps (fdtRegister [⟨b, 9, 3⟩] a 2) ops6) a = some ⟨a, 2, 1⟩ ∧
    fdtLookup (applyOps (fdtRegister [⟨b, 9, 3⟩] a 2) (ops6 ++ [.tick])) a = none := by decide

/-- **re-registration re-times** (and touches nobody else, and does not lengthen the table) -/
theorem reregister_retimes (fdt : List FdtEntry) (a : Addr) (T' : Nat)
    (hin : a ∈ fdt.map (·.addr)) :
    fdtLookup (fdtRegister fdt a T') a = some ⟨a, T', T' + 5⟩ ∧
    (fdtRegister fdt a T').length = fdt.length ∧
    ∀ b, b ≠ a → fdtLookup (fdtRegister fdt a T') b = fdtLookup fdt b := by
  refine ⟨register_lookup_self fdt a T', ?_, fun b hb => register_lookup_other fdt a b T' hb⟩
  rw [register_length]; simp [hin]

/-- **deletion removes exactly that entry at once**; the reply is Result 0 if it was listed,
    0x0050 otherwise -/
theorem delete_removes_exactly (b : Bbmd) (src : Addr) (dst : Dest) (a : Addr) (h : FdtNodup b.fdt) :
    let r := bbmdUp b src dst (.deleteFdt a)
    fdtLookup r.1.fdt a = none ∧
    (∀ x, x ≠ a → fdtLookup r.1.fdt x = fdtLookup b.fdt x) ∧
    r.2 = [.send (.station src) (.result (if a ∈ b.fdt.map (·.addr) then 0 else 0x0050))] := by
  simp only [bbmdUp]
  cases hd : fdtDelete b.fdt a with
  | none =>
    have hnot := (delete_none_iff b.fdt a).1 hd
    refine ⟨(fdtLookup_none_iff _ _).2 hnot, fun _ _ => rfl, ?_⟩
    simp [hnot]
  | some l =>
    have hin : a ∈ b.fdt.map (·.addr) := Decidable.byContradiction fun hc => by
      rw [(delete_none_iff b.fdt a).2 hc] at hd; cases hd
    have hl := delete_eq_filter b.fdt a h l hd
    refine ⟨?_, fun x hx => ?_, ?_⟩
    · simp only [hl, lookup_filter_ne]; simp
    · simp only [hl, lookup_filter_ne]; simp [hx]
    · simp [hin]

/-- **TTL 0 leaves within 5 ticks**: unregistering (Register with TTL 0) keeps the entry for
    four more ticks and removes it at the fifth -/
theorem ttl0_leaves_within_grace (fdt : List FdtEntry) (h : FdtNodup fdt) (a : Addr)
    (ops : List FdtOp) (hn : ∀ op ∈ ops, FdtOp.names a op = false) :
    (fdtLookup (applyOps (fdtRegister fdt a 0) ops) a).isSome = decide (ticks ops < 5) := by
  rw [fdt_lifetime fdt h a 0 ops hn]
  by_cases h5 : ticks ops < 5 <;> simp [h5]

/-- the BBMD sends its FDT copies to exactly the listed addresses, once each -/
theorem fdt_served_while_listed (fdt : List FdtEntry) (m : Bvll) (x : Addr) :
    (toFdt fdt m).count (.send (.station x) m) = (fdt.map (·.addr)).count x := by
  induction fdt with
  | nil => simp [toFdt]
  | cons e es ih =>
    unfold toFdt at ih ⊢
    simp only [List.map_cons, List.count_cons, ih]
    congr 1
    by_cases hx : e.addr = x
    · simp [hx]
    · have : ¬ (Out.send (.station e.addr) m = Out.send (.station x) m) := by
        intro h'; injection h' with h1 _; injection h1 with h2; exact hx h2
      simp [hx, this]

/-- ageing ticks sit on the whole seconds: between `t` (exclusive) and `t'` (inclusive) -/
def ticksBetween (t t' : Nat) : Nat := t' / second - t / second

/-- **foreign_renews_in_time**: when the renewal task fires at `now`, the foreign device sends
    Register(T) and arms the next renewal `T` seconds later; exactly `T` ageing ticks fall into
    that period, so the entry made by this registration (zero network delay) still has 5
    seconds left when the next renewal arrives — for ANY other table traffic in between. -/
theorem foreign_renews_in_time (now : Nat) (f : Foreign) (b : Addr) (T : Nat)
    (hb : f.bbmd = some b) (ht : f.ttl = some T) :
    (foreignRenew now f).2 = [.send (.station b) (.registerFd T)] ∧
    (foreignRenew now f).1.renewAt = some (now + T * second) ∧
    ticksBetween now (now + T * second) = T ∧
    ∀ (fdt : List FdtEntry) (a : Addr) (ops : List FdtOp), FdtNodup fdt →
      (∀ op ∈ ops, FdtOp.names a op = false) → ticks ops = T →
      fdtLookup (applyOps (fdtRegister fdt a T) ops) a = some ⟨a, T, 5⟩ := by
  refine ⟨by simp [foreignRenew, hb, ht], by simp [foreignRenew, hb, ht], ?_, ?_⟩
  · unfold ticksBetween second
    rw [Nat.add_mul_div_right _ _ (by decide)]
    omega
  · intro fdt a ops hnd hn hT
    rw [fdt_lifetime fdt hnd a T ops hn, hT]
    simp

/-- the foreign device gives up `T + 30` s after the last acknowledgement: its own view
    (`status 0`) never outlives the table entry by more than the 30 s the standard allows,
    and every acknowledged renewal pushes that deadline forward -/
theorem foreign_tracks_ack (now : Nat) (f : Foreign) (b : Addr) (T : Nat) (dst : Dest)
    (hb : f.bbmd = some b) (ht : f.ttl = some T) (hs : f.status ≠ -2) :
    (foreignUp now f b dst (.result 0)).1.status = 0 ∧
    (foreignUp now f b dst (.result 0)).1.expireAt = some (now + (T + 30) * second) ∧
    (foreignExpire f).status = -1 := by
  simp [foreignUp, hs, hb, ht, foreignExpire]


/-! ### a live registration is never dropped -/

/-- the timeline keeps the entry of `a` alive, given that it can still survive `r` ticks:
    nobody deletes it, and every (re-)registration with TTL `t` is followed by at most `t + 4`
    ticks before the next one -/
def Sustained (a : Addr) : Nat → List FdtOp → Prop
  | _, [] => True
  | r, .tick :: ops => 1 ≤ r ∧ Sustained a (r - 1) ops
  | r, .reg b t :: ops => if b = a then Sustained a (t + 4) ops else Sustained a r ops
  | r, .del b :: ops => b ≠ a ∧ Sustained a r ops
  | r, .read :: ops => Sustained a r ops

instance (a : Addr) : ∀ (r : Nat) (ops : List FdtOp), Decidable (Sustained a r ops)
  | _, [] => isTrue trivial
  | r, .tick :: ops =>
      have := instDecidableSustained a (r - 1) ops
      by unfold Sustained; exact inferInstance
  | r, .reg b t :: ops =>
      have := instDecidableSustained a (t + 4) ops
      have := instDecidableSustained a r ops
      by unfold Sustained; exact inferInstance
  | r, .del b :: ops =>
      have := instDecidableSustained a r ops
      by unfold Sustained; exact inferInstance
  | r, .read :: ops =>
      have := instDecidableSustained a r ops
      by unfold Sustained; exact inferInstance

theorem sustained_prefix (a : Addr) : ∀ (r : Nat) (p q : List FdtOp),
    Sustained a r (p ++ q) → Sustained a r p := by
  intro r p
  induction p generalizing r with
  | nil => intro _ _; trivial
  | cons op p ih =>
    intro q h
    cases op with
    | tick => exact ⟨h.1, ih _ q h.2⟩
    | reg b t =>
      simp only [List.cons_append, Sustained] at h ⊢
      split
      · next hb => simp only [hb, if_true] at h; exact ih _ q h
      · next hb => simp only [hb, if_false] at h; exact ih _ q h
    | del b => exact ⟨h.1, ih _ q h.2⟩
    | read => exact ih _ q h

theorem sustained_listed (a : Addr) : ∀ (ops : List FdtOp) (fdt : List FdtEntry) (r : Nat) (e : FdtEntry),
    FdtNodup fdt → fdtLookup fdt a = some e → e.remain = r + 1 → Sustained a r ops →
    (fdtLookup (applyOps fdt ops) a).isSome = true := by
  intro ops
  induction ops with
  | nil => intro fdt r e _ hl _ _; simp [applyOps, hl]
  | cons op ops ih =>
    intro fdt r e hnd hl hr hs
    have hnd' := applyOp_nodup fdt op hnd
    show (fdtLookup (applyOps (applyOp fdt op) ops) a).isSome = true
    cases op with
    | tick =>
      have h1 := applyOp_lookup_other fdt .tick a hnd rfl
      rw [hl] at h1
      have hne : ¬ e.remain ≤ 1 := by have := hs.1; omega
      simp only [FdtOp.isTick, if_true, hne, if_false] at h1
      exact ih _ (r - 1) _ hnd' h1 (by simp; have := hs.1; omega) hs.2
    | reg b t =>
      simp only [Sustained] at hs
      by_cases hb : b = a
      · subst hb
        simp only [if_true] at hs
        exact ih _ (t + 4) _ hnd' (register_lookup_self fdt b t) rfl hs
      · simp only [hb, if_false] at hs
        have h1 := applyOp_lookup_other fdt (.reg b t) a hnd (by simp [FdtOp.names, hb])
        simp only [FdtOp.isTick] at h1
        exact ih _ r e hnd' (by rw [h1]; simpa using hl) hr hs
    | del b =>
      have h1 := applyOp_lookup_other fdt (.del b) a hnd (by simp [FdtOp.names, hs.1])
      simp only [FdtOp.isTick] at h1
      exact ih _ r e hnd' (by rw [h1]; simpa using hl) hr hs.2
    | read =>
      exact ih _ r e hnd' hl hr hs

/-- **live_registration_never_dropped**: once `a` has registered with TTL `T`, under ANY timeline
    in which nobody deletes its entry and each of its (re-)registrations with TTL `t` is followed by
    at most `t + 4` ageing ticks before the next one — in particular under periodic renewal every
    `T` seconds, which puts exactly `T < T + 5` ticks between renewals (`foreign_renews_in_time`) —
    the entry is listed after EVERY prefix of the timeline, whatever else happens to the table -/
theorem live_registration_never_dropped (fdt : List FdtEntry) (hnd : FdtNodup fdt) (a : Addr) (T : Nat)
    (ops : List FdtOp) (hs : Sustained a (T + 4) ops) :
    ∀ p q, ops = p ++ q → (fdtLookup (applyOps (fdtRegister fdt a T) p) a).isSome = true := by
  intro p q hpq
  subst hpq
  exact sustained_listed a p _ (T + 4) _ (register_nodup fdt a T hnd) (register_lookup_self fdt a T) rfl
    (sustained_prefix a _ p q hs)

/-- periodic renewal: blocks of foreign traffic with at most `T + 4` ticks each (the renewal period
    gives exactly `T`), each closed by the next Register-Foreign-Device(T) of `a` -/
def renewals (a : Addr) (T : Nat) (blocks : List (List FdtOp)) : List FdtOp :=
  blocks.flatMap fun blk => blk ++ [.reg a T]

theorem sustained_block (a : Addr) (T : Nat) (rest : List FdtOp) (hrest : Sustained a (T + 4) rest) :
    ∀ (blk : List FdtOp) (r : Nat), (∀ op ∈ blk, FdtOp.names a op = false) → ticks blk ≤ r →
      Sustained a r (blk ++ .reg a T :: rest) := by
  intro blk
  induction blk with
  | nil =>
    intro r _ _
    simp only [List.nil_append, Sustained, if_true]
    exact hrest
  | cons op blk ih =>
    intro r hn ht
    have hn' : ∀ o ∈ blk, FdtOp.names a o = false := fun o ho => hn o (List.mem_cons_of_mem _ ho)
    have hop := hn op (List.mem_cons_self ..)
    cases op with
    | tick =>
      have ht' : ticks blk + 1 ≤ r := by
        simp only [ticks, List.countP_cons, FdtOp.isTick, if_true] at ht ⊢; exact ht
      exact ⟨by omega, ih (r - 1) hn' (by omega)⟩
    | reg b t =>
      have hb : b ≠ a := by intro h; simp [FdtOp.names, h] at hop
      have ht' : ticks blk ≤ r := by
        simp only [ticks, List.countP_cons, FdtOp.isTick] at ht ⊢; simpa using ht
      simp only [List.cons_append, Sustained, hb, if_false]
      exact ih r hn' ht'
    | del b =>
      have hb : b ≠ a := by intro h; simp [FdtOp.names, h] at hop
      have ht' : ticks blk ≤ r := by
        simp only [ticks, List.countP_cons, FdtOp.isTick] at ht ⊢; simpa using ht
      exact ⟨hb, ih r hn' ht'⟩
    | read =>
      have ht' : ticks blk ≤ r := by
        simp only [ticks, List.countP_cons, FdtOp.isTick] at ht ⊢; simpa using ht
      exact ih r hn' ht'

/-- periodic renewal is a sustained timeline: `T ≤ T + 4` -/
theorem renewals_sustained (a : Addr) (T : Nat) (blocks : List (List FdtOp))
    (hb : ∀ blk ∈ blocks, (∀ op ∈ blk, FdtOp.names a op = false) ∧ ticks blk ≤ T + 4) :
    Sustained a (T + 4) (renewals a T blocks) := by
  induction blocks with
  | nil => trivial
  | cons blk blocks ih =>
    have ih' := ih (fun b hb' => hb b (List.mem_cons_of_mem _ hb'))
    obtain ⟨hn, ht⟩ := hb blk (List.mem_cons_self ..)
    unfold renewals at ih' ⊢
    rw [List.flatMap_cons, List.append_assoc]
    exact sustained_block a T _ ih' blk (T + 4) hn ht

/-- a foreign device that renews every `T` seconds (exactly `T` ticks per period) is listed at
    every instant, for ever, whatever the other devices do -/
theorem periodic_renewal_never_dropped (fdt : List FdtEntry) (hnd : FdtNodup fdt) (a : Addr) (T : Nat)
    (blocks : List (List FdtOp))
    (hb : ∀ blk ∈ blocks, (∀ op ∈ blk, FdtOp.names a op = false) ∧ ticks blk = T) :
    ∀ p q, renewals a T blocks = p ++ q →
      (fdtLookup (applyOps (fdtRegister fdt a T) p) a).isSome = true :=
  live_registration_never_dropped fdt hnd a T _
    (renewals_sustained a T blocks (fun blk h => ⟨(hb blk h).1, by have := (hb blk h).2; omega⟩))

/-- non-vacuity / test: TTL 2, three renewal periods of 2 ticks with foreign traffic in between -/
example :
    let a : Addr := ⟨0x0A000364, 47808⟩
    let b : Addr := ⟨0x0A000465, 47808⟩
    Sustained a 6 (renewals a 2 [[.tick, .reg b 9, .tick], [.tick, .read, .tick], [.del b, .tick, .tick]]) := by
  decide

/-! ## broadcast distribution -/

/-- the broadcast of `data` by the node with address `o` ran to completion within the fuel,
    changed no state anywhere, handed up nothing but `data` with source `o` and a broadcast
    destination, and handed it up exactly `k` times at the node with address `x` -/
def Outcome (w : World) (o : Addr) (data : Data) (x : Addr) (k : Nat) : Prop :=
  (w.broadcast o data).1.nets = w.nets ∧
  (w.broadcast o data).2.2 = true ∧
  (∀ ob ∈ (w.broadcast o data).2.1, ∃ a, ob = Obs.up a o .bcast data) ∧
  (w.broadcast o data).2.1.countP (atNode x) = k

theorem broadcast_unfold {w : World} (hw : WF w) {no : Net} (hno : no ∈ w.nets) {o : Node}
    (ho : o ∈ no.nodes) (data : Data)
    (hgood : ∀ d ∈ outDgrams no o.addr (o.st.down .bcast data), Good w d) :
    w.broadcast o.addr data =
      (w, outObs o.addr (o.st.down .bcast data)
            ++ runObs fuel w (outDgrams no o.addr (o.st.down .bcast data)),
       quietS fuel w (outDgrams no o.addr (o.st.down .bcast data))) := by
  unfold World.broadcast World.act
  rw [actNets_at hw (fun k => (k, k.down .bcast data)) (fun _ => rfl) hno ho]
  simp only
  have : ({ w with nets := w.nets } : World) = w := rfl
  rw [this, run_static fuel w _ hgood]

/-- from the weighted totals to the outcome -/
theorem outcome_of_tot {w : World} (hw : WF w) {no : Net} (hno : no ∈ w.nets) {o : Node}
    (ho : o ∈ no.nodes) (data : Data) (x : Addr)
    (hobs0 : outObs o.addr (o.st.down .bcast data) = [])
    (hgood : ∀ d ∈ outDgrams no o.addr (o.st.down .bcast data), Good w d ∧ Carries o.addr data d)
    (k : Nat → Nat)
    (htot : ∀ pd c, tot (poAt x c) pd fuel w (outDgrams no o.addr (o.st.down .bcast data)) = k c)
    (hk0 : k 0 = 0) : Outcome w o.addr data x (k 1) := by
  unfold Outcome
  rw [broadcast_unfold hw hno ho data (fun d hd => (hgood d hd).1), hobs0, List.nil_append]
  refine ⟨rfl, ?_, runObs_shape w o.addr data fuel _ hgood, ?_⟩
  · rw [quietS_iff_tot]
    have h0 : (fun _ : Obs => 0) = poAt x 0 := by funext ob; simp [poAt]
    rw [h0, htot, hk0]
  · rw [countP_eq_tot]
    exact htot _ 1

section dist
variable {w : World} (hw : WF w) (hp : Pop w)
variable {no : Net} (hno : no ∈ w.nets) {nx : Net} (hnx : nx ∈ w.nets) {x : Node} (hx : x ∈ nx.nodes)
include hw hp hno hnx hx

/-- **partial_bdt_characterisation**, ordinary originator: {same subnet} + {what the subnet's
    BBMD forwards: listed subnets (two-hop or one-hop entries) and its FDT} + {extra copies at
    misplaced foreign devices} — for an arbitrary BDT relation -/
theorem partial_bdt_characterisation_ordinary {oa : Addr} (ho : (⟨oa, .simple⟩ : Node) ∈ no.nodes)
    (data : Data) :
    Outcome w oa data x.addr
      (sameSubnet nx x 1 no oa + firstBbmds w nx x 1 no oa + firstExtras w nx x 1 no oa) := by
  refine outcome_of_tot hw hno ho data x.addr rfl ?_
    (fun c => sameSubnet nx x c no oa + firstBbmds w nx x c no oa + firstExtras w nx x c no oa) ?_ ?_
  · intro d hd
    simp only [Kind.down, simpleDown, outDgrams, List.mem_singleton] at hd
    subst hd
    exact ⟨Or.inl rfl, Or.inr (Or.inl ⟨rfl, rfl⟩)⟩
  · intro pd c
    simp only [Kind.down, simpleDown, outDgrams]
    exact tot_orig_bcast hw hp pd c hnx hx hno oa data 11
  · simp [sameSubnet_zero, firstBbmds_zero, firstExtras_zero]

/-- **partial_bdt_characterisation**, BBMD originator -/
theorem partial_bdt_characterisation_bbmd {oa : Addr} {b : Bbmd}
    (ho : (⟨oa, .bbmd b⟩ : Node) ∈ no.nodes) (data : Data) :
    Outcome w oa data x.addr
      (sameSubnet nx x 1 no oa + firstBbmds w nx x 1 no oa + firstExtras w nx x 1 no oa
        + (fwdFrom w nx x 1 b + fwdExtra w nx x 1 b)) := by
  obtain ⟨hca, _⟩ := bbmdOk_of hw hp hnx hx hno ho
  refine outcome_of_tot hw hno ho data x.addr ?_ ?_
    (fun c => sameSubnet nx x c no oa + firstBbmds w nx x c no oa + firstExtras w nx x c no oa
      + (fwdFrom w nx x c b + fwdExtra w nx x c b)) ?_ ?_
  · simp [Kind.down, bbmdDown, outObs, outObs_append, outObs_toPeers, outObs_toFdt]
  · intro d hd
    simp only [Kind.down, bbmdDown, outDgrams, List.mem_cons] at hd
    rcases hd with rfl | hd
    · exact ⟨Or.inl rfl, Or.inr (Or.inl ⟨rfl, rfl⟩)⟩
    · have hc : OutsCarry oa data (toPeers b (.forwarded b.addr data) ++ toFdt b.fdt (.forwarded b.addr data)) := by
        rw [hca]
        exact outsCarry_append (outsCarry_toPeers oa data b) (outsCarry_toFdt oa data _)
      have := outDgrams_carry oa data no oa _ hc d hd
      exact ⟨Or.inl (by rw [this]; rfl), Or.inl this⟩
  · intro pd c
    exact tot_bbmd_origin hw hp pd c hnx hx hno ho data 11
  · simp [sameSubnet_zero, firstBbmds_zero, fwdFrom_zero, firstExtras_zero, fwdExtra_zero]

/-- **partial_bdt_characterisation**, foreign originator registered (status 0) with the BBMD
    `cb` of subnet `nc`: that BBMD, its subnet if it lists itself, the subnets it lists, its other
    foreign devices, and the extra copies at misplaced foreign devices -/
theorem partial_bdt_characterisation_foreign {oa : Addr} {fs : Foreign}
    (ho : (⟨oa, .foreign fs⟩ : Node) ∈ no.nodes)
    {nc : Net} (hnc : nc ∈ w.nets) {ca : Addr} {cb : Bbmd} (hC : (⟨ca, .bbmd cb⟩ : Node) ∈ nc.nodes)
    (hreg : fs.status = 0 ∧ fs.bbmd = some ca) (data : Data) :
    Outcome w oa data x.addr (distFrom w nx x 1 nc cb oa + distExtra w nx x 1 nc cb) := by
  have hdown : (Kind.foreign fs).down .bcast data = [.send (.station ca) (.distribute data)] := by
    simp [Kind.down, foreignDown, hreg.1, hreg.2, optDest]
  refine outcome_of_tot hw hno ho data x.addr ?_ ?_
    (fun c => distFrom w nx x c nc cb oa + distExtra w nx x c nc cb) ?_ ?_
  · simp only [hdown]; rfl
  · intro d hd
    simp only [hdown, outDgrams, List.mem_singleton] at hd
    subst hd
    refine ⟨Or.inr ⟨rfl, ?_, ?_⟩, Or.inr (Or.inr ⟨rfl, rfl⟩)⟩
    · intro n hn
      exact hw.2.2.1 n hn nc hnc _ hC
    · intro n hn nd hnd hnda
      have : nd = ⟨ca, .bbmd cb⟩ := hw.node_eq hn hnc hnd hC hnda
      subst this; rfl
  · intro pd c
    simp only [hdown, outDgrams]
    exact tot_foreign_origin hw hp pd c hnx hx hno ho hnc hC data 10
  · simp [distFrom_zero, distExtra_zero]

end dist

/-! ### the full mesh -/

section once
variable {w : World} (hw : WF w) (hp : Pop w) (hm : Mesh w)
variable {nx : Net} (hnx : nx ∈ w.nets) {x : Node} (hx : x ∈ nx.nodes) {h : Addr} (hh : Home w nx x h)
include hw hp hm hnx hx hh

theorem same_plus_fwd {no : Net} (hno : no ∈ w.nets) {o : Node} (ho : o ∈ no.nodes)
    (hof : o.isForeign = false) {ba : Addr} {b : Bbmd} (hB : (⟨ba, .bbmd b⟩ : Node) ∈ no.nodes) :
    sameSubnet nx x 1 no o.addr + fwdFrom w nx x 1 b = if x.addr = o.addr then 0 else 1 := by
  rw [fwdFrom_home hw hp hm hnx hx hh hno hB]
  unfold sameSubnet
  rcases kind_trichotomy x with k | k | k
  · -- ordinary target
    have hiff := same_net_iff_home hw hp hm hnx hx hh k.2.2 hno hB
    by_cases he : ba = h
    · have hid := hiff.2 he
      by_cases hxo : x.addr = o.addr <;> simp [hid, he, k.2.2, hxo]
    · have hid : ¬ nx.id = no.id := fun hc => he (hiff.1 hc)
      have hxo : x.addr ≠ o.addr := fun hc => hid (congrArg Net.id (hw.node_net hnx hno hx ho hc))
      have : h ≠ ba := fun hc => he hc.symm
      simp [hid, he, this, hxo, k.2.2]
  · have hiff := same_net_iff_home hw hp hm hnx hx hh k.2.2 hno hB
    by_cases he : ba = h
    · have hid := hiff.2 he
      by_cases hxo : x.addr = o.addr <;> simp [hid, he, k.2.2, hxo]
    · have hid : ¬ nx.id = no.id := fun hc => he (hiff.1 hc)
      have hxo : x.addr ≠ o.addr := fun hc => hid (congrArg Net.id (hw.node_net hnx hno hx ho hc))
      have : h ≠ ba := fun hc => he hc.symm
      simp [hid, he, this, hxo, k.2.2]
  · -- foreign target: never the (non-foreign) originator
    have hxo : x.addr ≠ o.addr := by
      intro hc
      have : x = o := hw.node_eq hnx hno hx ho hc
      subst this; simp [k.2.2] at hof
    by_cases he : ba = h
    · simp [k.2.2, he, hxo]
    · have : h ≠ ba := fun hc => he hc.symm
      simp [k.2.2, he, this, hxo]

/-- a foreign device's broadcast through its BBMD `C0`: once everywhere else -/
theorem distFrom_home {no : Net} (hno : no ∈ w.nets) {o : Node} (ho : o ∈ no.nodes)
    {nc : Net} (hnc : nc ∈ w.nets) {c0 : Addr} {cb : Bbmd} (hC : (⟨c0, .bbmd cb⟩ : Node) ∈ nc.nodes)
    (hacc : o.accepts c0 = true) :
    distFrom w nx x 1 nc cb o.addr = if x.addr = o.addr then 0 else 1 := by
  obtain ⟨hca, _, hbn, _, _, _⟩ := bbmdOk_of hw hp hnx hx hnc hC
  have hof : o.isForeign = true := accepts_foreign hacc
  unfold distFrom
  rw [hca, hit_home hw hp hm hnx hx hh hnc hC]
  -- the BDT loop
  have h1 : (cb.bdt.map fun e => if e.addr = c0 then viaLocal nc cb nx x 1 else peerVal w nx x 1 e) =
      cb.bdt.map fun e => if e.addr = c0 then (if c0 = h ∧ x.isSimple = true then 1 else 0)
        else (if e.addr = h then 1 else 0) := by
    apply List.map_congr_left
    intro e he
    by_cases hs : e.addr = c0
    · simp only [hs, if_true]; exact local_home hw hp hm hnx hx hh hnc hC
    · simp only [hs, if_false]; exact peerVal_home hw hp hm hnx hx hh hnc hC e he
  rw [h1]
  -- the FDT loop without the originator
  have hmem : x.addr ∈ (cb.fdt.filter fun e => e.addr ≠ o.addr).map (·.addr) ↔
      x.addr ∈ cb.fdt.map (·.addr) ∧ x.addr ≠ o.addr := by
    simp only [List.mem_map, List.mem_filter]
    constructor
    · rintro ⟨e, ⟨he, hne⟩, hea⟩
      exact ⟨⟨e, he, hea⟩, by simpa [hea] using hne⟩
    · rintro ⟨⟨e, he, hea⟩, hne⟩
      exact ⟨e, ⟨he, by simpa [hea] using hne⟩, hea⟩
  have h3 := fdt_home hw hp hm hnx hx hh hnc hC
  rw [hca] at h3
  have hself : c0 ∈ cb.bdt.map (·.addr) := by
    have := hm nc hnc _ hC nc hnc _ hC rfl
    simpa [Lists] using this
  have hlist := home_listed hw hp hm hnx hx hh hnc hC
  by_cases he : c0 = h
  · subst he
    have h2 : (cb.bdt.map fun e => if e.addr = c0 then (if c0 = c0 ∧ x.isSimple = true then 1 else 0)
        else (if e.addr = c0 then 1 else 0)) =
        cb.bdt.map fun e => if e.addr = c0 then (if x.isSimple = true then 1 else 0) else 0 := by
      apply List.map_congr_left
      intro e _
      by_cases hs : e.addr = c0 <;> simp [hs]
    rw [h2, sum_key_indicator (fun e : BdtEntry => e.addr) c0 _ cb.bdt hbn, if_pos hself]
    rcases kind_trichotomy x with k | k | k
    · have hxo : x.addr ≠ o.addr := by
        intro hc
        have : x = o := hw.node_eq hnx hno hx ho hc
        subst this; simp [k.2.2] at hof
      have : ¬ x.accepts c0 = true := fun hc => by have := accepts_foreign hc; simp [k.2.2] at this
      simp [k.1, k.2.1, hxo, this]
    · have hxo : x.addr ≠ o.addr := by
        intro hc
        have : x = o := hw.node_eq hnx hno hx ho hc
        subst this; simp [k.2.2] at hof
      have : ¬ x.accepts c0 = true := fun hc => by have := accepts_foreign hc; simp [k.2.2] at this
      simp [k.1, k.2.1, hxo, this]
    · have hx3 : (x.addr ∈ cb.fdt.map (·.addr) ∧ x.accepts c0 = true) := by
        by_cases hc : x.addr ∈ cb.fdt.map (·.addr) ∧ x.accepts c0 = true
        · exact hc
        · rw [if_neg hc, if_pos ⟨rfl, k.2.2⟩] at h3
          exact absurd h3 (by decide)
      have e3 : (if x.addr ∈ (cb.fdt.filter fun e => e.addr ≠ o.addr).map (·.addr) ∧ x.accepts c0 = true
            then 1 else 0) = if x.addr = o.addr then 0 else 1 := by
        by_cases hxo : x.addr = o.addr
        · rw [if_neg (fun hc => (hmem.1 hc.1).2 hxo), if_pos hxo]
        · rw [if_pos ⟨hmem.2 ⟨hx3.1, hxo⟩, hx3.2⟩, if_neg hxo]
      rw [e3]
      simp [k.1, k.2.1]
  · -- served by another BBMD: exactly the entry of the home BBMD contributes
    have h2 : (cb.bdt.map fun e => if e.addr = c0 then (if c0 = h ∧ x.isSimple = true then 1 else 0)
        else (if e.addr = h then 1 else 0)) =
        cb.bdt.map fun e => if e.addr = h then 1 else 0 := by
      apply List.map_congr_left
      intro e _
      by_cases hs : e.addr = c0
      · have : ¬ e.addr = h := fun hc => he (hs.symm.trans hc)
        simp [hs, he]
      · simp [hs]
    rw [h2, sum_key_indicator (fun e : BdtEntry => e.addr) h _ cb.bdt hbn, if_pos hlist]
    have hxo : x.addr ≠ o.addr := by
      intro hc
      have : x = o := hw.node_eq hnx hno hx ho hc
      subst this
      exact he (accepts_inj hacc (home_foreign_accepts hw hp hm hnx hx hh hof))
    have hna : ¬ x.accepts c0 = true := by
      intro hc
      exact he (accepts_inj hc (home_foreign_accepts hw hp hm hnx hx hh (accepts_foreign hc)))
    simp [he, hxo, hna]

end once

/-- the extra copies ("echoes") at `x` of a broadcast from `o`: sums over the BDTs of indicator
    terms — a foreign device hears (besides its FDT copy) the local re-broadcast of its own BBMD
    when it sits on that BBMD's subnet, and the one-hop directed broadcast of its own BBMD when it
    sits on the target subnet -/
def echoes (w : World) (no : Net) (o : Node) (nx : Net) (x : Node) : Nat :=
  match o.st with
  | .simple => firstExtras w nx x 1 no o.addr
  | .bbmd b => firstExtras w nx x 1 no o.addr + fwdExtra w nx x 1 b
  | .foreign fs =>
      match fs.bbmd with
      | some ca => (match w.bbmdAt ca with | some (nc, cb) => distExtra w nx x 1 nc cb | none => 0)
      | none => 0

theorem outcome_congr {w : World} {o x : Addr} {data : Data} {k k' : Nat} (h : k = k')
    (ho : Outcome w o data x k) : Outcome w o data x k' := h ▸ ho

/-- **bbmd_multiplicity**: in a full mesh of two-hop AND/OR one-hop entries (mixed freely per
    pair), a broadcast from any served node is handed up at every served node `x` exactly
    `[x ≠ o] + echoes` times — with the originator as source, quiescent, no state changed -/
theorem bbmd_multiplicity {w : World} (hw : WF w) (hp : Pop w) (hm : Mesh w)
    {no : Net} (hno : no ∈ w.nets) {o : Node} (ho : o ∈ no.nodes) {g : Addr} (hg : Home w no o g)
    {nx : Net} (hnx : nx ∈ w.nets) {x : Node} (hx : x ∈ nx.nodes) {h : Addr} (hh : Home w nx x h)
    (data : Data) :
    Outcome w o.addr data x.addr ((if x.addr = o.addr then 0 else 1) + echoes w no o nx x) := by
  obtain ⟨ng, hng, G, hG, hGa, hat⟩ := hg
  obtain ⟨ga, gst⟩ := G
  cases gst with
  | simple => exact hat.elim
  | foreign _ => exact hat.elim
  | bbmd gb =>
    simp only at hGa
    subst hGa
    simp only [HomeAt] at hat
    obtain ⟨oa, ost⟩ := o
    cases ost with
    | simple =>
      have hnet : no = ng := by
        rcases hat with h1 | h1 | h1
        · have := hw.node_eq hno hng ho hG h1; cases this
        · exact hw.net_eq hno hng h1.2
        · simp [Node.accepts] at h1
      subst hnet
      have hne : ga ≠ oa := by
        intro hc
        have := hw.node_eq hno hno hG ho hc; cases this
      have := partial_bdt_characterisation_ordinary hw hp hno hnx hx ho data
      rw [firstBbmds_eq hw hp hm hnx hx hh 1 hno hG oa, if_pos hne,
        same_plus_fwd hw hp hm hnx hx hh hno ho rfl hG] at this
      exact this
    | bbmd ob =>
      have hGo : (⟨ga, .bbmd gb⟩ : Node) = ⟨oa, .bbmd ob⟩ := by
        rcases hat with h1 | h1 | h1
        · exact (hw.node_eq hno hng ho hG h1).symm
        · simp [Node.isSimple] at h1
        · simp [Node.accepts] at h1
      cases hGo
      have := partial_bdt_characterisation_bbmd hw hp hno hnx hx ho data
      rw [firstBbmds_eq hw hp hm hnx hx hh 1 hno ho ga, if_neg (by simp), Nat.add_zero] at this
      have hs := same_plus_fwd hw hp hm hnx hx hh hno ho rfl ho
      refine outcome_congr ?_ this
      simp only [echoes]
      simp only at hs
      omega
    | foreign fs =>
      have hacc : (⟨oa, .foreign fs⟩ : Node).accepts ga = true := by
        rcases hat with h1 | h1 | h1
        · have := hw.node_eq hno hng ho hG h1; cases this
        · simp [Node.isSimple] at h1
        · exact h1.1
      have hreg : fs.status = 0 ∧ fs.bbmd = some ga := by
        simpa [Node.accepts] using hacc
      have := partial_bdt_characterisation_foreign hw hp hno hnx hx ho hng hG hreg data
      rw [distFrom_home hw hp hm hnx hx hh hno ho hng hG hacc] at this
      refine outcome_congr ?_ this
      simp only [echoes, hreg.2, bbmdAt_eq hw hng hG rfl]

theorem firstExtras_eq {w : World} (hw : WF w) (hp : Pop w) (nx : Net) (x : Node) (c : Nat)
    {n : Net} (hn : n ∈ w.nets) {ba : Addr} {b : Bbmd}
    (hB : (⟨ba, .bbmd b⟩ : Node) ∈ n.nodes) (s : Addr) :
    firstExtras w nx x c n s = if ba ≠ s then fwdExtra w nx x c b else 0 := by
  unfold firstExtras
  rw [sum_unique _ n.nodes _ hB (nodup_of_map _ _ (hw.nodes_nodup hn))]
  intro z hz hzB
  split
  · cases hzs : z.st with
    | bbmd zb =>
      have : z = ⟨ba, .bbmd b⟩ := hp.2 n hn z hz _ hB (by simp [Node.isBbmd, Kind.isBbmd, hzs]) rfl
      exact absurd this hzB
    | simple => rfl
    | foreign _ => rfl
  · rfl

/-- **bbmd_once**: in a well-addressed world (`WF`) with sane tables (`Pop`: one BBMD per
    subnet; every BDT entry names a BBMD and is two-hop — unicast — or one-hop — directed broadcast
    that the target subnet's router port accepts; mixed freely) forming a full mesh (`Mesh`) in
    which no foreign device sits on a subnet its own BBMD broadcasts into (`NoEcho`), a broadcast
    from ANY served node `o` — ordinary node, BBMD, or foreign device registered with and listed by
    a BBMD — is handed upward exactly once at EVERY other served node `x`, never at `o` itself,
    always with `o` as source; the run is complete (quiescent within the fuel) and changes no
    state.  Any number of subnets, nodes, foreign devices. -/
theorem bbmd_once {w : World} (hw : WF w) (hp : Pop w) (hm : Mesh w) (hq : NoEcho w)
    {no : Net} (hno : no ∈ w.nets) {o : Node} (ho : o ∈ no.nodes) {g : Addr} (hg : Home w no o g)
    {nx : Net} (hnx : nx ∈ w.nets) {x : Node} (hx : x ∈ nx.nodes) {h : Addr} (hh : Home w nx x h)
    (data : Data) :
    Outcome w o.addr data x.addr (if x.addr = o.addr then 0 else 1) := by
  refine outcome_congr ?_ (bbmd_multiplicity hw hp hm hno ho hg hnx hx hh data)
  have : echoes w no o nx x = 0 := by
    obtain ⟨ng, hng, G, hG, hGa, hat⟩ := hg
    obtain ⟨oa, ost⟩ := o
    cases ost with
    | simple => exact firstExtras_noecho hw hp hq 1 hnx hx hno oa
    | bbmd ob =>
      simp only [echoes]
      rw [firstExtras_noecho hw hp hq 1 hnx hx hno oa, fwdExtra_noecho hw hp hq 1 hnx hx hno ho]
    | foreign fs =>
      obtain ⟨ga, gst⟩ := G
      cases gst with
      | simple => exact hat.elim
      | foreign _ => exact hat.elim
      | bbmd gb =>
        simp only at hGa
        subst hGa
        simp only [HomeAt] at hat
        have hacc : (⟨oa, .foreign fs⟩ : Node).accepts ga = true := by
          rcases hat with h1 | h1 | h1
          · have := hw.node_eq hno hng ho hG h1; cases this
          · simp [Node.isSimple] at h1
          · exact h1.1
        have hreg : fs.status = 0 ∧ fs.bbmd = some ga := by
          simpa [Node.accepts] using hacc
        simp only [echoes, hreg.2, bbmdAt_eq hw hng hG rfl]
        exact distExtra_noecho hw hp hq 1 hnx hx hng hG
  rw [this, Nat.add_zero]

/-- **the excluded misconfiguration, counted** (two-hop full mesh): a foreign device `x` that sits
    on the subnet of the BBMD it is registered with gets, besides its FDT copy, that BBMD's local
    re-broadcast: a broadcast from a foreign device is handed up there once more (so `x`'s OWN
    broadcast comes back exactly once, anybody else's arrives twice); a broadcast from an ordinary
    node or BBMD arrives twice unless it starts on `x`'s own subnet (then the own BBMD is the
    first BBMD and does not re-broadcast: once) -/
theorem foreign_on_own_subnet_multiplicity {w : World} (hw : WF w) (hp : Pop w) (hm : Mesh w)
    (h2 : AllTwoHop w)
    {no : Net} (hno : no ∈ w.nets) {o : Node} (ho : o ∈ no.nodes) {g : Addr} (hg : Home w no o g)
    {nx : Net} (hnx : nx ∈ w.nets) {x : Node} (hx : x ∈ nx.nodes) {h : Addr} (hh : Home w nx x h)
    (hxf : x.isForeign = true) (hon : ∀ nc ∈ w.nets, ∀ C ∈ nc.nodes, C.addr = h → nx.id = nc.id)
    (data : Data) :
    Outcome w o.addr data x.addr
      ((if x.addr = o.addr then 0 else 1)
        + (if o.isForeign = true then 1 else if g = h then 0 else 1)) := by
  refine outcome_congr ?_ (bbmd_multiplicity hw hp hm hno ho hg hnx hx hh data)
  congr 1
  obtain ⟨ng, hng, G, hG, hGa, hat⟩ := hg
  obtain ⟨ga, gst⟩ := G
  cases gst with
  | simple => exact hat.elim
  | foreign _ => exact hat.elim
  | bbmd gb =>
    simp only at hGa
    subst hGa
    simp only [HomeAt] at hat
    obtain ⟨oa, ost⟩ := o
    cases ost with
    | simple =>
      have hnet : no = ng := by
        rcases hat with h1 | h1 | h1
        · have := hw.node_eq hno hng ho hG h1; cases this
        · exact hw.net_eq hno hng h1.2
        · simp [Node.accepts] at h1
      subst hnet
      have hne : ga ≠ oa := by
        intro hc
        have := hw.node_eq hno hno hG ho hc; cases this
      simp only [echoes, Node.isForeign]
      rw [firstExtras_eq hw hp nx x 1 hno hG oa, if_pos hne,
        fwdExtra_own hw hp hm h2 hnx hx hh hxf hon hno hG]
      by_cases he : ga = h
      · simp [he]
      · have : h ≠ ga := fun hc => he hc.symm
        simp [he, this]
    | bbmd ob =>
      have hGo : (⟨ga, .bbmd gb⟩ : Node) = ⟨oa, .bbmd ob⟩ := by
        rcases hat with h1 | h1 | h1
        · exact (hw.node_eq hno hng ho hG h1).symm
        · simp [Node.isSimple] at h1
        · simp [Node.accepts] at h1
      cases hGo
      simp only [echoes, Node.isForeign]
      rw [firstExtras_eq hw hp nx x 1 hno ho ga, if_neg (by simp),
        fwdExtra_own hw hp hm h2 hnx hx hh hxf hon hno ho]
      by_cases he : ga = h
      · simp [he]
      · have : h ≠ ga := fun hc => he hc.symm
        simp [he, this]
    | foreign fs =>
      have hacc : (⟨oa, .foreign fs⟩ : Node).accepts ga = true := by
        rcases hat with h1 | h1 | h1
        · have := hw.node_eq hno hng ho hG h1; cases this
        · simp [Node.isSimple] at h1
        · exact h1.1
      have hreg : fs.status = 0 ∧ fs.bbmd = some ga := by
        simpa [Node.accepts] using hacc
      simp only [echoes, hreg.2, bbmdAt_eq hw hng hG rfl, Node.isForeign, if_true]
      exact distExtra_own hw hp hm h2 hnx hx hh hxf hon hng hG

/-! ### a foreign device that is not registered -/

theorem outObs_atNode (a a' : Addr) (l : List Out) : ∀ ob ∈ outObs a l, atNode a' ob = true → a' = a := by
  induction l with
  | nil => intro ob h; cases h
  | cons o r ih =>
    intro ob hob hat
    cases o with
    | send dd m =>
      cases dd with
      | other =>
        simp only [outObs, List.mem_cons] at hob
        rcases hob with rfl | hob
        · exact (by simpa [atNode] using hat : a = a').symm
        · exact ih ob hob hat
      | bcast => exact ih ob (by simpa [outObs] using hob) hat
      | station _ => exact ih ob (by simpa [outObs] using hob) hat
    | up _ _ _ =>
      simp only [outObs, List.mem_cons] at hob
      rcases hob with rfl | hob
      · exact (by simpa [atNode] using hat : a = a').symm
      · exact ih ob hob hat
    | sap _ _ =>
      simp only [outObs, List.mem_cons] at hob
      rcases hob with rfl | hob
      · exact (by simpa [atNode] using hat : a = a').symm
      · exact ih ob hob hat
    | warn => exact ih ob (by simpa [outObs] using hob) hat
    | raised _ =>
      simp only [outObs, List.mem_cons] at hob
      rcases hob with rfl | hob
      · exact (by simpa [atNode] using hat : a = a').symm
      · exact ih ob hob hat

/-- **stops being served**: while a foreign device's registration status is not 0 (never
    acknowledged, refused, expired, unregistered), NOTHING is handed up at it, whatever
    broadcast-carrying datagrams fly and whatever the BBMDs' tables still say -/
theorem unregistered_foreign_hears_nothing {w : World} (hw : WF w) {nx : Net} (hnx : nx ∈ w.nets)
    {xa : Addr} {fs : Foreign} (hx : (⟨xa, .foreign fs⟩ : Node) ∈ nx.nodes) (hst : fs.status ≠ 0)
    (f : Nat) (q : List Dgram) (hq : ∀ d ∈ q, Good w d) :
    (World.run f w q).2.1.countP (atNode xa) = 0 := by
  rw [run_static f w q hq, List.countP_eq_zero]
  have := mem_runObs (P := fun ob => ¬ atNode xa ob = true) w (Good w) ?_ f q hq
  · exact this
  intro d hg
  refine ⟨?_, outS_good w d hg⟩
  intro ob hob hat
  simp only [obsS, List.mem_flatMap] at hob
  obtain ⟨n, hn, hob⟩ := hob
  split at hob
  · simp only [netObs, List.mem_flatMap] at hob
    obtain ⟨nd, hnd, hob⟩ := hob
    unfold reactObs at hob
    split at hob
    · next hh =>
      have hxa : xa = nd.addr := outObs_atNode nd.addr xa _ ob hob hat
      have hnode : nd = ⟨xa, .foreign fs⟩ := hw.node_eq hn hnx hnd hx hxa.symm
      subst hnode
      rcases hg with hb | ⟨hdist, hnb, hbb⟩
      · cases hm : d.msg <;> simp [hm, Bvll.isBc] at hb
        · simp [hm, Kind.up, foreignUp, hst, outObs] at hob
        · simp [hm, Kind.up, foreignUp, outObs] at hob
      · have hne : d.dst ≠ n.bcast := hnb n hn
        have haddr : xa = d.dst := by simpa [hits, hne] using hh
        have := hbb n hn _ hnd haddr
        simp [Kind.isBbmd] at this
    · cases hob
  · cases hob

/-! ### non-vacuity: concrete worlds that meet every hypothesis -/

namespace Example

def P : Nat := 47808
def ip (i h : Nat) : Nat := 167772160 + 256 * i + h
def ad (i h : Nat) : Addr := ⟨ip i h, P⟩
def full : Nat := 4294967295
def m24 : Nat := 4294967040
def bdt : List BdtEntry := [⟨ad 1 2, full⟩, ⟨ad 2 2, full⟩, ⟨ad 3 2, full⟩]
/-- a MIXED table: own entry two-hop, net 1 reached one-hop (directed broadcast 10.0.1.255),
    net 3 two-hop -/
def bdtMixed : List BdtEntry := [⟨ad 3 2, full⟩, ⟨ad 2 2, full⟩, ⟨ad 1 2, m24⟩]
/-- all-one-hop table (own entry included, with the subnet mask) -/
def bdtHop : List BdtEntry := [⟨ad 1 2, m24⟩, ⟨ad 2 2, m24⟩, ⟨ad 3 2, m24⟩]
def port (i : Nat) : Option Port := some ⟨ad i 1, m24, ip i 0⟩
def fdA : Node := ⟨ad 4 100, .foreign { status := 0, bbmd := some (ad 1 2), ttl := some 30 }⟩
def fdB : Node := ⟨ad 2 101, .foreign { status := 0, bbmd := some (ad 3 2), ttl := some 60 }⟩
def fdC : Node := ⟨ad 4 102, .foreign { status := -1 }⟩        -- not registered
def b1 : Node := ⟨ad 1 2, .bbmd { addr := ad 1 2, bdt := bdt, fdt := [⟨ad 4 100, 30, 12⟩] }⟩
def b2 : Node := ⟨ad 2 2, .bbmd { addr := ad 2 2, bdt := bdtMixed, fdt := [] }⟩
def b3 : Node := ⟨ad 3 2, .bbmd { addr := ad 3 2, bdt := bdt, fdt := [⟨ad 2 101, 60, 65⟩] }⟩
def s (i h : Nat) : Node := ⟨ad i h, .simple⟩
def n1 : Net := ⟨1, ad 1 255, port 1, [s 1 10, b1, s 1 11]⟩
def n2 : Net := ⟨2, ad 2 255, port 2, [b2, fdB]⟩
def n3 : Net := ⟨3, ad 3 255, port 3, [s 3 10, s 3 11, s 3 12, b3]⟩
def n4 : Net := ⟨4, ad 4 255, port 4, [fdA, fdC]⟩
/-- three subnets with a BBMD each (full mesh, two-hop and one-hop entries mixed, different table
    orders), five ordinary nodes, a foreign device on a subnet of its own, one inside ANOTHER
    BBMD's subnet (allowed), one unregistered -/
def world : World := { nets := [n1, n2, n3, n4] }

theorem wf : WF world := by decide +kernel
theorem pop : Pop world := by decide +kernel
theorem mesh : Mesh world := by decide +kernel
theorem noecho : NoEcho world := by decide +kernel
theorem home_s : Home world n1 (s 1 10) (ad 1 2) := by decide +kernel
theorem home_b : Home world n2 b2 (ad 2 2) := by decide +kernel
theorem home_fA : Home world n4 fdA (ad 1 2) := by decide +kernel
theorem home_fB : Home world n2 fdB (ad 3 2) := by decide +kernel

/-- the hypotheses of `bbmd_once` are met by originators and targets of all three kinds -/
example : Outcome world (ad 4 100) [1, 2, 3] (ad 3 11) 1 :=
  bbmd_once wf pop mesh noecho (no := n4) (by decide) (o := fdA) (by decide) home_fA
    (nx := n3) (by decide) (x := s 3 11) (by decide) (h := ad 3 2) (by decide +kernel) [1, 2, 3]

example : Outcome world (ad 1 10) [9] (ad 2 101) 1 :=
  bbmd_once wf pop mesh noecho (no := n1) (by decide) (o := s 1 10) (by decide) home_s
    (nx := n2) (by decide) (x := fdB) (by decide) home_fB [9]

/-- through the one-hop entry of `b2` into subnet 1 -/
example : Outcome world (ad 2 2) [] (ad 1 11) 1 :=
  bbmd_once wf pop mesh noecho (no := n2) (by decide) (o := b2) (by decide) home_b
    (nx := n1) (by decide) (x := s 1 11) (by decide) (h := ad 1 2) (by decide +kernel) []

example : Outcome world (ad 2 2) [] (ad 2 2) 0 :=
  bbmd_once wf pop mesh noecho (no := n2) (by decide) (o := b2) (by decide) home_b
    (nx := n2) (by decide) (x := b2) (by decide) home_b []

/-- TEST (evaluation of the model on the example world, not a theorem about all worlds):
    the foreign device's broadcast is seen 9 times in all — every node but itself and the
    unregistered device — and leaves the queue empty -/
example : ((world.broadcast (ad 4 100) [7]).2.1.length, (world.broadcast (ad 4 100) [7]).2.2) = (9, true) := by
  decide +kernel

/-! an all-one-hop mesh -/
def h1 : Node := ⟨ad 1 2, .bbmd { addr := ad 1 2, bdt := bdtHop, fdt := [⟨ad 4 100, 30, 12⟩] }⟩
def h2 : Node := ⟨ad 2 2, .bbmd { addr := ad 2 2, bdt := bdtHop.reverse, fdt := [] }⟩
def h3 : Node := ⟨ad 3 2, .bbmd { addr := ad 3 2, bdt := bdtHop, fdt := [] }⟩
def worldHop : World :=
  { nets := [⟨1, ad 1 255, port 1, [s 1 10, h1]⟩, ⟨2, ad 2 255, port 2, [h2, s 2 10]⟩,
             ⟨3, ad 3 255, port 3, [s 3 10, h3]⟩, n4] }
theorem hop_hyps : WF worldHop ∧ Pop worldHop ∧ Mesh worldHop ∧ NoEcho worldHop := by decide +kernel

/-! the misconfiguration: foreign device `fdM` on subnet 1, registered with subnet 1's BBMD -/
def fdM : Node := ⟨ad 1 103, .foreign { status := 0, bbmd := some (ad 1 2), ttl := some 30 }⟩
def m1 : Node := ⟨ad 1 2, .bbmd { addr := ad 1 2, bdt := bdt, fdt := [⟨ad 1 103, 30, 20⟩, ⟨ad 4 100, 30, 12⟩] }⟩
def m2 : Node := ⟨ad 2 2, .bbmd { addr := ad 2 2, bdt := bdt, fdt := [] }⟩
def nm1 : Net := ⟨1, ad 1 255, port 1, [s 1 10, m1, fdM]⟩
def nm2 : Net := ⟨2, ad 2 255, port 2, [m2, s 2 10]⟩
def m3 : Node := ⟨ad 3 2, .bbmd { addr := ad 3 2, bdt := bdt, fdt := [] }⟩
def nm3 : Net := ⟨3, ad 3 255, port 3, [s 3 10, m3]⟩
def worldM : World := { nets := [nm1, nm2, nm3, n4] }
theorem m_hyps : WF worldM ∧ Pop worldM ∧ Mesh worldM ∧ AllTwoHop worldM ∧ ¬ NoEcho worldM := by
  decide +kernel
theorem home_fM : Home worldM nm1 fdM (ad 1 2) := by decide +kernel

/-- a broadcast from subnet 2 arrives TWICE at the misplaced foreign device … -/
example : Outcome worldM (ad 2 10) [5] (ad 1 103) 2 :=
  foreign_on_own_subnet_multiplicity m_hyps.1 m_hyps.2.1 m_hyps.2.2.1 m_hyps.2.2.2.1
    (no := nm2) (by decide) (o := s 2 10) (by decide) (g := ad 2 2) (by decide +kernel)
    (nx := nm1) (by decide) (x := fdM) (by decide) home_fM rfl (by decide +kernel) [5]

/-- … its own broadcast comes back exactly once … -/
example : Outcome worldM (ad 1 103) [5] (ad 1 103) 1 :=
  foreign_on_own_subnet_multiplicity m_hyps.1 m_hyps.2.1 m_hyps.2.2.1 m_hyps.2.2.2.1
    (no := nm1) (by decide) (o := fdM) (by decide) home_fM
    (nx := nm1) (by decide) (x := fdM) (by decide) home_fM rfl (by decide +kernel) [5]

/-- … and a broadcast that starts on its own subnet arrives once -/
example : Outcome worldM (ad 1 10) [5] (ad 1 103) 1 :=
  foreign_on_own_subnet_multiplicity m_hyps.1 m_hyps.2.1 m_hyps.2.2.1 m_hyps.2.2.2.1
    (no := nm1) (by decide) (o := s 1 10) (by decide) (g := ad 1 2) (by decide +kernel)
    (nx := nm1) (by decide) (x := fdM) (by decide) home_fM rfl (by decide +kernel) [5]

/-- TEST: the model run agrees (2 copies at the misplaced device) -/
example : (worldM.broadcast (ad 2 10) [5]).2.1.countP (atNode (ad 1 103)) = 2 := by decide +kernel

end Example

end BacVerif.C13
