/-
  C19 — Routing knowledge stays coherent: one next hop per destination, newest wins.

  Property text → formal statement (model: Model/RouterCache.lean, the tree after
  fixes/C19-delete-router-info.patch and fixes/C19-renumber-occupied.patch)

  * "Whatever sequence of I-Am-Router-To-Network announcements, routed traffic
    revealing source networks, deletions and network-number changes a node
    observes"            → histories `List (Op α)` over the cache (`run`) and
                           `List (Ev α)` over the node (`nodeRun`); every theorem
                           quantifies over all of them, all arguments, no bound.
  * "its routing knowledge names for each pair of attached network and destination
    network at most one next-hop router, every destination credited to a router can
    be looked up and leads to that router, and nothing else can"
                         → `Coherent` (path table names `a` for `(s,d)`  ⇔  `a` is a
                           router on `s` credited with `d`); `coherent_init`,
                           `coherent_step`, `run_coherent`, `node_coherent`,
                           `nodeRun_coherent`; `one_next_hop`, `lookup_sound`,
                           `lookup_complete`.
  * "A newer announcement for a destination replaces the older router for it"
                         → `newest_wins`, `update_frame` (nothing outside {s}×dnets moves).
  * "forgetting a router or a destination removes exactly that and keeps the rest
    usable"              → `delete_router_exact`, `delete_dnets_exact`,
                           `delete_router_dnets_exact`; `renumber_exact` (also onto
                           an occupied network: the moved entry wins, the rest stays).
  * the pair of indexes is observationally ONE map (snet, dnet) ↦ router
                         → `refines` / `run_refines` (simulation by `AMap`), `credits_iff_abs`.
  * "traffic sent afterwards follows the current knowledge"
                         → `traffic_follows`, `traffic_follows_history`,
                           `node_iam_learns`, `node_routed_learns`, `node_forget_forgets`,
                           `node_nni_renumbers`, `release_to_announcer`.
  * no operation fails from a coherent state, except the documented refusal of
    `delete_router_info(snet)` without router and destinations → `no_failure`.
-/
import BacVerif.Lemmas.RouterCacheRenumber
namespace BacVerif.C19
open BacVerif.RouterCache
variable {α : Type} [DecidableEq α]

/-! ## the abstract map -/

/-- routing knowledge as a single map `(snet, dnet) ↦ router` -/
abbrev AMap (α : Type) := Net → Nat → Option α

def AMap.empty : AMap α := fun _ _ => none

/-- what the two indexes say, read through the path table -/
def absOf (c : Cache α) : AMap α := fun s d => pget c s d

/-- learn: overwrite.  `fun s' d' => if s' = s ∧ d' ∈ ds then some a else m s' d'` -/
def AMap.learn (m : AMap α) (s : Net) (a : α) (ds : List Nat) : AMap α := learnMap m s a ds

/-- forget: remove exactly what is named (`forgetMap`, Lemmas/RouterCacheStrip.lean):
    router only → every entry of `s` that names it; router + destinations → those of
    the destinations that name it; destinations only → those destinations -/
def AMap.forget (m : AMap α) (s : Net) (a : Option α) (ds : Option (List Nat)) : AMap α :=
  forgetMap m s a ds

/-- renumber: move, the moved entry wins (`renumberMap`) -/
def AMap.renumber (m : AMap α) (old new : Net) : AMap α := renumberMap m old new

def AMap.step (m : AMap α) : Op α → AMap α
  | .update s a ds _ => m.learn s a ds
  | .status _ _ _ => m
  | .delete s a ds => m.forget s a ds
  | .renumber o n => m.renumber o n

def AMap.run (m : AMap α) : List (Op α) → AMap α
  | [] => m
  | op :: ops => AMap.run (m.step op) ops

/-! ## Coherent: initially, and what it gives -/

theorem coherent_init : Coherent (Cache.empty : Cache α) := by
  intro s d a
  simp [Cache.empty, pget, Credits, rget]

/-- at most one next-hop router per (source network, destination network) -/
theorem one_next_hop (c : Cache α) (hc : Coherent c) (s : Net) (a b : α) (d : Nat)
    (ha : Credits c s a d) (hb : Credits c s b d) : a = b := hc.unique ha hb

/-- the two indexes are one map: the routers index is determined by the path table -/
theorem credits_iff_abs (c : Cache α) (hc : Coherent c) (s : Net) (a : α) (d : Nat) :
    Credits c s a d ↔ absOf c s d = some a := (hc s d a).symm

/-- a lookup that answers leads to a router that exists and is credited with the destination -/
theorem lookup_sound (c : Cache α) (hc : Coherent c) (s : Net) (d : Nat) (a : α)
    (r : Option RouterInfo) (h : getRouterInfo c s d = some (a, r)) :
    ∃ ri, r = some ri ∧ rget c s a = some ri ∧ has d ri.dnets = true := by
  unfold getRouterInfo at h
  cases hp : pget c s d with
  | none => simp [hp] at h
  | some a' =>
    simp only [hp, Option.some.injEq, Prod.mk.injEq] at h
    obtain ⟨rfl, rfl⟩ := h
    obtain ⟨ri, hri, hd⟩ := (hc s d a').mp hp
    exact ⟨ri, hri, hri, hd⟩

/-- every destination credited to a router can be looked up and leads to that router -/
theorem lookup_complete (c : Cache α) (hc : Coherent c) (s : Net) (d : Nat) (a : α)
    (h : Credits c s a d) : ∃ ri, getRouterInfo c s d = some (a, some ri) ∧ has d ri.dnets = true := by
  have hp := (hc s d a).mpr h
  obtain ⟨ri, hri, hd⟩ := h
  exact ⟨ri, by simp [getRouterInfo, hp, hri], hd⟩

/-! ## every operation: total, coherent, and the obvious step on the abstract map -/

theorem status_spec (c : Cache α) (s : Net) (a : α) (st : Nat) (hc : Coherent c) :
    Coherent (updateRouterStatus c s a st) ∧ absOf (updateRouterStatus c s a st) = absOf c := by
  unfold updateRouterStatus
  cases hr : rget c s a with
  | none => exact ⟨hc, rfl⟩
  | some ri =>
    refine ⟨?_, ?_⟩
    · intro s' d' a'
      unfold Credits
      rw [pget_rset, rget_rset]
      by_cases e : s' = s ∧ a' = a
      · obtain ⟨rfl, rfl⟩ := e
        simp only [and_self, ↓reduceIte, Option.some.injEq, exists_eq_left']
        rw [hc s' d' a']
        constructor
        · rintro ⟨ri', h1, h2⟩; rw [hr] at h1; cases h1; exact h2
        · intro h; exact ⟨ri, hr, h⟩
      · simp only [e, ↓reduceIte]; exact hc s' d' a'
    · funext s' d'; simp [absOf]

/-- the central theorem: from a coherent cache every operation either succeeds —
    the result is coherent and its abstract map is the abstract step of the old
    one — or it is the refused call `delete_router_info(snet, None, None)`. -/
theorem step_spec (c : Cache α) (op : Op α) (hc : Coherent c) :
    (∃ c', step c op = .ok c' ∧ Coherent c' ∧ absOf c' = (absOf c).step op) ∨
    (∃ s, op = .delete s none none ∧ step c op = .error .inconsistent) := by
  cases op with
  | update s a ds st =>
    obtain ⟨c', e, hc', hP⟩ := update_spec c s a ds st hc
    exact Or.inl ⟨c', e, hc', by funext s' d'; simp [absOf, AMap.step, AMap.learn, learnMap, hP]⟩
  | status s a st =>
    obtain ⟨h1, h2⟩ := status_spec c s a st hc
    exact Or.inl ⟨_, rfl, h1, h2⟩
  | delete s a ds =>
    by_cases hne : a = none ∧ ds = none
    · obtain ⟨rfl, rfl⟩ := hne
      exact Or.inr ⟨s, rfl, rfl⟩
    · obtain ⟨c', e, hc', hP⟩ := delete_spec c s a ds hc hne
      refine Or.inl ⟨c', e, hc', ?_⟩
      funext s' d'
      simp only [absOf, AMap.step, AMap.forget, hP]
      rfl
  | renumber o n =>
    obtain ⟨c', e, hc', hP⟩ := renumber_spec c o n hc
    refine Or.inl ⟨c', e, hc', ?_⟩
    funext s' d'
    simp only [absOf, AMap.step, AMap.renumber, hP]
    rfl

/-- `Coherent` is preserved by every operation, for all arguments -/
theorem coherent_step (c c' : Cache α) (op : Op α) (hc : Coherent c) (h : step c op = .ok c') :
    Coherent c' := by
  rcases step_spec c op hc with ⟨c'', e, hc'', _⟩ | ⟨s, _, e⟩
  · rw [h] at e; cases e; exact hc''
  · rw [h] at e; cases e

/-- refinement: the pair of indexes behaves as the single abstract map -/
theorem refines (c c' : Cache α) (op : Op α) (hc : Coherent c) (h : step c op = .ok c') :
    absOf c' = (absOf c).step op := by
  rcases step_spec c op hc with ⟨c'', e, _, habs⟩ | ⟨s, _, e⟩
  · rw [h] at e; cases e; exact habs
  · rw [h] at e; cases e

/-- from a coherent state nothing fails (no KeyError, no unresolvable reference);
    the only non-`ok` outcome is the documented refusal, which changes nothing -/
theorem no_failure (c : Cache α) (op : Op α) (e : RErr) (hc : Coherent c)
    (h : step c op = .error e) : e = .inconsistent ∧ ∃ s, op = .delete s none none := by
  rcases step_spec c op hc with ⟨c'', e', _, _⟩ | ⟨s, hop, e'⟩
  · rw [h] at e'; cases e'
  · rw [h] at e'; cases e'; exact ⟨rfl, s, hop⟩

theorem run_spec (ops : List (Op α)) :
    ∀ (c : Cache α), Coherent c →
      Coherent (run c ops) ∧ absOf (run c ops) = AMap.run (absOf c) ops := by
  induction ops with
  | nil => intro c hc; exact ⟨hc, rfl⟩
  | cons op ops ih =>
    intro c hc
    unfold run AMap.run
    rcases step_spec c op hc with ⟨c', e, hc', habs⟩ | ⟨s, hop, e⟩
    · simp only [e]
      rw [← habs]; exact ih c' hc'
    · simp only [e]
      have : (absOf c).step op = absOf c := by
        subst hop; funext s' d'; simp [AMap.step, AMap.forget, forgetMap]
      rw [this]; exact ih c hc

/-- `Coherent` holds after every history -/
theorem run_coherent (ops : List (Op α)) : Coherent (run (Cache.empty : Cache α) ops) :=
  (run_spec ops Cache.empty coherent_init).1

/-- after every history the real indexes denote the map the abstract rules compute -/
theorem run_refines (ops : List (Op α)) :
    absOf (run (Cache.empty : Cache α) ops) = AMap.run AMap.empty ops := by
  have := (run_spec ops (Cache.empty : Cache α) coherent_init).2
  rw [this]; rfl

/-! ## the named clauses -/

/-- newest wins: after an announcement, every announced destination is looked up
    to the announcing router, which is credited with it -/
theorem newest_wins (c c' : Cache α) (s : Net) (a : α) (ds : List Nat) (st : Nat) (d : Nat)
    (hc : Coherent c) (h : updateRouterInfo c s a ds st = .ok c') (hd : d ∈ ds) :
    ∃ ri, getRouterInfo c' s d = some (a, some ri) ∧ has d ri.dnets = true := by
  have hc' := coherent_step c c' (.update s a ds st) hc h
  have habs := refines c c' (.update s a ds st) hc h
  have : absOf c' s d = some a := by rw [habs]; simp [AMap.step, AMap.learn, learnMap, hd]
  exact lookup_complete c' hc' s d a ((hc' s d a).mp this)

/-- … and the router it displaces is no longer credited with that destination -/
theorem newest_wins_displaces (c c' : Cache α) (s : Net) (a b : α) (ds : List Nat) (st : Nat)
    (d : Nat) (hc : Coherent c) (h : updateRouterInfo c s a ds st = .ok c') (hd : d ∈ ds)
    (hb : b ≠ a) : ¬ Credits c' s b d := by
  have hc' := coherent_step c c' (.update s a ds st) hc h
  have habs := refines c c' (.update s a ds st) hc h
  intro hcr
  have h1 : absOf c' s d = some b := (hc' s d b).mpr hcr
  rw [habs] at h1
  simp [AMap.step, AMap.learn, learnMap, hd] at h1
  exact hb h1.symm

/-- an announcement touches nothing outside `{s} × dnets`: neither lookups nor credits -/
theorem update_frame (c c' : Cache α) (s : Net) (a : α) (ds : List Nat) (st : Nat)
    (hc : Coherent c) (h : updateRouterInfo c s a ds st = .ok c')
    (s' : Net) (d' : Nat) (hout : ¬ (s' = s ∧ d' ∈ ds)) :
    pget c' s' d' = pget c s' d' ∧ ∀ b, Credits c' s' b d' ↔ Credits c s' b d' := by
  have hc' := coherent_step c c' (.update s a ds st) hc h
  have habs := refines c c' (.update s a ds st) hc h
  have h1 : pget c' s' d' = pget c s' d' := by
    have := congrFun (congrFun habs s') d'
    simpa [absOf, AMap.step, AMap.learn, learnMap, hout] using this
  exact ⟨h1, fun b => by rw [← hc' s' d' b, ← hc s' d' b, h1]⟩

/-- forgetting a router removes exactly the destinations it was credited with -/
theorem delete_router_exact (c c' : Cache α) (s : Net) (a : α) (hc : Coherent c)
    (h : deleteRouterInfo c s (some a) none = .ok c') (s' : Net) (d' : Nat) :
    pget c' s' d' = if s' = s ∧ pget c s d' = some a then none else pget c s' d' := by
  have habs := refines c c' (.delete s (some a) none) hc h
  have := congrFun (congrFun habs s') d'
  simp only [absOf, AMap.step, AMap.forget, forgetMap] at this
  rw [this]
  exact ite_congr rfl (fun _ => rfl) (fun _ => rfl)

/-- forgetting destinations removes exactly those destinations, whoever served them -/
theorem delete_dnets_exact (c c' : Cache α) (s : Net) (ds : List Nat) (hc : Coherent c)
    (h : deleteRouterInfo c s none (some ds) = .ok c') (s' : Net) (d' : Nat) :
    pget c' s' d' = if s' = s ∧ d' ∈ ds then none else pget c s' d' := by
  have habs := refines c c' (.delete s none (some ds)) hc h
  have := congrFun (congrFun habs s') d'
  simp only [absOf, AMap.step, AMap.forget, forgetMap] at this
  rw [this]

/-- forgetting some destinations of one router removes exactly those it serves -/
theorem delete_router_dnets_exact (c c' : Cache α) (s : Net) (a : α) (x : Nat) (xs : List Nat)
    (hc : Coherent c) (h : deleteRouterInfo c s (some a) (some (x :: xs)) = .ok c')
    (s' : Net) (d' : Nat) :
    pget c' s' d' =
      if s' = s ∧ d' ∈ (x :: xs) ∧ pget c s d' = some a then none else pget c s' d' := by
  have habs := refines c c' (.delete s (some a) (some (x :: xs))) hc h
  have := congrFun (congrFun habs s') d'
  simp only [absOf, AMap.step, AMap.forget, forgetMap] at this
  rw [this]
  exact ite_congr rfl (fun _ => rfl) (fun _ => rfl)

/-- whatever is forgotten, the result is coherent: everything that is left can
    still be looked up and leads to its router (`lookup_complete`) -/
theorem delete_keeps_rest_usable (c c' : Cache α) (s : Net) (a : Option α)
    (ds : Option (List Nat)) (hc : Coherent c) (h : deleteRouterInfo c s a ds = .ok c') :
    Coherent c' := coherent_step c c' (.delete s a ds) hc h

/-- renumbering moves exactly the entries of the old network; onto an occupied
    network the moved entries win and every other entry of that network stays -/
theorem renumber_exact (c c' : Cache α) (old new : Net) (hc : Coherent c) (hne : old ≠ new)
    (h : updateSourceNetwork c old new = .ok c') (s' : Net) (d' : Nat) :
    pget c' s' d' =
      if s' = old then none
      else if s' = new then (match pget c old d' with | some a => some a | none => pget c new d')
      else pget c s' d' := by
  have habs := refines c c' (.renumber old new) hc h
  have := congrFun (congrFun habs s') d'
  simp only [absOf, AMap.step, AMap.renumber, renumberMap, hne, ↓reduceIte] at this
  rw [this]
  exact ite_congr rfl (fun _ => rfl) (fun _ => ite_congr rfl (fun _ => by cases pget c old d' <;> rfl) (fun _ => rfl))

/-! ## the node: learning paths and the next hop of originated traffic -/

/-- every node event leaves the cache alone or applies one successful cache operation -/
theorem nodeStep_cache (n : Node α) (ev : Ev α) :
    (nodeStep n ev).1.cache = n.cache ∨ ∃ op, step n.cache op = .ok (nodeStep n ev).1.cache := by
  cases ev with
  | iam port src nets =>
    simp only [nodeStep]
    split
    · exact Or.inl rfl
    · split
      · exact Or.inl rfl
      · rename_i c h; exact Or.inr ⟨.update (portNet n port) src nets 0, h⟩
  | routed port src snet =>
    simp only [nodeStep]
    split
    · exact Or.inl rfl
    · split
      · exact Or.inl rfl
      · rename_i c h; exact Or.inr ⟨.update (portNet n port) src [snet] 0, h⟩
  | nni port net flag bcast =>
    simp only [nodeStep]
    split
    · exact Or.inl rfl
    · split
      · exact Or.inl rfl
      · split
        · split
          · exact Or.inl rfl
          · rename_i c h
            split
            · exact Or.inr ⟨.renumber none (some net), h⟩
            · exact Or.inr ⟨.renumber none (some net), h⟩
        · rename_i cur _
          split
          · exact Or.inl rfl
          · split
            · exact Or.inl rfl
            · split
              · exact Or.inl rfl
              · rename_i c h
                split
                · exact Or.inr ⟨.renumber (some cur) (some net), h⟩
                · exact Or.inr ⟨.renumber (some cur) (some net), h⟩
  | forget snet a dnets =>
    simp only [nodeStep]
    split
    · exact Or.inl rfl
    · split
      · exact Or.inl rfl
      · rename_i c h; exact Or.inr ⟨.delete snet a dnets, h⟩
  | originate dnet dst =>
    simp only [nodeStep]
    split
    · exact Or.inl rfl
    · split
      · split <;> exact Or.inl rfl
      · split
        · split
          · exact Or.inl rfl
          · split <;> exact Or.inl rfl
        · exact Or.inl rfl

/-- whatever the node observes, its routing knowledge stays coherent -/
theorem node_coherent (n : Node α) (ev : Ev α) (hc : Coherent n.cache) :
    Coherent (nodeStep n ev).1.cache := by
  rcases nodeStep_cache n ev with h | ⟨op, h⟩
  · rw [h]; exact hc
  · exact coherent_step _ _ op hc h

theorem nodeRun_coherent (evs : List (Ev α)) :
    ∀ (n : Node α), Coherent n.cache → Coherent (nodeRun n evs).cache := by
  induction evs with
  | nil => intro n hc; exact hc
  | cons e es ih => intro n hc; exact ih _ (node_coherent n e hc)

/-- an accepted I-Am-Router-To-Network is exactly `learn` on the abstract map -/
theorem node_iam_learns (n : Node α) (port : Nat) (src : α) (nets : List Nat)
    (hc : Coherent n.cache) (hok : (nodeStep n (.iam port src nets)).2.raised = none) :
    absOf (nodeStep n (.iam port src nets)).1.cache =
      (absOf n.cache).learn (portNet n port) src nets := by
  obtain ⟨c', e, _, hP⟩ := update_spec n.cache (portNet n port) src nets 0 hc
  simp only [nodeStep] at hok ⊢
  split at hok
  · simp at hok
  · rename_i hh
    simp only [hh, e]
    funext s' d'
    simp [absOf, AMap.learn, learnMap, hP]

/-- routed traffic from a network that is not directly attached is `learn` of its
    source network via the station that forwarded it -/
theorem node_routed_learns (n : Node α) (port : Nat) (src : α) (snet : Nat)
    (hc : Coherent n.cache) (hfar : has (some snet) n.adapters = false) :
    absOf (nodeStep n (.routed port src snet)).1.cache =
      (absOf n.cache).learn (portNet n port) src [snet] := by
  obtain ⟨c', e, _, hP⟩ := update_spec n.cache (portNet n port) src [snet] 0 hc
  simp only [nodeStep, hfar, Bool.false_eq_true, ↓reduceIte, e]
  funext s' d'
  simp [absOf, AMap.learn, learnMap, hP]

/-- an accepted `delete_router_references` is exactly `forget` on the abstract map -/
theorem node_forget_forgets (n : Node α) (snet : Net) (a : Option α) (ds : Option (List Nat))
    (hc : Coherent n.cache) (hs : has snet n.adapters = true) (hne : ¬ (a = none ∧ ds = none)) :
    absOf (nodeStep n (.forget snet a ds)).1.cache = (absOf n.cache).forget snet a ds := by
  obtain ⟨c', e, _, hP⟩ := delete_spec n.cache snet a ds hc hne
  simp only [nodeStep, hs, Bool.not_true, Bool.false_eq_true, ↓reduceIte, e]
  funext s' d'
  simp only [absOf, AMap.forget, hP]
  rfl

/-- a broadcast Network-Number-Is that changes the number of an adapter (unknown so
    far, or learned and different) is exactly `renumber` on the abstract map — whatever
    then happens to the adapter table -/
theorem node_nni_renumbers (n : Node α) (port net flag : Nat) (p : Port)
    (hc : Coherent n.cache) (hp : n.ports[port]? = some p) (hdiff : p.net ≠ some net)
    (hcfg : p.net = none ∨ p.cfg ≠ some 1) :
    absOf (nodeStep n (.nni port net flag true)).1.cache =
      (absOf n.cache).renumber p.net (some net) := by
  obtain ⟨c', e, _, hP⟩ := renumber_spec n.cache p.net (some net) hc
  have habs : absOf c' = (absOf n.cache).renumber p.net (some net) := by
    funext s' d'; simp only [absOf, AMap.renumber, hP]; rfl
  simp only [nodeStep, Bool.not_true, Bool.false_eq_true, ↓reduceIte, hp]
  cases hn : p.net with
  | none =>
    rw [hn] at e
    simp only [e]
    split <;> exact (hn ▸ habs)
  | some cur =>
    rw [hn] at e hdiff
    have h1 : ¬ cur = net := fun h => hdiff (by rw [h])
    have h2 : ¬ p.cfg = some 1 := by
      rcases hcfg with h | h
      · rw [hn] at h; cases h
      · exact h
    simp only [h1, ↓reduceIte, h2, e]
    split <;> exact (hn ▸ habs)

omit [DecidableEq α] in
/-- packets that waited for a path are released to the station that announced it, on
    the adapter the announcement arrived on, and to nobody else -/
theorem release_to_announcer (port : Nat) (src : α) (nets : List Nat) :
    ∀ (pend : List (Nat × Nat)) (acc : List (Frame α)) (f : Frame α),
      f ∈ (release port src nets pend acc).2 →
        f ∈ acc ∨ ∃ d ∈ nets, f = Frame.apdu port (Dest.station src) (some d) := by
  induction nets with
  | nil => intro pend acc f h; exact Or.inl h
  | cons d ds ih =>
    intro pend acc f h
    unfold release at h
    cases hg : aget d pend with
    | none =>
      simp only [hg] at h
      rcases ih pend acc f h with h1 | ⟨d', hd', h2⟩
      · exact Or.inl h1
      · exact Or.inr ⟨d', List.mem_cons_of_mem _ hd', h2⟩
    | some k =>
      simp only [hg] at h
      rcases ih _ _ f h with h1 | ⟨d', hd', h2⟩
      · rcases List.mem_append.mp h1 with h3 | h3
        · exact Or.inl h3
        · exact Or.inr ⟨d, List.mem_cons_self, (List.mem_replicate.mp h3).2⟩
      · exact Or.inr ⟨d', List.mem_cons_of_mem _ hd', h2⟩

/-- the next hop the abstract map prescribes: the first adapter (in the order of
    the adapter table) whose network has an entry for the destination -/
def nextHopAbs (m : AMap α) (d : Nat) : List (Net × Nat) → Option (Nat × α)
  | [] => none
  | (s, port) :: t =>
    match m s d with
    | some a => some (port, a)
    | none => nextHopAbs m d t

omit [DecidableEq α] in
theorem firstRoute_abs (c : Cache α) (d : Nat) (L : List (Net × Nat)) :
    (∀ s port a, firstRoute c d L = some (s, port, a) →
        pget c s d = some a ∧ nextHopAbs (absOf c) d L = some (port, a)) ∧
    (firstRoute c d L = none → nextHopAbs (absOf c) d L = none) := by
  induction L with
  | nil => simp [firstRoute, nextHopAbs]
  | cons h t ih =>
    obtain ⟨s0, p0⟩ := h
    unfold firstRoute nextHopAbs
    cases hp : pget c s0 d with
    | none => simpa [absOf, hp] using ih
    | some a0 =>
      simp only [absOf, hp, Option.some.injEq, Prod.mk.injEq, reduceCtorEq, false_implies,
        and_true]
      rintro s port a ⟨rfl, rfl, rfl⟩
      exact ⟨hp, rfl, rfl⟩

/-- traffic follows the current knowledge: a packet for a remote network (not the
    local one, nothing already waiting for it) is sent to the router the abstract
    map names, on that adapter; with no entry, Who-Is-Router-To-Network goes out on
    every adapter.  In particular the send never fails. -/
theorem traffic_follows (n : Node α) (d : Nat) (dst : α) (hc : Coherent n.cache)
    (hl : portNet n n.localPort ≠ some d) (hp : has d n.pending = false) :
    (nodeStep n (.originate d dst)).2 =
      match nextHopAbs (absOf n.cache) d (items n.adapters) with
      | some (port, a) => { frames := [Frame.apdu port (Dest.station a) (some d)] }
      | none => { frames := ((items n.adapters).map (·.2)).map (fun p => Frame.whoIs p d) } := by
  simp only [nodeStep, hl, ↓reduceIte, hp, Bool.false_eq_true]
  obtain ⟨h1, h2⟩ := firstRoute_abs n.cache d (items n.adapters)
  cases hf : firstRoute n.cache d (items n.adapters) with
  | none => simp only [h2 hf]
  | some r =>
    obtain ⟨s, port, a⟩ := r
    obtain ⟨hpg, hnh⟩ := h1 s port a hf
    obtain ⟨ri, hri, hd⟩ := (hc s d a).mp hpg
    simp only [hnh, hri, hd, ↓reduceIte]

/-- … after any history of events, from any node whose cache starts coherent (e.g. empty) -/
theorem traffic_follows_history (n0 : Node α) (evs : List (Ev α)) (d : Nat) (dst : α)
    (hc0 : Coherent n0.cache)
    (hl : portNet (nodeRun n0 evs) (nodeRun n0 evs).localPort ≠ some d)
    (hp : has d (nodeRun n0 evs).pending = false) :
    (nodeStep (nodeRun n0 evs) (.originate d dst)).2 =
      match nextHopAbs (absOf (nodeRun n0 evs).cache) d (items (nodeRun n0 evs).adapters) with
      | some (port, a) => { frames := [Frame.apdu port (Dest.station a) (some d)] }
      | none => { frames := ((items (nodeRun n0 evs).adapters).map (·.2)).map
                              (fun p => Frame.whoIs p d) } :=
  traffic_follows _ d dst (nodeRun_coherent evs n0 hc0) hl hp

/-! ## non-vacuity: concrete, non-trivial instances of the hypotheses
    (`decide +kernel` here evaluates the model on ONE sample — a test, not a theorem) -/

/-- two source networks, three routers, competing announcements, a renumbering onto
    an occupied network and a deletion -/
def sampleHistory : List (Op Nat) :=
  [.update (some 5) 1 [10, 11] 0, .update (some 6) 2 [10, 12] 0, .update (some 5) 3 [11] 0,
   .update (some 6) 3 [13] 1, .renumber (some 5) (some 6), .delete (some 6) (some 2) (some [12])]

def sampleCache : Cache Nat := run Cache.empty sampleHistory

/-- `Coherent sampleCache` holds (by `run_coherent`) and the cache is not trivial:
    three routers on network 6, router 1 took destination 10 from router 2 by the
    renumbering, router 3 took 11 from router 1 by its announcement -/
example : Coherent sampleCache := run_coherent sampleHistory
example : pget sampleCache (some 6) 10 = some 1 ∧ pget sampleCache (some 6) 11 = some 3 ∧
    pget sampleCache (some 6) 13 = some 3 ∧ pget sampleCache (some 6) 12 = none ∧
    pget sampleCache (some 5) 10 = none := by decide +kernel
/-- observe a few lookups of the result of an operation (`none` if it failed) -/
def look (r : Except RErr (Cache Nat)) (qs : List (Net × Nat)) : Option (List (Option Nat)) :=
  r.toOption.map fun c => qs.map fun q => pget c q.1 q.2

/-- hypotheses of `newest_wins` / `update_frame`: the announcement succeeds and displaces a router -/
example : look (updateRouterInfo sampleCache (some 6) 2 [10, 13] 0)
    [(some 6, 10), (some 6, 13), (some 6, 11)] = some [some 2, some 2, some 3] := by decide +kernel
/-- hypotheses of `delete_*_exact` -/
example : look (deleteRouterInfo sampleCache (some 6) (some 3) none)
    [(some 6, 11), (some 6, 13), (some 6, 10)] = some [none, none, some 1] := by decide +kernel
example : look (deleteRouterInfo sampleCache (some 6) none (some [10, 12]))
    [(some 6, 10), (some 6, 11)] = some [none, some 3] := by decide +kernel
example : look (deleteRouterInfo sampleCache (some 6) (some 3) (some [11, 10]))
    [(some 6, 11), (some 6, 10), (some 6, 13)] = some [none, some 1, some 3] := by decide +kernel
/-- hypotheses of `renumber_exact`, onto an occupied network -/
example : look (updateSourceNetwork
      (run Cache.empty [.update (some 5) 1 [10, 11] 0, .update (some 6) 2 [10, 12] 0])
      (some 5) (some 6))
    [(some 6, 10), (some 6, 11), (some 6, 12), (some 5, 10)] = some [some 1, some 1, some 2, none] := by
  decide +kernel
/-- the refusal of `no_failure` exists, and only it -/
example : step sampleCache (.delete (some 6) none none) = .error .inconsistent := rfl

/-- a router between networks 5 and 6 that has learned, renumbered and forgotten -/
def sampleNode : Node Nat :=
  nodeRun { ports := [⟨some 5, some 0⟩, ⟨some 6, some 0⟩], adapters := [(some 5, 0), (some 6, 1)],
            localPort := 0, cache := Cache.empty }
    [.iam 0 1 [10, 11], .iam 1 2 [10, 12], .routed 1 3 13, .forget (some 5) none (some [10])]

/-- hypotheses of `traffic_follows`: destination 10 is neither local nor pending, and
    the packet goes to router 2 on adapter 1 (router 1's entry was forgotten) -/
example : portNet sampleNode sampleNode.localPort ≠ some 10 ∧ has 10 sampleNode.pending = false ∧
    nextHopAbs (absOf sampleNode.cache) 10 (items sampleNode.adapters) = some (1, 2) := by
  decide +kernel
/-- hypotheses of `node_iam_learns` / `node_routed_learns` -/
example : (nodeStep sampleNode (.iam 0 3 [12, 13])).2.raised = none := by decide +kernel
example : has (some 13) sampleNode.adapters = false := by decide +kernel
/-- hypotheses of `node_forget_forgets` / `node_nni_renumbers` (adapter 0: learned network 5, told 6) -/
example : has (some 6) sampleNode.adapters = true := by decide +kernel
example : sampleNode.ports[0]? = some ⟨some 5, some 0⟩ ∧ (some 5 : Net) ≠ some 6 ∧
    (some 0 : Option Nat) ≠ some 1 := by decide +kernel

end BacVerif.C19
