import BacVerif.Model.RouterCache
namespace BacVerif.C19
open BacVerif.RouterCache
theorem placeholder : (Cache.empty : Cache Nat).pathInfo = [] := rfl
end BacVerif.C19
