/-
  C17 — A commandable value equals its highest-priority command or the default.

  Property text → formal statement (model: `Model/Commandable.lean`)
  * "after any sequence of writes and relinquishes at priorities 1..16 … the
    present value equals the value in the lowest-numbered non-null slot of the
    priority array, or the relinquish default when all sixteen are null"
        → `present_is_winner` (any event list: commands, refused commands, array
          index writes, timer ticks) with `winner_lowest` / `winner_default`
          saying what `winner` is; `present_is_winner_init` from a fresh object
  * "(a write without priority counting as 16)"            → `no_priority_is_16`
  * "each slot holds exactly the last value commanded at that priority"
        → `slot_holds_last` (every slot but 6 for any object), `slot_holds_last_all`
          (all sixteen, objects without the min on/off mix-in), and the refinement
          to the abstract map priority ↦ last command: `refines_abstract`,
          `refines_abstract_minonoff`
  * "Writes with a priority outside 1..16 or to slot 0 are refused without
    changing anything"  → `bad_priority_refused`, `slot_zero_refused`,
          `bad_index_refused`, `whole_array_refused`, `bad_value_refused`, all
          instances of `refused_unchanged`
  * "binary objects with minimum on/off times hold a new active state at priority
    6 for the minimum on time, a new inactive state for the minimum off time, and
    release the slot afterwards"
        → `hold_starts` (slot 6 := new state, timer armed at now + minimum time),
          `hold_persists` (timed invariant over any event sequence that stays
          below priority 6 and before the deadline), `min_on_hold` /
          `min_off_hold` (the two combined), `hold_released` (what the timer does),
          `second_fire_quiescent` (the release cascade stops after two firings),
          `write_keeps_timer` / `write_timer_armed` (no command, in particular no override
          at priority 1..5 during a hold, ever cancels the pending release)
  * the re-entrant `WriteProperty(…, priority=6)` never nests deeper than once:
        `wp_fuel_irrelevant` (so the `recursion` answer of the fuel-0 case is unreachable
        from `step`, which starts with depth 8)
  * user monitors of the present value that command the object again from inside
    their callback (callbacks as data, `Rule`; nested `WriteProperty` = nested `wpM`):
        `wpM_inv`, `wpM_accept_inv` (when the outermost write returns, present value =
        winner, whatever the callbacks did), `present_is_winner_monitors`,
        `wpM_refused_unchanged`; a monitor that RAISES (`Rule.raises`): the value stays
        written, the exception reaches the caller, and `wpM_inv` / `wpM_accept_inv` hold
        for that exceptional return too; `wpM_nil` / `stepM_nil`: without user monitors `wpM`
        IS `wp`, so all theorems above speak about the function the driver runs
  * the generated class table (20 classes, priority-value choice, MinOnOff on the
    binary ones, MRO override)                              → `table_*` (kernel `decide`)
-/
import BacVerif.Model.Commandable
import BacVerif.Gen.Commandable
namespace BacVerif.C17
open BacVerif.Commandable

set_option linter.unusedSectionVars false

variable {V : Type} [DecidableEq V]

/-! ## slots and the winner -/

@[simp] theorem setSlot_same (f : Nat → Option V) (i : Nat) (x : Option V) :
    setSlot f i x i = x := by simp [setSlot]

@[simp] theorem setSlot_other (f : Nat → Option V) {i j : Nat} (x : Option V) (h : j ≠ i) :
    setSlot f i x j = f j := by simp [setSlot, h]

theorem firstFrom_congr {f g : Nat → Option V} (n i : Nat)
    (h : ∀ j, i ≤ j → j < i + n → f j = g j) : firstFrom f n i = firstFrom g n i := by
  induction n generalizing i with
  | zero => rfl
  | succ n ih =>
    simp only [firstFrom]
    rw [h i (Nat.le_refl i) (by omega)]
    cases g i with
    | some v => rfl
    | none => exact ih (i + 1) (fun j h1 h2 => h j (by omega) (by omega))

theorem firstFrom_append (f : Nat → Option V) (a b i : Nat) :
    firstFrom f (a + b) i =
      match firstFrom f a i with
      | some v => some v
      | none => firstFrom f b (i + a) := by
  induction a generalizing i with
  | zero => simp [firstFrom]
  | succ a ih =>
    have : a + 1 + b = (a + b) + 1 := by omega
    rw [this]
    simp only [firstFrom]
    cases f i with
    | some v => rfl
    | none =>
      simp only []
      rw [ih (i + 1)]
      have : i + 1 + a = i + (a + 1) := by omega
      rw [this]

theorem firstFrom_none_iff (f : Nat → Option V) (n i : Nat) :
    firstFrom f n i = none ↔ ∀ j, i ≤ j → j < i + n → f j = none := by
  induction n generalizing i with
  | zero => simp [firstFrom]; intro j h1 h2; omega
  | succ n ih =>
    simp only [firstFrom]
    constructor
    · intro h j h1 h2
      cases hfi : f i with
      | some v => simp [hfi] at h
      | none =>
        simp [hfi] at h
        by_cases hj : j = i
        · rw [hj]; exact hfi
        · exact (ih (i + 1)).1 h j (by omega) (by omega)
    · intro h
      have hfi := h i (Nat.le_refl i) (by omega)
      simp [hfi]
      exact (ih (i + 1)).2 (fun j h1 h2 => h j (by omega) (by omega))

theorem firstFrom_some_iff (f : Nat → Option V) (n i : Nat) (v : V) :
    firstFrom f n i = some v ↔
      ∃ j, i ≤ j ∧ j < i + n ∧ f j = some v ∧ ∀ k, i ≤ k → k < j → f k = none := by
  induction n generalizing i with
  | zero => simp [firstFrom]; intro j h1 h2; omega
  | succ n ih =>
    simp only [firstFrom]
    cases hfi : f i with
    | some u =>
      simp only []
      constructor
      · intro h
        refine ⟨i, Nat.le_refl i, by omega, ?_, fun k h1 h2 => by omega⟩
        rw [hfi, h]
      · rintro ⟨j, h1, h2, h3, h4⟩
        by_cases hj : j = i
        · rw [hj, hfi] at h3; exact h3
        · have := h4 i (Nat.le_refl i) (by omega)
          rw [hfi] at this; cases this
    | none =>
      simp only []
      rw [ih (i + 1)]
      constructor
      · rintro ⟨j, h1, h2, h3, h4⟩
        refine ⟨j, by omega, by omega, h3, fun k hk1 hk2 => ?_⟩
        by_cases hk : k = i
        · rw [hk]; exact hfi
        · exact h4 k (by omega) hk2
      · rintro ⟨j, h1, h2, h3, h4⟩
        have hj : j ≠ i := by
          intro hj; rw [hj, hfi] at h3; cases h3
        exact ⟨j, by omega, by omega, h3, fun k hk1 hk2 => h4 k (by omega) hk2⟩

/-- "the value in the lowest-numbered non-null slot of the priority array" -/
theorem winner_lowest (cfg : Cfg V) (f : Nat → Option V) (j : Nat) (v : V)
    (h1 : 1 ≤ j) (h16 : j ≤ 16) (hj : f j = some v)
    (hlow : ∀ k, 1 ≤ k → k < j → f k = none) : winner cfg f = v := by
  have : firstFrom f 16 1 = some v :=
    (firstFrom_some_iff f 16 1 v).2 ⟨j, h1, by omega, hj, hlow⟩
  simp [winner, this]

/-- "or the relinquish default when all sixteen are null" -/
theorem winner_default (cfg : Cfg V) (f : Nat → Option V)
    (h : ∀ k, 1 ≤ k → k ≤ 16 → f k = none) : winner cfg f = cfg.default := by
  have : firstFrom f 16 1 = none :=
    (firstFrom_none_iff f 16 1).2 (fun j h1 h2 => h j h1 (by omega))
  simp [winner, this]

/-- conversely: the winner is one of the two -/
theorem winner_cases (cfg : Cfg V) (f : Nat → Option V) :
    (∃ j, 1 ≤ j ∧ j ≤ 16 ∧ f j = some (winner cfg f) ∧ ∀ k, 1 ≤ k → k < j → f k = none) ∨
    ((∀ k, 1 ≤ k → k ≤ 16 → f k = none) ∧ winner cfg f = cfg.default) := by
  cases h : firstFrom f 16 1 with
  | some v =>
    left
    obtain ⟨j, h1, h2, h3, h4⟩ := (firstFrom_some_iff f 16 1 v).1 h
    refine ⟨j, h1, by omega, ?_, h4⟩
    simp [winner, h, h3]
  | none =>
    right
    refine ⟨fun k h1 h2 => (firstFrom_none_iff f 16 1).1 h k h1 (by omega), ?_⟩
    simp [winner, h]

/-- a write above a non-null slot 6 cannot change the winner -/
theorem winner_above_six (cfg : Cfg V) (f : Nat → Option V) (i : Nat) (x : Option V) (v : V)
    (hi : 6 < i) (h6 : f 6 = some v) : winner cfg (setSlot f i x) = winner cfg f := by
  have e1 : firstFrom (setSlot f i x) 6 1 = firstFrom f 6 1 :=
    firstFrom_congr 6 1 (fun j h1 h2 => setSlot_other f x (by omega))
  have hne : firstFrom f 6 1 ≠ none := by
    intro h
    have := (firstFrom_none_iff f 6 1).1 h 6 (by omega) (by omega)
    rw [h6] at this; cases this
  have a1 := firstFrom_append (setSlot f i x) 6 10 1
  have a2 := firstFrom_append f 6 10 1
  simp only [winner]
  show (match firstFrom (setSlot f i x) (6 + 10) 1 with | some v => v | none => cfg.default) =
       (match firstFrom f (6 + 10) 1 with | some v => v | none => cfg.default)
  rw [a1, a2, e1]
  cases h : firstFrom f 6 1 with
  | some u => rfl
  | none => exact absurd h hne

/-- putting the winner itself into slot 6 does not change the winner: the
    re-entrant write of `MinOnOffTask.present_value_change` never changes the
    present value again -/
theorem winner_set_six (cfg : Cfg V) (f : Nat → Option V) :
    winner cfg (setSlot f 6 (some (winner cfg f))) = winner cfg f := by
  have e1 : firstFrom (setSlot f 6 (some (winner cfg f))) 5 1 = firstFrom f 5 1 :=
    firstFrom_congr 5 1 (fun j h1 h2 => setSlot_other f _ (by omega))
  have a1 := firstFrom_append (setSlot f 6 (some (winner cfg f))) 5 11 1
  have a2 := firstFrom_append f 5 11 1
  have lhs : winner cfg (setSlot f 6 (some (winner cfg f))) =
      (match firstFrom (setSlot f 6 (some (winner cfg f))) (5 + 11) 1 with
       | some v => v | none => cfg.default) := rfl
  rw [lhs, a1, e1]
  cases h : firstFrom f 5 1 with
  | some u =>
    have : winner cfg f = u := by
      show (match firstFrom f (5 + 11) 1 with | some v => v | none => cfg.default) = u
      rw [a2, h]
    simp [this]
  | none =>
    simp [firstFrom]

/-! ## refused writes change nothing -/

/-- every refusal happens before anything is touched -/
theorem refused_unchanged (cfg : Cfg V) (n : Nat) (s : St V) (p : PropId) (v : Option V)
    (ai pr : Option Int) (e : CErr) (h : target cfg p v ai pr = .error e) :
    wp cfg (n + 1) s p v ai pr = (s, some e) := by
  simp [wp, h]

theorem target_bad_priority (cfg : Cfg V) (v : Option V) (ai : Option Int) (p : Int)
    (h : p < 1 ∨ 16 < p) :
    target cfg .presentValue v ai (some p) =
      .error (if p = 0 then .writeAccessDenied else .invalidArrayIndex) := by
  simp only [target, redirect]
  by_cases h0 : p = 0
  · simp [h0]
  · have : p < 1 ∨ p > 16 := by omega
    simp [h0, this]

/-- **bad_priority_refused**: a presentValue write with a priority outside 1..16
    raises and leaves the whole state unchanged -/
theorem bad_priority_refused (cfg : Cfg V) (s : St V) (v : Option V) (ai : Option Int) (p : Int)
    (h : p < 1 ∨ 16 < p) :
    step cfg s (.write .presentValue v ai (some p)) =
      (s, some (if p = 0 then .writeAccessDenied else .invalidArrayIndex)) := by
  simp only [step, FUEL]
  exact refused_unchanged cfg 7 s _ _ _ _ _ (target_bad_priority cfg v ai p h)

/-- non-vacuity: priority 17 on a state with content -/
example : (step (V := Nat) ⟨0, fun _ => none, false, 0, 1, 0, 0⟩
            ⟨fun i => if i = 8 then some 5 else none, 5, 0, none⟩
            (.write .presentValue (some 7) none (some 17))).2 = some .invalidArrayIndex := by decide

/-- **slot 0**: `priorityArray[0]` (the length) is refused, nothing changes -/
theorem slot_zero_refused (cfg : Cfg V) (s : St V) (v : Option V) (pr : Option Int) :
    step cfg s (.write .priorityArray v (some 0) pr) = (s, some .writeAccessDenied) := by
  simp only [step, FUEL]
  exact refused_unchanged cfg 7 s _ _ _ _ _ (by simp [target, redirect])

theorem bad_index_refused (cfg : Cfg V) (s : St V) (v : Option V) (pr : Option Int) (i : Int)
    (h : i < 0 ∨ 16 < i) :
    step cfg s (.write .priorityArray v (some i) pr) = (s, some .invalidArrayIndex) := by
  simp only [step, FUEL]
  refine refused_unchanged cfg 7 s _ _ _ _ _ ?_
  have h0 : i ≠ 0 := by omega
  have : i < 1 ∨ i > 16 := by omega
  simp [target, redirect, h0, this]

theorem whole_array_refused (cfg : Cfg V) (s : St V) (v : Option V) (pr : Option Int) :
    step cfg s (.write .priorityArray v none pr) = (s, some .writeAccessDenied) := by
  simp only [step, FUEL]
  exact refused_unchanged cfg 7 s _ _ _ _ _ (by simp [target, redirect])

/-- a value the datatype does not admit is refused before the slot is touched
    (the behaviour after fixes/C17-slot-write-validate.patch) -/
theorem bad_value_refused (cfg : Cfg V) (s : St V) (v : V) (ai : Option Int) (p : Int) (e : CErr)
    (hp : 1 ≤ p ∧ p ≤ 16) (hv : cfg.check v = some e) :
    step cfg s (.write .presentValue (some v) ai (some p)) = (s, some e) := by
  simp only [step, FUEL]
  refine refused_unchanged cfg 7 s _ _ _ _ _ ?_
  have h0 : p ≠ 0 := by omega
  have : ¬ (p < 1 ∨ p > 16) := by omega
  simp [target, redirect, h0, this, checkValue, hv]

/-- **no_priority_is_16** -/
theorem no_priority_is_16 (cfg : Cfg V) (s : St V) (v : Option V) (ai : Option Int) :
    step cfg s (.write .presentValue v ai none) = step cfg s (.write .presentValue v ai (some 16)) := by
  simp [step, wp, FUEL, target, redirect]

/-- an accepted presentValue command addresses exactly its priority -/
theorem target_ok (cfg : Cfg V) (v : Option V) (ai : Option Int) (p : Int)
    (hp : 1 ≤ p ∧ p ≤ 16) (hv : checkValue cfg v = none) :
    target cfg .presentValue v ai (some p) = .ok p.toNat := by
  have h0 : p ≠ 0 := by omega
  have : ¬ (p < 1 ∨ p > 16) := by omega
  simp [target, redirect, h0, this, hv]

/-- whatever `target` accepts is one of the sixteen slots -/
theorem target_range (cfg : Cfg V) (p : PropId) (v : Option V) (ai pr : Option Int) (i : Nat)
    (h : target cfg p v ai pr = .ok i) : 1 ≤ i ∧ i ≤ 16 := by
  unfold target at h
  split at h <;> try (simp at h)
  rename_i j _
  by_cases h0 : j = 0
  · simp [h0] at h
  · by_cases h1 : j < 1 ∨ j > 16
    · simp [h0, h1] at h
    · simp [h0, h1] at h
      split at h <;> simp at h
      omega

/-! ## the accepted write in closed form; the recursion never nests twice -/

theorem target_six (cfg : Cfg V) (x : V) :
    target cfg .presentValue (some x) none (some 6) =
      match cfg.check x with
      | some e => .error e
      | none => .ok 6 := by
  simp only [target, redirect, checkValue]
  cases cfg.check x <;> simp

/-- the re-entrant `WriteProperty("presentValue", new_value, priority=6)` made by the
    monitor, on a state whose present value is already the winner: slot 6 is set
    and nothing else happens (or the value check refuses) — no deeper call -/
theorem wp_nested (cfg : Cfg V) (n : Nat) (s2 : St V) (hw : s2.present = winner cfg s2.slots) :
    wp cfg (n + 1) s2 .presentValue (some s2.present) none (some 6) =
      match cfg.check s2.present with
      | some e => (s2, some e)
      | none => ({ s2 with slots := setSlot s2.slots 6 (some s2.present) }, none) := by
  have key : winner cfg (setSlot s2.slots 6 (some s2.present)) = s2.present := by
    have := winner_set_six cfg s2.slots
    rw [← hw] at this
    exact this
  simp only [wp, target_six]
  cases cfg.check s2.present with
  | some e => rfl
  | none => simp [key]

/-- what an accepted write (slot `i`, value or null) does — no recursion left -/
def accept (cfg : Cfg V) (s : St V) (i : Nat) (value : Option V) : St V × Option CErr :=
  let s1 : St V := { s with slots := setSlot s.slots i value }
  let w := winner cfg s1.slots
  if w = s1.present then (s1, none)
  else
    let s2 : St V := { s1 with present := w }
    if cfg.minOnOff = false then (s2, none)
    else
      match holdDelay cfg w with
      | none => (s2, some .valueError)
      | some 0 => (s2, none)
      | some (d + 1) =>
        match cfg.check w with
        | some e => (s2, some e)
        | none =>
          ({ s2 with slots := setSlot s2.slots 6 (some w),
                     deadline := some (s2.now + 1000000 * (d + 1)) }, none)

theorem wp_accept (cfg : Cfg V) (n : Nat) (s : St V) (p : PropId) (v : Option V)
    (ai pr : Option Int) (i : Nat) (h : target cfg p v ai pr = .ok i) :
    wp cfg (n + 2) s p v ai pr = accept cfg s i v := by
  rw [wp]
  simp only [h, accept]
  by_cases hw : winner cfg (setSlot s.slots i v) = s.present
  · simp [hw]
  · have hw' : ¬ s.present = winner cfg (setSlot s.slots i v) := fun h => hw h.symm
    simp only [hw, hw', if_false]
    by_cases hm : cfg.minOnOff = false
    · simp [hm]
    · simp only [hm]
      cases hd : holdDelay cfg (winner cfg (setSlot s.slots i v)) with
      | none => rfl
      | some d =>
        cases d with
        | zero => rfl
        | succ d =>
          simp only []
          have := wp_nested cfg n
            ({ s with slots := setSlot s.slots i v, present := winner cfg (setSlot s.slots i v) } : St V) rfl
          simp only [] at this
          rw [this]
          cases cfg.check (winner cfg (setSlot s.slots i v)) with
          | some e => rfl
          | none => rfl

/-- **the monitor's re-entrant call never nests deeper than once**: any recursion
    depth ≥ 2 gives the same function -/
theorem wp_fuel_irrelevant (cfg : Cfg V) (n : Nat) (s : St V) (p : PropId) (v : Option V)
    (ai pr : Option Int) : wp cfg (n + 2) s p v ai pr = wp cfg 2 s p v ai pr := by
  cases h : target cfg p v ai pr with
  | error e => rw [refused_unchanged cfg (n + 1) s p v ai pr e h, refused_unchanged cfg 1 s p v ai pr e h]
  | ok i => rw [wp_accept cfg n s p v ai pr i h, wp_accept cfg 0 s p v ai pr i h]

theorem step_write (cfg : Cfg V) (s : St V) (p : PropId) (v : Option V) (ai pr : Option Int) :
    step cfg s (.write p v ai pr) =
      match target cfg p v ai pr with
      | .error e => (s, some e)
      | .ok i => accept cfg s i v := by
  simp only [step, FUEL]
  cases h : target cfg p v ai pr with
  | error e => exact refused_unchanged cfg 7 s p v ai pr e h
  | ok i => exact wp_accept cfg 6 s p v ai pr i h

/-! ## present_is_winner -/

/-- the property's first clause as a state predicate -/
def Inv (cfg : Cfg V) (s : St V) : Prop := s.present = winner cfg s.slots

/-- an accepted write ALWAYS ends with present value = winner (whatever the state before) -/
theorem accept_inv (cfg : Cfg V) (s : St V) (i : Nat) (v : Option V) :
    Inv cfg (accept cfg s i v).1 := by
  unfold accept Inv
  by_cases hw : winner cfg (setSlot s.slots i v) = s.present
  · simp [hw]
  · simp only [hw, if_false]
    by_cases hm : cfg.minOnOff = false
    · simp [hm]
    · simp only [hm]
      cases holdDelay cfg (winner cfg (setSlot s.slots i v)) with
      | none => rfl
      | some d =>
        cases d with
        | zero => rfl
        | succ d =>
          simp only []
          cases cfg.check (winner cfg (setSlot s.slots i v)) with
          | some e => rfl
          | none => exact (winner_set_six cfg (setSlot s.slots i v)).symm

theorem step_inv (cfg : Cfg V) (s : St V) (e : Event V) (h : Inv cfg s) :
    Inv cfg (step cfg s e).1 := by
  cases e with
  | write p v ai pr =>
    rw [step_write]
    cases target cfg p v ai pr with
    | error e => exact h
    | ok i => exact accept_inv cfg s i v
  | tick t =>
    simp only [step]
    cases hd : s.deadline with
    | none => exact h
    | some dl =>
      simp only []
      by_cases hdl : dl ≤ max s.now t
      · simp only [hdl, if_true]
        have := step_write cfg ({ s with now := max s.now t, deadline := none } : St V)
          .presentValue none none (some 6)
        simp only [step] at this
        rw [this]
        cases target cfg .presentValue (none : Option V) none (some 6) with
        | error e => exact h
        | ok i => exact accept_inv cfg _ i none
      · simp only [hdl, if_false]; exact h

/-- **present_is_winner**: after ANY event sequence (commands at any priority,
    refused commands, array-index writes, clock ticks) the present value is the
    value of the lowest-numbered non-null slot, or the default (`winner_lowest`,
    `winner_default`, `winner_cases` say what `winner` is) -/
theorem present_is_winner (cfg : Cfg V) (s : St V) (evs : List (Event V)) (h : Inv cfg s) :
    (run cfg s evs).present = winner cfg (run cfg s evs).slots := by
  induction evs generalizing s with
  | nil => exact h
  | cons e es ih => exact ih (step cfg s e).1 (step_inv cfg s e h)

/-- a fresh object (sixteen nulls, present value = relinquish default) satisfies it -/
theorem present_is_winner_init (cfg : Cfg V) (now : Nat) (evs : List (Event V)) :
    (run cfg (init cfg.default now) evs).present =
      winner cfg (run cfg (init cfg.default now) evs).slots :=
  present_is_winner cfg _ evs (by
    show cfg.default = winner cfg (fun _ => none)
    exact (winner_default cfg _ (fun _ _ _ => rfl)).symm)

/-- non-vacuity: a concrete history over five priorities, checked by evaluation -/
example :
    let cfg : Cfg Nat := ⟨9, fun _ => none, false, 0, 1, 0, 0⟩
    let s := run cfg (init 9)
      [command (some 5) (some 8), command (some 7) none, command (some 3) (some 2),
       command none (some 2), command (some 4) (some 17), command none (some 8)]
    s.present = 7 ∧ s.slots 16 = some 7 ∧ s.slots 8 = none := by decide

/-! ## slot_holds_last and the refinement to "priority ↦ last command" -/

/-- the slot an event commands and what it puts there, if it is an accepted write -/
def cmdSlot (cfg : Cfg V) : Event V → Option (Nat × Option V)
  | .write p v ai pr =>
    match target cfg p v ai pr with
    | .ok i => some (i, v)
    | .error _ => none
  | .tick _ => none

/-- "the last value commanded at priority p" in a history; `none` = never commanded,
    `some none` = last command was a relinquish -/
def lastAt (cfg : Cfg V) (p : Nat) : List (Event V) → Option (Option V)
  | [] => none
  | e :: es =>
    match lastAt cfg p es with
    | some x => some x
    | none =>
      match cmdSlot cfg e with
      | some (i, v) => if i = p then some v else none
      | none => none

theorem accept_slots_ne6 (cfg : Cfg V) (s : St V) (i : Nat) (v : Option V) (p : Nat) (hp : p ≠ 6) :
    (accept cfg s i v).1.slots p = setSlot s.slots i v p := by
  unfold accept
  by_cases hw : winner cfg (setSlot s.slots i v) = s.present
  · simp [hw]
  · simp only [hw, if_false]
    by_cases hm : cfg.minOnOff = false
    · simp [hm]
    · simp only [hm]
      cases holdDelay cfg (winner cfg (setSlot s.slots i v)) with
      | none => rfl
      | some d =>
        cases d with
        | zero => rfl
        | succ d =>
          simp only []
          cases cfg.check (winner cfg (setSlot s.slots i v)) with
          | some e => rfl
          | none => exact setSlot_other _ _ hp

theorem target_fire (cfg : Cfg V) :
    target cfg .presentValue (none : Option V) none (some 6) = .ok 6 := by
  simp [target, redirect, checkValue]

/-- what a tick does: nothing but moving the clock, or `process_task` -/
theorem step_tick (cfg : Cfg V) (s : St V) (t : Nat) :
    step cfg s (.tick t) =
      match s.deadline with
      | none => ({ s with now := max s.now t }, none)
      | some dl =>
        if dl ≤ max s.now t then
          accept cfg { s with now := max s.now t, deadline := none } 6 none
        else ({ s with now := max s.now t }, none) := by
  simp only [step]
  cases hd : s.deadline with
  | none => rfl
  | some dl =>
    simp only []
    by_cases hdl : dl ≤ max s.now t
    · simp only [hdl, if_true]
      have := step_write cfg ({ s with now := max s.now t, deadline := none } : St V)
        .presentValue none none (some 6)
      simp only [step, target_fire] at this
      exact this
    · simp only [hdl, if_false]

theorem step_slots_ne6 (cfg : Cfg V) (s : St V) (e : Event V) (p : Nat) (hp : p ≠ 6) :
    (step cfg s e).1.slots p =
      match cmdSlot cfg e with
      | some (i, v) => setSlot s.slots i v p
      | none => s.slots p := by
  cases e with
  | write pr v ai prio =>
    rw [step_write]
    simp only [cmdSlot]
    cases target cfg pr v ai prio with
    | error e => rfl
    | ok i => exact accept_slots_ne6 cfg s i v p hp
  | tick t =>
    rw [step_tick]
    simp only [cmdSlot]
    cases s.deadline with
    | none => rfl
    | some dl =>
      simp only []
      by_cases hdl : dl ≤ max s.now t
      · simp only [hdl, if_true]
        rw [accept_slots_ne6 cfg _ 6 none p hp]
        exact setSlot_other _ _ hp
      · simp only [hdl, if_false]

/-- **slot_holds_last** (every slot except the one the min on/off mechanism owns):
    after any history slot `p` holds exactly the last value commanded at `p` —
    written without priority counts as 16 (`no_priority_is_16`), refused commands
    do not count — or what it held before if `p` was never commanded -/
theorem slot_holds_last (cfg : Cfg V) (s : St V) (evs : List (Event V)) (p : Nat) (hp : p ≠ 6) :
    (run cfg s evs).slots p =
      match lastAt cfg p evs with
      | some x => x
      | none => s.slots p := by
  induction evs generalizing s with
  | nil => rfl
  | cons e es ih =>
    show (run cfg (step cfg s e).1 es).slots p = _
    rw [ih (step cfg s e).1]
    simp only [lastAt]
    cases lastAt cfg p es with
    | some x => rfl
    | none =>
      simp only []
      rw [step_slots_ne6 cfg s e p hp]
      cases cmdSlot cfg e with
      | none => rfl
      | some iv =>
        obtain ⟨i, v⟩ := iv
        simp only []
        by_cases hip : i = p
        · simp [hip]
        · have : p ≠ i := fun h => hip h.symm
          simp [hip, setSlot_other _ _ this]

/-- objects without the MinOnOff mix-in: an accepted write touches its slot only
    and never arms a timer -/
theorem accept_plain (cfg : Cfg V) (s : St V) (i : Nat) (v : Option V) (hm : cfg.minOnOff = false) :
    (accept cfg s i v).1.slots = setSlot s.slots i v ∧
    (accept cfg s i v).1.deadline = s.deadline ∧ (accept cfg s i v).2 = none := by
  unfold accept
  by_cases hw : winner cfg (setSlot s.slots i v) = s.present
  · simp [hw]
  · simp [hw, hm]

theorem step_plain (cfg : Cfg V) (s : St V) (e : Event V) (hm : cfg.minOnOff = false)
    (hd : s.deadline = none) :
    (step cfg s e).1.slots =
      (match cmdSlot cfg e with
       | some (i, v) => setSlot s.slots i v
       | none => s.slots) ∧ (step cfg s e).1.deadline = none := by
  cases e with
  | write pr v ai prio =>
    rw [step_write]
    simp only [cmdSlot]
    cases target cfg pr v ai prio with
    | error e => exact ⟨rfl, hd⟩
    | ok i =>
      have := accept_plain cfg s i v hm
      exact ⟨this.1, by rw [this.2.1]; exact hd⟩
  | tick t =>
    rw [step_tick, hd]
    exact ⟨rfl, rfl⟩

/-- **slot_holds_last**, all sixteen slots, for the 18 classes without min on/off -/
theorem slot_holds_last_all (cfg : Cfg V) (s : St V) (evs : List (Event V)) (p : Nat)
    (hm : cfg.minOnOff = false) (hd : s.deadline = none) :
    (run cfg s evs).slots p =
      match lastAt cfg p evs with
      | some x => x
      | none => s.slots p := by
  induction evs generalizing s with
  | nil => rfl
  | cons e es ih =>
    have hs := step_plain cfg s e hm hd
    show (run cfg (step cfg s e).1 es).slots p = _
    rw [ih (step cfg s e).1 hs.2]
    simp only [lastAt]
    cases lastAt cfg p es with
    | some x => rfl
    | none =>
      simp only []
      rw [hs.1]
      cases cmdSlot cfg e with
      | none => rfl
      | some iv =>
        obtain ⟨i, v⟩ := iv
        simp only []
        by_cases hip : i = p
        · simp [hip]
        · have : p ≠ i := fun h => hip h.symm
          simp [hip, setSlot_other _ _ this]

/-- the abstract specification: a map priority ↦ last command, nothing else -/
def absStep (cfg : Cfg V) (a : Nat → Option V) (e : Event V) : Nat → Option V :=
  match cmdSlot cfg e with
  | some (i, v) => setSlot a i v
  | none => a

def absRun (cfg : Cfg V) (a : Nat → Option V) (evs : List (Event V)) : Nat → Option V :=
  evs.foldl (absStep cfg) a

theorem absRun_at (cfg : Cfg V) (a : Nat → Option V) (evs : List (Event V)) (p : Nat) :
    absRun cfg a evs p =
      match lastAt cfg p evs with
      | some x => x
      | none => a p := by
  induction evs generalizing a with
  | nil => rfl
  | cons e es ih =>
    show absRun cfg (absStep cfg a e) es p = _
    rw [ih (absStep cfg a e)]
    simp only [lastAt]
    cases lastAt cfg p es with
    | some x => rfl
    | none =>
      simp only [absStep]
      cases cmdSlot cfg e with
      | none => rfl
      | some iv =>
        obtain ⟨i, v⟩ := iv
        simp only []
        by_cases hip : i = p
        · simp [hip]
        · have : p ≠ i := fun h => hip h.symm
          simp [hip, setSlot_other _ _ this]

/-- **refinement**: for an object without min on/off the concrete state is a
    function of the abstract map: the slot array IS the map, and the present
    value is its winner -/
theorem refines_abstract (cfg : Cfg V) (s : St V) (evs : List (Event V))
    (hm : cfg.minOnOff = false) (hd : s.deadline = none) (hi : Inv cfg s) :
    (run cfg s evs).slots = absRun cfg s.slots evs ∧
    (run cfg s evs).present = winner cfg (absRun cfg s.slots evs) := by
  have hs : (run cfg s evs).slots = absRun cfg s.slots evs := by
    funext p
    rw [slot_holds_last_all cfg s evs p hm hd, absRun_at]
  exact ⟨hs, by rw [← hs]; exact present_is_winner cfg s evs hi⟩

/-- … and for the binary objects with min on/off it is one on every slot but 6,
    with the present value still the winner of the concrete array -/
theorem refines_abstract_minonoff (cfg : Cfg V) (s : St V) (evs : List (Event V)) (hi : Inv cfg s) :
    (∀ p, p ≠ 6 → (run cfg s evs).slots p = absRun cfg s.slots evs p) ∧
    (run cfg s evs).present = winner cfg (run cfg s evs).slots :=
  ⟨fun p hp => by rw [slot_holds_last cfg s evs p hp, absRun_at], present_is_winner cfg s evs hi⟩

/-- non-vacuity of `lastAt`: writes, a relinquish, a refused write and a write
    without priority -/
example :
    let cfg : Cfg Nat := ⟨0, fun _ => none, false, 0, 1, 0, 0⟩
    let evs := [command (some 5) (some 8), command (some 6) none, command none (some 8),
                command (some 9) (some 0), command (some 7) (some 16)]
    lastAt cfg 8 evs = some none ∧ lastAt cfg 16 evs = some (some 7) ∧ lastAt cfg 3 evs = none := by
  decide

/-! ## minimum on / off time: a timed invariant over the event sequence -/

/-- **hold_starts**: on an object with the MinOnOff mix-in, a command that changes
    the present value to a state `w` with a non-zero minimum time puts `w` into
    slot 6 and arms the timer at `now + minimum time` -/
theorem hold_starts (cfg : Cfg V) (s : St V) (i : Nat) (x : Option V) (d : Nat)
    (hm : cfg.minOnOff = true)
    (hchg : winner cfg (setSlot s.slots i x) ≠ s.present)
    (hdel : holdDelay cfg (winner cfg (setSlot s.slots i x)) = some (d + 1))
    (hc : cfg.check (winner cfg (setSlot s.slots i x)) = none) :
    accept cfg s i x =
      ({ slots := setSlot (setSlot s.slots i x) 6 (some (winner cfg (setSlot s.slots i x))),
         present := winner cfg (setSlot s.slots i x),
         now := s.now,
         deadline := some (s.now + 1000000 * (d + 1)) }, none) := by
  unfold accept
  simp [hchg, hm, hdel, hc]

/-- events that neither reach the timer's deadline nor command priority 1..6
    (priorities 1..5 legitimately override the mechanism, 6 is its own slot) -/
def quiet (cfg : Cfg V) (dl : Nat) : Event V → Prop
  | .tick t => t < dl
  | .write p v ai pr =>
    match target cfg p v ai pr with
    | .ok i => 6 < i
    | .error _ => True

theorem hold_step (cfg : Cfg V) (s : St V) (e : Event V) (v : V) (dl : Nat)
    (hi : Inv cfg s) (h6 : s.slots 6 = some v) (hd : s.deadline = some dl) (hn : s.now < dl)
    (hq : quiet cfg dl e) :
    Inv cfg (step cfg s e).1 ∧ (step cfg s e).1.slots 6 = some v ∧
    (step cfg s e).1.deadline = some dl ∧ (step cfg s e).1.now < dl ∧
    (step cfg s e).1.present = s.present := by
  cases e with
  | write p x ai pr =>
    rw [step_write]
    simp only [quiet] at hq
    cases ht : target cfg p x ai pr with
    | error err => exact ⟨hi, h6, hd, hn, rfl⟩
    | ok i =>
      rw [ht] at hq
      simp only [] at hq
      have hw : winner cfg (setSlot s.slots i x) = s.present := by
        rw [winner_above_six cfg s.slots i x v hq h6]; exact hi.symm
      have hne : (6 : Nat) ≠ i := by omega
      have : accept cfg s i x = ({ s with slots := setSlot s.slots i x }, none) := by
        unfold accept; simp [hw]
      dsimp only
      rw [this]
      refine ⟨?_, ?_, hd, hn, rfl⟩
      · show s.present = winner cfg (setSlot s.slots i x)
        exact hw.symm
      · show setSlot s.slots i x 6 = some v
        rw [setSlot_other _ _ hne]; exact h6
  | tick t =>
    simp only [quiet] at hq
    have hlt : max s.now t < dl := by omega
    have hnot : ¬ dl ≤ max s.now t := by omega
    have : step cfg s (.tick t) = ({ s with now := max s.now t }, none) := by
      rw [step_tick]; simp [hd, hnot]
    rw [this]
    exact ⟨hi, h6, hd, hlt, rfl⟩

/-- **hold_persists** (the timed invariant): while the timer is armed for `dl`,
    ANY sequence of events that stays before `dl` and below priority 6 leaves
    slot 6, the timer and the present value exactly as they are -/
theorem hold_persists (cfg : Cfg V) (s : St V) (evs : List (Event V)) (v : V) (dl : Nat)
    (hi : Inv cfg s) (h6 : s.slots 6 = some v) (hd : s.deadline = some dl) (hn : s.now < dl)
    (hq : ∀ e ∈ evs, quiet cfg dl e) :
    (run cfg s evs).slots 6 = some v ∧ (run cfg s evs).deadline = some dl ∧
    (run cfg s evs).present = s.present := by
  induction evs generalizing s with
  | nil => exact ⟨h6, hd, rfl⟩
  | cons e es ih =>
    obtain ⟨a, b, c, d, f⟩ := hold_step cfg s e v dl hi h6 hd hn (hq e (List.mem_cons_self))
    have := ih (step cfg s e).1 a b c d (fun e' he' => hq e' (List.mem_cons_of_mem _ he'))
    exact ⟨this.1, this.2.1, by rw [← f]; exact this.2.2⟩

/-- **min_on_hold**: a command that turns a binary object *active* is followed by
    `minimumOnTime` seconds during which — whatever is commanded at priorities
    7..16, relinquished, refused, and however often the scheduler looks at the
    clock — the object stays active with `active` in slot 6 -/
theorem min_on_hold (cfg : Cfg V) (s : St V) (p : PropId) (x : Option V) (ai pr : Option Int)
    (i d : Nat) (evs : List (Event V))
    (hm : cfg.minOnOff = true) (hne : cfg.active ≠ cfg.inactive)
    (hon : cfg.minOn = d + 1) (hc : cfg.check cfg.active = none)
    (ht : target cfg p x ai pr = .ok i)
    (hnew : winner cfg (setSlot s.slots i x) = cfg.active) (hold : s.present ≠ cfg.active)
    (hq : ∀ e ∈ evs, quiet cfg (s.now + 1000000 * cfg.minOn) e) :
    let s' := run cfg (step cfg s (.write p x ai pr)).1 evs
    s'.present = cfg.active ∧ s'.slots 6 = some cfg.active ∧
    s'.deadline = some (s.now + 1000000 * cfg.minOn) := by
  have hdel : holdDelay cfg (winner cfg (setSlot s.slots i x)) = some (d + 1) := by
    rw [hnew]; simp [holdDelay, hne, hon]
  have hs := hold_starts cfg s i x d hm (by rw [hnew]; exact fun h => hold h.symm) hdel
    (by rw [hnew]; exact hc)
  have hstep : step cfg s (.write p x ai pr) = accept cfg s i x := by rw [step_write, ht]
  intro s'
  have hi1 : Inv cfg (step cfg s (.write p x ai pr)).1 := by rw [hstep]; exact accept_inv cfg s i x
  rw [hon] at hq
  have := hold_persists cfg (step cfg s (.write p x ai pr)).1 evs cfg.active
    (s.now + 1000000 * (d + 1)) hi1
    (by rw [hstep, hs]; simp [hnew])
    (by rw [hstep, hs])
    (by rw [hstep, hs]; show s.now < _; omega)
    hq
  refine ⟨?_, this.1, by rw [hon]; exact this.2.1⟩
  show (run cfg (step cfg s (.write p x ai pr)).1 evs).present = cfg.active
  rw [this.2.2, hstep, hs]
  exact hnew

/-- **min_off_hold**: the same for a new *inactive* state and `minimumOffTime` -/
theorem min_off_hold (cfg : Cfg V) (s : St V) (p : PropId) (x : Option V) (ai pr : Option Int)
    (i d : Nat) (evs : List (Event V))
    (hm : cfg.minOnOff = true)
    (hoff : cfg.minOff = d + 1) (hc : cfg.check cfg.inactive = none)
    (ht : target cfg p x ai pr = .ok i)
    (hnew : winner cfg (setSlot s.slots i x) = cfg.inactive) (hold : s.present ≠ cfg.inactive)
    (hq : ∀ e ∈ evs, quiet cfg (s.now + 1000000 * cfg.minOff) e) :
    let s' := run cfg (step cfg s (.write p x ai pr)).1 evs
    s'.present = cfg.inactive ∧ s'.slots 6 = some cfg.inactive ∧
    s'.deadline = some (s.now + 1000000 * cfg.minOff) := by
  have hdel : holdDelay cfg (winner cfg (setSlot s.slots i x)) = some (d + 1) := by
    rw [hnew]; simp [holdDelay, hoff]
  have hs := hold_starts cfg s i x d hm (by rw [hnew]; exact fun h => hold h.symm) hdel
    (by rw [hnew]; exact hc)
  have hstep : step cfg s (.write p x ai pr) = accept cfg s i x := by rw [step_write, ht]
  intro s'
  have hi1 : Inv cfg (step cfg s (.write p x ai pr)).1 := by rw [hstep]; exact accept_inv cfg s i x
  rw [hoff] at hq
  have := hold_persists cfg (step cfg s (.write p x ai pr)).1 evs cfg.inactive
    (s.now + 1000000 * (d + 1)) hi1
    (by rw [hstep, hs]; simp [hnew])
    (by rw [hstep, hs])
    (by rw [hstep, hs]; show s.now < _; omega)
    hq
  refine ⟨?_, this.1, by rw [hoff]; exact this.2.1⟩
  show (run cfg (step cfg s (.write p x ai pr)).1 evs).present = cfg.inactive
  rw [this.2.2, hstep, hs]
  exact hnew

/-- **hold_released**: when the scheduler looks at the clock at or after the
    deadline the slot is released; if that changes the present value to a state
    with a minimum time of its own, that state is held in turn -/
theorem hold_released (cfg : Cfg V) (s : St V) (t dl : Nat)
    (hd : s.deadline = some dl) (hdl : dl ≤ max s.now t)
    (hok : (step cfg s (.tick t)).2 = none) :
    let s' := (step cfg s (.tick t)).1
    (s'.slots 6 = none ∧ s'.deadline = none) ∨
    (s'.present ≠ s.present ∧ s'.slots 6 = some s'.present ∧
      ∃ d, holdDelay cfg s'.present = some (d + 1) ∧
           s'.deadline = some (max s.now t + 1000000 * (d + 1))) := by
  rw [step_tick, hd] at hok ⊢
  simp only [hdl, if_true] at hok ⊢
  unfold accept at hok ⊢
  simp only [] at hok ⊢
  by_cases hw : winner cfg (setSlot s.slots 6 none) = s.present
  · left; simp [hw]
  · simp only [hw, if_false] at hok ⊢
    by_cases hm : cfg.minOnOff = false
    · left; simp [hm]
    · simp only [hm] at hok ⊢
      cases hdel : holdDelay cfg (winner cfg (setSlot s.slots 6 none)) with
      | none => rw [hdel] at hok; simp at hok
      | some d =>
        rw [hdel] at hok
        cases d with
        | zero => left; simp
        | succ d =>
          simp only [] at hok ⊢
          cases hc : cfg.check (winner cfg (setSlot s.slots 6 none)) with
          | some e => rw [hc] at hok; simp at hok
          | none =>
            right
            refine ⟨hw, by simp, d, hdel, rfl⟩

theorem setSlot_setSlot (f : Nat → Option V) (i : Nat) (x y : Option V) :
    setSlot (setSlot f i x) i y = setSlot f i y := by
  funext j
  by_cases h : j = i <;> simp [setSlot, h]

/-- the only way an accepted write arms the timer: the hold branch -/
theorem accept_arms (cfg : Cfg V) (s0 : St V) (i : Nat) (x : Option V) (dl2 : Nat)
    (h0 : s0.deadline = none) (hd2 : (accept cfg s0 i x).1.deadline = some dl2) :
    ∃ d, accept cfg s0 i x =
      ({ slots := setSlot (setSlot s0.slots i x) 6 (some (winner cfg (setSlot s0.slots i x))),
         present := winner cfg (setSlot s0.slots i x),
         now := s0.now,
         deadline := some (s0.now + 1000000 * (d + 1)) }, none) := by
  revert hd2
  unfold accept
  simp only []
  by_cases hw : winner cfg (setSlot s0.slots i x) = s0.present
  · simp [hw, h0]
  · simp only [hw, if_false]
    by_cases hm : cfg.minOnOff = false
    · simp [hm, h0]
    · simp only [hm]
      cases holdDelay cfg (winner cfg (setSlot s0.slots i x)) with
      | none => simp [h0]
      | some d =>
        cases d with
        | zero => simp [h0]
        | succ d =>
          simp only []
          cases cfg.check (winner cfg (setSlot s0.slots i x)) with
          | some e => simp [h0]
          | none => intro _; exact ⟨d, rfl⟩

/-- a firing on a state whose slot 6 holds the present value, which is also the
    winner of the other slots: the slot is released and nothing else happens -/
theorem fire_settled (cfg : Cfg V) (s1 : St V) (f : Nat → Option V) (t2 dl2 : Nat)
    (hs : s1.slots = setSlot f 6 (some (winner cfg (setSlot f 6 none))))
    (hp : s1.present = winner cfg (setSlot f 6 none))
    (hd : s1.deadline = some dl2) (hdl : dl2 ≤ max s1.now t2) :
    step cfg s1 (.tick t2) =
      ({ slots := setSlot f 6 none, present := s1.present, now := max s1.now t2,
         deadline := none }, none) := by
  rw [step_tick, hd]
  simp only [hdl, if_true]
  unfold accept
  simp [hs, hp, setSlot_setSlot]

/-- **the release cascade stops after two firings**: if the tick that releases slot 6
    changes the present value and thereby starts a hold for the new state, the tick
    that ends *that* hold finds the present value already equal to the winner —
    slot 6 is released for good, no timer is left, the present value stays (no
    commands in between) -/
theorem second_fire_quiescent (cfg : Cfg V) (s : St V) (t1 t2 dl dl2 : Nat)
    (hd : s.deadline = some dl) (hdl : dl ≤ max s.now t1)
    (hd2 : (step cfg s (.tick t1)).1.deadline = some dl2)
    (hdl2 : dl2 ≤ max (step cfg s (.tick t1)).1.now t2) :
    (step cfg (step cfg s (.tick t1)).1 (.tick t2)).1.slots 6 = none ∧
    (step cfg (step cfg s (.tick t1)).1 (.tick t2)).1.deadline = none ∧
    (step cfg (step cfg s (.tick t1)).1 (.tick t2)).2 = none ∧
    (step cfg (step cfg s (.tick t1)).1 (.tick t2)).1.present = (step cfg s (.tick t1)).1.present := by
  have h1 : step cfg s (.tick t1) =
      accept cfg { s with now := max s.now t1, deadline := none } 6 none := by
    rw [step_tick, hd]; simp [hdl]
  obtain ⟨d, ha⟩ := accept_arms cfg { s with now := max s.now t1, deadline := none } 6 none dl2 rfl
    (by rw [← h1]; exact hd2)
  have hs1 : (step cfg s (.tick t1)).1.slots =
      setSlot s.slots 6 (some (winner cfg (setSlot s.slots 6 none))) := by
    rw [h1, ha]; exact setSlot_setSlot _ _ _ _
  have hp1 : (step cfg s (.tick t1)).1.present = winner cfg (setSlot s.slots 6 none) := by
    rw [h1, ha]
  rw [fire_settled cfg (step cfg s (.tick t1)).1 s.slots t2 dl2 hs1 hp1 hd2 hdl2]
  exact ⟨by show setSlot s.slots 6 none 6 = none; exact setSlot_same _ _ _, rfl, rfl, rfl⟩

/-- **a command never disarms the timer**: whatever is written (also an override at
    priority 1..5 that flips the state to one without a minimum time), the release
    task stays scheduled — at its old deadline, or re-armed for a new hold.  With
    `hold_released` this is the clause "and release the slot afterwards" for holds
    that are overridden while they run. -/
theorem write_keeps_timer (cfg : Cfg V) (s : St V) (p : PropId) (v : Option V) (ai pr : Option Int) :
    (step cfg s (.write p v ai pr)).1.deadline = s.deadline ∨
    ∃ d, (step cfg s (.write p v ai pr)).1.deadline = some (s.now + 1000000 * (d + 1)) := by
  rw [step_write]
  cases target cfg p v ai pr with
  | error e => left; rfl
  | ok i =>
    simp only []
    unfold accept
    by_cases hw : winner cfg (setSlot s.slots i v) = s.present
    · left; simp [hw]
    · simp only [hw, if_false]
      by_cases hm : cfg.minOnOff = false
      · left; simp [hm]
      · simp only [hm]
        cases holdDelay cfg (winner cfg (setSlot s.slots i v)) with
        | none => left; rfl
        | some d =>
          cases d with
          | zero => left; rfl
          | succ d =>
            simp only []
            cases cfg.check (winner cfg (setSlot s.slots i v)) with
            | some e => left; rfl
            | none => right; exact ⟨d, rfl⟩

theorem write_timer_armed (cfg : Cfg V) (s : St V) (p : PropId) (v : Option V) (ai pr : Option Int)
    (h : s.deadline.isSome) : (step cfg s (.write p v ai pr)).1.deadline.isSome := by
  rcases write_keeps_timer cfg s p v ai pr with h1 | ⟨d, h1⟩
  · rw [h1]; exact h
  · rw [h1]; rfl

/-- non-vacuity: minimumOnTime 5 s, no minimumOffTime; active at priority 10, flipped by
    priority 3 after 2 s (the new state has no minimum time): slot 6 keeps `active`, the
    timer stays at 5 s, and the tick at 5 s releases the slot -/
example :
    let cfg : Cfg Nat := ⟨0, fun _ => none, true, 0, 1, 5, 0⟩
    let s1 := run cfg (init 0) [command (some 1) (some 10), .tick 2000000, command (some 0) (some 3)]
    let s2 := run cfg s1 [.tick 4999999]
    let s3 := run cfg s2 [.tick 5000000]
    (s1.present = 0 ∧ s1.slots 6 = some 1 ∧ s1.deadline = some 5000000) ∧
    (s2.slots 6 = some 1) ∧ (s3.slots 6 = none ∧ s3.deadline = none ∧ s3.present = 0) := by
  decide

/-- non-vacuity (and the repaired direction of the two times): minimumOnTime 10 s,
    minimumOffTime 3 s; an *active* command at priority 8 is held 10 s — still held
    after a relinquish and 9.999999 s, released by the tick at 10 s, after which the
    new inactive state is held for 3 s -/
example :
    let cfg : Cfg Nat := ⟨0, fun _ => none, true, 0, 1, 10, 3⟩
    let s1 := run cfg (init 0) [command (some 1) (some 8), .tick 2000000, command none (some 8),
                                .tick 9999999]
    let s2 := run cfg s1 [.tick 10000000]
    let s3 := run cfg s2 [.tick 12999999]
    let s4 := run cfg s3 [.tick 13000000]
    (s1.present = 1 ∧ s1.slots 6 = some 1 ∧ s1.deadline = some 10000000) ∧
    (s2.present = 0 ∧ s2.slots 6 = some 0 ∧ s2.deadline = some 13000000) ∧
    (s3.slots 6 = some 0) ∧ (s4.slots 6 = none ∧ s4.deadline = none ∧ s4.present = 0) := by
  decide

/-! ## user monitors that command the object from inside the callback (wave 5) -/

theorem runRules_inv (cfg : Cfg V)
    (call : MSt V → Option V → Option Int → MSt V × Option CErr)
    (hcall : ∀ m v p, Inv cfg m.st → Inv cfg (call m v p).1.st)
    (new : V) (rs : List (Rule V)) (k : Nat) (m : MSt V) (h : Inv cfg m.st) :
    Inv cfg (runRules call new rs k m).1.st := by
  induction rs generalizing k m with
  | nil => exact h
  | cons r rs ih =>
    simp only [runRules]
    by_cases hf : r.fires new (leftAt m.left k) = true
    · simp only [hf, if_true]
      by_cases hr : r.raises = true
      · simp only [hr, if_true]; exact h
      simp only [hr]
      have h1 := hcall { m with left := decrAt m.left k } r.value r.prio h
      cases hc : call { m with left := decrAt m.left k } r.value r.prio with
      | mk m' e =>
        rw [hc] at h1
        cases e with
        | some e => exact h1
        | none => exact ih (k + 1) m' h1
    · simp only [hf]
      exact ih (k + 1) m h

theorem minOnOffMon_inv (cfg : Cfg V)
    (call : MSt V → Option V → Option Int → MSt V × Option CErr)
    (hcall : ∀ m v p, Inv cfg m.st → Inv cfg (call m v p).1.st)
    (old new : V) (m : MSt V) (h : Inv cfg m.st) :
    Inv cfg (minOnOffMon cfg call old new m).1.st := by
  unfold minOnOffMon
  by_cases hmo : cfg.minOnOff = false
  · simp only [hmo, if_true]; exact h
  · simp only [hmo]
    by_cases hsame : old = new
    · simp only [hsame, if_true]; exact h
    · simp only [hsame, if_false]
      cases holdDelay cfg new with
      | none => exact h
      | some d =>
        cases d with
        | zero => exact h
        | succ d =>
          simp only []
          have h3 := hcall m (some new) (some 6) h
          cases hc : call m (some new) (some 6) with
          | mk m3 e =>
            rw [hc] at h3
            cases e with
            | some e => exact h3
            | none => exact h3

theorem monitors_inv (cfg : Cfg V) (rules : List (Rule V))
    (call : MSt V → Option V → Option Int → MSt V × Option CErr)
    (hcall : ∀ m v p, Inv cfg m.st → Inv cfg (call m v p).1.st)
    (old new : V) (m : MSt V) (h : Inv cfg m.st) :
    Inv cfg (monitors cfg rules call old new m).1.st := by
  unfold monitors
  have h1 := minOnOffMon_inv cfg call hcall old new m h
  cases hc : minOnOffMon cfg call old new m with
  | mk m3 e =>
    rw [hc] at h1
    cases e with
    | some e => exact h1
    | none => exact runRules_inv cfg call hcall new rules 0 m3 h1

/-- a nested or outermost `WriteProperty` never breaks "present value = winner",
    whatever the monitors do and however deep they nest (also when an exception
    leaves the call) -/
theorem wpM_inv (cfg : Cfg V) (rules : List (Rule V)) (fuel : Nat) (m : MSt V) (p : PropId)
    (v : Option V) (ai pr : Option Int) (h : Inv cfg m.st) :
    Inv cfg (wpM cfg rules fuel m p v ai pr).1.st := by
  induction fuel generalizing m p v ai pr with
  | zero => exact h
  | succ fuel ih =>
    rw [wpM]
    cases target cfg p v ai pr with
    | error e => exact h
    | ok i =>
      simp only []
      by_cases hw : winner cfg (setSlot m.st.slots i v) = m.st.present
      · simp only [hw, if_true]
        exact hw.symm
      · simp only [hw, if_false]
        exact monitors_inv cfg rules _ (fun m' v' p' hm' => ih m' .presentValue v' none p' hm')
          _ _ _ rfl

/-- **the clause of the property, with monitors**: when a `WriteProperty` that got
    past the checks returns — normally or with an exception raised inside a monitor —
    the present value is the highest-priority non-null slot or the default, no
    matter what the state was before and what the callbacks commanded meanwhile -/
theorem wpM_accept_inv (cfg : Cfg V) (rules : List (Rule V)) (fuel : Nat) (m : MSt V) (p : PropId)
    (v : Option V) (ai pr : Option Int) (i : Nat) (ht : target cfg p v ai pr = .ok i) :
    Inv cfg (wpM cfg rules (fuel + 1) m p v ai pr).1.st := by
  rw [wpM, ht]
  simp only []
  by_cases hw : winner cfg (setSlot m.st.slots i v) = m.st.present
  · simp only [hw, if_true]
    exact hw.symm
  · simp only [hw, if_false]
    exact monitors_inv cfg rules _
      (fun m' v' p' hm' => wpM_inv cfg rules fuel m' .presentValue v' none p' hm') _ _ _ rfl

/-- a refused write changes nothing, monitors or not -/
theorem wpM_refused_unchanged (cfg : Cfg V) (rules : List (Rule V)) (fuel : Nat) (m : MSt V)
    (p : PropId) (v : Option V) (ai pr : Option Int) (e : CErr)
    (ht : target cfg p v ai pr = .error e) :
    wpM cfg rules (fuel + 1) m p v ai pr = (m, some e) := by
  rw [wpM, ht]

theorem stepM_inv (cfg : Cfg V) (rules : List (Rule V)) (m : MSt V) (e : Event V)
    (h : Inv cfg m.st) : Inv cfg (stepM cfg rules m e).1.st := by
  cases e with
  | write p v ai pr => exact wpM_inv cfg rules FUELM m p v ai pr h
  | tick t =>
    simp only [stepM]
    cases hd : m.st.deadline with
    | none => exact h
    | some dl =>
      simp only []
      by_cases hdl : dl ≤ max m.st.now t
      · simp only [hdl, if_true]
        exact wpM_inv cfg rules FUELM _ _ _ _ _ h
      · simp only [hdl, if_false]; exact h

/-- **present_is_winner with user monitors**: after any event sequence on an object
    whose presentValue monitors command it again from inside their callbacks -/
theorem present_is_winner_monitors (cfg : Cfg V) (rules : List (Rule V)) (m : MSt V)
    (evs : List (Event V)) (h : Inv cfg m.st) :
    (runM cfg rules m evs).st.present = winner cfg (runM cfg rules m evs).st.slots := by
  induction evs generalizing m with
  | nil => exact h
  | cons e es ih => exact ih (stepM cfg rules m e).1 (stepM_inv cfg rules m e h)

/-- non-vacuity, and what the code does when a monitor raises: a monitor that commands
    priority 1 when the value becomes 7, and one that raises on any change.  Writing 7 at
    priority 8: the value is stored, the first callback commands 0 at priority 1 (a
    nested write; the raising monitor, told about THAT change, raises: the exception
    travels out through both calls), nothing is rolled back: present value = winner -/
example :
    let cfg : Cfg Nat := ⟨0, fun _ => none, false, 0, 1, 0, 0⟩
    let rules : List (Rule Nat) := [⟨some 7, some 1, some 0, false⟩, ⟨none, none, none, true⟩]
    let r := stepM cfg rules ⟨init 3, [1, 2]⟩ (command (some 7) (some 8))
    r.2 = some .monitorError ∧ r.1.st.present = 0 ∧ r.1.st.slots 1 = some 0 ∧
    r.1.st.slots 8 = some 7 ∧ r.1.left = [0, 1] := by decide

/-- **conservative extension**: with no user monitors `wpM` is `wp` (so every theorem
    about `wp` / `step` speaks about the function the driver runs) -/
theorem wpM_nil (cfg : Cfg V) (fuel : Nat) (m : MSt V) (p : PropId) (v : Option V)
    (ai pr : Option Int) :
    wpM cfg [] fuel m p v ai pr =
      ({ m with st := (wp cfg fuel m.st p v ai pr).1 }, (wp cfg fuel m.st p v ai pr).2) := by
  induction fuel generalizing m p v ai pr with
  | zero => rfl
  | succ fuel ih =>
    rw [wpM, wp]
    cases target cfg p v ai pr with
    | error e => rfl
    | ok i =>
      simp only []
      by_cases hw : winner cfg (setSlot m.st.slots i v) = m.st.present
      · simp [hw]
      · have hw' : ¬ m.st.present = winner cfg (setSlot m.st.slots i v) := fun h => hw h.symm
        simp only [hw, if_false, monitors, minOnOffMon]
        by_cases hm : cfg.minOnOff = false
        · simp [hm, runRules]
        · simp only [hm, hw', if_false]
          cases holdDelay cfg (winner cfg (setSlot m.st.slots i v)) with
          | none => rfl
          | some d =>
            cases d with
            | zero => simp [runRules]
            | succ d =>
              simp only []
              rw [ih]
              dsimp only
              generalize wp cfg fuel _ _ _ _ _ = r
              obtain ⟨s3, e⟩ := r
              cases e with
              | some e => rfl
              | none => simp [runRules]

theorem stepM_nil (cfg : Cfg V) (m : MSt V) (e : Event V) :
    stepM cfg [] m e = ({ m with st := (step cfg m.st e).1 }, (step cfg m.st e).2) := by
  cases e with
  | write p v ai pr =>
    simp only [stepM, step, FUELM, FUEL]
    rw [wpM_nil, wp_fuel_irrelevant cfg 62, wp_fuel_irrelevant cfg 6]
  | tick t =>
    simp only [stepM, step, FUELM, FUEL]
    cases m.st.deadline with
    | none => rfl
    | some dl =>
      simp only []
      by_cases hdl : dl ≤ max m.st.now t
      · simp only [hdl, if_true]
        rw [wpM_nil, wp_fuel_irrelevant cfg 62, wp_fuel_irrelevant cfg 6]
      · simp only [hdl, if_false]

/-! ## the generated class table (kernel evaluation; re-run whenever the code changes it) -/

open BacVerif.Gen.Commandable in
/-- "look up a matching priority value choice": first element whose class the
    datatype derives from, else constructedValue -/
def computeChoice (names : List String) (sub : List Bool) : String :=
  match (names.zip sub).find? (fun p => p.2) with
  | some p => p.1
  | none => "constructedValue"

open BacVerif.Gen.Commandable in
def classOK (c : CmdClass) : Bool :=
  c.override && c.pvMutable && !c.paMutable && !c.rdMutable && (c.paType == "PriorityArray") &&
  (c.sub.length == pvChoices.length) && (computeChoice pvChoices c.sub == c.pvChoice) &&
  (c.pvChoice != "null") && pvChoices.contains c.pvChoice &&
  (c.minOnOff == (c.datatype == "BinaryPV")) && (!c.enumerated || c.atomic)

open BacVerif.Gen.Commandable in
/-- every commandable class: `WriteProperty` resolves to the mix-in's override,
    presentValue is writable while priorityArray / relinquishDefault are not (so
    the whole-array write is refused and the default is constant), the
    priority-value choice is the one the lookup rule gives and is not `null`, and
    exactly the BinaryPV classes carry the MinOnOff mix-in -/
theorem table_classes_ok : classes.all classOK = true := by decide +kernel

open BacVerif.Gen.Commandable in
/-- the twenty commandable classes of the property's quantifier, pairwise distinct -/
theorem table_twenty : classes.length = 20 ∧ (classes.map (·.name)).Nodup := by decide +kernel

open BacVerif.Gen.Commandable in
/-- sixteen slots, all null in a fresh array -/
theorem table_array : paLength = 16 ∧ paPrototypeNull = true := by decide +kernel

end BacVerif.C17
