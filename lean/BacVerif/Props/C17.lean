import BacVerif.Model.Commandable
import BacVerif.Gen.Commandable
namespace BacVerif.C17
open BacVerif.Commandable

theorem placeholder : True := trivial

end BacVerif.C17
