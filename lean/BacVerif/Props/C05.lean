/- C05 (placeholder while the harness is being built; replaced by the real theorems) -/
import BacVerif.Model.Tsm
namespace BacVerif.C05
open BacVerif.Tsm
theorem placeholder : (1 : Nat) = 1 := rfl
end BacVerif.C05
