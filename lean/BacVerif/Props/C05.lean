/-
  C05 — segmented transfers deliver the exact payload and survive any single fault.

  Model: `BacVerif.Tsm` (py34/bacpypes/appservice.py after fixes/Tsm-1 … Tsm-10 and
  fixes/C05-server-first-segment-seq0), `step : Cfg → Sap → Event → Sap × List Out`.

  What is proved here (all universally quantified, no size bound except the
  stated `≤ 256 segments`):

  * `segment_partition` / `slices_partition` — the slices `get_segment` cuts
    are a partition of the payload for EVERY payload and EVERY size ≥ 1,
    `count = max 1 ⌈len/size⌉`, no slice empty unless the payload is;
  * wire lemmas — `segment_wire` (one `get_segment`), `window_segments`
    (`fill_window`: consecutive indices from the window start, actual window
    in every frame, at most `window` frames: `window_bound`), lifted to every
    `send` output of `step` by `window_step` / `window_run` (jointly with the
    state the step leaves behind: the frame lies in the window of its own
    transaction) and, for the tracked exchange, `wire_step_A` / `wire_step_B`;
  * `client_append_in_order`, `server_append_in_order`,
    `duplicates_never_extend` — a segment frame is appended iff its sequence
    number is `(last+1) % 256`, otherwise buffer/state unchanged + exactly one
    negative ack;
  * the two-party theorem: `Sys` = client access point A, server access point
    B, a medium holding every frame ever sent between them; the adversary
    (`Move`) may deliver ANY in-flight frame to its addressee at ANY time, any
    number of times (duplication, reordering, arbitrary delay), drop any
    frame, fire the timers and advance the clocks of both sides, let A's
    application submit the request and B's application answer at any moment.
    `reassembly_inv`: the invariant `SysInv` (receiver buffers are
    `concat (segments 0..j)`, `lastSequenceNumber = j`; senders hold the
    payload and the fixed geometry; only genuine frames are in flight) holds
    in every reachable state; `payload_exact`: whenever B indicates the
    request to its application it carries exactly `P`, whenever A confirms a
    ComplexAck to its application it carries exactly `R`;
    `truncation_impossible`: any other outcome A's application sees is not a
    ComplexAck (abort / error / reject).

  The only hypotheses beyond the geometry bookkeeping (`Params.Geo`) are the
  property's own "at most 256 segments per direction" (`hP`, `hR`) and "device
  information does not change during the exchange" (`StableB`, no `learn`
  move).  Both receivers open a buffer only from a segment with sequence
  number 0 (fixes/C05-server-first-segment-seq0,
  fixes/C05-client-first-ack-segment-seq0): without these two repairs the
  theorem is false (see notes/C05.md) — the medium may re-deliver frames after
  a transaction is over, and A's application may submit again at any time.

  Any length: `payload_exact_near_partial` / `reassembly_inv_near` prove the
  same for transfers of ANY number of segments under the medium hypothesis
  `RunNear` (no segment is delivered 256 or more segments away from what its
  receiver expects — forced by modulo-256 numbers); `payload_exact` is the
  instance where `RunNear` is free (`runNear_of_le256`).

  Not proved:
  * that FIFO channels (loss + duplication without overtaking) with windows
    ≤ 127 satisfy `RunNear`: the sender keeps every frame within
    `[initialSequenceNumber, + window)` (`window_segments`), the receiver's
    position is never ahead of the sender's window; the queue argument that
    ties both (ghost emission-time window starts per queued frame) is not
    formalised — decided on the implementation by the lockstep `long` stream
    and the end-to-end 255 … 600-segment runs.
  * `single_fault_progress` (leads-to) is NOT proved.  Proved:
    `single_fault_progress_partial`, `ack_progress_client/server` — the steps a
    recovery consists of (timer with a retry left re-emits the outstanding
    window and spends one retry; gives up iff none is left; an ack in the
    window moves it strictly forward and restores all retries).  Their
    composition to success under one fault is decided by kernel-evaluated
    model-side sweeps of concrete exchanges (TESTS `sweep_*`,
    Lemmas/TsmC05Sweep*.lean) and on the implementation by the exhaustive
    single-fault sweep of harness/c05_impl.py.
-/
import BacVerif.Lemmas.TsmC05A
import BacVerif.Lemmas.TsmC05WinStep
import BacVerif.Lemmas.TsmC05Retry
import BacVerif.Lemmas.TsmC05Sweep2
import BacVerif.Props.C11
import BacVerif.Props.C12
namespace BacVerif.C05
open BacVerif.Tsm
set_option linter.unusedSimpArgs false
set_option linter.unusedVariables false

/-! ## 1. the slices partition the payload -/

/-- **segment_partition (every payload, every size ≥ 1).** -/
theorem slices_partition (P : Bytes) {size : Nat} (h : 0 < size) :
    let count := max 1 (ceilDiv P.length size)
    slicesUpTo P size count = P ∧
    (∀ i, i < count → (sliceOf P size i).length ≤ size) ∧
    (∀ i, i + 1 < count → (sliceOf P size i).length = size) ∧
    (P ≠ [] → ∀ i, i < count → sliceOf P size i ≠ []) ∧
    (∀ i, count ≤ i → sliceOf P size i = []) := Tsm.slices_partition P h

/-- **segment_partition (through the model's `setSegmentSize`).**  For every
    payload, maximum APDU and header pair: if `set_segment_size` yields
    `(size, count)` then concatenating the slices 0..count−1 gives the payload,
    `count = max 1 ⌈len/size⌉`, every slice has at most `size` octets and is
    non-empty unless the payload is empty, and `count = 1` exactly when the
    payload fits unsegmented. -/
theorem segment_partition (P : Bytes) {M uh sh size count : Nat} (hle : uh ≤ sh)
    (h : setSegmentSize P.length M uh sh = some (size, count)) :
    slicesUpTo P size count = P ∧
    count = max 1 ((P.length + size - 1) / size) ∧
    (∀ i, i < count → (sliceOf P size i).length ≤ size) ∧
    (P ≠ [] → ∀ i, i < count → sliceOf P size i ≠ []) ∧
    (count = 1 ↔ P.length + uh ≤ M) := Tsm.segment_partition P hle h

/-- the payload of the frame `getSegment i` IS the `i`-th slice -/
theorem segment_payload {cfg : Cfg} {k : Key} {b : Body} {i w : Nat} {a c : Apdu}
    (hctx : b.ctx = some c) (h : getSegment cfg k b i w = .ok a) :
    a.data = sliceOf c.data b.segSize i := by
  obtain ⟨hdr, _, _, rfl⟩ := getSegment_full hctx h
  rfl

/-- non-vacuity of `segment_partition`: 100 octets for a peer accepting 50 → 3 slices of 44, 44, 12 -/
example :
    setSegmentSize 100 50 4 6 = some (44, 3) ∧
    (List.range 3).map (fun i => (sliceOf (List.replicate 100 (7 : UInt8)) 44 i).length) = [44, 44, 12] := by
  decide +kernel

/-! ## 2. wire lemmas -/

/-- **wire lemma.**  Every segment `get_segment(i)` builds: sequence number
    `i % 256`, more-follows `= (i + 1 < count)` (i.e. `i < count − 1`), the
    `i`-th slice, the first segment carries the proposed window, later ones
    the window handed in (the actual window, `window_segments`). -/
theorem segment_wire {cfg : Cfg} {k : Key} {b : Body} {i w : Nat} {a c : Apdu}
    (hctx : b.ctx = some c) (hid : c.invokeId = k.id) (hn1 : b.segCount ≠ 1)
    (h : getSegment cfg k b i w = .ok a) :
    a.seg = true ∧ i < b.segCount ∧ a.seq = i % 256 ∧ a.mor = decide (i + 1 < b.segCount) ∧
    a.data = sliceOf c.data b.segSize i ∧ (i = 0 → a.win = cfg.window) ∧ (i ≠ 0 → a.win = w) := by
  obtain ⟨_, _, hlt, _, g5, _⟩ := getSegment_genuine hctx hid h
  obtain ⟨hs, hseg, h0, h1⟩ := g5 hn1
  exact ⟨hs, hlt, hseg.seq, hseg.mor, hseg.data, h0, h1⟩

/-- **window_bound / window_segments.**  One `fill_window(start)` with the
    actual window `w` emits at most `w` frames (C12.window_in_flight), each is
    `get_segment(j)` carrying `w` for a `j` with `start ≤ j < start + w`: never
    more unacknowledged segments than the agreed window. -/
theorem window_segments {cfg : Cfg} {k : Key} {b : Body} {start w : Nat} (hw : b.window = some w) :
    (fillWindow cfg k b start).sent.length ≤ w ∧
    ∀ seg ∈ (fillWindow cfg k b start).sent,
      ∃ j, start ≤ j ∧ j < start + w ∧ getSegment cfg k b j w = .ok seg :=
  ⟨BacVerif.C12.window_in_flight k b start hw, fillWindow_index hw⟩

theorem window_bound {cfg : Cfg} (k : Key) (b : Body) (start : Nat) {w : Nat} (hw : b.window = some w) :
    (fillWindow cfg k b start).sent.length ≤ w := BacVerif.C12.window_in_flight k b start hw

/-- **window_step (the window clause of the property, for every step).**  In
    any state satisfying the access point's invariant `Inv` (C11: every
    reachable state), for ANY event — arbitrary frame from arbitrary peer,
    timer, application call (a ComplexAck handed over unsegmented, `EvResp`) —
    every segment frame `f` the step emits toward `q` belongs to a transaction
    that is listed AFTER the step under (q, f.invokeId), is segment `idx` of
    that transaction's context (sequence number `idx % 256`, more-follows,
    slice `idx`), and `initialSequenceNumber ≤ idx < initialSequenceNumber +
    actualWindowSize` — or `idx = 0 = initialSequenceNumber`, the first
    segment, sent alone while nothing is acknowledged.  Hence at any time the
    segments emitted since the last acknowledgement are at most `window`
    distinct indexes, all unacknowledged. -/
theorem window_step {cfg : Cfg} {s : Sap} (hinv : Inv s) (e : Event) (he : EvResp e) :
    ∀ q f, Out.send q f ∈ (step cfg s e).2 → f.seg = true → (f.ty = 0 ∨ f.ty = 3) →
      (∃ t ∈ (step cfg s e).1.clients, t.key = ⟨q, f.invokeId⟩ ∧ InWin t.body f) ∨
      (∃ t ∈ (step cfg s e).1.servers, t.key = ⟨q, f.invokeId⟩ ∧ InWin t.body f) :=
  fun q f hm hs ht => window_step_sap hinv e he q f hm ⟨hs, ht⟩

/-- … in every state reachable from the initial one by any event sequence -/
theorem window_run {cfg : Cfg} (hpos : cfg.TimeoutsPos) (es : List Event) (e : Event) (he : EvResp e) :
    let s := (run cfg Sap.init es).1
    ∀ q f, Out.send q f ∈ (step cfg s e).2 → f.seg = true → (f.ty = 0 ∨ f.ty = 3) →
      (∃ t ∈ (step cfg s e).1.clients, t.key = ⟨q, f.invokeId⟩ ∧ InWin t.body f) ∨
      (∃ t ∈ (step cfg s e).1.servers, t.key = ⟨q, f.invokeId⟩ ∧ InWin t.body f) :=
  window_step (BacVerif.C11.inv_run hpos es BacVerif.C11.inv_init) e he

/-- non-vacuity of `window_step`: after the first ack (window 2) of a 100-octet
    request toward a 50-octet peer the step emits segments 1 and 2, and the
    transaction it leaves behind has window start 1 and window 2 -/
example :
    let cfg : Cfg := { BacVerif.Gen.TsmDefaults.cfg with seg := .both, maxSegs := some 16, maxApdu := 50 }
    let s1 := (step cfg Sap.init (.request 1 200 (List.replicate 100 7) none)).1
    let r := step cfg s1 (.frame 1 (mkSegAck false true 1 0 2))
    (r.2.map fun o => match o with | .send _ a => (a.seq, a.mor) | _ => (99, false)) = [(1, true), (2, false)] ∧
    (r.1.clients.map fun t => (t.body.initSeq, t.body.window)) = [(1, some 2)] := by
  decide +kernel

/-! ## 3. the receiver appends in order -/

theorem client_append_in_order {cfg : Cfg} {now : Nat} {k : Key} {b : Body} {a c : Apdu} {w : Nat}
    {r : Option Body} {outs : List Out} (hty : a.ty = 3) (hseg : a.seg = true)
    (hw : b.window = some w) (hc : b.ctx = some c)
    (h : clientSegmentedConfirmation cfg now k b a = (r, outs)) :
    (a.seq = (b.lastSeq + 1) % 256 →
      (a.mor = true → ∃ b', r = some b' ∧ b'.ctx = some { c with data := c.data ++ a.data } ∧
          b'.lastSeq = (b.lastSeq + 1) % 256 ∧ b'.st = b.st ∧ b'.window = b.window ∧ b.sameCaps b' ∧
          ∀ o ∈ outs, o = .send k.peer (mkSegAck false false k.id ((b.lastSeq + 1) % 256) w)) ∧
      (a.mor = false → r = none ∧
          outs = [.send k.peer (mkSegAck false false k.id ((b.lastSeq + 1) % 256) w),
                  .confirm k.peer { c with data := c.data ++ a.data }])) ∧
    (a.seq ≠ (b.lastSeq + 1) % 256 →
      ∃ b', r = some b' ∧ b'.ctx = b.ctx ∧ b'.lastSeq = b.lastSeq ∧ b'.st = b.st ∧
        b'.window = b.window ∧ b.sameCaps b' ∧
        outs = [.send k.peer (mkSegAck true false k.id b.lastSeq w)]) :=
  Tsm.client_append_in_order hty hseg hw hc h

theorem server_append_in_order {cfg : Cfg} {now : Nat} {k : Key} {b : Body} {a c : Apdu} {w : Nat}
    {r : Option Body} {outs : List Out} (hty : a.ty = 0) (hseg : a.seg = true)
    (hw : b.window = some w) (hc : b.ctx = some c)
    (h : serverSegmentedRequest cfg now k b a = (r, outs)) :
    (a.seq = (b.lastSeq + 1) % 256 →
      (a.mor = true → ∃ b', r = some b' ∧ b'.ctx = some { c with data := c.data ++ a.data } ∧
          b'.lastSeq = (b.lastSeq + 1) % 256 ∧ b'.st = b.st ∧ b'.window = b.window ∧ b.sameCaps b' ∧
          ∀ o ∈ outs, o = .send k.peer (mkSegAck false true k.id ((b.lastSeq + 1) % 256) w)) ∧
      (a.mor = false → (∃ b', r = some b' ∧ b'.st = .awaitResp ∧ b.sameCaps b') ∧
          outs = [.send k.peer (mkSegAck false true k.id ((b.lastSeq + 1) % 256) w),
                  .indicate k.peer { c with data := c.data ++ a.data }])) ∧
    (a.seq ≠ (b.lastSeq + 1) % 256 →
      ∃ b', r = some b' ∧ b'.ctx = b.ctx ∧ b'.lastSeq = b.lastSeq ∧ b'.st = b.st ∧
        b'.window = b.window ∧ b.sameCaps b' ∧
        outs = [.send k.peer (mkSegAck true true k.id b.initSeq w)]) :=
  Tsm.server_append_in_order hty hseg hw hc h

/-- duplicates never extend the buffer: a frame repeating the last accepted
    sequence number is not the next one, so `*_append_in_order` leaves the
    buffer unchanged -/
theorem duplicates_never_extend {last seq : Nat} (hl : last < 256) (hd : seq = last) :
    seq ≠ (last + 1) % 256 := duplicate_not_next hl hd

/-! ## 3b. recovery from a lost frame: the sender's measure -/

/-- **single_fault_progress (partial: the steps a recovery consists of, not
    their composition).**  For a transaction that is SENDING segments
    (client in SEGMENTED_REQUEST, server in SEGMENTED_RESPONSE), with the
    lexicographic measure (segments acknowledged = `initialSequenceNumber`,
    retries left = `retries − segmentRetryCount`):
    1. its timer with a retry left keeps it sending, spends exactly ONE retry,
       leaves window start / window / context as they are and re-emits the
       whole outstanding window (`retransmit`: segment 0 alone while nothing is
       acknowledged, otherwise `fill_window(initialSequenceNumber)` — genuine
       frames inside the window by `window_step`);
    2. it gives up on its timer IFF no retry is left — one lost frame (one
       timer expiry) never ends a transfer while `retries ≥ 1`;
    (`ack_progress_client/server`): a SegmentAck inside the window moves the
    window start STRICTLY forward past the acknowledged segment and restores
    ALL retries (or, for the last segment, ends the sending phase); one
    outside the window changes neither; and the receiver accepts the next
    expected segment whenever it arrives (`*_append_in_order`).

    Full statement (NOT proved): for ≤ 256 segments, with one frame dropped,
    duplicated or delayed, fair timers (receiver 4 × T_seg against the
    sender's T_seg) and otherwise faithful in-order delivery, the pair reaches
    the state in which B was indicated exactly `P` and A confirmed exactly `R`.
    Decided instead by: the model-side sweeps `sweep_3x3`, `sweep_6x6_w35`,
    `sweep_1x3_206`, `sweep_6x6_w18` (kernel-evaluated TESTS of the faithful
    scheduler, every single fault at every frame number of concrete
    exchanges; `sweep_contrast`: without retries the same sweep fails) and the
    exhaustive single-fault sweep on the real stacks (harness/c05_impl.py). -/
theorem single_fault_progress_partial {cfg : Cfg} {now : Nat} {di : Option DeviceInfo} {k : Key} {b : Body} :
    (b.st = .segReq → b.segRetry < cfg.retries →
      ∃ b', clientTimeout cfg now di k b = (some b', retransmit cfg k (retryBody cfg now b)) ∧
        b'.st = .segReq ∧ b'.segRetry = b.segRetry + 1 ∧ b'.initSeq = b.initSeq ∧ b'.ctx = b.ctx ∧
        b'.window = b.window ∧ b'.segCount = b.segCount ∧ b'.segSize = b.segSize) ∧
    (b.st = .segReq → ((clientTimeout cfg now di k b).1 = none ↔ ¬ b.segRetry < cfg.retries)) ∧
    (b.st = .segResp → b.segRetry < cfg.retries →
      ∃ b', serverTimeout cfg now k b = (some b', retransmit cfg k (retryBody cfg now b)) ∧
        b'.st = .segResp ∧ b'.segRetry = b.segRetry + 1 ∧ b'.initSeq = b.initSeq ∧ b'.ctx = b.ctx ∧
        b'.window = b.window ∧ b'.segCount = b.segCount ∧ b'.segSize = b.segSize) ∧
    (b.st = .segResp → ((serverTimeout cfg now k b).1 = none ↔ ¬ b.segRetry < cfg.retries)) :=
  ⟨client_retry, client_gives_up_iff, server_retry, server_gives_up_iff⟩

/-- a SegmentAck at a sending client: outside the window nothing but the timer
    changes; the final one ends the sending phase; any other one inside the
    window moves the window start strictly forward and restores all retries -/
theorem ack_progress_client {cfg : Cfg} {now : Nat} {k : Key} {b : Body} {a : Apdu} (hst : b.st = .segReq)
    (h4 : a.ty = 4) :
    let x := clientConfirmation cfg now k b a
    (inWindow a.seq b.initSeq a.win = false →
        ∃ b', x = (some b', []) ∧ b'.st = .segReq ∧ b'.initSeq = b.initSeq ∧ b'.segRetry = b.segRetry) ∧
    (inWindow a.seq b.initSeq a.win = true → ackedIndex b a.seq + 1 ≥ b.segCount →
        ∃ b', x = (some b', []) ∧ b'.st = .awaitConf) ∧
    (inWindow a.seq b.initSeq a.win = true → ackedIndex b a.seq + 1 < b.segCount →
        ∃ b', x.1 = some b' ∧ b'.st = .segReq ∧ b'.initSeq = ackedIndex b a.seq + 1 ∧
          b.initSeq < b'.initSeq ∧ b'.segRetry = 0 ∧ b'.window = some a.win) :=
  client_ack hst h4

/-- the same at a sending server (the final ack ends the transaction) -/
theorem ack_progress_server {cfg : Cfg} {now : Nat} {k : Key} {b : Body} {a : Apdu} (hst : b.st = .segResp)
    (h4 : a.ty = 4) :
    let x := serverIndication cfg now k b a
    (inWindow a.seq b.initSeq a.win = false →
        ∃ b', x = (some b', []) ∧ b'.st = .segResp ∧ b'.initSeq = b.initSeq ∧ b'.segRetry = b.segRetry) ∧
    (inWindow a.seq b.initSeq a.win = true → ackedIndex b a.seq + 1 ≥ b.segCount → x = (none, [])) ∧
    (inWindow a.seq b.initSeq a.win = true → ackedIndex b a.seq + 1 < b.segCount →
        ∃ b', x.1 = some b' ∧ b'.st = .segResp ∧ b'.initSeq = ackedIndex b a.seq + 1 ∧
          b.initSeq < b'.initSeq ∧ b'.segRetry = 0 ∧ b'.window = some a.win) :=
  server_ack hst h4

/-- non-vacuity: a client that sent segments 1, 2 of 3 (window start 1, window 2, no retry spent):
    its timer re-emits exactly segments 1 and 2 and spends one retry -/
example :
    let cfg : Cfg := { BacVerif.Gen.TsmDefaults.cfg with seg := .both, maxSegs := some 16, maxApdu := 50 }
    let s1 := (step cfg Sap.init (.request 1 200 (List.replicate 100 7) none)).1
    let s2 := (step cfg s1 (.frame 1 (mkSegAck false true 1 0 2))).1
    let s3 := (step cfg s2 (.tick 1500000)).1
    let r := step cfg s3 (.timeout false 1 1)
    (r.2.map fun o => match o with | .send _ a => (a.seq, a.mor) | _ => (99, false)) = [(1, true), (2, false)] ∧
    (r.1.clients.map fun t => (t.body.st, t.body.initSeq, t.body.segRetry)) = [(St.segReq, 1, 1)] := by
  decide +kernel

/-! ## 4. two parties and a hostile medium -/

/-- client access point A, server access point B, the medium: every frame in
    flight, `true` = travelling from A to B -/
structure Sys where
  a : Sap
  b : Sap
  net : List (Bool × Apdu) := []

/-- the frames a step hands to the network layer for `peer` -/
def framesTo (peer : Peer) : List Out → List Apdu
  | [] => []
  | .send q f :: os => if q = peer then f :: framesTo peer os else framesTo peer os
  | _ :: os => framesTo peer os

theorem mem_framesTo {peer : Peer} {f : Apdu} : ∀ {outs : List Out}, f ∈ framesTo peer outs →
    Out.send peer f ∈ outs := by
  intro outs
  induction outs with
  | nil => intro h; cases h
  | cons o os ih =>
    intro h
    cases o with
    | send q g =>
      simp only [framesTo] at h
      split at h
      · rename_i hq
        simp only [List.mem_cons] at h
        rcases h with h | h
        · subst h; subst hq; exact List.mem_cons_self
        · exact List.mem_cons_of_mem _ (ih h)
      · exact List.mem_cons_of_mem _ (ih h)
    | indicate q g => exact List.mem_cons_of_mem _ (ih h)
    | confirm q g => exact List.mem_cons_of_mem _ (ih h)
    | confirmAnon c e => exact List.mem_cons_of_mem _ (ih h)
    | raised r => exact List.mem_cons_of_mem _ (ih h)

/-- what the environment may do -/
inductive Move
  /-- A's application submits the request (payload `P`); `chosen` = its invoke ID, if it picks one -/
  | submit (chosen : Option Nat)
  /-- B's application answers with a ComplexAck carrying `R` -/
  | answer
  /-- in-flight frame number `i` arrives at B (it stays in flight: it may arrive again) -/
  | deliverB (i : Nat)
  /-- in-flight frame number `i` arrives at A -/
  | deliverA (i : Nat)
  /-- in-flight frame number `i` is lost -/
  | drop (i : Nat)
  /-- the timer of the transaction fires (the model runs it only when it is armed and due) -/
  | timeoutA
  | timeoutB
  /-- the clocks advance -/
  | tickA (dt : Nat)
  | tickB (dt : Nat)
deriving Repr

/-- put the frames of a step on the medium -/
def Sys.sentA (p : Params) (s : Sys) (r : Sap × List Out) : Sys × List Out × List Out :=
  ({ s with a := r.1, net := s.net ++ (framesTo p.peerB r.2).map (fun f => (true, f)) }, r.2, [])

def Sys.sentB (p : Params) (s : Sys) (r : Sap × List Out) : Sys × List Out × List Out :=
  ({ s with b := r.1, net := s.net ++ (framesTo p.peerA r.2).map (fun f => (false, f)) }, [], r.2)

/-- one move: new system, what A handed to its environment, what B did -/
def Sys.move (p : Params) (cfgA cfgB : Cfg) (s : Sys) : Move → Sys × List Out × List Out
  | .submit chosen => s.sentA p (step cfgA s.a (.request p.peerB p.svc p.P chosen))
  | .answer =>
    s.sentB p (step cfgB s.b (.response p.peerA { ty := 3, invokeId := p.id, service := p.svc, data := p.R }))
  | .deliverB i =>
    match s.net[i]? with
    | some (true, f) => s.sentB p (step cfgB s.b (.frame p.peerA f))
    | _ => (s, [], [])
  | .deliverA i =>
    match s.net[i]? with
    | some (false, f) => s.sentA p (step cfgA s.a (.frame p.peerB f))
    | _ => (s, [], [])
  | .drop i => ({ s with net := s.net.eraseIdx i }, [], [])
  | .timeoutA => s.sentA p (step cfgA s.a (.timeout false p.peerB p.id))
  | .timeoutB => s.sentB p (step cfgB s.b (.timeout true p.peerA p.id))
  | .tickA dt => s.sentA p (step cfgA s.a (.tick dt))
  | .tickB dt => s.sentB p (step cfgB s.b (.tick dt))

/-- any sequence of moves; the outputs of both sides, concatenated -/
def Sys.run (p : Params) (cfgA cfgB : Cfg) : Sys → List Move → Sys × List Out × List Out
  | s, [] => (s, [], [])
  | s, m :: ms =>
    let r1 := s.move p cfgA cfgB m
    let r2 := Sys.run p cfgA cfgB r1.1 ms
    (r2.1, r1.2.1 ++ r2.2.1, r1.2.2 ++ r2.2.2)

/-- a frame in flight is genuine: toward B a ConfirmedRequest of the exchange is
    a frame of `TP` with the constant capability header; toward A nothing is a
    ConfirmedRequest and a ComplexAck of the exchange is a frame of `TR` -/
def NetOk (p : Params) (d : Bool) (f : Apdu) : Prop :=
  if d then p.ReqFrame f else f.ty ≠ 0 ∧ Genuine p.TR f

/-- the invariant of the two-party system -/
structure SysInv (p : Params) (cfgA cfgB : Cfg) (devA devB : List (Peer × DeviceInfo)) (s : Sys) : Prop where
  /-- A: senders hold `P` with the fixed geometry, the receiver of (B, id) holds `concat (slices 0..j)` of `R` -/
  a : (specA p cfgA devA).Holds s.a
  /-- B: the receiver of (A, id) holds `concat (slices 0..j)` of `P`, senders hold `R` with the fixed geometry -/
  b : (specB p cfgB devB).Holds s.b
  /-- only genuine frames are in flight -/
  net : ∀ d f, (d, f) ∈ s.net → NetOk p d f

/-- B's record of A (if it has one) already says that A receives segments, so
    `ServerSSM.idle` has nothing to promote (device information does not change
    during the exchange) -/
def StableB (p : Params) (devB : List (Peer × DeviceInfo)) : Prop :=
  ∀ d, lookupDI devB p.peerA = some d → ∀ sa, promote sa (some d) = some d

/-- the medium does not let a segment overtake (or fall behind) by 256 or more
    segments: the segment frame about to be delivered is — under one of the
    indices it can be read as — less than 256 away from the segment its
    receiver expects next (one of the first 256 when the receiver has no
    buffer yet).  With modulo-256 sequence numbers nothing weaker can work.
    Transfers of at most 256 segments satisfy it for free
    (`moveNear_of_le256`); FIFO channels with windows ≤ 127 satisfy it for
    any length (not formalised). -/
def MoveNear (p : Params) (s : Sys) : Move → Prop
  | .deliverB i => ∀ f, s.net[i]? = some (true, f) → f.ty = 0 → f.invokeId = p.id → p.countP ≠ 1 →
      f.seg = true → ∃ idx, IsSeg p.TP idx f ∧
        (∀ t, findTxn p.kB s.b.servers = some t → NearIdx p.TP t.body idx) ∧
        (findTxn p.kB s.b.servers = none → idx < 256)
  | .deliverA i => ∀ f, s.net[i]? = some (false, f) → f.ty = 3 → f.invokeId = p.id → p.countR ≠ 1 →
      f.seg = true → ∃ idx, IsSeg p.TR idx f ∧
        (∀ t, findTxn p.kA s.a.clients = some t → NearC p.TR t.body idx)
  | _ => True

/-- every move of the run satisfies `MoveNear` in the state it is made in -/
def RunNear (p : Params) (cfgA cfgB : Cfg) : Sys → List Move → Prop
  | _, [] => True
  | s, m :: ms => MoveNear p s m ∧ RunNear p cfgA cfgB (s.move p cfgA cfgB m).1 ms

section
variable {p : Params} {cfgA cfgB : Cfg} {devA devB : List (Peer × DeviceInfo)}

theorem sentA_inv {s : Sys} (hi : SysInv p cfgA cfgB devA devB s) {r : Sap × List Out}
    (hg : (specA p cfgA devA).Good r) :
    SysInv p cfgA cfgB devA devB (s.sentA p r).1 ∧ ∀ o ∈ (s.sentA p r).2.1, (specA p cfgA devA).OO o := by
  refine ⟨⟨hg.1, hi.b, ?_⟩, hg.2⟩
  intro d f hm
  simp only [Sys.sentA, List.mem_append, List.mem_map] at hm
  rcases hm with hm | ⟨f', hf', he⟩
  · exact hi.net d f hm
  · cases he
    have := (hg.2 _ (mem_framesTo hf')).2.1 p.peerB f rfl rfl
    exact this

theorem sentB_inv {s : Sys} (hi : SysInv p cfgA cfgB devA devB s) {r : Sap × List Out}
    (hg : (specB p cfgB devB).Good r) :
    SysInv p cfgA cfgB devA devB (s.sentB p r).1 ∧ ∀ o ∈ (s.sentB p r).2.2, (specB p cfgB devB).OO o := by
  refine ⟨⟨hi.a, hg.1, ?_⟩, hg.2⟩
  intro d f hm
  simp only [Sys.sentB, List.mem_append, List.mem_map] at hm
  rcases hm with hm | ⟨f', hf', he⟩
  · exact hi.net d f hm
  · cases he
    have ho := hg.2 _ (mem_framesTo hf')
    exact ⟨ho.1 p.peerA f rfl, ho.2.1 p.peerA f rfl rfl⟩

/-- what one move guarantees -/
structure MoveOk (p : Params) (cfgA cfgB : Cfg) (devA devB : List (Peer × DeviceInfo))
    (x : Sys × List Out × List Out) : Prop where
  inv : SysInv p cfgA cfgB devA devB x.1
  outA : ∀ o ∈ x.2.1, (specA p cfgA devA).OO o
  outB : ∀ o ∈ x.2.2, (specB p cfgB devB).OO o

theorem moveOk_A {s : Sys} (hi : SysInv p cfgA cfgB devA devB s) {r : Sap × List Out}
    (hg : (specA p cfgA devA).Good r) : MoveOk p cfgA cfgB devA devB (s.sentA p r) :=
  ⟨(sentA_inv hi hg).1, (sentA_inv hi hg).2, (by intro o h; cases h)⟩

theorem moveOk_B {s : Sys} (hi : SysInv p cfgA cfgB devA devB s) {r : Sap × List Out}
    (hg : (specB p cfgB devB).Good r) : MoveOk p cfgA cfgB devA devB (s.sentB p r) :=
  ⟨(sentB_inv hi hg).1, (by intro o h; cases h), (sentB_inv hi hg).2⟩

theorem moveOk_id {s : Sys} (hi : SysInv p cfgA cfgB devA devB s) :
    MoveOk p cfgA cfgB devA devB (s, [], []) :=
  ⟨hi, (by intro o h; cases h), (by intro o h; cases h)⟩

/-- **reassembly_inv (one move).**  Every move of the environment keeps the
    invariant, and everything either side hands to its environment satisfies
    the output guarantees of `specA` / `specB`. -/
theorem move_ok (g : p.Geo cfgA cfgB devA devB) (hstab : StableB p devB) {s : Sys}
    (hi : SysInv p cfgA cfgB devA devB s) (m : Move) (hnear : MoveNear p s m) :
    MoveOk p cfgA cfgB devA devB (s.move p cfgA cfgB m) := by
  have sa := specA_sound g
  have sb := specB_sound g
  cases m with
  | submit chosen =>
    refine moveOk_A hi (Local.step_good _ sa hi.a _ ?_)
    intro id _; exact ⟨rfl, rfl⟩
  | answer =>
    refine moveOk_B hi (Local.step_good _ sb hi.b _ ?_)
    intro t _ _ _; exact ⟨rfl, rfl⟩
  | deliverB i =>
    simp only [Sys.move]
    split
    · rename_i f hf
      have hm : (true, f) ∈ s.net := List.mem_of_getElem? hf
      have hn : p.ReqFrame f := by simpa [NetOk] using hi.net _ _ hm
      -- the frame, read under the near index the medium guarantees
      have hN : ∀ N : Nat → Prop,
          (∀ idx, IsSeg p.TP idx f →
            (∀ t, findTxn p.kB s.b.servers = some t → NearIdx p.TP t.body idx) →
            (findTxn p.kB s.b.servers = none → idx < 256) → N idx) → p.ReqFrameN N f := by
        intro N hNN h0 hid
        obtain ⟨hg, hh⟩ := hn h0 hid
        refine ⟨?_, hh⟩
        intro _ _
        obtain ⟨g1, g2⟩ := hg h0 hid
        refine ⟨g1, fun hn1 => ?_⟩
        obtain ⟨s1, _⟩ := g2 hn1
        obtain ⟨idx, his, h1, h2⟩ := hnear f hf h0 hid hn1 s1
        exact ⟨s1, idx, his, hNN idx his h1 h2⟩
      refine moveOk_B hi (Local.step_good _ sb hi.b _ ⟨fun _ _ => trivial, ?_, ?_⟩)
      · intro t ht hk
        apply hN
        intro idx _ h1 _
        obtain ⟨_, hkey⟩ := findTxn_some ht
        rw [← hkey, hk] at ht
        exact h1 t ht
      · intro _ hnone
        refine ⟨fun hk => ?_, fun d hd => hstab d hd f.sa⟩
        apply hN
        intro idx _ _ h2
        apply h2
        have hk' : (⟨p.peerA, f.invokeId⟩ : Key) = p.kB := hk
        rw [← hk']; exact hnone
    · exact moveOk_id hi
  | deliverA i =>
    simp only [Sys.move]
    split
    · rename_i f hf
      have hm : (false, f) ∈ s.net := List.mem_of_getElem? hf
      have hn : f.ty ≠ 0 ∧ Genuine p.TR f := by simpa [NetOk] using hi.net _ _ hm
      refine moveOk_A hi (Local.step_good _ sa hi.a _ ⟨?_, fun _ _ => trivial, ?_⟩)
      · intro t ht hk h3 _ hid
        obtain ⟨g1, g2⟩ := hn.2 h3 hid
        refine ⟨g1, fun hn1 => ?_⟩
        obtain ⟨s1, _⟩ := g2 hn1
        obtain ⟨idx, his, h1⟩ := hnear f hf h3 hid hn1 s1
        obtain ⟨_, hkey⟩ := findTxn_some ht
        rw [← hkey, hk] at ht
        exact ⟨s1, idx, his, h1 t ht⟩
      · intro h0; exact absurd h0 hn.1
    · exact moveOk_id hi
  | drop i =>
    refine ⟨⟨hi.a, hi.b, ?_⟩, (by intro o h; cases h), (by intro o h; cases h)⟩
    intro d f hm
    exact hi.net d f (List.mem_of_mem_eraseIdx hm)
  | timeoutA => exact moveOk_A hi (Local.step_good _ sa hi.a _ trivial)
  | timeoutB => exact moveOk_B hi (Local.step_good _ sb hi.b _ trivial)
  | tickA dt => exact moveOk_A hi (Local.step_good _ sa hi.a _ trivial)
  | tickB dt => exact moveOk_B hi (Local.step_good _ sb hi.b _ trivial)

/-- transfers of at most 256 segments: every delivery is near -/
theorem moveNear_of_le256 (hP : p.countP ≤ 256) (hR : p.countR ≤ 256) {s : Sys}
    (hi : SysInv p cfgA cfgB devA devB s) (m : Move) : MoveNear p s m := by
  cases m with
  | deliverB i =>
    intro f hf h0 hid hn1 _
    have hm : (true, f) ∈ s.net := List.mem_of_getElem? hf
    have hn : p.ReqFrame f := by simpa [NetOk] using hi.net _ _ hm
    obtain ⟨_, idx, his⟩ := ((hn h0 hid).1 h0 hid).2 hn1
    exact ⟨idx, his, fun t _ => near_of_le256 hP his.lt, fun _ => Nat.lt_of_lt_of_le his.lt hP⟩
  | deliverA i =>
    intro f hf h3 hid hn1 _
    have hm : (false, f) ∈ s.net := List.mem_of_getElem? hf
    have hn : f.ty ≠ 0 ∧ Genuine p.TR f := by simpa [NetOk] using hi.net _ _ hm
    obtain ⟨_, idx, his⟩ := (hn.2 h3 hid).2 hn1
    exact ⟨idx, his, fun t _ => ⟨fun _ => near_of_le256 hR his.lt, fun _ => Nat.lt_of_lt_of_le his.lt hR⟩⟩
  | submit c => trivial
  | answer => trivial
  | drop i => trivial
  | timeoutA => trivial
  | timeoutB => trivial
  | tickA dt => trivial
  | tickB dt => trivial

/-- **reassembly_inv (any length, near medium).**  After ANY sequence of moves
    whose deliveries are near (`RunNear`) the invariant holds: every
    receiving transaction of the exchange holds exactly `concat (segments
    0..j)` with `lastSequenceNumber = j % 256`. -/
theorem reassembly_inv_near (g : p.Geo cfgA cfgB devA devB) (hstab : StableB p devB) :
    ∀ (ms : List Move) {s : Sys}, SysInv p cfgA cfgB devA devB s → RunNear p cfgA cfgB s ms →
      MoveOk p cfgA cfgB devA devB (Sys.run p cfgA cfgB s ms) := by
  intro ms
  induction ms with
  | nil => intro s hi _; exact moveOk_id hi
  | cons m ms ih =>
    intro s hi hrun
    have h1 := move_ok g hstab hi m hrun.1
    have h2 := ih h1.inv hrun.2
    simp only [Sys.run]
    refine ⟨h2.inv, ?_, ?_⟩
    · intro o ho
      simp only [List.mem_append] at ho
      rcases ho with ho | ho
      · exact h1.outA o ho
      · exact h2.outA o ho
    · intro o ho
      simp only [List.mem_append] at ho
      rcases ho with ho | ho
      · exact h1.outB o ho
      · exact h2.outB o ho

/-- in transfers of at most 256 segments every run is near -/
theorem runNear_of_le256 (g : p.Geo cfgA cfgB devA devB) (hstab : StableB p devB)
    (hP : p.countP ≤ 256) (hR : p.countR ≤ 256) :
    ∀ (ms : List Move) {s : Sys}, SysInv p cfgA cfgB devA devB s → RunNear p cfgA cfgB s ms := by
  intro ms
  induction ms with
  | nil => intro s _; trivial
  | cons m ms ih =>
    intro s hi
    have hn := moveNear_of_le256 hP hR hi m
    exact ⟨hn, ih (move_ok g hstab hi m hn).inv⟩

/-- **reassembly_inv.**  At most 256 segments per direction: after ANY sequence
    of moves — arbitrary loss, duplication, reordering and delay of genuine
    frames, timer expiries, submissions and answers at any moment — the
    invariant holds: every receiving transaction of the exchange holds exactly
    `concat (segments 0..j)` with `lastSequenceNumber = j`. -/
theorem reassembly_inv (g : p.Geo cfgA cfgB devA devB) (hstab : StableB p devB)
    (hP : p.countP ≤ 256) (hR : p.countR ≤ 256) (ms : List Move) {s : Sys}
    (hi : SysInv p cfgA cfgB devA devB s) :
    MoveOk p cfgA cfgB devA devB (Sys.run p cfgA cfgB s ms) :=
  reassembly_inv_near g hstab ms hi (runNear_of_le256 g hstab hP hR ms hi)

/-- the buffer of the receiving server transaction, spelled out -/
theorem reassembly_server {s : Sys} (hi : SysInv p cfgA cfgB devA devB s) {t : Txn}
    (ht : t ∈ s.b.servers) (hk : t.key = p.kB) (hst : t.body.st = .segReq) :
    ∃ c j, t.body.ctx = some c ∧ j + 1 < p.countP ∧ t.body.lastSeq = j % 256 ∧
      c.data = slicesUpTo p.P p.sizeP (j + 1) := by
  obtain ⟨c, _, _, hb⟩ := (hi.b.srv t ht).2.1 hst
  obtain ⟨j, c', w, h1, h2, h3, h4, _⟩ := hb hk
  exact ⟨c', j, h1, h2, h3, h4⟩

/-- the buffer of the receiving client transaction, spelled out -/
theorem reassembly_client {s : Sys} (hi : SysInv p cfgA cfgB devA devB s) {t : Txn}
    (ht : t ∈ s.a.clients) (hk : t.key = p.kA) (hst : t.body.st = .segConf) :
    ∃ c j, t.body.ctx = some c ∧ j + 1 < p.countR ∧ t.body.lastSeq = j % 256 ∧
      c.data = slicesUpTo p.R p.sizeR (j + 1) := by
  obtain ⟨c, _, _, hb⟩ := (hi.a.cli t ht).2 hst
  obtain ⟨j, c', w, h1, h2, h3, h4, _⟩ := hb hk
  exact ⟨c', j, h1, h2, h3, h4⟩

/-- the initial system: two fresh access points with their caches, nothing in flight -/
def Sys.init (devA devB : List (Peer × DeviceInfo)) : Sys :=
  { a := { devInfo := devA }, b := { devInfo := devB } }

theorem init_inv : SysInv p cfgA cfgB devA devB (Sys.init devA devB) :=
  ⟨⟨rfl, (by intro t h; cases h), (by intro t h; cases h)⟩,
   ⟨rfl, (by intro t h; cases h), (by intro t h; cases h)⟩,
   (by intro d f h; cases h)⟩

/-- **payload_exact (any length; partial: the medium hypothesis `RunNear`).**
    For transfers of ANY number of segments, under loss, duplication, delay
    and reordering that never lets a segment overtake or fall behind by 256
    or more segments (`MoveNear`), timer expiries at any time:
    whatever B indicates as the request of the exchange carries exactly `P`,
    whatever A confirms as its ComplexAck carries exactly `R`.
    Full statement (not proved): `RunNear` derived for FIFO channels (deliver /
    duplicate / drop at the head) and windows ≤ 127. -/
theorem payload_exact_near_partial (g : p.Geo cfgA cfgB devA devB) (hstab : StableB p devB)
    (ms : List Move) (hrun : RunNear p cfgA cfgB (Sys.init devA devB) ms) :
    let r := Sys.run p cfgA cfgB (Sys.init devA devB) ms
    (∀ x, Out.indicate p.peerA x ∈ r.2.2 → x.ty = 0 → x.invokeId = p.id → x.data = p.P) ∧
    (∀ x, Out.confirm p.peerB x ∈ r.2.1 → x.ty = 3 → x.invokeId = p.id → x.data = p.R) := by
  intro r
  have h := reassembly_inv_near g hstab ms (init_inv (p := p) (cfgA := cfgA) (cfgB := cfgB)) hrun
  refine ⟨?_, ?_⟩
  · intro x hx h0 hid
    exact (h.outB _ hx).2.2 p.peerA x rfl rfl h0 hid
  · intro x hx h3 hid
    exact (h.outA _ hx).2.2 p.peerB x rfl rfl h3 hid

/-- **payload_exact.**  While each direction has at most 256 segments, under
    ARBITRARY drop / duplication / reordering / delay of genuine frames, timer
    expiries at any time, submissions and answers at any moment:
    * whenever B indicates the request of the exchange to its application, it
      carries octet for octet the payload `P` A's application submitted;
    * whenever A confirms a ComplexAck of the exchange to its application, it
      carries octet for octet the payload `R` B's application submitted. -/
theorem payload_exact (g : p.Geo cfgA cfgB devA devB) (hstab : StableB p devB)
    (hP : p.countP ≤ 256) (hR : p.countR ≤ 256) (ms : List Move) :
    let r := Sys.run p cfgA cfgB (Sys.init devA devB) ms
    (∀ x, Out.indicate p.peerA x ∈ r.2.2 → x.ty = 0 → x.invokeId = p.id → x.data = p.P) ∧
    (∀ x, Out.confirm p.peerB x ∈ r.2.1 → x.ty = 3 → x.invokeId = p.id → x.data = p.R) :=
  payload_exact_near_partial g hstab ms
    (runNear_of_le256 g hstab hP hR ms (init_inv (p := p) (cfgA := cfgA) (cfgB := cfgB)))

/-- **truncation_impossible.**  Whatever A's application is told about the
    exchange that is NOT the exact response payload is not a ComplexAck at
    all: it is an abort (or an error / reject PDU) — never a truncated,
    duplicated or re-ordered payload; and B's application is never indicated a
    request of the exchange with any other content than `P`. -/
theorem truncation_impossible (g : p.Geo cfgA cfgB devA devB) (hstab : StableB p devB)
    (hP : p.countP ≤ 256) (hR : p.countR ≤ 256) (ms : List Move) :
    let r := Sys.run p cfgA cfgB (Sys.init devA devB) ms
    (∀ x, Out.confirm p.peerB x ∈ r.2.1 → x.invokeId = p.id → x.data ≠ p.R → x.ty ≠ 3) ∧
    (∀ x, Out.indicate p.peerA x ∈ r.2.2 → x.invokeId = p.id → x.data ≠ p.P → x.ty ≠ 0) := by
  intro r
  obtain ⟨h1, h2⟩ := payload_exact g hstab hP hR ms
  exact ⟨fun x hx hid hne h3 => hne (h2 x hx h3 hid), fun x hx hid hne h0 => hne (h1 x hx h0 hid)⟩

/-- **wire lemmas lifted to every step (client).**  In every reachable state
    (any length under `RunNear`; for ≤ 256 segments `runNear_of_le256`
    discharges it),
    every ConfirmedRequest frame of the exchange A hands to the network is the
    unsegmented whole (one slice) or segment `i` with sequence number
    `i % 256`, more-follows `= (i + 1 < count)` and the `i`-th slice, under the
    constant capability header. -/
theorem wire_step_A (g : p.Geo cfgA cfgB devA devB) (hstab : StableB p devB) (ms : List Move)
    (hrun : RunNear p cfgA cfgB (Sys.init devA devB) ms) :
    ∀ f, Out.send p.peerB f ∈ (Sys.run p cfgA cfgB (Sys.init devA devB) ms).2.1 →
      f.ty = 0 → f.invokeId = p.id →
      ReqHdr p.mr p.ms p.sa p.svc f ∧
      (p.countP = 1 → f.seg = false ∧ f.data = p.P) ∧
      (p.countP ≠ 1 → f.seg = true ∧ ∃ i, i < p.countP ∧ f.seq = i % 256 ∧
          f.mor = decide (i + 1 < p.countP) ∧ f.data = sliceOf p.P p.sizeP i) := by
  intro f hf h0 hid
  have h := reassembly_inv_near g hstab ms (init_inv (p := p) (cfgA := cfgA) (cfgB := cfgB)) hrun
  obtain ⟨hg, hh⟩ := (h.outA _ hf).2.1 p.peerB f rfl rfl h0 hid
  obtain ⟨g1, g2⟩ := hg h0 hid
  refine ⟨hh, g1, ?_⟩
  intro hn
  obtain ⟨s1, i, hi⟩ := g2 hn
  exact ⟨s1, i, hi.lt, hi.seq, hi.mor, hi.data⟩

/-- **wire lemmas lifted to every step (server).**  The same for every
    ComplexAck frame of the exchange B hands to the network; and B never emits
    a ConfirmedRequest. -/
theorem wire_step_B (g : p.Geo cfgA cfgB devA devB) (hstab : StableB p devB) (ms : List Move)
    (hrun : RunNear p cfgA cfgB (Sys.init devA devB) ms) :
    ∀ f, Out.send p.peerA f ∈ (Sys.run p cfgA cfgB (Sys.init devA devB) ms).2.2 →
      f.ty ≠ 0 ∧
      (f.ty = 3 → f.invokeId = p.id →
        (p.countR = 1 → f.seg = false ∧ f.data = p.R) ∧
        (p.countR ≠ 1 → f.seg = true ∧ ∃ i, i < p.countR ∧ f.seq = i % 256 ∧
            f.mor = decide (i + 1 < p.countR) ∧ f.data = sliceOf p.R p.sizeR i)) := by
  intro f hf
  have h := reassembly_inv_near g hstab ms (init_inv (p := p) (cfgA := cfgA) (cfgB := cfgB)) hrun
  have ho := h.outB _ hf
  refine ⟨ho.1 p.peerA f rfl, ?_⟩
  intro h3 hid
  obtain ⟨g1, g2⟩ := ho.2.1 p.peerA f rfl rfl h3 hid
  refine ⟨g1, ?_⟩
  intro hn
  obtain ⟨s1, i, hi⟩ := g2 hn
  exact ⟨s1, i, hi.lt, hi.seq, hi.mor, hi.data⟩

end

/-! ## 5. non-vacuity: a concrete exchange under a hostile medium -/

/-- both devices: 50-octet APDUs, segmentation both ways, window 2 -/
def exCfg : Cfg := { BacVerif.Gen.TsmDefaults.cfg with seg := .both, maxSegs := some 16, maxApdu := 50 }

def exPat (n salt : Nat) : Bytes := (List.range n).map fun i => UInt8.ofNat (i * 131 + salt)

/-- a 100-octet request (3 segments of 44, 44, 12 octets) answered by a
    100-octet response (3 segments of 45, 45, 10 octets), invoke ID 1 -/
def exParams : Params :=
  { peerA := 0, peerB := 1, id := 1, svc := 200, P := exPat 100 3, R := exPat 100 9
    sizeP := 44, countP := 3, sizeR := 45, countR := 3, mr := 0, ms := 4, sa := true, MB := 50 }

/-- the hypotheses of the two-party theorems are satisfiable: the geometry
    parameters are what the two sides compute -/
theorem exGeo : exParams.Geo exCfg exCfg [] [] where
  cutP := by decide +kernel
  encMr := by rfl
  encMs := by rfl
  sa := by decide
  holdB := by
    intro m hm
    have : m = 50 := by
      have h : decodeMaxApdu exParams.mr = some 50 := by decide
      rw [h] at hm; exact (Option.some.inj hm).symm
    subst this; decide
  cutR := by
    intro size count h
    have h' : setSegmentSize exParams.R.length (serverMaxApdu (lookupNpdu [] exParams.peerA) exParams.MB) 3 5
        = some (45, 3) := by decide +kernel
    rw [h'] at h
    simp only [Option.some.injEq, Prod.mk.injEq] at h
    exact ⟨h.1.symm, h.2.symm⟩
  wfR := ⟨by decide, by decide +kernel⟩

theorem exLe : exParams.countP ≤ 256 ∧ exParams.countR ≤ 256 := by decide

theorem exStable : StableB exParams [] := by
  intro d h; simp [lookupDI] at h

/-- the medium reorders (segment 2 before segment 1, in both directions),
    duplicates (segments and acks arrive twice), loses a frame, delivers stale
    acks late; a timer fires early -/
def exMoves : List Move :=
  [.submit none, .deliverB 0, .deliverA 1, .deliverB 3, .deliverB 2, .deliverB 2, .deliverB 3, .deliverB 0,
   .answer, .deliverA 4, .deliverA 6, .deliverA 7, .deliverA 7, .deliverB 8, .deliverA 11, .drop 5,
   .deliverA 9, .deliverA 9, .deliverA 10, .deliverA 10, .timeoutB, .deliverB 12]

def indicated (outs : List Out) : List Bytes :=
  outs.filterMap fun o => match o with | .indicate _ a => if a.ty = 0 then some a.data else none | _ => none

def confirmed (outs : List Out) : List Bytes :=
  outs.filterMap fun o => match o with | .confirm _ a => if a.ty = 3 then some a.data else none | _ => none

def negAcks (outs : List Out) : Nat :=
  (outs.filter fun o => match o with | .send _ a => a.ty = 4 && a.nak | _ => false).length

/-- TEST (one concrete trace, evaluated by the kernel — not the theorem): the
    3-segment request and the 3-segment response both arrive exactly, once,
    although 3 + 3 frames were refused with a negative ack on the way; 15
    frames were put on the medium. -/
example :
    let r := Sys.run exParams exCfg exCfg (Sys.init [] []) exMoves
    indicated r.2.2 = [exParams.P] ∧ confirmed r.2.1 = [exParams.R] ∧
    negAcks r.2.2 = 2 ∧ negAcks r.2.1 = 3 ∧ r.1.net.length = 15 ∧
    r.1.a.clients = [] := by
  decide +kernel

/-- the instance of `payload_exact` for the concrete exchange, any move sequence -/
example (ms : List Move) :
    let r := Sys.run exParams exCfg exCfg (Sys.init [] []) ms
    (∀ x, Out.indicate 0 x ∈ r.2.2 → x.ty = 0 → x.invokeId = 1 → x.data = exParams.P) ∧
    (∀ x, Out.confirm 1 x ∈ r.2.1 → x.ty = 3 → x.invokeId = 1 → x.data = exParams.R) :=
  payload_exact exGeo exStable exLe.1 exLe.2 ms

/-- in-order acceptance, concrete: SEGMENTED_CONFIRMATION holding segment 0,
    (a) segment 2 arrives early → negative ack naming 0, buffer unchanged;
    (b) segment 1 arrives → appended -/
example :
    let b : Body := { st := .segConf, ctx := some { ty := 3, invokeId := 1, data := [1, 2] }, lastSeq := 0,
                      window := some 2, timer := some 5 }
    let early : Apdu := { ty := 3, seg := true, mor := false, seq := 2, invokeId := 1, data := [5] }
    let next : Apdu := { ty := 3, seg := true, mor := true, seq := 1, invokeId := 1, data := [3, 4] }
    let r1 := clientSegmentedConfirmation exCfg 0 ⟨1, 1⟩ b early
    let r2 := clientSegmentedConfirmation exCfg 0 ⟨1, 1⟩ b next
    (r1.1.map fun x => (x.ctx.map (·.data), x.lastSeq)) = some (some [1, 2], 0) ∧
    r1.2 = [.send 1 (mkSegAck true false 1 0 2)] ∧
    (r2.1.map fun x => (x.ctx.map (·.data), x.lastSeq)) = some (some [1, 2, 3, 4], 1) := by
  decide +kernel

/-! ### non-vacuity of the any-length theorem: a 257-segment request -/

/-- 11 300 octets toward a peer accepting 50: 257 segments -/
def exLong : Params := { exParams with P := List.replicate 11300 7, countP := 257 }

theorem exGeoLong : exLong.Geo exCfg exCfg [] [] where
  cutP := by
    show setSegmentSize (List.replicate 11300 (7 : UInt8)).length
      (clientMaxApdu (lookupDI [] 1) exCfg.maxApdu) 4 6 = some (44, 257)
    rw [List.length_replicate]
    decide +kernel
  encMr := by rfl
  encMs := by rfl
  sa := by decide
  holdB := exGeo.holdB
  cutR := exGeo.cutR
  wfR := exGeo.wfR

/-- the state after the submission, and the frame it put on the medium -/
def exLong1 : Sys := ((Sys.init [] []).move exLong exCfg exCfg (.submit none)).1
def exLongF : Apdu := match exLong1.net with | (_, f) :: _ => f | [] => default

/-- more than 256 segments, and the hypothesis `RunNear` of
    `payload_exact_near_partial` holds for a (short) run: the first segment
    is delivered to a server that has no buffer yet -/
example : ¬ (exLong.countP ≤ 256) ∧
    RunNear exLong exCfg exCfg (Sys.init [] []) [.submit none, .deliverB 0] := by
  refine ⟨by decide, trivial, ?_, trivial⟩
  intro f hf _ _ _ _
  have hnet : exLong1.net[0]? = some (true, exLongF) := by decide +kernel
  have hf' : exLong1.net[0]? = some (true, f) := hf
  rw [hnet] at hf'
  have hfe : f = exLongF := by
    simp only [Option.some.injEq, Prod.mk.injEq, true_and] at hf'; exact hf'.symm
  rw [hfe]
  have h1 : exLongF.seq = 0 % 256 := by decide +kernel
  have h2 : exLongF.mor = decide (0 + 1 < exLong.TP.count) := by decide +kernel
  have h3 : exLongF.data = sliceOf exLong.TP.P exLong.TP.size 0 := by decide +kernel
  refine ⟨0, ⟨by decide, h1, h2, h3⟩, ?_, fun _ => by decide⟩
  intro t ht
  have hnone : findTxn exLong.kB exLong1.b.servers = none := by decide +kernel
  have ht' : findTxn exLong.kB exLong1.b.servers = some t := ht
  rw [hnone] at ht'; cases ht'

end BacVerif.C05
