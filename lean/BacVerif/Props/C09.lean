/-
  C09 — BACnet/IP frames carry a correct length and round-trip all twelve functions.

  Property text → formal statement (model: `Model.Bvll`, a transcription of
  bvll.py, pack/unpack_ip_addr of pdu.py and AnnexJCodec of bvllservice.py)
  * "Every BVLL frame the library produces starts with type 0x81, the function
    code, and a length field equal to the total number of octets of the frame"
        → `bvll_length` — for EVERY message object: any of the twelve classes,
          any table size, any payload, any (even stale) stored length, any
          address size: if the codec emits octets at all, they start
          `81 fn` and the length field is the frame's length (mod 2^16, the width
          of the field); `bvll_length_exact` for frames below 65536 octets;
          `stale_length_refused`, `recomputed_never_refused` say when it emits
  * "each of the twelve functions … round-trips its parameters, including
    six-octet IP:port addresses, masks, TTL and remaining time"
        → `bvll_roundtrip` (through `codecIndication` / `codecConfirmation`, the
          registry dispatch included), `bdt_roundtrip`, `fdt_roundtrip` (tables of
          ANY length), `ip_roundtrip`, `registry_matches`
  * "A received frame whose type or length field disagrees with the datagram is
    refused"
        → `bvll_refuses` = `bvll_refuses_type`, `bvll_refuses_length`, `bvll_refuses_short`,
          `bvlpdu_accepts_iff` (exact characterisation of what is accepted),
          `confirmation_only_decoding_errors` (no other failure; the table loops
          never run out of fuel, i.e. terminate), `unknown_function` (function
          codes outside the registry are not delivered)
-/
import BacVerif.Model.Bvll
import BacVerif.Lemmas.Frame
import BacVerif.Gen.BvlTypes
namespace BacVerif.C09
open BacVerif BacVerif.Bvll BacVerif.Frame
open BacVerif.Npci (put)

theorem put_ok {n : Nat} (h : n < 256) : put n = .ok [UInt8.ofNat n] := by simp [put, h]

theorem code_lt (f : Fn) : f.code < 12 := by cases f <;> decide

/-! ## the length field -/

/-- what `BVLCI.encode`/`BVLPDU.encode` emit, when they emit -/
theorem encodeBvlpdu_ok {fn len : Nat} {data bs : Bytes} (h : encodeBvlpdu fn len data = .ok bs) :
    fn < 256 ∧ len = data.length + 4 ∧ bs = 0x81 :: UInt8.ofNat fn :: (be16 len ++ data) := by
  unfold encodeBvlpdu at h
  rw [put_ok (by omega)] at h
  by_cases hfn : fn < 256
  · rw [put_ok hfn] at h
    by_cases hl : len = data.length + 4
    · simp only [hl, ne_eq, not_true_eq_false, if_false, Except.ok.injEq] at h
      exact ⟨hfn, hl, by rw [← h, hl]; rfl⟩
    · simp [hl] at h
  · simp [put, hfn] at h

/-- … and it does emit whenever the announced length is the true one -/
theorem encodeBvlpdu_of_eq {fn len : Nat} {data : Bytes} (hfn : fn < 256) (hl : len = data.length + 4) :
    encodeBvlpdu fn len data = .ok (0x81 :: UInt8.ofNat fn :: (be16 len ++ data)) := by
  subst hl
  simp [encodeBvlpdu, put_ok, hfn]

theorem codecIndication_eq (o : Obj) :
    codecIndication o = encodeBvlpdu o.msg.fn.code (encodeBody o).1 (encodeBody o).2 := by
  unfold codecIndication
  generalize encodeBody o = p
  cases p
  rfl

/-- **bvll_length**: whatever message object is handed to the codec — any of
    the twelve classes, any table size, any payload length, any stored
    `bvlciLength` (stale or not), addresses of any size — the octets it emits,
    if any, are `0x81`, the function code, the big-endian length of the whole
    frame (as far as 16 bits can tell), then the body. -/
theorem bvll_length (o : Obj) (bs : Bytes) (h : codecIndication o = .ok bs) :
    ∃ body, bs = 0x81 :: UInt8.ofNat o.msg.fn.code :: (be16 bs.length ++ body) ∧
      bs.length = body.length + 4 := by
  rw [codecIndication_eq] at h
  obtain ⟨_, hl, rfl⟩ := encodeBvlpdu_ok h
  have hlen : (0x81 :: UInt8.ofNat o.msg.fn.code :: (be16 (encodeBody o).1 ++ (encodeBody o).2)).length
      = (encodeBody o).1 := by
    simp only [List.length_cons, List.length_append, be16_length]; omega
  refine ⟨(encodeBody o).2, by rw [hlen], by rw [hlen, hl]⟩

/-- **bvll_length_exact**: for frames that fit the 16-bit field (every real
    datagram does) the length field read back as a number IS the number of
    octets of the frame. -/
theorem bvll_length_exact (o : Obj) (bs : Bytes) (h : codecIndication o = .ok bs)
    (hsmall : bs.length < 65536) :
    bs[0]? = some 0x81 ∧ bs[1]? = some (UInt8.ofNat o.msg.fn.code) ∧
    beVal ((bs.drop 2).take 2) = bs.length := by
  obtain ⟨body, hb, _⟩ := bvll_length o bs h
  have hv : beVal (be16 bs.length) = bs.length := by rw [beVal_be16]; omega
  generalize bs.length = n at hb hv
  subst hb
  refine ⟨rfl, rfl, ?_⟩
  simpa [be16] using hv

/-- the body octets each class writes, and the length it announces -/
def recomputes : Fn → Bool
  | .readBroadcastDistributionTableAck | .forwardedNPDU | .distributeBroadcastToNetwork
  | .originalUnicastNPDU | .originalBroadcastNPDU => true
  | _ => false

/-- **stale_length_refused**: the seven classes that keep the constructor's
    length refuse (`EncodingError`) to emit anything when it no longer matches
    what they would write — no frame with a wrong length leaves the codec. -/
theorem stale_length_refused (o : Obj) (hr : recomputes o.msg.fn = false)
    (hstale : o.storedLength ≠ (encodeBody o).2.length + 4) :
    codecIndication o = .error .encoding := by
  have hc := code_lt o.msg.fn
  have h1 : (encodeBody o).1 = o.storedLength := by
    obtain ⟨m, sl⟩ := o
    cases m <;> simp [encodeBody, Msg.fn, recomputes] at hr ⊢
  rw [codecIndication_eq]
  unfold encodeBvlpdu
  simp only [put_ok (show 0x81 < 256 by omega), put_ok (show o.msg.fn.code < 256 by omega), h1]
  simp [hstale]

/-! ## what the receiver accepts -/

/-- **bvlpdu_accepts_iff**: a datagram is accepted as a BVLPDU exactly when it
    is `0x81`, a function octet, and a 16-bit length equal to the number of
    octets of the datagram, followed by the data. -/
theorem bvlpdu_accepts_iff (bs : Bytes) (fn len : Nat) (data : Bytes) :
    decodeBvlpdu bs = .ok (fn, len, data) ↔
      fn < 256 ∧ len < 65536 ∧ len = bs.length ∧
      bs = 0x81 :: UInt8.ofNat fn :: (be16 len ++ data) := by
  constructor
  · intro h
    unfold decodeBvlpdu at h
    split at h
    · cases h
    · rename_i t r0 h0
      split at h
      · cases h
      · rename_i ht
        split at h
        · cases h
        · rename_i fn' r1 h1
          split at h
          · cases h
          · rename_i len' r2 h2
            split at h
            · cases h
            · rename_i hl
              cases h
              obtain ⟨_, b0, rfl, hb0⟩ := getU8_ok h0
              obtain ⟨hf, b1, rfl, hb1⟩ := getU8_ok h1
              obtain ⟨hlen, x, y, rfl, hxy⟩ := getU16_ok h2
              have ht' : b0.toNat = 0x81 := by rw [hb0]; simpa using ht
              have e0 : b0 = 0x81 := UInt8.toNat_inj.mp ht'
              have e1 : UInt8.ofNat fn = b1 := by
                apply UInt8.toNat_inj.mp; rw [toNat_ofNat_lt hf, hb1]
              have hx := x.toNat_lt
              have hy := y.toNat_lt
              have e2 : UInt8.ofNat (len / 256 % 256) = x := by
                apply UInt8.toNat_inj.mp; rw [toNat_ofNat_lt (by omega)]; omega
              have e3 : UInt8.ofNat (len % 256) = y := by
                apply UInt8.toNat_inj.mp; rw [toNat_ofNat_lt (by omega)]; omega
              refine ⟨hf, hlen, ?_, ?_⟩
              · simp only [List.length_cons]; simp only [ne_eq, Decidable.not_not] at hl; omega
              · simp [be16, e0, e1, e2, e3]
  · rintro ⟨hf, hl, hlen, rfl⟩
    have hd : len = data.length + 4 := by simp [be16] at hlen; omega
    subst hd
    simp [decodeBvlpdu, getU8, toNat_ofNat_lt hf, getU16_be16 _ hl]

theorem decodeBvlpdu_err : OnlyDecoding decodeBvlpdu := by
  intro bs e h
  unfold decodeBvlpdu at h
  split at h
  · rename_i e' he; cases h; exact getU8_err _ _ he
  · split at h
    · cases h; rfl
    · split at h
      · rename_i e' he; cases h; exact getU8_err _ _ he
      · split at h
        · rename_i e' he; cases h; exact getU16_err _ _ he
        · split at h
          · cases h; rfl
          · cases h

/-- **bvll_refuses_type**: a datagram that does not start with 0x81 (the
    empty one included) is refused with a decoding error. -/
theorem bvll_refuses_type (bs : Bytes) (h : bs.head? ≠ some 0x81) :
    codecConfirmation bs = .refused .decoding := by
  have : decodeBvlpdu bs = .error .decoding := by
    cases bs with
    | nil => rfl
    | cons a r =>
      have : a.toNat ≠ 0x81 := by
        intro hh
        apply h
        have : a = 0x81 := UInt8.toNat_inj.mp hh
        simp [this]
      simp [decodeBvlpdu, getU8, this]
  simp [codecConfirmation, this]

/-- **bvll_refuses_length**: a datagram whose length field differs from the
    number of octets received is refused — whatever the function code and
    whatever the body. -/
theorem bvll_refuses_length (t fn hi lo : UInt8) (rest : Bytes)
    (h : hi.toNat * 256 + lo.toNat ≠ rest.length + 4) :
    codecConfirmation (t :: fn :: hi :: lo :: rest) = .refused .decoding := by
  have : decodeBvlpdu (t :: fn :: hi :: lo :: rest) = .error .decoding := by
    simp only [decodeBvlpdu, getU8, getU16]
    split
    · rfl
    · simp
  simp [codecConfirmation, this]

/-- **bvll_refuses_short**: fewer than four octets cannot be a frame -/
theorem bvll_refuses_short (bs : Bytes) (h : bs.length < 4) :
    codecConfirmation bs = .refused .decoding := by
  have : decodeBvlpdu bs = .error .decoding := by
    match bs, h with
    | [], _ => rfl
    | [a], _ => simp only [decodeBvlpdu, getU8]; split <;> rfl
    | [a, b], _ => simp only [decodeBvlpdu, getU8, getU16]; split <;> rfl
    | [a, b, c], _ => simp only [decodeBvlpdu, getU8, getU16]; split <;> rfl
  simp [codecConfirmation, this]

/-! ## the table loops -/

def WFBdtEntry (e : BdtEntry) : Prop := e.addr.length = 6 ∧ e.mask < 4294967296
def WFFdtEntry (e : FdtEntry) : Prop := e.addr.length = 6 ∧ e.ttl < 65536 ∧ e.remain < 65536

instance (e : BdtEntry) : Decidable (WFBdtEntry e) := by unfold WFBdtEntry; exact inferInstance
instance (e : FdtEntry) : Decidable (WFFdtEntry e) := by unfold WFFdtEntry; exact inferInstance

theorem encodeBdt_length (es : List BdtEntry) (hw : ∀ e ∈ es, e.addr.length = 6) :
    (encodeBdt es).length = 10 * es.length := by
  induction es with
  | nil => rfl
  | cons e es ih =>
    have := hw e (by simp)
    simp [encodeBdt, be32, ih (fun x hx => hw x (by simp [hx]))]; omega

theorem encodeFdt_length (es : List FdtEntry) (hw : ∀ e ∈ es, e.addr.length = 6) :
    (encodeFdt es).length = 10 * es.length := by
  induction es with
  | nil => rfl
  | cons e es ih =>
    have := hw e (by simp)
    simp [encodeFdt, be16, ih (fun x hx => hw x (by simp [hx]))]; omega

theorem decodeBdtFuel_encode (es : List BdtEntry) (hw : ∀ e ∈ es, WFBdtEntry e) :
    ∀ fuel, (encodeBdt es).length ≤ fuel → decodeBdtFuel fuel (encodeBdt es) = .ok es := by
  induction es with
  | nil => intro fuel _; cases fuel <;> rfl
  | cons e es ih =>
    intro fuel hf
    obtain ⟨ha, hm⟩ := hw e (by simp)
    have hlen : (encodeBdt (e :: es)).length = 10 + (encodeBdt es).length := by
      simp [encodeBdt, be32]; omega
    cases fuel with
    | zero => omega
    | succ fuel =>
      cases hbs : encodeBdt (e :: es) with
      | nil => rw [hbs] at hlen; simp only [List.length_nil] at hlen; omega
      | cons b bs =>
        unfold decodeBdtFuel
        rw [← hbs]
        simp only [encodeBdt, List.append_assoc]
        rw [getData_append' e.addr _ 6 ha.symm]
        simp only
        rw [getU32_be32 e.mask hm]
        simp only
        rw [ih (fun x hx => hw x (by simp [hx])) fuel (by omega)]

/-- **bdt_roundtrip**: broadcast distribution tables of any length -/
theorem bdt_roundtrip (es : List BdtEntry) (hw : ∀ e ∈ es, WFBdtEntry e) :
    decodeBdt (encodeBdt es) = .ok es :=
  decodeBdtFuel_encode es hw _ (Nat.le_refl _)

theorem decodeFdtFuel_encode (es : List FdtEntry) (hw : ∀ e ∈ es, WFFdtEntry e) :
    ∀ fuel, (encodeFdt es).length ≤ fuel → decodeFdtFuel fuel (encodeFdt es) = .ok es := by
  induction es with
  | nil => intro fuel _; cases fuel <;> rfl
  | cons e es ih =>
    intro fuel hf
    obtain ⟨ha, ht, hr⟩ := hw e (by simp)
    have hlen : (encodeFdt (e :: es)).length = 10 + (encodeFdt es).length := by
      simp [encodeFdt, be16]; omega
    cases fuel with
    | zero => omega
    | succ fuel =>
      cases hbs : encodeFdt (e :: es) with
      | nil => rw [hbs] at hlen; simp only [List.length_nil] at hlen; omega
      | cons b bs =>
        unfold decodeFdtFuel
        rw [← hbs]
        simp only [encodeFdt, List.append_assoc]
        rw [getData_append' e.addr _ 6 ha.symm]
        simp only
        rw [getU16_be16 e.ttl ht]
        simp only
        rw [getU16_be16 e.remain hr]
        simp only
        rw [ih (fun x hx => hw x (by simp [hx])) fuel (by omega)]

/-- **fdt_roundtrip**: foreign device tables of any length -/
theorem fdt_roundtrip (es : List FdtEntry) (hw : ∀ e ∈ es, WFFdtEntry e) :
    decodeFdt (encodeFdt es) = .ok es :=
  decodeFdtFuel_encode es hw _ (Nat.le_refl _)

/-- the fuel of the BDT loop is never exhausted: with fuel ≥ input length the
    only failure is a decoding error (termination of the Python `while`) -/
theorem decodeBdtFuel_err : ∀ (fuel : Nat) (bs : Bytes) (e : Err), bs.length ≤ fuel →
    decodeBdtFuel fuel bs = .error e → e = .decoding := by
  intro fuel
  induction fuel with
  | zero =>
    intro bs e hl h
    cases bs with
    | nil => simp [decodeBdtFuel] at h
    | cons b bs => simp at hl
  | succ fuel ih =>
    intro bs e hl h
    cases bs with
    | nil => simp [decodeBdtFuel] at h
    | cons b bs =>
      unfold decodeBdtFuel at h
      split at h
      · rename_i e' he; cases h; exact getData_err _ _ _ he
      · rename_i addr r1 h1
        split at h
        · rename_i e' he; cases h; exact getU32_err _ _ he
        · rename_i mask r2 h2
          obtain ⟨hbs, ha⟩ := getData_ok h1
          obtain ⟨_, p, hp, hpl⟩ := getU32_ok h2
          have hlen : r2.length ≤ fuel := by
            have := congrArg List.length hbs
            rw [hp] at this
            simp at this hl
            omega
          split at h
          · rename_i e' he; cases h; exact ih _ _ hlen he
          · cases h

theorem decodeFdtFuel_err : ∀ (fuel : Nat) (bs : Bytes) (e : Err), bs.length ≤ fuel →
    decodeFdtFuel fuel bs = .error e → e = .decoding := by
  intro fuel
  induction fuel with
  | zero =>
    intro bs e hl h
    cases bs with
    | nil => simp [decodeFdtFuel] at h
    | cons b bs => simp at hl
  | succ fuel ih =>
    intro bs e hl h
    cases bs with
    | nil => simp [decodeFdtFuel] at h
    | cons b bs =>
      unfold decodeFdtFuel at h
      split at h
      · rename_i e' he; cases h; exact getData_err _ _ _ he
      · rename_i addr r1 h1
        split at h
        · rename_i e' he; cases h; exact getU16_err _ _ he
        · rename_i ttl r2 h2
          split at h
          · rename_i e' he; cases h; exact getU16_err _ _ he
          · rename_i rem r3 h3
            obtain ⟨hbs, ha⟩ := getData_ok h1
            obtain ⟨_, x, y, hp, _⟩ := getU16_ok h2
            obtain ⟨_, x', y', hp', _⟩ := getU16_ok h3
            have hlen : r3.length ≤ fuel := by
              have := congrArg List.length hbs
              rw [hp, hp'] at this
              simp at this hl
              omega
            split at h
            · rename_i e' he; cases h; exact ih _ _ hlen he
            · cases h

theorem decodeBody_err (f : Fn) : OnlyDecoding (decodeBody f) := by
  intro bs e h
  cases f <;> simp only [decodeBody] at h
  · split at h
    · rename_i e' he; cases h; exact getU16_err _ _ he
    · cases h
  · cases hd : decodeBdt bs with
    | ok v => rw [hd] at h; cases h
    | error e' => rw [hd] at h; cases h; exact decodeBdtFuel_err _ _ _ (Nat.le_refl _) hd
  · cases h
  · cases hd : decodeBdt bs with
    | ok v => rw [hd] at h; cases h
    | error e' => rw [hd] at h; cases h; exact decodeBdtFuel_err _ _ _ (Nat.le_refl _) hd
  · split at h
    · rename_i e' he; cases h; exact getData_err _ _ _ he
    · cases h
  · split at h
    · rename_i e' he; cases h; exact getU16_err _ _ he
    · cases h
  · cases h
  · cases hd : decodeFdt bs with
    | ok v => rw [hd] at h; cases h
    | error e' => rw [hd] at h; cases h; exact decodeFdtFuel_err _ _ _ (Nat.le_refl _) hd
  · split at h
    · rename_i e' he; cases h; exact getData_err _ _ _ he
    · cases h
  · cases h
  · cases h
  · cases h

/-- **confirmation_only_decoding_errors**: `AnnexJCodec.confirmation` refuses
    with `DecodingError` and nothing else (in particular the table loops never
    run out of fuel: they terminate). -/
theorem confirmation_only_decoding_errors (bs : Bytes) (e : Err)
    (h : codecConfirmation bs = .refused e) : e = .decoding := by
  unfold codecConfirmation at h
  split at h
  · rename_i e' he; cases h; exact decodeBvlpdu_err _ _ he
  · split at h
    · cases h
    · split at h
      · rename_i e' he; cases h; exact decodeBody_err _ _ _ he
      · cases h

/-! ## the registry -/

/-- the regenerated `bvl_pdu_types` registry of the tree under test is exactly
    the table the model dispatches on, and the `BVLCI` constants are the same
    twelve codes (kernel evaluation) -/
theorem registry_matches :
    Gen.bvlTypes = registry ∧ Gen.bvlciFunctions.map (·.1) = Fn.all.map Fn.code := by decide

theorem fnOfCode_code (f : Fn) : fnOfCode f.code = some f := by cases f <;> rfl

theorem fnOfCode_some {c : Nat} {f : Fn} (h : fnOfCode c = some f) : f.code = c := by
  unfold fnOfCode at h
  have := List.find?_some h
  simpa using this

/-- the registered function codes are exactly 0..11 -/
theorem fnOfCode_none_iff (c : Nat) : fnOfCode c = none ↔ 12 ≤ c := by
  constructor
  · intro h
    by_cases hc : 12 ≤ c
    · exact hc
    · have hc' : c < 12 := by omega
      exfalso
      revert h
      have : ∀ c, c < 12 → fnOfCode c ≠ none := by decide
      exact this c hc'
  · intro h
    cases hf : fnOfCode c with
    | none => rfl
    | some f => have := fnOfCode_some hf; have := code_lt f; omega

/-- **unknown_function**: an otherwise well-framed datagram whose function
    code is outside the registry (12..255) is not delivered as any message
    (Python: `KeyError` out of `AnnexJCodec.confirmation`). -/
theorem unknown_function (fn : Nat) (data : Bytes) (hfn : 12 ≤ fn) (hfn' : fn < 256)
    (hl : data.length + 4 < 65536) :
    codecConfirmation (0x81 :: UInt8.ofNat fn :: (be16 (data.length + 4) ++ data)) = .unknownFunction fn := by
  have hdec := (bvlpdu_accepts_iff (0x81 :: UInt8.ofNat fn :: (be16 (data.length + 4) ++ data))
      fn (data.length + 4) data).mpr ⟨hfn', hl, by simp [be16], rfl⟩
  have := (fnOfCode_none_iff fn).mpr hfn
  simp [codecConfirmation, hdec, this]

/-- **bvll_refuses**: the refusals of the property in one statement — a
    datagram whose type octet is not 0x81, whose length field is not its
    number of octets, or which is too short to have either, ends in a decoding
    error; a well-framed one with an unregistered function code is not
    delivered as any message. -/
theorem bvll_refuses :
    (∀ bs : Bytes, bs.head? ≠ some 0x81 → codecConfirmation bs = .refused .decoding) ∧
    (∀ (t fn hi lo : UInt8) (rest : Bytes), hi.toNat * 256 + lo.toNat ≠ rest.length + 4 →
        codecConfirmation (t :: fn :: hi :: lo :: rest) = .refused .decoding) ∧
    (∀ bs : Bytes, bs.length < 4 → codecConfirmation bs = .refused .decoding) ∧
    (∀ (fn : Nat) (data : Bytes), 12 ≤ fn → fn < 256 → data.length + 4 < 65536 →
        codecConfirmation (0x81 :: UInt8.ofNat fn :: (be16 (data.length + 4) ++ data)) = .unknownFunction fn) :=
  ⟨bvll_refuses_type, bvll_refuses_length, bvll_refuses_short, unknown_function⟩

/-! ## round trip of the twelve functions -/

/-- the parameters the property quantifies over -/
def WFMsg : Msg → Prop
  | .result code => code < 65536
  | .writeBroadcastDistributionTable bdt => ∀ e ∈ bdt, WFBdtEntry e
  | .readBroadcastDistributionTable => True
  | .readBroadcastDistributionTableAck bdt => ∀ e ∈ bdt, WFBdtEntry e
  | .forwardedNPDU addr _ => addr.length = 6
  | .registerForeignDevice ttl => ttl < 65536
  | .readForeignDeviceTable => True
  | .readForeignDeviceTableAck fdt => ∀ e ∈ fdt, WFFdtEntry e
  | .deleteForeignDeviceTableEntry addr => addr.length = 6
  | .distributeBroadcastToNetwork _ => True
  | .originalUnicastNPDU _ => True
  | .originalBroadcastNPDU _ => True

instance (m : Msg) : Decidable (WFMsg m) := by cases m <;> (unfold WFMsg; exact inferInstance)

/-- the address-size part of well-formedness: B/IP addresses are six octets -/
def AddrsSix : Msg → Prop
  | .writeBroadcastDistributionTable bdt => ∀ e ∈ bdt, e.addr.length = 6
  | .readBroadcastDistributionTableAck bdt => ∀ e ∈ bdt, e.addr.length = 6
  | .forwardedNPDU addr _ => addr.length = 6
  | .readForeignDeviceTableAck fdt => ∀ e ∈ fdt, e.addr.length = 6
  | .deleteForeignDeviceTableEntry addr => addr.length = 6
  | _ => True

instance (m : Msg) : Decidable (AddrsSix m) := by cases m <;> (unfold AddrsSix; exact inferInstance)

theorem WFMsg.addrsSix {m : Msg} (hw : WFMsg m) : AddrsSix m := by
  cases m <;> simp only [WFMsg, AddrsSix] at hw ⊢
  · intro e he; exact (hw e he).1
  · intro e he; exact (hw e he).1
  · exact hw
  · intro e he; exact (hw e he).1
  · exact hw

/-- with six-octet addresses the number of body octets is what every
    constructor (and every recomputing `encode`) announces -/
theorem body_length (m : Msg) (sl : Nat) (hw : AddrsSix m) :
    (encodeBody ⟨m, sl⟩).2.length + 4 = ctorLength m := by
  cases m <;> simp only [encodeBody, ctorLength, AddrsSix] at hw ⊢
  · simp [be16]
  · rw [encodeBdt_length _ hw]; omega
  · simp
  · rw [encodeBdt_length _ hw]; omega
  · simp [hw]; omega
  · simp [be16]
  · simp
  · rw [encodeFdt_length _ hw]; omega
  · rw [hw]
  · omega
  · omega
  · omega

/-- a freshly constructed object is never stale -/
theorem ctorLength_eq (m : Msg) : (encodeBody (construct m)).1 = ctorLength m := by
  cases m <;> rfl

/-- **recomputed_never_refused**: the five classes that recompute the length
    in `encode` always emit when their addresses are six octets, whatever
    length was stored before. -/
theorem recomputed_never_refused (o : Obj) (hr : recomputes o.msg.fn = true) (ha : AddrsSix o.msg) :
    ∃ bs, codecIndication o = .ok bs := by
  obtain ⟨m, sl⟩ := o
  have hc := code_lt m.fn
  simp only at hr ha
  have hb := body_length m sl ha
  have h1 : (encodeBody ⟨m, sl⟩).1 = ctorLength m := by
    cases m <;> simp [Msg.fn, recomputes] at hr <;> rfl
  rw [codecIndication_eq]
  exact ⟨_, encodeBvlpdu_of_eq (by simp only; omega) (by rw [h1, hb])⟩

theorem decodeBody_encode (m : Msg) (hw : WFMsg m) :
    decodeBody m.fn (encodeBody (construct m)).2 = .ok m := by
  cases m with
  | result code =>
    have := getU16_be16 code hw []
    rw [List.append_nil] at this
    simp [Msg.fn, decodeBody, encodeBody, construct, this]
  | writeBroadcastDistributionTable bdt =>
    simp [Msg.fn, decodeBody, encodeBody, construct, bdt_roundtrip bdt hw, Except.map]
  | readBroadcastDistributionTable => rfl
  | readBroadcastDistributionTableAck bdt =>
    simp [Msg.fn, decodeBody, encodeBody, construct, bdt_roundtrip bdt hw, Except.map]
  | forwardedNPDU addr npdu =>
    have ha : addr.length = 6 := hw
    simp [Msg.fn, decodeBody, encodeBody, construct, getData_append' addr npdu 6 ha.symm]
  | registerForeignDevice ttl =>
    have := getU16_be16 ttl hw []
    rw [List.append_nil] at this
    simp [Msg.fn, decodeBody, encodeBody, construct, this]
  | readForeignDeviceTable => rfl
  | readForeignDeviceTableAck fdt =>
    simp [Msg.fn, decodeBody, encodeBody, construct, fdt_roundtrip fdt hw, Except.map]
  | deleteForeignDeviceTableEntry addr =>
    have ha : addr.length = 6 := hw
    have := getData_append' addr [] 6 ha.symm
    rw [List.append_nil] at this
    simp [Msg.fn, decodeBody, encodeBody, construct, this]
  | distributeBroadcastToNetwork npdu => rfl
  | originalUnicastNPDU npdu => rfl
  | originalBroadcastNPDU npdu => rfl

/-- **bvll_roundtrip**: each of the twelve functions, constructed from
    well-formed parameters (six-octet addresses, 32-bit masks, 16-bit TTL /
    remaining time / result code; tables and payloads of any size that fits a
    frame), is emitted by `AnnexJCodec.indication` and read back by
    `AnnexJCodec.confirmation` — through the length check and the registry
    dispatch — as the same object. -/
theorem bvll_roundtrip (m : Msg) (hw : WFMsg m) (hfit : ctorLength m < 65536) :
    ∃ bs, codecIndication (construct m) = .ok bs ∧ bs.length = ctorLength m ∧
      codecConfirmation bs = .delivered (construct m) := by
  have h1 := ctorLength_eq m
  have h2 := body_length m (ctorLength m) hw.addrsSix
  have hc := code_lt m.fn
  have h2' : ctorLength m = (encodeBody (construct m)).2.length + 4 := by rw [construct]; omega
  refine ⟨0x81 :: UInt8.ofNat m.fn.code :: (be16 (ctorLength m) ++ (encodeBody (construct m)).2), ?_, ?_, ?_⟩
  · rw [codecIndication_eq, h1]
    exact encodeBvlpdu_of_eq (show (construct m).msg.fn.code < 256 by simp only [construct]; omega) h2'
  · simp only [List.length_cons, List.length_append, be16_length]; omega
  · have hdec := (bvlpdu_accepts_iff
        (0x81 :: UInt8.ofNat m.fn.code :: (be16 (ctorLength m) ++ (encodeBody (construct m)).2))
        m.fn.code (ctorLength m) (encodeBody (construct m)).2).mpr
        ⟨by omega, hfit, by simp only [List.length_cons, List.length_append, be16_length]; omega, rfl⟩
    have hdb := decodeBody_encode m hw
    simp only [codecConfirmation, hdec, fnOfCode_code, hdb]
    rfl

/-! ## pack_ip_addr / unpack_ip_addr -/

/-- **ip_roundtrip**: every IPv4 address and port packs into six octets that
    unpack to the same address and port (ports above 65535 are masked by
    `pack_ip_addr`, hence the `%`). -/
theorem ip_roundtrip (x : IpPort) (ha : x.a < 256) (hb : x.b < 256) (hc : x.c < 256) (hd : x.d < 256) :
    ∃ bs, packIpAddr x = .ok bs ∧ bs.length = 6 ∧
      unpackIpAddr bs = .ok { x with port := x.port % 65536 } := by
  refine ⟨[UInt8.ofNat x.a, UInt8.ofNat x.b, UInt8.ofNat x.c, UInt8.ofNat x.d] ++ be16 x.port,
    by simp [packIpAddr, ha, hb, hc, hd], by simp [be16], ?_⟩
  simp only [be16, List.cons_append, List.nil_append, unpackIpAddr, toNat_ofNat_lt ha, toNat_ofNat_lt hb,
    toNat_ofNat_lt hc, toNat_ofNat_lt hd]
  have h1 : x.port / 256 % 256 < 256 := by omega
  have h2 : x.port % 256 < 256 := by omega
  rw [toNat_ofNat_lt h1, toNat_ofNat_lt h2]
  cases x
  simp only [Except.ok.injEq, IpPort.mk.injEq, true_and]
  omega

/-! ## non-vacuity: concrete, non-trivial instances of every hypothesis -/

def exBdt : List BdtEntry :=
  [⟨[192, 168, 0, 1, 0xBA, 0xC0], 0xFFFFFF00⟩, ⟨[10, 0, 0, 255, 0, 1], 0⟩]

example : WFMsg (.writeBroadcastDistributionTable exBdt) ∧
    ctorLength (.writeBroadcastDistributionTable exBdt) < 65536 := by decide
example : codecIndication (construct (.writeBroadcastDistributionTable exBdt)) =
    .ok [0x81, 1, 0, 24, 192, 168, 0, 1, 0xBA, 0xC0, 0xFF, 0xFF, 0xFF, 0, 10, 0, 0, 255, 0, 1, 0, 0, 0, 0] := by rfl
example : WFMsg (.readForeignDeviceTableAck [⟨[1, 2, 3, 4, 0xBA, 0xC0], 65535, 30⟩]) := by decide
example : WFMsg (.forwardedNPDU [1, 2, 3, 4, 0xBA, 0xC0] [1, 0, 0xAA]) := by decide
/-- `stale_length_refused`: a table grown after construction -/
example : recomputes (Msg.writeBroadcastDistributionTable exBdt).fn = false ∧
    (4 : Nat) ≠ (encodeBody ⟨.writeBroadcastDistributionTable exBdt, 4⟩).2.length + 4 := by decide
example : codecIndication ⟨.writeBroadcastDistributionTable exBdt, 4⟩ = .error .encoding := by rfl
/-- `recomputed_never_refused` -/
example : recomputes (Msg.originalUnicastNPDU [1, 2, 3]).fn = true := by decide
example : codecIndication ⟨.originalUnicastNPDU [1, 2, 3], 999⟩ = .ok [0x81, 10, 0, 7, 1, 2, 3] := by rfl
/-- refusals (tests) -/
example : codecConfirmation [0x81, 10, 0, 8, 1, 2, 3] = .refused .decoding := by rfl
example : codecConfirmation [0x82, 10, 0, 7, 1, 2, 3] = .refused .decoding := by rfl
example : codecConfirmation [0x81, 12, 0, 4] = .unknownFunction 12 := by rfl
example : codecConfirmation [0x81, 1, 0, 9, 1, 2, 3, 4, 5] = .refused .decoding := by rfl
example : (IpPort.mk 255 0 128 1 47808).a < 256 := by decide

end BacVerif.C09
