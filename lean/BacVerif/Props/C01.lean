/-
  C01 — Primitive values survive encoding unchanged and are never silently altered.

  Property text → formal statement (model: BacVerif/Model/Prim.lean over Model/Tag.lean)
  * "For every value a BACnet primitive type accepts …, encoding it as an
    application tag … and decoding the produced octets yields the same value"
        → `prim_roundtrip` (tag level, every type, every value, no size bound)
  * "… or as a context tag …" / "both tagging modes and every context number 0..254"
        → `prim_wire_roundtrip` (through `serializeTag`/`parseTag` of C02, with
          arbitrary trailing octets; proved for every context number ≤ 255),
          `ctx_app_inverse` (incl. the boolean special case: value moves between
          LVT and data)
  * "the octets are the standard's canonical form (shortest-length integers,
    unused-bit count for bit strings, 4/8-octet IEEE floats, 10+22-bit object
    identifiers)"
        → `unsigned_minimal`, `unsigned_shortest`, `unsigned_canonical_unique`,
          `integer_minimal`, `integer_shortest`, `integer_canonical_unique`,
          `bits_header`, `real_len4`,
          `double_len8`, `oid_layout`, `oid_word_bijection`, `oid_octets_bijection`
  * "If a value cannot be represented the encoder refuses with an error; it
    never emits octets that decode to a different value"
        → `prim_refuses` (¬Valid → error) together with `prim_roundtrip`
          (Valid → the same value), and `prim_never_alters` (whatever is emitted
          decodes to the value that was given); `decodePrim_only_invalidTag`
          (a decoder fails with InvalidTag or not at all); `app_to_object_roundtrip`
  * "Enumerated … and their subclasses" / "every enumeration name and number"
        → generic `xlate_name_number_name`, `xlate_number_name_number`,
          `enum_roundtrip`, `enum_number_preserved` under `NoDupNames`,
          `NoDupValues`; discharged for every table regenerated from the live
          classes by `gen_enums_ok` (`decide +kernel`); `UnsignedN` limits:
          `unsignedCtor_roundtrip` + `gen_unsigned_limits_ok`; named bit strings:
          `gen_bits_ok`, `bitsFromNames_sets`.  The `gen_*` obligations live in
          `BacVerif/Lemmas/C01Gen.lean` (same namespace).

  * Real as a Python float (a double): `Model.Ieee` transcribes the C casts behind
    `struct.pack/unpack('>f')` on bit patterns → `narrow_widen` (a float holding a
    single-precision value packs to exactly that value's pattern), `real_float_roundtrip`,
    `narrow_refuses_iff` / `real_float_refuses` (exactly the finite doubles that would
    become infinite are refused).

  Trusted / not in the theorems: that the FPU / `struct` implement IEEE‑754
  round-to-nearest-even as `Model.Ieee` says (tied by the `real64`/`widen`
  correspondence streams on every run), `'>d'` being the identity on the eight
  octets, and str ↔ UTF-8.
-/
import BacVerif.Model.Prim
import BacVerif.Model.Ieee
import BacVerif.Props.C02
import BacVerif.Lemmas.C01Distinct
namespace BacVerif.C01
open BacVerif

/-! ## big-endian octet strings -/

theorem foldl_be (l : Bytes) (acc : Nat) :
    l.foldl (fun acc b => acc * 256 + b.toNat) acc
      = acc * 256 ^ l.length + l.foldl (fun acc b => acc * 256 + b.toNat) 0 := by
  induction l generalizing acc with
  | nil => simp
  | cons b bs ih =>
    simp only [List.foldl_cons, List.length_cons]
    rw [ih (acc * 256 + b.toNat), ih (0 * 256 + b.toNat)]
    rw [Nat.pow_succ, Nat.add_mul]
    simp [Nat.mul_assoc, Nat.mul_comm, Nat.add_assoc]

theorem beVal_cons (b : UInt8) (bs : Bytes) :
    beVal (b :: bs) = b.toNat * 256 ^ bs.length + beVal bs := by
  simp only [beVal, List.foldl_cons]
  rw [foldl_be]; simp

theorem beVal_lt : ∀ bs : Bytes, beVal bs < 256 ^ bs.length
  | [] => by simp [beVal]
  | b :: bs => by
      have ih := beVal_lt bs
      have hb := b.toNat_lt
      rw [beVal_cons, List.length_cons, Nat.pow_succ]
      have : b.toNat * 256 ^ bs.length ≤ 255 * 256 ^ bs.length := Nat.mul_le_mul_right _ (by omega)
      omega

theorem beVal_be32 (n : Nat) (h : n < 4294967296) : beVal (be32 n) = n := by
  simp [beVal, be32]; omega

theorem be32_length (n : Nat) : (be32 n).length = 4 := rfl

theorem trimZeros_beVal : ∀ bs : Bytes, beVal (trimZeros bs) = beVal bs
  | [] => rfl
  | [_] => rfl
  | a :: b :: rest => by
      unfold trimZeros
      split
      · rename_i h
        rw [trimZeros_beVal (b :: rest), beVal_cons a, h]; simp
      · rfl

theorem trimZeros_length_pos : ∀ bs : Bytes, bs ≠ [] → 1 ≤ (trimZeros bs).length
  | [], h => absurd rfl h
  | [_], _ => by simp [trimZeros]
  | a :: b :: rest, _ => by
      unfold trimZeros
      split
      · exact trimZeros_length_pos (b :: rest) (by simp)
      · simp

theorem trimZeros_length_le : ∀ bs : Bytes, (trimZeros bs).length ≤ bs.length
  | [] => by simp [trimZeros]
  | [_] => by simp [trimZeros]
  | a :: b :: rest => by
      unfold trimZeros
      split
      · have := trimZeros_length_le (b :: rest); simp at this ⊢; omega
      · simp

/-- after trimming, a leading zero octet survives only in a one-octet string -/
theorem trimZeros_head : ∀ (bs : Bytes) (a b : UInt8) (rest : Bytes),
    trimZeros bs = a :: b :: rest → a.toNat ≠ 0
  | [], _, _, _, h => by simp [trimZeros] at h
  | [_], _, _, _, h => by simp [trimZeros] at h
  | x :: y :: r, a, b, rest, h => by
      unfold trimZeros at h
      split at h
      · exact trimZeros_head (y :: r) a b rest h
      · rename_i hx
        simp only [List.cons.injEq] at h
        obtain ⟨rfl, _⟩ := h
        exact hx

/-! ## two's-complement integers -/

/-- the value Integer.decode computes from a non-empty octet string -/
def sval : Bytes → Int
  | [] => 0
  | b0 :: rest =>
      rest.foldl (fun acc c => acc * 256 + (c.toNat : Int))
        (if b0.toNat ≥ 128 then (b0.toNat : Int) - 256 else (b0.toNat : Int))

theorem decodeIntegerData_eq (b : UInt8) (bs : Bytes) :
    decodeIntegerData (b :: bs) = .ok (sval (b :: bs)) := rfl

theorem trimPos_sval : ∀ bs : Bytes, sval (trimPos bs) = sval bs
  | [] => rfl
  | [_] => rfl
  | a :: b :: rest => by
      unfold trimPos
      split
      · rfl
      · split
        · rfl
        · rename_i h0 h1
          rw [trimPos_sval (b :: rest)]
          have hb := b.toNat_lt
          have h0' : a.toNat = 0 := by omega
          simp only [sval, List.foldl_cons, h0']
          have : ¬ b.toNat ≥ 128 := h1
          simp [this]

theorem trimNeg_sval : ∀ bs : Bytes, sval (trimNeg bs) = sval bs
  | [] => rfl
  | [_] => rfl
  | a :: b :: rest => by
      unfold trimNeg
      split
      · rfl
      · split
        · rfl
        · rename_i h0 h1
          rw [trimNeg_sval (b :: rest)]
          have h0' : a.toNat = 255 := by omega
          have h1' : b.toNat ≥ 128 := by omega
          simp only [sval, List.foldl_cons, h0']
          have e : ((255 : Nat) : Int) - 256 = -1 := by omega
          have e2 : (-1 : Int) * 256 + (b.toNat : Int) = (b.toNat : Int) - 256 := by omega
          simp only [h1', ge_iff_le, if_true, Nat.reduceLeDiff, e, e2]

theorem sval_be32 (i : Int) (h1 : -2147483648 ≤ i) (h2 : i < 2147483648) :
    sval (be32 (i % 4294967296).toNat) = i := by
  have hx : ((i % 4294967296).toNat : Int) = i % 4294967296 := by omega
  generalize (i % 4294967296).toNat = x at hx
  simp only [be32, sval, List.foldl_cons, List.foldl_nil, UInt8.toNat_ofNat', Nat.reducePow]
  split <;> omega

/-! ## bit strings -/

theorem unpack_pack (b0 b1 b2 b3 b4 b5 b6 b7 : Bool) :
    unpackOctet (packOctet b0 b1 b2 b3 b4 b5 b6 b7) = [b0, b1, b2, b3, b4, b5, b6, b7] := by
  cases b0 <;> cases b1 <;> cases b2 <;> cases b3 <;> cases b4 <;> cases b5 <;> cases b6 <;> cases b7 <;> decide

theorem packBits_unpack : ∀ (l : List Bool), l.length % 8 = 0 →
    ∃ body, packBits l = some body ∧ unpackBits body = l ∧ body.length * 8 = l.length
  | [], _ => ⟨[], rfl, rfl, rfl⟩
  | b0 :: b1 :: b2 :: b3 :: b4 :: b5 :: b6 :: b7 :: rest, h => by
      have hr : rest.length % 8 = 0 := by simp at h; omega
      obtain ⟨body, h1, h2, h3⟩ := packBits_unpack rest hr
      refine ⟨packOctet b0 b1 b2 b3 b4 b5 b6 b7 :: body, ?_, ?_, ?_⟩
      · simp [packBits, h1]
      · simp only [unpackBits, unpack_pack, h2]; rfl
      · simp; omega
  | [_], h => by simp at h
  | [_, _], h => by simp at h
  | [_, _, _], h => by simp at h
  | [_, _, _, _], h => by simp at h
  | [_, _, _, _, _], h => by simp at h
  | [_, _, _, _, _, _], h => by simp at h
  | [_, _, _, _, _, _, _], h => by simp at h

theorem unusedBits_lt (n : Nat) : unusedBits n < 8 ∧ (n + unusedBits n) % 8 = 0 := by
  unfold unusedBits; split <;> omega

theorem bits_roundtrip_data (bs : List Bool) :
    ∃ body, encodeBitsData bs = .ok (UInt8.ofNat (unusedBits bs.length) :: body) ∧
      unpackBits body = bs ++ List.replicate (unusedBits bs.length) false ∧
      body.length * 8 = bs.length + unusedBits bs.length ∧
      decodeBitsData (UInt8.ofNat (unusedBits bs.length) :: body) = .ok bs := by
  obtain ⟨hu, hm⟩ := unusedBits_lt bs.length
  have hlen : (bs ++ List.replicate (unusedBits bs.length) false).length % 8 = 0 := by
    simp; exact hm
  obtain ⟨body, h1, h2, h3⟩ := packBits_unpack _ hlen
  refine ⟨body, ?_, h2, ?_, ?_⟩
  · simp [encodeBitsData, h1]
  · simpa using h3
  · have hto : (UInt8.ofNat (unusedBits bs.length)).toNat = unusedBits bs.length := by
      simp; omega
    simp only [decodeBitsData, hto, h2]
    split
    · simp
    · rename_i h0
      have : unusedBits bs.length = 0 := by omega
      simp [this]

/-! ## more trimming facts -/

theorem trimPos_ne_nil : ∀ bs : Bytes, bs ≠ [] → trimPos bs ≠ []
  | [], h => absurd rfl h
  | [_], _ => by simp [trimPos]
  | a :: b :: rest, _ => by
      unfold trimPos
      split
      · simp
      · split
        · simp
        · exact trimPos_ne_nil (b :: rest) (by simp)

theorem trimNeg_ne_nil : ∀ bs : Bytes, bs ≠ [] → trimNeg bs ≠ []
  | [], h => absurd rfl h
  | [_], _ => by simp [trimNeg]
  | a :: b :: rest, _ => by
      unfold trimNeg
      split
      · simp
      · split
        · simp
        · exact trimNeg_ne_nil (b :: rest) (by simp)

theorem trimPos_length_le : ∀ bs : Bytes, (trimPos bs).length ≤ bs.length
  | [] => by simp [trimPos]
  | [_] => by simp [trimPos]
  | a :: b :: rest => by
      unfold trimPos
      split
      · simp
      · split
        · simp
        · have := trimPos_length_le (b :: rest); simp at this ⊢; omega

theorem trimNeg_length_le : ∀ bs : Bytes, (trimNeg bs).length ≤ bs.length
  | [] => by simp [trimNeg]
  | [_] => by simp [trimNeg]
  | a :: b :: rest => by
      unfold trimNeg
      split
      · simp
      · split
        · simp
        · have := trimNeg_length_le (b :: rest); simp at this ⊢; omega

/-- what survives `trimPos`: no redundant leading 0x00 -/
theorem trimPos_head : ∀ (bs : Bytes) (a b : UInt8) (rest : Bytes),
    trimPos bs = a :: b :: rest → ¬ (a.toNat = 0 ∧ b.toNat < 128)
  | [], _, _, _, h => by simp [trimPos] at h
  | [_], _, _, _, h => by simp [trimPos] at h
  | x :: y :: r, a, b, rest, h => by
      unfold trimPos at h
      split at h
      · rename_i hx
        simp only [List.cons.injEq] at h
        obtain ⟨rfl, rfl, _⟩ := h
        omega
      · split at h
        · rename_i hx hy
          simp only [List.cons.injEq] at h
          obtain ⟨rfl, rfl, _⟩ := h
          omega
        · exact trimPos_head (y :: r) a b rest h

/-- what survives `trimNeg`: no redundant leading 0xFF -/
theorem trimNeg_head : ∀ (bs : Bytes) (a b : UInt8) (rest : Bytes),
    trimNeg bs = a :: b :: rest → ¬ (a.toNat = 255 ∧ b.toNat ≥ 128)
  | [], _, _, _, h => by simp [trimNeg] at h
  | [_], _, _, _, h => by simp [trimNeg] at h
  | x :: y :: r, a, b, rest, h => by
      unfold trimNeg at h
      split at h
      · rename_i hx
        simp only [List.cons.injEq] at h
        obtain ⟨rfl, rfl, _⟩ := h
        omega
      · split at h
        · rename_i hx hy
          simp only [List.cons.injEq] at h
          obtain ⟨rfl, rfl, _⟩ := h
          omega
        · exact trimNeg_head (y :: r) a b rest h

/-- the sign octet stays a sign octet: `trimPos` keeps the head below 128 -/
theorem trimPos_sign : ∀ (bs : Bytes) (x : UInt8) (r : Bytes), bs = x :: r → x.toNat < 128 →
    ∃ a rest, trimPos bs = a :: rest ∧ a.toNat < 128
  | [], _, _, h, _ => by simp at h
  | [y], x, r, h, hx => by
      simp only [List.cons.injEq] at h; obtain ⟨rfl, _⟩ := h
      exact ⟨y, [], rfl, hx⟩
  | y :: z :: r', x, r, h, hx => by
      simp only [List.cons.injEq] at h; obtain ⟨rfl, _⟩ := h
      unfold trimPos
      split
      · exact ⟨y, z :: r', rfl, hx⟩
      · split
        · exact ⟨y, z :: r', rfl, hx⟩
        · rename_i h0 h1
          exact trimPos_sign (z :: r') z r' rfl (by omega)

theorem trimNeg_sign : ∀ (bs : Bytes) (x : UInt8) (r : Bytes), bs = x :: r → x.toNat ≥ 128 →
    ∃ a rest, trimNeg bs = a :: rest ∧ a.toNat ≥ 128
  | [], _, _, h, _ => by simp at h
  | [y], x, r, h, hx => by
      simp only [List.cons.injEq] at h; obtain ⟨rfl, _⟩ := h
      exact ⟨y, [], rfl, hx⟩
  | y :: z :: r', x, r, h, hx => by
      simp only [List.cons.injEq] at h; obtain ⟨rfl, _⟩ := h
      unfold trimNeg
      split
      · exact ⟨y, z :: r', rfl, hx⟩
      · split
        · exact ⟨y, z :: r', rfl, hx⟩
        · rename_i h0 h1
          exact trimNeg_sign (z :: r') z r' rfl (by omega)

theorem decodeIntegerData_sval (bs : Bytes) (h : bs ≠ []) : decodeIntegerData bs = .ok (sval bs) := by
  cases bs with
  | nil => exact absurd rfl h
  | cons b bs => rfl

/-! ## validity: the values each class can represent -/

/-- the representable values.  Unsigned/Enumerated: `struct.pack('>L')`;
    Integer: `struct.pack('>i')`; CharacterString: the encoding octet; Date/Time:
    `bytearray(tuple)`; ObjectIdentifier: 10-bit type, 22-bit instance.  Every
    bit pattern is a Real/Double; every octet string, bit list, Boolean, Null. -/
def Valid : PrimVal → Prop
  | .unsigned n => n < 4294967296
  | .integer i => -2147483648 ≤ i ∧ i < 2147483648
  | .charstr enc _ => enc ≤ 255
  | .enum n => n < 4294967296
  | .date y m d w => (0 ≤ y ∧ y ≤ 255) ∧ (0 ≤ m ∧ m ≤ 255) ∧ (0 ≤ d ∧ d ≤ 255) ∧ (0 ≤ w ∧ w ≤ 255)
  | .time h m s c => (0 ≤ h ∧ h ≤ 255) ∧ (0 ≤ m ∧ m ≤ 255) ∧ (0 ≤ s ∧ s ≤ 255) ∧ (0 ≤ c ∧ c ≤ 255)
  | .oid ty inst => (0 ≤ ty ∧ ty ≤ 1023) ∧ (0 ≤ inst ∧ inst ≤ 4194303)
  | _ => True

instance (v : PrimVal) : Decidable (Valid v) := by
  cases v <;> unfold Valid <;> exact inferInstance

/-! ## per-type round trips -/

theorem encodeUnsignedData_ok (n : Nat) (h : n < 4294967296) :
    encodeUnsignedData n = .ok (trimZeros (be32 n)) := by
  have : ¬ n ≥ 4294967296 := by omega
  simp [encodeUnsignedData, this]

theorem encodeIntegerData_ok (i : Int) (h1 : -2147483648 ≤ i) (h2 : i < 2147483648) :
    encodeIntegerData i = .ok (if i < 0 then trimNeg (be32 (i % 4294967296).toNat)
                                else trimPos (be32 (i % 4294967296).toNat)) := by
  have : ¬ (i < -2147483648 ∨ i ≥ 2147483648) := by omega
  simp [encodeIntegerData, this]

theorem integer_data_roundtrip (i : Int) (h1 : -2147483648 ≤ i) (h2 : i < 2147483648) :
    ∃ d, encodeIntegerData i = .ok d ∧ d ≠ [] ∧ d.length ≤ 4 ∧ decodeIntegerData d = .ok i := by
  rw [encodeIntegerData_ok i h1 h2]
  have hne : be32 (i % 4294967296).toNat ≠ [] := by simp [be32]
  split
  · refine ⟨_, rfl, trimNeg_ne_nil _ hne, ?_, ?_⟩
    · exact Nat.le_trans (trimNeg_length_le _) (by simp [be32])
    · rw [decodeIntegerData_sval _ (trimNeg_ne_nil _ hne), trimNeg_sval, sval_be32 i h1 h2]
  · refine ⟨_, rfl, trimPos_ne_nil _ hne, ?_, ?_⟩
    · exact Nat.le_trans (trimPos_length_le _) (by simp [be32])
    · rw [decodeIntegerData_sval _ (trimPos_ne_nil _ hne), trimPos_sval, sval_be32 i h1 h2]

theorem beVal_be64 (n : Nat) (h : n < 18446744073709551616) : beVal (be64 n) = n := by
  simp [beVal, be64, be32]; omega

theorem quad_roundtrip (a b c d : Int) (ha : 0 ≤ a ∧ a ≤ 255) (hb : 0 ≤ b ∧ b ≤ 255)
    (hc : 0 ≤ c ∧ c ≤ 255) (hd : 0 ≤ d ∧ d ≤ 255) :
    ∃ bs, encodeQuad a b c d = .ok bs ∧ bs.length = 4 ∧ decodeQuad bs = .ok (a, b, c, d) := by
  have : ¬ (a < 0 ∨ a > 255 ∨ b < 0 ∨ b > 255 ∨ c < 0 ∨ c > 255 ∨ d < 0 ∨ d > 255) := by omega
  refine ⟨_, by simp only [encodeQuad, this, if_false]; rfl, rfl, ?_⟩
  simp only [decodeQuad, UInt8.toNat_ofNat', Nat.reducePow, Except.ok.injEq, Prod.mk.injEq]
  omega

theorem oid_roundtrip (ty inst : Int) (ht : 0 ≤ ty ∧ ty ≤ 1023) (hi : 0 ≤ inst ∧ inst ≤ 4194303) :
    ∃ w, oidWord ty inst = .ok w ∧ w < 4294967296 ∧ (w : Int) = ty * 4194304 + inst ∧
      oidOfWord w = (ty, inst) := by
  have h1 : ¬ (inst < 0 ∨ inst > 4194303) := by omega
  have h2 : ¬ (ty * 4194304 + inst < 0 ∨ ty * 4194304 + inst ≥ 4294967296) := by omega
  refine ⟨(ty * 4194304 + inst).toNat, by simp [oidWord, h1, h2], by omega, by omega, ?_⟩
  simp only [oidOfWord, Prod.mk.injEq, Int.ofNat_eq_natCast]
  omega

/-! ## prim_roundtrip -/

/-- **prim_roundtrip** — for every representable value of every primitive
    type: the encoder succeeds and the decoder of that type returns the value. -/
theorem prim_roundtrip (v : PrimVal) (h : Valid v) :
    ∃ t, encodePrim v = .ok t ∧ decodePrim (tyOf v) t = .ok v := by
  cases v with
  | null => exact ⟨_, rfl, by simp [decodePrim, tyOf, checkApp, appData, PrimTy.appTag]⟩
  | bool b =>
    refine ⟨_, rfl, ?_⟩
    cases b <;> simp [decodePrim, tyOf, checkApp, PrimTy.appTag, bitNat]
  | unsigned n =>
    have h : n < 4294967296 := h
    refine ⟨appData 2 (trimZeros (be32 n)), by simp [encodePrim, encodeUnsignedData_ok n h, Except.map], ?_⟩
    have hl := trimZeros_length_pos (be32 n) (by simp [be32])
    have hne : (trimZeros (be32 n)).length ≠ 0 := by omega
    simp [decodePrim, tyOf, checkApp, appData, PrimTy.appTag, hne, trimZeros_beVal, beVal_be32 n h]
  | integer i =>
    obtain ⟨h1, h2⟩ : -2147483648 ≤ i ∧ i < 2147483648 := h
    obtain ⟨d, hd, _, _, hdec⟩ := integer_data_roundtrip i h1 h2
    refine ⟨appData 3 d, by simp [encodePrim, hd, Except.map], ?_⟩
    simp [decodePrim, tyOf, checkApp, appData, PrimTy.appTag, hdec, Except.map]
  | real bits =>
    refine ⟨_, rfl, ?_⟩
    have := bits.toNat_lt
    simp [decodePrim, tyOf, checkApp, appData, PrimTy.appTag, be32_length,
      beVal_be32 bits.toNat (by simpa using this)]
  | double bits =>
    refine ⟨_, rfl, ?_⟩
    have := bits.toNat_lt
    have hl : (be64 bits.toNat).length = 8 := rfl
    simp [decodePrim, tyOf, checkApp, appData, PrimTy.appTag, hl,
      beVal_be64 bits.toNat (by simpa using this)]
  | octets bs => exact ⟨_, rfl, by simp [decodePrim, tyOf, checkApp, appData, PrimTy.appTag]⟩
  | charstr enc bs =>
    have h : enc ≤ 255 := h
    have h' : ¬ enc > 255 := by omega
    refine ⟨appData 7 (UInt8.ofNat enc :: bs), by simp [encodePrim, h'], ?_⟩
    simp [decodePrim, tyOf, checkApp, appData, PrimTy.appTag]; omega
  | bits bs =>
    obtain ⟨body, h1, _, _, h4⟩ := bits_roundtrip_data bs
    refine ⟨appData 8 (UInt8.ofNat (unusedBits bs.length) :: body), by simp [encodePrim, h1, Except.map], ?_⟩
    simp [decodePrim, tyOf, checkApp, appData, PrimTy.appTag, h4, Except.map]
  | enum n =>
    have h : n < 4294967296 := h
    refine ⟨appData 9 (trimZeros (be32 n)), by simp [encodePrim, encodeUnsignedData_ok n h, Except.map], ?_⟩
    have hl := trimZeros_length_pos (be32 n) (by simp [be32])
    have hne : (trimZeros (be32 n)).length ≠ 0 := by omega
    simp [decodePrim, tyOf, checkApp, appData, PrimTy.appTag, hne, trimZeros_beVal, beVal_be32 n h]
  | date y m d w =>
    obtain ⟨hy, hm, hd, hw⟩ := h
    obtain ⟨bs, h1, _, h3⟩ := quad_roundtrip y m d w hy hm hd hw
    refine ⟨appData 10 bs, by simp [encodePrim, h1, Except.map], ?_⟩
    simp [decodePrim, tyOf, checkApp, appData, PrimTy.appTag, h3, Except.map]
  | time hh m s c =>
    obtain ⟨hy, hm, hd, hw⟩ := h
    obtain ⟨bs, h1, _, h3⟩ := quad_roundtrip hh m s c hy hm hd hw
    refine ⟨appData 11 bs, by simp [encodePrim, h1, Except.map], ?_⟩
    simp [decodePrim, tyOf, checkApp, appData, PrimTy.appTag, h3, Except.map]
  | oid ty inst =>
    obtain ⟨ht, hi⟩ := h
    obtain ⟨w, h1, h2, _, h4⟩ := oid_roundtrip ty inst ht hi
    refine ⟨appData 12 (be32 w), by simp [encodePrim, h1, Except.map], ?_⟩
    simp [decodePrim, tyOf, checkApp, appData, PrimTy.appTag, be32_length, beVal_be32 w h2, h4]

/-! ## refusal: nothing is ever silently altered -/

/-- **prim_refuses** — a value that cannot be represented is refused: the
    encoder returns an error and emits no tag at all. -/
theorem prim_refuses (v : PrimVal) (h : ¬ Valid v) : ∃ e, encodePrim v = .error e := by
  cases v with
  | null => exact absurd trivial h
  | bool b => exact absurd trivial h
  | real b => exact absurd trivial h
  | double b => exact absurd trivial h
  | octets b => exact absurd trivial h
  | bits b => exact absurd trivial h
  | unsigned n =>
    have h : ¬ n < 4294967296 := h
    have : n ≥ 4294967296 := by omega
    exact ⟨.valueRange, by simp [encodePrim, encodeUnsignedData, this, Except.map]⟩
  | enum n =>
    have h : ¬ n < 4294967296 := h
    have : n ≥ 4294967296 := by omega
    exact ⟨.valueRange, by simp [encodePrim, encodeUnsignedData, this, Except.map]⟩
  | integer i =>
    have h : ¬ (-2147483648 ≤ i ∧ i < 2147483648) := h
    have : i < -2147483648 ∨ i ≥ 2147483648 := by omega
    exact ⟨.valueRange, by simp [encodePrim, encodeIntegerData, this, Except.map]⟩
  | charstr enc bs =>
    have h : ¬ enc ≤ 255 := h
    have : enc > 255 := by omega
    exact ⟨.valueRange, by simp [encodePrim, this]⟩
  | date y m d w =>
    have h : ¬ ((0 ≤ y ∧ y ≤ 255) ∧ (0 ≤ m ∧ m ≤ 255) ∧ (0 ≤ d ∧ d ≤ 255) ∧ (0 ≤ w ∧ w ≤ 255)) := h
    have : y < 0 ∨ y > 255 ∨ m < 0 ∨ m > 255 ∨ d < 0 ∨ d > 255 ∨ w < 0 ∨ w > 255 := by omega
    exact ⟨.valueRange, by simp only [encodePrim, encodeQuad, this, if_true, Except.map]⟩
  | time y m d w =>
    have h : ¬ ((0 ≤ y ∧ y ≤ 255) ∧ (0 ≤ m ∧ m ≤ 255) ∧ (0 ≤ d ∧ d ≤ 255) ∧ (0 ≤ w ∧ w ≤ 255)) := h
    have : y < 0 ∨ y > 255 ∨ m < 0 ∨ m > 255 ∨ d < 0 ∨ d > 255 ∨ w < 0 ∨ w > 255 := by omega
    exact ⟨.valueRange, by simp only [encodePrim, encodeQuad, this, if_true, Except.map]⟩
  | oid ty inst =>
    have h : ¬ ((0 ≤ ty ∧ ty ≤ 1023) ∧ (0 ≤ inst ∧ inst ≤ 4194303)) := h
    refine ⟨.valueRange, ?_⟩
    simp only [encodePrim, oidWord]
    by_cases h1 : inst < 0 ∨ inst > 4194303
    · simp [h1, Except.map]
    · have h2 : ty * 4194304 + inst < 0 ∨ ty * 4194304 + inst ≥ 4294967296 := by omega
      simp [h1, h2, Except.map]

/-- **prim_never_alters** — whatever the encoder emits decodes to the value it
    was given (no hypothesis on the value: an unrepresentable one yields no tag). -/
theorem prim_never_alters (v : PrimVal) (t : Tag) (h : encodePrim v = .ok t) :
    decodePrim (tyOf v) t = .ok v := by
  by_cases hv : Valid v
  · obtain ⟨t', h1, h2⟩ := prim_roundtrip v hv
    rw [h] at h1
    cases h1
    exact h2
  · obtain ⟨e, he⟩ := prim_refuses v hv
    rw [h] at he
    cases he

/-- the encoder succeeds exactly on the representable values -/
theorem encodePrim_ok_iff (v : PrimVal) : (∃ t, encodePrim v = .ok t) ↔ Valid v := by
  constructor
  · intro ⟨t, ht⟩
    apply Classical.byContradiction
    intro hv
    obtain ⟨e, he⟩ := prim_refuses v hv
    rw [ht] at he; cases he
  · intro hv
    obtain ⟨t, h1, _⟩ := prim_roundtrip v hv
    exact ⟨t, h1⟩

/-! ## shape of the emitted tag; application ↔ context -/

theorem map_ok {α β} {f : α → β} {x : Except Err α} {t : β} (h : Except.map f x = .ok t) :
    ∃ d, x = .ok d ∧ t = f d := by
  cases x with
  | error e => simp [Except.map] at h
  | ok d => simp only [Except.map, Except.ok.injEq] at h; exact ⟨d, rfl, h.symm⟩

/-- every emitted tag is an application tag with the class's tag number; the
    Boolean carries its value (0/1) in the LVT and has no data; everything else
    has LVT = number of data octets -/
theorem encodePrim_shape (v : PrimVal) (t : Tag) (h : encodePrim v = .ok t) :
    t.cls = .app ∧ t.num = (tyOf v).appTag ∧
    (if t.num = 1 then t.data = [] ∧ t.lvt ≤ 1 else t.lvt = t.data.length) := by
  cases v with
  | null => simp only [encodePrim, Except.ok.injEq] at h; subst h; simp [appData, tyOf, PrimTy.appTag]
  | bool b =>
    simp only [encodePrim, Except.ok.injEq] at h; subst h
    cases b <;> simp [tyOf, PrimTy.appTag, bitNat]
  | unsigned n => obtain ⟨d, _, rfl⟩ := map_ok h; simp [appData, tyOf, PrimTy.appTag]
  | integer i => obtain ⟨d, _, rfl⟩ := map_ok h; simp [appData, tyOf, PrimTy.appTag]
  | real b => simp only [encodePrim, Except.ok.injEq] at h; subst h; simp [appData, tyOf, PrimTy.appTag]
  | double b => simp only [encodePrim, Except.ok.injEq] at h; subst h; simp [appData, tyOf, PrimTy.appTag]
  | octets b => simp only [encodePrim, Except.ok.injEq] at h; subst h; simp [appData, tyOf, PrimTy.appTag]
  | charstr enc bs =>
    simp only [encodePrim] at h
    split at h
    · cases h
    · simp only [Except.ok.injEq] at h; subst h; simp [appData, tyOf, PrimTy.appTag]
  | bits b => obtain ⟨d, _, rfl⟩ := map_ok h; simp [appData, tyOf, PrimTy.appTag]
  | enum n => obtain ⟨d, _, rfl⟩ := map_ok h; simp [appData, tyOf, PrimTy.appTag]
  | date y m d w => obtain ⟨d, _, rfl⟩ := map_ok h; simp [appData, tyOf, PrimTy.appTag]
  | time y m d w => obtain ⟨d, _, rfl⟩ := map_ok h; simp [appData, tyOf, PrimTy.appTag]
  | oid ty inst => obtain ⟨d, _, rfl⟩ := map_ok h; simp [appData, tyOf, PrimTy.appTag]

/-- **ctx_app_inverse** — `context_to_app(app_to_context(t))` gives back the
    application tag, for every tag an encoder emits and every context number;
    the intermediate context tag is well-formed in the sense of C02.  This
    covers the Boolean special case (value moves from the LVT into one data
    octet and back). -/
theorem ctx_app_inverse (t : Tag) (c : Nat) (hc : c ≤ 255)
    (hcls : t.cls = .app) (hnum : t.num ≤ 255)
    (hshape : if t.num = 1 then t.data = [] ∧ t.lvt ≤ 1 else t.lvt = t.data.length)
    (hlen : t.data.length < 4294967296) :
    ∃ t', appToContext c t = .ok t' ∧ C02.WF t' ∧ t'.cls = .ctx ∧ t'.num = c ∧
      contextToApp t.num t' = .ok t := by
  rcases t with ⟨cls, num, lvt, data⟩
  simp only at hcls hnum hshape hlen
  subst hcls
  by_cases h1 : num = 1
  · subst h1
    simp only [if_true] at hshape
    obtain ⟨rfl, hl⟩ := hshape
    have hl' : ¬ lvt > 255 := by omega
    refine ⟨{ cls := .ctx, num := c, lvt := 1, data := [UInt8.ofNat lvt] }, ?_, ?_, rfl, rfl, ?_⟩
    · simp [appToContext, hl']
    · simp [C02.WF]; omega
    · have : lvt % 256 = lvt := by omega
      simp [contextToApp, this]
  · simp only [h1, if_false] at hshape
    subst hshape
    refine ⟨{ cls := .ctx, num := c, lvt := data.length, data := data }, ?_, ?_, rfl, rfl, ?_⟩
    · simp [appToContext, h1]
    · simp [C02.WF]; omega
    · simp [contextToApp, h1]

/-! ## on the wire -/

/-- the emitted data fits the 32-bit length field of a tag header (what
    `Tag.encode` can express; C02's assumption).  Only OctetString,
    CharacterString and BitString values of ≥ 4 GiB fail it. -/
def Fits (v : PrimVal) : Prop :=
  match encodePrim v with
  | .ok t => t.data.length < 4294967296
  | .error _ => True

instance (v : PrimVal) : Decidable (Fits v) := by
  unfold Fits; split <;> exact inferInstance

/-- the tagging modes the property quantifies over -/
def ModeOK : Mode → Prop
  | .app => True
  | .ctx c => c ≤ 255

instance (m : Mode) : Decidable (ModeOK m) := by
  cases m <;> unfold ModeOK <;> exact inferInstance

/-- **prim_wire_roundtrip** — both tagging modes, every context number (the
    property asks 0..254; proved up to 255), any octets following: the encoder
    output is parsed back as exactly one tag, leaving the rest untouched, and
    decodes to the same value. -/
theorem prim_wire_roundtrip (v : PrimVal) (hv : Valid v) (hf : Fits v) (m : Mode) (hm : ModeOK m)
    (rest : Bytes) :
    ∃ bs, wireEncode m v = .ok bs ∧ wireDecode (tyOf v) m (bs ++ rest) = .ok (v, rest) := by
  obtain ⟨t, henc, hdec⟩ := prim_roundtrip v hv
  obtain ⟨hcls, hnum, hshape⟩ := encodePrim_shape v t henc
  have hlen : t.data.length < 4294967296 := by simpa [Fits, henc] using hf
  have hnum12 : t.num ≤ 12 := by rw [hnum]; cases (tyOf v) <;> simp [PrimTy.appTag]
  cases m with
  | app =>
    have hwf : C02.WF t := by
      refine ⟨by omega, ?_, ?_⟩
      · by_cases h1 : t.num = 1
        · simp only [h1, if_true] at hshape; omega
        · simp only [h1, if_false] at hshape; omega
      · simp only [hcls]
        by_cases h1 : t.num = 1
        · simp only [h1, if_true] at hshape ⊢; exact hshape.1
        · simp only [h1, if_false] at hshape ⊢; exact hshape
    refine ⟨serializeTag t, by simp [wireEncode, henc], ?_⟩
    simp [wireDecode, C02.tag_roundtrip t hwf rest, hdec, Except.map]
  | ctx c =>
    have hc : c ≤ 255 := hm
    obtain ⟨t', h1, hwf, hcls', hnum', h2⟩ :=
      ctx_app_inverse t c hc hcls (by omega) hshape hlen
    refine ⟨serializeTag t', by simp [wireEncode, henc, h1], ?_⟩
    rw [hnum] at h2
    simp [wireDecode, C02.tag_roundtrip t' hwf rest, hcls', hnum', h2, hdec, Except.map]

/-! ## canonical form -/

theorem pow256_pos (k : Nat) : 0 < 256 ^ k := Nat.pow_pos (by omega)

/-- **unsigned_minimal** — Unsigned (and Enumerated) use the shortest
    big-endian form: between 1 and 4 octets, value `n`, no leading zero octet
    unless the string is a single octet; equivalently the length is the least
    `k ≥ 1` with `n < 256^k`. -/
theorem unsigned_minimal (n : Nat) (h : n < 4294967296) :
    ∃ d, encodeUnsignedData n = .ok d ∧ 1 ≤ d.length ∧ d.length ≤ 4 ∧ beVal d = n ∧
      n < 256 ^ d.length ∧ (1 < d.length → 256 ^ (d.length - 1) ≤ n) ∧
      (∀ a b rest, d = a :: b :: rest → a.toNat ≠ 0) := by
  refine ⟨trimZeros (be32 n), encodeUnsignedData_ok n h, trimZeros_length_pos _ (by simp [be32]),
    Nat.le_trans (trimZeros_length_le _) (by simp [be32]), ?_, ?_, ?_, ?_⟩
  · rw [trimZeros_beVal, beVal_be32 n h]
  · have := beVal_lt (trimZeros (be32 n))
    rwa [trimZeros_beVal, beVal_be32 n h] at this
  · intro hl
    have hv : beVal (trimZeros (be32 n)) = n := by rw [trimZeros_beVal, beVal_be32 n h]
    match hd : trimZeros (be32 n), hl, hv with
    | a :: b :: rest, _, hv =>
      have ha := trimZeros_head _ a b rest hd
      rw [beVal_cons] at hv
      have hp := pow256_pos (b :: rest).length
      have : 1 * 256 ^ (b :: rest).length ≤ a.toNat * 256 ^ (b :: rest).length :=
        Nat.mul_le_mul_right _ (by omega)
      simp only [List.length_cons, Nat.add_sub_cancel] at *
      omega
  · intro a b rest hd
    exact trimZeros_head _ a b rest hd

/-- **unsigned_shortest** — no octet string that decodes to `n` is shorter
    than the one the encoder emits. -/
theorem unsigned_shortest (n : Nat) (h : n < 4294967296) (d : Bytes)
    (hd : encodeUnsignedData n = .ok d) (d' : Bytes) (hne : d' ≠ []) (hv : beVal d' = n) :
    d.length ≤ d'.length := by
  obtain ⟨d0, h0, h1, _, _, _, h5, _⟩ := unsigned_minimal n h
  rw [hd] at h0; cases h0
  apply Classical.byContradiction
  intro hlt
  have hlt : d'.length < d.length := by omega
  have hpos : 1 ≤ d'.length := by
    cases d' with
    | nil => exact absurd rfl hne
    | cons _ _ => simp
  have h5' := h5 (by omega)
  have hb := beVal_lt d'
  rw [hv] at hb
  have : 256 ^ d'.length ≤ 256 ^ (d.length - 1) := Nat.pow_le_pow_right (by omega) (by omega)
  omega

theorem be32_head_neg (i : Int) (h1 : -2147483648 ≤ i) (h2 : i < 0) :
    ∃ x r, be32 (i % 4294967296).toNat = x :: r ∧ x.toNat ≥ 128 := by
  refine ⟨_, _, rfl, ?_⟩
  simp only [UInt8.toNat_ofNat', Nat.reducePow]
  omega

theorem be32_head_pos (i : Int) (h1 : 0 ≤ i) (h2 : i < 2147483648) :
    ∃ x r, be32 (i % 4294967296).toNat = x :: r ∧ x.toNat < 128 := by
  refine ⟨_, _, rfl, ?_⟩
  simp only [UInt8.toNat_ofNat', Nat.reducePow]
  omega

/-- **integer_minimal** — Integer uses the shortest two's-complement form:
    1..4 octets, decoding to `i`, and unless the string is a single octet its
    first nine bits are not all equal (neither `00` followed by a clear top
    bit nor `FF` followed by a set top bit). -/
theorem integer_minimal (i : Int) (h1 : -2147483648 ≤ i) (h2 : i < 2147483648) :
    ∃ d, encodeIntegerData i = .ok d ∧ 1 ≤ d.length ∧ d.length ≤ 4 ∧
      decodeIntegerData d = .ok i ∧
      (∀ a b rest, d = a :: b :: rest →
        ¬ (a.toNat = 0 ∧ b.toNat < 128) ∧ ¬ (a.toNat = 255 ∧ b.toNat ≥ 128)) := by
  obtain ⟨d, hd, hne, hlen, hdec⟩ := integer_data_roundtrip i h1 h2
  refine ⟨d, hd, ?_, hlen, hdec, ?_⟩
  · cases d with
    | nil => exact absurd rfl hne
    | cons _ _ => simp
  · intro a b rest hab
    rw [encodeIntegerData_ok i h1 h2] at hd
    simp only [Except.ok.injEq] at hd
    by_cases hneg : i < 0
    · simp only [hneg, if_true] at hd
      obtain ⟨x, r, hx, hx128⟩ := be32_head_neg i h1 hneg
      obtain ⟨a', rest', ha', ha128⟩ := trimNeg_sign _ x r hx hx128
      rw [hd, hab] at ha'
      simp only [List.cons.injEq] at ha'
      obtain ⟨rfl, _⟩ := ha'
      refine ⟨by omega, ?_⟩
      exact trimNeg_head _ a b rest (hd.trans hab)
    · simp only [hneg, if_false] at hd
      obtain ⟨x, r, hx, hx128⟩ := be32_head_pos i (by omega) h2
      obtain ⟨a', rest', ha', ha128⟩ := trimPos_sign _ x r hx hx128
      rw [hd, hab] at ha'
      simp only [List.cons.injEq] at ha'
      obtain ⟨rfl, _⟩ := ha'
      refine ⟨?_, by omega⟩
      exact trimPos_head _ a b rest (hd.trans hab)

/-- **integer_shortest** — no octet string that decodes to `i` is shorter than
    the one the encoder emits. -/
theorem integer_shortest (i : Int) (h1 : -2147483648 ≤ i) (h2 : i < 2147483648) (d : Bytes)
    (hd : encodeIntegerData i = .ok d) (d' : Bytes) (hd' : decodeIntegerData d' = .ok i) :
    d.length ≤ d'.length := by
  obtain ⟨d0, h0, hpos, hlen, hdec, hcan⟩ := integer_minimal i h1 h2
  rw [hd] at h0; cases h0
  match d', hd' with
  | [], hd' => simp [decodeIntegerData] at hd'
  | _ :: _ :: _ :: _ :: _, _ => simp only [List.length_cons]; omega
  | [a], hd' =>
    match d, hpos, hlen, hdec, hcan with
    | [x], _, _, _, _ => simp
    | x :: y :: rest, _, hlen, hdec, hcan =>
      exfalso
      have hc := hcan x y rest rfl
      have := a.toNat_lt; have := x.toNat_lt; have := y.toNat_lt
      match rest, hlen, hdec with
      | [], _, hdec =>
        simp only [decodeIntegerData, List.foldl_cons, List.foldl_nil, Except.ok.injEq] at hdec hd'
        split at hdec <;> split at hd' <;> omega
      | [z], _, hdec =>
        have := z.toNat_lt
        simp only [decodeIntegerData, List.foldl_cons, List.foldl_nil, Except.ok.injEq] at hdec hd'
        split at hdec <;> split at hd' <;> omega
      | [z, w], _, hdec =>
        have := z.toNat_lt; have := w.toNat_lt
        simp only [decodeIntegerData, List.foldl_cons, List.foldl_nil, Except.ok.injEq] at hdec hd'
        split at hdec <;> split at hd' <;> omega
      | _ :: _ :: _ :: _, hlen, _ => simp only [List.length_cons] at hlen; omega
  | [a, b], hd' =>
    match d, hpos, hlen, hdec, hcan with
    | [x], _, _, _, _ => simp
    | [x, y], _, _, _, _ => simp
    | x :: y :: z :: rest, _, hlen, hdec, hcan =>
      exfalso
      have hc := hcan x y (z :: rest) rfl
      have := a.toNat_lt; have := b.toNat_lt
      have := x.toNat_lt; have := y.toNat_lt; have := z.toNat_lt
      match rest, hlen, hdec with
      | [], _, hdec =>
        simp only [decodeIntegerData, List.foldl_cons, List.foldl_nil, Except.ok.injEq] at hdec hd'
        split at hdec <;> split at hd' <;> omega
      | [w], _, hdec =>
        have := w.toNat_lt
        simp only [decodeIntegerData, List.foldl_cons, List.foldl_nil, Except.ok.injEq] at hdec hd'
        split at hdec <;> split at hd' <;> omega
      | _ :: _ :: _, hlen, _ => simp only [List.length_cons] at hlen; omega
  | [a, b, c], hd' =>
    match d, hpos, hlen, hdec, hcan with
    | [x], _, _, _, _ => simp
    | [x, y], _, _, _, _ => simp
    | [x, y, z], _, _, _, _ => simp
    | x :: y :: z :: w :: rest, _, hlen, hdec, hcan =>
      exfalso
      have hc := hcan x y (z :: w :: rest) rfl
      have := a.toNat_lt; have := b.toNat_lt; have := c.toNat_lt
      have := x.toNat_lt; have := y.toNat_lt; have := z.toNat_lt; have := w.toNat_lt
      match rest, hlen, hdec with
      | [], _, hdec =>
        simp only [decodeIntegerData, List.foldl_cons, List.foldl_nil, Except.ok.injEq] at hdec hd'
        split at hdec <;> split at hd' <;> omega
      | _ :: _, hlen, _ => simp only [List.length_cons] at hlen; omega

/-- **bits_header** — for a bit string of ANY length: the first octet is the
    number of unused bits `(8 − len mod 8) mod 8`, followed by `⌈len/8⌉` octets
    that unpack to the bits followed by that many zero pad bits. -/
theorem bits_header (bs : List Bool) :
    ∃ body, encodeBitsData bs = .ok (UInt8.ofNat ((8 - bs.length % 8) % 8) :: body) ∧
      body.length = (bs.length + 7) / 8 ∧
      unpackBits body = bs ++ List.replicate ((8 - bs.length % 8) % 8) false := by
  have hu : unusedBits bs.length = (8 - bs.length % 8) % 8 := by
    unfold unusedBits; split <;> omega
  obtain ⟨body, h1, h2, h3, _⟩ := bits_roundtrip_data bs
  rw [hu] at h1 h2 h3
  exact ⟨body, h1, by omega, h2⟩

/-- **real_len4** — a Real is application tag 4 with exactly the four octets
    of its IEEE‑754 single bit pattern, big-endian. -/
theorem real_len4 (b : UInt32) :
    ∃ t, encodePrim (.real b) = .ok t ∧ t.cls = .app ∧ t.num = 4 ∧ t.lvt = 4 ∧
      t.data.length = 4 ∧ beVal t.data = b.toNat := by
  have := b.toNat_lt
  exact ⟨_, rfl, rfl, rfl, rfl, rfl, beVal_be32 _ (by simpa using this)⟩

/-- **double_len8** — a Double is application tag 5 with exactly the eight
    octets of its IEEE‑754 double bit pattern, big-endian. -/
theorem double_len8 (b : UInt64) :
    ∃ t, encodePrim (.double b) = .ok t ∧ t.cls = .app ∧ t.num = 5 ∧ t.lvt = 8 ∧
      t.data.length = 8 ∧ beVal t.data = b.toNat := by
  have := b.toNat_lt
  exact ⟨_, rfl, rfl, rfl, rfl, rfl, beVal_be64 _ (by simpa using this)⟩

/-- **oid_layout** — 10-bit type, 22-bit instance: the four data octets are the
    big-endian word `type·2^22 + instance`. -/
theorem oid_layout (ty inst : Int) (h : Valid (.oid ty inst)) :
    ∃ w : Nat, (w : Int) = ty * 4194304 + inst ∧ w < 4294967296 ∧
      encodePrim (.oid ty inst) = .ok (appData 12 (be32 w)) := by
  obtain ⟨ht, hi⟩ := h
  obtain ⟨w, h1, h2, h3, _⟩ := oid_roundtrip ty inst ht hi
  exact ⟨w, h3, h2, by simp [encodePrim, h1, Except.map]⟩

/-- **oid_word_bijection** — on ALL 2^32 words (by arithmetic, not sampling):
    splitting a word gives a representable identifier whose word is the one we
    started from; and (`oid_roundtrip`) packing a representable identifier and
    splitting the word gives the identifier back. -/
theorem oid_word_bijection :
    (∀ w : Nat, w < 4294967296 →
        Valid (.oid (oidOfWord w).1 (oidOfWord w).2) ∧
        oidWord (oidOfWord w).1 (oidOfWord w).2 = .ok w) ∧
    (∀ ty inst : Int, Valid (.oid ty inst) →
        ∃ w, w < 4294967296 ∧ oidWord ty inst = .ok w ∧ oidOfWord w = (ty, inst)) := by
  constructor
  · intro w hw
    have hv : Valid (.oid (oidOfWord w).1 (oidOfWord w).2) := by
      simp only [Valid, oidOfWord, Int.ofNat_eq_natCast]; omega
    refine ⟨hv, ?_⟩
    obtain ⟨ht, hi⟩ := hv
    obtain ⟨w', h1, _, h3, _⟩ := oid_roundtrip _ _ ht hi
    rw [h1]
    simp only [oidOfWord, Int.ofNat_eq_natCast] at h3
    congr 1
    omega
  · intro ty inst ⟨ht, hi⟩
    obtain ⟨w, h1, h2, _, h4⟩ := oid_roundtrip ty inst ht hi
    exact ⟨w, h2, h1, h4⟩

theorem be32_beVal (a b c d : UInt8) : be32 (beVal [a, b, c, d]) = [a, b, c, d] := by
  have := a.toNat_lt; have := b.toNat_lt; have := c.toNat_lt; have := d.toNat_lt
  simp only [be32, beVal, List.foldl_cons, List.foldl_nil, List.cons.injEq, and_true]
  refine ⟨?_, ?_, ?_, ?_⟩ <;> apply UInt8.toNat_inj.mp <;>
    simp only [UInt8.toNat_ofNat', Nat.reducePow] <;> omega

/-- the same on octets: every 4-octet object-identifier tag decodes to an
    identifier whose encoding is that very tag -/
theorem oid_octets_bijection (a b c d : UInt8) :
    ∃ ty inst, decodePrim .oid (appData 12 [a, b, c, d]) = .ok (.oid ty inst) ∧
      encodePrim (.oid ty inst) = .ok (appData 12 [a, b, c, d]) := by
  have hw := beVal_lt [a, b, c, d]
  have hw' : beVal [a, b, c, d] < 4294967296 := by simpa using hw
  obtain ⟨hv, hword⟩ := oid_word_bijection.1 _ hw'
  refine ⟨(oidOfWord (beVal [a, b, c, d])).1, (oidOfWord (beVal [a, b, c, d])).2, ?_, ?_⟩
  · simp [decodePrim, checkApp, appData, PrimTy.appTag]
  · simp [encodePrim, hword, Except.map, be32_beVal]

/-! ## enumerations: generic over the table -/

/-- no two pairs of the table share a name -/
def NoDupNames (T : EnumTable) : Prop := (T.map (·.1)).Nodup
/-- no two pairs of the table share a value -/
def NoDupValues (T : EnumTable) : Prop := (T.map (·.2)).Nodup

theorem xlateName_mem : ∀ (T : EnumTable) (k : Name) (v : Nat), xlateName T k = some v → (k, v) ∈ T
  | [], _, _, h => by simp [xlateName] at h
  | (k0, v0) :: rest, k, v, h => by
      unfold xlateName at h
      split at h
      · rename_i v' hv'
        simp only [Option.some.injEq] at h; subst h
        exact List.mem_cons_of_mem _ (xlateName_mem rest k _ hv')
      · split at h
        · rename_i hk
          simp only [Option.some.injEq] at h; subst h; subst hk
          exact List.mem_cons_self
        · cases h

theorem xlateNum_mem : ∀ (T : EnumTable) (k : Name) (v : Nat), xlateNum T v = some k → (k, v) ∈ T
  | [], _, _, h => by simp [xlateNum] at h
  | (k0, v0) :: rest, k, v, h => by
      unfold xlateNum at h
      split at h
      · rename_i k' hk'
        simp only [Option.some.injEq] at h; subst h
        exact List.mem_cons_of_mem _ (xlateNum_mem rest _ v hk')
      · split at h
        · rename_i hv
          simp only [Option.some.injEq] at h; subst h; subst hv
          exact List.mem_cons_self
        · cases h

theorem xlateName_none (T : EnumTable) (k : Name) (h : k ∉ T.map (·.1)) : xlateName T k = none := by
  cases hx : xlateName T k with
  | none => rfl
  | some v =>
    exfalso; apply h
    exact List.mem_map.mpr ⟨(k, v), xlateName_mem T k v hx, rfl⟩

theorem xlateNum_none (T : EnumTable) (v : Nat) (h : v ∉ T.map (·.2)) : xlateNum T v = none := by
  cases hx : xlateNum T v with
  | none => rfl
  | some k =>
    exfalso; apply h
    exact List.mem_map.mpr ⟨(k, v), xlateNum_mem T k v hx, rfl⟩

theorem xlateName_of_mem : ∀ (T : EnumTable), NoDupNames T → ∀ k v, (k, v) ∈ T → xlateName T k = some v
  | [], _, _, _, h => by simp at h
  | (k0, v0) :: rest, hn, k, v, h => by
      have hn' : k0 ∉ rest.map (·.1) ∧ NoDupNames rest := by
        simpa [NoDupNames, List.nodup_cons] using hn
      unfold xlateName
      rcases List.mem_cons.mp h with heq | hmem
      · simp only [Prod.mk.injEq] at heq
        obtain ⟨rfl, rfl⟩ := heq
        rw [xlateName_none rest k hn'.1]
        simp
      · rw [xlateName_of_mem rest hn'.2 k v hmem]

theorem xlateNum_of_mem : ∀ (T : EnumTable), NoDupValues T → ∀ k v, (k, v) ∈ T → xlateNum T v = some k
  | [], _, _, _, h => by simp at h
  | (k0, v0) :: rest, hn, k, v, h => by
      have hn' : v0 ∉ rest.map (·.2) ∧ NoDupValues rest := by
        simpa [NoDupValues, List.nodup_cons] using hn
      unfold xlateNum
      rcases List.mem_cons.mp h with heq | hmem
      · simp only [Prod.mk.injEq] at heq
        obtain ⟨rfl, rfl⟩ := heq
        rw [xlateNum_none rest v hn'.1]
        simp
      · rw [xlateNum_of_mem rest hn'.2 k v hmem]

/-- **name → number → name** is the identity when no value is listed twice -/
theorem xlate_name_number_name (T : EnumTable) (hv : NoDupValues T) (k : Name) (v : Nat)
    (h : xlateName T k = some v) : xlateNum T v = some k :=
  xlateNum_of_mem T hv k v (xlateName_mem T k v h)

/-- **number → name → number** is the identity when no name is listed twice -/
theorem xlate_number_name_number (T : EnumTable) (hn : NoDupNames T) (k : Name) (v : Nat)
    (h : xlateNum T v = some k) : xlateName T k = some v :=
  xlateName_of_mem T hn k v (xlateNum_mem T k v h)

/-- the number an `Enumerated` built from an integer puts on the wire is that integer -/
theorem enum_number_preserved (T : EnumTable) (hn : NoDupNames T) (i : Int) (v : EnumVal)
    (h : enumCtor T (.int i) = .ok v) : 0 ≤ i ∧ enumNumber T v = .ok i.toNat := by
  simp only [enumCtor] at h
  split at h
  · cases h
  · rename_i hi
    refine ⟨by omega, ?_⟩
    split at h
    · rename_i s hs
      simp only [Except.ok.injEq] at h; subst h
      simp [enumNumber, xlate_number_name_number T hn s _ hs]
    · simp only [Except.ok.injEq] at h; subst h
      rfl

/-- the number behind a name is the table's -/
theorem enum_name_number (T : EnumTable) (s : Name) (v : EnumVal)
    (h : enumCtor T (.name s) = .ok v) : v = .name s ∧ ∃ n, xlateName T s = some n ∧ enumNumber T v = .ok n := by
  simp only [enumCtor] at h
  split at h
  · rename_i n hn
    simp only [Except.ok.injEq] at h; subst h
    exact ⟨rfl, n, hn, by simp [enumNumber, hn]⟩
  · cases h

/-- **enum_roundtrip** — for a table without duplicate names or values: every
    value an `Enumerated` class accepts (any listed name, any integer ≥ 0) whose
    number fits 32 bits encodes, and decodes to the same value (the same name,
    or the same number when the table has no name for it). -/
theorem enum_roundtrip (T : EnumTable) (hn : NoDupNames T) (hv : NoDupValues T)
    (a : EnumArg) (v : EnumVal) (hc : enumCtor T a = .ok v)
    (n : Nat) (hnum : enumNumber T v = .ok n) (hfit : n < 4294967296) :
    ∃ t, enumEncode T v = .ok t ∧ enumDecode T t = .ok v := by
  obtain ⟨t, h1, h2⟩ := prim_roundtrip (.enum n) hfit
  refine ⟨t, by simp [enumEncode, hnum, h1], ?_⟩
  simp only [tyOf] at h2
  simp only [enumDecode, h2]
  cases a with
  | int i =>
    obtain ⟨hi, hnum'⟩ := enum_number_preserved T hn i v hc
    rw [hnum] at hnum'
    simp only [Except.ok.injEq] at hnum'
    have : ¬ i < 0 := by omega
    simp only [enumCtor, this, if_false] at hc
    rw [← hnum'] at hc
    split at hc
    · rename_i s hs
      simp only [Except.ok.injEq] at hc; subst hc
      simp
    · rename_i hs
      simp only [Except.ok.injEq] at hc; subst hc
      simp
  | name s =>
    obtain ⟨rfl, n', hx, hnum'⟩ := enum_name_number T s v hc
    rw [hnum] at hnum'
    simp only [Except.ok.injEq] at hnum'
    subst hnum'
    simp [xlate_name_number_name T hv s n hx]

/-- a number that does not fit 32 bits is refused -/
theorem enum_refuses (T : EnumTable) (v : EnumVal) (n : Nat) (hnum : enumNumber T v = .ok n)
    (hbig : ¬ n < 4294967296) : ∃ e, enumEncode T v = .error e := by
  obtain ⟨e, he⟩ := prim_refuses (.enum n) hbig
  exact ⟨e, by simp [enumEncode, hnum, he]⟩

/-- why `NoDupValues` is needed — the shape of the defect repaired by
    fixes/C01-securitylevel-duplicate-value.patch: with two names on one value
    the first name comes back as the second.  (a concrete instance, not a theorem
    about all tables) -/
example :
    let T : EnumTable := [([115], 4), ([101], 4)]
    enumCtor T (.name [115]) = .ok (.name [115]) ∧
    (∃ t, enumEncode T (.name [115]) = .ok t ∧ enumDecode T t = .ok (.name [101])) := by
  exact ⟨rfl, _, rfl, rfl⟩

/-! ## checks run on the tables regenerated from the live classes
    (the obligations themselves are in `Lemmas/C01Gen.lean`, the only C01 proof file that imports
    `Gen/Enums.lean`, so that a changed table does not re-elaborate this file) -/

open BacVerif.Distinct in
/-- the executable check run on every generated enumeration table -/
def enumOK (T : EnumTable) : Bool :=
  distinctNames (T.map (·.1)) && distinctNats (T.map (·.2)) &&
  T.all (fun p => decide (p.2 < 4294967296))

theorem enumOK_sound (T : EnumTable) (h : enumOK T = true) :
    NoDupNames T ∧ NoDupValues T ∧ ∀ p ∈ T, p.2 < 4294967296 := by
  simp only [enumOK, Bool.and_eq_true, List.all_eq_true, decide_eq_true_eq] at h
  exact ⟨Distinct.distinctNames_nodup _ h.1.1, Distinct.distinctNats_nodup _ h.1.2, h.2⟩

/-! ## Unsigned and its range-limited subclasses -/

/-- what the constructor accepts is what it stores -/
theorem unsignedCtor_ok (lo : Int) (hi : Option Int) (arg : Int) (n : Nat)
    (h : unsignedCtor lo hi arg = .ok n) (hlo : 0 ≤ lo) :
    (n : Int) = arg ∧ lo ≤ arg ∧ (∀ h', hi = some h' → arg ≤ h') := by
  unfold unsignedCtor at h
  split at h
  · cases h
  · split at h
    · split at h
      · cases h
      · simp only [Except.ok.injEq] at h; subst h
        refine ⟨by omega, by omega, ?_⟩
        intro h' he; cases he; omega
    · simp only [Except.ok.injEq] at h; subst h
      exact ⟨by omega, by omega, by intro h' he; cases he⟩

/-- **unsignedCtor_roundtrip** — a class whose limits lie inside 0..2^32−1
    never meets the encoder's refusal: everything the constructor accepts
    encodes and decodes to itself. -/
theorem unsignedCtor_roundtrip (lo : Int) (hi : Int) (hlo : 0 ≤ lo) (hhi : hi < 4294967296)
    (arg : Int) (n : Nat) (h : unsignedCtor lo (some hi) arg = .ok n) :
    (n : Int) = arg ∧ ∃ t, encodePrim (.unsigned n) = .ok t ∧ decodePrim .unsigned t = .ok (.unsigned n) := by
  obtain ⟨h1, _, h3⟩ := unsignedCtor_ok lo (some hi) arg n h hlo
  have := h3 hi rfl
  exact ⟨h1, prim_roundtrip (.unsigned n) (by simp only [Valid]; omega)⟩

/-- outside the limits the constructor refuses -/
theorem unsignedCtor_refuses (lo : Int) (hi : Option Int) (arg : Int)
    (h : arg < lo ∨ ∃ h', hi = some h' ∧ arg > h') : ∃ e, unsignedCtor lo hi arg = .error e := by
  unfold unsignedCtor
  rcases h with h | ⟨h', rfl, h⟩
  · exact ⟨.valueRange, by simp [h]⟩
  · by_cases hl : arg < lo
    · exact ⟨.valueRange, by simp [hl]⟩
    · exact ⟨.valueRange, by simp [hl, h]⟩

/-! ## named bit strings -/

theorem bitIndex_mem : ∀ (T : BitTable) (k : Name) (i : Nat), bitIndex T k = some i → (k, i) ∈ T
  | [], _, _, h => by simp [bitIndex] at h
  | (k0, v0) :: rest, k, i, h => by
      unfold bitIndex at h
      split at h
      · rename_i hk
        simp only [Option.some.injEq] at h; subst h; subst hk
        exact List.mem_cons_self
      · exact List.mem_cons_of_mem _ (bitIndex_mem rest k i h)

/-- different names denote different bits when no position is listed twice -/
theorem bitIndex_inj (T : BitTable) (hv : (T.map (·.2)).Nodup) (a b : Name) (i : Nat)
    (ha : bitIndex T a = some i) (hb : bitIndex T b = some i) : a = b := by
  have h1 := xlateNum_of_mem T hv a i (bitIndex_mem T a i ha)
  have h2 := xlateNum_of_mem T hv b i (bitIndex_mem T b i hb)
  rw [h1] at h2
  exact Option.some.inj h2

theorem bitsFold_spec (T : BitTable) (len : Nat) : ∀ (names : List Name) (acc : List Bool),
    acc.length = len →
    (∀ name ∈ names, ∃ i, bitIndex T name = some i ∧ i < len) →
    ∃ bs, names.foldlM (fun (acc : List Bool) name =>
        match bitIndex T name with
        | none => Except.error Err.invalidDatatype
        | some i => if i < acc.length then Except.ok (acc.set i true) else Except.error Err.other) acc
        = .ok bs ∧ bs.length = len ∧
      ∀ j, bs[j]? = some true ↔ (acc[j]? = some true ∨ ∃ name ∈ names, bitIndex T name = some j)
  | [], acc, hl, _ => ⟨acc, rfl, hl, by intro j; simp⟩
  | name :: names, acc, hl, h => by
      obtain ⟨i, hi, hlt⟩ := h name List.mem_cons_self
      have hlt' : i < acc.length := by omega
      obtain ⟨bs, h1, h2, h3⟩ := bitsFold_spec T len names (acc.set i true) (by simp [hl])
        (fun n hn => h n (List.mem_cons_of_mem _ hn))
      refine ⟨bs, ?_, h2, ?_⟩
      · simp only [List.foldlM_cons, hi, hlt', if_true]
        exact h1
      · intro j
        rw [h3 j, List.getElem?_set]
        constructor
        · rintro (hj | ⟨n, hn, hnj⟩)
          · by_cases hij : i = j
            · subst hij
              exact Or.inr ⟨name, List.mem_cons_self, hi⟩
            · simp only [hij, if_false] at hj
              exact Or.inl hj
          · exact Or.inr ⟨n, List.mem_cons_of_mem _ hn, hnj⟩
        · rintro (hj | ⟨n, hn, hnj⟩)
          · by_cases hij : i = j
            · subst hij; left; simp [hlt']
            · left; simp only [hij, if_false]; exact hj
          · rcases List.mem_cons.mp hn with rfl | hn
            · rw [hi] at hnj
              simp only [Option.some.injEq] at hnj
              subst hnj
              left; simp [hlt']
            · exact Or.inr ⟨n, hn, hnj⟩

/-- **bitsFromNames_sets** — building a named bit string from names whose
    positions lie below `bitLen` succeeds, has exactly `bitLen` bits, and bit
    `j` is set iff one of the given names denotes position `j`. -/
theorem bitsFromNames_sets (T : BitTable) (len : Nat) (names : List Name)
    (h : ∀ name ∈ names, ∃ i, bitIndex T name = some i ∧ i < len) :
    ∃ bs, bitsFromNames T len names = .ok bs ∧ bs.length = len ∧
      ∀ j, bs[j]? = some true ↔ ∃ name ∈ names, bitIndex T name = some j := by
  obtain ⟨bs, h1, h2, h3⟩ := bitsFold_spec T len names (List.replicate len false) (by simp) h
  refine ⟨bs, h1, h2, ?_⟩
  intro j
  rw [h3 j]
  constructor
  · rintro (hj | hj)
    · exfalso
      rw [List.getElem?_replicate] at hj
      split at hj <;> simp at hj
    · exact hj
  · exact Or.inr

open BacVerif.Distinct in
/-- the executable check run on every generated bit-name table -/
def bitsOK (len : Nat) (T : BitTable) : Bool :=
  distinctNames (T.map (·.1)) && distinctNats (T.map (·.2)) && T.all (fun p => decide (p.2 < len))

/-! ## further consequences -/

/-- **app_to_object_roundtrip** — an application tag identifies its own type:
    `Tag.app_to_object` recovers the value from the tag alone. -/
theorem app_to_object_roundtrip (v : PrimVal) (h : Valid v) :
    ∃ t, encodePrim v = .ok t ∧ appToObject t = .ok (some v) := by
  obtain ⟨t, h1, h2⟩ := prim_roundtrip v h
  obtain ⟨hcls, hnum, _⟩ := encodePrim_shape v t h1
  refine ⟨t, h1, ?_⟩
  have h16 : ¬ t.num ≥ 16 := by rw [hnum]; cases (tyOf v) <;> simp [PrimTy.appTag]
  have hty : PrimTy.ofAppTag t.num = some (tyOf v) := by
    rw [hnum]; cases (tyOf v) <;> rfl
  simp [appToObject, hcls, h16, hty, h2, Except.map]

/-- **decodePrim_only_invalidTag** — the decoders are total and fail in one
    way only: whatever the tag, the result is a value or `InvalidTag`. -/
theorem decodePrim_only_invalidTag (ty : PrimTy) (t : Tag) (e : Err)
    (h : decodePrim ty t = .error e) : e = .invalidTag := by
  unfold decodePrim at h
  split at h
  · rename_i e' hc
    simp only [checkApp] at hc
    split at hc
    · cases hc; cases h; rfl
    · cases hc
  · cases ty <;> simp only at h
    · split at h <;> cases h; rfl
    · split at h <;> cases h; rfl
    · split at h <;> cases h; rfl
    · cases hd : t.data with
      | nil => rw [hd] at h; simp [decodeIntegerData, Except.map] at h; exact h.symm
      | cons b bs => rw [hd] at h; simp [decodeIntegerData, Except.map] at h
    · split at h <;> cases h; rfl
    · split at h <;> cases h; rfl
    · cases h
    · split at h <;> cases h; rfl
    · cases hd : t.data with
      | nil => rw [hd] at h; simp [decodeBitsData, Except.map] at h; exact h.symm
      | cons b bs =>
        rw [hd] at h
        simp only [decodeBitsData] at h
        split at h <;> simp [Except.map] at h
    · split at h <;> cases h; rfl
    · unfold decodeQuad at h
      split at h
      · simp [Except.map] at h
      · simp [Except.map] at h; exact h.symm
    · unfold decodeQuad at h
      split at h
      · simp [Except.map] at h
      · simp [Except.map] at h; exact h.symm
    · split at h
      · cases h; rfl
      · cases h

theorem beVal_inj : ∀ (l1 l2 : Bytes), l1.length = l2.length → beVal l1 = beVal l2 → l1 = l2
  | [], [], _, _ => rfl
  | [], _ :: _, h, _ => by simp at h
  | _ :: _, [], h, _ => by simp at h
  | a :: l1, b :: l2, hl, hv => by
      have hl' : l1.length = l2.length := by simpa using hl
      rw [beVal_cons, beVal_cons, hl'] at hv
      have h1 := beVal_lt l1
      have h2 := beVal_lt l2
      rw [hl'] at h1
      have hp := pow256_pos l2.length
      generalize 256 ^ l2.length = P at *
      have hab : a.toNat = b.toNat := by
        have e1 : (a.toNat * P + beVal l1) / P = a.toNat := by
          rw [Nat.mul_comm, Nat.mul_add_div hp, Nat.div_eq_of_lt h1]; simp
        have e2 : (b.toNat * P + beVal l2) / P = b.toNat := by
          rw [Nat.mul_comm, Nat.mul_add_div hp, Nat.div_eq_of_lt h2]; simp
        rw [← e1, ← e2, hv]
      have hrest : beVal l1 = beVal l2 := by
        rw [hab] at hv; omega
      rw [UInt8.toNat_inj.mp hab, beVal_inj l1 l2 hl' hrest]

/-- **unsigned_canonical_unique** — the emitted octets are THE canonical form:
    any non-empty octet string with the same value and no redundant leading
    zero octet is the emitted one. -/
theorem unsigned_canonical_unique (n : Nat) (h : n < 4294967296) (d : Bytes)
    (hd : encodeUnsignedData n = .ok d) (d' : Bytes) (hne : d' ≠ []) (hv : beVal d' = n)
    (hcan : ∀ a b rest, d' = a :: b :: rest → a.toNat ≠ 0) : d' = d := by
  obtain ⟨d0, h0, h1, _, h3, h4, h5, h6⟩ := unsigned_minimal n h
  rw [hd] at h0; cases h0
  have hle := unsigned_shortest n h d hd d' hne hv
  have hge : d'.length ≤ d.length := by
    apply Classical.byContradiction
    intro hlt
    have hlt : d.length < d'.length := by omega
    match d', hne, hlt, hv, hcan with
    | [], hne, _, _, _ => exact absurd rfl hne
    | [_], _, hlt, _, _ => simp only [List.length_cons, List.length_nil] at hlt; omega
    | a :: b :: rest, _, hlt, hv, hcan =>
      have ha := hcan a b rest rfl
      rw [beVal_cons] at hv
      have hp := pow256_pos (b :: rest).length
      have : 1 * 256 ^ (b :: rest).length ≤ a.toNat * 256 ^ (b :: rest).length :=
        Nat.mul_le_mul_right _ (by omega)
      have hmono : 256 ^ d.length ≤ 256 ^ (b :: rest).length :=
        Nat.pow_le_pow_right (by omega) (by simp only [List.length_cons] at hlt ⊢; omega)
      omega
  exact beVal_inj d' d (by omega) (by rw [hv, h3])

/-! ## uniqueness of the canonical integer form -/

theorem sfoldl (l : Bytes) (acc : Int) :
    l.foldl (fun acc c => acc * 256 + (c.toNat : Int)) acc = acc * 256 ^ l.length + (beVal l : Int) := by
  induction l generalizing acc with
  | nil => simp [beVal]
  | cons b bs ih =>
    simp only [List.foldl_cons, List.length_cons]
    rw [ih, beVal_cons]
    simp only [Int.natCast_add, Int.natCast_mul, Int.natCast_pow]
    grind

/-- head octet read as a signed number -/
def shead (a : UInt8) : Int := if a.toNat ≥ 128 then (a.toNat : Int) - 256 else (a.toNat : Int)

theorem sval_cons (a : UInt8) (l : Bytes) : sval (a :: l) = shead a * 256 ^ l.length + (beVal l : Int) := by
  simp only [sval, shead]
  rw [sfoldl]

theorem sval_inj : ∀ (l1 l2 : Bytes), l1.length = l2.length → sval l1 = sval l2 → l1 = l2
  | [], [], _, _ => rfl
  | [], _ :: _, h, _ => by simp at h
  | _ :: _, [], h, _ => by simp at h
  | a :: l1, b :: l2, hl, hv => by
      have hl' : l1.length = l2.length := by simpa using hl
      rw [sval_cons, sval_cons, hl'] at hv
      have h1 := beVal_lt l1
      have h2 := beVal_lt l2
      rw [hl'] at h1
      have hp := pow256_pos l2.length
      have hpc : ((256 ^ l2.length : Nat) : Int) = (256 : Int) ^ l2.length := by
        simp [Int.natCast_pow]
      generalize hP : (256 : Int) ^ l2.length = P at *
      generalize hQ : 256 ^ l2.length = Q at *
      have hPQ : P = (Q : Int) := hpc.symm
      subst hPQ
      have hsa : shead a = shead b := by
        -- (sa - sb) * Q = y - x with |y - x| < Q
        apply Classical.byContradiction
        intro hne
        have hd : (shead a - shead b) * (Q : Int) = (beVal l2 : Int) - (beVal l1 : Int) := by
          rw [Int.sub_mul]; omega
        rcases Int.lt_or_gt_of_ne hne with hlt | hgt
        · have : (shead a - shead b) * (Q : Int) ≤ (-1) * (Q : Int) :=
            Int.mul_le_mul_of_nonneg_right (by omega) (by omega)
          omega
        · have : 1 * (Q : Int) ≤ (shead a - shead b) * (Q : Int) :=
            Int.mul_le_mul_of_nonneg_right (by omega) (by omega)
          omega
      have hab : a.toNat = b.toNat := by
        have := a.toNat_lt; have := b.toNat_lt
        unfold shead at hsa
        split at hsa <;> split at hsa <;> omega
      have hrest : beVal l1 = beVal l2 := by
        rw [hsa] at hv; omega
      rw [UInt8.toNat_inj.mp hab, beVal_inj l1 l2 hl' hrest]

/-- **integer_canonical_unique** — the emitted octets are THE canonical form:
    any octet string that decodes to `i` and whose first nine bits are not all
    equal (unless it is a single octet) is the emitted one. -/
theorem integer_canonical_unique (i : Int) (h1 : -2147483648 ≤ i) (h2 : i < 2147483648) (d : Bytes)
    (hd : encodeIntegerData i = .ok d) (d' : Bytes) (hd' : decodeIntegerData d' = .ok i)
    (hcan : ∀ a b rest, d' = a :: b :: rest →
        ¬ (a.toNat = 0 ∧ b.toNat < 128) ∧ ¬ (a.toNat = 255 ∧ b.toNat ≥ 128)) : d' = d := by
  obtain ⟨d0, h0, hpos, hlen, hdec, _⟩ := integer_minimal i h1 h2
  rw [hd] at h0; cases h0
  have hle := integer_shortest i h1 h2 d hd d' hd'
  have hne' : d' ≠ [] := by
    intro h; subst h; simp [decodeIntegerData] at hd'
  have hne : d ≠ [] := by
    intro h; subst h; simp at hpos
  have hv' : sval d' = i := by
    rw [decodeIntegerData_sval d' hne'] at hd'; exact Except.ok.inj hd'
  have hv : sval d = i := by
    rw [decodeIntegerData_sval d hne] at hdec; exact Except.ok.inj hdec
  -- d' cannot be longer than d: a canonical string of length L > 1 lies outside the range of L−1 octets
  have hge : d'.length ≤ d.length := by
    apply Classical.byContradiction
    intro hlt
    have hlt : d.length < d'.length := by omega
    match d', hne', hlt, hv', hcan with
    | [], hne', _, _, _ => exact absurd rfl hne'
    | [_], _, hlt, _, _ => simp only [List.length_cons, List.length_nil] at hlt; omega
    | a :: b :: rest, _, hlt, hv', hcan =>
      have hc := hcan a b rest rfl
      have ha := a.toNat_lt; have hb := b.toNat_lt
      -- value of d' in terms of Q = 256^rest.length
      rw [sval_cons, beVal_cons] at hv'
      simp only [List.length_cons] at hv'
      -- value of d bounded by its length
      match d, hne, hv with
      | x :: dr, _, hv =>
        rw [sval_cons] at hv
        have hx := x.toNat_lt
        have hbd := beVal_lt dr
        have hbr := beVal_lt rest
        have hmono : 256 ^ dr.length ≤ 256 ^ rest.length := Nat.pow_le_pow_right (by omega) (by
          simp only [List.length_cons] at hlt; omega)
        have hpr := pow256_pos rest.length
        have hpd := pow256_pos dr.length
        have c1 : ((256 : Int) ^ rest.length) = ((256 ^ rest.length : Nat) : Int) := by simp [Int.natCast_pow]
        have c2 : ((256 : Int) ^ dr.length) = ((256 ^ dr.length : Nat) : Int) := by simp [Int.natCast_pow]
        have c3 : ((256 : Int) ^ (rest.length + 1)) = 256 * ((256 ^ rest.length : Nat) : Int) := by
          rw [Int.pow_succ, c1, Int.mul_comm]
        rw [c3] at hv'
        simp only [Int.natCast_add, Int.natCast_mul] at hv'
        rw [c2] at hv
        generalize 256 ^ rest.length = Q at *
        generalize 256 ^ dr.length = D at *
        generalize beVal rest = y at *
        generalize beVal dr = z at *
        -- |i| < 128·D ≤ 128·Q from d;  from d' canonical: i ≥ 128·Q or i < −128·Q
        have hiD : -(128 * (D : Int)) ≤ i ∧ i < 128 * (D : Int) := by
          unfold shead at hv
          have t1 : (-128 : Int) * (D : Int) ≤ shead x * (D : Int) := by
            apply Int.mul_le_mul_of_nonneg_right _ (by omega)
            unfold shead; split <;> omega
          have t2 : shead x * (D : Int) ≤ 127 * (D : Int) := by
            apply Int.mul_le_mul_of_nonneg_right _ (by omega)
            unfold shead; split <;> omega
          unfold shead at t1 t2
          omega
        have hb1 : (0 : Int) ≤ (b.toNat : Int) * (Q : Int) := Int.mul_nonneg (by omega) (by omega)
        have hb2 : (b.toNat : Int) * (Q : Int) ≤ 255 * (Q : Int) :=
          Int.mul_le_mul_of_nonneg_right (by omega) (by omega)
        by_cases hs : a.toNat ≥ 128
        · -- negative head
          have hsa : shead a = (a.toNat : Int) - 256 := by unfold shead; simp [hs]
          rw [hsa] at hv'
          by_cases h255 : a.toNat = 255
          · have hb128 : b.toNat < 128 := by
              apply Classical.byContradiction; intro hh; exact hc.2 ⟨h255, by omega⟩
            have : (b.toNat : Int) * (Q : Int) ≤ 127 * (Q : Int) :=
              Int.mul_le_mul_of_nonneg_right (by omega) (by omega)
            rw [h255] at hv'
            omega
          · have : ((a.toNat : Int) - 256) * (256 * (Q : Int)) ≤ (-2) * (256 * (Q : Int)) :=
              Int.mul_le_mul_of_nonneg_right (by omega) (by omega)
            omega
        · have hsa : shead a = (a.toNat : Int) := by unfold shead; simp [hs]
          rw [hsa] at hv'
          by_cases h0 : a.toNat = 0
          · have hb128 : b.toNat ≥ 128 := by
              apply Classical.byContradiction; intro hh; exact hc.1 ⟨h0, by omega⟩
            have : 128 * (Q : Int) ≤ (b.toNat : Int) * (Q : Int) :=
              Int.mul_le_mul_of_nonneg_right (by omega) (by omega)
            rw [h0] at hv'
            omega
          · have : 1 * (256 * (Q : Int)) ≤ (a.toNat : Int) * (256 * (Q : Int)) :=
              Int.mul_le_mul_of_nonneg_right (by omega) (by omega)
            omega
  exact sval_inj d' d (by omega) (by rw [hv, hv'])

/-! ## Real at the level of the Python float (Model.Ieee) -/

theorem rne_exact (q shift : Nat) (_hs : 1 ≤ shift) : rne (q * 2 ^ shift) shift = q := by
  have hp : 0 < 2 ^ shift := Nat.pow_pos (by omega)
  have hh : 0 < 2 ^ (shift - 1) := Nat.pow_pos (by omega)
  unfold rne
  simp only [Nat.mul_mod_left, Nat.mul_div_cancel _ hp]
  have : ¬ (0 > 2 ^ (shift - 1) ∨ 0 = 2 ^ (shift - 1) ∧ q % 2 = 1) := by omega
  rw [if_neg this]

theorem narrowF64_mk (s e m : Nat) (hs : s < 2) (he : e < 2048) (hm : m < 4503599627370496) :
    narrowF64 (mkF64 s e m) = narrowFields s e m := by
  unfold narrowF64 mkF64
  have e1 : (s * 9223372036854775808 + e * 4503599627370496 + m) / 9223372036854775808 % 2 = s := by omega
  have e2 : (s * 9223372036854775808 + e * 4503599627370496 + m) / 4503599627370496 % 2048 = e := by omega
  have e3 : (s * 9223372036854775808 + e * 4503599627370496 + m) % 4503599627370496 = m := by omega
  rw [e1, e2, e3]

/-- **narrow_widen** — every single-precision value that is not a NaN, once
    held as a Python float (`widenF32`), is packed by `struct.pack('>f')`
    (`narrowF64`) to exactly its own bit pattern: no rounding, no refusal. -/
theorem narrow_widen (b : Nat) (hb : b < 4294967296) (hn : isNaN32 b = false) :
    narrowF64 (widenF32 b) = .ok b := by
  simp only [isNaN32, decide_eq_false_iff_not] at hn
  unfold widenF32
  generalize hee : b / 8388608 % 256 = e at *
  generalize hmm : b % 8388608 = m at *
  generalize hss : b / 2147483648 % 2 = s at *
  have hs : s < 2 := by omega
  have hm : m < 8388608 := by omega
  have he : e < 256 := by omega
  have hbs : b = mkF32 s e m := by unfold mkF32; omega
  rw [hbs]
  unfold widenFields
  by_cases he255 : e = 255
  · have hm0 : m = 0 := by
      apply Classical.byContradiction; intro h; exact hn ⟨he255, h⟩
    subst he255; subst hm0
    rw [if_pos rfl, if_pos rfl, narrowF64_mk s 2047 0 hs (by omega) (by omega)]
    rfl
  · rw [if_neg he255]
    by_cases he0 : e = 0
    · subst he0
      rw [if_pos rfl]
      by_cases hm0 : m = 0
      · subst hm0
        rw [if_pos rfl, narrowF64_mk s 0 0 hs (by omega) (by omega)]
        rfl
      · rw [if_neg hm0]
        simp only
        have hlo : 2 ^ Nat.log2 m ≤ m := Nat.log2_self_le hm0
        have hhi : m < 2 ^ (Nat.log2 m + 1) := Nat.lt_log2_self
        generalize Nat.log2 m = k at *
        have hk22 : k ≤ 22 := by
          apply Classical.byContradiction; intro hc
          have : 2 ^ 23 ≤ 2 ^ k := Nat.pow_le_pow_right (by omega) (by omega)
          omega
        have hpow : 2 ^ k * 2 ^ (52 - k) = 4503599627370496 := by
          rw [← Nat.pow_add]; have : k + (52 - k) = 52 := by omega
          rw [this]
        have hge : 4503599627370496 ≤ m * 2 ^ (52 - k) := by
          rw [← hpow]; exact Nat.mul_le_mul_right _ hlo
        have hmant : 4503599627370496 + (m - 2 ^ k) * 2 ^ (52 - k) = m * 2 ^ (52 - k) := by
          rw [Nat.sub_mul, hpow]; omega
        have hlt : m * 2 ^ (52 - k) < 2 * 4503599627370496 := by
          have h1 : m * 2 ^ (52 - k) < 2 ^ (k + 1) * 2 ^ (52 - k) :=
            Nat.mul_lt_mul_of_pos_right hhi (Nat.pow_pos (by omega))
          have h2 : 2 ^ (k + 1) * 2 ^ (52 - k) = 2 * 4503599627370496 := by
            rw [Nat.pow_succ, Nat.mul_comm (2 ^ k) 2, Nat.mul_assoc, hpow]
          omega
        have hfrac : (m - 2 ^ k) * 2 ^ (52 - k) < 4503599627370496 := by omega
        rw [narrowF64_mk s (k + 874) _ hs (by omega) hfrac]
        unfold narrowFields
        rw [if_neg (by omega), if_neg (by omega), if_neg (by omega)]
        have hsh : 926 - (k + 874) = 52 - k := by omega
        rw [hsh, hmant, rne_exact m (52 - k) (by omega)]
        exact congrArg Except.ok (by unfold mkF32; omega)
    · rw [if_neg he0]
      rw [narrowF64_mk s (e + 896) (m * 536870912) hs (by omega) (by omega)]
      unfold narrowFields
      rw [if_neg (by omega), if_neg (by omega), if_pos (by omega)]
      simp only
      have hq : 4503599627370496 + m * 536870912 = (8388608 + m) * 2 ^ 29 := by omega
      rw [hq, rne_exact (8388608 + m) 29 (by omega)]
      have n4 : ¬ (e + 896 - 897) * 8388608 + (8388608 + m) ≥ 2139095040 := by omega
      rw [if_neg n4]
      exact congrArg Except.ok (by unfold mkF32; omega)

theorem rne_29 (x : Nat) :
    (rne x 29 = x / 536870912 ∧
      ¬ (x % 536870912 > 268435456 ∨ (x % 536870912 = 268435456 ∧ x / 536870912 % 2 = 1))) ∨
    (rne x 29 = x / 536870912 + 1 ∧
      (x % 536870912 > 268435456 ∨ (x % 536870912 = 268435456 ∧ x / 536870912 % 2 = 1))) := by
  simp only [rne, Nat.reducePow, Nat.reduceSub]
  split
  · rename_i h; exact Or.inr ⟨rfl, h⟩
  · rename_i h; exact Or.inl ⟨rfl, h⟩

/-- **narrow_refuses_iff** — `struct.pack('>f')` refuses exactly the finite
    doubles whose nearest single would be infinite (|x| ≥ 2^128 − 2^103, bit
    pattern 0x47EFFFFFF0000000 and above); it never turns a finite value into
    an infinity.  Everything else is encoded. -/
theorem narrow_refuses_iff (b : Nat) :
    (∃ e, narrowF64 b = .error e) ↔
      (5183643170835005440 ≤ b % 9223372036854775808 ∧ b % 9223372036854775808 < 9218868437227405312) := by
  unfold narrowF64
  generalize hee : b / 4503599627370496 % 2048 = e at *
  generalize hmm : b % 4503599627370496 = m at *
  generalize hss : b / 9223372036854775808 % 2 = s at *
  have hm : m < 4503599627370496 := by omega
  have he : e < 2048 := by omega
  have hb : b % 9223372036854775808 = e * 4503599627370496 + m := by omega
  rw [hb]
  unfold narrowFields
  by_cases h1 : e = 2047
  · rw [if_pos h1]
    constructor
    · intro ⟨x, hx⟩; split at hx <;> cases hx
    · intro h; omega
  · rw [if_neg h1]
    by_cases h2 : e = 0
    · rw [if_pos h2]
      constructor
      · intro ⟨x, hx⟩; cases hx
      · intro h; omega
    · rw [if_neg h2]
      by_cases h3 : e ≥ 897
      · rw [if_pos h3]
        simp only
        have hr := rne_29 (4503599627370496 + m)
        generalize rne (4503599627370496 + m) 29 = R at *
        by_cases hbits : (e - 897) * 8388608 + R ≥ 2139095040
        · rw [if_pos hbits]
          constructor
          · intro _; omega
          · intro _; exact ⟨_, rfl⟩
        · rw [if_neg hbits]
          constructor
          · intro ⟨x, hx⟩; cases hx
          · intro h; exfalso
            have hq : (4503599627370496 + m) / 536870912 ≥ 8388608 := by omega
            by_cases hA : e ≤ 1149
            · omega
            · by_cases hB : e = 1150
              · subst hB; omega
              · have : e - 897 ≥ 254 := by omega
                omega
      · rw [if_neg h3]
        constructor
        · intro ⟨x, hx⟩; cases hx
        · intro h; omega

/-- **real_float_roundtrip** — Real at the level of the Python float: a float
    holding a single-precision value (`widenF32 b`, not a NaN) encodes to the
    same tag as the bit-pattern model says (`encodePrim (.real b)`, four octets)
    and decodes to the very same float. -/
theorem real_float_roundtrip (b : UInt32) (hn : isNaN32 b.toNat = false) :
    ∃ t, encodeRealFloat (widenF32 b.toNat) = .ok t ∧ encodePrim (.real b) = .ok t ∧
      decodeRealFloat t = .ok (widenF32 b.toNat) := by
  have hb := b.toNat_lt
  have h1 := narrow_widen b.toNat (by simpa using hb) hn
  obtain ⟨t, h2, h3⟩ := prim_roundtrip (.real b) trivial
  refine ⟨t, ?_, h2, ?_⟩
  · simp [encodeRealFloat, h1, h2]
  · simp only [tyOf] at h3
    simp [decodeRealFloat, h3]

/-- an over-range float is refused by `Real.encode`, never sent as ±infinity -/
theorem real_float_refuses (x : Nat)
    (h : 5183643170835005440 ≤ x % 9223372036854775808 ∧ x % 9223372036854775808 < 9218868437227405312) :
    ∃ e, encodeRealFloat x = .error e := by
  obtain ⟨e, he⟩ := (narrow_refuses_iff x).mpr h
  exact ⟨e, by simp [encodeRealFloat, he]⟩

/-! ## non-vacuity: concrete, non-trivial instances of every hypothesis
    (these are tests of the statements, not the theorems) -/

-- `Valid` is met by boundary values of every constrained type and fails just outside
example : Valid (.unsigned 4294967295) ∧ ¬ Valid (.unsigned 4294967296) := by decide
example : Valid (.integer (-2147483648)) ∧ Valid (.integer 2147483647) ∧
    ¬ Valid (.integer 2147483648) ∧ ¬ Valid (.integer (-2147483649)) := by decide
example : Valid (.oid 1023 4194303) ∧ ¬ Valid (.oid 1024 0) ∧ ¬ Valid (.oid 0 4194304) := by decide
example : Valid (.date 255 255 255 255) ∧ ¬ Valid (.time 24 0 0 256) := by decide
example : Valid (.charstr 0 [0x41]) ∧ Valid (.bits [true, false, true]) := by decide

-- the design-time witnesses: refused by the (fixed) encoder, not altered
example : encodePrim (.integer 2147483648) = .error .valueRange := rfl
example : encodePrim (.integer 4294967301) = .error .valueRange := rfl

-- canonical octets of a few boundary values
example : encodePrim (.integer (-129)) = .ok (appData 3 [0xFF, 0x7F]) := rfl
example : encodePrim (.integer 128) = .ok (appData 3 [0x00, 0x80]) := rfl
example : encodePrim (.integer (-128)) = .ok (appData 3 [0x80]) := rfl
example : encodePrim (.unsigned 65536) = .ok (appData 2 [0x01, 0x00, 0x00]) := rfl
example : encodePrim (.bits [true, false, true]) = .ok (appData 8 [5, 0xA0]) := rfl
example : encodePrim (.bits []) = .ok (appData 8 [0]) := rfl
example : encodePrim (.oid 8 1234) = .ok (appData 12 [0x02, 0x00, 0x04, 0xD2]) := rfl

-- `Fits` / `ModeOK` / the wire theorem's hypotheses, incl. the boolean special case
example : Fits (.octets [1, 2, 3]) ∧ ModeOK (.ctx 254) ∧ ModeOK .app ∧ ¬ ModeOK (.ctx 256) := by decide
example : wireEncode (.ctx 254) (.bool true) = .ok [0xF9, 0xFE, 0x01] := rfl
example : wireDecode .bool (.ctx 254) [0xF9, 0xFE, 0x01, 0x77] = .ok (.bool true, [0x77]) := rfl
example : wireEncode .app (.bool true) = .ok [0x11] := rfl
example : wireEncode (.ctx 3) (.integer (-1)) = .ok [0x39, 0xFF] := rfl

-- `unsignedCtor_roundtrip` hypotheses: Unsigned16
example : unsignedCtor 0 (some 65535) 65535 = .ok 65535 ∧
    unsignedCtor 0 (some 65535) 65536 = .error .valueRange ∧
    unsignedCtor 0 (some 65535) (-1) = .error .valueRange := ⟨rfl, rfl, rfl⟩

-- `app_to_object` recovers type and value from the tag alone; reserved numbers give None
example : appToObject (appData 3 [0xFF, 0x7F]) = .ok (some (.integer (-129))) := rfl
example : appToObject (appData 13 []) = .ok none := rfl

-- Real at float level: 0.1f (0x3DCCCCCD) held as a Python float is 0x3FB99999A0000000; the
-- hypotheses of `narrow_widen` / `real_float_roundtrip` / `narrow_refuses_iff` on concrete patterns
example : isNaN32 0x3DCCCCCD = false ∧ widenF32 0x3DCCCCCD = 0x3FB99999A0000000 ∧
    narrowF64 0x3FB99999A0000000 = .ok 0x3DCCCCCD := ⟨rfl, rfl, rfl⟩
example : narrowF64 0x3FB999999999999A = .ok 0x3DCCCCCD := rfl            -- Real(0.1): rounded
example : widenF32 1 = 0x36A0000000000000 ∧ narrowF64 0x36A0000000000000 = .ok 1 := ⟨rfl, rfl⟩  -- least subnormal
example : narrowF64 0x3690000000000000 = .ok 0 ∧ narrowF64 0x3690000000000001 = .ok 1 := ⟨rfl, rfl⟩  -- tie to even / just above
example : narrowF64 0x47EFFFFFEFFFFFFF = .ok 0x7F7FFFFF ∧ narrowF64 0x47EFFFFFF0000000 = .error .valueRange ∧
    narrowF64 0x7FF0000000000000 = .ok 0x7F800000 := ⟨rfl, rfl, rfl⟩

end BacVerif.C01
