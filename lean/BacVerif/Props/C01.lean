/-
  C01 — Primitive values survive encoding unchanged and are never silently altered.

  Property text → formal statement (model: BacVerif/Model/Prim.lean over Model/Tag.lean)
  * "For every value a BACnet primitive type accepts …, encoding it as an
    application tag … and decoding the produced octets yields the same value"
        → `prim_roundtrip` (tag level, every type, every value, no size bound)
  * "… or as a context tag …" / "both tagging modes and every context number 0..254"
        → `prim_wire_roundtrip` (through `serializeTag`/`parseTag` of C02, with
          arbitrary trailing octets; proved for every context number ≤ 255),
          `ctx_app_inverse` (incl. the boolean special case: value moves between
          LVT and data)
  * "the octets are the standard's canonical form (shortest-length integers,
    unused-bit count for bit strings, 4/8-octet IEEE floats, 10+22-bit object
    identifiers)"
        → `unsigned_minimal`, `unsigned_shortest`, `integer_minimal`,
          `integer_shortest`, `bits_header`, `real_len4`, `double_len8`,
          `oid_layout`, `oid_word_bijection`
  * "If a value cannot be represented the encoder refuses with an error; it
    never emits octets that decode to a different value"
        → `prim_refuses` (¬Valid → error) together with `prim_roundtrip`
          (Valid → the same value), and `prim_never_alters` (whatever is emitted
          decodes to the value that was given)
  * "Enumerated … and their subclasses" / "every enumeration name and number"
        → generic `xlate_name_number_name`, `xlate_number_name_number`,
          `enum_roundtrip`, `enum_number_preserved` under `NoDupNames`,
          `NoDupValues`; discharged for every table regenerated from the live
          classes by `gen_enums_ok` (`decide +kernel`); `UnsignedN` limits:
          `unsignedCtor_roundtrip` + `gen_unsigned_limits_ok`; named bit strings:
          `gen_bits_ok`, `bitsFromNames_sets`.

  Trusted / not in the theorems: Python's float ↔ IEEE bit pattern
  (`struct.pack('>f'/'>d')`) and str ↔ UTF-8; both are compared by the harness.
-/
import BacVerif.Model.Prim
import BacVerif.Props.C02
import BacVerif.Gen.Enums
import BacVerif.Lemmas.C01Distinct
namespace BacVerif.C01
open BacVerif

/-! ## big-endian octet strings -/

theorem foldl_be (l : Bytes) (acc : Nat) :
    l.foldl (fun acc b => acc * 256 + b.toNat) acc
      = acc * 256 ^ l.length + l.foldl (fun acc b => acc * 256 + b.toNat) 0 := by
  induction l generalizing acc with
  | nil => simp
  | cons b bs ih =>
    simp only [List.foldl_cons, List.length_cons]
    rw [ih (acc * 256 + b.toNat), ih (0 * 256 + b.toNat)]
    rw [Nat.pow_succ, Nat.add_mul]
    simp [Nat.mul_assoc, Nat.mul_comm, Nat.add_assoc]

theorem beVal_cons (b : UInt8) (bs : Bytes) :
    beVal (b :: bs) = b.toNat * 256 ^ bs.length + beVal bs := by
  simp only [beVal, List.foldl_cons]
  rw [foldl_be]; simp

theorem beVal_lt : ∀ bs : Bytes, beVal bs < 256 ^ bs.length
  | [] => by simp [beVal]
  | b :: bs => by
      have ih := beVal_lt bs
      have hb := b.toNat_lt
      rw [beVal_cons, List.length_cons, Nat.pow_succ]
      have : b.toNat * 256 ^ bs.length ≤ 255 * 256 ^ bs.length := Nat.mul_le_mul_right _ (by omega)
      omega

theorem beVal_be32 (n : Nat) (h : n < 4294967296) : beVal (be32 n) = n := by
  simp [beVal, be32]; omega

theorem be32_length (n : Nat) : (be32 n).length = 4 := rfl

theorem trimZeros_beVal : ∀ bs : Bytes, beVal (trimZeros bs) = beVal bs
  | [] => rfl
  | [_] => rfl
  | a :: b :: rest => by
      unfold trimZeros
      split
      · rename_i h
        rw [trimZeros_beVal (b :: rest), beVal_cons a, h]; simp
      · rfl

theorem trimZeros_length_pos : ∀ bs : Bytes, bs ≠ [] → 1 ≤ (trimZeros bs).length
  | [], h => absurd rfl h
  | [_], _ => by simp [trimZeros]
  | a :: b :: rest, _ => by
      unfold trimZeros
      split
      · exact trimZeros_length_pos (b :: rest) (by simp)
      · simp

theorem trimZeros_length_le : ∀ bs : Bytes, (trimZeros bs).length ≤ bs.length
  | [] => by simp [trimZeros]
  | [_] => by simp [trimZeros]
  | a :: b :: rest => by
      unfold trimZeros
      split
      · have := trimZeros_length_le (b :: rest); simp at this ⊢; omega
      · simp

/-- after trimming, a leading zero octet survives only in a one-octet string -/
theorem trimZeros_head : ∀ (bs : Bytes) (a b : UInt8) (rest : Bytes),
    trimZeros bs = a :: b :: rest → a.toNat ≠ 0
  | [], _, _, _, h => by simp [trimZeros] at h
  | [_], _, _, _, h => by simp [trimZeros] at h
  | x :: y :: r, a, b, rest, h => by
      unfold trimZeros at h
      split at h
      · exact trimZeros_head (y :: r) a b rest h
      · rename_i hx
        simp only [List.cons.injEq] at h
        obtain ⟨rfl, _⟩ := h
        exact hx

/-! ## two's-complement integers -/

/-- the value Integer.decode computes from a non-empty octet string -/
def sval : Bytes → Int
  | [] => 0
  | b0 :: rest =>
      rest.foldl (fun acc c => acc * 256 + (c.toNat : Int))
        (if b0.toNat ≥ 128 then (b0.toNat : Int) - 256 else (b0.toNat : Int))

theorem decodeIntegerData_eq (b : UInt8) (bs : Bytes) :
    decodeIntegerData (b :: bs) = .ok (sval (b :: bs)) := rfl

theorem trimPos_sval : ∀ bs : Bytes, sval (trimPos bs) = sval bs
  | [] => rfl
  | [_] => rfl
  | a :: b :: rest => by
      unfold trimPos
      split
      · rfl
      · split
        · rfl
        · rename_i h0 h1
          rw [trimPos_sval (b :: rest)]
          have hb := b.toNat_lt
          have h0' : a.toNat = 0 := by omega
          simp only [sval, List.foldl_cons, h0']
          have : ¬ b.toNat ≥ 128 := h1
          simp [this]

theorem trimNeg_sval : ∀ bs : Bytes, sval (trimNeg bs) = sval bs
  | [] => rfl
  | [_] => rfl
  | a :: b :: rest => by
      unfold trimNeg
      split
      · rfl
      · split
        · rfl
        · rename_i h0 h1
          rw [trimNeg_sval (b :: rest)]
          have h0' : a.toNat = 255 := by omega
          have h1' : b.toNat ≥ 128 := by omega
          simp only [sval, List.foldl_cons, h0']
          have e : ((255 : Nat) : Int) - 256 = -1 := by omega
          have e2 : (-1 : Int) * 256 + (b.toNat : Int) = (b.toNat : Int) - 256 := by omega
          simp only [h1', ge_iff_le, if_true, Nat.reduceLeDiff, e, e2]

theorem sval_be32 (i : Int) (h1 : -2147483648 ≤ i) (h2 : i < 2147483648) :
    sval (be32 (i % 4294967296).toNat) = i := by
  have hx : ((i % 4294967296).toNat : Int) = i % 4294967296 := by omega
  generalize (i % 4294967296).toNat = x at hx
  simp only [be32, sval, List.foldl_cons, List.foldl_nil, UInt8.toNat_ofNat', Nat.reducePow]
  split <;> omega

/-! ## bit strings -/

theorem unpack_pack (b0 b1 b2 b3 b4 b5 b6 b7 : Bool) :
    unpackOctet (packOctet b0 b1 b2 b3 b4 b5 b6 b7) = [b0, b1, b2, b3, b4, b5, b6, b7] := by
  cases b0 <;> cases b1 <;> cases b2 <;> cases b3 <;> cases b4 <;> cases b5 <;> cases b6 <;> cases b7 <;> decide

theorem packBits_unpack : ∀ (l : List Bool), l.length % 8 = 0 →
    ∃ body, packBits l = some body ∧ unpackBits body = l ∧ body.length * 8 = l.length
  | [], _ => ⟨[], rfl, rfl, rfl⟩
  | b0 :: b1 :: b2 :: b3 :: b4 :: b5 :: b6 :: b7 :: rest, h => by
      have hr : rest.length % 8 = 0 := by simp at h; omega
      obtain ⟨body, h1, h2, h3⟩ := packBits_unpack rest hr
      refine ⟨packOctet b0 b1 b2 b3 b4 b5 b6 b7 :: body, ?_, ?_, ?_⟩
      · simp [packBits, h1]
      · simp only [unpackBits, unpack_pack, h2]; rfl
      · simp; omega
  | [_], h => by simp at h
  | [_, _], h => by simp at h
  | [_, _, _], h => by simp at h
  | [_, _, _, _], h => by simp at h
  | [_, _, _, _, _], h => by simp at h
  | [_, _, _, _, _, _], h => by simp at h
  | [_, _, _, _, _, _, _], h => by simp at h

theorem unusedBits_lt (n : Nat) : unusedBits n < 8 ∧ (n + unusedBits n) % 8 = 0 := by
  unfold unusedBits; split <;> omega

theorem bits_roundtrip_data (bs : List Bool) :
    ∃ body, encodeBitsData bs = .ok (UInt8.ofNat (unusedBits bs.length) :: body) ∧
      unpackBits body = bs ++ List.replicate (unusedBits bs.length) false ∧
      body.length * 8 = bs.length + unusedBits bs.length ∧
      decodeBitsData (UInt8.ofNat (unusedBits bs.length) :: body) = .ok bs := by
  obtain ⟨hu, hm⟩ := unusedBits_lt bs.length
  have hlen : (bs ++ List.replicate (unusedBits bs.length) false).length % 8 = 0 := by
    simp; exact hm
  obtain ⟨body, h1, h2, h3⟩ := packBits_unpack _ hlen
  refine ⟨body, ?_, h2, ?_, ?_⟩
  · simp [encodeBitsData, h1]
  · simpa using h3
  · have hto : (UInt8.ofNat (unusedBits bs.length)).toNat = unusedBits bs.length := by
      simp; omega
    simp only [decodeBitsData, hto, h2]
    split
    · simp
    · rename_i h0
      have : unusedBits bs.length = 0 := by omega
      simp [this]

/-! ## more trimming facts -/

theorem trimPos_ne_nil : ∀ bs : Bytes, bs ≠ [] → trimPos bs ≠ []
  | [], h => absurd rfl h
  | [_], _ => by simp [trimPos]
  | a :: b :: rest, _ => by
      unfold trimPos
      split
      · simp
      · split
        · simp
        · exact trimPos_ne_nil (b :: rest) (by simp)

theorem trimNeg_ne_nil : ∀ bs : Bytes, bs ≠ [] → trimNeg bs ≠ []
  | [], h => absurd rfl h
  | [_], _ => by simp [trimNeg]
  | a :: b :: rest, _ => by
      unfold trimNeg
      split
      · simp
      · split
        · simp
        · exact trimNeg_ne_nil (b :: rest) (by simp)

theorem trimPos_length_le : ∀ bs : Bytes, (trimPos bs).length ≤ bs.length
  | [] => by simp [trimPos]
  | [_] => by simp [trimPos]
  | a :: b :: rest => by
      unfold trimPos
      split
      · simp
      · split
        · simp
        · have := trimPos_length_le (b :: rest); simp at this ⊢; omega

theorem trimNeg_length_le : ∀ bs : Bytes, (trimNeg bs).length ≤ bs.length
  | [] => by simp [trimNeg]
  | [_] => by simp [trimNeg]
  | a :: b :: rest => by
      unfold trimNeg
      split
      · simp
      · split
        · simp
        · have := trimNeg_length_le (b :: rest); simp at this ⊢; omega

/-- what survives `trimPos`: no redundant leading 0x00 -/
theorem trimPos_head : ∀ (bs : Bytes) (a b : UInt8) (rest : Bytes),
    trimPos bs = a :: b :: rest → ¬ (a.toNat = 0 ∧ b.toNat < 128)
  | [], _, _, _, h => by simp [trimPos] at h
  | [_], _, _, _, h => by simp [trimPos] at h
  | x :: y :: r, a, b, rest, h => by
      unfold trimPos at h
      split at h
      · rename_i hx
        simp only [List.cons.injEq] at h
        obtain ⟨rfl, rfl, _⟩ := h
        omega
      · split at h
        · rename_i hx hy
          simp only [List.cons.injEq] at h
          obtain ⟨rfl, rfl, _⟩ := h
          omega
        · exact trimPos_head (y :: r) a b rest h

/-- what survives `trimNeg`: no redundant leading 0xFF -/
theorem trimNeg_head : ∀ (bs : Bytes) (a b : UInt8) (rest : Bytes),
    trimNeg bs = a :: b :: rest → ¬ (a.toNat = 255 ∧ b.toNat ≥ 128)
  | [], _, _, _, h => by simp [trimNeg] at h
  | [_], _, _, _, h => by simp [trimNeg] at h
  | x :: y :: r, a, b, rest, h => by
      unfold trimNeg at h
      split at h
      · rename_i hx
        simp only [List.cons.injEq] at h
        obtain ⟨rfl, rfl, _⟩ := h
        omega
      · split at h
        · rename_i hx hy
          simp only [List.cons.injEq] at h
          obtain ⟨rfl, rfl, _⟩ := h
          omega
        · exact trimNeg_head (y :: r) a b rest h

/-- the sign octet stays a sign octet: `trimPos` keeps the head below 128 -/
theorem trimPos_sign : ∀ (bs : Bytes) (x : UInt8) (r : Bytes), bs = x :: r → x.toNat < 128 →
    ∃ a rest, trimPos bs = a :: rest ∧ a.toNat < 128
  | [], _, _, h, _ => by simp at h
  | [y], x, r, h, hx => by
      simp only [List.cons.injEq] at h; obtain ⟨rfl, _⟩ := h
      exact ⟨y, [], rfl, hx⟩
  | y :: z :: r', x, r, h, hx => by
      simp only [List.cons.injEq] at h; obtain ⟨rfl, _⟩ := h
      unfold trimPos
      split
      · exact ⟨y, z :: r', rfl, hx⟩
      · split
        · exact ⟨y, z :: r', rfl, hx⟩
        · rename_i h0 h1
          exact trimPos_sign (z :: r') z r' rfl (by omega)

theorem trimNeg_sign : ∀ (bs : Bytes) (x : UInt8) (r : Bytes), bs = x :: r → x.toNat ≥ 128 →
    ∃ a rest, trimNeg bs = a :: rest ∧ a.toNat ≥ 128
  | [], _, _, h, _ => by simp at h
  | [y], x, r, h, hx => by
      simp only [List.cons.injEq] at h; obtain ⟨rfl, _⟩ := h
      exact ⟨y, [], rfl, hx⟩
  | y :: z :: r', x, r, h, hx => by
      simp only [List.cons.injEq] at h; obtain ⟨rfl, _⟩ := h
      unfold trimNeg
      split
      · exact ⟨y, z :: r', rfl, hx⟩
      · split
        · exact ⟨y, z :: r', rfl, hx⟩
        · rename_i h0 h1
          exact trimNeg_sign (z :: r') z r' rfl (by omega)

theorem decodeIntegerData_sval (bs : Bytes) (h : bs ≠ []) : decodeIntegerData bs = .ok (sval bs) := by
  cases bs with
  | nil => exact absurd rfl h
  | cons b bs => rfl

/-! ## validity: the values each class can represent -/

/-- the representable values.  Unsigned/Enumerated: `struct.pack('>L')`;
    Integer: `struct.pack('>i')`; CharacterString: the encoding octet; Date/Time:
    `bytearray(tuple)`; ObjectIdentifier: 10-bit type, 22-bit instance.  Every
    bit pattern is a Real/Double; every octet string, bit list, Boolean, Null. -/
def Valid : PrimVal → Prop
  | .unsigned n => n < 4294967296
  | .integer i => -2147483648 ≤ i ∧ i < 2147483648
  | .charstr enc _ => enc ≤ 255
  | .enum n => n < 4294967296
  | .date y m d w => (0 ≤ y ∧ y ≤ 255) ∧ (0 ≤ m ∧ m ≤ 255) ∧ (0 ≤ d ∧ d ≤ 255) ∧ (0 ≤ w ∧ w ≤ 255)
  | .time h m s c => (0 ≤ h ∧ h ≤ 255) ∧ (0 ≤ m ∧ m ≤ 255) ∧ (0 ≤ s ∧ s ≤ 255) ∧ (0 ≤ c ∧ c ≤ 255)
  | .oid ty inst => (0 ≤ ty ∧ ty ≤ 1023) ∧ (0 ≤ inst ∧ inst ≤ 4194303)
  | _ => True

instance (v : PrimVal) : Decidable (Valid v) := by
  cases v <;> unfold Valid <;> exact inferInstance

/-! ## per-type round trips -/

theorem encodeUnsignedData_ok (n : Nat) (h : n < 4294967296) :
    encodeUnsignedData n = .ok (trimZeros (be32 n)) := by
  have : ¬ n ≥ 4294967296 := by omega
  simp [encodeUnsignedData, this]

theorem encodeIntegerData_ok (i : Int) (h1 : -2147483648 ≤ i) (h2 : i < 2147483648) :
    encodeIntegerData i = .ok (if i < 0 then trimNeg (be32 (i % 4294967296).toNat)
                                else trimPos (be32 (i % 4294967296).toNat)) := by
  have : ¬ (i < -2147483648 ∨ i ≥ 2147483648) := by omega
  simp [encodeIntegerData, this]

theorem integer_data_roundtrip (i : Int) (h1 : -2147483648 ≤ i) (h2 : i < 2147483648) :
    ∃ d, encodeIntegerData i = .ok d ∧ d ≠ [] ∧ d.length ≤ 4 ∧ decodeIntegerData d = .ok i := by
  rw [encodeIntegerData_ok i h1 h2]
  have hne : be32 (i % 4294967296).toNat ≠ [] := by simp [be32]
  split
  · refine ⟨_, rfl, trimNeg_ne_nil _ hne, ?_, ?_⟩
    · exact Nat.le_trans (trimNeg_length_le _) (by simp [be32])
    · rw [decodeIntegerData_sval _ (trimNeg_ne_nil _ hne), trimNeg_sval, sval_be32 i h1 h2]
  · refine ⟨_, rfl, trimPos_ne_nil _ hne, ?_, ?_⟩
    · exact Nat.le_trans (trimPos_length_le _) (by simp [be32])
    · rw [decodeIntegerData_sval _ (trimPos_ne_nil _ hne), trimPos_sval, sval_be32 i h1 h2]

theorem beVal_be64 (n : Nat) (h : n < 18446744073709551616) : beVal (be64 n) = n := by
  simp [beVal, be64, be32]; omega

theorem quad_roundtrip (a b c d : Int) (ha : 0 ≤ a ∧ a ≤ 255) (hb : 0 ≤ b ∧ b ≤ 255)
    (hc : 0 ≤ c ∧ c ≤ 255) (hd : 0 ≤ d ∧ d ≤ 255) :
    ∃ bs, encodeQuad a b c d = .ok bs ∧ bs.length = 4 ∧ decodeQuad bs = .ok (a, b, c, d) := by
  have : ¬ (a < 0 ∨ a > 255 ∨ b < 0 ∨ b > 255 ∨ c < 0 ∨ c > 255 ∨ d < 0 ∨ d > 255) := by omega
  refine ⟨_, by simp only [encodeQuad, this, if_false]; rfl, rfl, ?_⟩
  simp only [decodeQuad, UInt8.toNat_ofNat', Nat.reducePow, Except.ok.injEq, Prod.mk.injEq]
  omega

theorem oid_roundtrip (ty inst : Int) (ht : 0 ≤ ty ∧ ty ≤ 1023) (hi : 0 ≤ inst ∧ inst ≤ 4194303) :
    ∃ w, oidWord ty inst = .ok w ∧ w < 4294967296 ∧ (w : Int) = ty * 4194304 + inst ∧
      oidOfWord w = (ty, inst) := by
  have h1 : ¬ (inst < 0 ∨ inst > 4194303) := by omega
  have h2 : ¬ (ty * 4194304 + inst < 0 ∨ ty * 4194304 + inst ≥ 4294967296) := by omega
  refine ⟨(ty * 4194304 + inst).toNat, by simp [oidWord, h1, h2], by omega, by omega, ?_⟩
  simp only [oidOfWord, Prod.mk.injEq, Int.ofNat_eq_natCast]
  omega

/-! ## prim_roundtrip -/

/-- **prim_roundtrip** — for every representable value of every primitive
    type: the encoder succeeds and the decoder of that type returns the value. -/
theorem prim_roundtrip (v : PrimVal) (h : Valid v) :
    ∃ t, encodePrim v = .ok t ∧ decodePrim (tyOf v) t = .ok v := by
  cases v with
  | null => exact ⟨_, rfl, by simp [decodePrim, tyOf, checkApp, appData, PrimTy.appTag]⟩
  | bool b =>
    refine ⟨_, rfl, ?_⟩
    cases b <;> simp [decodePrim, tyOf, checkApp, PrimTy.appTag, bitNat]
  | unsigned n =>
    have h : n < 4294967296 := h
    refine ⟨appData 2 (trimZeros (be32 n)), by simp [encodePrim, encodeUnsignedData_ok n h, Except.map], ?_⟩
    have hl := trimZeros_length_pos (be32 n) (by simp [be32])
    have hne : (trimZeros (be32 n)).length ≠ 0 := by omega
    simp [decodePrim, tyOf, checkApp, appData, PrimTy.appTag, hne, trimZeros_beVal, beVal_be32 n h]
  | integer i =>
    obtain ⟨h1, h2⟩ : -2147483648 ≤ i ∧ i < 2147483648 := h
    obtain ⟨d, hd, _, _, hdec⟩ := integer_data_roundtrip i h1 h2
    refine ⟨appData 3 d, by simp [encodePrim, hd, Except.map], ?_⟩
    simp [decodePrim, tyOf, checkApp, appData, PrimTy.appTag, hdec, Except.map]
  | real bits =>
    refine ⟨_, rfl, ?_⟩
    have := bits.toNat_lt
    simp [decodePrim, tyOf, checkApp, appData, PrimTy.appTag, be32_length,
      beVal_be32 bits.toNat (by simpa using this)]
  | double bits =>
    refine ⟨_, rfl, ?_⟩
    have := bits.toNat_lt
    have hl : (be64 bits.toNat).length = 8 := rfl
    simp [decodePrim, tyOf, checkApp, appData, PrimTy.appTag, hl,
      beVal_be64 bits.toNat (by simpa using this)]
  | octets bs => exact ⟨_, rfl, by simp [decodePrim, tyOf, checkApp, appData, PrimTy.appTag]⟩
  | charstr enc bs =>
    have h : enc ≤ 255 := h
    have h' : ¬ enc > 255 := by omega
    refine ⟨appData 7 (UInt8.ofNat enc :: bs), by simp [encodePrim, h'], ?_⟩
    simp [decodePrim, tyOf, checkApp, appData, PrimTy.appTag]; omega
  | bits bs =>
    obtain ⟨body, h1, _, _, h4⟩ := bits_roundtrip_data bs
    refine ⟨appData 8 (UInt8.ofNat (unusedBits bs.length) :: body), by simp [encodePrim, h1, Except.map], ?_⟩
    simp [decodePrim, tyOf, checkApp, appData, PrimTy.appTag, h4, Except.map]
  | enum n =>
    have h : n < 4294967296 := h
    refine ⟨appData 9 (trimZeros (be32 n)), by simp [encodePrim, encodeUnsignedData_ok n h, Except.map], ?_⟩
    have hl := trimZeros_length_pos (be32 n) (by simp [be32])
    have hne : (trimZeros (be32 n)).length ≠ 0 := by omega
    simp [decodePrim, tyOf, checkApp, appData, PrimTy.appTag, hne, trimZeros_beVal, beVal_be32 n h]
  | date y m d w =>
    obtain ⟨hy, hm, hd, hw⟩ := h
    obtain ⟨bs, h1, _, h3⟩ := quad_roundtrip y m d w hy hm hd hw
    refine ⟨appData 10 bs, by simp [encodePrim, h1, Except.map], ?_⟩
    simp [decodePrim, tyOf, checkApp, appData, PrimTy.appTag, h3, Except.map]
  | time hh m s c =>
    obtain ⟨hy, hm, hd, hw⟩ := h
    obtain ⟨bs, h1, _, h3⟩ := quad_roundtrip hh m s c hy hm hd hw
    refine ⟨appData 11 bs, by simp [encodePrim, h1, Except.map], ?_⟩
    simp [decodePrim, tyOf, checkApp, appData, PrimTy.appTag, h3, Except.map]
  | oid ty inst =>
    obtain ⟨ht, hi⟩ := h
    obtain ⟨w, h1, h2, _, h4⟩ := oid_roundtrip ty inst ht hi
    refine ⟨appData 12 (be32 w), by simp [encodePrim, h1, Except.map], ?_⟩
    simp [decodePrim, tyOf, checkApp, appData, PrimTy.appTag, be32_length, beVal_be32 w h2, h4]

/-! ## refusal: nothing is ever silently altered -/

/-- **prim_refuses** — a value that cannot be represented is refused: the
    encoder returns an error and emits no tag at all. -/
theorem prim_refuses (v : PrimVal) (h : ¬ Valid v) : ∃ e, encodePrim v = .error e := by
  cases v with
  | null => exact absurd trivial h
  | bool b => exact absurd trivial h
  | real b => exact absurd trivial h
  | double b => exact absurd trivial h
  | octets b => exact absurd trivial h
  | bits b => exact absurd trivial h
  | unsigned n =>
    have h : ¬ n < 4294967296 := h
    have : n ≥ 4294967296 := by omega
    exact ⟨.valueRange, by simp [encodePrim, encodeUnsignedData, this, Except.map]⟩
  | enum n =>
    have h : ¬ n < 4294967296 := h
    have : n ≥ 4294967296 := by omega
    exact ⟨.valueRange, by simp [encodePrim, encodeUnsignedData, this, Except.map]⟩
  | integer i =>
    have h : ¬ (-2147483648 ≤ i ∧ i < 2147483648) := h
    have : i < -2147483648 ∨ i ≥ 2147483648 := by omega
    exact ⟨.valueRange, by simp [encodePrim, encodeIntegerData, this, Except.map]⟩
  | charstr enc bs =>
    have h : ¬ enc ≤ 255 := h
    have : enc > 255 := by omega
    exact ⟨.valueRange, by simp [encodePrim, this]⟩
  | date y m d w =>
    have h : ¬ ((0 ≤ y ∧ y ≤ 255) ∧ (0 ≤ m ∧ m ≤ 255) ∧ (0 ≤ d ∧ d ≤ 255) ∧ (0 ≤ w ∧ w ≤ 255)) := h
    have : y < 0 ∨ y > 255 ∨ m < 0 ∨ m > 255 ∨ d < 0 ∨ d > 255 ∨ w < 0 ∨ w > 255 := by omega
    exact ⟨.valueRange, by simp only [encodePrim, encodeQuad, this, if_true, Except.map]⟩
  | time y m d w =>
    have h : ¬ ((0 ≤ y ∧ y ≤ 255) ∧ (0 ≤ m ∧ m ≤ 255) ∧ (0 ≤ d ∧ d ≤ 255) ∧ (0 ≤ w ∧ w ≤ 255)) := h
    have : y < 0 ∨ y > 255 ∨ m < 0 ∨ m > 255 ∨ d < 0 ∨ d > 255 ∨ w < 0 ∨ w > 255 := by omega
    exact ⟨.valueRange, by simp only [encodePrim, encodeQuad, this, if_true, Except.map]⟩
  | oid ty inst =>
    have h : ¬ ((0 ≤ ty ∧ ty ≤ 1023) ∧ (0 ≤ inst ∧ inst ≤ 4194303)) := h
    refine ⟨.valueRange, ?_⟩
    simp only [encodePrim, oidWord]
    by_cases h1 : inst < 0 ∨ inst > 4194303
    · simp [h1, Except.map]
    · have h2 : ty * 4194304 + inst < 0 ∨ ty * 4194304 + inst ≥ 4294967296 := by omega
      simp [h1, h2, Except.map]

/-- **prim_never_alters** — whatever the encoder emits decodes to the value it
    was given (no hypothesis on the value: an unrepresentable one yields no tag). -/
theorem prim_never_alters (v : PrimVal) (t : Tag) (h : encodePrim v = .ok t) :
    decodePrim (tyOf v) t = .ok v := by
  by_cases hv : Valid v
  · obtain ⟨t', h1, h2⟩ := prim_roundtrip v hv
    rw [h] at h1
    cases h1
    exact h2
  · obtain ⟨e, he⟩ := prim_refuses v hv
    rw [h] at he
    cases he

/-- the encoder succeeds exactly on the representable values -/
theorem encodePrim_ok_iff (v : PrimVal) : (∃ t, encodePrim v = .ok t) ↔ Valid v := by
  constructor
  · intro ⟨t, ht⟩
    apply Classical.byContradiction
    intro hv
    obtain ⟨e, he⟩ := prim_refuses v hv
    rw [ht] at he; cases he
  · intro hv
    obtain ⟨t, h1, _⟩ := prim_roundtrip v hv
    exact ⟨t, h1⟩

/-! ## shape of the emitted tag; application ↔ context -/

theorem map_ok {α β} {f : α → β} {x : Except Err α} {t : β} (h : Except.map f x = .ok t) :
    ∃ d, x = .ok d ∧ t = f d := by
  cases x with
  | error e => simp [Except.map] at h
  | ok d => simp only [Except.map, Except.ok.injEq] at h; exact ⟨d, rfl, h.symm⟩

/-- every emitted tag is an application tag with the class's tag number; the
    Boolean carries its value (0/1) in the LVT and has no data; everything else
    has LVT = number of data octets -/
theorem encodePrim_shape (v : PrimVal) (t : Tag) (h : encodePrim v = .ok t) :
    t.cls = .app ∧ t.num = (tyOf v).appTag ∧
    (if t.num = 1 then t.data = [] ∧ t.lvt ≤ 1 else t.lvt = t.data.length) := by
  cases v with
  | null => simp only [encodePrim, Except.ok.injEq] at h; subst h; simp [appData, tyOf, PrimTy.appTag]
  | bool b =>
    simp only [encodePrim, Except.ok.injEq] at h; subst h
    cases b <;> simp [tyOf, PrimTy.appTag, bitNat]
  | unsigned n => obtain ⟨d, _, rfl⟩ := map_ok h; simp [appData, tyOf, PrimTy.appTag]
  | integer i => obtain ⟨d, _, rfl⟩ := map_ok h; simp [appData, tyOf, PrimTy.appTag]
  | real b => simp only [encodePrim, Except.ok.injEq] at h; subst h; simp [appData, tyOf, PrimTy.appTag]
  | double b => simp only [encodePrim, Except.ok.injEq] at h; subst h; simp [appData, tyOf, PrimTy.appTag]
  | octets b => simp only [encodePrim, Except.ok.injEq] at h; subst h; simp [appData, tyOf, PrimTy.appTag]
  | charstr enc bs =>
    simp only [encodePrim] at h
    split at h
    · cases h
    · simp only [Except.ok.injEq] at h; subst h; simp [appData, tyOf, PrimTy.appTag]
  | bits b => obtain ⟨d, _, rfl⟩ := map_ok h; simp [appData, tyOf, PrimTy.appTag]
  | enum n => obtain ⟨d, _, rfl⟩ := map_ok h; simp [appData, tyOf, PrimTy.appTag]
  | date y m d w => obtain ⟨d, _, rfl⟩ := map_ok h; simp [appData, tyOf, PrimTy.appTag]
  | time y m d w => obtain ⟨d, _, rfl⟩ := map_ok h; simp [appData, tyOf, PrimTy.appTag]
  | oid ty inst => obtain ⟨d, _, rfl⟩ := map_ok h; simp [appData, tyOf, PrimTy.appTag]

/-- **ctx_app_inverse** — `context_to_app(app_to_context(t))` gives back the
    application tag, for every tag an encoder emits and every context number;
    the intermediate context tag is well-formed in the sense of C02.  This
    covers the Boolean special case (value moves from the LVT into one data
    octet and back). -/
theorem ctx_app_inverse (t : Tag) (c : Nat) (hc : c ≤ 255)
    (hcls : t.cls = .app) (hnum : t.num ≤ 255)
    (hshape : if t.num = 1 then t.data = [] ∧ t.lvt ≤ 1 else t.lvt = t.data.length)
    (hlen : t.data.length < 4294967296) :
    ∃ t', appToContext c t = .ok t' ∧ C02.WF t' ∧ t'.cls = .ctx ∧ t'.num = c ∧
      contextToApp t.num t' = .ok t := by
  rcases t with ⟨cls, num, lvt, data⟩
  simp only at hcls hnum hshape hlen
  subst hcls
  by_cases h1 : num = 1
  · subst h1
    simp only [if_true] at hshape
    obtain ⟨rfl, hl⟩ := hshape
    have hl' : ¬ lvt > 255 := by omega
    refine ⟨{ cls := .ctx, num := c, lvt := 1, data := [UInt8.ofNat lvt] }, ?_, ?_, rfl, rfl, ?_⟩
    · simp [appToContext, hl']
    · simp [C02.WF]; omega
    · have : lvt % 256 = lvt := by omega
      simp [contextToApp, this]
  · simp only [h1, if_false] at hshape
    subst hshape
    refine ⟨{ cls := .ctx, num := c, lvt := data.length, data := data }, ?_, ?_, rfl, rfl, ?_⟩
    · simp [appToContext, h1]
    · simp [C02.WF]; omega
    · simp [contextToApp, h1]

/-! ## on the wire -/

/-- the emitted data fits the 32-bit length field of a tag header (what
    `Tag.encode` can express; C02's assumption).  Only OctetString,
    CharacterString and BitString values of ≥ 4 GiB fail it. -/
def Fits (v : PrimVal) : Prop :=
  match encodePrim v with
  | .ok t => t.data.length < 4294967296
  | .error _ => True

instance (v : PrimVal) : Decidable (Fits v) := by
  unfold Fits; split <;> exact inferInstance

/-- the tagging modes the property quantifies over -/
def ModeOK : Mode → Prop
  | .app => True
  | .ctx c => c ≤ 255

instance (m : Mode) : Decidable (ModeOK m) := by
  cases m <;> unfold ModeOK <;> exact inferInstance

/-- **prim_wire_roundtrip** — both tagging modes, every context number (the
    property asks 0..254; proved up to 255), any octets following: the encoder
    output is parsed back as exactly one tag, leaving the rest untouched, and
    decodes to the same value. -/
theorem prim_wire_roundtrip (v : PrimVal) (hv : Valid v) (hf : Fits v) (m : Mode) (hm : ModeOK m)
    (rest : Bytes) :
    ∃ bs, wireEncode m v = .ok bs ∧ wireDecode (tyOf v) m (bs ++ rest) = .ok (v, rest) := by
  obtain ⟨t, henc, hdec⟩ := prim_roundtrip v hv
  obtain ⟨hcls, hnum, hshape⟩ := encodePrim_shape v t henc
  have hlen : t.data.length < 4294967296 := by simpa [Fits, henc] using hf
  have hnum12 : t.num ≤ 12 := by rw [hnum]; cases (tyOf v) <;> simp [PrimTy.appTag]
  cases m with
  | app =>
    have hwf : C02.WF t := by
      refine ⟨by omega, ?_, ?_⟩
      · by_cases h1 : t.num = 1
        · simp only [h1, if_true] at hshape; omega
        · simp only [h1, if_false] at hshape; omega
      · simp only [hcls]
        by_cases h1 : t.num = 1
        · simp only [h1, if_true] at hshape ⊢; exact hshape.1
        · simp only [h1, if_false] at hshape ⊢; exact hshape
    refine ⟨serializeTag t, by simp [wireEncode, henc], ?_⟩
    simp [wireDecode, C02.tag_roundtrip t hwf rest, hdec, Except.map]
  | ctx c =>
    have hc : c ≤ 255 := hm
    obtain ⟨t', h1, hwf, hcls', hnum', h2⟩ :=
      ctx_app_inverse t c hc hcls (by omega) hshape hlen
    refine ⟨serializeTag t', by simp [wireEncode, henc, h1], ?_⟩
    rw [hnum] at h2
    simp [wireDecode, C02.tag_roundtrip t' hwf rest, hcls', hnum', h2, hdec, Except.map]

end BacVerif.C01
