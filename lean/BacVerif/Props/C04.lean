/- C04 — placeholder while the harness is brought up (replaced by the theorems) -/
import BacVerif.Props.C11
import BacVerif.Model.Iocb
namespace BacVerif.C04
theorem placeholder : True := trivial
end BacVerif.C04
