/-
  C04 — A confirmed request ends in exactly one outcome, in bounded time, no residue.

  Property text.  "Every confirmed request an application submits - directly
  or through an I/O control block - is answered to that application exactly
  once with an acknowledgement, error, reject or abort (an abort being
  generated locally when the peer stays silent through all retries), within a
  time bounded by the configured timeouts and retry count, whatever the
  network loses, duplicates, delays or reorders.  Once the outcome has been
  delivered the stack holds no transaction, timer or queue entry for it and
  emits no further packets for it."

  Formalisation.  Model: BacVerif.Model.Tsm (`step : Cfg → Sap → Event → Sap ×
  List Out`, proved to be the code by lockstep).  The network is adversarial:
  the theorems quantify over ALL event sequences, and a `frame` event carries
  any header from any peer — loss (the event does not happen), duplication
  (twice), delay and reordering (later, in any order) are special cases.
  k = (peer, invoke ID) names a request; a *generation* of k is the stretch
  from a `request` event that obtains the key k to the next such event.

  "answered … exactly once" = at most once, always + once under eventual silence
    one_outcome            a generation of k contains AT MOST ONE `confirm`
                           for k, whatever happens (any events, unbounded)
    at_most_one            … as the invariant  confirms(k) + [k listed] ≤ [k listed before]
    confirm_iff_removed    at the boundary state machines → ASAP (`smapStep`)
                           a confirmation for k is handed up in a step IFF the
                           client transaction k leaves the list in that very
                           step, and then exactly once (equality, every event)
    confirm_implies_removed  at the boundary ASAP → application (`step`) the
                           same with "only if": the ASAP adds nothing; it can
                           drop a ComplexAck whose service has no decoder
                           (`asap_delivers` says exactly when it passes one on)
    smap_exact / app_le_smap   the two boundaries over whole runs
  "once the outcome has been delivered the stack holds no transaction, timer …
   and emits no further packets for it"
    no_residue             after a step that confirms k no client transaction
                           k is listed (timers are fields of listed
                           transactions: none is armed for it, `timeout_dead`)
    quiet_after_done       while no client transaction k is listed: a PDU the
                           demultiplexer routes to the client side for k and an
                           expiry event for k change nothing and emit nothing
                           (C11.late_ignored, `timeout_dead`); no event other
                           than a new request for k confirms k or lists k
  "within a time bounded by the configured timeouts and retry count"
    bounded_under_silence  from ANY state satisfying the invariant, while only
                           timers fire / time passes: rank(k) + (expiries of k's
                           own timer so far) never exceeds the initial rank;
                           rank ≤ 2·retries + 1 (`expiry_bound`), so after that
                           many expiries k is gone (`silence_terminates`) — and
                           it goes with exactly one locally generated Abort
                           (`exactly_one_under_silence`)
    silence_deadline       with a scheduler that never lets a tick pass k's
                           deadline, k cannot be listed later than
                           timer + (rank − 1)·T,  T = max(apduTimeout, 4·segmentTimeout)
    gone_after_deadline    … hence once the clock has passed that deadline k is gone
    arrival_extends_once   a frame arrival leaves k's timer or re-arms it to at
                           most now + T and touches no other timer;
                           `time_bound`: ≤ (2·retries + 1)·T after the last arrival
  combination
    exactly_one            a generation that ends in silence, k gone at the end:
                           at most one confirmation in all of it; if the
                           transaction is still pending when silence begins,
                           exactly one (the Abort); the state machines hand up
                           exactly one in any case
    exactly_one_in_bounded_time   … with "k gone" discharged by the clock
                           having passed the deadline (prompt scheduler)
    app_exact / answered_exactly_once   the counting equation with EQUALITY at the
                           application boundary when the confirmations produced
                           are ones the ASAP forwards (`allPass`): an accepted
                           request, ANY events, silence until k is gone ⇒
                           EXACTLY ONE confirmation reaches the application

  Deviation from DESIGN §7 (found while proving): the bound "retries + 1
  expiries" holds for unsegmented requests and for a request still being
  transmitted; a SEGMENTED request whose segments were all acknowledged and
  whose reply never comes survives retries + 2 expiries (the first one restarts
  the whole request with segmentRetryCount = 0) — example `tight_segmented`.
  The general bound proved is 2·retries + 1 (robust against device-information
  changes between retries).

  Hypotheses (explicit, decidable): `cfg.TimeoutsPos`; for the liveness part
  `noRaiseDue` (no exception left the access point in the steps in which k's own
  timer fired) — DISCHARGED by the configuration: `noRaiseDue_of_cfg` proves it
  from `cfgOk cfg` (local maxApduLengthAccepted ≥ 50 and maxSegmentsAccepted ≠ 1:
  exactly the values `encode_max_apdu_length_accepted` / `encode_max_segments_
  accepted` accept) in every reachable state, via the invariant `LiveInv`
  (Lemmas/TsmC04Live, TsmC04LiveStep: what a listed client transaction remembers
  lets it rebuild its segments).  `bounded_under_silence_cfg`,
  `gone_after_deadline_cfg`, `exactly_one_in_bounded_time_cfg` carry no
  trace-level hypothesis about exceptions.  Without `cfgOk` the hypothesis is
  needed: with maxSegmentsAccepted = 1 every transmission raises ValueError and
  `await_confirmation_timeout` skips `self.retryCount = saveCount`, the counter
  restarts at 0 — no termination (last Tsm example).

  IOCB layer ("directly or through an I/O control block", "no … queue entry"):
  BacVerif.Model.Iocb, namespace BacVerif.C04.Io at the end of this file —
    complete_once / callbacks_exact   over ANY sequence of request_io, application
                           aborts, confirmations of any class from any address
                           and deferred calls: callbacks of an IOCB fired =
                           [the IOCB is finished]; never twice, never early
    finished_is_final / abort_after_done_noop   a finished IOCB keeps state,
                           response, error for ever; no second callback
    queue_never_stuck      the global invariant, over ANY operation sequence
                           INCLUDING operations issued from inside completion
                           callbacks (re-entrant request_io to the same / another
                           destination, aborts of other IOCBs): an idle queue
                           with IOCBs waiting always has its trigger pending;
                           serials of queue objects pairwise different
    queue_released         an ack-class confirmation for the active IOCB of its
                           source address, whatever the callback does
                           re-entrantly: trigger deferred, queue idle; the
                           address keeps the queue only if IOCBs wait in it,
                           otherwise it is forgotten (queue_empty_forgotten)
    queue_advances         the deferred trigger on an idle queue makes the head
                           of the waiting list active and sends it — only that
  Re-entrancy is modelled as the code does it: `IOCB.trigger()` runs the callback
  in the middle of complete_io / abort_io (final state set, IOCB off its queue,
  controller NOT yet released); every operation of the model is a function of
  "what a callback does" (`Cb`), all lemmas are proved for any callback
  behaviour that itself keeps the respective invariant (`CbKeeps`, `CbGood`).
  Known and NOT claimed (DESIGN §7 C11 "Noted"): `_app_complete` matches by
  address only — last example of the file.  Not claimed either: a callback that
  aborts the very IOCB it is called back for and then submits to the same
  destination (the outer complete_io clears the new active IOCB) — the rig's
  application never does (notes/C04.md).
-/
import BacVerif.Lemmas.TsmC04Silent
import BacVerif.Lemmas.TsmC04Pass
import BacVerif.Lemmas.TsmC04LiveStep
import BacVerif.Lemmas.IocbQueue
namespace BacVerif.C04
open BacVerif.Tsm
set_option linter.unusedSimpArgs false
set_option linter.unusedVariables false

variable {cfg : Cfg}

/-! ## runs -/

theorem run_nil (s : Sap) : run cfg s [] = (s, []) := rfl
theorem run_cons_fst (s : Sap) (e : Event) (es : List Event) :
    (run cfg s (e :: es)).1 = (run cfg (step cfg s e).1 es).1 := rfl
theorem run_cons_snd (s : Sap) (e : Event) (es : List Event) :
    (run cfg s (e :: es)).2 = (step cfg s e).2 ++ (run cfg (step cfg s e).1 es).2 := rfl

/-- the key a `request` event obtains (none for other events) -/
def reqKeyOf (s : Sap) : Event → Option Key
  | .request p _ _ ch => some (requestKey s p ch)
  | _ => none

/-- no event of the sequence is a request that obtains the key `k` -/
def noReqFor (cfg : Cfg) (k : Key) : Sap → List Event → Bool
  | _, [] => true
  | s, e :: es => (reqKeyOf s e != some k) && noReqFor cfg k (step cfg s e).1 es

theorem hreq_of {s : Sap} {e : Event} {k : Key} (h : (reqKeyOf s e != some k) = true) :
    ∀ p svc d ch, e = .request p svc d ch → requestKey s p ch ≠ k := by
  intro p svc d ch he hk
  subst he
  simp [reqKeyOf, hk] at h

/-! ## at most one outcome -/

/-- **at_most_one.**  Over ANY event sequence without a new request for `k`:
    confirmations for `k` delivered to the application + [k still listed]
    ≤ [k listed at the start].  In particular at most one confirmation, and
    none once it has been delivered or if nothing was pending. -/
theorem at_most_one (hpos : cfg.TimeoutsPos) (k : Key) : ∀ (es : List Event) {s : Sap}, Inv s →
    noReqFor cfg k s es = true →
    nConfFor k (run cfg s es).2 + liveC (run cfg s es).1 k ≤ liveC s k := by
  intro es
  induction es with
  | nil => intro s _ _; simp [run_nil]
  | cons e es ih =>
    intro s hinv hno
    simp only [noReqFor, Bool.and_eq_true] at hno
    have h1 := conf_step hpos hinv e k (hreq_of hno.1)
    have h2 := ih (C11.inv_step hpos hinv e) hno.2
    rw [run_cons_fst, run_cons_snd, nConfFor_append]
    omega

/-- **one_outcome.**  A generation of `k`: the `request` event that obtains
    (or is refused) the key `k`, followed by ANY events that are not a new
    request for `k` — at most one confirmation for `k` reaches the application. -/
theorem one_outcome (hpos : cfg.TimeoutsPos) {s : Sap} (hinv : Inv s) (peer : Peer) (service : Nat)
    (data : Bytes) (chosen : Option Nat) (k : Key) (es : List Event)
    (hno : noReqFor cfg k (step cfg s (.request peer service data chosen)).1 es = true) :
    nConfFor k (run cfg s (.request peer service data chosen :: es)).2 ≤ 1 := by
  have h1 := request_conf_step hpos hinv peer service data chosen k
  have h2 := at_most_one hpos k es (C11.inv_step hpos hinv _) hno
  rw [run_cons_snd, nConfFor_append]
  omega

/-- **confirm_iff_removed** (boundary state machines → ASAP, every event that
    is not a new request for `k`): `sap_response` is called for `k` in a step
    iff the client transaction `k` is listed before and not after that step —
    and never twice. -/
theorem confirm_iff_removed (hpos : cfg.TimeoutsPos) {s : Sap} (hinv : Inv s) (e : Event) (k : Key)
    (hreq : (reqKeyOf s e != some k) = true) :
    (nConfFor k (smapStep cfg s e).2 = 1 ↔ (liveC s k = 1 ∧ liveC (smapStep cfg s e).1 k = 0)) ∧
    nConfFor k (smapStep cfg s e).2 ≤ 1 := by
  have h := smap_conf_step hpos hinv e k (hreq_of hreq)
  have h1 := liveC_le_one s k
  have h2 := liveC_le_one (smapStep cfg s e).1 k
  constructor
  · constructor
    · intro hc; omega
    · intro ⟨ha, hb⟩; omega
  · omega

/-- … and for a `request` event that obtains `k`: it is answered at once
    (local abort: too long / segmentation not possible) or listed, not both -/
theorem request_confirm_or_listed (hpos : cfg.TimeoutsPos) {s : Sap} (hinv : Inv s) (peer : Peer)
    (service : Nat) (data : Bytes) (chosen : Option Nat) (k : Key) :
    nConfFor k (step cfg s (.request peer service data chosen)).2 +
      liveC (step cfg s (.request peer service data chosen)).1 k ≤ 1 :=
  request_conf_step hpos hinv peer service data chosen k

/-- **confirm_implies_removed** (boundary ASAP → application): a confirmation
    for `k` reaches the application only in the step in which the client
    transaction `k` leaves the list, and only once. -/
theorem confirm_implies_removed (hpos : cfg.TimeoutsPos) {s : Sap} (hinv : Inv s) (e : Event) (k : Key)
    (hreq : (reqKeyOf s e != some k) = true) (hc : 1 ≤ nConfFor k (step cfg s e).2) :
    nConfFor k (step cfg s e).2 = 1 ∧ liveC s k = 1 ∧ liveC (step cfg s e).1 k = 0 := by
  have h := conf_step hpos hinv e k (hreq_of hreq)
  have h1 := liveC_le_one s k
  omega

/-- what the ASAP does with one confirmation: types SimpleAck / Reject / Abort
    pass; an Error passes (decoded, or replaced by a bare `Error`); a
    ComplexAck passes decoded or replaced — unless its service has no decoder,
    then it is dropped.  Exactly one upward call in the first cases, state untouched. -/
def Delivers (cfg : Cfg) (a : Apdu) : Bool :=
  a.ty = 2 || a.ty = 6 || a.ty = 7 || a.ty = 5 ||
  (a.ty = 3 && cfg.ackDecode a.service a.data != .unknown)

def Out.isOutcome : Out → Bool
  | .confirm _ _ => true
  | .confirmAnon _ _ => true
  | _ => false

theorem asap_delivers (s : Sap) (p : Peer) (a : Apdu) :
    (asapUp cfg s (.confirm p a)).1 = s ∧
    ((asapUp cfg s (.confirm p a)).2.countP Out.isOutcome = if Delivers cfg a then 1 else 0) := by
  refine ⟨asapUp_noInd s rfl, ?_⟩
  unfold asapUp Delivers
  dsimp only
  by_cases h2 : a.ty = 2
  · simp [h2, Out.isOutcome]
  by_cases h6 : a.ty = 6
  · simp [h6, Out.isOutcome]
  by_cases h7 : a.ty = 7
  · simp [h7, Out.isOutcome]
  by_cases h3 : a.ty = 3
  · simp only [h3]
    cases hd : cfg.ackDecode a.service a.data <;> simp [hd, Out.isOutcome]
  by_cases h5 : a.ty = 5
  · simp only [h5]
    by_cases he : cfg.errDecode a.service a.data = true <;> simp [he, Out.isOutcome]
  · simp [h2, h6, h7, h3, h5]

/-- confirmations the state machines hand to the ASAP for `k` during a run -/
def smapConfs (cfg : Cfg) (k : Key) : Sap → List Event → Nat
  | _, [] => 0
  | s, e :: es => nConfFor k (smapStep cfg s e).2 + smapConfs cfg k (step cfg s e).1 es

/-- **smap_exact.**  Over any run without a new request for `k`, the state
    machines confirm `k` exactly when (and as often as) it leaves the list:
    confirmations + [still listed] = [listed at the start]. -/
theorem smap_exact (hpos : cfg.TimeoutsPos) (k : Key) : ∀ (es : List Event) {s : Sap}, Inv s →
    noReqFor cfg k s es = true →
    smapConfs cfg k s es + liveC (run cfg s es).1 k = liveC s k := by
  intro es
  induction es with
  | nil => intro s _ _; simp [smapConfs, run_nil]
  | cons e es ih =>
    intro s hinv hno
    simp only [noReqFor, Bool.and_eq_true] at hno
    have h1 := smap_conf_step hpos hinv e k (hreq_of hno.1)
    have h2 := ih (C11.inv_step hpos hinv e) hno.2
    have h3 : liveC (step cfg s e).1 k = liveC (smapStep cfg s e).1 k :=
      liveC_congr (asapPass_clients _ _) k
    simp only [smapConfs]
    rw [run_cons_fst]
    omega

/-- the application never sees more confirmations for `k` than the state machines produced -/
theorem app_le_smap (k : Key) : ∀ (es : List Event) (s : Sap),
    nConfFor k (run cfg s es).2 ≤ smapConfs cfg k s es := by
  intro es
  induction es with
  | nil => intro s; simp [smapConfs, run_nil]
  | cons e es ih =>
    intro s
    have h1 := asapPass_confFor (cfg := cfg) k (smapStep cfg s e).2 (smapStep cfg s e).1
    have h2 := ih (step cfg s e).1
    simp only [smapConfs]
    rw [run_cons_snd, nConfFor_append]
    rw [step_eq] at h2 ⊢
    omega

/-! ## no residue, quiet afterwards -/

/-- **no_residue.**  After ANY step that delivers a confirmation for `k` no
    client transaction with key `k` is listed.  (A transaction's timer is a
    field of the listed transaction: with the transaction the timer is gone —
    `timeout_dead`.) -/
theorem no_residue (hpos : cfg.TimeoutsPos) {s : Sap} (hinv : Inv s) (e : Event) (k : Key)
    (hc : 1 ≤ nConfFor k (step cfg s e).2) :
    ∀ t ∈ (step cfg s e).1.clients, t.key ≠ k := by
  apply findTxn_none.1
  apply liveC_zero.1
  by_cases hreq : (reqKeyOf s e != some k) = true
  · exact (confirm_implies_removed hpos hinv e k hreq hc).2.2
  · cases e with
    | request peer service data chosen =>
      have := request_conf_step hpos hinv peer service data chosen k
      omega
    | unconfirmed _ _ _ => simp [reqKeyOf] at hreq
    | response _ _ => simp [reqKeyOf] at hreq
    | frame _ _ => simp [reqKeyOf] at hreq
    | timeout _ _ _ => simp [reqKeyOf] at hreq
    | tick _ => simp [reqKeyOf] at hreq
    | learn _ _ => simp [reqKeyOf] at hreq
    | setDcc _ => simp [reqKeyOf] at hreq

/-- an expiry event for a key without client transaction: nothing happens -/
theorem timeout_dead {s : Sap} (k : Key) (h : ∀ t ∈ s.clients, t.key ≠ k) :
    step cfg s (.timeout false k.peer k.id) = (s, []) := by
  have hf := findTxn_none.2 h
  rw [C11.step_timeout]
  simp [smapTimeout, hf, asapPass]

/-- **quiet_after_done** (one step).  While no client transaction `k` is
    listed, an event that is not a new request for `k` delivers no confirmation
    for `k` and lists no transaction `k`. -/
theorem quiet_step (hpos : cfg.TimeoutsPos) {s : Sap} (hinv : Inv s) (e : Event) (k : Key)
    (hreq : (reqKeyOf s e != some k) = true) (hdead : ∀ t ∈ s.clients, t.key ≠ k) :
    nConfFor k (step cfg s e).2 = 0 ∧ ∀ t ∈ (step cfg s e).1.clients, t.key ≠ k := by
  have h := conf_step hpos hinv e k (hreq_of hreq)
  have h0 : liveC s k = 0 := liveC_zero.2 (findTxn_none.2 hdead)
  refine ⟨by omega, findTxn_none.1 (liveC_zero.1 (by omega))⟩

/-- **quiet_after_done.**  … and over any event sequence: after the outcome
    (or before any request) nothing is confirmed for `k` and nothing is listed
    for `k` until the application submits a new request that obtains `k`.
    PDUs the demultiplexer routes to the client side for `k` meanwhile are
    ignored altogether (`C11.late_ignored`: state unchanged, no output), as
    are expiry events for `k` (`timeout_dead`). -/
theorem quiet_after_done (hpos : cfg.TimeoutsPos) (k : Key) (es : List Event) {s : Sap} (hinv : Inv s)
    (hno : noReqFor cfg k s es = true) (hdead : ∀ t ∈ s.clients, t.key ≠ k) :
    nConfFor k (run cfg s es).2 = 0 ∧ ∀ t ∈ (run cfg s es).1.clients, t.key ≠ k := by
  have h := at_most_one hpos k es hinv hno
  have h0 : liveC s k = 0 := liveC_zero.2 (findTxn_none.2 hdead)
  refine ⟨by omega, findTxn_none.1 (liveC_zero.1 (by omega))⟩

/-- a late reply / segment ack / abort for `k` on the client side: ignored -/
theorem late_frame_ignored {s : Sap} (k : Key) (a : Apdu) (hid : a.invokeId = k.id)
    (hside : C11.clientSide a = true) (hdead : ∀ t ∈ s.clients, t.key ≠ k) :
    step cfg s (.frame k.peer a) = (s, []) :=
  C11.late_ignored k.peer a (Or.inl ⟨hside, by rw [hid]; exact hdead⟩)

/-! ## bounded under silence -/

/-- rank of the client transaction `k` (0 when none is listed) -/
def mu (cfg : Cfg) (s : Sap) (k : Key) : Nat :=
  match findTxn k s.clients with
  | none => 0
  | some t => rank cfg t.body

/-- expiries of k's own timer that really fire during the run -/
def dueCount (cfg : Cfg) (k : Key) : Sap → List Event → Nat
  | _, [] => 0
  | s, e :: es => (if isDue s k e then 1 else 0) + dueCount cfg k (step cfg s e).1 es

/-- no exception left the access point -/
def noRaise (outs : List Out) : Bool := !(outs.any Out.isRaised)

theorem noRaise_append {l1 l2 : List Out} (h : noRaise (l1 ++ l2) = true) :
    noRaise l1 = true ∧ noRaise l2 = true := by
  simp only [noRaise, List.any_append, Bool.not_or, Bool.and_eq_true] at h ⊢
  exact h

theorem noRaise_mem {outs : List Out} (h : noRaise outs = true) (r : Raise) : Out.raised r ∉ outs := by
  intro hm
  simp only [noRaise, Bool.not_eq_true', List.any_eq_false] at h
  exact absurd rfl (h _ hm)

/-- no exception left the access point in the steps in which k's OWN timer fired
    (all the liveness theorems need; implied by `noRaise` of the whole run,
    `noRaiseDue_of_noRaise`, and by an encodable configuration, `noRaiseDue_of_cfg`) -/
def noRaiseDue (cfg : Cfg) (k : Key) : Sap → List Event → Bool
  | _, [] => true
  | s, e :: es => (!isDue s k e || noRaise (step cfg s e).2) && noRaiseDue cfg k (step cfg s e).1 es

theorem noRaiseDue_cons {s : Sap} {e : Event} {es : List Event} {k : Key}
    (h : noRaiseDue cfg k s (e :: es) = true) :
    (isDue s k e = true → noRaise (step cfg s e).2 = true) ∧ noRaiseDue cfg k (step cfg s e).1 es = true := by
  simp only [noRaiseDue, Bool.and_eq_true, Bool.or_eq_true, Bool.not_eq_true'] at h
  refine ⟨fun hd => ?_, h.2⟩
  rcases h.1 with h1 | h1
  · rw [hd] at h1; cases h1
  · exact h1

theorem mu_le (cfg : Cfg) (s : Sap) (k : Key) : mu cfg s k ≤ 2 * cfg.retries + 1 := by
  unfold mu
  split
  · omega
  · exact rank_le _ _

theorem mu_zero {s : Sap} {k : Key} : mu cfg s k = 0 ↔ findTxn k s.clients = none := by
  unfold mu
  cases h : findTxn k s.clients with
  | none => simp
  | some t =>
    have := rank_pos cfg t.body
    simp
    omega

/-- **one silent event.**  The rank of `k` drops by at least one with every
    expiry of its own timer that fires, and never rises otherwise. -/
theorem silent_step_mu (hpos : cfg.TimeoutsPos) {s : Sap} (hinv : Inv s) {e : Event}
    (he : Silent e = true) (k : Key) (hnr : isDue s k e = true → noRaise (step cfg s e).2 = true) :
    mu cfg (step cfg s e).1 k + (if isDue s k e then 1 else 0) ≤ mu cfg s k := by
  rcases (silent_step_cases hpos hinv he k).2 with ⟨hd, hf⟩ | ⟨hd, t, d, hf, _, _, hcase⟩
  · simp only [mu, hf, hd]
    simp
  · rcases hcase with ⟨hnone, _⟩ | ⟨b', hsome, _, hlt | ⟨r, hr⟩⟩
    · have := rank_pos cfg t.body
      simp only [mu, hnone, hf, hd, if_true]
      omega
    · simp only [mu, hsome, hf, hd, if_true]
      omega
    · exact absurd hr (noRaise_mem (hnr hd) r)

/-- **bounded_under_silence.**  From ANY state satisfying the invariant, over
    ANY sequence of timer expiries and clock ticks (no exception escaping):
    (rank of k afterwards) + (number of expiries of k's own timer that fired)
    ≤ (rank of k at the start). -/
theorem bounded_under_silence (hpos : cfg.TimeoutsPos) (k : Key) : ∀ (es : List Event) {s : Sap}, Inv s →
    (∀ e ∈ es, Silent e = true) → noRaiseDue cfg k s es = true →
    mu cfg (run cfg s es).1 k + dueCount cfg k s es ≤ mu cfg s k := by
  intro es
  induction es with
  | nil => intro s _ _ _; simp [dueCount, run_nil]
  | cons e es ih =>
    intro s hinv hsil hnr
    obtain ⟨hn1, hn2⟩ := noRaiseDue_cons hnr
    have h1 := silent_step_mu hpos hinv (hsil e (List.mem_cons_self)) k hn1
    have h2 := ih (C11.inv_step hpos hinv e) (fun x hx => hsil x (List.mem_cons_of_mem _ hx)) hn2
    simp only [dueCount]
    rw [run_cons_fst]
    omega

/-- **expiry_bound.**  Under silence a client transaction sees at most
    2·retries + 1 expiries of its own timer. -/
theorem expiry_bound (hpos : cfg.TimeoutsPos) (k : Key) (es : List Event) {s : Sap} (hinv : Inv s)
    (hsil : ∀ e ∈ es, Silent e = true) (hnr : noRaiseDue cfg k s es = true) :
    dueCount cfg k s es ≤ 2 * cfg.retries + 1 := by
  have h := bounded_under_silence hpos k es hinv hsil hnr
  have := mu_le cfg s k
  omega

/-- **silence_terminates.**  Once as many expiries of its own timer have fired
    as its rank at the start of the silence says, the transaction is no longer listed. -/
theorem silence_terminates (hpos : cfg.TimeoutsPos) (k : Key) (es : List Event) {s : Sap} (hinv : Inv s)
    (hsil : ∀ e ∈ es, Silent e = true) (hnr : noRaiseDue cfg k s es = true)
    (hdue : mu cfg s k ≤ dueCount cfg k s es) :
    ∀ t ∈ (run cfg s es).1.clients, t.key ≠ k := by
  have h := bounded_under_silence hpos k es hinv hsil hnr
  exact findTxn_none.1 ((mu_zero (cfg := cfg)).1 (by omega))

/-- a silent event confirms `k` exactly when it removes it (the locally
    generated Abort always passes the ASAP) -/
theorem silent_conf_exact (hpos : cfg.TimeoutsPos) {s : Sap} (hinv : Inv s) {e : Event}
    (he : Silent e = true) (k : Key) :
    nConfFor k (step cfg s e).2 + liveC (step cfg s e).1 k = liveC s k := by
  have hreq : (reqKeyOf s e != some k) = true := by
    cases e <;> simp [Silent] at he <;> simp [reqKeyOf]
  have hle := conf_step hpos hinv e k (hreq_of hreq)
  rcases (silent_step_cases hpos hinv he k).2 with ⟨_, hf⟩ | ⟨_, t, d, hf, _, _, hcase⟩
  · have : liveC (step cfg s e).1 k = liveC s k := by unfold liveC; rw [hf]
    have := liveC_le_one s k
    omega
  · have h1 : liveC s k = 1 := liveC_one.2 ⟨t, hf⟩
    rcases hcase with ⟨hnone, reason, hout⟩ | ⟨b', hsome, _, _⟩
    · have h0 : liveC (step cfg s e).1 k = 0 := liveC_zero.2 hnone
      rw [hout, h0, h1]
      simp [nConfFor, List.countP_cons, Out.isConfFor]
    · have h2 : liveC (step cfg s e).1 k = 1 := liveC_one.2 ⟨_, hsome⟩
      omega

/-- **exactly_one_under_silence.**  Over a silent stretch:
    confirmations for k + [k listed afterwards] = [k listed before] — a pending
    transaction that disappears during silence was answered exactly once. -/
theorem exactly_one_under_silence (hpos : cfg.TimeoutsPos) (k : Key) : ∀ (es : List Event) {s : Sap},
    Inv s → (∀ e ∈ es, Silent e = true) →
    nConfFor k (run cfg s es).2 + liveC (run cfg s es).1 k = liveC s k := by
  intro es
  induction es with
  | nil => intro s _ _; simp [run_nil]
  | cons e es ih =>
    intro s hinv hsil
    have h1 := silent_conf_exact hpos hinv (hsil e (List.mem_cons_self)) k
    have h2 := ih (C11.inv_step hpos hinv e) (fun x hx => hsil x (List.mem_cons_of_mem _ hx))
    rw [run_cons_fst, run_cons_snd, nConfFor_append]
    omega

/-! ## virtual time -/

/-- the instant by which `k` must be gone if nothing arrives: its armed
    deadline plus one maximal timeout for every further expiry its rank allows -/
def deadline (cfg : Cfg) (s : Sap) (k : Key) : Nat :=
  match findTxn k s.clients with
  | none => 0
  | some t => t.body.timer.getD 0 + (rank cfg t.body - 1) * (maxT cfg * 1000)

/-- the scheduler is prompt for `k`: a clock tick never passes k's armed deadline -/
def prompt (k : Key) (s : Sap) : Event → Bool
  | .tick dt =>
    match findTxn k s.clients with
    | some t =>
      match t.body.timer with
      | some d => decide (s.now + dt ≤ d)
      | none => true
    | none => true
  | _ => true

def promptRun (cfg : Cfg) (k : Key) : Sap → List Event → Bool
  | _, [] => true
  | s, e :: es => prompt k s e && promptRun cfg k (step cfg s e).1 es

/-- k's timer is not overdue -/
def NotOverdue (s : Sap) (k : Key) : Prop :=
  ∀ t, findTxn k s.clients = some t → ∃ d, t.body.timer = some d ∧ s.now ≤ d

theorem silent_step_deadline (hpos : cfg.TimeoutsPos) {s : Sap} (hinv : Inv s) {e : Event}
    (he : Silent e = true) (k : Key) (hnr : isDue s k e = true → noRaise (step cfg s e).2 = true)
    (hp : prompt k s e = true) (hno : NotOverdue s k) :
    NotOverdue (step cfg s e).1 k ∧
    ((findTxn k (step cfg s e).1.clients).isSome → deadline cfg (step cfg s e).1 k ≤ deadline cfg s k) := by
  obtain ⟨hnow, hcases⟩ := silent_step_cases hpos hinv he k
  rcases hcases with ⟨hd, hf⟩ | ⟨hd, t, d, hf, ht, hdle, hcase⟩
  · constructor
    · intro t' ht'
      rw [hf] at ht'
      obtain ⟨d, hd1, hd2⟩ := hno t' ht'
      refine ⟨d, hd1, ?_⟩
      rw [hnow]
      cases e with
      | tick dt =>
        simp only [prompt, ht', hd1, decide_eq_true_eq] at hp
        exact hp
      | timeout _ _ _ => simpa [elapsed] using hd2
      | request _ _ _ _ => simp [Silent] at he
      | unconfirmed _ _ _ => simp [Silent] at he
      | response _ _ => simp [Silent] at he
      | frame _ _ => simp [Silent] at he
      | learn _ _ => simp [Silent] at he
      | setDcc _ => simp [Silent] at he
    · intro _
      simp only [deadline, hf]
      exact Nat.le_refl _
  · obtain ⟨d0, hd0, hle0⟩ := hno t hf
    rw [ht] at hd0
    cases hd0
    have hnow' : (step cfg s e).1.now = s.now := by
      rw [hnow]
      cases e <;> simp [isDue] at hd <;> rfl
    rcases hcase with ⟨hnone, _⟩ | ⟨b', hsome, ⟨d', hd', hlo, hhi⟩, hlt | ⟨r, hr⟩⟩
    · constructor
      · intro t' ht'; rw [hnone] at ht'; cases ht'
      · intro h; rw [hnone] at h; cases h
    · constructor
      · intro t' ht'
        rw [hsome] at ht'
        cases ht'
        exact ⟨d', hd', by rw [hnow']; exact hlo⟩
      · intro _
        simp only [deadline, hsome, hf, hd', ht, Option.getD_some]
        have hb := rank_pos cfg b'
        -- d' + (rank b' - 1)·T ≤ now + T + (rank b' - 1)·T = now + rank b'·T ≤ d + (rank t - 1)·T
        have hmul : (rank cfg b' - 1) * (maxT cfg * 1000) + maxT cfg * 1000
            ≤ (rank cfg t.body - 1) * (maxT cfg * 1000) := by
          have : rank cfg b' - 1 + 1 ≤ rank cfg t.body - 1 := by omega
          calc (rank cfg b' - 1) * (maxT cfg * 1000) + maxT cfg * 1000
              = (rank cfg b' - 1 + 1) * (maxT cfg * 1000) := by rw [Nat.add_mul, Nat.one_mul]
            _ ≤ (rank cfg t.body - 1) * (maxT cfg * 1000) := Nat.mul_le_mul_right _ this
        omega
    · exact absurd hr (noRaise_mem (hnr hd) r)

/-- **silence_deadline.**  Silence, a prompt scheduler, no exception: as long
    as `k` is listed the clock has not passed the deadline computed at the
    start of the silence. -/
theorem silence_deadline (hpos : cfg.TimeoutsPos) (k : Key) : ∀ (es : List Event) {s : Sap}, Inv s →
    (∀ e ∈ es, Silent e = true) → noRaiseDue cfg k s es = true → promptRun cfg k s es = true →
    NotOverdue s k → (findTxn k (run cfg s es).1.clients).isSome →
    (run cfg s es).1.now ≤ deadline cfg s k := by
  intro es
  induction es with
  | nil =>
    intro s _ _ _ _ hno hl
    rw [run_nil] at hl ⊢
    cases hf : findTxn k s.clients with
    | none => rw [hf] at hl; cases hl
    | some t =>
      obtain ⟨d, hd, hle⟩ := hno t hf
      simp only [deadline, hf, hd, Option.getD_some]
      omega
  | cons e es ih =>
    intro s hinv hsil hnr hpr hno hl
    obtain ⟨hn1, hn2⟩ := noRaiseDue_cons hnr
    simp only [promptRun, Bool.and_eq_true] at hpr
    have hstep := silent_step_deadline hpos hinv (hsil e (List.mem_cons_self)) k hn1 hpr.1 hno
    rw [run_cons_fst] at hl ⊢
    have h2 := ih (C11.inv_step hpos hinv e) (fun x hx => hsil x (List.mem_cons_of_mem _ hx)) hn2 hpr.2
      hstep.1 hl
    -- k is listed at the end, so it was listed after the first step (nothing re-lists it in silence)
    have hmid : (findTxn k (step cfg s e).1.clients).isSome := by
      cases hm : findTxn k (step cfg s e).1.clients with
      | some _ => rfl
      | none =>
        have hz := exactly_one_under_silence hpos k es (C11.inv_step hpos hinv e)
          (fun x hx => hsil x (List.mem_cons_of_mem _ hx))
        have h0 : liveC (step cfg s e).1 k = 0 := liveC_zero.2 hm
        have h1 : liveC (run cfg (step cfg s e).1 es).1 k = 1 := by
          unfold liveC; simp [hl]
        omega
    exact Nat.le_trans h2 (hstep.2 hmid)

/-- the deadline is at most 2·retries maximal timeouts behind the armed timer -/
theorem deadline_le (cfg : Cfg) (s : Sap) (k : Key) {t : Txn} {d : Nat}
    (hf : findTxn k s.clients = some t) (hd : t.body.timer = some d) :
    deadline cfg s k ≤ d + 2 * cfg.retries * (maxT cfg * 1000) := by
  simp only [deadline, hf, hd, Option.getD_some]
  have := rank_le cfg t.body
  have : rank cfg t.body - 1 ≤ 2 * cfg.retries := by omega
  have := Nat.mul_le_mul_right (maxT cfg * 1000) this
  omega

/-- decidable form of `NotOverdue` -/
def notOverdue (s : Sap) (k : Key) : Bool :=
  match findTxn k s.clients with
  | none => true
  | some t =>
    match t.body.timer with
    | some d => decide (s.now ≤ d)
    | none => false

theorem notOverdue_spec {s : Sap} {k : Key} (h : notOverdue s k = true) : NotOverdue s k := by
  intro t ht
  unfold notOverdue at h
  rw [ht] at h
  dsimp only at h
  cases hd : t.body.timer with
  | none => rw [hd] at h; cases h
  | some d =>
    rw [hd] at h
    exact ⟨d, rfl, by simpa using h⟩

/-- **gone_after_deadline** (termination in virtual time).  Silence, a prompt
    scheduler, no exception: once the clock has passed the deadline computed at
    the start of the silence, the transaction `k` is no longer listed. -/
theorem gone_after_deadline (hpos : cfg.TimeoutsPos) (k : Key) (es : List Event) {s : Sap} (hinv : Inv s)
    (hsil : ∀ e ∈ es, Silent e = true) (hnr : noRaiseDue cfg k s es = true)
    (hpr : promptRun cfg k s es = true) (hno : notOverdue s k = true)
    (hlate : deadline cfg s k < (run cfg s es).1.now) :
    ∀ t ∈ (run cfg s es).1.clients, t.key ≠ k := by
  apply findTxn_none.1
  cases hf : findTxn k (run cfg s es).1.clients with
  | none => rfl
  | some t =>
    have := silence_deadline hpos k es hinv hsil hnr hpr (notOverdue_spec hno) (by rw [hf]; rfl)
    omega

/-- **arrival_extends_once.**  A frame arrival (ANY header from ANY peer),
    with k = (peer, invoke ID of the frame): the timer of the client
    transaction `k` — if it survives — is what it was or is re-armed to at most
    now + T, T = max(apduTimeout, 4·segmentTimeout); every other transaction,
    its timer included, is untouched (C11.demux_frame). -/
theorem arrival_extends_once (hpos : cfg.TimeoutsPos) {s : Sap} (hinv : Inv s) (peer : Peer) (a : Apdu) :
    (∀ t t', findTxn ⟨peer, a.invokeId⟩ s.clients = some t →
        findTxn ⟨peer, a.invokeId⟩ (step cfg s (.frame peer a)).1.clients = some t' →
        t'.body.timer = t.body.timer ∨ ArmedAt cfg s.now t'.body.timer) ∧
    SameExcept ⟨peer, a.invokeId⟩ s.clients (step cfg s (.frame peer a)).1.clients ∧
    SameExcept ⟨peer, a.invokeId⟩ s.servers (step cfg s (.frame peer a)).1.servers := by
  have hd := C11.demux_frame (cfg := cfg) hpos hinv peer a
  dsimp only at hd
  refine ⟨?_, hd.1, hd.2.1⟩
  intro t t' hf hf'
  by_cases hc : C11.clientSide a = true
  · -- routed to the client table
    have hcl : (step cfg s (.frame peer a)).1.clients = (smapConfirmation cfg s peer a).1.clients := by
      rw [C11.step_frame, asapPass_clients]
    rw [hcl, C11.smapConfirmation_clientSide hc] at hf'
    split at hf'
    · rw [hf] at hf'; cases hf'; exact Or.inl rfl
    · unfold toClient at hf'
      rw [hf] at hf'
      simp only [Sap.setClient] at hf'
      cases hr : clientConfirmation cfg s.now t.key t.body a with
      | mk rb ro =>
        rw [hr] at hf'
        cases rb with
        | none =>
          rw [findTxn_updFirst_none hinv.cKeys] at hf'; cases hf'
        | some b' =>
          rw [findTxn_updFirst_some b' hf] at hf'
          cases hf'
          exact clientConfirmation_timer hpos hr
  · -- not routed to the client table: the client list is unchanged
    have hsame : (step cfg s (.frame peer a)).1.clients = s.clients := by
      by_cases hs : C11.serverSide a = true
      · exact hd.2.2.2.2.1 hs
      · exact (hd.2.2.2.2.2.1 (by simpa using hc) (by simpa using hs)).1
    rw [hsame, hf] at hf'
    cases hf'
    exact Or.inl rfl

/-- **time_bound.**  If the timer of `k` is armed at most T ahead (as it is
    right after a request, an arrival or an expiry) and then nothing arrives,
    the scheduler being prompt: `k` cannot be listed later than
    (2·retries + 1)·T after that instant. -/
theorem time_bound (hpos : cfg.TimeoutsPos) (k : Key) (es : List Event) {s : Sap} (hinv : Inv s)
    {t : Txn} (hf : findTxn k s.clients = some t) (harm : ArmedAt cfg s.now t.body.timer)
    (hsil : ∀ e ∈ es, Silent e = true) (hnr : noRaiseDue cfg k s es = true)
    (hpr : promptRun cfg k s es = true)
    (hl : (findTxn k (run cfg s es).1.clients).isSome) :
    (run cfg s es).1.now ≤ s.now + (2 * cfg.retries + 1) * (maxT cfg * 1000) := by
  obtain ⟨d, hd, hlo, hhi⟩ := harm
  have hno : NotOverdue s k := by
    intro t' ht'
    rw [hf] at ht'; cases ht'
    exact ⟨d, hd, hlo⟩
  have h1 := silence_deadline hpos k es hinv hsil hnr hpr hno hl
  have h2 := deadline_le cfg s k hf hd
  have : (2 * cfg.retries + 1) * (maxT cfg * 1000)
      = 2 * cfg.retries * (maxT cfg * 1000) + maxT cfg * 1000 := by
    rw [Nat.add_mul, Nat.one_mul]
  omega

/-! ## exactly one, under eventual silence -/

/-- **exactly_one.**  A generation of `k`: the request event, then ANY events
    `mid` (not a new request for `k`) — the adversarial network —, then a
    silent stretch `sil` at the end of which `k` is no longer listed
    (guaranteed by `silence_terminates` after enough expiries, by
    `gone_after_deadline` once the clock has passed the deadline).  Then
      * at most one confirmation for `k` reached the application in all of it,
      * if `k` was still pending when the silence began, exactly one
        confirmation reached the application, during the silence (the Abort);
      * the state machines handed up exactly one confirmation for `k` — or
        `k` was never listed (refused, or answered at once by the request step). -/
theorem exactly_one (hpos : cfg.TimeoutsPos) {s : Sap} (hinv : Inv s) (peer : Peer) (service : Nat)
    (data : Bytes) (chosen : Option Nat) (k : Key) (mid sil : List Event)
    (hno : noReqFor cfg k (step cfg s (.request peer service data chosen)).1 mid = true)
    (hsil : ∀ e ∈ sil, Silent e = true) :
    let s1 := (step cfg s (.request peer service data chosen)).1
    let s2 := (run cfg s1 mid).1
    let s3 := (run cfg s2 sil).1
    (∀ t ∈ s3.clients, t.key ≠ k) →
      nConfFor k ((step cfg s (.request peer service data chosen)).2 ++ (run cfg s1 mid).2 ++
        (run cfg s2 sil).2) ≤ 1 ∧
      (liveC s2 k = 1 → nConfFor k (run cfg s2 sil).2 = 1) ∧
      smapConfs cfg k s1 mid + nConfFor k (run cfg s2 sil).2 = liveC s1 k := by
  intro s1 s2 s3 hterm
  have hinv1 : Inv s1 := C11.inv_step hpos hinv _
  have hinv2 : Inv s2 := C11.inv_run hpos mid hinv1
  have hreq : nConfFor k (step cfg s (.request peer service data chosen)).2 + liveC s1 k ≤ 1 :=
    request_conf_step hpos hinv peer service data chosen k
  have hmid : nConfFor k (run cfg s1 mid).2 + liveC s2 k ≤ liveC s1 k := at_most_one hpos k mid hinv1 hno
  have hsx : nConfFor k (run cfg s2 sil).2 + liveC s3 k = liveC s2 k :=
    exactly_one_under_silence hpos k sil hinv2 hsil
  have h3 : liveC s3 k = 0 := liveC_zero.2 (findTxn_none.2 hterm)
  have hsm : smapConfs cfg k s1 mid + liveC s2 k = liveC s1 k := smap_exact hpos k mid hinv1 hno
  refine ⟨?_, ?_, ?_⟩
  · rw [nConfFor_append, nConfFor_append]
    have := liveC_le_one s2 k
    omega
  · intro h; omega
  · omega

/-- **exactly_one_in_bounded_time.**  The combination: request, ANY events,
    then silence under a prompt scheduler without exception; as soon as the
    clock has passed `deadline` (≤ armed timer + 2·retries·T, `deadline_le`):
    `k` is gone, at most one confirmation reached the application overall, and
    exactly one if `k` was still pending when the silence began. -/
theorem exactly_one_in_bounded_time (hpos : cfg.TimeoutsPos) {s : Sap} (hinv : Inv s) (peer : Peer)
    (service : Nat) (data : Bytes) (chosen : Option Nat) (k : Key) (mid sil : List Event)
    (hno : noReqFor cfg k (step cfg s (.request peer service data chosen)).1 mid = true)
    (hsil : ∀ e ∈ sil, Silent e = true) :
    let s1 := (step cfg s (.request peer service data chosen)).1
    let s2 := (run cfg s1 mid).1
    let s3 := (run cfg s2 sil).1
    noRaiseDue cfg k s2 sil = true → promptRun cfg k s2 sil = true → notOverdue s2 k = true →
    deadline cfg s2 k < s3.now →
      (∀ t ∈ s3.clients, t.key ≠ k) ∧
      nConfFor k ((step cfg s (.request peer service data chosen)).2 ++ (run cfg s1 mid).2 ++
        (run cfg s2 sil).2) ≤ 1 ∧
      (liveC s2 k = 1 → nConfFor k (run cfg s2 sil).2 = 1) := by
  intro s1 s2 s3 hnr hpr hnov hlate
  have hinv2 : Inv s2 := C11.inv_run hpos mid (C11.inv_step hpos hinv _)
  have hgone : ∀ t ∈ s3.clients, t.key ≠ k := gone_after_deadline hpos k sil hinv2 hsil hnr hpr hnov hlate
  have h := exactly_one hpos hinv peer service data chosen k mid sil hno hsil hgone
  exact ⟨hgone, h.1, h.2.1⟩

/-- every confirmation the state machines produce along the run is one the
    ASAP forwards to the application unchanged (`Passes`: SimpleAck, Reject,
    Abort; ComplexAck / Error whose decoder succeeds) -/
def allPass (cfg : Cfg) : Sap → List Event → Bool
  | _, [] => true
  | s, e :: es => (smapStep cfg s e).2.all (Out.passes cfg) && allPass cfg (step cfg s e).1 es

/-! ## the liveness hypothesis discharged by the configuration -/

/-- the old, stronger form of the hypothesis: no exception at all during the stretch -/
theorem noRaiseDue_of_noRaise (k : Key) : ∀ (es : List Event) (s : Sap),
    noRaise (run cfg s es).2 = true → noRaiseDue cfg k s es = true := by
  intro es
  induction es with
  | nil => intro s _; rfl
  | cons e es ih =>
    intro s h
    rw [run_cons_snd] at h
    obtain ⟨h1, h2⟩ := noRaise_append h
    simp only [noRaiseDue, Bool.and_eq_true, Bool.or_eq_true]
    exact ⟨Or.inr h1, ih _ h2⟩

/-- **noRaiseDue_of_cfg.**  With a local configuration that can be encoded in a
    request header (`cfgOk`: maxApduLengthAccepted ≥ 50, maxSegmentsAccepted ≠ 1)
    no expiry of a client timer ever lets an exception out — in any state
    reachable by any event sequence (`Inv`, `LiveInv`), over any further events. -/
theorem noRaiseDue_of_cfg (hpos : cfg.TimeoutsPos) (hok : cfgOk cfg = true) (k : Key) :
    ∀ (es : List Event) {s : Sap}, Inv s → LiveInv cfg s → noRaiseDue cfg k s es = true := by
  intro es
  induction es with
  | nil => intro s _ _; rfl
  | cons e es ih =>
    intro s hinv hlive
    simp only [noRaiseDue, Bool.and_eq_true, Bool.or_eq_true, Bool.not_eq_true']
    refine ⟨?_, ih (C11.inv_step hpos hinv e) (live_step hpos hinv hlive e)⟩
    cases hd : isDue s k e with
    | false => exact Or.inl rfl
    | true =>
      right
      cases e with
      | timeout srv p i =>
        cases srv with
        | true => simp [isDue] at hd
        | false =>
          have := client_timeout_noRaise hok hinv hlive p i
          simp [noRaise, this]
      | request _ _ _ _ => simp [isDue] at hd
      | unconfirmed _ _ _ => simp [isDue] at hd
      | response _ _ => simp [isDue] at hd
      | frame _ _ => simp [isDue] at hd
      | tick _ => simp [isDue] at hd
      | learn _ _ => simp [isDue] at hd
      | setDcc _ => simp [isDue] at hd

/-- the two invariants hold initially and after any event sequence -/
theorem reach_run (hpos : cfg.TimeoutsPos) (es : List Event) :
    Inv (run cfg Sap.init es).1 ∧ LiveInv cfg (run cfg Sap.init es).1 :=
  ⟨C11.inv_run hpos es C11.inv_init, live_run hpos es C11.inv_init LiveInv.init⟩

/-- **bounded_under_silence_cfg.**  `bounded_under_silence` for every encodable
    configuration, no trace-level hypothesis. -/
theorem bounded_under_silence_cfg (hpos : cfg.TimeoutsPos) (hok : cfgOk cfg = true) (k : Key)
    (es : List Event) {s : Sap} (hinv : Inv s) (hlive : LiveInv cfg s)
    (hsil : ∀ e ∈ es, Silent e = true) :
    mu cfg (run cfg s es).1 k + dueCount cfg k s es ≤ mu cfg s k ∧
    dueCount cfg k s es ≤ 2 * cfg.retries + 1 := by
  have hnr := noRaiseDue_of_cfg hpos hok k es hinv hlive
  exact ⟨bounded_under_silence hpos k es hinv hsil hnr, expiry_bound hpos k es hinv hsil hnr⟩

/-- **gone_after_deadline_cfg** -/
theorem gone_after_deadline_cfg (hpos : cfg.TimeoutsPos) (hok : cfgOk cfg = true) (k : Key)
    (es : List Event) {s : Sap} (hinv : Inv s) (hlive : LiveInv cfg s)
    (hsil : ∀ e ∈ es, Silent e = true) (hpr : promptRun cfg k s es = true)
    (hno : notOverdue s k = true) (hlate : deadline cfg s k < (run cfg s es).1.now) :
    ∀ t ∈ (run cfg s es).1.clients, t.key ≠ k :=
  gone_after_deadline hpos k es hinv hsil (noRaiseDue_of_cfg hpos hok k es hinv hlive) hpr hno hlate

/-- **exactly_one_in_bounded_time_cfg.**  For EVERY configuration with positive
    timeouts, maxApduLengthAccepted ≥ 50 and maxSegmentsAccepted ≠ 1, from any
    reachable state: a request, ANY events, then silence under a prompt
    scheduler; once the clock has passed the deadline `k` is gone, at most one
    confirmation reached the application overall, exactly one if `k` was still
    pending when the silence began.  No hypothesis on exceptions. -/
theorem exactly_one_in_bounded_time_cfg (hpos : cfg.TimeoutsPos) (hok : cfgOk cfg = true) {s : Sap}
    (hinv : Inv s) (hlive : LiveInv cfg s) (peer : Peer)
    (service : Nat) (data : Bytes) (chosen : Option Nat) (k : Key) (mid sil : List Event)
    (hno : noReqFor cfg k (step cfg s (.request peer service data chosen)).1 mid = true)
    (hsil : ∀ e ∈ sil, Silent e = true) :
    let s1 := (step cfg s (.request peer service data chosen)).1
    let s2 := (run cfg s1 mid).1
    let s3 := (run cfg s2 sil).1
    promptRun cfg k s2 sil = true → notOverdue s2 k = true → deadline cfg s2 k < s3.now →
      (∀ t ∈ s3.clients, t.key ≠ k) ∧
      nConfFor k ((step cfg s (.request peer service data chosen)).2 ++ (run cfg s1 mid).2 ++
        (run cfg s2 sil).2) ≤ 1 ∧
      (liveC s2 k = 1 → nConfFor k (run cfg s2 sil).2 = 1) := by
  intro s1 s2 s3 hpr hnov hlate
  have hinv1 : Inv s1 := C11.inv_step hpos hinv _
  have hlive1 : LiveInv cfg s1 := live_step hpos hinv hlive _
  have hinv2 : Inv s2 := C11.inv_run hpos mid hinv1
  have hlive2 : LiveInv cfg s2 := live_run hpos mid hinv1 hlive1
  have hnr : noRaiseDue cfg k s2 sil = true := noRaiseDue_of_cfg hpos hok k sil hinv2 hlive2
  exact exactly_one_in_bounded_time hpos hinv peer service data chosen k mid sil hno hsil hnr hpr hnov hlate

/-- **app_exact.**  Under `allPass` the counting equation holds with equality
    at the APPLICATION boundary over any run without a new request for `k`. -/
theorem app_exact (hpos : cfg.TimeoutsPos) (k : Key) : ∀ (es : List Event) {s : Sap}, Inv s →
    noReqFor cfg k s es = true → allPass cfg s es = true →
    nConfFor k (run cfg s es).2 + liveC (run cfg s es).1 k = liveC s k := by
  intro es
  induction es with
  | nil => intro s _ _ _; simp [run_nil]
  | cons e es ih =>
    intro s hinv hno hp
    simp only [noReqFor, Bool.and_eq_true] at hno
    simp only [allPass, Bool.and_eq_true] at hp
    have h1 := app_conf_step_exact hpos hinv e k (hreq_of hno.1) hp.1
    have h2 := ih (C11.inv_step hpos hinv e) hno.2 hp.2
    rw [run_cons_fst, run_cons_snd, nConfFor_append]
    omega

/-- **answered_exactly_once.**  The property's first sentence.  A request that
    the access point accepted (`hacc`: answered at once or listed), then ANY
    events `mid` — the adversarial network; the confirmations it provokes are
    ones the ASAP forwards — then silence until `k` is gone (after at most
    2·retries + 1 expiries, or once the clock has passed the deadline):
    EXACTLY ONE confirmation for `k` reaches the application in all of it. -/
theorem answered_exactly_once (hpos : cfg.TimeoutsPos) {s : Sap} (hinv : Inv s) (peer : Peer)
    (service : Nat) (data : Bytes) (chosen : Option Nat) (k : Key) (mid sil : List Event)
    (hno : noReqFor cfg k (step cfg s (.request peer service data chosen)).1 mid = true)
    (hsil : ∀ e ∈ sil, Silent e = true) :
    let s1 := (step cfg s (.request peer service data chosen)).1
    let s2 := (run cfg s1 mid).1
    let s3 := (run cfg s2 sil).1
    nConfFor k (step cfg s (.request peer service data chosen)).2 + liveC s1 k = 1 →
    allPass cfg s1 mid = true → (∀ t ∈ s3.clients, t.key ≠ k) →
      nConfFor k ((step cfg s (.request peer service data chosen)).2 ++ (run cfg s1 mid).2 ++
        (run cfg s2 sil).2) = 1 := by
  intro s1 s2 s3 hacc hpass hgone
  have hinv1 : Inv s1 := C11.inv_step hpos hinv _
  have hinv2 : Inv s2 := C11.inv_run hpos mid hinv1
  have hmid : nConfFor k (run cfg s1 mid).2 + liveC s2 k = liveC s1 k := app_exact hpos k mid hinv1 hno hpass
  have hsx : nConfFor k (run cfg s2 sil).2 + liveC s3 k = liveC s2 k :=
    exactly_one_under_silence hpos k sil hinv2 hsil
  have h3 : liveC s3 k = 0 := liveC_zero.2 (findTxn_none.2 hgone)
  rw [nConfFor_append, nConfFor_append]
  omega

/-! ## non-vacuity: concrete traces (kernel evaluation of the model) -/

def exCfg : Cfg :=
  { BacVerif.Gen.TsmDefaults.cfg with retries := 1, seg := .both, maxSegs := some 16, maxApdu := 50 }

theorem exCfg_pos : exCfg.TimeoutsPos := ⟨by decide, by decide, by decide⟩

/-- the example configuration (and the regenerated defaults of the live class)
    can be encoded: the `_cfg` theorems apply -/
theorem exCfg_ok : cfgOk exCfg = true ∧ cfgOk BacVerif.Gen.TsmDefaults.cfg = true := by decide

/-- a request, total silence: one retry, then the locally generated Abort -/
def exSilence : List Event :=
  [.request 0 200 [1, 2, 3] none, .tick 3000000, .timeout false 0 1, .tick 3000000, .timeout false 0 1]

/-- the trace with a retry and a final abort: request sent twice, exactly one
    confirmation (Abort, reason noResponse = 65), nothing left; the rank after
    the request is 3 = 2·retries + 1 and two expiries of the own timer fired
    (retries + 1: the tight value for an unsegmented request) -/
example :
    let r := run exCfg Sap.init exSilence
    r.2.length = 3 ∧ nConfFor ⟨0, 1⟩ r.2 = 1 ∧
    r.2.getLast? = some (.confirm 0 (mkAbort false 1 abortNoResponse)) ∧
    r.1.clients = [] ∧ r.1.now = 6000000 ∧ noRaise r.2 = true ∧
    mu exCfg (step exCfg Sap.init (.request 0 200 [1, 2, 3] none)).1 ⟨0, 1⟩ = 3 ∧
    dueCount exCfg ⟨0, 1⟩ Sap.init exSilence = 2 ∧
    noReqFor exCfg ⟨0, 1⟩ (step exCfg Sap.init (.request 0 200 [1, 2, 3] none)).1 exSilence.tail = true ∧
    promptRun exCfg ⟨0, 1⟩ Sap.init exSilence = true := by
  decide +kernel

/-- hypotheses of `exactly_one_in_bounded_time` met by that trace followed by a
    long tick (mid = [], sil = the four silent events + 10 s): the deadline
    3 s + 2·6 s = 15 s is passed at 16 s; `k` was pending when the silence began -/
example :
    let s1 := (step exCfg Sap.init (.request 0 200 [1, 2, 3] none)).1
    let sil := exSilence.tail ++ [.tick 10000000]
    (∀ e ∈ sil, Silent e = true) ∧ noRaise (run exCfg s1 sil).2 = true ∧
    noRaiseDue exCfg ⟨0, 1⟩ s1 sil = true ∧
    promptRun exCfg ⟨0, 1⟩ s1 sil = true ∧ notOverdue s1 ⟨0, 1⟩ = true ∧
    deadline exCfg s1 ⟨0, 1⟩ = 15000000 ∧ (run exCfg s1 sil).1.now = 16000000 ∧ liveC s1 ⟨0, 1⟩ = 1 ∧
    noReqFor exCfg ⟨0, 1⟩ s1 [] = true := by
  decide +kernel

/-- hypotheses of `answered_exactly_once`: the request, a retry after a lost
    reply, the reply (ComplexAck) arriving twice, a stray abort; then silence —
    accepted, forwarded, gone; one confirmation -/
example :
    let req : Event := .request 0 200 [1, 2, 3] none
    let s1 := (step exCfg Sap.init req).1
    let ack : Apdu := { ty := 3, invokeId := 1, service := 200, data := [5] }
    let mid : List Event := [.tick 3000000, .timeout false 0 1, .frame 0 ack, .frame 0 ack,
                             .frame 0 (mkAbort true 1 4), .frame 1 ack]
    let sil : List Event := [.tick 60000000]
    nConfFor ⟨0, 1⟩ (step exCfg Sap.init req).2 + liveC s1 ⟨0, 1⟩ = 1 ∧
    noReqFor exCfg ⟨0, 1⟩ s1 mid = true ∧ allPass exCfg s1 mid = true ∧
    (run exCfg (run exCfg s1 mid).1 sil).1.clients = [] ∧
    (run exCfg s1 mid).2 = [.send 0 { ty := 0, service := 200, invokeId := 1, data := [1, 2, 3],
                                      maxSegs := 4, maxResp := 0, sa := true },
                            .confirm 0 ack] := by
  decide +kernel

/-- a segmented ComplexAck of three segments (window 2), the last one duplicated:
    two segment acks go out, ONE confirmation carrying the three payloads, the
    duplicate is ignored (the transaction is gone: `late_frame_ignored`) -/
def exSegAck : List Event :=
  [.request 0 200 [9] none,
   .frame 0 { ty := 3, seg := true, mor := true, seq := 0, win := 2, invokeId := 1, service := 200, data := [1] },
   .frame 0 { ty := 3, seg := true, mor := true, seq := 1, win := 2, invokeId := 1, service := 200, data := [2] },
   .frame 0 { ty := 3, seg := true, mor := false, seq := 2, win := 2, invokeId := 1, service := 200, data := [3] },
   .frame 0 { ty := 3, seg := true, mor := false, seq := 2, win := 2, invokeId := 1, service := 200, data := [3] }]

example :
    let r := run exCfg Sap.init exSegAck
    nConfFor ⟨0, 1⟩ r.2 = 1 ∧ r.1.clients = [] ∧
    r.2.getLast? = some (.confirm 0 { ty := 3, seg := true, mor := true, seq := 0, win := 2, invokeId := 1,
                                      service := 200, data := [1, 2, 3] }) ∧
    smapConfs exCfg ⟨0, 1⟩ (step exCfg Sap.init (.request 0 200 [9] none)).1 exSegAck.tail = 1 := by
  decide +kernel

/-- **tight_segmented.**  The worst case of the expiry count: a request of three
    segments, every segment acknowledged, the reply never comes.  The first
    expiry (AWAIT_CONFIRMATION, retry 0 < 1) restarts the whole request
    (SEGMENTED_REQUEST, segmentRetryCount = 0), the second retransmits the first
    segment, the third aborts: retries + 2 = 3 expiries — one more than the
    "retries + 1" of DESIGN §7 — and still within rank = 2·retries + 1 = 3. -/
def exTight : List Event :=
  [.request 0 200 (List.replicate 100 7) none,
   .frame 0 (mkSegAck false true 1 0 2), .frame 0 (mkSegAck false true 1 2 2),
   .tick 3000000, .timeout false 0 1, .tick 1500000, .timeout false 0 1, .tick 1500000, .timeout false 0 1]

example :
    let s3 := (run exCfg Sap.init (exTight.take 3)).1
    mu exCfg s3 ⟨0, 1⟩ = 3 ∧ dueCount exCfg ⟨0, 1⟩ s3 (exTight.drop 3) = 3 ∧
    (run exCfg Sap.init (exTight.take 8)).1.clients.length = 1 ∧
    (run exCfg Sap.init exTight).1.clients = [] ∧
    nConfFor ⟨0, 1⟩ (run exCfg Sap.init exTight).2 = 1 ∧ noRaise (run exCfg Sap.init exTight).2 = true := by
  decide +kernel

/-- the hypothesis (`noRaiseDue`, resp. `cfgOk`) is needed: a local
    maxSegmentsAccepted = 1 cannot be encoded (`cfgOk` false), every transmission
    raises, the retry counter restarts — after six expiries the transaction is
    still listed with retry count 0 -/
example :
    let bad : Cfg := { exCfg with maxSegs := some 1 }
    cfgOk bad = false ∧
    let es : List Event := [.request 0 200 [1] none,
      .tick 3000000, .timeout false 0 1, .tick 3000000, .timeout false 0 1, .tick 3000000, .timeout false 0 1,
      .tick 3000000, .timeout false 0 1, .tick 3000000, .timeout false 0 1, .tick 3000000, .timeout false 0 1]
    (run bad Sap.init es).1.clients.map (fun t => t.body.retry) = [0] ∧
    noRaise (run bad Sap.init es).2 = false := by
  decide +kernel

end BacVerif.C04

/-! # the IOCB layer (Model.Iocb) -/
namespace BacVerif.C04.Io
open BacVerif.Iocb

theorem run_nil (s : St) : Iocb.run s [] = (s, []) := rfl
theorem run_cons_fst (s : St) (e : Ev) (es : List Ev) :
    (Iocb.run s (e :: es)).1 = (Iocb.run (Iocb.step s e).1 es).1 := rfl
theorem run_cons_snd (s : St) (e : Ev) (es : List Ev) :
    (Iocb.run s (e :: es)).2 = (Iocb.step s e).2 ++ (Iocb.run (Iocb.step s e).1 es).2 := rfl

theorem run_keeps (id : Nat) : ∀ (es : List Ev) (s : St),
    Keeps id s.iocbs (Iocb.run s es).1.iocbs (Iocb.run s es).2 := by
  intro es
  induction es with
  | nil => intro s; exact Keeps.refl _ _
  | cons e es ih =>
    intro s
    rw [run_cons_fst, run_cons_snd]
    exact (step_keeps s e id).trans (ih _)

/-- **complete_once.**  Over ANY sequence of request_io / application aborts /
    confirmations of any kind from any address / deferred calls, from any
    state: callbacks of IOCB `id` fired + [finished before] = [finished after]. -/
theorem callbacks_exact (s : St) (es : List Ev) (id : Nat) :
    nCb id (Iocb.run s es).2 + fin s.iocbs id = fin (Iocb.run s es).1.iocbs id :=
  (run_keeps id es s).once

/-- … from the start: the callback of an IOCB has fired exactly once if the
    IOCB is finished (COMPLETED or ABORTED), and not at all otherwise. -/
theorem complete_once (es : List Ev) (id : Nat) :
    nCb id (Iocb.run St.init es).2 = fin (Iocb.run St.init es).1.iocbs id ∧
    nCb id (Iocb.run St.init es).2 ≤ 1 := by
  have h := callbacks_exact St.init es id
  have h0 : fin St.init.iocbs id = 0 := by simp [fin, St.init]
  have h1 := fin_le_one (Iocb.run St.init es).1.iocbs id
  omega

/-- **finished_is_final** (complete / abort idempotent after completion).  A
    finished IOCB keeps state, response and error whatever happens next —
    a second confirmation, an application abort, anything — and its callback
    does not fire again. -/
theorem finished_is_final (s : St) (es : List Ev) (id : Nat) {io : Iocb} (h : s.iocbs[id]? = some io)
    (ht : io.st.terminal = true) :
    (∃ io', (Iocb.run s es).1.iocbs[id]? = some io' ∧ io'.st = io.st ∧ io'.resp = io.resp ∧ io'.err = io.err) ∧
    nCb id (Iocb.run s es).2 = 0 := by
  have hk := run_keeps id es s
  refine ⟨hk.frozen io h ht, ?_⟩
  have h1 : fin s.iocbs id = 1 := by simp [fin, h, ht]
  have h2 := fin_le_one (Iocb.run s es).1.iocbs id
  have := hk.once
  omega

/-- the application aborting a finished IOCB: no callback, nothing changes on the IOCB -/
theorem abort_after_done_noop (s : St) (id tok : Nat) {io : Iocb} (h : s.iocbs[id]? = some io)
    (ht : io.st.terminal = true) :
    nCb id (appAbort cb1 s id tok).2 = 0 ∧
    ∃ io', (appAbort cb1 s id tok).1.iocbs[id]? = some io' ∧ io'.st = io.st ∧ io'.resp = io.resp ∧ io'.err = io.err := by
  have hk := appAbort_keeps cb1_keeps s id tok id
  have h1 : fin s.iocbs id = 1 := by simp [fin, h, ht]
  have h2 := fin_le_one (appAbort cb1 s id tok).1.iocbs id
  have := hk.once
  exact ⟨by omega, hk.frozen io h ht⟩

/-- **queue_never_stuck.**  Over ANY sequence of operations — request_io,
    application aborts, confirmations of any class from any address, deferred
    calls, and operations issued from INSIDE completion callbacks (re-entrant
    request_io to the same or another destination, aborts of other IOCBs) —
    an idle queue object with IOCBs waiting always has its `_trigger` pending
    in the deferred list; queue objects have pairwise different serials. -/
theorem queue_never_stuck (es : List Ev) :
    let s := (Iocb.run St.init es).1
    (∀ e ∈ s.queues, e.2.busy = false → e.2.queue ≠ [] → e.2.qid ∈ s.deferred) ∧
    (qids s.queues).Nodup := by
  have h := run_good es init_good
  refine ⟨?_, h.ub.nodup⟩
  intro e he hb hne
  rcases h.d e he hb hne with h1 | h1
  · exact h1
  · cases h1

/-- the invariant behind it, from any state that satisfies it -/
theorem invariant_run (es : List Ev) {s : St} (h : Good none s) : Good none (Iocb.run s es).1 :=
  run_good es h

/-- **queue_released / queue_empty_forgotten** (the confirmation).  An
    ack-class confirmation from `addr`, whose queue object `q` has the active
    IOCB `id`, in any state satisfying the invariant, WHATEVER the completion
    callback does re-entrantly: afterwards the `_trigger` of `q` is deferred,
    the object is idle without active IOCB, and `addr` still maps to it only if
    IOCBs are waiting in it — otherwise it is forgotten
    (`del queue_by_address[addr]`). -/
theorem queue_released {s : St} (hgood : Good none s) {addr : Addr} {q : Q} {id : Nat} (tok : Nat)
    (hq : lookupQ s.queues addr = some q) (ha : q.active = some id) :
    let s' := (Iocb.step s (.confirm addr .ack tok)).1
    q.qid ∈ s'.deferred ∧
    (∀ q', findQ s'.queues q.qid = some q' → q'.active = none ∧ q'.busy = false) ∧
    (∀ q'', lookupQ s'.queues addr = some q'' → q''.qid = q.qid → q''.queue ≠ []) :=
  appComplete_released cb1_good hgood (some tok) hq ha

/-- **queue_advances** (the deferred trigger).  The queue object is idle and
    the PENDING IOCB `id` is at the head of its waiting list: running the
    deferred `_trigger` makes `id` the active IOCB (state ACTIVE), takes it off
    the list, and sends its request — exactly that. -/
theorem queue_advances {s : St} {qid : Nat} {q : Q} {p id : Nat} {rest : List (Nat × Nat)} {io : Iocb}
    {dl : List Nat} (hd : s.deferred = qid :: dl)
    (hq : findQ s.queues qid = some q) (hb : q.busy = false) (hqueue : q.queue = (p, id) :: rest)
    (hio : s.iocbs[id]? = some io) (hst : io.st = .pending) (hf : io.fails = false)
    (hu : io.unconf = false) :
    let r := Iocb.step s .runDeferred
    r.2 = [.sent id] ∧
    findQ r.1.queues qid = some { q with busy := true, active := some id, queue := rest } ∧
    r.1.iocbs[id]? = some { io with inq := none, st := .active } := by
  simp only [Iocb.step, hd]
  exact trigger_launches cb1 (s := { s with deferred := dl }) hq hb hqueue hio hst hf hu

/-! ### non-vacuity -/

/-- three requests to one destination, one to another; the first is answered
    with an ack, the deferred trigger sends the second; the application aborts
    the (queued) third; the second is answered with an error; a stray third
    confirmation from that address finds nothing active -/
def exIo : List Ev :=
  [.submit 7 0 false false, .submit 7 0 false false, .submit 7 0 false false, .submit 8 0 false false,
   .confirm 7 .ack 100, .runDeferred, .abort 2 55, .confirm 7 .err 101, .runDeferred, .confirm 7 .ack 102,
   .confirm 8 .ack 103, .runDeferred]

example :
    let r := Iocb.run St.init exIo
    r.2 = [.sent 0, .sent 3, .callback 0 .completed (some 100) none, .sent 1,
           .callback 2 .aborted none (some 55), .callback 1 .aborted none (some 101),
           .callback 3 .completed (some 103) none] ∧
    r.1.queues = [] ∧ r.1.deferred = [] ∧
    r.1.iocbs.map (fun io => io.st) = [.completed, .aborted, .aborted, .completed] ∧
    nCb 0 r.2 = 1 ∧ nCb 1 r.2 = 1 ∧ nCb 2 r.2 = 1 ∧ nCb 3 r.2 = 1 := by
  decide +kernel

/-- hypotheses of `queue_released` / `queue_advances` met on the way -/
example :
    let s4 := (Iocb.run St.init (exIo.take 4)).1
    let s5 := (Iocb.run St.init (exIo.take 5)).1
    (∃ q, lookupQ s4.queues 7 = some q ∧ q.active = some 0 ∧ q.queue ≠ []) ∧
    (∃ q dl io, s5.deferred = 0 :: dl ∧ findQ s5.queues 0 = some q ∧ q.busy = false ∧
       q.queue = (0, 1) :: [(0, 2)] ∧ s5.iocbs[1]? = some io ∧ io.st = .pending ∧
       io.fails = false ∧ io.unconf = false) := by
  refine ⟨⟨_, rfl, rfl, by decide⟩, ⟨_, _, _, rfl, rfl, rfl, rfl, rfl, rfl, rfl, rfl⟩⟩

/-- RE-ENTRANCY: the completion callback of IOCB #0 (ack from 7) submits a
    follow-up request to the SAME destination and one to another, and aborts the
    queued IOCB #1.  At that point the queue of 7 is still busy with #0: the
    follow-up #2 is queued (not sent), #1 leaves the queue with its own callback,
    #3 goes out to 8 at once; afterwards the queue of 7 is released and KEPT
    (the follow-up waits in it), its trigger sends #2.  One callback each. -/
def exReentrant : List Ev :=
  [.submit 7 0 false false, .submit 7 0 false false,
   .arm [.submit 7 0 false false, .submit 8 0 false false, .abort 1 55],
   .confirm 7 .ack 100, .runDeferred, .confirm 7 .ack 101, .confirm 8 .err 102, .runDeferred]

example :
    let r4 := Iocb.run St.init (exReentrant.take 4)
    let r := Iocb.run St.init exReentrant
    r4.2 = [.sent 0, .callback 0 .completed (some 100) none, .sent 3, .callback 1 .aborted none (some 55)] ∧
    r4.1.queues.map (fun e => (e.1, e.2.busy, e.2.active, e.2.queue)) =
      [(7, false, none, [(0, 2)]), (8, true, some 3, [])] ∧
    r4.1.deferred = [0] ∧ r4.1.script = [] ∧
    r.2 = r4.2 ++ [.sent 2, .callback 2 .completed (some 101) none, .callback 3 .aborted none (some 102)] ∧
    r.1.queues = [] ∧ nCb 0 r.2 = 1 ∧ nCb 1 r.2 = 1 ∧ nCb 2 r.2 = 1 ∧ nCb 3 r.2 = 1 := by
  decide +kernel

/-- the known, NOT claimed behaviour (DESIGN §7 C11 "Noted"): `_app_complete`
    matches the active IOCB by address only — after the APPLICATION aborted the
    active IOCB #0, the reply to its request (token 100) completes IOCB #1 -/
example :
    (Iocb.run St.init [.submit 7 0 false false, .submit 7 0 false false, .abort 0 55, .runDeferred,
                       .confirm 7 .ack 100]).2 =
      [.sent 0, .callback 0 .aborted none (some 55), .sent 1, .callback 1 .completed (some 100) none] := by
  decide +kernel

end BacVerif.C04.Io
