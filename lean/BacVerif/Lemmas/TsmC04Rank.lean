/-
  Lemmas.TsmC04Rank — the decreasing measure of a client transaction under
  silence, and what a handler does to the transaction's timer.

  rank cfg b  = an upper bound on the number of expiries of its OWN timer a
  client transaction in body `b` survives when nothing arrives:
      SEGMENTED_CONFIRMATION : 1                      (first expiry aborts)
      SEGMENTED_REQUEST      : (R - segRetry) + 1     (retransmit, then abort)
      AWAIT_CONFIRMATION     : 1                       if retry ≥ R
                               (R - retry) + (R + 1)   otherwise: each expiry
                               re-runs `indication` — the request goes out
                               again, unsegmented (retry + 1) or segmented
                               (SEGMENTED_REQUEST with segRetry = 0)
  with R = numberOfApduRetries.  rank ≤ 2R + 1.

  The one way out of the measure: `indication` raising inside the retry (a
  local maxApduLengthAccepted / maxSegmentsAccepted that cannot be encoded)
  skips `self.retryCount = saveCount` — the counter is back at 0.  The step
  lemma therefore has the disjunct "a `raised` marker was emitted".
-/
import BacVerif.Lemmas.TsmC04Step
namespace BacVerif.Tsm
set_option linter.unusedSimpArgs false
set_option linter.unusedVariables false
variable {cfg : Cfg}

def rank (cfg : Cfg) (b : Body) : Nat :=
  match b.st with
  | .segReq => (cfg.retries - b.segRetry) + 1
  | .awaitConf => if b.retry < cfg.retries then (cfg.retries - b.retry) + (cfg.retries + 1) else 1
  | _ => 1

theorem rank_pos (cfg : Cfg) (b : Body) : 1 ≤ rank cfg b := by
  unfold rank; split <;> (try split) <;> omega

theorem rank_le (cfg : Cfg) (b : Body) : rank cfg b ≤ 2 * cfg.retries + 1 := by
  unfold rank; split <;> (try split) <;> omega

/-- the longest timer a client transaction ever arms, in ms -/
def maxT (cfg : Cfg) : Nat := max cfg.apduTimeout (4 * cfg.segTimeout)

/-- `d` is a deadline armed at `now`: not in the past, at most one maximal timeout ahead -/
def ArmedAt (cfg : Cfg) (now : Nat) (t : Option Nat) : Prop :=
  ∃ d, t = some d ∧ now ≤ d ∧ d ≤ now + maxT cfg * 1000

theorem armedAt_apdu (hpos : cfg.TimeoutsPos) (now : Nat) : ArmedAt cfg now (stateTimer now cfg.apduTimeout) := by
  refine ⟨now + cfg.apduTimeout * 1000, by simp [stateTimer, hpos.apdu, arm], by omega, ?_⟩
  have : cfg.apduTimeout ≤ maxT cfg := Nat.le_max_left _ _
  have := Nat.mul_le_mul_right 1000 this
  omega

theorem armedAt_seg (hpos : cfg.TimeoutsPos) (now : Nat) : ArmedAt cfg now (stateTimer now cfg.segTimeout) := by
  refine ⟨now + cfg.segTimeout * 1000, by simp [stateTimer, hpos.seg, arm], by omega, ?_⟩
  have : 4 * cfg.segTimeout ≤ maxT cfg := Nat.le_max_right _ _
  have := Nat.mul_le_mul_right 1000 this
  omega

theorem armedAt_seg4 (hpos : cfg.TimeoutsPos) (now : Nat) :
    ArmedAt cfg now (stateTimer now (cfg.segTimeout * 4)) := by
  have h4 := seg_timeout4 hpos
  refine ⟨now + cfg.segTimeout * 4 * 1000, by simp [stateTimer, h4, arm], by omega, ?_⟩
  have : 4 * cfg.segTimeout ≤ maxT cfg := Nat.le_max_right _ _
  have := Nat.mul_le_mul_right 1000 this
  omega

theorem armedAt_armSeg (now : Nat) : ArmedAt cfg now (arm now cfg.segTimeout) := by
  refine ⟨now + cfg.segTimeout * 1000, rfl, by omega, ?_⟩
  have : 4 * cfg.segTimeout ≤ maxT cfg := Nat.le_max_right _ _
  have := Nat.mul_le_mul_right 1000 this
  omega

theorem armedAt_armSeg4 (now : Nat) : ArmedAt cfg now (arm now (cfg.segTimeout * 4)) := by
  refine ⟨now + cfg.segTimeout * 4 * 1000, rfl, by omega, ?_⟩
  have : 4 * cfg.segTimeout ≤ maxT cfg := Nat.le_max_right _ _
  have := Nat.mul_le_mul_right 1000 this
  omega

/-! ### `ClientSSM.indication` -/

/-- what `indication` leaves behind: waiting for the reply, or at the start of
    a segmented transmission; its timer freshly armed -/
theorem clientIndication_shape (hpos : cfg.TimeoutsPos) {now : Nat} {di : Option DeviceInfo} {k : Key}
    {b b' : Body} {req : Apdu} {outs : List Out}
    (h : clientIndication cfg now di k b req = (some b', outs)) :
    (b'.st = .awaitConf ∨ (b'.st = .segReq ∧ b'.segRetry = 0)) ∧ ArmedAt cfg now b'.timer := by
  have h1 := armedAt_apdu (cfg := cfg) hpos now
  have h2 := armedAt_seg (cfg := cfg) hpos now
  unfold clientIndication at h
  simp only [clientAbortApp] at h
  hsplit h
  all_goals first
    | (simp only [Prod.mk.injEq, reduceCtorEq, false_and] at h; done)
    | (simp only [Prod.mk.injEq, Option.some.injEq] at h
       obtain ⟨rfl, _⟩ := h
       first
         | exact ⟨Or.inl rfl, h1⟩
         | exact ⟨Or.inr ⟨rfl, rfl⟩, h2⟩)

/-! ### `ClientSSM.process_task` -/

/-- **the measure decreases.**  An expiry that keeps the transaction strictly
    lowers its rank — unless an exception left the handler. -/
theorem clientTimeout_rank (hpos : cfg.TimeoutsPos) {now : Nat} {di : Option DeviceInfo} {k : Key}
    {b b' : Body} {outs : List Out} (h : clientTimeout cfg now di k b = (some b', outs)) :
    rank cfg b' < rank cfg b ∨ outs.any Out.isRaised = true := by
  unfold clientTimeout at h
  simp only [clientAbortApp] at h
  split at h
  · -- SEGMENTED_REQUEST
    rename_i hst
    hsplit h
    all_goals first
      | (simp only [Prod.mk.injEq, reduceCtorEq, false_and] at h; done)
      | (simp only [Prod.mk.injEq, Option.some.injEq] at h
         obtain ⟨rfl, _⟩ := h
         left
         simp only [rank, hst]
         omega)
  · -- AWAIT_CONFIRMATION
    rename_i hst
    split at h
    · rename_i hlt
      split at h
      · simp only [Prod.mk.injEq, Option.some.injEq] at h
        obtain ⟨_, rfl⟩ := h
        right; rfl
      · split at h
        · rename_i b1 outs1 hind
          have hshape := (clientIndication_shape hpos hind).1
          split at h
          · rename_i hr
            simp only [Prod.mk.injEq, Option.some.injEq] at h
            obtain ⟨_, rfl⟩ := h
            right; exact hr
          · simp only [Prod.mk.injEq, Option.some.injEq] at h
            obtain ⟨rfl, _⟩ := h
            left
            rcases hshape with h1 | ⟨h1, h2⟩
            · simp only [rank, h1, hst, if_pos hlt]
              split <;> omega
            · simp only [rank, h1, hst, if_pos hlt, h2]
              omega
        · simp only [Prod.mk.injEq, reduceCtorEq, false_and] at h
    · simp only [Prod.mk.injEq, reduceCtorEq, false_and] at h
  · simp only [Prod.mk.injEq, reduceCtorEq, false_and] at h
  · simp only [Prod.mk.injEq, Option.some.injEq] at h
    obtain ⟨_, rfl⟩ := h
    right; rfl

/-- an expiry that keeps a (well-formed) transaction re-arms its timer at most
    one maximal timeout ahead -/
theorem clientTimeout_timer (hpos : cfg.TimeoutsPos) {now : Nat} {di : Option DeviceInfo} {k : Key}
    {b b' : Body} {outs : List Out} (hst : ClientSt b) (hctx : ∃ c, b.ctx = some c)
    (h : clientTimeout cfg now di k b = (some b', outs)) : ArmedAt cfg now b'.timer := by
  obtain ⟨c, hc⟩ := hctx
  have h3 := armedAt_armSeg (cfg := cfg) now
  unfold clientTimeout at h
  simp only [clientAbortApp] at h
  split at h
  · hsplit h
    all_goals first
      | (simp only [Prod.mk.injEq, reduceCtorEq, false_and] at h; done)
      | (simp only [Prod.mk.injEq, Option.some.injEq] at h
         obtain ⟨rfl, _⟩ := h
         exact h3)
  · split at h
    · rw [hc] at h
      simp only at h
      split at h
      · rename_i b1 outs1 hind
        have hshape := (clientIndication_shape hpos hind).2
        split at h
        all_goals
          simp only [Prod.mk.injEq, Option.some.injEq] at h
          obtain ⟨rfl, _⟩ := h
          exact hshape
      · simp only [Prod.mk.injEq, reduceCtorEq, false_and] at h
    · simp only [Prod.mk.injEq, reduceCtorEq, false_and] at h
  · simp only [Prod.mk.injEq, reduceCtorEq, false_and] at h
  · rename_i hne1 hne2 hne3
    rcases hst with h1 | h1 | h1
    · exact absurd h1 hne1
    · exact absurd h1 hne2
    · exact absurd h1 hne3

/-! ### `ClientSSM.confirmation`: an arrival -/

/-- **arrival_extends_once** (handler level).  A PDU handed to a client
    transaction leaves its timer as it was or re-arms it at most one maximal
    timeout ahead of the arrival. -/
theorem clientConfirmation_timer (hpos : cfg.TimeoutsPos) {now : Nat} {k : Key} {b b' : Body}
    {a : Apdu} {outs : List Out} (h : clientConfirmation cfg now k b a = (some b', outs)) :
    b'.timer = b.timer ∨ ArmedAt cfg now b'.timer := by
  have h1 := armedAt_apdu (cfg := cfg) hpos now
  have h2 := armedAt_seg4 (cfg := cfg) hpos now
  have h3 := armedAt_armSeg (cfg := cfg) now
  have h4 := armedAt_armSeg4 (cfg := cfg) now
  unfold clientConfirmation at h
  split at h
  · unfold clientSegmentedRequest at h
    simp only [clientAbortBoth] at h
    hsplit h
    all_goals first
      | (simp only [Prod.mk.injEq, reduceCtorEq, false_and] at h; done)
      | (simp only [Prod.mk.injEq, Option.some.injEq] at h
         obtain ⟨rfl, _⟩ := h
         first
           | exact Or.inl rfl
           | exact Or.inr h1
           | exact Or.inr h2
           | exact Or.inr h3
           | exact Or.inr h4)
  · unfold clientAwaitConfirmation at h
    simp only [clientAbortBoth, clientAbortApp] at h
    hsplit h
    all_goals first
      | (simp only [Prod.mk.injEq, reduceCtorEq, false_and] at h; done)
      | (simp only [Prod.mk.injEq, Option.some.injEq] at h
         obtain ⟨rfl, _⟩ := h
         first
           | exact Or.inl rfl
           | exact Or.inr h1
           | exact Or.inr h2
           | exact Or.inr h3
           | exact Or.inr h4)
  · unfold clientSegmentedConfirmation at h
    simp only [clientAbortBoth] at h
    hsplit h
    all_goals first
      | (simp only [Prod.mk.injEq, reduceCtorEq, false_and] at h; done)
      | (simp only [Prod.mk.injEq, Option.some.injEq] at h
         obtain ⟨rfl, _⟩ := h
         first
           | exact Or.inl rfl
           | exact Or.inr h4
           | exact Or.inr h2)
  · simp only [Prod.mk.injEq, Option.some.injEq] at h
    obtain ⟨rfl, _⟩ := h
    exact Or.inl rfl

end BacVerif.Tsm
