/-
  Lemmas.BipOnce — in a full mesh every node is served by exactly one BBMD (its "home"):
  the closed forms of Lemmas.BipDist collapse to indicator functions of the home address.
-/
import BacVerif.Lemmas.BipDist
namespace BacVerif.Bip

/-- BBMD node `C` of subnet `nc` is the one that serves node `x` of subnet `nx`:
    `x` is `C` itself, or an ordinary node of `C`'s subnet, or a foreign device registered
    (status 0, BBMD address = `C`) and listed in `C`'s foreign device table -/
def HomeAt (nx : Net) (x : Node) (nc : Net) (C : Node) : Prop :=
  match C.st with
  | .bbmd cb =>
      x.addr = C.addr ∨ (x.isSimple = true ∧ nx.id = nc.id) ∨
      (x.accepts C.addr = true ∧ x.addr ∈ cb.fdt.map (·.addr))
  | _ => False

instance (nx : Net) (x : Node) (nc : Net) (C : Node) : Decidable (HomeAt nx x nc C) := by
  unfold HomeAt; split <;> exact inferInstance

/-- `h` is the address of the BBMD serving `x` -/
def Home (w : World) (nx : Net) (x : Node) (h : Addr) : Prop :=
  ∃ nc ∈ w.nets, ∃ C ∈ nc.nodes, C.addr = h ∧ HomeAt nx x nc C

instance (w : World) (nx : Net) (x : Node) (h : Addr) : Decidable (Home w nx x h) := by
  unfold Home; exact inferInstance

def Lists (B : Node) (a : Addr) : Prop :=
  match B.st with
  | .bbmd b => a ∈ b.bdt.map (·.addr)
  | _ => True

instance (B : Node) (a : Addr) : Decidable (Lists B a) := by unfold Lists; split <;> exact inferInstance

/-- full mesh: every BBMD lists every BBMD, itself included -/
def Mesh (w : World) : Prop :=
  ∀ n ∈ w.nets, ∀ B ∈ n.nodes, ∀ nc ∈ w.nets, ∀ C ∈ nc.nodes, C.isBbmd = true → Lists B C.addr

instance (w : World) : Decidable (Mesh w) := by unfold Mesh; exact inferInstance

/-! ### weight 0 counts nothing -/

theorem hit_zero (a y : Addr) : hit a y 0 = 0 := by simp [hit]
theorem viaPeer_zero (nc : Net) (cb : Bbmd) (nx : Net) (x : Node) : viaPeer nc cb nx x 0 = 0 := by
  simp [viaPeer, hit]
theorem viaHop_zero (nc : Net) (cb : Bbmd) (nx : Net) (x : Node) : viaHop nc cb nx x 0 = 0 := by
  simp [viaHop]
theorem peerVal_zero (w : World) (nx : Net) (x : Node) (e : BdtEntry) : peerVal w nx x 0 e = 0 := by
  unfold peerVal; split
  · split <;> simp [viaPeer_zero, viaHop_zero]
  · rfl
theorem peerExtra_zero (w : World) (nx : Net) (x : Node) (sa : Addr) (e : BdtEntry) :
    peerExtra w nx x 0 sa e = 0 := by
  unfold peerExtra; split
  · split <;> simp [extraLocal, extraHop]
  · rfl
theorem fwdExtra_zero (w : World) (nx : Net) (x : Node) (b : Bbmd) : fwdExtra w nx x 0 b = 0 := by
  unfold fwdExtra
  exact sum_none _ _ (fun e _ => peerExtra_zero w nx x b.addr e)
theorem firstExtras_zero (w : World) (nx : Net) (x : Node) (n : Net) (s : Addr) :
    firstExtras w nx x 0 n s = 0 := by
  unfold firstExtras
  apply sum_none
  intro nd _
  split
  · split <;> simp [fwdExtra_zero]
  · rfl
theorem distExtra_zero (w : World) (nx : Net) (x : Node) (nc : Net) (cb : Bbmd) :
    distExtra w nx x 0 nc cb = 0 := by
  unfold distExtra
  exact sum_none _ _ (fun e _ => by split <;> simp [extraLocal, peerExtra_zero])
theorem fwdFrom_zero (w : World) (nx : Net) (x : Node) (b : Bbmd) : fwdFrom w nx x 0 b = 0 := by
  unfold fwdFrom
  rw [sum_none _ _ (fun e _ => peerVal_zero w nx x e)]
  simp
theorem firstBbmds_zero (w : World) (nx : Net) (x : Node) (n : Net) (s : Addr) :
    firstBbmds w nx x 0 n s = 0 := by
  unfold firstBbmds
  apply sum_none
  intro nd _
  split
  · split <;> simp [fwdFrom_zero]
  · rfl
theorem sameSubnet_zero (nx : Net) (x : Node) (n : Net) (s : Addr) : sameSubnet nx x 0 n s = 0 := by
  simp [sameSubnet]
theorem viaLocal_zero (nc : Net) (cb : Bbmd) (nx : Net) (x : Node) : viaLocal nc cb nx x 0 = 0 := by
  simp [viaLocal]
theorem distFrom_zero (w : World) (nx : Net) (x : Node) (nc : Net) (cb : Bbmd) (fd : Addr) :
    distFrom w nx x 0 nc cb fd = 0 := by
  unfold distFrom
  rw [sum_none _ _ (fun e _ => by split <;> simp [viaLocal_zero, peerVal_zero])]
  simp [hit_zero]

/-! ### kinds -/

theorem kind_trichotomy (x : Node) :
    (x.isSimple = true ∧ x.isBbmd = false ∧ x.isForeign = false) ∨
    (x.isSimple = false ∧ x.isBbmd = true ∧ x.isForeign = false) ∨
    (x.isSimple = false ∧ x.isBbmd = false ∧ x.isForeign = true) := by
  obtain ⟨a, st⟩ := x
  cases st <;> simp [Node.isSimple, Node.isBbmd, Node.isForeign, Kind.isBbmd]

theorem accepts_foreign {x : Node} {a : Addr} (h : x.accepts a = true) : x.isForeign = true := by
  obtain ⟨xa, st⟩ := x
  cases st <;> simp [Node.accepts, Node.isForeign] at h ⊢

theorem accepts_inj {x : Node} {a b : Addr} (h1 : x.accepts a = true) (h2 : x.accepts b = true) : a = b := by
  obtain ⟨xa, st⟩ := x
  cases st with
  | foreign fs =>
    simp only [Node.accepts, decide_eq_true_eq] at h1 h2
    have := h1.2.symm.trans h2.2
    exact Option.some.inj this
  | simple => simp [Node.accepts] at h1
  | bbmd _ => simp [Node.accepts] at h1

section home
variable {w : World} (hw : WF w) (hp : Pop w) (hm : Mesh w)
variable {nx : Net} (hnx : nx ∈ w.nets) {x : Node} (hx : x ∈ nx.nodes) {h : Addr} (hh : Home w nx x h)
variable {nc : Net} (hnc : nc ∈ w.nets) {ca : Addr} {cb : Bbmd} (hC : (⟨ca, .bbmd cb⟩ : Node) ∈ nc.nodes)
include hw hp hm hnx hx hh hnc hC

/-- the node `x` is the BBMD `C` iff `C` is its home and `x` is a BBMD -/
theorem hit_home : hit x.addr ca 1 = if ca = h ∧ x.isBbmd = true then 1 else 0 := by
  obtain ⟨nh, hnh, H, hH, hHa, hat⟩ := hh
  obtain ⟨xa, xst⟩ := x
  cases xst with
  | simple =>
    have : ca ≠ xa := fun he => by
      have := hw.node_eq hnc hnx hC hx he
      cases this
    simp [hit, this, Node.isBbmd, Kind.isBbmd]
  | foreign fs =>
    have : ca ≠ xa := fun he => by
      have := hw.node_eq hnc hnx hC hx he
      cases this
    simp [hit, this, Node.isBbmd, Kind.isBbmd]
  | bbmd xb =>
    have hxh : xa = h := by
      unfold HomeAt at hat
      split at hat
      · rcases hat with h1 | h1 | h1
        · exact h1.trans hHa
        · simp [Node.isSimple] at h1
        · simp [Node.accepts] at h1
      · exact hat.elim
    subst hxh
    simp [hit, Node.isBbmd, Kind.isBbmd]

/-- an ordinary node hears `C`'s local re-broadcast iff `C` is its home -/
theorem local_home : viaLocal nc cb nx x 1 = if ca = h ∧ x.isSimple = true then 1 else 0 := by
  obtain ⟨nh, hnh, H, hH, hHa, hat⟩ := hh
  obtain ⟨hca, _⟩ := bbmdOk_of hw hp hnx hx hnc hC
  unfold viaLocal
  by_cases hs : x.isSimple = true
  · -- x is simple: never equal to a BBMD node; its home is the BBMD of its own subnet
    have hxC : x.addr ≠ ca := by
      intro he
      have : x = ⟨ca, .bbmd cb⟩ := hw.node_eq hnx hnc hx hC he
      subst this; simp [Node.isSimple] at hs
    have hnhx : nx.id = nh.id := by
      unfold HomeAt at hat
      split at hat
      · rcases hat with h1 | h1 | h1
        · have : x = H := hw.node_eq hnx hnh hx hH h1
          subst this
          next hb hst => simp [Node.isSimple, hst] at hs
        · exact h1.2
        · have := accepts_foreign h1.1
          rcases kind_trichotomy x with k | k | k <;> simp_all
      · exact hat.elim
    have hHb : H.isBbmd = true := by
      unfold HomeAt at hat
      split at hat
      · next hb hst => simp [Node.isBbmd, Kind.isBbmd, hst]
      · exact hat.elim
    have hiff : nx.id = nc.id ↔ ca = h := by
      constructor
      · intro hid
        have h1 : nc = nh := hw.net_eq hnc hnh (hid.symm.trans hnhx)
        subst h1
        have := hp.2 nc hnc _ hC H hH rfl hHb
        rw [← this] at hHa; exact hHa
      · intro he
        subst he
        have : nc = nh := hw.node_net hnc hnh hC hH hHa.symm
        subst this; exact hnhx
    rw [hca]
    by_cases hid : nx.id = nc.id
    · rw [if_pos ⟨hid, hxC, hs⟩, if_pos ⟨hiff.1 hid, hs⟩]
    · have : ¬ ca = h := fun he => hid (hiff.2 he)
      rw [if_neg (fun hc => hid hc.1), if_neg (fun hc => this hc.1)]
  · simp [hs]

/-- a foreign device gets `C`'s FDT copy iff `C` is its home -/
theorem fdt_home :
    (if x.addr ∈ cb.fdt.map (·.addr) ∧ x.accepts cb.addr = true then 1 else 0) =
      if ca = h ∧ x.isForeign = true then 1 else 0 := by
  obtain ⟨nh, hnh, H, hH, hHa, hat⟩ := hh
  obtain ⟨hca, _⟩ := bbmdOk_of hw hp hnx hx hnc hC
  rw [hca]
  by_cases hf : x.isForeign = true
  · -- the home of a foreign device is the BBMD it accepts from, and it is listed there
    have hacc : x.accepts h = true ∧ ∃ hb, H.st = .bbmd hb ∧ x.addr ∈ hb.fdt.map (·.addr) := by
      unfold HomeAt at hat
      split at hat
      · next hb hst =>
        rcases hat with h1 | h1 | h1
        · have : x = H := hw.node_eq hnx hnh hx hH h1
          subst this; simp [Node.isForeign, hst] at hf
        · rcases kind_trichotomy x with k | k | k <;> simp_all
        · exact ⟨hHa ▸ h1.1, hb, hst, h1.2⟩
      · exact hat.elim
    obtain ⟨hacc, hb, hHst, hlisted⟩ := hacc
    by_cases he : ca = h
    · subst he
      have hHC : H = ⟨ca, .bbmd cb⟩ := hw.node_eq hnh hnc hH hC hHa
      subst hHC
      simp only [Kind.bbmd.injEq] at hHst
      subst hHst
      simp [hlisted, hacc, hf]
    · have : ¬ x.accepts ca = true := fun h2 => he (accepts_inj h2 hacc)
      simp [this, he]
  · have : ¬ x.accepts ca = true := fun h2 => hf (accepts_foreign h2)
    simp [this, hf]

/-- **in a full mesh a unicast Forwarded-NPDU to BBMD `C` reaches `x` iff `C` is `x`'s home** -/
theorem viaPeer_home : viaPeer nc cb nx x 1 = if ca = h then 1 else 0 := by
  obtain ⟨hca, _⟩ := bbmdOk_of hw hp hnx hx hnc hC
  have hself : cb.selfListed = true := by
    have := hm nc hnc _ hC nc hnc _ hC rfl
    simp only [Lists] at this
    unfold Bbmd.selfListed
    rw [List.any_eq_true]
    obtain ⟨e, he, hea⟩ := List.mem_map.1 this
    exact ⟨e, he, by simp [hea, hca]⟩
  have h1 := hit_home hw hp hm hnx hx hh hnc hC
  have h2 := local_home hw hp hm hnx hx hh hnc hC
  have h3 := fdt_home hw hp hm hnx hx hh hnc hC
  unfold viaPeer
  unfold viaLocal at h2
  rw [hca] at h2 ⊢
  rw [h1]
  rw [hca] at h3
  rw [h3]
  simp only [hself, true_and]
  rw [h2]
  by_cases he : ca = h
  · rcases kind_trichotomy x with k | k | k <;> simp [he, k.1, k.2.1, k.2.2]
  · simp [he]

end home

theorem filter_map_nodup {α κ} (key : α → κ) (p : α → Bool) (l : List α) (hnd : (l.map key).Nodup) :
    ((l.filter p).map key).Nodup :=
  (List.filter_sublist.map key).nodup hnd

section collapse
variable {w : World} (hw : WF w) (hp : Pop w) (hm : Mesh w)
variable {nx : Net} (hnx : nx ∈ w.nets) {x : Node} (hx : x ∈ nx.nodes) {h : Addr} (hh : Home w nx x h)
include hw hp hm hnx hx hh

/-- the home is a BBMD node, hence listed by every BBMD -/
theorem home_listed {n : Net} (hn : n ∈ w.nets) {ba : Addr} {b : Bbmd}
    (hB : (⟨ba, .bbmd b⟩ : Node) ∈ n.nodes) : h ∈ b.bdt.map (·.addr) := by
  obtain ⟨nh, hnh, H, hH, hHa, hat⟩ := hh
  have hHb : H.isBbmd = true := by
    unfold HomeAt at hat
    split at hat
    · next hb hst => simp [Node.isBbmd, Kind.isBbmd, hst]
    · exact hat.elim
  have := hm n hn _ hB nh hnh H hH hHb
  simpa [Lists, hHa] using this

/-- for a node that is not a foreign device: it lives on the subnet of BBMD `B` iff `B` is its home -/
theorem same_net_iff_home (hnf : x.isForeign = false) {n : Net} (hn : n ∈ w.nets) {ba : Addr} {b : Bbmd}
    (hB : (⟨ba, .bbmd b⟩ : Node) ∈ n.nodes) : nx.id = n.id ↔ ba = h := by
  obtain ⟨nh, hnh, H, hH, hHa, hat⟩ := hh
  have hHb : H.isBbmd = true := by
    unfold HomeAt at hat
    split at hat
    · next hb hst => simp [Node.isBbmd, Kind.isBbmd, hst]
    · exact hat.elim
  -- x and its home share the subnet
  have hnxh : nx = nh := by
    unfold HomeAt at hat
    split at hat
    · rcases hat with h1 | h1 | h1
      · exact hw.node_net hnx hnh hx hH h1
      · exact hw.net_eq hnx hnh h1.2
      · have := accepts_foreign h1.1; simp [this] at hnf
    · exact hat.elim
  subst hnxh
  constructor
  · intro hid
    have : nx = n := hw.net_eq hnx hn hid
    subst this
    have := hp.2 nx hnx _ hB H hH rfl hHb
    rw [← this] at hHa; exact hHa
  · intro he
    subst he
    exact congrArg Net.id (hw.node_net hnx hn hH hB hHa)

/-- one-hop arrival in a full mesh: reaches `x` iff the subnet's BBMD is `x`'s home -/
theorem viaHop_home {nc : Net} (hnc : nc ∈ w.nets) {ca : Addr} {cb : Bbmd}
    (hC : (⟨ca, .bbmd cb⟩ : Node) ∈ nc.nodes) : viaHop nc cb nx x 1 = if ca = h then 1 else 0 := by
  obtain ⟨hca, _⟩ := bbmdOk_of hw hp hnx hx hnc hC
  have h3 := fdt_home hw hp hm hnx hx hh hnc hC
  unfold viaHop
  rw [h3]
  rcases kind_trichotomy x with k | k | k
  · have hiff := same_net_iff_home hw hp hm hnx hx hh k.2.2 hnc hC
    by_cases he : ca = h
    · simp [hiff.2 he, he, k.2.2]
    · have : ¬ nx.id = nc.id := fun hc => he (hiff.1 hc)
      simp [this, he]
  · have hiff := same_net_iff_home hw hp hm hnx hx hh k.2.2 hnc hC
    by_cases he : ca = h
    · simp [hiff.2 he, he, k.2.2]
    · have : ¬ nx.id = nc.id := fun hc => he (hiff.1 hc)
      simp [this, he]
  · by_cases he : ca = h <;> simp [k.2.2, he]

theorem peerVal_home {n : Net} (hn : n ∈ w.nets) {ba : Addr} {b : Bbmd}
    (hB : (⟨ba, .bbmd b⟩ : Node) ∈ n.nodes) (e : BdtEntry) (he : e ∈ b.bdt) :
    peerVal w nx x 1 e = if e.addr = h then 1 else 0 := by
  obtain ⟨_, _, _, _, hbd, _⟩ := bbmdOk_of hw hp hnx hx hn hB
  obtain ⟨nc, hnc, cn, hcn, hce, hcb, _⟩ := hbd e he
  obtain ⟨ca, cst⟩ := cn
  cases cst with
  | bbmd cb =>
    simp only at hce
    subst hce
    unfold peerVal
    rw [bbmdAt_eq hw hnc hcn rfl]
    simp only
    split
    · exact viaPeer_home hw hp hm hnx hx hh hnc hcn
    · exact viaHop_home hw hp hm hnx hx hh hnc hcn
  | simple => simp [Node.isBbmd, Kind.isBbmd] at hcb
  | foreign _ => simp [Node.isBbmd, Kind.isBbmd] at hcb

/-- **what a BBMD forwards as first BBMD reaches `x` once iff `x` is served elsewhere or is one of
    its own foreign devices** -/
theorem fwdFrom_home {n : Net} (hn : n ∈ w.nets) {ba : Addr} {b : Bbmd}
    (hB : (⟨ba, .bbmd b⟩ : Node) ∈ n.nodes) :
    fwdFrom w nx x 1 b = (if h ≠ ba then 1 else 0) + (if ba = h ∧ x.isForeign = true then 1 else 0) := by
  obtain ⟨hca, _, hbn, _, _, _⟩ := bbmdOk_of hw hp hnx hx hn hB
  unfold fwdFrom
  rw [fdt_home hw hp hm hnx hx hh hn hB]
  congr 1
  have h1 : ((b.bdt.filter fun e => e.addr ≠ b.addr).map (peerVal w nx x 1)) =
      (b.bdt.filter fun e => e.addr ≠ b.addr).map fun e => if e.addr = h then 1 else 0 := by
    apply List.map_congr_left
    intro e he
    exact peerVal_home hw hp hm hnx hx hh hn hB e (List.mem_filter.1 he).1
  rw [h1, sum_key_indicator (fun e : BdtEntry => e.addr) h 1 _ (filter_map_nodup _ _ _ hbn)]
  have hl := home_listed hw hp hm hnx hx hh hn hB
  rw [hca]
  by_cases hne : h = ba
  · have : h ∉ (b.bdt.filter fun e => e.addr ≠ ba).map (·.addr) := by
      intro hmem
      obtain ⟨e, he, hea⟩ := List.mem_map.1 hmem
      have := (List.mem_filter.1 he).2
      simp [hea, hne] at this
    rw [if_neg this]; simp [hne]
  · have : h ∈ (b.bdt.filter fun e => e.addr ≠ ba).map (·.addr) := by
      obtain ⟨e, he, hea⟩ := List.mem_map.1 hl
      exact List.mem_map.2 ⟨e, List.mem_filter.2 ⟨he, by simp [hea, hne]⟩, hea⟩
    rw [if_pos this]; simp [hne]

/-- the only BBMD of a subnet does all the forwarding there -/
theorem firstBbmds_eq (c : Nat) {n : Net} (hn : n ∈ w.nets) {ba : Addr} {b : Bbmd}
    (hB : (⟨ba, .bbmd b⟩ : Node) ∈ n.nodes) (s : Addr) :
    firstBbmds w nx x c n s = if ba ≠ s then fwdFrom w nx x c b else 0 := by
  unfold firstBbmds
  rw [sum_unique _ n.nodes _ hB (nodup_of_map _ _ (hw.nodes_nodup hn))]
  intro z hz hzB
  split
  · cases hzs : z.st with
    | bbmd zb =>
      have : z = ⟨ba, .bbmd b⟩ := hp.2 n hn z hz _ hB (by simp [Node.isBbmd, Kind.isBbmd, hzs]) rfl
      exact absurd this hzB
    | simple => rfl
    | foreign _ => rfl
  · rfl

theorem home_foreign_accepts (hf : x.isForeign = true) : x.accepts h = true := by
  obtain ⟨nh, hnh, H, hH, hHa, hat⟩ := hh
  unfold HomeAt at hat
  split at hat
  · next hb hst =>
    rcases hat with h1 | h1 | h1
    · have : x = H := hw.node_eq hnx hnh hx hH h1
      subst this; simp [Node.isForeign, hst] at hf
    · rcases kind_trichotomy x with k | k | k <;> simp_all
    · exact hHa ▸ h1.1
  · exact hat.elim

end collapse

/-! ### the extra copies ("echoes") -/

def AcceptsClear (n : Net) (y : Node) (nb : Net) (B : Node) : Prop :=
  match B.st with
  | .bbmd b => y.accepts b.addr = true → (nb.id ≠ n.id ∧ ∀ e ∈ b.bdt, dirBcast e ≠ n.bcast)
  | _ => True

instance (n : Net) (y : Node) (nb : Net) (B : Node) : Decidable (AcceptsClear n y nb B) := by
  unfold AcceptsClear; split <;> exact inferInstance

/-- the exact side condition of "exactly once": the BBMD a foreign device is registered with
    never broadcasts into the device's subnet — it is neither that subnet's own BBMD (local
    re-broadcast) nor has it a one-hop entry whose directed broadcast goes there -/
def NoEcho (w : World) : Prop :=
  ∀ n ∈ w.nets, ∀ y ∈ n.nodes, ∀ nb ∈ w.nets, ∀ B ∈ nb.nodes, AcceptsClear n y nb B

instance (w : World) : Decidable (NoEcho w) := by unfold NoEcho; exact inferInstance

def TwoHopOnly (B : Node) : Prop :=
  match B.st with
  | .bbmd b => ∀ e ∈ b.bdt, dirBcast e = e.addr
  | _ => True

instance (B : Node) : Decidable (TwoHopOnly B) := by unfold TwoHopOnly; split <;> exact inferInstance

/-- every BDT entry of every BBMD is two-hop -/
def AllTwoHop (w : World) : Prop := ∀ n ∈ w.nets, ∀ B ∈ n.nodes, TwoHopOnly B

instance (w : World) : Decidable (AllTwoHop w) := by unfold AllTwoHop; exact inferInstance

section noecho
variable {w : World} (hw : WF w) (hp : Pop w) (hq : NoEcho w) (c : Nat)
variable {nx : Net} (hnx : nx ∈ w.nets) {x : Node} (hx : x ∈ nx.nodes)
include hw hp hq hnx hx

theorem extraLocal_noecho {nc : Net} (hnc : nc ∈ w.nets) {ca : Addr} {cb : Bbmd}
    (hC : (⟨ca, .bbmd cb⟩ : Node) ∈ nc.nodes) : extraLocal nc cb nx x c = 0 := by
  unfold extraLocal
  have := hq nx hnx x hx nc hnc _ hC
  simp only [AcceptsClear] at this
  by_cases h : nx.id = nc.id ∧ x.accepts cb.addr = true
  · exact absurd h.1.symm (this h.2).1
  · simp [h]

theorem peerExtra_noecho {n : Net} (hn : n ∈ w.nets) {ba : Addr} {b : Bbmd}
    (hB : (⟨ba, .bbmd b⟩ : Node) ∈ n.nodes) (e : BdtEntry) (he : e ∈ b.bdt) :
    peerExtra w nx x c ba e = 0 := by
  obtain ⟨hca, _, _, _, hbd, _⟩ := bbmdOk_of hw hp hnx hx hn hB
  obtain ⟨nc, hnc, cn, hcn, hce, hcb, hkind⟩ := hbd e he
  obtain ⟨ca, cst⟩ := cn
  cases cst with
  | bbmd cb =>
    simp only at hce
    subst hce
    unfold peerExtra
    rw [bbmdAt_eq hw hnc hcn rfl]
    simp only
    split
    · split
      · exact extraLocal_noecho hw hp hq c hnx hx hnc hcn
      · rfl
    · next hd =>
      unfold extraHop
      by_cases h : nx.id = nc.id ∧ x.accepts ba = true
      · rcases hkind with h2 | ⟨h1, _⟩
        · exact absurd h2 hd
        · have hnn : nx = nc := hw.net_eq hnx hnc h.1
          subst hnn
          have := hq nx hnx x hx n hn _ hB
          simp only [AcceptsClear] at this
          exact absurd h1 ((this (hca ▸ h.2)).2 e he)
      · simp [h]
  | simple => simp [Node.isBbmd, Kind.isBbmd] at hcb
  | foreign _ => simp [Node.isBbmd, Kind.isBbmd] at hcb

theorem fwdExtra_noecho {n : Net} (hn : n ∈ w.nets) {ba : Addr} {b : Bbmd}
    (hB : (⟨ba, .bbmd b⟩ : Node) ∈ n.nodes) : fwdExtra w nx x c b = 0 := by
  obtain ⟨hca, _⟩ := bbmdOk_of hw hp hnx hx hn hB
  unfold fwdExtra
  apply sum_none
  intro e he
  rw [hca]
  exact peerExtra_noecho hw hp hq c hnx hx hn hB e (List.mem_filter.1 he).1

theorem firstExtras_noecho {n : Net} (hn : n ∈ w.nets) (s : Addr) : firstExtras w nx x c n s = 0 := by
  unfold firstExtras
  apply sum_none
  intro nd hnd
  split
  · obtain ⟨ya, yst⟩ := nd
    cases yst with
    | bbmd b => exact fwdExtra_noecho hw hp hq c hnx hx hn hnd
    | simple => rfl
    | foreign _ => rfl
  · rfl

theorem distExtra_noecho {nc : Net} (hnc : nc ∈ w.nets) {ca : Addr} {cb : Bbmd}
    (hC : (⟨ca, .bbmd cb⟩ : Node) ∈ nc.nodes) : distExtra w nx x c nc cb = 0 := by
  obtain ⟨hca, _⟩ := bbmdOk_of hw hp hnx hx hnc hC
  unfold distExtra
  apply sum_none
  intro e he
  split
  · exact extraLocal_noecho hw hp hq c hnx hx hnc hC
  · rw [hca]; exact peerExtra_noecho hw hp hq c hnx hx hnc hC e he

end noecho

/-! ### the misconfiguration: a foreign device on the subnet of its own BBMD (two-hop mesh) -/

section ownnet
variable {w : World} (hw : WF w) (hp : Pop w) (hm : Mesh w) (h2 : AllTwoHop w)
variable {nx : Net} (hnx : nx ∈ w.nets) {x : Node} (hx : x ∈ nx.nodes) {h : Addr} (hh : Home w nx x h)
variable (hxf : x.isForeign = true) (hon : ∀ nc ∈ w.nets, ∀ C ∈ nc.nodes, C.addr = h → nx.id = nc.id)
include hw hp hm h2 hnx hx hh hxf hon

theorem extraLocal_own {nc : Net} (hnc : nc ∈ w.nets) {ca : Addr} {cb : Bbmd}
    (hC : (⟨ca, .bbmd cb⟩ : Node) ∈ nc.nodes) :
    extraLocal nc cb nx x 1 = if ca = h then 1 else 0 := by
  obtain ⟨hca, _⟩ := bbmdOk_of hw hp hnx hx hnc hC
  have hacc := home_foreign_accepts hw hp hm hnx hx hh hxf
  unfold extraLocal
  rw [hca]
  by_cases he : ca = h
  · subst he
    have := hon nc hnc _ hC rfl
    simp [this, hacc]
  · have : ¬ x.accepts ca = true := fun hc => he (accepts_inj hc hacc)
    simp [this, he]

theorem peerExtra_own {n : Net} (hn : n ∈ w.nets) {ba : Addr} {b : Bbmd}
    (hB : (⟨ba, .bbmd b⟩ : Node) ∈ n.nodes) (sa : Addr) (e : BdtEntry) (he : e ∈ b.bdt) :
    peerExtra w nx x 1 sa e = if e.addr = h then 1 else 0 := by
  obtain ⟨_, _, _, _, hbd, _⟩ := bbmdOk_of hw hp hnx hx hn hB
  obtain ⟨nc, hnc, cn, hcn, hce, hcb, _⟩ := hbd e he
  have htwo : dirBcast e = e.addr := by
    have := h2 n hn _ hB
    simp only [TwoHopOnly] at this
    exact this e he
  obtain ⟨ca, cst⟩ := cn
  cases cst with
  | bbmd cb =>
    simp only at hce
    subst hce
    have hself : cb.selfListed = true := by
      obtain ⟨hca, _⟩ := bbmdOk_of hw hp hnx hx hnc hcn
      have := hm nc hnc _ hcn nc hnc _ hcn rfl
      simp only [Lists] at this
      unfold Bbmd.selfListed
      rw [List.any_eq_true]
      obtain ⟨e', he', hea⟩ := List.mem_map.1 this
      exact ⟨e', he', by simp [hea, hca]⟩
    unfold peerExtra
    rw [bbmdAt_eq hw hnc hcn rfl]
    simp only [htwo, if_true, hself]
    exact extraLocal_own hw hp hm h2 hnx hx hh hxf hon hnc hcn
  | simple => simp [Node.isBbmd, Kind.isBbmd] at hcb
  | foreign _ => simp [Node.isBbmd, Kind.isBbmd] at hcb

/-- a first BBMD other than the device's own causes one extra copy (the own BBMD re-broadcasts
    what it gets by unicast) -/
theorem fwdExtra_own {n : Net} (hn : n ∈ w.nets) {ba : Addr} {b : Bbmd}
    (hB : (⟨ba, .bbmd b⟩ : Node) ∈ n.nodes) :
    fwdExtra w nx x 1 b = if h ≠ ba then 1 else 0 := by
  obtain ⟨hca, _, hbn, _, _, _⟩ := bbmdOk_of hw hp hnx hx hn hB
  unfold fwdExtra
  have h1 : ((b.bdt.filter fun e => e.addr ≠ b.addr).map (peerExtra w nx x 1 b.addr)) =
      (b.bdt.filter fun e => e.addr ≠ b.addr).map fun e => if e.addr = h then 1 else 0 := by
    apply List.map_congr_left
    intro e he
    exact peerExtra_own hw hp hm h2 hnx hx hh hxf hon hn hB b.addr e (List.mem_filter.1 he).1
  rw [h1, sum_key_indicator (fun e : BdtEntry => e.addr) h 1 _ (filter_map_nodup _ _ _ hbn)]
  have hl := home_listed hw hp hm hnx hx hh hn hB
  rw [hca]
  by_cases hne : h = ba
  · have : h ∉ (b.bdt.filter fun e => e.addr ≠ ba).map (·.addr) := by
      intro hmem
      obtain ⟨e, he, hea⟩ := List.mem_map.1 hmem
      have := (List.mem_filter.1 he).2
      simp [hea, hne] at this
    rw [if_neg this]; simp [hne]
  · have : h ∈ (b.bdt.filter fun e => e.addr ≠ ba).map (·.addr) := by
      obtain ⟨e, he, hea⟩ := List.mem_map.1 hl
      exact List.mem_map.2 ⟨e, List.mem_filter.2 ⟨he, by simp [hea, hne]⟩, hea⟩
    rw [if_pos this]; simp [hne]

/-- a foreign device's broadcast always causes exactly one extra copy at `x` -/
theorem distExtra_own {nc : Net} (hnc : nc ∈ w.nets) {ca : Addr} {cb : Bbmd}
    (hC : (⟨ca, .bbmd cb⟩ : Node) ∈ nc.nodes) : distExtra w nx x 1 nc cb = 1 := by
  obtain ⟨hca, _, hbn, _, _, _⟩ := bbmdOk_of hw hp hnx hx hnc hC
  unfold distExtra
  have h1 : (cb.bdt.map fun e => if e.addr = cb.addr then extraLocal nc cb nx x 1
        else peerExtra w nx x 1 cb.addr e) =
      cb.bdt.map fun e => if e.addr = h then 1 else 0 := by
    apply List.map_congr_left
    intro e he
    by_cases hs : e.addr = cb.addr
    · simp only [hs, if_true]
      rw [extraLocal_own hw hp hm h2 hnx hx hh hxf hon hnc hC, hca]
    · simp only [hs, if_false]
      exact peerExtra_own hw hp hm h2 hnx hx hh hxf hon hnc hC cb.addr e he
  rw [h1, sum_key_indicator (fun e : BdtEntry => e.addr) h 1 _ hbn,
    if_pos (home_listed hw hp hm hnx hx hh hnc hC)]

end ownnet

end BacVerif.Bip
