/-
  Lemmas.TsmInv — the inductive invariant of the access point and the effect
  of one event on the two transaction lists.

  `Inv s`:
    * the invoke-ID cursor is below 256,
    * keys (peer, invoke ID) are unique in the client list and in the server list,
    * every listed client / server transaction satisfies `ClientOk` / `ServerOk`
      (non-terminal state of its side, timer armed, context consistent).

  `Touch k s s' outs`: the step changed at most the transactions with key `k`
  (everything else — bodies, timers, order — identical in both lists) and all
  outputs name `k`.
-/
import BacVerif.Lemmas.TsmList
import BacVerif.Lemmas.TsmSsm
namespace BacVerif.Tsm
set_option linter.unusedSimpArgs false

structure Inv (s : Sap) : Prop where
  nextLt : s.nextId < 256
  cKeys : (s.clients.map Txn.key).Nodup
  sKeys : (s.servers.map Txn.key).Nodup
  cOk : ∀ t ∈ s.clients, ClientOk t.key t.body
  sOk : ∀ t ∈ s.servers, ServerOk t.key t.body

theorem Inv.init : Inv Sap.init := by
  refine ⟨by decide, ?_, ?_, ?_, ?_⟩ <;> simp [Sap.init]

/-! ### list updates preserve the invariant -/

theorem Inv.updClient {s : Sap} (hinv : Inv s) {k : Key} {r : Option Body}
    (hr : ∀ b', r = some b' → ClientOk k b') :
    Inv { s with clients := updFirst k r s.clients } := by
  refine ⟨hinv.nextLt, keys_updFirst_nodup hinv.cKeys, hinv.sKeys, ?_, hinv.sOk⟩
  intro t' ht'
  rcases mem_updFirst ht' with h | ⟨b', hb', hk, hbody⟩
  · exact hinv.cOk t' h
  · rw [hk, hbody]; exact hr b' hb'

theorem Inv.updServer {s : Sap} (hinv : Inv s) {k : Key} {r : Option Body}
    (hr : ∀ b', r = some b' → ServerOk k b') :
    Inv { s with servers := updFirst k r s.servers } := by
  refine ⟨hinv.nextLt, hinv.cKeys, keys_updFirst_nodup hinv.sKeys, hinv.cOk, ?_⟩
  intro t' ht'
  rcases mem_updFirst ht' with h | ⟨b', hb', hk, hbody⟩
  · exact hinv.sOk t' h
  · rw [hk, hbody]; exact hr b' hb'

theorem Inv.appClient {s : Sap} (hinv : Inv s) {k : Key} {b' : Body}
    (hfresh : ∀ t ∈ s.clients, t.key ≠ k) (hok : ClientOk k b') :
    Inv { s with clients := s.clients ++ [Txn.mk k b'] } := by
  refine ⟨hinv.nextLt, keys_append_nodup hinv.cKeys hfresh, hinv.sKeys, ?_, hinv.sOk⟩
  intro t' ht'
  simp only [List.mem_append, List.mem_singleton] at ht'
  rcases ht' with h | h
  · exact hinv.cOk t' h
  · subst h; exact hok

theorem Inv.appServer {s : Sap} (hinv : Inv s) {k : Key} {b' : Body}
    (hfresh : ∀ t ∈ s.servers, t.key ≠ k) (hok : ServerOk k b') :
    Inv { s with servers := s.servers ++ [Txn.mk k b'] } := by
  refine ⟨hinv.nextLt, hinv.cKeys, keys_append_nodup hinv.sKeys hfresh, hinv.cOk, ?_⟩
  intro t' ht'
  simp only [List.mem_append, List.mem_singleton] at ht'
  rcases ht' with h | h
  · exact hinv.sOk t' h
  · subst h; exact hok

/-- fields of the state the invariant does not mention may change freely -/
theorem Inv.congr {s s' : Sap} (hinv : Inv s) (h1 : s'.nextId = s.nextId)
    (h2 : s'.clients = s.clients) (h3 : s'.servers = s.servers) : Inv s' := by
  refine ⟨by rw [h1]; exact hinv.nextLt, by rw [h2]; exact hinv.cKeys,
    by rw [h3]; exact hinv.sKeys, by rw [h2]; exact hinv.cOk, by rw [h3]; exact hinv.sOk⟩

/-! ### invoke-ID allocation -/

/-- specification of the `get_next_invoke_id` loop: after `i` candidates
    (all live) with `fuel + i = 256` left -/
theorem getNextLoop_spec (clients : List Txn) (peer : Peer) (initial : Nat) (hinit : initial < 256) :
    ∀ (fuel i : Nat), fuel + i = 256 → i < 256 →
      (∀ j, j < i → idLive clients peer ((initial + j) % 256) = true) →
      match getNextLoop clients peer initial fuel ((initial + i) % 256) with
      | (some id, next) => id < 256 ∧ idLive clients peer id = false ∧ next = (id + 1) % 256 ∧
                           (∃ j, j < 255 ∧ id = (initial + j) % 256)
      | (none, next) => next = initial ∧
                        ∀ j, j < 255 → idLive clients peer ((initial + j) % 256) = true := by
  intro fuel
  induction fuel with
  | zero => intro i h1 h2; omega
  | succ fuel ih =>
    intro i h1 h2 hlive
    simp only [getNextLoop]
    by_cases hwrap : initial = ((initial + i) % 256 + 1) % 256
    · simp only [if_pos hwrap]
      refine ⟨hwrap.symm, ?_⟩
      intro j hj
      apply hlive
      omega
    · simp only [if_neg hwrap]
      by_cases hl : idLive clients peer ((initial + i) % 256) = true
      · simp only [if_pos hl]
        have hi : i + 1 < 256 := by omega
        have := ih (i + 1) (by omega) hi (by
          intro j hj
          by_cases hji : j < i
          · exact hlive j hji
          · have : j = i := by omega
            subst this; exact hl)
        have heq : ((initial + i) % 256 + 1) % 256 = (initial + (i + 1)) % 256 := by omega
        rw [heq]
        exact this
      · simp only [if_neg hl]
        exact ⟨by omega, by simpa using hl, trivial, ⟨i, by omega, rfl⟩⟩

/-- `get_next_invoke_id`: with the cursor below 256 the 256-iteration loop is
    never cut short; it returns an ID not live toward the peer, or fails only
    when all 255 candidates `cursor … cursor+254` are live (cursor restored). -/
theorem getNextInvokeId_spec (s : Sap) (peer : Peer) (h : s.nextId < 256) :
    match getNextInvokeId s peer with
    | (some id, next) => id < 256 ∧ idLive s.clients peer id = false ∧ next = (id + 1) % 256 ∧
                         (∃ j, j < 255 ∧ id = (s.nextId + j) % 256)
    | (none, next) => next = s.nextId ∧
                      ∀ j, j < 255 → idLive s.clients peer ((s.nextId + j) % 256) = true := by
  have := getNextLoop_spec s.clients peer s.nextId h 256 0 rfl (by omega) (by intro j hj; omega)
  simp only [Nat.add_zero, Nat.mod_eq_of_lt h] at this
  exact this

/-! ### "touches only key k" -/

/-- the two lists agree on every transaction whose key is not `k` -/
def SameExcept (k : Key) (l l' : List Txn) : Prop :=
  l'.filter (fun t => !t.is k) = l.filter (fun t => !t.is k)

theorem SameExcept.rfl {k : Key} {l : List Txn} : SameExcept k l l := Eq.refl _
theorem SameExcept.trans {k : Key} {l1 l2 l3 : List Txn} (h1 : SameExcept k l1 l2)
    (h2 : SameExcept k l2 l3) : SameExcept k l1 l3 := Eq.trans h2 h1
theorem SameExcept.upd (k : Key) (r : Option Body) (l : List Txn) :
    SameExcept k l (updFirst k r l) := filter_ne_updFirst k r l
theorem SameExcept.app (k : Key) (b : Body) (l : List Txn) :
    SameExcept k l (l ++ [Txn.mk k b]) := filter_ne_append_key k b l

/-- any transaction with another key that was listed is still listed, unchanged -/
theorem SameExcept.mem {k : Key} {l l' : List Txn} (h : SameExcept k l l') {t : Txn}
    (ht : t ∈ l) (hk : t.key ≠ k) : t ∈ l' := by
  have hf : t ∈ l.filter (fun t => !t.is k) := by
    simp [List.mem_filter, ht, (Txn.is_false_iff k t).2 hk]
  rw [← h] at hf
  exact (List.mem_filter.1 hf).1

/-- … and no transaction with another key appeared -/
theorem SameExcept.mem' {k : Key} {l l' : List Txn} (h : SameExcept k l l') {t : Txn}
    (ht : t ∈ l') (hk : t.key ≠ k) : t ∈ l := by
  have hf : t ∈ l'.filter (fun t => !t.is k) := by
    simp [List.mem_filter, ht, (Txn.is_false_iff k t).2 hk]
  rw [h] at hf
  exact (List.mem_filter.1 hf).1

/-- the effect of a step that belongs to key `k` -/
structure Touch (k : Key) (s s' : Sap) (outs : List Out) : Prop where
  clients : SameExcept k s.clients s'.clients
  servers : SameExcept k s.servers s'.servers
  attr : AllAttr k outs
  now : s'.now = s.now
  dcc : s'.dcc = s.dcc

theorem Touch.refl (k : Key) (s : Sap) : Touch k s s [] :=
  ⟨SameExcept.rfl, SameExcept.rfl, AllAttr_nil k, rfl, rfl⟩

theorem Touch.trans {k : Key} {s1 s2 s3 : Sap} {o1 o2 : List Out}
    (h1 : Touch k s1 s2 o1) (h2 : Touch k s2 s3 o2) : Touch k s1 s3 (o1 ++ o2) :=
  ⟨h1.clients.trans h2.clients, h1.servers.trans h2.servers,
   (AllAttr_append k o1 o2).2 ⟨h1.attr, h2.attr⟩, h2.now.trans h1.now, h2.dcc.trans h1.dcc⟩

end BacVerif.Tsm
