/-
  Lemmas.DeviceWire — octet-level facts of `Model.Device`:
    * the peer coding is invertible on local stations (`addrOf_peerOf_local`),
    * what `decodeNpci` / `decodeApdu` make of a well-framed request (`wellFramed_decodes`),
    * every reply PDU the state machines can send toward a local station becomes
      exactly one frame whose header reads back (`emit_reply`).
-/
import BacVerif.Model.Device
namespace BacVerif.Device
open BacVerif BacVerif.Tsm
set_option linter.unusedSimpArgs false

/-! ### peers -/

theorem listCode_pos : ∀ l : Bytes, 1 ≤ listCode l
  | [] => by simp [listCode]
  | b :: r => by have := listCode_pos r; simp only [listCode]; omega

theorem listDecode_listCode : ∀ l : Bytes, listDecode (listCode l) = l
  | [] => by rw [listDecode]; simp [listCode]
  | b :: r => by
    have hp := listCode_pos r
    have hb : b.toNat < 256 := UInt8.toNat_lt b
    rw [listDecode]
    have h1 : ¬ (listCode (b :: r) ≤ 1) := by simp only [listCode]; omega
    rw [dif_neg h1]
    have h2 : listCode (b :: r) % 256 = b.toNat := by simp only [listCode]; omega
    have h3 : listCode (b :: r) / 256 = listCode r := by simp only [listCode]; omega
    rw [h2, h3, listDecode_listCode r]
    simp

theorem addrOf_peerOf_local (mac : Bytes) : addrOf (peerOf (.localStation mac)) = .localStation mac := by
  have h1 : (8 * listCode mac + 4) % 8 = 4 := by omega
  have h2 : (8 * listCode mac + 4) / 8 = listCode mac := by omega
  simp only [addrOf, peerOf, h1, h2, listDecode_listCode]

/-! ### a well-framed request through the two header decoders -/

theorem decodeNpci_plain (v ctl : UInt8) (rest : Bytes) (hv : v.toNat = 1)
    (h80 : ctl.toNat / 0x80 % 2 = 0) (h20 : ctl.toNat / 0x20 % 2 = 0) (h08 : ctl.toNat / 0x08 % 2 = 0) :
    Npci.decodeNpci (v :: ctl :: rest) =
      .ok ({ version := 1, control := ctl.toNat, expectingReply := Npci.bit ctl.toNat 0x04,
             priority := ctl.toNat % 4 }, rest) := by
  simp [Npci.decodeNpci, getU8, hv, Npci.optSection, Npci.bit, h80, h20, h08]

theorem decodeApdu_confirmed (a0 a1 i svc : UInt8) (body : Bytes)
    (ht : a0.toNat / 16 = 0) (hs : a0.toNat / 8 % 2 = 0) :
    decodeApdu (a0 :: a1 :: i :: svc :: body) =
      .ok ({ apduType := 0, seg := some false, mor := some (bitSet a0.toNat 4),
             sa := some (bitSet a0.toNat 2), maxSegs := some (a1.toNat / 16 % 8),
             maxResp := some (a1.toNat % 16), invokeID := some i.toNat, service := some svc.toNat },
           body) := by
  simp [decodeApdu, decodeApci, getU8, ht, hs, bitSet, getSeqWin, getData, bind, Except.bind, pure, Except.pure]

/-- the reply PDUs a server transaction can send (fields fit their octets) -/
structure IsReply (inv : Nat) (x : Apdu) : Prop where
  id : x.invokeId = inv
  idLt : inv < 256
  shape : (x.ty = 2 ∧ x.service < 256) ∨
          (x.ty = 3 ∧ x.service < 256 ∧ (x.seg = false ∨ (x.seg = true ∧ x.seq < 256 ∧ x.win < 256))) ∨
          (x.ty = 5 ∧ x.service < 256) ∨ (x.ty = 6 ∧ x.reason < 256) ∨ (x.ty = 7 ∧ x.reason < 256)

macro "emit_simp" "[" ts:Lean.Parser.Tactic.simpLemma,* "]" : tactic =>
  `(tactic| simp [emitApdu, addrOf_peerOf_local, toApci, encodeApdu, encodeApci, Apci.mkSimpleAck,
      Apci.mkComplexAck, Apci.mkError, Apci.mkReject, Apci.mkAbort, putOctet, putSeqWin, truthy, flagBit,
      bind, Except.bind, pure, Except.pure, Npci.encodeNpdu, Npci.encodeNpci, Npci.put,
      Npci.controlOctet, Npci.encodeDadrOpt, Npci.encodeSadrOpt, Npci.encodeHop, Npci.encodeMsgType,
      replyHdr, $ts,*])

theorem emit_reply (net : Option Nat) (routes : List (Nat × Bytes)) (src : Bytes) {inv : Nat} {x : Apdu}
    (h : IsReply inv x) :
    ∃ fr hdr, emitApdu net routes (peerOf (.localStation src)) x = [fr] ∧ fr.dst = some src ∧
      replyHdr fr.octets = some hdr ∧ hdr.invoke = inv ∧ hdr.ty = x.ty ∧
      hdr.seg = (decide (x.ty = 3) && x.seg) := by
  obtain ⟨hid, hlt, hshape⟩ := h
  have hlt' : x.invokeId < 256 := by omega
  rcases hshape with ⟨hty, hs⟩ | ⟨hty, hs, hseg⟩ | ⟨hty, hs⟩ | ⟨hty, hs⟩ | ⟨hty, hs⟩
  · emit_simp [hty, hlt', hs]
    omega
  · rcases hseg with hseg | ⟨hseg, hq, hw⟩
    · cases hm : x.mor <;> emit_simp [hty, hseg, hlt', hs, hm] <;> omega
    · cases hm : x.mor <;> emit_simp [hty, hseg, hlt', hs, hm, hq, hw] <;> omega
  · emit_simp [hty, hlt', hs]
    omega
  · emit_simp [hty, hlt', hs]
    omega
  · cases hm : x.srv <;> emit_simp [hty, hlt', hs, hm] <;> omega

end BacVerif.Device
