/-
  Lemmas.RouteTree — tree-shaped internetworks for C06: the inductive `NetTree`, its flattening
  to a `Route.Topology`, and the list algebra that reads "who is attached to LAN L" off the tree.
  Core Lean only.
-/
import BacVerif.Model.Route
set_option linter.unusedSimpArgs false
namespace BacVerif.C06
open BacVerif BacVerif.Route

/-! ## stations and router ports -/

/-- an end station: one adapter, an application above.  `knowsNet` / `hasAddr` say how it was
    bound: `bind(server, net, address)`, `bind(server, None, address)`, `bind(server)`, … -/
structure Station where
  mac      : Mac
  knowsNet : Bool := true
  hasAddr  : Bool := true
  cache    : Cache := []
deriving DecidableEq, Repr

def Station.adapter (lan : Nat) (s : Station) : Adapter :=
  { aid := 0, net := if s.knowsNet then some lan else none,
    addr := if s.hasAddr then some s.mac else none,
    conf := if s.knowsNet then some 1 else none, lan := lan, mac := s.mac }

def Station.tnode (lan : Nat) (s : Station) : TNode :=
  { node := { adapters := [s.adapter lan], localAid := 0, hasApp := true }, cache := s.cache }

/-- a router port: configured with the number of the LAN it is attached to and its own address -/
def mkPort (aid : Nat) (mac : Mac) (lan : Nat) : Adapter :=
  { aid := aid, net := some lan, addr := some mac, conf := some 1, lan := lan, mac := mac }

/-! ## the tree -/

mutual
/-- a network with its stations and the routers leading away from the root -/
inductive NetTree where
  | mk (lan : Nat) (stations : List Station) (routers : Routers)
/-- the routers on a network (other than the one leading to the root): the port on this network
    (`upAid`, `upMac`), which adapter is the local one, the cache, and the ports leading down —
    those bound BEFORE the up port (`before`) and those bound after it (`downs`): the adapter
    list of the node is `before ++ [up] ++ downs`, i.e. the up port may sit anywhere -/
inductive Routers where
  | nil
  | cons (upAid : Nat) (upMac : Mac) (localAid : Nat) (cache : Cache) (before : Downs) (downs : Downs)
      (rest : Routers)
/-- the other ports of a router, each with the network tree behind it -/
inductive Downs where
  | nil
  | cons (aid : Nat) (mac : Mac) (sub : NetTree) (rest : Downs)
end

def NetTree.lan : NetTree → Nat
  | .mk l _ _ => l

def NetTree.stations : NetTree → List Station
  | .mk _ s _ => s

def NetTree.routers : NetTree → Routers
  | .mk _ _ r => r

/-- the adapters of the down ports -/
def Downs.ports : Downs → List Adapter
  | .nil => []
  | .cons aid mac sub rest => mkPort aid mac sub.lan :: rest.ports

/-- the router node for a given up port and its downs -/
def routerNode (lan upAid : Nat) (upMac : Mac) (localAid : Nat) (cache : Cache) (bf ds : Downs) : TNode :=
  { node := { adapters := bf.ports ++ mkPort upAid upMac lan :: ds.ports, localAid := localAid,
              hasApp := false },
    cache := cache }

mutual
/-- all nodes, depth first: stations of the network, then each router followed by everything
    behind it -/
def NetTree.nodes : NetTree → Topology
  | .mk lan sts rs => sts.map (Station.tnode lan) ++ rs.nodes lan
def Routers.nodes (lan : Nat) : Routers → Topology
  | .nil => []
  | .cons ua um la c bf ds rest => routerNode lan ua um la c bf ds :: (bf.nodes ++ ds.nodes ++ rest.nodes lan)
def Downs.nodes : Downs → Topology
  | .nil => []
  | .cons _ _ sub rest => sub.nodes ++ rest.nodes
end

mutual
/-- the network numbers of a tree (root first) -/
def NetTree.lans : NetTree → List Nat
  | .mk lan _ rs => lan :: rs.lans
def Routers.lans : Routers → List Nat
  | .nil => []
  | .cons _ _ _ _ bf ds rest => bf.lans ++ ds.lans ++ rest.lans
def Downs.lans : Downs → List Nat
  | .nil => []
  | .cons _ _ sub rest => sub.lans ++ rest.lans
end

mutual
/-- number of router levels below the root network -/
def NetTree.height : NetTree → Nat
  | .mk _ _ rs => rs.height
def Routers.height : Routers → Nat
  | .nil => 0
  | .cons _ _ _ _ bf ds rest => max bf.height (max ds.height rest.height)
def Downs.height : Downs → Nat
  | .nil => 0
  | .cons _ _ sub rest => max (sub.height + 1) rest.height
end

mutual
/-- every station with the number of its network, in the order of `nodes` -/
def NetTree.population : NetTree → List (Nat × Station)
  | .mk lan sts rs => sts.map (fun s => (lan, s)) ++ rs.population
def Routers.population : Routers → List (Nat × Station)
  | .nil => []
  | .cons _ _ _ _ bf ds rest => bf.population ++ ds.population ++ rest.population
def Downs.population : Downs → List (Nat × Station)
  | .nil => []
  | .cons _ _ sub rest => sub.population ++ rest.population
end

def Routers.upMacs : Routers → List Mac
  | .nil => []
  | .cons _ um _ _ _ _ rest => um :: rest.upMacs

def Downs.aids : Downs → List Nat
  | .nil => []
  | .cons aid _ _ rest => aid :: rest.aids

mutual
/-- local well-formedness: on every network the MACs of the stations, of the routers' ports and
    of the port `up` leading to the root are pairwise different; a router's adapters have
    different ids and its local adapter is one of them -/
def NetTree.wf (up : List Mac) : NetTree → Bool
  | .mk _ sts rs => decide ((up ++ sts.map (·.mac) ++ rs.upMacs).Nodup) && rs.wf
def Routers.wf : Routers → Bool
  | .nil => true
  | .cons ua _ la _ bf ds rest =>
      decide ((ua :: (bf.aids ++ ds.aids)).Nodup) && (ua :: (bf.aids ++ ds.aids)).contains la
        && bf.wf && ds.wf && rest.wf
def Downs.wf : Downs → Bool
  | .nil => true
  | .cons _ mac sub rest => sub.wf [mac] && rest.wf
end

/-! ## who is attached to a LAN -/

/-- every (node, adapter) attached to LAN `L`, in topology order -/
def attachedOf (topo : Topology) (L : Nat) : List (TNode × Adapter) :=
  topo.flatMap fun t => (t.node.adapters.filter (·.lan == L)).map (fun a => (t, a))

/-- the MAC part of `hears` -/
def macOk (f : Packet) (a : Adapter) : Bool :=
  match f.dst with
  | .bcast => a.mac != f.src
  | .to m => a.mac == m

theorem attachedOf_append (xs ys : Topology) (L : Nat) :
    attachedOf (xs ++ ys) L = attachedOf xs L ++ attachedOf ys L := by
  simp [attachedOf]

theorem attachedOf_cons (t : TNode) (ts : Topology) (L : Nat) :
    attachedOf (t :: ts) L = (t.node.adapters.filter (·.lan == L)).map (fun a => (t, a)) ++ attachedOf ts L := by
  simp [attachedOf]

theorem attachedOf_nil (L : Nat) : attachedOf [] L = [] := rfl

theorem hears_eq (f : Packet) (a : Adapter) : hears f a = (a.lan == f.lan && macOk f a) := rfl

theorem flat_attached {β : Type} (X : TNode → Adapter → List β) (topo : Topology) (f : Packet) :
    (topo.flatMap fun t => (t.node.adapters.filter (hears f)).flatMap (X t)) =
      ((attachedOf topo f.lan).filter (fun x => macOk f x.2)).flatMap (fun x => X x.1 x.2) := by
  induction topo with
  | nil => rfl
  | cons t ts ih =>
    rw [attachedOf_cons, List.flatMap_cons, List.filter_append, List.flatMap_append, ih]
    congr 1
    have h1 : t.node.adapters.filter (hears f) =
        (t.node.adapters.filter (·.lan == f.lan)).filter (macOk f) := by
      rw [List.filter_filter]
      congr 1
      funext a
      rw [hears_eq, Bool.and_comm]
    rw [h1, List.filter_map, List.flatMap_map]
    rfl

/-- the simulator, read LAN by LAN -/
theorem deliverAll_attached (topo : Topology) (f : Packet) :
    deliverAll topo f =
      ((attachedOf topo f.lan).filter (fun x => macOk f x.2)).flatMap fun x =>
        delivered x.1 x.2 f ++ (emitted x.1 x.2 f).flatMap (deliverAll topo) := by
  rw [deliverAll_eq]
  exact flat_attached (fun t a => delivered t a f ++ (emitted t a f).flatMap (deliverAll topo)) topo f

/-! ## reading the attachment of a LAN off the tree -/

theorem NetTree.lan_mem_lans (S : NetTree) : S.lan ∈ S.lans := by
  cases S; simp [NetTree.lan, NetTree.lans]

theorem Downs.ports_off (ds : Downs) (L : Nat) (h : L ∉ ds.lans) :
    ds.ports.filter (·.lan == L) = [] := by
  match ds with
  | .nil => rfl
  | .cons aid mac sub rest =>
    simp only [Downs.lans, List.mem_append, not_or] at h
    have hne : sub.lan ≠ L := fun e => h.1 (e ▸ sub.lan_mem_lans)
    simp [Downs.ports, List.filter_cons, mkPort, hne, Downs.ports_off rest L h.2]

mutual
theorem NetTree.attached_off (S : NetTree) (L : Nat) (h : L ∉ S.lans) : attachedOf S.nodes L = [] := by
  match S with
  | .mk lan sts rs =>
    simp only [NetTree.lans, List.mem_cons, not_or] at h
    rw [NetTree.nodes, attachedOf_append, Routers.attached_off rs lan L h.1 h.2]
    simp [attachedOf, Station.tnode, Station.adapter, List.filter_cons, Ne.symm h.1]
theorem Routers.attached_off (rs : Routers) (P L : Nat) (h1 : L ≠ P) (h : L ∉ rs.lans) :
    attachedOf (rs.nodes P) L = [] := by
  match rs with
  | .nil => rfl
  | .cons ua um la c bf ds rest =>
    simp only [Routers.lans, List.mem_append, not_or] at h
    rw [Routers.nodes, attachedOf_cons, attachedOf_append, attachedOf_append,
      Downs.attached_off bf L h.1.1, Downs.attached_off ds L h.1.2,
      Routers.attached_off rest P L h1 h.2]
    simp [routerNode, List.filter_cons, List.filter_append, mkPort, Ne.symm h1,
      Downs.ports_off bf L h.1.1, Downs.ports_off ds L h.1.2]
theorem Downs.attached_off (ds : Downs) (L : Nat) (h : L ∉ ds.lans) : attachedOf ds.nodes L = [] := by
  match ds with
  | .nil => rfl
  | .cons aid mac sub rest =>
    simp only [Downs.lans, List.mem_append, not_or] at h
    rw [Downs.nodes, attachedOf_append, NetTree.attached_off sub L h.1, Downs.attached_off rest L h.2]
    rfl
end

/-- the up ports of the routers on network `P`, with their nodes -/
def Routers.upEntries (P : Nat) : Routers → List (TNode × Adapter)
  | .nil => []
  | .cons ua um la c bf ds rest => (routerNode P ua um la c bf ds, mkPort ua um P) :: rest.upEntries P

theorem Routers.attached_on (rs : Routers) (P : Nat) (h : P ∉ rs.lans) :
    attachedOf (rs.nodes P) P = rs.upEntries P := by
  match rs with
  | .nil => rfl
  | .cons ua um la c bf ds rest =>
    simp only [Routers.lans, List.mem_append, not_or] at h
    rw [Routers.nodes, attachedOf_cons, attachedOf_append, attachedOf_append,
      Downs.attached_off bf P h.1.1, Downs.attached_off ds P h.1.2, Routers.attached_on rest P h.2]
    simp [routerNode, List.filter_cons, List.filter_append, mkPort, Downs.ports_off bf P h.1.1,
      Downs.ports_off ds P h.1.2, Routers.upEntries]

/-- the stations of a network as attachment entries -/
def stationEntries (lan : Nat) (sts : List Station) : List (TNode × Adapter) :=
  sts.map (fun s => (s.tnode lan, s.adapter lan))

theorem attachedOf_stations (lan : Nat) (sts : List Station) (L : Nat) :
    attachedOf (sts.map (Station.tnode lan)) L = if L = lan then stationEntries lan sts else [] := by
  induction sts with
  | nil => simp [attachedOf, stationEntries]
  | cons s sts ih =>
    rw [List.map_cons, attachedOf_cons, ih]
    by_cases h : L = lan
    · subst h; simp [Station.tnode, Station.adapter, stationEntries]
    · simp [Station.tnode, Station.adapter, h, Ne.symm h]

/-! ### what the whole topology looks like from inside a subtree -/

/-- `topo` restricted to the networks of `S` is `S` plus the entries `up` on its root network -/
def HT (topo : Topology) (S : NetTree) (up : List (TNode × Adapter)) : Prop :=
  ∀ L ∈ S.lans, attachedOf topo L = (if L = S.lan then up else []) ++ attachedOf S.nodes L

def HR (topo : Topology) (rs : Routers) (P : Nat) : Prop :=
  ∀ L ∈ rs.lans, attachedOf topo L = attachedOf (rs.nodes P) L

def HD (topo : Topology) (ds : Downs) (r : TNode) : Prop :=
  ∀ L ∈ ds.lans, attachedOf topo L =
    (ds.ports.filter (·.lan == L)).map (fun a => (r, a)) ++ attachedOf ds.nodes L

theorem HT.root {topo : Topology} {lan : Nat} {sts : List Station} {rs : Routers}
    {up : List (TNode × Adapter)} (h : HT topo (.mk lan sts rs) up) (hn : lan ∉ rs.lans) :
    attachedOf topo lan = up ++ stationEntries lan sts ++ rs.upEntries lan := by
  have := h lan (by simp [NetTree.lans])
  rw [this, NetTree.nodes, attachedOf_append, attachedOf_stations, Routers.attached_on rs lan hn]
  simp [NetTree.lan]

theorem HT.routers {topo : Topology} {lan : Nat} {sts : List Station} {rs : Routers}
    {up : List (TNode × Adapter)} (h : HT topo (.mk lan sts rs) up) (hn : lan ∉ rs.lans) :
    HR topo rs lan := by
  intro L hL
  have hne : L ≠ lan := fun e => hn (e ▸ hL)
  have := h L (by simp [NetTree.lans, hL])
  rw [this, NetTree.nodes, attachedOf_append, attachedOf_stations]
  simp [NetTree.lan, hne]

theorem HR.before {topo : Topology} {P ua : Nat} {um : Mac} {la : Nat} {c : Cache} {bf ds : Downs}
    {rest : Routers} (h : HR topo (.cons ua um la c bf ds rest) P)
    (hP : P ∉ (Routers.cons ua um la c bf ds rest).lans)
    (hnd : (Routers.cons ua um la c bf ds rest).lans.Nodup) :
    HD topo bf (routerNode P ua um la c bf ds) := by
  intro L hL
  simp only [Routers.lans, List.mem_append, not_or] at hP
  simp only [Routers.lans, List.nodup_append, List.mem_append] at hnd
  have hLd : L ∉ ds.lans := fun hd => hnd.1.2.2 L hL L hd rfl
  have hLr : L ∉ rest.lans := fun hr => hnd.2.2 L (Or.inl hL) L hr rfl
  have hne : L ≠ P := fun e => hP.1.1 (e ▸ hL)
  have := h L (by simp [Routers.lans, hL])
  rw [this, Routers.nodes, attachedOf_cons, attachedOf_append, attachedOf_append,
    Downs.attached_off ds L hLd, Routers.attached_off rest P L hne hLr]
  simp [routerNode, List.filter_cons, List.filter_append, mkPort, Ne.symm hne, Downs.ports_off ds L hLd]

theorem HR.downs {topo : Topology} {P ua : Nat} {um : Mac} {la : Nat} {c : Cache} {bf ds : Downs}
    {rest : Routers} (h : HR topo (.cons ua um la c bf ds rest) P)
    (hP : P ∉ (Routers.cons ua um la c bf ds rest).lans)
    (hnd : (Routers.cons ua um la c bf ds rest).lans.Nodup) :
    HD topo ds (routerNode P ua um la c bf ds) := by
  intro L hL
  simp only [Routers.lans, List.mem_append, not_or] at hP
  simp only [Routers.lans, List.nodup_append, List.mem_append] at hnd
  have hLb : L ∉ bf.lans := fun hb => hnd.1.2.2 L hb L hL rfl
  have hLr : L ∉ rest.lans := fun hr => hnd.2.2 L (Or.inr hL) L hr rfl
  have hne : L ≠ P := fun e => hP.1.2 (e ▸ hL)
  have := h L (by simp [Routers.lans, hL])
  rw [this, Routers.nodes, attachedOf_cons, attachedOf_append, attachedOf_append,
    Downs.attached_off bf L hLb, Routers.attached_off rest P L hne hLr]
  simp [routerNode, List.filter_cons, List.filter_append, mkPort, Ne.symm hne, Downs.ports_off bf L hLb]

theorem HR.rest {topo : Topology} {P ua : Nat} {um : Mac} {la : Nat} {c : Cache} {bf ds : Downs}
    {rest : Routers} (h : HR topo (.cons ua um la c bf ds rest) P)
    (hP : P ∉ (Routers.cons ua um la c bf ds rest).lans)
    (hnd : (Routers.cons ua um la c bf ds rest).lans.Nodup) :
    HR topo rest P := by
  intro L hL
  simp only [Routers.lans, List.mem_append, not_or] at hP
  simp only [Routers.lans, List.nodup_append, List.mem_append] at hnd
  have hLb : L ∉ bf.lans := fun hb => hnd.2.2 L (Or.inl hb) L hL rfl
  have hLd : L ∉ ds.lans := fun hd => hnd.2.2 L (Or.inr hd) L hL rfl
  have hne : L ≠ P := fun e => hP.2 (e ▸ hL)
  have := h L (by simp [Routers.lans, hL])
  rw [this, Routers.nodes, attachedOf_cons, attachedOf_append, attachedOf_append,
    Downs.attached_off bf L hLb, Downs.attached_off ds L hLd]
  simp [routerNode, List.filter_cons, List.filter_append, mkPort, Ne.symm hne, Downs.ports_off bf L hLb,
    Downs.ports_off ds L hLd]

theorem HD.sub {topo : Topology} {r : TNode} {aid : Nat} {mac : Mac} {sub : NetTree} {rest : Downs}
    (h : HD topo (.cons aid mac sub rest) r) (hnd : (Downs.cons aid mac sub rest).lans.Nodup) :
    HT topo sub [(r, mkPort aid mac sub.lan)] := by
  intro L hL
  simp only [Downs.lans, List.nodup_append] at hnd
  have hLr : L ∉ rest.lans := fun hr => hnd.2.2 L hL L hr rfl
  have := h L (by simp [Downs.lans, hL])
  rw [this, Downs.nodes, attachedOf_append, Downs.attached_off rest L hLr]
  by_cases e : L = sub.lan
  · subst e; simp [Downs.ports, List.filter_cons, mkPort, Downs.ports_off rest _ hLr]
  · simp [Downs.ports, List.filter_cons, mkPort, Ne.symm e, e, Downs.ports_off rest _ hLr]

theorem HD.rest {topo : Topology} {r : TNode} {aid : Nat} {mac : Mac} {sub : NetTree} {rest : Downs}
    (h : HD topo (.cons aid mac sub rest) r) (hnd : (Downs.cons aid mac sub rest).lans.Nodup) :
    HD topo rest r := by
  intro L hL
  simp only [Downs.lans, List.nodup_append] at hnd
  have hLs : L ∉ sub.lans := fun hs => hnd.2.2 L hs L hL rfl
  have hne : sub.lan ≠ L := fun e => hLs (e ▸ sub.lan_mem_lans)
  have := h L (by simp [Downs.lans, hL])
  rw [this, Downs.nodes, attachedOf_append, NetTree.attached_off sub L hLs]
  simp [Downs.ports, List.filter_cons, mkPort, hne]

/-- the whole tree seen from its root -/
theorem HT.whole (T : NetTree) : HT T.nodes T [] := by
  intro L _
  simp

end BacVerif.C06
