/-
  Lemmas.DeviceReply — a fresh, unsegmented confirmed request through the state
  machines, the ASAP decoder and the abstract application: exactly one reply PDU
  (`deliver_fresh`); the transaction is gone again, or waits in
  SEGMENTED_RESPONSE behind the first segment of a complex ack.
-/
import BacVerif.Lemmas.DeviceWire
import BacVerif.Lemmas.TsmSide
import BacVerif.Lemmas.TsmCap
namespace BacVerif.Device
open BacVerif BacVerif.Tsm
set_option linter.unusedSimpArgs false

theorem findTxn_append_new {k : Key} {l : List Txn} (b : Body) (h : findTxn k l = none) :
    findTxn k (l ++ [Txn.mk k b]) = some (Txn.mk k b) := by
  induction l with
  | nil => simp [findTxn, Txn.is]
  | cons t ts ih =>
    simp only [findTxn] at h
    split at h
    · cases h
    · rename_i hne
      simp only [List.cons_append, findTxn, hne]
      exact ih h

theorem updFirst_append_new {k : Key} {l : List Txn} (b : Body) (r : Option Body)
    (h : findTxn k l = none) :
    updFirst k r (l ++ [Txn.mk k b]) =
      match r with
      | some b' => l ++ [Txn.mk k b']
      | none => l := by
  induction l with
  | nil => cases r <;> simp [updFirst, Txn.is]
  | cons t ts ih =>
    simp only [findTxn] at h
    split at h
    · cases h
    · rename_i hne
      simp only [List.cons_append, updFirst, hne]
      rw [ih h]
      cases r <;> simp

/-- what the application's (or the ASAP's) answer does to the freshly created
    transaction `⟨k, b0⟩`: exactly one PDU toward the client; the transaction is
    gone, or it stays in SEGMENTED_RESPONSE behind the first segment -/
theorem serverConfirmation_answer {cfg : Cfg} (hw : cfg.window < 256) {now : Nat} {npdu : Option Nat}
    {k : Key} {b0 : Body} {r : Apdu} (hr : IsReply k.id r) (hseg : r.seg = false) :
    ∃ x, IsReply k.id x ∧
      ((serverConfirmation cfg now npdu k b0 r = (none, [.send k.peer x]) ∧ (decide (x.ty = 3) && x.seg) = false) ∨
       (∃ b', serverConfirmation cfg now npdu k b0 r = (some b', [.send k.peer x]) ∧ b'.st = .segResp ∧
          x.ty = 3 ∧ x.seg = true)) := by
  have hr' := hr
  obtain ⟨hid, hlt, hshape⟩ := hr
  have hab : ∀ reason, reason < 256 → IsReply k.id (mkAbort true k.id reason) := by
    intro reason hre
    exact ⟨rfl, hlt, Or.inr (Or.inr (Or.inr (Or.inr ⟨rfl, hre⟩)))⟩
  rcases hshape with ⟨hty, hs⟩ | ⟨hty, hs, _⟩ | ⟨hty, hs⟩ | ⟨hty, hs⟩ | ⟨hty, hs⟩
  · exact ⟨r, hr', Or.inl ⟨by simp [serverConfirmation, hty], by simp [hty]⟩⟩
  · unfold serverConfirmation
    simp only [hty, serverAbortNet]
    simp only [show (3 = 7) = False by simp, show (3 = 2) = False by simp, show (3 = 5) = False by simp,
      show (3 = 6) = False by simp, if_false, Bool.or_self, Bool.false_eq_true, decide_false, if_true]
    cases hss : setSegmentSize (List.length r.data) (serverMaxApdu npdu b0.maxApdu) 3 5 with
    | none => exact ⟨_, hab _ (by decide), Or.inl ⟨rfl, by simp [mkAbort]⟩⟩
    | some sc =>
      obtain ⟨size, count⟩ := sc
      dsimp only
      rcases setSegmentSize_spec (by decide) hss with ⟨hc1, _, _⟩ | ⟨hc2, _, _, _, _⟩
      · subst hc1
        exact ⟨r, hr', Or.inl ⟨by simp, by simp [hseg]⟩⟩
      · have hgt : decide (count > 1) = true := by simp; omega
        have hne : count ≠ 1 := by omega
        simp only [hgt, Bool.true_and, hne, if_false]
        by_cases h1 : (!cfg.seg.canTx) = true
        · simp only [h1, if_true]
          exact ⟨_, hab _ (by decide), Or.inl ⟨rfl, by simp [mkAbort]⟩⟩
        · simp only [h1, if_false]
          by_cases h2 : (!b0.sra) = true
          · simp only [h2, if_true]
            exact ⟨_, hab _ (by decide), Or.inl ⟨rfl, by simp [mkAbort]⟩⟩
          · simp only [h2, if_false]
            by_cases h3 : exceeds b0.maxSegs count = true
            · simp only [h3, if_true]
              exact ⟨_, hab _ (by decide), Or.inl ⟨rfl, by simp [mkAbort]⟩⟩
            · simp only [h3, if_false]
              have h0 : ¬ (0 ≥ count) := by omega
              simp only [getSegment, segHeader, hty, h0, if_false, segFlags, hne, ne_eq, not_false_eq_true,
                if_true, show (3 = 0) = False by simp]
              refine ⟨_, ?_, Or.inr ⟨_, rfl, rfl, rfl, rfl⟩⟩
              exact ⟨hid, hlt, Or.inr (Or.inl ⟨rfl, hs, Or.inr ⟨rfl, by simp, hw⟩⟩)⟩
  · exact ⟨r, hr', Or.inl ⟨by simp [serverConfirmation, hty], by simp [hty]⟩⟩
  · exact ⟨r, hr', Or.inl ⟨by simp [serverConfirmation, hty], by simp [hty]⟩⟩
  · exact ⟨r, hr', Or.inl ⟨by simp [serverConfirmation, hty], by simp [hty]⟩⟩

theorem IsReply.tyOk {inv : Nat} {r : Apdu} (h : IsReply inv r) :
    (r.ty = 2 || r.ty = 3 || r.ty = 5 || r.ty = 6 || r.ty = 7) = true := by
  rcases h.shape with h | h | h | h | h <;> simp [h.1]

theorem smapResponse_fresh {cfg : Cfg} (hw : cfg.window < 256) {sap1 : Sap} {S : List Txn} {k : Key}
    {b0 : Body} (hS : sap1.servers = S ++ [Txn.mk k b0]) (hfree : findTxn k S = none)
    {r : Apdu} (hr : IsReply k.id r) (hrseg : r.seg = false) :
    ∃ x, IsReply k.id x ∧
      (((decide (x.ty = 3) && x.seg) = false ∧
          smapResponse cfg sap1 k.peer r = ({ sap1 with servers := S }, [.send k.peer x])) ∨
       (x.ty = 3 ∧ x.seg = true ∧ ∃ b', b'.st = .segResp ∧
          smapResponse cfg sap1 k.peer r = ({ sap1 with servers := S ++ [Txn.mk k b'] }, [.send k.peer x]))) := by
  have hk : (⟨k.peer, r.invokeId⟩ : Key) = k := by rw [hr.id]
  have hf : findTxn k (S ++ [Txn.mk k b0]) = some (Txn.mk k b0) := findTxn_append_new b0 hfree
  unfold smapResponse
  simp only [hr.tyOk, if_true, hk, Sap.setServer, hS, hf]
  have aux : ∀ npdu, ∃ x, IsReply k.id x ∧
      (((decide (x.ty = 3) && x.seg) = false ∧
          (({ sap1 with servers := updFirst k (Prod.fst (serverConfirmation cfg sap1.now npdu k b0 r)) (S ++ [Txn.mk k b0]) } : Sap), Prod.snd (serverConfirmation cfg sap1.now npdu k b0 r)) =
            ({ sap1 with servers := S }, [.send k.peer x])) ∨
       (x.ty = 3 ∧ x.seg = true ∧ ∃ b', b'.st = .segResp ∧
          (({ sap1 with servers := updFirst k (Prod.fst (serverConfirmation cfg sap1.now npdu k b0 r)) (S ++ [Txn.mk k b0]) } : Sap), Prod.snd (serverConfirmation cfg sap1.now npdu k b0 r)) =
            ({ sap1 with servers := S ++ [Txn.mk k b'] }, [.send k.peer x]))) := by
    intro npdu
    obtain ⟨x, hx, hcase⟩ := serverConfirmation_answer (cfg := cfg) hw (now := sap1.now) (npdu := npdu)
      (b0 := b0) hr hrseg
    refine ⟨x, hx, ?_⟩
    rcases hcase with ⟨he, hns⟩ | ⟨b', he, hst, hty, hsg⟩
    · left
      refine ⟨hns, ?_⟩
      rw [he, updFirst_append_new b0 none hfree]
    · right
      refine ⟨hty, hsg, b', hst, ?_⟩
      rw [he, updFirst_append_new b0 (some b') hfree]
  exact aux _

theorem rejectOf_lt (e : Err) : rejectOf e < 256 := by cases e <;> decide

theorem reqDecode_cases (env : Schema.Env) (reg : List (Nat × Nat)) (svc : Nat) (d : Bytes) :
    reqDecode env reg svc d = .ok ∨ ∃ r, r < 256 ∧ reqDecode env reg svc d = .reject r := by
  unfold reqDecode
  split
  · exact Or.inr ⟨_, by decide, rfl⟩
  · split
    · exact Or.inr ⟨_, rejectOf_lt _, rfl⟩
    · split
      · exact Or.inr ⟨_, rejectOf_lt _, rfl⟩
      · exact Or.inl rfl

theorem respApdu_isReply {a : Apdu} (hid : a.invokeId < 256) (hsvc : a.service < 256) (ans : AppAnswer) :
    IsReply a.invokeId (respApdu a ans) ∧ (respApdu a ans).seg = false := by
  cases ans with
  | simpleAck => exact ⟨⟨rfl, hid, Or.inl ⟨rfl, hsvc⟩⟩, rfl⟩
  | complexAck p => exact ⟨⟨rfl, hid, Or.inr (Or.inl ⟨rfl, hsvc, Or.inl rfl⟩)⟩, rfl⟩
  | error p => exact ⟨⟨rfl, hid, Or.inr (Or.inr (Or.inl ⟨rfl, hsvc⟩))⟩, rfl⟩
  | reject r => exact ⟨⟨rfl, hid, Or.inr (Or.inr (Or.inr (Or.inl ⟨rfl, UInt8.toNat_lt r⟩)))⟩, rfl⟩
  | abort srv r => exact ⟨⟨rfl, hid, Or.inr (Or.inr (Or.inr (Or.inr ⟨rfl, UInt8.toNat_lt r⟩)))⟩, rfl⟩

@[simp] theorem tsm_window {σ} (cfg : DevCfg σ) : cfg.tsm.window = cfg.base.window := rfl

theorem appPass_nil {σ} (cfg : DevCfg σ) (s : DevState σ) : appPass cfg s [] = (s, []) := by
  rw [appPass]

theorem appPass_indicate0 {σ} (cfg : DevCfg σ) (s : DevState σ) (p : Peer) (a : Apdu) (h0 : a.ty = 0)
    {ans : AppAnswer} (hans : (cfg.serve s.app p a).2.answer = some ans) :
    appPass cfg s [.indicate p a] =
      (({ s with
          sap := (step cfg.tsm (applyDcc s.sap (cfg.serve s.app p a).2.dcc)
                    (.response p (respApdu a ans))).1,
          app := (cfg.serve s.app p a).1,
          dccTimer := newDccTimer s.sap.now s.dccTimer (cfg.serve s.app p a).2 } : DevState σ),
       (step cfg.tsm (applyDcc s.sap (cfg.serve s.app p a).2.dcc)
          (.response p (respApdu a ans))).2) := by
  rw [appPass, if_pos h0]
  simp only [appPass_nil, List.append_nil, hans, answerStep]

theorem appPass_send {σ} (cfg : DevCfg σ) (s : DevState σ) (p : Peer) (x : Apdu) :
    appPass cfg s [.send p x] = (s, [.send p x]) := by
  rw [appPass]
  · simp only [appPass_nil]
  all_goals (intro _ _ h; cases h)

theorem step_response {cfg : Cfg} (s : Sap) (p : Peer) (r : Apdu)
    (h : (r.ty = 2 || r.ty = 3 || r.ty = 5 || r.ty = 6 || r.ty = 7) = true) :
    step cfg s (.response p r) = asapPass cfg (smapResponse cfg s p r).1 (smapResponse cfg s p r).2 := by
  simp only [step, smapStep, h, if_true]

theorem asapPass_send {cfg : Cfg} (s : Sap) (p : Peer) (x : Apdu) :
    asapPass cfg s [.send p x] = (s, [.send p x]) := by
  simp [asapPass, asapUp]

/-- the outcome of a fresh, unsegmented confirmed request at the state machine level -/
structure Answered {σ} (s s' : DevState σ) (k : Key) (outs : List Out) : Prop where
  ex : ∃ x, IsReply k.id x ∧ outs = [.send k.peer x] ∧
        (((decide (x.ty = 3) && x.seg) = false ∧ s'.sap.servers = s.sap.servers) ∨
         (x.ty = 3 ∧ x.seg = true ∧ ∃ b', b'.st = .segResp ∧
            s'.sap.servers = s.sap.servers ++ [Txn.mk k b']))
  routes : s'.routes = s.routes
  clients : s'.sap.clients = s.sap.clients

theorem deliver_fresh {σ} (cfg : DevCfg σ) (hw : cfg.base.window < 256) (s : DevState σ) (k : Key)
    (a : Apdu) (h0 : a.ty = 0) (hseg : a.seg = false) (hid : a.invokeId = k.id) (hlt : k.id < 256)
    (hsvc : a.service < 256) (hdcc : dccInbound s.sap.dcc a = true)
    (hfree : findTxn k s.sap.servers = none)
    (hsync : ∀ st, ((cfg.serve st k.peer a).2.answer).isSome = true) :
    Answered s (deliver cfg s k.peer a).1 k (deliver cfg s k.peer a).2 := by
  have hk : (⟨k.peer, a.invokeId⟩ : Key) = k := by rw [hid]
  unfold deliver
  cases hm : Tsm.decodeMaxApdu a.maxResp with
  | none =>
    have hstep : step cfg.tsm s.sap (.frame k.peer a) =
        (s.sap.withDI k.peer (promote a.sa (heldDI s.sap k (newBody cfg.tsm s.sap k.peer))),
         [.send k.peer (mkAbort true k.id abortOther)]) := by
      simp only [step, smapStep]
      unfold smapConfirmation
      simp only [hdcc, Bool.not_true, Bool.false_eq_true, if_false, h0, hk, hfree, serverCreate]
      simp [serverIdle, hm, serverAbortNet, asapPass, asapUp]
    rw [hstep]
    simp only [appPass]
    refine ⟨⟨_, ⟨rfl, hlt, Or.inr (Or.inr (Or.inr (Or.inr ⟨rfl, by simp [mkAbort, abortOther]⟩)))⟩, rfl, Or.inl ⟨by simp [mkAbort], ?_⟩⟩, rfl, ?_⟩
    · simp
    · simp
  | some m =>
    obtain ⟨sapC, b0, hconf, hSC, hCC⟩ : ∃ sapC b0,
        smapConfirmation cfg.tsm s.sap k.peer a = (sapC, [.indicate k.peer a]) ∧
        sapC.servers = s.sap.servers ++ [Txn.mk k b0] ∧ sapC.clients = s.sap.clients := by
      unfold smapConfirmation
      simp only [hdcc, Bool.not_true, Bool.false_eq_true, if_false, h0, hk, hfree, serverCreate]
      simp only [serverIdle, hm, hseg, Bool.not_false, if_true]
      refine ⟨_, ?b0, rfl, ?_, ?_⟩
      rotate_left
      · dsimp only
        rw [withDI_servers]
      · dsimp only
        rw [withDI_clients]
    have happlyS : ∀ d, (applyDcc sapC d).servers = sapC.servers := by intro d; cases d <;> rfl
    have happlyC : ∀ d, (applyDcc sapC d).clients = sapC.clients := by intro d; cases d <;> rfl
    have hida : a.invokeId < 256 := by omega
    simp only [step, smapStep, hconf, asapPass, asapUp, h0, if_true]
    rcases reqDecode_cases cfg.env cfg.confirmed a.service a.data with hok | ⟨r, hr, hrej⟩
    · have hok' : cfg.tsm.reqDecode a.service a.data = .ok := hok
      rw [hok']
      simp only [List.append_nil]
      obtain ⟨ans, hans⟩ := Option.isSome_iff_exists.1 (hsync s.app)
      rw [appPass_indicate0 cfg { s with sap := sapC } _ _ h0 hans]
      obtain ⟨hrep, hrs⟩ := respApdu_isReply hida hsvc ans
      rw [hid] at hrep
      obtain ⟨x, hx, hcase⟩ := smapResponse_fresh (cfg := cfg.tsm) (by simpa using hw)
        (sap1 := applyDcc sapC (cfg.serve s.app k.peer a).2.dcc) (by rw [happlyS]; exact hSC) hfree hrep hrs
      rw [step_response _ _ _ hrep.tyOk]
      rcases hcase with ⟨hns, he⟩ | ⟨hty, hsg, b', hst, he⟩
      · rw [he, asapPass_send]
        exact ⟨⟨x, hx, rfl, Or.inl ⟨hns, rfl⟩⟩, rfl, by simp [happlyC, hCC]⟩
      · rw [he, asapPass_send]
        exact ⟨⟨x, hx, rfl, Or.inr ⟨hty, hsg, b', hst, rfl⟩⟩, rfl, by simp [happlyC, hCC]⟩
    · have hrej' : cfg.tsm.reqDecode a.service a.data = .reject r := hrej
      rw [hrej']
      simp only [List.append_nil]
      have hrep : IsReply k.id { ty := 6, invokeId := a.invokeId, reason := r } :=
        ⟨hid, hlt, Or.inr (Or.inr (Or.inr (Or.inl ⟨rfl, hr⟩)))⟩
      obtain ⟨x, hx, hcase⟩ := smapResponse_fresh (cfg := cfg.tsm) (by simpa using hw)
        (sap1 := sapC) hSC hfree hrep rfl
      rcases hcase with ⟨hns, he⟩ | ⟨hty, hsg, b', hst, he⟩
      · rw [he, appPass_send]
        exact ⟨⟨x, hx, rfl, Or.inl ⟨hns, rfl⟩⟩, rfl, hCC⟩
      · rw [he, appPass_send]
        exact ⟨⟨x, hx, rfl, Or.inr ⟨hty, hsg, b', hst, rfl⟩⟩, rfl, hCC⟩
