/-
  Lemmas.BipHop — a weighted total over the whole progeny of a queue of datagrams
  (`tot`: weight `po` per observation, weight `pd` per datagram still unprocessed when the
  fuel runs out), additive over the queue, with one unfolding rule per kind of hop.
  Delivery counts and quiescence of `World.run` are both instances of `tot`.
-/
import BacVerif.Lemmas.BipTopo
namespace BacVerif.Bip

def tot (po : Obs → Nat) (pd : Dgram → Nat) : Nat → World → List Dgram → Nat
  | 0, _, q => (q.map pd).sum
  | f + 1, w, q => ((q.flatMap (obsS w)).map po).sum + tot po pd f w (q.flatMap (outS w))

/-! ### sums -/

theorem sum_map_zero {α} (l : List α) : (l.map fun _ => (0 : Nat)).sum = 0 := by
  induction l with
  | nil => rfl
  | cons a l ih => simp [ih]

theorem sum_map_add {α} (l : List α) (g h : α → Nat) :
    (l.map fun a => g a + h a).sum = (l.map g).sum + (l.map h).sum := by
  induction l with
  | nil => rfl
  | cons a l ih => simp only [List.map_cons, List.sum_cons, ih]; omega

theorem sum_flatMap {α β} (l : List α) (g : α → List β) (h : β → Nat) :
    ((l.flatMap g).map h).sum = (l.map fun a => ((g a).map h).sum).sum := by
  induction l with
  | nil => rfl
  | cons a l ih => simp [List.flatMap_cons, List.sum_append, ih]

theorem sum_none {α} (l : List α) (g : α → Nat) (h : ∀ z ∈ l, g z = 0) : (l.map g).sum = 0 := by
  induction l with
  | nil => rfl
  | cons a l ih =>
    simp only [List.map_cons, List.sum_cons, h a (List.mem_cons_self ..),
      ih (fun z hz => h z (List.mem_cons_of_mem _ hz))]

/-- exactly one member carries weight -/
theorem sum_unique {α} (g : α → Nat) : ∀ (l : List α) (y : α), y ∈ l → l.Nodup →
    (∀ z ∈ l, z ≠ y → g z = 0) → (l.map g).sum = g y := by
  intro l
  induction l with
  | nil => intro y hy; cases hy
  | cons a l ih =>
    intro y hy hnd h
    rw [List.nodup_cons] at hnd
    simp only [List.map_cons, List.sum_cons]
    rcases List.mem_cons.1 hy with rfl | hy'
    · rw [sum_none l g (fun z hz => h z (List.mem_cons_of_mem _ hz) (fun hzy => hnd.1 (hzy ▸ hz)))]
      omega
    · have : g a = 0 := h a (List.mem_cons_self ..) (fun hay => hnd.1 (hay ▸ hy'))
      rw [this, ih y hy' hnd.2 (fun z hz => h z (List.mem_cons_of_mem _ hz))]
      omega

theorem nodup_of_map {α κ} (key : α → κ) : ∀ (l : List α), (l.map key).Nodup → l.Nodup := by
  intro l
  induction l with
  | nil => intro _; exact List.nodup_nil
  | cons a l ih =>
    intro h
    simp only [List.map_cons, List.nodup_cons] at h ⊢
    exact ⟨fun ha => h.1 (List.mem_map_of_mem ha), ih h.2⟩

/-! ### additivity of `tot` -/

theorem tot_nil (po : Obs → Nat) (pd : Dgram → Nat) (f : Nat) (w : World) : tot po pd f w [] = 0 := by
  induction f with
  | zero => rfl
  | succ f ih => simp [tot, ih]

theorem tot_append (po : Obs → Nat) (pd : Dgram → Nat) (f : Nat) (w : World) (q1 q2 : List Dgram) :
    tot po pd f w (q1 ++ q2) = tot po pd f w q1 + tot po pd f w q2 := by
  induction f generalizing q1 q2 with
  | zero => simp [tot, List.sum_append]
  | succ f ih =>
    simp only [tot, List.flatMap_append, List.map_append, List.sum_append, ih]
    omega

theorem tot_cons (po : Obs → Nat) (pd : Dgram → Nat) (f : Nat) (w : World) (d : Dgram) (q : List Dgram) :
    tot po pd f w (d :: q) = tot po pd f w [d] + tot po pd f w q := by
  have := tot_append po pd f w [d] q
  simpa using this

theorem tot_single (po : Obs → Nat) (pd : Dgram → Nat) (f : Nat) (w : World) (d : Dgram) :
    tot po pd (f + 1) w [d] = ((obsS w d).map po).sum + tot po pd f w (outS w d) := by
  simp [tot]

theorem tot_map {α} (po : Obs → Nat) (pd : Dgram → Nat) (f : Nat) (w : World) (l : List α) (g : α → Dgram) :
    tot po pd f w (l.map g) = (l.map fun a => tot po pd f w [g a]).sum := by
  induction l with
  | nil => simp [tot_nil]
  | cons a l ih => rw [List.map_cons, tot_cons, ih]; simp

theorem tot_flatMap {α} (po : Obs → Nat) (pd : Dgram → Nat) (f : Nat) (w : World) (l : List α)
    (g : α → List Dgram) :
    tot po pd f w (l.flatMap g) = (l.map fun a => tot po pd f w (g a)).sum := by
  induction l with
  | nil => simp [tot_nil]
  | cons a l ih => rw [List.flatMap_cons, tot_append, ih]; simp

theorem tot_ite (po : Obs → Nat) (pd : Dgram → Nat) (f : Nat) (w : World) (c : Prop) [Decidable c]
    (q : List Dgram) : tot po pd f w (if c then q else []) = if c then tot po pd f w q else 0 := by
  split <;> simp [tot_nil]

/-! ### `tot` reads off delivery counts and quiescence of the static run -/

theorem countP_eq_tot (p : Obs → Bool) (f : Nat) (w : World) (q : List Dgram) :
    (runObs f w q).countP p = tot (fun ob => if p ob then 1 else 0) (fun _ => 0) f w q := by
  induction f generalizing q with
  | zero => simp [runObs, tot, sum_map_zero]
  | succ f ih =>
    simp only [runObs, tot, List.countP_append, ih]
    congr 1
    generalize q.flatMap (obsS w) = l
    induction l with
    | nil => rfl
    | cons a l ih2 => simp only [List.countP_cons, List.map_cons, List.sum_cons, ih2]; omega

theorem quietS_iff_tot (f : Nat) (w : World) (q : List Dgram) :
    quietS f w q = true ↔ tot (fun _ => 0) (fun _ => 1) f w q = 0 := by
  induction f generalizing q with
  | zero =>
    cases q with
    | nil => simp [quietS, tot]
    | cons d q => simp [quietS, tot]
  | succ f ih =>
    cases q with
    | nil => simp [quietS, tot_nil]
    | cons d q =>
      simp only [quietS, ih, tot, sum_map_zero, Nat.zero_add]

/-! ### one rule per hop -/

/-- what node `nd` of net `n` contributes when it receives `m` from `s` as `dd` -/
def nodeT (po : Obs → Nat) (pd : Dgram → Nat) (f : Nat) (w : World) (n : Net) (s : Addr)
    (dd : Dest) (m : Bvll) (nd : Node) : Nat :=
  ((outObs nd.addr (nd.st.up w.now s dd m).2).map po).sum +
    tot po pd f w (outDgrams n nd.addr (nd.st.up w.now s dd m).2)

section
variable {w : World} (hw : WF w) (po : Obs → Nat) (pd : Dgram → Nat)
include hw

theorem tot_unicast_local {n : Net} (hn : n ∈ w.nets) {y : Node} (hy : y ∈ n.nodes)
    (s : Addr) (m : Bvll) (f : Nat) :
    tot po pd (f + 1) w [⟨n.id, s, y.addr, m⟩] = nodeT po pd f w n s (.station y.addr) m y := by
  obtain ⟨h1, h2⟩ := unicast_local hw hn hy s m
  rw [tot_single, h1, h2]; rfl

theorem tot_unicast_remote {n n' : Net} (hn : n ∈ w.nets) (hn' : n' ∈ w.nets) (hne : n.id ≠ n'.id)
    {z : Node} (hz : z ∈ n.nodes) {y : Node} (hy : y ∈ n'.nodes) (s : Addr) (m : Bvll) (f : Nat) :
    tot po pd (f + 2) w [⟨n.id, s, y.addr, m⟩] = nodeT po pd f w n' s (.station y.addr) m y := by
  obtain ⟨h1, h2⟩ := unicast_remote hw hn hn' hne hz hy s m
  rw [show f + 2 = (f + 1) + 1 from rfl, tot_single, h1, h2]
  simp only [List.map_nil, List.sum_nil, Nat.zero_add]
  exact tot_unicast_local hw po pd hn' hy s m f

/-- unicast to a node wherever it is: at most one extra generation for the router -/
theorem tot_unicast {n n' : Net} (hn : n ∈ w.nets) (hn' : n' ∈ w.nets)
    {z : Node} (hz : z ∈ n.nodes) {y : Node} (hy : y ∈ n'.nodes) (s : Addr) (m : Bvll) (f : Nat) :
    ∃ g, (g = f ∨ g = f + 1) ∧
      tot po pd (f + 2) w [⟨n.id, s, y.addr, m⟩] = nodeT po pd g w n' s (.station y.addr) m y := by
  by_cases hne : n.id = n'.id
  · have := hw.net_eq hn hn' hne
    subst this
    exact ⟨f + 1, Or.inr rfl, tot_unicast_local hw po pd hn hy s m (f + 1)⟩
  · exact ⟨f, Or.inl rfl, tot_unicast_remote hw po pd hn hn' hne hz hy s m f⟩

theorem tot_bcast {n : Net} (hn : n ∈ w.nets) (s : Addr) (m : Bvll) (f : Nat) :
    tot po pd (f + 1) w [⟨n.id, s, n.bcast, m⟩] =
      (n.nodes.map fun nd => if nd.addr ≠ s then nodeT po pd f w n s .bcast m nd else 0).sum := by
  obtain ⟨h1, h2⟩ := bcast_local hw hn s m
  rw [tot_single, h1, h2, sum_flatMap, tot_flatMap, ← sum_map_add]
  congr 1
  apply List.map_congr_left
  intro nd _
  by_cases h : nd.addr ≠ s
  · simp only [h, if_true, nodeT, ne_eq, not_false_eq_true]
  · simp only [h, if_false, List.map_nil, List.sum_nil, tot_nil]

/-- a directed broadcast into another network: one generation for the router, then every node there -/
theorem tot_directed {n nc : Net} (hn : n ∈ w.nets) (hnc : nc ∈ w.nets) (hne : n.id ≠ nc.id)
    (hcov : nc.covers nc.bcast = true) {z : Node} (hz : z ∈ n.nodes) (s : Addr) (m : Bvll) (f : Nat) :
    tot po pd (f + 2) w [⟨n.id, s, nc.bcast, m⟩] =
      (nc.nodes.map fun nd => if nd.addr ≠ s then nodeT po pd f w nc s .bcast m nd else 0).sum := by
  obtain ⟨h1, h2⟩ := directed_remote hw hn hnc hne hcov hz s m
  rw [show f + 2 = (f + 1) + 1 from rfl, tot_single, h1, h2]
  simp only [List.map_nil, List.sum_nil, Nat.zero_add]
  exact tot_bcast hw po pd hnc s m f

end

end BacVerif.Bip
