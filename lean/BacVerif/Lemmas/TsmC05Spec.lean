/-
  Lemmas.TsmC05Spec — the two per-party specifications of the C05 two-party
  theorem, as instances of `Local` (Lemmas/TsmC05Local.lean).

  Party A (client) submits a request with payload `P` to B under invoke ID
  `id`; B's application answers every indication with a ComplexAck carrying
  `R`.  `TP` / `TR` are the two transfers (geometry = what `set_segment_size`
  computes on each side, see `Params.Geo`).

  `specA`: every listed client transaction of A that is still sending holds the
  request as its context with the fixed geometry; the one with key (B, id)
  that is receiving holds a buffer `RecvBuf TR`; every ConfirmedRequest frame A
  emits toward B under `id` is a genuine frame of `TP` with the constant
  capability header; every ComplexAck A confirms to its application for
  (B, id) carries exactly `R`.
  `specB`: the mirror image for the server side.
-/
import BacVerif.Lemmas.TsmC05Local
import BacVerif.Lemmas.TsmC05Seg
namespace BacVerif.Tsm
set_option linter.unusedSimpArgs false
set_option linter.unusedVariables false

/-- the cached `maxNpduLength` of a peer -/
def lookupNpdu (dev : List (Peer × DeviceInfo)) (peer : Peer) : Option Nat :=
  (lookupDI dev peer).bind (·.maxNpdu)

theorem heldOf_of_hasDI {dev : List (Peer × DeviceInfo)} {k : Key} {b : Body}
    (h : b.hasDI = (lookupDI dev k.peer).isSome) : heldOf dev k b = lookupDI dev k.peer := by
  unfold heldOf
  cases hl : lookupDI dev k.peer <;> simp [h, hl]

theorem npduOf_of_hasDI {dev : List (Peer × DeviceInfo)} {k : Key} {b : Body}
    (h : b.hasDI = (lookupDI dev k.peer).isSome) : npduOf dev k b = lookupNpdu dev k.peer := by
  unfold npduOf lookupNpdu
  rw [heldOf_of_hasDI h]
  cases lookupDI dev k.peer <;> rfl

/-- the parameters of one request/response exchange -/
structure Params where
  peerA : Peer          -- how B names A
  peerB : Peer          -- how A names B
  id : Nat              -- invoke ID
  svc : Nat             -- service choice
  P : Bytes             -- request payload (submitted by A's application)
  R : Bytes             -- response payload (submitted by B's application)
  sizeP : Nat
  countP : Nat
  sizeR : Nat
  countR : Nat
  mr : Nat              -- max-APDU code A announces in every request frame
  ms : Nat              -- max-segments code
  sa : Bool             -- segmented-response-accepted
  MB : Nat              -- the maximum APDU B holds for A

def Params.TP (p : Params) : Xfer := ⟨0, p.id, p.P, p.sizeP, p.countP⟩
def Params.TR (p : Params) : Xfer := ⟨3, p.id, p.R, p.sizeR, p.countR⟩
def Params.kA (p : Params) : Key := ⟨p.peerB, p.id⟩     -- the client transaction in A
def Params.kB (p : Params) : Key := ⟨p.peerA, p.id⟩     -- the server transaction in B

/-- a genuine ConfirmedRequest frame of the exchange: content and capability header -/
def Params.ReqFrame (p : Params) (a : Apdu) : Prop :=
  a.ty = 0 → a.invokeId = p.id → Genuine p.TP a ∧ ReqHdr p.mr p.ms p.sa p.svc a

/-- … the same with a constraint on the segment index -/
def Params.ReqFrameN (p : Params) (N : Nat → Prop) (a : Apdu) : Prop :=
  a.ty = 0 → a.invokeId = p.id → GenuineN p.TP N a ∧ ReqHdr p.mr p.ms p.sa p.svc a

theorem Params.ReqFrameN.plain {p : Params} {N : Nat → Prop} {a : Apdu} (h : p.ReqFrameN N a) :
    p.ReqFrame a := fun h0 hi => ⟨(h h0 hi).1.genuine, (h h0 hi).2⟩

/-- what a client transaction may be handed as a segment of the response:
    while it receives, a segment less than 256 away from the expected one;
    before, one of the first 256 -/
def NearC (T : Xfer) (b : Body) (i : Nat) : Prop :=
  (b.st = .segConf → NearIdx T b i) ∧ (b.st ≠ .segConf → i < 256)

/-- what the geometry parameters have to be: the values the two sides compute -/
structure Params.Geo (p : Params) (cfgA cfgB : Cfg) (devA devB : List (Peer × DeviceInfo)) : Prop where
  /-- A cuts the request for the maximum it assumes B accepts -/
  cutP : setSegmentSize p.P.length (clientMaxApdu (lookupDI devA p.peerB) cfgA.maxApdu) 4 6
           = some (p.sizeP, p.countP)
  encMr : encodeMaxApdu cfgA.maxApdu = .ok p.mr
  encMs : encodeMaxSegs cfgA.maxSegs = .ok p.ms
  sa : p.sa = cfgA.seg.canRx
  /-- what B derives from the request header (and its record of A, if any) -/
  holdB : ∀ m, decodeMaxApdu p.mr = some m →
            announcedMax (promote p.sa (lookupDI devB p.peerA)) m = p.MB
  /-- B cuts the response for that maximum -/
  cutR : ∀ size count,
    setSegmentSize p.R.length
        (serverMaxApdu (lookupNpdu devB p.peerA) p.MB) 3 5
      = some (size, count) → size = p.sizeR ∧ count = p.countR
  wfR : p.TR.WF

theorem Params.Geo.wfP {p : Params} {cfgA cfgB : Cfg} {devA devB : List (Peer × DeviceInfo)}
    (g : p.Geo cfgA cfgB devA devB) : p.TP.WF := by
  have := segment_partition p.P (by decide : 4 ≤ 6) g.cutP
  refine ⟨?_, this.1⟩
  have h2 := this.2.1
  show 1 ≤ p.countP
  rw [h2]; exact Nat.le_max_left _ _

/-! ### party A -/

def specA (p : Params) (cfg : Cfg) (dev : List (Peer × DeviceInfo)) : Local cfg dev where
  CI k b :=
    ((b.st = .segReq ∨ b.st = .awaitConf) →
        ∃ c, b.ctx = some c ∧ c.ty = 0 ∧ c.invokeId = k.id ∧ b.maxApdu = cfg.maxApdu ∧
          b.maxSegs = cfg.maxSegs ∧ b.hasDI = (lookupDI dev k.peer).isSome ∧
          (k = p.kA → c.data = p.P ∧ c.service = p.svc ∧ b.segSize = p.sizeP ∧ b.segCount = p.countP)) ∧
    (b.st = .segConf → ∃ c, b.ctx = some c ∧ c.invokeId = k.id ∧ (k = p.kA → RecvBuf p.TR b))
  SI _ _ := False
  FC k b a := k = p.kA → a.ty = 3 → GenuineN p.TR (NearC p.TR b) a
  FS _ _ _ := True
  FN _ _ := False
  RS _ _ _ := True
  QN k svc data := k = p.kA → data = p.P ∧ svc = p.svc
  OO o :=
    (∀ q a, o = .send q a → a.ty = 0 ∨ a.ty = 1 ∨ a.ty = 4 ∨ a.ty = 7) ∧
    (∀ q a, o = .send q a → q = p.peerB → p.ReqFrame a) ∧
    (∀ q a, o = .confirm q a → q = p.peerB → a.ty = 3 → a.invokeId = p.id → a.data = p.R)

/-! ### party B -/

def specB (p : Params) (cfg : Cfg) (dev : List (Peer × DeviceInfo)) : Local cfg dev where
  CI _ _ := False
  SI k b :=
    (b.st = .segResp → ∃ c, b.ctx = some c ∧ c.ty = 3 ∧ c.invokeId = k.id ∧ b.segCount ≠ 1 ∧
        (k = p.kB → c.data = p.R ∧ b.segSize = p.sizeR ∧ b.segCount = p.countR)) ∧
    (b.st = .segReq → ∃ c, b.ctx = some c ∧ c.invokeId = k.id ∧ (k = p.kB → RecvBuf p.TP b)) ∧
    (k = p.kB → b.maxApdu = p.MB ∧ b.hasDI = (lookupDI dev p.peerA).isSome)
  FC _ _ _ := True
  FS k b a := k = p.kB → p.ReqFrameN (NearIdx p.TP b) a
  FN k a := k = p.kB → p.ReqFrameN (fun i => i < 256) a
  RS k _ a := k = p.kB → a.ty = 3 → a.data = p.R ∧ a.seg = false
  QN _ _ _ := False
  OO o :=
    (∀ q a, o = .send q a → a.ty ≠ 0) ∧
    (∀ q a, o = .send q a → q = p.peerA → Genuine p.TR a) ∧
    (∀ q a, o = .indicate q a → q = p.peerA → a.ty = 0 → a.invokeId = p.id → a.data = p.P)

end BacVerif.Tsm
