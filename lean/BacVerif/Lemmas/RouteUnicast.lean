/-
  Lemmas.RouteUnicast — remote unicast / remote broadcast on a tree-shaped internetwork whose
  caches are consistent with the tree (C06): the packet travels down the unique path and is
  delivered exactly to the addressed stations of the destination network.  Core Lean only.
-/
import BacVerif.Lemmas.RouteGlobal
set_option linter.unusedSimpArgs false
namespace BacVerif.C06
open BacVerif BacVerif.Route

/-- an application-layer packet in flight -/
def rtp (dadr : Option Dadr) (sadr : Option (Nat × Mac)) (v : Option Nat) (er : Bool) (prio : Nat)
    (data : Bytes) (h : Nat) : Npci :=
  { dadr := dadr, sadr := sadr, hop := h, msg := none, vendor := v, er := er, prio := prio, data := data }

/-- the network a DADR names -/
def _root_.BacVerif.Route.Dadr.net : Dadr → Nat
  | .rs n _ => n
  | .rb n => n
  | .gb => 0xFFFF

mutual
/-- the stations of network `d` -/
def NetTree.stationsOn (d : Nat) : NetTree → List Station
  | .mk lan sts rs => if d = lan then sts else rs.stationsOn d
def Routers.stationsOn (d : Nat) : Routers → List Station
  | .nil => []
  | .cons _ _ _ _ bf ds rest =>
      if d ∈ bf.lans then bf.stationsOn d else if d ∈ ds.lans then ds.stationsOn d else rest.stationsOn d
def Downs.stationsOn (d : Nat) : Downs → List Station
  | .nil => []
  | .cons _ _ sub rest => if d ∈ sub.lans then sub.stationsOn d else rest.stationsOn d
end

/-- which stations a last-leg frame is for -/
def lkSel (lk : Link) (s : Station) : Bool :=
  match lk with
  | .bcast => true
  | .to m => s.mac == m

/-- what the stations of the destination network are handed -/
def rtUp (s0 : Nat × Mac) (lk : Link) (er : Bool) (prio : Nat) (data : Bytes) : Up :=
  ⟨.remoteStation s0.1 s0.2, some lk.toAddr, er, prio, data⟩

/-- the source a station is shown: the SADR if the frame has one, else the link source -/
def srcOf (sIn : Option (Nat × Mac)) (u : Mac) : Addr :=
  match sIn with
  | some s => .remoteStation s.1 s.2
  | none => .localStation u

/-- a station hearing a frame without DADR (last leg of a routed packet, or local traffic) -/
theorem station_leg (lan : Nat) (s : Station) (sIn : Option (Nat × Mac)) (v : Option Nat) (er : Bool) (prio : Nat)
    (data : Bytes) (h : Nat) (u : Mac) (lk : Link) (hs : ∀ s0, sIn = some s0 → s0.1 ≠ lan) :
    delivered (s.tnode lan) (s.adapter lan) ⟨lan, u, lk, rtp none sIn v er prio data h⟩ =
      [⟨lan, s.mac, ⟨srcOf sIn u, some lk.toAddr, er, prio, data⟩⟩] ∧
    emitted (s.tnode lan) (s.adapter lan) ⟨lan, u, lk, rtp none sIn v er prio data h⟩ = [] := by
  have hloc : (s.tnode lan).node.loc = some (s.adapter lan) := by
    simp [Node.loc, Station.tnode, Station.adapter]
  have hsp : spoofed (s.tnode lan).node (rtp none sIn v er prio data h) = false := by
    cases sIn with
    | none => rfl
    | some s0 =>
      simp only [spoofed, rtp, Node.hasNet, Station.tnode, Station.adapter, List.any_cons, List.any_nil]
      cases s.knowsNet <;> simp [Ne.symm (hs s0 rfl)]
  have hr : ∃ lrn, route (s.tnode lan).node (s.tnode lan).cache (s.adapter lan) u lk (rtp none sIn v er prio data h) =
      { learn := lrn, up := some ⟨srcOf sIn u, some lk.toAddr, er, prio, data⟩, out := [] } := by
    unfold route
    simp only [hloc, hsp]
    cases sIn <;> simp [classify, rtp, routeGo, shown, Station.tnode, srcOf]
  obtain ⟨lrn, hr⟩ := hr
  constructor
  · simp only [delivered, hr]
    simp [Station.adapter]
  · simp only [emitted, hr]
    simp [Decision.sends]

/-- a router hearing a frame without DADR on its up port: nothing happens -/
theorem router_leg (P ua : Nat) (um : Mac) (la : Nat) (c : Cache) (bf ds : Downs)
    (sIn : Option (Nat × Mac)) (v : Option Nat) (er : Bool) (prio : Nat) (data : Bytes) (h : Nat) (u : Mac) (lk : Link)
    (hla : la ∈ ua :: (bf.aids ++ ds.aids)) (hs : ∀ s0, sIn = some s0 → s0.1 ≠ P ∧ s0.1 ∉ bf.lans ++ ds.lans) :
    delivered (routerNode P ua um la c bf ds) (mkPort ua um P) ⟨P, u, lk, rtp none sIn v er prio data h⟩ = [] ∧
    emitted (routerNode P ua um la c bf ds) (mkPort ua um P) ⟨P, u, lk, rtp none sIn v er prio data h⟩ = [] := by
  obtain ⟨loc, hloc, _, _⟩ := router_loc P ua um la c bf ds hla
  have hsp : spoofed (routerNode P ua um la c bf ds).node (rtp none sIn v er prio data h) = false := by
    cases sIn with
    | none => rfl
    | some s0 =>
      simp only [spoofed, rtp]
      exact router_hasNet P ua um la c bf ds s0.1 (hs s0 rfl).1 (hs s0 rfl).2
  have hr : ∃ lrn, route (routerNode P ua um la c bf ds).node (routerNode P ua um la c bf ds).cache (mkPort ua um P) u lk
      (rtp none sIn v er prio data h) = { learn := lrn } := by
    unfold route
    simp only [hloc, hsp]
    simp [classify, rtp, routeGo, routerNode]
  obtain ⟨lrn, hr⟩ := hr
  constructor
  · simp [delivered, hr]
  · simp [emitted, hr, Decision.sends]

/-- the routers of a network ignore a frame without DADR -/
theorem routers_leg (v : Option Nat) (er : Bool) (prio : Nat) (data : Bytes)
    (sIn : Option (Nat × Mac)) (topo : Topology) (P : Nat) (rs : Routers) (u : Mac) (h : Nat) (lk : Link)
    (hwf : rs.wf = true) (hs : ∀ s0, sIn = some s0 → s0.1 ≠ P ∧ s0.1 ∉ rs.lans) :
    (((rs.upEntries P).filter (fun x => macOk ⟨P, u, lk, rtp none sIn v er prio data h⟩ x.2)).flatMap fun x =>
        delivered x.1 x.2 ⟨P, u, lk, rtp none sIn v er prio data h⟩ ++
          (emitted x.1 x.2 ⟨P, u, lk, rtp none sIn v er prio data h⟩).flatMap (deliverAll topo)) = [] := by
  match rs with
  | .nil => rfl
  | .cons ua um la c bf ds rest =>
    simp only [Routers.wf, Bool.and_eq_true, decide_eq_true_eq, List.nodup_cons, List.contains_iff_mem] at hwf
    obtain ⟨⟨⟨⟨⟨_, _⟩, hla⟩, _⟩, _⟩, hrwf⟩ := hwf
    have hs1 : ∀ s0, sIn = some s0 → s0.1 ≠ P ∧ s0.1 ∉ bf.lans ++ ds.lans := by
      intro s0 e
      have := hs s0 e
      simp only [Routers.lans, List.mem_append, not_or] at this
      exact ⟨this.1, by simpa using this.2.1⟩
    have hs2 : ∀ s0, sIn = some s0 → s0.1 ≠ P ∧ s0.1 ∉ rest.lans := by
      intro s0 e
      have := hs s0 e
      simp only [Routers.lans, List.mem_append, not_or] at this
      exact ⟨this.1, this.2.2⟩
    obtain ⟨hd, he⟩ := router_leg P ua um la c bf ds sIn v er prio data h u lk hla hs1
    have ih := routers_leg v er prio data sIn topo P rest u h lk hrwf hs2
    simp only [Routers.upEntries, List.filter_cons]
    split
    · simp only [List.flatMap_cons, hd, he, List.flatMap_nil, List.append_nil, List.nil_append]
      exact ih
    · exact ih

/-- the stations of a network hearing a frame without DADR: those the link destination selects
    (and, for a broadcast, not the sender itself) are handed it once -/
theorem stations_leg (v : Option Nat) (er : Bool) (prio : Nat) (data : Bytes)
    (sIn : Option (Nat × Mac)) (topo : Topology) (lan : Nat) (sts : List Station) (u : Mac) (h : Nat)
    (lk : Link) (hs : ∀ s0, sIn = some s0 → s0.1 ≠ lan) :
    (((stationEntries lan sts).filter (fun x => macOk ⟨lan, u, lk, rtp none sIn v er prio data h⟩ x.2)).flatMap fun x =>
        delivered x.1 x.2 ⟨lan, u, lk, rtp none sIn v er prio data h⟩ ++
          (emitted x.1 x.2 ⟨lan, u, lk, rtp none sIn v er prio data h⟩).flatMap (deliverAll topo)) =
      (sts.filter (fun s => macOk ⟨lan, u, lk, rtp none sIn v er prio data h⟩ (s.adapter lan))).map
        (fun s => ⟨lan, s.mac, ⟨srcOf sIn u, some lk.toAddr, er, prio, data⟩⟩) := by
  induction sts with
  | nil => rfl
  | cons s sts ih =>
    obtain ⟨hd, he⟩ := station_leg lan s sIn v er prio data h u lk hs
    simp only [stationEntries, List.map_cons, List.filter_cons] at ih ⊢
    by_cases hsel : macOk ⟨lan, u, lk, rtp none sIn v er prio data h⟩ (s.adapter lan) = true
    · simp only [hsel, if_true, List.flatMap_cons, hd, he, List.flatMap_nil, List.append_nil, List.map_cons]
      rw [ih]
      rfl
    · simp only [hsel, Bool.false_eq_true, if_false]
      exact ih

def rtExpect (d : Nat) (lk : Link) (s0 : Nat × Mac) (er : Bool) (prio : Nat) (data : Bytes)
    (sts : List Station) : List Delivery :=
  (sts.filter (lkSel lk)).map (fun s => ⟨d, s.mac, rtUp s0 lk er prio data⟩)

/-- the router on network `P` that leads to `d` (its port on `P`) -/
def Routers.nextHop (d : Nat) : Routers → Option Mac
  | .nil => none
  | .cons _ um _ _ bf ds rest => if d ∈ bf.lans ++ ds.lans then some um else rest.nextHop d

mutual
/-- the caches on the path to `d` are consistent with the tree: at every router on the path,
    either `d` is directly connected or the cache search the code performs over the router's
    other adapters finds the port towards `d` and, there, the next router -/
def NetTree.warm (d : Nat) : NetTree → Bool
  | .mk _ _ rs => rs.warm d
def Routers.warm (d : Nat) : Routers → Bool
  | .nil => true
  | .cons _ _ _ c bf ds rest =>
      (if d ∈ bf.lans then bf.warm c (allPorts bf ds) d
       else if d ∈ ds.lans then ds.warm c (allPorts bf ds) d else true) && rest.warm d
def Downs.warm (c : Cache) (all : List Adapter) (d : Nat) : Downs → Bool
  | .nil => true
  | .cons aid mac sub rest =>
      (if d ∈ sub.lans then
        (d == sub.lan ||
          (match sub.routers.nextHop d with
           | some m' => findPath c all d == some (mkPort aid mac sub.lan, m')
           | none => false)) && sub.warm d
       else true) && rest.warm c all d
end

/-! ### single nodes -/

/-- a station hearing the last leg of a routed packet (no DADR, SADR names the originator) -/
theorem station_lastleg (lan : Nat) (s : Station) (s0 : Nat × Mac) (v : Option Nat) (er : Bool) (prio : Nat)
    (data : Bytes) (h : Nat) (u : Mac) (lk : Link) (hs : s0.1 ≠ lan) :
    delivered (s.tnode lan) (s.adapter lan) ⟨lan, u, lk, rtp none (some s0) v er prio data h⟩ =
      [⟨lan, s.mac, rtUp s0 lk er prio data⟩] ∧
    emitted (s.tnode lan) (s.adapter lan) ⟨lan, u, lk, rtp none (some s0) v er prio data h⟩ = [] := by
  have hsp : spoofed (s.tnode lan).node (rtp none (some s0) v er prio data h) = false := by
    simp only [spoofed, rtp, Node.hasNet, Station.tnode, Station.adapter, List.any_cons, List.any_nil]
    cases s.knowsNet <;> simp [Ne.symm hs]
  have hr : ∃ lrn, route (s.tnode lan).node (s.tnode lan).cache (s.adapter lan) u lk (rtp none (some s0) v er prio data h) =
      { learn := lrn, up := some (rtUp s0 lk er prio data), out := [] } := by
    unfold route
    simp only [station_loc, hsp]
    simp [classify, rtp, routeGo, shown, Station.tnode, rtUp]
  obtain ⟨lrn, hr⟩ := hr
  constructor
  · simp only [delivered, hr]
    simp [Station.adapter]
  · simp only [emitted, hr]
    simp [Decision.sends]

end BacVerif.C06

namespace BacVerif.C06
open BacVerif BacVerif.Route

section
variable (v : Option Nat) (er : Bool) (prio : Nat) (data : Bytes)

theorem stations_lastleg (s0 : Nat × Mac) (topo : Topology) (lan : Nat) (sts : List Station) (u : Mac) (h : Nat)
    (lk : Link) (hs : s0.1 ≠ lan) (hm : ∀ s ∈ sts, s.mac ≠ u) :
    (((stationEntries lan sts).filter (fun x => macOk ⟨lan, u, lk, rtp none (some s0) v er prio data h⟩ x.2)).flatMap fun x =>
        delivered x.1 x.2 ⟨lan, u, lk, rtp none (some s0) v er prio data h⟩ ++
          (emitted x.1 x.2 ⟨lan, u, lk, rtp none (some s0) v er prio data h⟩).flatMap (deliverAll topo)) =
      rtExpect lan lk s0 er prio data sts := by
  induction sts with
  | nil => rfl
  | cons s sts ih =>
    have h1 : s.mac ≠ u := hm s List.mem_cons_self
    have h2 := ih (fun s hs => hm s (List.mem_cons_of_mem _ hs))
    obtain ⟨hd, he⟩ := station_lastleg lan s s0 v er prio data h u lk hs
    simp only [stationEntries, List.map_cons, List.filter_cons, rtExpect] at h2 ⊢
    have : macOk ⟨lan, u, lk, rtp none (some s0) v er prio data h⟩ (s.adapter lan) = lkSel lk s := by
      cases lk <;> simp [macOk, lkSel, Station.adapter, h1]
    rw [this]
    by_cases hsel : lkSel lk s = true
    · simp only [hsel, if_true, List.flatMap_cons, hd, he, List.flatMap_nil, List.append_nil, List.map_cons]
      rw [h2]
      rfl
    · simp only [hsel, Bool.false_eq_true, if_false]
      exact h2

theorem routers_lastleg (s0 : Nat × Mac) (topo : Topology) (P : Nat) (rs : Routers) (u : Mac) (h : Nat) (lk : Link)
    (hwf : rs.wf = true) (hs : s0.1 ≠ P) (hsr : s0.1 ∉ rs.lans) :
    (((rs.upEntries P).filter (fun x => macOk ⟨P, u, lk, rtp none (some s0) v er prio data h⟩ x.2)).flatMap fun x =>
        delivered x.1 x.2 ⟨P, u, lk, rtp none (some s0) v er prio data h⟩ ++
          (emitted x.1 x.2 ⟨P, u, lk, rtp none (some s0) v er prio data h⟩).flatMap (deliverAll topo)) = [] :=
  routers_leg v er prio data (some s0) topo P rs u h lk hwf (fun s e => by cases e; exact ⟨hs, hsr⟩)

/-- the last leg: a frame without DADR on the destination network reaches exactly the stations it
    is addressed to (`lk`), each once; routers on that network ignore it -/
theorem NetTree.lastLeg (lan : Nat) (sts : List Station) (rs : Routers) (topo : Topology)
    (upE : List (TNode × Adapter)) (u : Mac) (h : Nat) (lk : Link) (s0 : Nat × Mac)
    (hT : HT topo (.mk lan sts rs) upE) (hup : ∀ x ∈ upE, x.2.mac = u) (hn : lan ∉ rs.lans)
    (hwf : (NetTree.mk lan sts rs).wf [u] = true) (hs : s0.1 ≠ lan) (hsr : s0.1 ∉ rs.lans)
    (hm : ∀ m, lk = .to m → m ≠ u) :
    deliverAll topo ⟨lan, u, lk, rtp none (some s0) v er prio data h⟩ = rtExpect lan lk s0 er prio data sts := by
  simp only [NetTree.wf, Bool.and_eq_true, decide_eq_true_eq] at hwf
  obtain ⟨hm1, _, _, _, _⟩ := macs_facts [u] sts rs.upMacs hwf.1
  rw [deliverAll_attached]
  simp only []
  rw [hT.root hn, List.filter_append, List.filter_append, List.flatMap_append, List.flatMap_append]
  have hup0 : upE.filter (fun x => macOk ⟨lan, u, lk, rtp none (some s0) v er prio data h⟩ x.2) = [] := by
    apply List.filter_eq_nil_iff.mpr
    intro x hx
    cases lk with
    | bcast => simp [macOk, hup x hx]
    | to m => simp [macOk, hup x hx, Ne.symm (hm m rfl)]
  rw [hup0, List.flatMap_nil, List.nil_append]
  rw [stations_lastleg v er prio data s0 topo lan sts u h lk hs (fun s hs' => hm1 u (by simp) s hs')]
  rw [routers_lastleg v er prio data s0 topo lan rs u h lk hwf.2 hs hsr]
  simp

end
end BacVerif.C06

namespace BacVerif.C06
open BacVerif BacVerif.Route

/-! ### the learned path does not disturb the lookups towards the destination -/

theorem find_filter_ne (c : Cache) (key key' : Option Nat × Nat) (hne : key' ≠ key) :
    List.find? (fun e => e.1 == key') (c.filter (fun e => !(e.1 == key))) =
      List.find? (fun e => e.1 == key') c := by
  induction c with
  | nil => rfl
  | cons e c ih =>
    by_cases he : e.1 = key
    · have h2 : (e.1 == key') = false := by
        rw [he]; exact beq_eq_false_iff_ne.mpr (Ne.symm hne)
      have h3 : (e.1 == key) = true := by rw [he]; exact beq_self_eq_true _
      rw [List.filter_cons, List.find?_cons]
      simp only [h3, h2, Bool.not_true, Bool.false_eq_true, if_false]
      exact ih
    · have h3 : (e.1 == key) = false := beq_eq_false_iff_ne.mpr he
      rw [List.filter_cons]
      simp only [h3, Bool.not_false, if_true, List.find?_cons]
      rw [ih]

theorem Cache.get_set1_ne (c : Cache) (sn : Option Nat) (x : Nat) (m : Mac) (k : Option Nat) (d : Nat)
    (hne : ¬ (k = sn ∧ d = x)) : (c.set1 sn x m).get k d = c.get k d := by
  unfold Cache.set1 Cache.get
  have hk : (k, d) ≠ (sn, x) := by
    intro e
    injection e with e1 e2
    exact hne ⟨e1, e2⟩
  have h1 : (((sn, x), m).1 == (k, d)) = false := beq_eq_false_iff_ne.mpr (Ne.symm hk)
  rw [List.find?_cons, h1]
  simp only []
  rw [find_filter_ne c (sn, x) (k, d) hk]

theorem findPath_learned (c : Cache) (arr : Adapter) (src : Mac) (p : Npci) (l : List Adapter) (d : Nat)
    (h : ∀ a ∈ l, a.net ≠ arr.net) : findPath (learned c arr src p) l d = findPath c l d := by
  induction l with
  | nil => rfl
  | cons a l ih =>
    have hg : (learned c arr src p).get a.net d = c.get a.net d := by
      unfold learned
      split
      · simp only [Cache.update, List.foldl_cons, List.foldl_nil]
        apply Cache.get_set1_ne
        intro ⟨e, _⟩
        exact h a List.mem_cons_self e
      · rfl
    simp only [findPath, hg, ih (fun a ha => h a (List.mem_cons_of_mem _ ha))]

/-- what a router on the path sends on: the code's own search, over the router's down ports -/
def hopOut (c : Cache) (ports : List Adapter) (dd : Dadr) (q : Npci) : List Packet :=
  match ports.find? (·.net == some dd.net) with
  | some x => [⟨x.lan, x.mac, lastLeg dd, { q with dadr := none }⟩]
  | none =>
    match findPath c ports dd.net with
    | some (a, m) => [⟨a.lan, a.mac, .to m, q⟩]
    | none => ports.map (fun a => ⟨a.lan, a.mac, .bcast, whoIs dd.net⟩)

theorem classify_transit (loc arr : Adapter) (dd : Dadr) (p : Npci) (hp : p.dadr = some dd)
    (hgb : dd ≠ .gb) (harr : arr.net ≠ some dd.net) (hla : loc.addr.isSome)
    (hm : loc.net = some dd.net → ∀ m, dd = .rs dd.net m → loc.addr ≠ some m) :
    ∃ pl, classify loc arr p = .go pl true := by
  unfold classify
  rw [hp]
  cases dd with
  | gb => exact absurd rfl hgb
  | rb d =>
    have : (some d == arr.net) = false := by
      simp only [Dadr.net] at harr
      simp [Ne.symm harr]
    simp [this]
  | rs d m =>
    have : (some d == arr.net) = false := by
      simp only [Dadr.net] at harr
      simp [Ne.symm harr]
    simp only [this, Bool.false_eq_true, if_false]
    by_cases hl : (some d == loc.net) = true
    · simp only [hl, if_true]
      obtain ⟨a, ha⟩ := Option.isSome_iff_exists.mp hla
      simp only [ha]
      have : loc.addr ≠ some m := hm (by simpa [Dadr.net] using (beq_iff_eq.mp hl).symm) m rfl
      have hma : (m == a) = false := by
        simp only [beq_eq_false_iff_ne]
        intro e; exact this (by rw [ha, e])
      exact ⟨false, by simp [hma]⟩
    · simp only [hl, Bool.false_eq_true, if_false]
      exact ⟨false, rfl⟩

end BacVerif.C06

namespace BacVerif.C06
open BacVerif BacVerif.Route

theorem allPorts_ne_nil_of_lan (bf ds : Downs) (d : Nat) (h : d ∈ bf.lans ++ ds.lans) : allPorts bf ds ≠ [] := by
  simp only [List.mem_append] at h
  cases bf with
  | cons _ _ _ _ => simp [allPorts, Downs.ports]
  | nil =>
    cases ds with
    | cons _ _ _ _ => simp [allPorts, Downs.ports]
    | nil => simp [Downs.lans] at h

theorem emitted_of_out (t : TNode) (a : Adapter) (f : Packet) (o : List Out)
    (h : (route t.node t.cache a f.src f.dst f.npci).out = o) :
    emitted t a f = originPackets o := by
  simp only [emitted, Decision.sends, h, originPackets, List.map_filterMap]
  congr 1
  funext x
  cases x <;> rfl

/-- a router on the path hearing a routed packet on its up port -/
theorem router_rt (P ua : Nat) (um : Mac) (la : Nat) (c : Cache) (bf ds : Downs) (dd : Dadr)
    (sIn : Option (Nat × Mac)) (v : Option Nat) (er : Bool) (prio : Nat) (data : Bytes) (h : Nat) (u : Mac)
    (lk : Link)
    (hua : ua ∉ bf.aids ++ ds.aids) (hla : la ∈ ua :: (bf.aids ++ ds.aids))
    (hs : ∀ s, sIn = some s → s.1 ≠ P ∧ s.1 ∉ bf.lans ++ ds.lans)
    (hgb : dd ≠ .gb) (hdP : dd.net ≠ P) (hh : h ≠ 0) (hne : allPorts bf ds ≠ []) (hPd : P ∉ bf.lans ++ ds.lans)
    (hmac : ∀ a ∈ allPorts bf ds, a.lan = dd.net → ∀ m, dd = .rs dd.net m → a.mac ≠ m) :
    delivered (routerNode P ua um la c bf ds) (mkPort ua um P) ⟨P, u, lk, rtp (some dd) sIn v er prio data h⟩ = [] ∧
    emitted (routerNode P ua um la c bf ds) (mkPort ua um P) ⟨P, u, lk, rtp (some dd) sIn v er prio data h⟩ =
      hopOut c (allPorts bf ds) dd (rtp (some dd) (some (sIn.getD (P, u))) v er prio data (h - 1)) := by
  obtain ⟨loc, hloc, hladdr, _, hlmem⟩ := router_loc P ua um la c bf ds hla
  have hsp : spoofed (routerNode P ua um la c bf ds).node (rtp (some dd) sIn v er prio data h) = false := by
    simp only [spoofed, rtp]
    cases sIn with
    | none => rfl
    | some s => exact router_hasNet P ua um la c bf ds s.1 (hs s rfl).1 (hs s rfl).2
  have hcl : ∃ pl, classify loc (mkPort ua um P) (rtp (some dd) sIn v er prio data h) = .go pl true := by
    apply classify_transit loc _ dd _ rfl hgb (by simp [mkPort, Ne.symm hdP]) hladdr
    intro hn m hm
    rcases hlmem with rfl | hmem
    · simp [mkPort, Ne.symm hdP] at hn
    · obtain ⟨_, h2, h3⟩ := allPorts_nets bf ds loc hmem
      rw [h2] at hn
      rw [h3]
      intro e
      exact hmac loc hmem (by simpa using hn) m hm (by simpa using e)
  obtain ⟨pl, hcl⟩ := hcl
  have hr : ∃ lrn, route (routerNode P ua um la c bf ds).node (routerNode P ua um la c bf ds).cache (mkPort ua um P) u lk
      (rtp (some dd) sIn v er prio data h) =
      { learn := lrn,
        out := forward (routerNode P ua um la c bf ds).node
          (learned c (mkPort ua um P) u (rtp (some dd) sIn v er prio data h))
          (mkPort ua um P) u (rtp (some dd) sIn v er prio data h) } := by
    unfold route
    simp only [hloc, hsp, hcl]
    simp [rtp, routeGo, routerNode]
  obtain ⟨lrn, hr⟩ := hr
  have ho := router_others P ua um la c bf ds hua
  have hlen : ((routerNode P ua um la c bf ds).node.adapters.length == 1) = false := by
    rw [router_len]
    cases hp : allPorts bf ds with
    | nil => exact absurd hp hne
    | cons a l => rfl
  have hby : (routerNode P ua um la c bf ds).node.byNet (some dd.net) =
      (allPorts bf ds).find? (·.net == some dd.net) := by
    simp only [Node.byNet, routerNode, allPorts, List.find?_append, List.find?_cons, mkPort]
    have : (some P == some dd.net) = false := by simp [Ne.symm hdP]
    simp [this]
  have hfp : findPath (learned c (mkPort ua um P) u (rtp (some dd) sIn v er prio data h)) (allPorts bf ds) dd.net =
      findPath c (allPorts bf ds) dd.net := by
    apply findPath_learned
    intro a ha
    obtain ⟨h1, h2, _⟩ := allPorts_nets bf ds a ha
    rw [h2]
    simp only [mkPort, ne_eq, Option.some.injEq]
    intro e
    exact hPd (e ▸ h1)
  have hf : forward (routerNode P ua um la c bf ds).node
          (learned c (mkPort ua um P) u (rtp (some dd) sIn v er prio data h))
          (mkPort ua um P) u (rtp (some dd) sIn v er prio data h) =
        fwdRemote (routerNode P ua um la c bf ds).node
          (learned c (mkPort ua um P) u (rtp (some dd) sIn v er prio data h)) (mkPort ua um P)
          (rtp (some dd) (some (sIn.getD (P, u))) v er prio data (h - 1)) dd dd.net := by
    unfold forward
    simp only [hlen, Bool.false_eq_true, if_false]
    have hh0 : ((rtp (some dd) sIn v er prio data h).hop == 0) = false := by simp [rtp, hh]
    simp only [hh0, Bool.false_eq_true, if_false]
    have hsadr : fwdSadr (mkPort ua um P) u (rtp (some dd) sIn v er prio data h) = some (sIn.getD (P, u)) := by
      cases sIn <;> simp [fwdSadr, rtp, mkPort]
    simp only [rtp] at hsadr ⊢
    simp only [hsadr]
    cases dd with
    | gb => exact absurd rfl hgb
    | rs d m => rfl
    | rb d => rfl
  constructor
  · simp [delivered, hr]
  · have hout : (route (routerNode P ua um la c bf ds).node (routerNode P ua um la c bf ds).cache (mkPort ua um P)
        (⟨P, u, lk, rtp (some dd) sIn v er prio data h⟩ : Packet).src
        (⟨P, u, lk, rtp (some dd) sIn v er prio data h⟩ : Packet).dst
        (⟨P, u, lk, rtp (some dd) sIn v er prio data h⟩ : Packet).npci).out =
        fwdRemote (routerNode P ua um la c bf ds).node
          (learned c (mkPort ua um P) u (rtp (some dd) sIn v er prio data h)) (mkPort ua um P)
          (rtp (some dd) (some (sIn.getD (P, u))) v er prio data (h - 1)) dd dd.net := by
      simp only []
      rw [hr]
      exact hf
    rw [emitted_of_out _ _ _ _ hout]
    unfold fwdRemote hopOut
    rw [hby, ho, hfp]
    cases hfind : (allPorts bf ds).find? (·.net == some dd.net) with
    | some x =>
      have hx := List.mem_of_find?_eq_some hfind
      have := allPorts_aids bf ds x hx
      have hxa : (x.aid == (mkPort ua um P).aid) = false := by
        simp only [mkPort, beq_eq_false_iff_ne]
        intro e; exact hua (e ▸ this)
      simp [hxa, originPackets, rtp]
    | none =>
      cases hpath : findPath c (allPorts bf ds) dd.net with
      | some am => simp [originPackets]
      | none =>
        simp only [originPackets, List.filterMap_map]
        induction allPorts bf ds with
        | nil => rfl
        | cons a l ih => simp [List.filterMap_cons, ih]

end BacVerif.C06

namespace BacVerif.C06
open BacVerif BacVerif.Route

theorem Routers.nextHop_mem (rs : Routers) (d : Nat) (m : Mac) (h : rs.nextHop d = some m) : m ∈ rs.upMacs := by
  match rs with
  | .nil => simp [Routers.nextHop] at h
  | .cons ua um la c bf ds rest =>
    simp only [Routers.nextHop] at h
    split at h
    · simp at h; simp [Routers.upMacs, h]
    · simp [Routers.upMacs, Routers.nextHop_mem rest d m h]

theorem Routers.filter_to_none (rs : Routers) (P : Nat) (f : Packet) (m1 : Mac) (hf : f.dst = .to m1)
    (h : m1 ∉ rs.upMacs) : (rs.upEntries P).filter (fun x => macOk f x.2) = [] := by
  match rs with
  | .nil => rfl
  | .cons ua um la c bf ds rest =>
    simp only [Routers.upMacs, List.mem_cons, not_or] at h
    simp only [Routers.upEntries, List.filter_cons]
    have : macOk f (mkPort ua um P) = false := by
      simp [macOk, hf, mkPort, Ne.symm h.1]
    simp only [this, Bool.false_eq_true, if_false]
    exact Routers.filter_to_none rest P f m1 hf h.2

theorem Downs.lans_ne_nil (ds : Downs) (d : Nat) (h : d ∈ ds.lans) : ds ≠ .nil := by
  intro e; subst e; simp [Downs.lans] at h

theorem Downs.height_pos (ds : Downs) (h : ds ≠ .nil) : 1 ≤ ds.height := by
  cases ds with
  | nil => exact absurd rfl h
  | cons aid mac sub rest => simp only [Downs.height]; omega

theorem NetTree.stations_of_wf (lan : Nat) (sts : List Station) (rs : Routers) (u : Mac)
    (hwf : (NetTree.mk lan sts rs).wf [u] = true) (t : Station) (ht : t ∈ sts) : t.mac ≠ u := by
  simp only [NetTree.wf, Bool.and_eq_true, decide_eq_true_eq] at hwf
  obtain ⟨hm1, _⟩ := macs_facts [u] sts rs.upMacs hwf.1
  exact hm1 u (by simp) t ht

/-- a port on the destination network has a MAC different from every station there -/
theorem Downs.port_ne (ds : Downs) (d : Nat) (hnd : ds.lans.Nodup) (hwf : ds.wf = true)
    (t : Station) (ht : t ∈ ds.stationsOn d) :
    ∀ a ∈ ds.ports, a.lan = d → a.mac ≠ t.mac := by
  match ds with
  | .nil => intro a ha; simp [Downs.ports] at ha
  | .cons aid mac sub rest =>
    intro a ha hl
    simp only [Downs.lans, List.nodup_append] at hnd
    simp only [Downs.wf, Bool.and_eq_true] at hwf
    simp only [Downs.ports, List.mem_cons] at ha
    simp only [Downs.stationsOn] at ht
    rcases ha with rfl | ha
    · simp only [mkPort] at hl ⊢
      have hd : d ∈ sub.lans := hl ▸ sub.lan_mem_lans
      simp only [hd, if_true] at ht
      cases sub with
      | mk lan sts rs =>
        simp only [NetTree.lan] at hl
        simp only [NetTree.stationsOn, hl, if_true] at ht
        exact Ne.symm (NetTree.stations_of_wf lan sts rs mac hwf.1 t ht)
    · have hdr : d ∈ rest.lans := hl ▸ (Downs.ports_nets rest a ha).1
      have hds : d ∉ sub.lans := fun hs => hnd.2.2 d hs d hdr rfl
      simp only [hds, if_false] at ht
      exact Downs.port_ne rest d hnd.2.1 hwf.2 t ht a ha hl

end BacVerif.C06

namespace BacVerif.C06
open BacVerif BacVerif.Route

section
variable (v : Option Nat) (er : Bool) (prio : Nat) (data : Bytes)

mutual
theorem NetTree.rt (S : NetTree) (topo : Topology) (upE : List (TNode × Adapter)) (u : Mac) (h : Nat)
    (dd : Dadr) (sIn : Option (Nat × Mac)) (m1 : Mac)
    (hT : HT topo S upE) (hup : ∀ x ∈ upE, x.2.mac = u) (hnd : S.lans.Nodup) (hwf : S.wf [u] = true)
    (hsl : ∀ s, sIn = some s → s.1 ∉ S.lans)
    (hgb : dd ≠ .gb) (hd : dd.net ∈ S.routers.lans) (hm1 : S.routers.nextHop dd.net = some m1)
    (hwarm : S.warm dd.net = true) (hh : S.height ≤ h)
    (htgt : ∀ m, dd = .rs dd.net m → ∃ t ∈ S.stationsOn dd.net, t.mac = m) :
    deliverAll topo ⟨S.lan, u, .to m1, rtp (some dd) sIn v er prio data h⟩ =
      rtExpect dd.net (lastLeg dd) (sIn.getD (S.lan, u)) er prio data (S.stationsOn dd.net) := by
  match S with
  | .mk lan sts rs =>
    simp only [NetTree.lans, List.nodup_cons] at hnd
    simp only [NetTree.routers] at hd hm1
    have hdl : dd.net ≠ lan := fun e => hnd.1 (e ▸ hd)
    have hwf' := hwf
    simp only [NetTree.wf, Bool.and_eq_true, decide_eq_true_eq] at hwf
    obtain ⟨_, hm2, _, hm4, hm5⟩ := macs_facts [u] sts rs.upMacs hwf.1
    have hm1mem := Routers.nextHop_mem rs dd.net m1 hm1
    rw [deliverAll_attached]
    simp only [NetTree.lan]
    rw [hT.root hnd.1, List.filter_append, List.filter_append, List.flatMap_append, List.flatMap_append]
    have hup0 : upE.filter (fun x => macOk ⟨lan, u, .to m1, rtp (some dd) sIn v er prio data h⟩ x.2) = [] := by
      apply List.filter_eq_nil_iff.mpr
      intro x hx
      have : u ≠ m1 := fun e => hm2 u (by simp) (e ▸ hm1mem)
      simp [macOk, hup x hx, this]
    have hst0 : (stationEntries lan sts).filter
        (fun x => macOk ⟨lan, u, .to m1, rtp (some dd) sIn v er prio data h⟩ x.2) = [] := by
      apply List.filter_eq_nil_iff.mpr
      intro x hx
      simp only [stationEntries, List.mem_map] at hx
      obtain ⟨s, hs, rfl⟩ := hx
      have : s.mac ≠ m1 := fun e => hm5 s hs (e ▸ hm1mem)
      simp [macOk, Station.adapter, this]
    rw [hup0, hst0]
    simp only [List.flatMap_nil, List.nil_append]
    simp only [NetTree.lans, List.mem_cons, not_or] at hsl
    simp only [NetTree.stationsOn, hdl, if_false] at htgt ⊢
    simp only [NetTree.height] at hh
    simp only [NetTree.warm] at hwarm
    exact Routers.rt rs topo lan u h dd sIn m1 (hT.routers hnd.1) hnd.1 hnd.2 hwf.2 hm4
      (fun s e => (hsl s e).1)
      (by cases sIn with
          | none => simpa using hnd.1
          | some s => simpa using (hsl s rfl).2)
      hgb hd hm1 hwarm hh htgt
theorem Routers.rt (rs : Routers) (topo : Topology) (P : Nat) (u : Mac) (h : Nat)
    (dd : Dadr) (sIn : Option (Nat × Mac)) (m1 : Mac)
    (hR : HR topo rs P) (hP : P ∉ rs.lans) (hnd : rs.lans.Nodup) (hwf : rs.wf = true)
    (hums : rs.upMacs.Nodup) (hsP : ∀ s, sIn = some s → s.1 ≠ P) (hs : (sIn.getD (P, u)).1 ∉ rs.lans)
    (hgb : dd ≠ .gb) (hd : dd.net ∈ rs.lans) (hm1 : rs.nextHop dd.net = some m1)
    (hwarm : rs.warm dd.net = true) (hh : rs.height ≤ h)
    (htgt : ∀ m, dd = .rs dd.net m → ∃ t ∈ rs.stationsOn dd.net, t.mac = m) :
    (((rs.upEntries P).filter (fun x => macOk ⟨P, u, .to m1, rtp (some dd) sIn v er prio data h⟩ x.2)).flatMap fun x =>
        delivered x.1 x.2 ⟨P, u, .to m1, rtp (some dd) sIn v er prio data h⟩ ++
          (emitted x.1 x.2 ⟨P, u, .to m1, rtp (some dd) sIn v er prio data h⟩).flatMap (deliverAll topo)) =
      rtExpect dd.net (lastLeg dd) (sIn.getD (P, u)) er prio data (rs.stationsOn dd.net) := by
  match rs with
  | .nil => simp [Routers.lans] at hd
  | .cons ua um la c bf ds rest =>
    have hB := hR.before hP hnd
    have hD := hR.downs hP hnd
    have hRr := hR.rest hP hnd
    simp only [Routers.lans, List.mem_append, not_or] at hP hs
    simp only [Routers.lans, List.nodup_append, List.mem_append] at hnd
    simp only [Routers.wf, Bool.and_eq_true, decide_eq_true_eq, List.nodup_cons, List.contains_iff_mem] at hwf
    obtain ⟨⟨⟨⟨⟨hua, _⟩, hla⟩, hbwf⟩, hdwf⟩, hrwf⟩ := hwf
    simp only [Routers.upMacs, List.nodup_cons] at hums
    simp only [Routers.height] at hh
    simp only [Routers.warm, Bool.and_eq_true] at hwarm
    simp only [Routers.nextHop] at hm1
    simp only [Routers.stationsOn] at htgt ⊢
    simp only [Routers.upEntries, List.filter_cons]
    have hsd : ∀ s, sIn = some s → s.1 ≠ P ∧ s.1 ∉ bf.lans ++ ds.lans := by
      intro s e; subst e; exact ⟨hsP s rfl, by simpa using hs.1⟩
    have hPd : P ∉ bf.lans ++ ds.lans := by simpa using hP.1
    by_cases hdb : dd.net ∈ bf.lans
    · -- the destination lies behind a port bound before the up port
      have hdd : dd.net ∉ ds.lans := fun hd' => hnd.1.2.2 dd.net hdb dd.net hd' rfl
      have hin : dd.net ∈ bf.lans ++ ds.lans := by simp [hdb]
      simp only [hin, hdb, if_true] at hm1 htgt hwarm ⊢
      simp only [Option.some.injEq] at hm1
      subst hm1
      have hmo : macOk ⟨P, u, .to um, rtp (some dd) sIn v er prio data h⟩ (mkPort ua um P) = true := by
        simp [macOk, mkPort]
      simp only [hmo, if_true, List.flatMap_cons]
      rw [Routers.filter_to_none rest P _ um rfl hums.1, List.flatMap_nil, List.append_nil]
      have hne := allPorts_ne_nil_of_lan bf ds dd.net hin
      have hpos := Downs.height_pos bf (Downs.lans_ne_nil bf dd.net hdb)
      have hmac : ∀ a ∈ allPorts bf ds, a.lan = dd.net → ∀ m, dd = .rs dd.net m → a.mac ≠ m := by
        intro a ha hl m hm
        obtain ⟨t, ht, rfl⟩ := htgt m hm
        simp only [allPorts, List.mem_append] at ha
        rcases ha with ha | ha
        · exact Downs.port_ne bf dd.net hnd.1.1 hbwf t ht a ha hl
        · exact absurd (hl ▸ (Downs.ports_nets ds a ha).1) hdd
      obtain ⟨hdel, hem⟩ := router_rt P ua um la c bf ds dd sIn v er prio data h u (.to um) hua hla hsd hgb
        (fun e => hP.1.1 (e ▸ hdb)) (by omega) hne hPd hmac
      rw [hdel, hem, List.nil_append]
      exact Downs.rt bf topo (routerNode P ua um la c bf ds) c (allPorts bf ds) [] ds.ports (h - 1) dd
        (sIn.getD (P, u)) hB hnd.1.1 hbwf hs.1.1 hgb hdb hwarm.1 (by omega) htgt (by simp [allPorts]) (by simp)
        (by
          intro a ha
          obtain ⟨h1, h2, _⟩ := Downs.ports_nets ds a ha
          rw [h2]
          simp only [ne_eq, Option.some.injEq]
          intro e
          exact hdd (e ▸ h1))
    · by_cases hdd : dd.net ∈ ds.lans
      · have hin : dd.net ∈ bf.lans ++ ds.lans := by simp [hdd]
        simp only [hin, hdb, hdd, if_true, if_false] at hm1 htgt hwarm ⊢
        simp only [Option.some.injEq] at hm1
        subst hm1
        have hmo : macOk ⟨P, u, .to um, rtp (some dd) sIn v er prio data h⟩ (mkPort ua um P) = true := by
          simp [macOk, mkPort]
        simp only [hmo, if_true, List.flatMap_cons]
        rw [Routers.filter_to_none rest P _ um rfl hums.1, List.flatMap_nil, List.append_nil]
        have hne := allPorts_ne_nil_of_lan bf ds dd.net hin
        have hpos := Downs.height_pos ds (Downs.lans_ne_nil ds dd.net hdd)
        have hmac : ∀ a ∈ allPorts bf ds, a.lan = dd.net → ∀ m, dd = .rs dd.net m → a.mac ≠ m := by
          intro a ha hl m hm
          obtain ⟨t, ht, rfl⟩ := htgt m hm
          simp only [allPorts, List.mem_append] at ha
          rcases ha with ha | ha
          · exact absurd (hl ▸ (Downs.ports_nets bf a ha).1) hdb
          · exact Downs.port_ne ds dd.net hnd.1.2.1 hdwf t ht a ha hl
        obtain ⟨hdel, hem⟩ := router_rt P ua um la c bf ds dd sIn v er prio data h u (.to um) hua hla hsd hgb
          (fun e => hP.1.2 (e ▸ hdd)) (by omega) hne hPd hmac
        rw [hdel, hem, List.nil_append]
        exact Downs.rt ds topo (routerNode P ua um la c bf ds) c (allPorts bf ds) bf.ports [] (h - 1) dd
          (sIn.getD (P, u)) hD hnd.1.2.1 hdwf hs.1.2 hgb hdd hwarm.1 (by omega) htgt (by simp [allPorts])
          (by
            intro a ha
            obtain ⟨h1, h2, _⟩ := Downs.ports_nets bf a ha
            rw [h2]
            simp only [ne_eq, Option.some.injEq]
            intro e
            exact hdb (e ▸ h1))
          (by simp)
      · have hin : dd.net ∉ bf.lans ++ ds.lans := by simp [hdb, hdd]
        simp only [hin, hdb, hdd, if_false] at hm1 htgt hwarm ⊢
        have hdr : dd.net ∈ rest.lans := by
          simp only [Routers.lans, List.mem_append] at hd
          rcases hd with (hd | hd) | hd
          · exact absurd hd hdb
          · exact absurd hd hdd
          · exact hd
        have hne : um ≠ m1 := fun e => hums.1 (e ▸ Routers.nextHop_mem rest dd.net m1 hm1)
        have hmo : macOk ⟨P, u, .to m1, rtp (some dd) sIn v er prio data h⟩ (mkPort ua um P) = false := by
          simp [macOk, mkPort, hne]
        simp only [hmo, Bool.false_eq_true, if_false]
        exact Routers.rt rest topo P u h dd sIn m1 hRr hP.2 hnd.2.1 hrwf hums.2 hsP hs.2 hgb hdr hm1 hwarm.2
          (by omega) htgt
theorem Downs.rt (ds : Downs) (topo : Topology) (r : TNode) (c : Cache) (all pre post : List Adapter) (h' : Nat)
    (dd : Dadr) (s0 : Nat × Mac)
    (hD : HD topo ds r) (hnd : ds.lans.Nodup) (hwf : ds.wf = true) (hs : s0.1 ∉ ds.lans)
    (hgb : dd ≠ .gb) (hd : dd.net ∈ ds.lans) (hwarm : ds.warm c all dd.net = true) (hh : ds.height ≤ h' + 1)
    (htgt : ∀ m, dd = .rs dd.net m → ∃ t ∈ ds.stationsOn dd.net, t.mac = m)
    (hall : all = pre ++ ds.ports ++ post) (hpre : ∀ a ∈ pre, a.net ≠ some dd.net)
    (hpost : ∀ a ∈ post, a.net ≠ some dd.net) :
    (hopOut c all dd (rtp (some dd) (some s0) v er prio data h')).flatMap (deliverAll topo) =
      rtExpect dd.net (lastLeg dd) s0 er prio data (ds.stationsOn dd.net) := by
  match ds with
  | .nil => simp [Downs.lans] at hd
  | .cons aid mac sub rest =>
    have hTs := hD.sub hnd
    have hDr := hD.rest hnd
    simp only [Downs.lans, List.mem_append, not_or] at hs
    simp only [Downs.lans, List.nodup_append] at hnd
    simp only [Downs.wf, Bool.and_eq_true] at hwf
    simp only [Downs.height] at hh
    simp only [Downs.warm, Bool.and_eq_true] at hwarm
    simp only [Downs.stationsOn] at htgt ⊢
    simp only [Downs.ports] at hall
    by_cases hds : dd.net ∈ sub.lans
    · simp only [hds, if_true] at htgt hwarm ⊢
      have hdr : dd.net ∉ rest.lans := fun hr => hnd.2.2 dd.net hds dd.net hr rfl
      by_cases hroot : dd.net = sub.lan
      · -- the destination network is directly connected: last leg
        have hfind : all.find? (·.net == some dd.net) = some (mkPort aid mac sub.lan) := by
          rw [hall, List.append_assoc, List.find?_append]
          have : pre.find? (·.net == some dd.net) = none := by
            apply List.find?_eq_none.mpr
            intro a ha
            simpa using hpre a ha
          rw [this]
          simp [List.find?_cons, mkPort, hroot]
        simp only [hopOut, hfind, List.flatMap_cons, List.flatMap_nil, List.append_nil, mkPort]
        cases sub with
        | mk lan sts rs =>
          simp only [NetTree.lan] at hroot hTs ⊢
          simp only [NetTree.lans, List.mem_cons, not_or, List.nodup_cons] at hs hnd
          simp only [NetTree.stationsOn, hroot, if_true] at htgt ⊢
          have hm : ∀ m, lastLeg dd = .to m → m ≠ mac := by
            intro m hm
            cases dd with
            | gb => exact absurd rfl hgb
            | rb d => simp [lastLeg] at hm
            | rs d m' =>
              simp only [lastLeg, Link.to.injEq] at hm
              subst hm
              obtain ⟨t, ht, rfl⟩ := htgt m' (by simp only [Dadr.net] at hroot; rw [hroot])
              exact NetTree.stations_of_wf lan sts rs mac hwf.1 t ht
          have := NetTree.lastLeg v er prio data lan sts rs topo _ mac h' (lastLeg dd) s0 hTs (by simp [mkPort])
            hnd.1.1 hwf.1 hs.1.1 hs.1.2 hm
          simpa [rtp] using this
      · -- further down: the cache names the next router
        have hsubr : dd.net ∈ sub.routers.lans := by
          cases sub with
          | mk lan sts rs =>
            simp only [NetTree.lans, List.mem_cons, NetTree.lan] at hds hroot
            simpa [NetTree.routers] using hds.resolve_left hroot
        have hw := hwarm.1
        simp only [Bool.and_eq_true, Bool.or_eq_true, beq_iff_eq] at hw
        obtain ⟨hw1, hw2⟩ := hw
        have hw1 := hw1.resolve_left hroot
        cases hnh : sub.routers.nextHop dd.net with
        | none => simp [hnh] at hw1
        | some m' =>
          simp only [hnh, beq_iff_eq] at hw1
          have hfind : all.find? (·.net == some dd.net) = none := by
            apply List.find?_eq_none.mpr
            intro a ha
            rw [hall, List.mem_append, List.mem_append, List.mem_cons] at ha
            rcases ha with (ha | rfl | ha) | ha
            · simpa using hpre a ha
            · simp [mkPort, Ne.symm hroot]
            · obtain ⟨h1, h2, _⟩ := Downs.ports_nets rest a ha
              rw [h2]
              simp only [beq_iff_eq, Option.some.injEq]
              intro e
              exact hdr (e ▸ h1)
            · simpa using hpost a ha
          simp only [hopOut, hfind, hw1, List.flatMap_cons, List.flatMap_nil, List.append_nil, mkPort]
          have := NetTree.rt sub topo _ mac h' dd (some s0) m' hTs (by simp [mkPort]) hnd.1 hwf.1
            (fun s e => by cases e; exact hs.1) hgb hsubr hnh hw2 (by omega) htgt
          simpa using this
    · simp only [hds, if_false] at htgt hwarm ⊢
      have hdr : dd.net ∈ rest.lans := by
        simp only [Downs.lans, List.mem_append] at hd
        exact hd.resolve_left hds
      have hne : sub.lan ≠ dd.net := fun e => hds (e ▸ sub.lan_mem_lans)
      exact Downs.rt rest topo r c all (pre ++ [mkPort aid mac sub.lan]) post h' dd s0 hDr hnd.2.1 hwf.2 hs.2 hgb hdr
        hwarm.2 (by omega) htgt (by rw [hall]; simp)
        (by
          intro a ha
          rw [List.mem_append, List.mem_singleton] at ha
          rcases ha with ha | rfl
          · exact hpre a ha
          · simp [mkPort, hne])
        hpost
end

end
end BacVerif.C06

namespace BacVerif.C06
open BacVerif BacVerif.Route

theorem originate_routed (lan : Nat) (o : Station) (dd : Dadr) (m1 : Mac) (er : Bool) (prio : Nat) (data : Bytes)
    (hgb : dd ≠ .gb) (hdl : dd.net ≠ lan) (hoc : o.cache.get (o.adapter lan).net dd.net = some m1) :
    originPackets (originate (o.st lan) dd.toAddr er prio data).2 =
      [⟨lan, o.mac, .to m1, rtp (some dd) none none er prio data 255⟩] := by
  have hloc : (o.st lan).node.loc = some (o.adapter lan) := station_loc lan o
  have hnet : (some dd.net == (o.adapter lan).net) = false := by
    simp only [Station.adapter]
    cases o.knowsNet <;> simp [hdl]
  have hfp : findPath (o.st lan).cache (o.st lan).node.adapters dd.net = some (o.adapter lan, m1) := by
    simp [Station.st, Station.tnode, findPath, hoc]
  cases dd with
  | gb => exact absurd rfl hgb
  | rs d m =>
    simp only [Dadr.net] at hnet hfp
    simp only [originate, Dadr.toAddr, hloc, hnet, hfp]
    simp [Station.st, Station.tnode, originPackets, rtp, Station.adapter]
  | rb d =>
    simp only [Dadr.net] at hnet hfp
    simp only [originate, Dadr.toAddr, hloc, hnet, hfp]
    simp [Station.st, Station.tnode, originPackets, rtp, Station.adapter]

/-- deliveries of a packet that station `o` of the root network addresses to `dd` -/
def routedDeliveries (T : NetTree) (o : Station) (dd : Dadr) (er : Bool) (prio : Nat) (data : Bytes) :
    List Delivery :=
  (originPackets (originate (o.st T.lan) dd.toAddr er prio data).2).flatMap (deliverAll T.nodes)

/-- remote station / remote broadcast for a network elsewhere in the tree, caches consistent
    with the tree on the path: delivered exactly to the addressed stations of that network -/
theorem tree_routed (T : NetTree) (o : Station) (dd : Dadr) (m1 : Mac) (er : Bool) (prio : Nat) (data : Bytes)
    (ho : o ∈ T.stations) (hnd : T.lans.Nodup) (hwf : T.wf [] = true) (hh : T.height ≤ 255)
    (hgb : dd ≠ .gb) (hd : dd.net ∈ T.routers.lans) (hm1 : T.routers.nextHop dd.net = some m1)
    (hoc : o.cache.get (o.adapter T.lan).net dd.net = some m1)
    (hwarm : T.warm dd.net = true)
    (htgt : ∀ m, dd = .rs dd.net m → ∃ t ∈ T.stationsOn dd.net, t.mac = m) :
    routedDeliveries T o dd er prio data =
      rtExpect dd.net (lastLeg dd) (T.lan, o.mac) er prio data (T.stationsOn dd.net) := by
  match T with
  | .mk lan sts rs =>
    have hT := HT.whole (.mk lan sts rs)
    simp only [NetTree.lans, List.nodup_cons] at hnd
    simp only [NetTree.routers] at hd hm1
    have hdl : dd.net ≠ lan := fun e => hnd.1 (e ▸ hd)
    simp only [NetTree.wf, Bool.and_eq_true, decide_eq_true_eq] at hwf
    obtain ⟨_, _, _, hm4, hm5⟩ := macs_facts [] sts rs.upMacs hwf.1
    have hm1mem := Routers.nextHop_mem rs dd.net m1 hm1
    unfold routedDeliveries
    simp only [NetTree.lan] at hoc ⊢
    rw [originate_routed lan o dd m1 er prio data hgb hdl hoc]
    simp only [List.flatMap_cons, List.flatMap_nil, List.append_nil]
    rw [deliverAll_attached]
    simp only []
    rw [hT.root hnd.1, List.nil_append, List.filter_append, List.flatMap_append]
    have hst0 : (stationEntries lan sts).filter
        (fun x => macOk ⟨lan, o.mac, .to m1, rtp (some dd) none none er prio data 255⟩ x.2) = [] := by
      apply List.filter_eq_nil_iff.mpr
      intro x hx
      simp only [stationEntries, List.mem_map] at hx
      obtain ⟨s, hs, rfl⟩ := hx
      have : s.mac ≠ m1 := fun e => hm5 s hs (e ▸ hm1mem)
      simp [macOk, Station.adapter, this]
    rw [hst0]
    simp only [List.flatMap_nil, List.nil_append]
    simp only [NetTree.stationsOn, hdl, if_false] at htgt ⊢
    simp only [NetTree.height] at hh
    simp only [NetTree.warm] at hwarm
    have := Routers.rt none er prio data rs _ lan o.mac 255 dd none m1 (hT.routers hnd.1) hnd.1 hnd.2 hwf.2 hm4
      (fun s e => by cases e) (by simpa using hnd.1) hgb hd hm1 hwarm hh htgt
    simpa using this

end BacVerif.C06

namespace BacVerif.C06
open BacVerif BacVerif.Route

mutual
theorem NetTree.stationsOn_nodup (S : NetTree) (up : List Mac) (hwf : S.wf up = true) (d : Nat) :
    ((S.stationsOn d).map (·.mac)).Nodup := by
  match S with
  | .mk lan sts rs =>
    simp only [NetTree.wf, Bool.and_eq_true, decide_eq_true_eq] at hwf
    obtain ⟨_, _, h3, _, _⟩ := macs_facts up sts rs.upMacs hwf.1
    simp only [NetTree.stationsOn]
    split
    · exact h3
    · exact Routers.stationsOn_nodup rs hwf.2 d
theorem Routers.stationsOn_nodup (rs : Routers) (hwf : rs.wf = true) (d : Nat) :
    ((rs.stationsOn d).map (·.mac)).Nodup := by
  match rs with
  | .nil => simp [Routers.stationsOn]
  | .cons ua um la c bf ds rest =>
    simp only [Routers.wf, Bool.and_eq_true] at hwf
    simp only [Routers.stationsOn]
    split
    · exact Downs.stationsOn_nodup bf hwf.1.1.2 d
    · split
      · exact Downs.stationsOn_nodup ds hwf.1.2 d
      · exact Routers.stationsOn_nodup rest hwf.2 d
theorem Downs.stationsOn_nodup (ds : Downs) (hwf : ds.wf = true) (d : Nat) :
    ((ds.stationsOn d).map (·.mac)).Nodup := by
  match ds with
  | .nil => simp [Downs.stationsOn]
  | .cons aid mac sub rest =>
    simp only [Downs.wf, Bool.and_eq_true] at hwf
    simp only [Downs.stationsOn]
    split
    · exact NetTree.stationsOn_nodup sub [mac] hwf.1 d
    · exact Downs.stationsOn_nodup rest hwf.2 d
end

theorem filter_mac_single (l : List Station) (t : Station) (hn : (l.map (·.mac)).Nodup) (ht : t ∈ l) :
    l.filter (fun s => s.mac == t.mac) = [t] := by
  induction l with
  | nil => simp at ht
  | cons s l ih =>
    simp only [List.map_cons, List.nodup_cons] at hn
    simp only [List.mem_cons] at ht
    rcases ht with rfl | ht
    · have : l.filter (fun s => s.mac == t.mac) = [] := by
        apply List.filter_eq_nil_iff.mpr
        intro s hs
        simp only [beq_iff_eq]
        intro e
        exact hn.1 (e ▸ List.mem_map_of_mem hs)
      simp [List.filter_cons, this]
    · have hne : s.mac ≠ t.mac := fun e => hn.1 (e ▸ List.mem_map_of_mem ht)
      simp [List.filter_cons, hne, ih hn.2 ht]

end BacVerif.C06
namespace BacVerif.C06
open BacVerif BacVerif.Route

theorem originate_local (lan : Nat) (o : Station) (lk : Link) (er : Bool) (prio : Nat) (data : Bytes) :
    originPackets (originate (o.st lan) lk.toAddr er prio data).2 =
      [⟨lan, o.mac, lk, rtp none none none er prio data 255⟩] := by
  have hloc : (o.st lan).node.loc = some (o.adapter lan) := station_loc lan o
  cases lk with
  | bcast =>
    simp only [originate, Link.toAddr, hloc]
    simp [Station.st, Station.tnode, originPackets, rtp, Station.adapter]
  | to m =>
    simp only [originate, Link.toAddr, hloc]
    simp [Station.st, Station.tnode, originPackets, rtp, Station.adapter]

/-- deliveries of a local broadcast (`lk = .bcast`) or a local unicast (`lk = .to m`) from `o` -/
def localDeliveries (T : NetTree) (o : Station) (lk : Link) (er : Bool) (prio : Nat) (data : Bytes) :
    List Delivery :=
  (originPackets (originate (o.st T.lan) lk.toAddr er prio data).2).flatMap (deliverAll T.nodes)

/-- local traffic on a tree: handed to the selected stations of the originator's own network,
    each once, source shown = the originator's local address; no router does anything -/
theorem tree_local (T : NetTree) (o : Station) (lk : Link) (er : Bool) (prio : Nat) (data : Bytes)
    (hnd : T.lans.Nodup) (hwf : T.wf [] = true) :
    localDeliveries T o lk er prio data =
      (T.stations.filter (fun s => macOk ⟨T.lan, o.mac, lk, rtp none none none er prio data 255⟩ (s.adapter T.lan))).map
        (fun s => ⟨T.lan, s.mac, ⟨.localStation o.mac, some lk.toAddr, er, prio, data⟩⟩) := by
  match T with
  | .mk lan sts rs =>
    have hT := HT.whole (.mk lan sts rs)
    simp only [NetTree.lans, List.nodup_cons] at hnd
    simp only [NetTree.wf, Bool.and_eq_true, decide_eq_true_eq] at hwf
    unfold localDeliveries
    simp only [NetTree.lan, NetTree.stations]
    rw [originate_local]
    simp only [List.flatMap_cons, List.flatMap_nil, List.append_nil]
    rw [deliverAll_attached]
    simp only []
    rw [hT.root hnd.1, List.nil_append, List.filter_append, List.flatMap_append]
    rw [stations_leg none er prio data none _ lan sts o.mac 255 lk (fun s e => by cases e)]
    rw [routers_leg none er prio data none _ lan rs o.mac 255 lk hwf.2 (fun s e => by cases e)]
    simp [srcOf]

end BacVerif.C06
