/-
  Lemmas.TsmC05Sched — C05: a deterministic FAITHFUL scheduler for two access
  points joined by FIFO channels, with at most one injected fault, used for the
  model-side single-fault sweep (kernel-evaluated TESTS in Props/C05.lean —
  not theorems).

  It mirrors the end-to-end rig (harness/e2e.py + vt.make_faultnet): frames are
  numbered in the order they are handed to the medium; the fault policy acts on
  the frame with the chosen number when it is SENT (drop: never enqueued; dup:
  enqueued twice; late d: enqueued when `d` µs have passed); delivery is
  immediate and in order; when both channels are empty the earliest due timer
  (or the release of the late frame) fires, clocks advancing together; B's
  application answers every request indication at once with the ComplexAck
  carrying `R`.  Core Lean only.
-/
import BacVerif.Lemmas.TsmC05Spec
namespace BacVerif.Tsm

inductive Fault
  | drop
  | dup
  | late (us : Nat)
deriving Repr, DecidableEq

structure Sched where
  a : Sap
  b : Sap
  up : List Apdu := []            -- A → B, head arrives next
  down : List Apdu := []          -- B → A
  sent : Nat := 0                 -- frames handed to the medium so far
  held : Option (Bool × Apdu × Nat) := none   -- the late frame: direction (true = up), frame, release time
  outA : List Out := []           -- what A's application was told
  outB : List Out := []           -- what B's application was told

/-- frames toward `peer` among the outputs, in order -/
def framesOf (peer : Peer) : List Out → List Apdu
  | [] => []
  | .send q f :: os => if q = peer then f :: framesOf peer os else framesOf peer os
  | _ :: os => framesOf peer os

def appOuts : List Out → List Out
  | [] => []
  | .send _ _ :: os => appOuts os
  | o :: os => o :: appOuts os

/-- hand frames to the medium in direction `up?`, applying the fault to frame number `fi` -/
def Sched.emit (s : Sched) (upDir : Bool) (fault : Option (Nat × Fault)) (now : Nat) :
    List Apdu → Sched
  | [] => s
  | f :: fs =>
    let n := s.sent
    let s := { s with sent := n + 1 }
    let put (s : Sched) (l : List Apdu) : Sched :=
      if upDir then { s with up := s.up ++ l } else { s with down := s.down ++ l }
    let s :=
      match fault with
      | some (fi, k) =>
        if fi = n then
          match k with
          | .drop => s
          | .dup => put s [f, f]
          | .late us => { s with held := some (upDir, f, now + us) }
        else put s [f]
      | none => put s [f]
    Sched.emit s upDir fault now fs

/-- an event at A, its frames go up -/
def Sched.atA (p : Params) (cfgA : Cfg) (fault : Option (Nat × Fault)) (s : Sched) (e : Event) : Sched :=
  let r := step cfgA s.a e
  let s := { s with a := r.1, outA := s.outA ++ appOuts r.2 }
  s.emit true fault r.1.now (framesOf p.peerB r.2)

/-- does the application of B have to answer? -/
def wantsAnswer (p : Params) : List Out → Bool
  | [] => false
  | .indicate q x :: os => (q == p.peerA && x.ty == 0 && x.invokeId == p.id) || wantsAnswer p os
  | _ :: os => wantsAnswer p os

/-- an event at B, its frames go down; a request indication is answered at once -/
def Sched.atB (p : Params) (cfgB : Cfg) (fault : Option (Nat × Fault)) (s : Sched) (e : Event) : Sched :=
  let r := step cfgB s.b e
  let s := { s with b := r.1, outB := s.outB ++ appOuts r.2 }
  let s := s.emit false fault r.1.now (framesOf p.peerA r.2)
  if wantsAnswer p r.2 then
    let r2 := step cfgB s.b (.response p.peerA { ty := 3, invokeId := p.id, service := p.svc, data := p.R })
    let s := { s with b := r2.1, outB := s.outB ++ appOuts r2.2 }
    s.emit false fault r2.1.now (framesOf p.peerA r2.2)
  else s

/-- the armed timers: (due time, at B?, server table?, peer, invoke ID) -/
def timersOf (atB : Bool) (x : Sap) : List (Nat × Bool × Bool × Peer × Nat) :=
  (x.clients.filterMap fun t => t.body.timer.map fun d => (d, atB, false, t.key.peer, t.key.id)) ++
  (x.servers.filterMap fun t => t.body.timer.map fun d => (d, atB, true, t.key.peer, t.key.id))

def earliest : List (Nat × Bool × Bool × Peer × Nat) → Option (Nat × Bool × Bool × Peer × Nat)
  | [] => none
  | x :: xs =>
    match earliest xs with
    | none => some x
    | some y => if y.1 < x.1 then some y else some x

/-- one scheduler step; `none` = nothing left to do -/
def Sched.next (p : Params) (cfgA cfgB : Cfg) (fault : Option (Nat × Fault)) (s : Sched) : Option Sched :=
  match s.up with
  | f :: rest => some (Sched.atB p cfgB fault { s with up := rest } (.frame p.peerA f))
  | [] =>
    match s.down with
    | f :: rest => some (Sched.atA p cfgA fault { s with down := rest } (.frame p.peerB f))
    | [] =>
      let tm := earliest (timersOf false s.a ++ timersOf true s.b)
      let fire (t : Nat × Bool × Bool × Peer × Nat) : Sched :=
        let dtA := t.1 - s.a.now
        let dtB := t.1 - s.b.now
        let s := { s with a := (step cfgA s.a (.tick dtA)).1, b := (step cfgB s.b (.tick dtB)).1 }
        if t.2.1 then Sched.atB p cfgB fault s (.timeout t.2.2.1 t.2.2.2.1 t.2.2.2.2)
        else Sched.atA p cfgA fault s (.timeout t.2.2.1 t.2.2.2.1 t.2.2.2.2)
      let release (h : Bool × Apdu × Nat) : Sched :=
        let s := { s with a := (step cfgA s.a (.tick (h.2.2 - s.a.now))).1,
                          b := (step cfgB s.b (.tick (h.2.2 - s.b.now))).1, held := none }
        if h.1 then { s with up := s.up ++ [h.2.1] } else { s with down := s.down ++ [h.2.1] }
      match s.held, tm with
      | some h, some t => if h.2.2 ≤ t.1 then some (release h) else some (fire t)
      | some h, none => some (release h)
      | none, some t => some (fire t)
      | none, none => none

/-- run until quiescence or out of fuel -/
def Sched.runFor (p : Params) (cfgA cfgB : Cfg) (fault : Option (Nat × Fault)) : Nat → Sched → Sched × Bool
  | 0, s => (s, false)
  | n + 1, s =>
    match Sched.next p cfgA cfgB fault s with
    | none => (s, true)
    | some s' => Sched.runFor p cfgA cfgB fault n s'

/-- the exchange from the submission on -/
def Sched.exchange (p : Params) (cfgA cfgB : Cfg) (fault : Option (Nat × Fault)) (fuel : Nat) : Sched × Bool :=
  let s0 : Sched := { a := Sap.init, b := Sap.init }
  let s1 := Sched.atA p cfgA fault s0 (.request p.peerB p.svc p.P none)
  Sched.runFor p cfgA cfgB fault fuel s1

def indicatedReqs (outs : List Out) : List Bytes :=
  outs.filterMap fun o => match o with | .indicate _ a => if a.ty = 0 then some a.data else none | _ => none

def confirmedAll (outs : List Out) : List (Nat × Bytes) :=
  outs.filterMap fun o => match o with | .confirm _ a => some (a.ty, a.data) | _ => none

/-- success: quiescent, nothing left anywhere, A's application got exactly one outcome — the
    ComplexAck with `R` —, B's application was indicated `P` (every time it was indicated) -/
def Sched.success (p : Params) (x : Sched × Bool) : Bool :=
  x.2 && x.1.a.clients.isEmpty && x.1.a.servers.isEmpty && x.1.b.clients.isEmpty && x.1.b.servers.isEmpty &&
  decide (confirmedAll x.1.outA = [(3, p.R)]) &&
  (indicatedReqs x.1.outB).all (fun d => decide (d = p.P)) && !(indicatedReqs x.1.outB).isEmpty

/-- every single fault at every frame number of the fault-free run -/
def Sched.sweep (p : Params) (cfgA cfgB : Cfg) (kinds : List Fault) (fuel : Nat) : Bool × Nat :=
  let base := Sched.exchange p cfgA cfgB none fuel
  let n := base.1.sent
  (Sched.success p base &&
    (List.range n).all fun i => kinds.all fun k =>
      Sched.success p (Sched.exchange p cfgA cfgB (some (i, k)) fuel), n)

end BacVerif.Tsm
