/-
  Lemmas.C03EncWF — every tag the generic encoder emits for a structurally
  valid value is encodable (`tagWFb`, C02's `WF` as a computation): leaves fit
  the length field, contexts are ≤ 254 (`WFEnv`), the content of an Any is a
  run of encodable tags.  This discharges the side condition of `codec_octets`.
-/
import BacVerif.Lemmas.C03Field
namespace BacVerif.C03
open BacVerif BacVerif.Schema BacVerif.Codec BacVerif.SchemaWF

def AllWF (ts : List Tag) : Prop := ∀ t ∈ ts, tagWFb t = true

theorem AllWF.nil : AllWF [] := by intro t h; simp at h
theorem AllWF.append {a b : List Tag} (ha : AllWF a) (hb : AllWF b) : AllWF (a ++ b) := by
  intro t h
  rcases List.mem_append.mp h with h | h
  · exact ha t h
  · exact hb t h
theorem AllWF.single {t : Tag} (h : tagWFb t = true) : AllWF [t] := by
  intro t' h'; simp at h'; subst h'; exact h

theorem leaf_wf_app {a lvt : Nat} {data : Bytes} (h : leafOK a lvt data = true) :
    tagWFb ⟨.app, a, lvt, data⟩ = true := by
  have h12 := leafOK_le h
  have hf := leafOK_fits h
  unfold tagWFb
  have hn : a ≤ 255 := by omega
  simp only [hn, hf, decide_true, Bool.true_and]
  by_cases h1 : a = 1
  · subst h1; simp [(leafOK_bool h).2]
  · simp [h1, leafOK_len h h1]

theorem leaf_wf_ctx {a lvt : Nat} {data : Bytes} (h : leafOK a lvt data = true) (c : Nat) (hc : c ≤ 254)
    (t : Tag) (ht : appToContext c ⟨.app, a, lvt, data⟩ = .ok t) : tagWFb t = true := by
  have hf := leafOK_fits h
  unfold appToContext at ht
  simp only at ht
  by_cases h1 : a = 1
  · subst h1
    simp only [↓reduceIte] at ht
    split at ht
    · simp only [Except.ok.injEq] at ht; subst ht
      have : c ≤ 255 := by omega
      simp [tagWFb, this]
    · simp at ht
  · simp only [h1, ↓reduceIte, Except.ok.injEq] at ht
    subst ht
    have hl := leafOK_len h h1
    have : c ≤ 255 := by omega
    have : data.length < 4294967296 := by omega
    simp [tagWFb, *]

theorem wrap_wf (ctx : Option Nat) (hc : ∀ c, ctx = some c → c ≤ 254) {ts : List Tag} (h : AllWF ts) :
    AllWF (wrap ctx ts) := by
  cases ctx with
  | none => simpa [wrap] using h
  | some c =>
    have : c ≤ 255 := by have := hc c rfl; omega
    intro t ht
    simp only [wrap, List.mem_cons, List.mem_append, List.not_mem_nil, or_false] at ht
    rcases ht with rfl | ht | rfl
    · simp [tagWFb, openTag, this]
    · exact h t ht
    · simp [tagWFb, closeTag, this]

section
variable (env : Env) (enc : Enc) (conf : Nat → Val → Bool)

/-- what the induction provides below the current class -/
def EncWF (j : Nat) : Prop :=
  ∀ v ts, conf j v = true → enc j v = .ok ts → AllWF ts

/-- an atomic element / alternative / list item -/
theorem encodeLeaf_wf (r : Ref) (ctx : Option Nat) (hctx : ∀ c, ctx = some c → c ≤ 254)
    (hk : (∃ a, kindOf env r = .prim a) ∨ kindOf env r = .anyAtomic)
    (v : Val) (hc : conformsRef env conf r v = true) (ts : List Tag)
    (he : encodeLeaf r ctx v = .ok ts) : AllWF ts := by
  have hleaf : ∃ a lvt data, leafTag r v = .ok ⟨.app, a, lvt, data⟩ ∧ leafOK a lvt data = true := by
    unfold conformsRef at hc
    rcases hk with ⟨a, hk⟩ | hk
    · have hr : r = .prim a := by
        cases r with
        | prim b => simp [kindOf] at hk; subst hk; rfl
        | anyAtomic => simp [kindOf] at hk
        | ty i => simp only [kindOf] at hk; split at hk <;> simp at hk
      subst hr
      rw [hk] at hc
      cases v with
      | prim lvt data => exact ⟨a, lvt, data, by simp [leafTag], by simpa using hc⟩
      | _ => simp at hc
    · have hr : r = .anyAtomic := by
        cases r with
        | prim b => simp [kindOf] at hk
        | anyAtomic => rfl
        | ty i => simp only [kindOf] at hk; split at hk <;> simp at hk
      subst hr
      rw [hk] at hc
      cases v with
      | atom a lvt data =>
        simp only [Bool.and_eq_true, decide_eq_true_eq] at hc
        exact ⟨a, lvt, data, by simp [leafTag], hc.2⟩
      | _ => simp at hc
  obtain ⟨a, lvt, data, hl, hok⟩ := hleaf
  unfold encodeLeaf at he
  rw [hl] at he
  simp only at he
  cases ctx with
  | none =>
    simp only [Except.ok.injEq] at he
    subst he
    exact AllWF.single (leaf_wf_app hok)
  | some c =>
    simp only at he
    split at he
    · simp at he
    · rename_i t' ht'
      simp only [Except.ok.injEq] at he
      subst he
      exact AllWF.single (leaf_wf_ctx hok c (hctx c rfl) t' ht')

theorem field_ctx_le (I : Table) (τ : Nat) (f : Field) (hsane : fieldSane env I τ f = true) :
    ∀ c, f.ctx = some c → c ≤ 254 := by
  intro c hc
  unfold fieldSane at hsane
  simp only [hc, Bool.and_eq_true, decide_eq_true_eq] at hsane
  exact hsane.1

/-- one element of Sequence.encode -/
theorem field_wf (I : Table) (τ : Nat) (f : Field)
    (hsub : ∀ j, j < τ → EncWF enc conf j)
    (hsane : fieldSane env I τ f = true)
    (ov : Option Val) (hc : confField env conf f ov = true) (ts : List Tag)
    (he : encodeField env enc f ov = .ok ts) : AllWF ts := by
  have hctx := field_ctx_le env I τ f hsane
  cases ov with
  | none =>
    simp only [encodeField] at he
    split at he
    · simp only [Except.ok.injEq] at he; subst he; exact AllWF.nil
    · simp at he
  | some v =>
    simp only [confField] at hc
    simp only [encodeField] at he
    cases hk : kindOf env f.ref with
    | prim a =>
      rw [hk] at he
      exact encodeLeaf_wf env conf f.ref f.ctx hctx (Or.inl ⟨a, hk⟩) v hc ts he
    | anyAtomic =>
      rw [hk] at he
      exact encodeLeaf_wf env conf f.ref f.ctx hctx (Or.inr hk) v hc ts he
    | bad => rw [hk] at he; simp at he
    | seqOf j =>
      rw [hk] at he
      have hj := field_ref_ok env I τ f j (Or.inl hk) hsane
      have hcj : conf j v = true := by unfold conformsRef at hc; rw [hk] at hc; simpa using hc
      simp only at he
      split at he
      · simp at he
      · rename_i ts' he'
        simp only [Except.ok.injEq] at he; subst he
        exact wrap_wf f.ctx hctx (hsub j hj v ts' hcj he')
    | listOf j =>
      rw [hk] at he
      have hj := field_ref_ok env I τ f j (Or.inr (Or.inl hk)) hsane
      have hcj : conf j v = true := by unfold conformsRef at hc; rw [hk] at hc; simpa using hc
      simp only at he
      split at he
      · simp at he
      · rename_i ts' he'
        simp only [Except.ok.injEq] at he; subst he
        exact wrap_wf f.ctx hctx (hsub j hj v ts' hcj he')
    | struct j =>
      rw [hk] at he
      have hj := field_ref_ok env I τ f j (Or.inr (Or.inr hk)) hsane
      have hcj : conf j v = true := by unfold conformsRef at hc; rw [hk] at hc; simpa using hc
      simp only at he
      split at he
      · simp at he
      · rename_i ts' he'
        simp only [Except.ok.injEq] at he; subst he
        exact wrap_wf f.ctx hctx (hsub j hj v ts' hcj he')

theorem fields_wf (I : Table) (τ : Nat) (hsub : ∀ j, j < τ → EncWF enc conf j) :
    ∀ (fs : List Field) (vs : List (Option Val)) (ts : List Tag),
      fs.all (fieldSane env I τ) = true → conformsFields env conf fs vs = true →
      encodeFields env enc fs vs = .ok ts → AllWF ts := by
  intro fs
  induction fs with
  | nil =>
    intro vs ts _ hc he
    cases vs with
    | nil => simp only [encodeFields, Except.ok.injEq] at he; subst he; exact AllWF.nil
    | cons _ _ => simp [conformsFields] at hc
  | cons f fs ih =>
    intro vs ts hsane hc he
    simp only [List.all_cons, Bool.and_eq_true] at hsane
    cases vs with
    | nil => simp [conformsFields] at hc
    | cons ov vs =>
      have hcf : confField env conf f ov = true ∧ conformsFields env conf fs vs = true := by
        cases ov with
        | none => simpa [conformsFields, confField] using hc
        | some v => simpa [conformsFields, confField] using hc
      simp only [encodeFields] at he
      split at he
      · simp at he
      · rename_i ts1 he1
        split at he
        · simp at he
        · rename_i ts2 he2
          simp only [Except.ok.injEq] at he; subst he
          exact AllWF.append (field_wf env enc conf I τ f hsub hsane.1 ov hcf.1 ts1 he1)
            (ih vs ts2 hsane.2 hcf.2 he2)

/-- the alternative of a Choice that is set -/
theorem alt_wf (τ : Nat) (a : Field) (hsub : ∀ j, j < τ → EncWF enc conf j)
    (hsane : altSane env τ a = true) (v : Val) (hc : conformsRef env conf a.ref v = true)
    (ts : List Tag) (he : encodeAlt env enc a v = .ok ts) : AllWF ts := by
  have hctx : ∀ c, a.ctx = some c → c ≤ 254 := by
    intro c hc'
    unfold altSane at hsane
    simp only [hc', Bool.and_eq_true, decide_eq_true_eq] at hsane
    exact hsane.1
  unfold altSane at hsane
  simp only [encodeAlt] at he
  cases hk : kindOf env a.ref with
  | prim n =>
    rw [hk] at he
    exact encodeLeaf_wf env conf a.ref a.ctx hctx (Or.inl ⟨n, hk⟩) v hc ts he
  | anyAtomic => rw [hk] at hsane; simp at hsane
  | bad => rw [hk] at hsane; simp at hsane
  | seqOf j =>
    rw [hk] at he hsane
    have hj : j < τ := by cases h : a.ctx <;> simp_all
    have hcj : conf j v = true := by unfold conformsRef at hc; rw [hk] at hc; simpa using hc
    simp only at he
    split at he
    · simp at he
    · rename_i ts' he'
      simp only [Except.ok.injEq] at he; subst he
      exact wrap_wf a.ctx hctx (hsub j hj v ts' hcj he')
  | listOf j =>
    rw [hk] at he hsane
    have hj : j < τ := by cases h : a.ctx <;> simp_all
    have hcj : conf j v = true := by unfold conformsRef at hc; rw [hk] at hc; simpa using hc
    simp only at he
    split at he
    · simp at he
    · rename_i ts' he'
      simp only [Except.ok.injEq] at he; subst he
      exact wrap_wf a.ctx hctx (hsub j hj v ts' hcj he')
  | struct j =>
    rw [hk] at he hsane
    have hj : j < τ := by cases h : a.ctx <;> simp_all
    have hcj : conf j v = true := by unfold conformsRef at hc; rw [hk] at hc; simpa using hc
    simp only at he
    split at he
    · simp at he
    · rename_i ts' he'
      simp only [Except.ok.injEq] at he; subst he
      exact wrap_wf a.ctx hctx (hsub j hj v ts' hcj he')

/-- the items of a list -/
theorem elems_wf (I : Table) (τ : Nat) (elem : Ref) (hsub : ∀ j, j < τ → EncWF enc conf j)
    (hsane : elemSane env I τ elem = true) :
    ∀ (vs : List Val) (ts : List Tag), vs.all (conformsRef env conf elem) = true →
      encodeElems env enc elem vs = .ok ts → AllWF ts := by
  intro vs
  induction vs with
  | nil => intro ts _ he; simp only [encodeElems, Except.ok.injEq] at he; subst he; exact AllWF.nil
  | cons v vs ih =>
    intro ts hc he
    simp only [List.all_cons, Bool.and_eq_true] at hc
    unfold elemSane at hsane
    simp only [encodeElems] at he
    have hone : ∀ ts1, (match kindOf env elem with
        | .prim _ | .anyAtomic => encodeLeaf elem none v
        | .seqOf i | .listOf i | .struct i => enc i v
        | .bad => .error .other) = .ok ts1 → AllWF ts1 := by
      intro ts1 h1
      cases hk : kindOf env elem with
      | prim a =>
        rw [hk] at h1
        exact encodeLeaf_wf env conf elem none (by simp) (Or.inl ⟨a, hk⟩) v hc.1 ts1 h1
      | anyAtomic =>
        rw [hk] at h1
        exact encodeLeaf_wf env conf elem none (by simp) (Or.inr hk) v hc.1 ts1 h1
      | bad => rw [hk] at h1; simp at h1
      | seqOf j =>
        rw [hk] at h1 hsane
        simp only [Bool.and_eq_true, decide_eq_true_eq] at hsane
        have hcj : conf j v = true := by have := hc.1; unfold conformsRef at this; rw [hk] at this; simpa using this
        exact hsub j hsane.1.1 v ts1 hcj h1
      | listOf j =>
        rw [hk] at h1 hsane
        simp only [Bool.and_eq_true, decide_eq_true_eq] at hsane
        have hcj : conf j v = true := by have := hc.1; unfold conformsRef at this; rw [hk] at this; simpa using this
        exact hsub j hsane.1.1 v ts1 hcj h1
      | struct j =>
        rw [hk] at h1 hsane
        simp only [Bool.and_eq_true, decide_eq_true_eq] at hsane
        have hcj : conf j v = true := by have := hc.1; unfold conformsRef at this; rw [hk] at this; simpa using this
        exact hsub j hsane.1.1 v ts1 hcj h1
    split at he
    · simp at he
    · rename_i ts1 he1
      split at he
      · simp at he
      · rename_i ts2 he2
        simp only [Except.ok.injEq] at he; subst he
        exact AllWF.append (hone ts1 he1) (ih ts2 hc.2 he2)

/-- ONE CLASS, given the classes below it -/
theorem def_wf (I : Table) (τ : Nat) (d : TyDef) (hok : defOK env I τ d = true)
    (hsub : ∀ j, j < τ → EncWF enc conf j)
    (v : Val) (hc : conformsDef env conf d v = true) (ts : List Tag)
    (he : encodeDef env enc d v = .ok ts) : AllWF ts := by
  cases d with
  | seq fs =>
    cases v with
    | seq vs =>
      simp only [conformsDef] at hc
      simp only [defOK, Bool.and_eq_true] at hok
      exact fields_wf env enc conf I τ hsub fs vs ts hok.1 hc (by simpa [encodeDef] using he)
    | _ => simp [conformsDef] at hc
  | choice alts =>
    cases v with
    | choice i x =>
      simp only [conformsDef] at hc
      simp only [defOK, Bool.and_eq_true] at hok
      cases hi : alts[i]? with
      | none => simp [hi] at hc
      | some a =>
        rw [hi] at hc
        simp only [encodeDef, hi] at he
        have hmem : a ∈ alts := List.mem_of_getElem? hi
        have hsane : altSane env τ a = true := by
          have := hok.1; rw [List.all_eq_true] at this; exact this a hmem
        exact alt_wf env enc conf τ a hsub hsane x hc ts he
    | _ => simp [conformsDef] at hc
  | list k elem fixed =>
    cases v with
    | list vs =>
      simp only [conformsDef, Bool.and_eq_true] at hc
      simp only [defOK] at hok
      have he' : encodeElems env enc elem vs = .ok ts := by
        cases fixed with
        | none => simpa [encodeDef] using he
        | some n =>
          simp only [encodeDef] at he
          split at he
          · simp at he
          · exact he
      exact elems_wf env enc conf I τ elem hsub hok vs ts hc.1 he'
    | _ => simp [conformsDef] at hc
  | any =>
    cases v with
    | tags ts' =>
      simp only [conformsDef, Bool.and_eq_true] at hc
      simp only [encodeDef, Except.ok.injEq] at he
      subst he
      intro t ht
      have := hc.2
      rw [List.all_eq_true] at this
      exact this t ht
    | _ => simp [conformsDef] at hc
  | nameValue dt =>
    simp only [defOK, Bool.and_eq_true, decide_eq_true_eq] at hok
    -- the value has the shape `.seq [some (.prim lvt data), value]`
    have hshape : ∃ lvt data value, v = .seq [some (.prim lvt data), value] := by
      cases v with
      | seq fs =>
        cases fs with
        | nil => simp [conformsDef] at hc
        | cons x fs1 =>
          cases x with
          | none => simp [conformsDef] at hc
          | some nm =>
            cases nm with
            | prim lvt data =>
              cases fs1 with
              | nil => simp [conformsDef] at hc
              | cons value fs2 =>
                cases fs2 with
                | cons _ _ => simp [conformsDef] at hc
                | nil => exact ⟨lvt, data, value, rfl⟩
            | _ => simp [conformsDef] at hc
      | _ => simp [conformsDef] at hc
    obtain ⟨lvt, data, value, rfl⟩ := hshape
    simp only [conformsDef, Bool.and_eq_true] at hc
    simp only [encodeDef, encodeNameValue] at he
    split at he
    · simp at he
    · rename_i nameTag hnt
      have hname : tagWFb nameTag = true := leaf_wf_ctx hc.1 0 (by omega) nameTag hnt
      cases value with
      | none =>
        simp only [Except.ok.injEq] at he; subst he
        exact AllWF.single hname
      | some x =>
        cases x with
        | atom a l d =>
          simp only [Except.ok.injEq] at he; subst he
          have hv := hc.2
          simp only [Bool.and_eq_true, decide_eq_true_eq] at hv
          exact AllWF.append (AllWF.single hname) (AllWF.single (leaf_wf_app hv.2))
        | seq fs =>
          simp only at he
          split at he
          · simp at he
          · rename_i ts' he'
            simp only [Except.ok.injEq] at he; subst he
            have hv := hc.2
            simp only at hv
            exact AllWF.append (AllWF.single hname) (hsub dt hok.1 (.seq fs) ts' hv he')
        | prim _ _ => simp at he
        | tags _ => simp at he
        | choice _ _ => simp at he
        | list _ => simp at he
end

end BacVerif.C03
