/-
  Lemmas.C03WFEnv — `WFEnv` as a proposition and what it gives for one entry
-/
import BacVerif.Model.SchemaWF
namespace BacVerif.C03
open BacVerif BacVerif.Schema BacVerif.Codec BacVerif.SchemaWF

/-- the decidable LL(1)-style well-formedness of an environment w.r.t. a first/follow table -/
def WFEnv (env : Env) (I : Table) : Prop := wfEnv env I = true

instance (env : Env) (I : Table) : Decidable (WFEnv env I) := inferInstanceAs (Decidable (_ = true))

theorem wf_entry {env : Env} {I : Table} (hwf : WFEnv env I) {τ : Nat} {d : TyDef}
    (h : env[τ]? = some d) : look I τ = infoOf env I d ∧ defOK env I τ d = true := by
  unfold WFEnv wfEnv at hwf
  simp only [Bool.and_eq_true, List.all_eq_true, List.mem_range] at hwf
  have hτ : τ < env.size := by
    rcases Nat.lt_or_ge τ env.size with h' | h'
    · exact h'
    · rw [Array.getElem?_eq_none h'] at h; simp at h
  have := hwf.2 τ hτ
  unfold entryOK at this
  rw [h] at this
  simp only [Bool.and_eq_true, beq_iff_eq] at this
  exact this

end BacVerif.C03
