/-
  Lemmas.AddrScan — scanner/printer lemmas for Model.Addr (C18):
  own proofs that the decimal and hexadecimal scanners invert the printers,
  and that the greedy digit scanner stops exactly where a printed number ends.
-/
import BacVerif.Model.Addr
namespace BacVerif.Addr
open BacVerif

/-! ## digits -/

theorem digitChar_spec (d : Nat) (h : d < 10) :
    isDig (digitChar d) = true ∧ dval (digitChar d) = d ∧ (digitChar d = '0' ↔ d = 0) := by
  have : ∀ d : Fin 10, isDig (digitChar d) = true ∧ dval (digitChar d) = d ∧
      (digitChar d = '0' ↔ d.val = 0) := by decide
  exact this ⟨d, h⟩

theorem hexDigit_spec (d : Nat) (h : d < 16) : hexVal (hexDigit d) = some d := by
  have : ∀ d : Fin 16, hexVal (hexDigit d) = some d.val := by decide
  exact this ⟨d, h⟩

/-- the next character is not a digit (or there is none) -/
def noDigHead : List Char → Bool
  | [] => true
  | c :: _ => !isDig c

theorem digits_append (ds rest : List Char) (hd : allDigits ds = true) (hr : noDigHead rest = true) :
    digits (ds ++ rest) = (ds, rest) := by
  induction ds with
  | nil =>
    cases rest with
    | nil => rfl
    | cons c r => simp [noDigHead] at hr; simp [digits, hr]
  | cons c t ih =>
    simp [allDigits] at hd
    have := ih (by simp [allDigits]; exact hd.2)
    simp [digits, hd.1, this]

theorem digits_self (ds : List Char) (hd : allDigits ds = true) : digits ds = (ds, []) := by
  have := digits_append ds [] hd rfl
  simpa using this

theorem decVal_snoc (ds : List Char) (c : Char) : decVal (ds ++ [c]) = 10 * decVal ds + dval c := by
  simp [decVal, List.foldl_append]

/-! ## `printDec` -/

theorem printDecAux_acc (f n : Nat) (acc : List Char) :
    printDecAux f n acc = printDecAux f n [] ++ acc := by
  induction f generalizing n acc with
  | zero => simp [printDecAux]
  | succ f ih =>
    unfold printDecAux
    split
    · simp
    · rw [ih (n / 10) (digitChar (n % 10) :: acc), ih (n / 10) [digitChar (n % 10)]]; simp

theorem printDecAux_fuel (f f' n : Nat) (acc : List Char) (h : n < f) (h' : n < f') :
    printDecAux f n acc = printDecAux f' n acc := by
  induction f generalizing f' n acc with
  | zero => omega
  | succ f ih =>
    cases f' with
    | zero => omega
    | succ f' =>
      unfold printDecAux
      split
      · rfl
      · exact ih f' (n / 10) _ (by omega) (by omega)

theorem printDec_small (n : Nat) (h : n < 10) : printDec n = [digitChar n] := by
  simp [printDec, printDecAux, h]

theorem printDec_step (n : Nat) (h : 10 ≤ n) :
    printDec n = printDec (n / 10) ++ [digitChar (n % 10)] := by
  have h1 : ¬ n < 10 := by omega
  rw [printDec, printDecAux]
  simp only [h1, if_false]
  rw [printDecAux_acc, printDecAux_fuel n (n / 10 + 1) (n / 10) [] (by omega) (by omega)]
  rfl

/-- the decimal printer produces a non-empty digit string whose value is `n`
    and which has no leading zero unless `n = 0` -/
theorem printDec_spec (n : Nat) :
    allDigits (printDec n) = true ∧ decVal (printDec n) = n ∧ printDec n ≠ [] ∧
    (∃ c r, printDec n = c :: r ∧ (c = '0' → n = 0 ∧ r = [])) := by
  induction n using Nat.strongRecOn with
  | _ n ih =>
    by_cases h : n < 10
    · have s := digitChar_spec n h
      rw [printDec_small n h]
      refine ⟨by simp [allDigits, s.1], by simp [decVal, s.2.1], by simp, _, _, rfl, ?_⟩
      intro hc; exact ⟨s.2.2.1 hc, rfl⟩
    · have hstep := printDec_step n (by omega)
      obtain ⟨a1, a2, a3, c, r, a4, a5⟩ := ih (n / 10) (by omega)
      have s := digitChar_spec (n % 10) (by omega)
      rw [hstep]
      refine ⟨?_, ?_, by simp, c, r ++ [digitChar (n % 10)], by simp [a4], ?_⟩
      · simp [allDigits] at a1 ⊢
        exact ⟨a1, s.1⟩
      · rw [decVal_snoc, a2, s.2.1]; omega
      · intro hc; have := (a5 hc).1; omega

theorem printDec_allDigits (n : Nat) : allDigits (printDec n) = true := (printDec_spec n).1
theorem decVal_printDec (n : Nat) : decVal (printDec n) = n := (printDec_spec n).2.1
theorem printDec_ne_nil (n : Nat) : printDec n ≠ [] := (printDec_spec n).2.2.1

/-- scanning a printed number followed by a non-digit gives the number back -/
theorem digits_printDec (n : Nat) (rest : List Char) (hr : noDigHead rest = true) :
    digits (printDec n ++ rest) = (printDec n, rest) :=
  digits_append _ _ (printDec_allDigits n) hr

/-- `inet_aton` reads a printed octet as that octet (no leading zero, so never octal) -/
theorem atonPart_printDec (n : Nat) : atonPart (printDec n) = some n := by
  obtain ⟨_, hv, _, c, r, he, hz⟩ := printDec_spec n
  unfold atonPart
  rw [he]
  by_cases hc : c = '0'
  · obtain ⟨hn, hr⟩ := hz hc
    simp [hc, hr, octVal, hn]
  · simp [hc]; rw [← he, hv]

/-! ## hexadecimal -/

theorem hexBytes_hexOf (bs : Bytes) : hexBytes (hexOf bs) = some bs := by
  induction bs with
  | nil => rfl
  | cons b r ih =>
    have h1 := hexDigit_spec (b.toNat / 16) (by have := b.toNat_lt; omega)
    have h2 := hexDigit_spec (b.toNat % 16) (by omega)
    simp only [hexOf, hexBytes, h1, h2, ih]
    have : 16 * (b.toNat / 16) + b.toNat % 16 = b.toNat := by omega
    simp [this]

theorem hexOf_ne_nil (bs : Bytes) (h : bs ≠ []) : hexOf bs ≠ [] := by
  cases bs with
  | nil => exact absurd rfl h
  | cons b r => simp [hexOf]

/-! ## newlines -/

def noNl (s : List Char) : Bool := s.all (fun c => c != '\n')

theorem stripNl_id (s : List Char) (h : noNl s = true) : stripNl s = s := by
  induction s with
  | nil => rfl
  | cons c r ih =>
    simp [noNl] at h
    have := ih (by simp [noNl]; exact h.2)
    simp [stripNl, h.1, this]

theorem noNl_append (a b : List Char) : noNl (a ++ b) = (noNl a && noNl b) := by
  simp [noNl]

theorem noNl_cons (c : Char) (r : List Char) : noNl (c :: r) = (c != '\n' && noNl r) := by
  simp [noNl]

theorem noNl_of_allDigits (ds : List Char) (h : allDigits ds = true) : noNl ds = true := by
  simp only [noNl, allDigits, List.all_eq_true] at h ⊢
  intro c hc
  have := h c hc
  have hne : c ≠ '\n' := by
    intro e; subst e; revert this; decide
  simpa using hne

theorem hexVal_nl (c : Char) (h : (hexVal c).isSome = true) : c ≠ '\n' := by
  intro e; subst e; revert h; decide

theorem noNl_of_hexBytes (hs : List Char) : ∀ bs : Bytes, hexBytes hs = some bs → noNl hs = true := by
  fun_induction hexBytes hs with
  | case1 => intros; rfl
  | case2 c => intro bs h; simp at h
  | case3 a b r x y bs' hr hy hx ih =>
    intro bs _
    have ha := hexVal_nl a (by simp [hx])
    have hb := hexVal_nl b (by simp [hy])
    simp [noNl_cons, ha, hb, ih bs' hr]
  | case4 => intro bs h; simp at h

theorem noNl_hexOf (bs : Bytes) : noNl (hexOf bs) = true :=
  noNl_of_hexBytes _ _ (hexBytes_hexOf bs)

end BacVerif.Addr
