/-
  Lemmas.C03List — the `for value in self.value` / `while len(taglist) != 0`
  loops of SequenceOf / ListOf / ArrayOf: every element consumes at least one
  tag, its follow set is disjoint from the first tags of the next element, and
  the loop stops at the end or at a closing tag.
-/
import BacVerif.Lemmas.C03Field
namespace BacVerif.C03
open BacVerif BacVerif.Schema BacVerif.Codec BacVerif.SchemaWF

/-- the end of the tag list or a closing tag: where a greedy list / Any stops -/
def Stop (rest : List Tag) : Prop := rest = [] ∨ ∃ t r, rest = t :: r ∧ t.cls = .closing

theorem Stop.safe {rest : List Tag} (h : Stop rest) (S : List Pat) : Safe S rest := by
  rcases h with rfl | ⟨t, r, rfl, hc⟩
  · exact Safe.nil S
  · exact Safe.closing S r hc

section
variable (env : Env) (I : Table) (enc : Enc) (dec : Dec) (conf : Nat → Val → Bool)

theorem decodeElems_stop (elem : Ref) {rest : List Tag} (h : Stop rest) (n : Nat) (hn : rest.length ≤ n) :
    decodeElems env dec elem n rest = .ok ([], rest) := by
  rcases h with rfl | ⟨t, r, rfl, hc⟩
  · cases n <;> simp [decodeElems]
  · cases n with
    | zero => simp at hn
    | succ n => simp [decodeElems, hc]

/-- one iteration of the loop for a constructed element class -/
theorem decodeElems_step (elem : Ref) (j : Nat)
    (hk : kindOf env elem = .seqOf j ∨ kindOf env elem = .listOf j ∨ kindOf env elem = .struct j)
    (t : Tag) (r : List Tag) (hcl : t.cls ≠ .closing) (v : Val) (r' : List Tag)
    (hdec : dec j (t :: r) = .ok (v, r')) (hlt : r'.length < (t :: r).length)
    (n : Nat) (vs : List Val) (rest : List Tag)
    (hrec : decodeElems env dec elem n r' = .ok (vs, rest)) :
    decodeElems env dec elem (n + 1) (t :: r) = .ok (v :: vs, rest) := by
  unfold decodeElems
  simp only [hcl, ↓reduceIte]
  rcases hk with hk | hk | hk <;> simp only [hk, hdec, hlt, ↓reduceIte, hrec]

/-- the shared argument for the three constructed element kinds -/
theorem elems_ty_step (_τ : Nat) (elem : Ref) (j : Nat)
    (hk : kindOf env elem = .seqOf j ∨ kindOf env elem = .listOf j ∨ kindOf env elem = .struct j)
    (hg : Good I enc dec conf j) (hnn : (look I j).nullable = false)
    (hdisj : disjAll (look I j).confus (look I j).first = true)
    (v : Val) (hcj : conf j v = true) (vs : List Val) (ts' : List Tag)
    (he' : encodeElems env enc elem vs = .ok ts')
    (hhd' : ∀ t r, ts' = t :: r → t.cls ≠ .closing ∧ ∃ p ∈ (look I j).first, p.matches t = true)
    (hd' : ∀ rest n, Stop rest → (ts' ++ rest).length ≤ n →
      decodeElems env dec elem n (ts' ++ rest) = .ok (vs, rest)) :
    ∃ t r1, t.cls ≠ .closing ∧ (∃ p ∈ (look I j).first, p.matches t = true) ∧
      encodeElems env enc elem (v :: vs) = .ok ((t :: r1) ++ ts') ∧
      ∀ rest n, Stop rest → ((t :: r1) ++ ts' ++ rest).length ≤ n →
        decodeElems env dec elem n ((t :: r1) ++ ts' ++ rest) = .ok (v :: vs, rest) := by
  obtain ⟨ts1, he1, hh1, hrt1⟩ := hg v hcj
  cases ts1 with
  | nil => simp [HeadOK, hnn] at hh1
  | cons t r1 =>
    obtain ⟨hcl, p, hp, hm⟩ := hh1
    refine ⟨t, r1, hcl, ⟨p, hp, hm⟩, ?_, ?_⟩
    · rcases hk with hk | hk | hk <;> simp [encodeElems, hk, he1, he']
    · intro rest n hs hn
      cases n with
      | zero => simp at hn
      | succ n =>
        have hsafe : Safe (look I j).confus (ts' ++ rest) := by
          cases ts' with
          | nil => simpa using hs.safe _
          | cons t' r' =>
            obtain ⟨_, p', hp', hm'⟩ := hhd' t' r' rfl
            exact Safe.of_nomatch (disjAll_sound hdisj hp' hm')
        have h1 := hrt1 (ts' ++ rest) hsafe
        have hn' : (ts' ++ rest).length ≤ n := by
          simp only [List.cons_append, List.append_assoc, List.length_cons, List.length_append] at hn ⊢
          omega
        have h2 := hd' rest n hs hn'
        have hlt : (ts' ++ rest).length < (t :: (r1 ++ (ts' ++ rest))).length := by
          simp only [List.length_cons, List.length_append]; omega
        simp only [List.cons_append, List.append_assoc] at h1 ⊢
        exact decodeElems_step env dec elem j hk t _ hcl v _ h1 hlt n vs rest h2

theorem goodElems (τ : Nat) (elem : Ref)
    (hgood : ∀ j, j < τ → Good I enc dec conf j)
    (hsane : elemSane env I τ elem = true) :
    ∀ vs : List Val, vs.all (conformsRef env conf elem) = true →
      ∃ ts, encodeElems env enc elem vs = .ok ts ∧
        (ts = [] → vs = []) ∧
        (∀ t r, ts = t :: r → t.cls ≠ .closing ∧ ∃ p ∈ elemFirst env I elem, p.matches t = true) ∧
        ∀ rest n, Stop rest → (ts ++ rest).length ≤ n →
          decodeElems env dec elem n (ts ++ rest) = .ok (vs, rest) := by
  intro vs
  induction vs with
  | nil =>
    intro _
    refine ⟨[], by simp [encodeElems], fun _ => rfl, by simp, ?_⟩
    intro rest n hs hn
    exact decodeElems_stop env dec elem hs n (by simpa using hn)
  | cons v vs ih =>
    intro hc
    simp only [List.all_cons, Bool.and_eq_true] at hc
    obtain ⟨ts', he', hnil', hhd', hd'⟩ := ih hc.2
    unfold elemSane at hsane
    -- one element: a non-empty run `t :: r1` that decodes in front of the next element
    have hone : ∃ t r1, t.cls ≠ .closing ∧ (∃ p ∈ elemFirst env I elem, p.matches t = true) ∧
        encodeElems env enc elem (v :: vs) = .ok ((t :: r1) ++ ts') ∧
        ∀ rest n, Stop rest → ((t :: r1) ++ ts' ++ rest).length ≤ n →
          decodeElems env dec elem n ((t :: r1) ++ ts' ++ rest) = .ok (v :: vs, rest) := by
      cases hk : kindOf env elem with
      | prim a =>
        have hr : elem = .prim a := by
          cases elem with
          | prim b => simp [kindOf] at hk; subst hk; rfl
          | anyAtomic => simp [kindOf] at hk
          | ty i => simp only [kindOf] at hk; split at hk <;> simp at hk
        subst hr
        have hcv := hc.1
        unfold conformsRef at hcv
        rw [hk] at hcv
        cases v with
        | prim lvt data =>
          simp only at hcv
          refine ⟨⟨.app, a, lvt, data⟩, [], by simp, ?_, ?_, ?_⟩
          · simp [elemFirst, hk, Pat.matches, isApp]
          · simp [encodeElems, hk, encodeLeaf, leafTag, he']
          · intro rest n hs hn
            cases n with
            | zero => simp at hn
            | succ n =>
              have hn' : (ts' ++ rest).length ≤ n := by simp at hn ⊢; omega
              have := hd' rest n hs hn'
              simp [decodeElems, hk, prim_app_roundtrip hcv, this]
        | _ => simp at hcv
      | anyAtomic =>
        have hr : elem = .anyAtomic := by
          cases elem with
          | prim b => simp [kindOf] at hk
          | anyAtomic => rfl
          | ty i => simp only [kindOf] at hk; split at hk <;> simp at hk
        subst hr
        have hcv := hc.1
        unfold conformsRef at hcv
        rw [hk] at hcv
        cases v with
        | atom a lvt data =>
          simp only [Bool.and_eq_true, decide_eq_true_eq] at hcv
          refine ⟨⟨.app, a, lvt, data⟩, [], by simp, ?_, ?_, ?_⟩
          · simp [elemFirst, hk, Pat.matches]
          · simp [encodeElems, hk, encodeLeaf, leafTag, he']
          · intro rest n hs hn
            cases n with
            | zero => simp at hn
            | succ n =>
              have hn' : (ts' ++ rest).length ≤ n := by simp at hn ⊢; omega
              have := hd' rest n hs hn'
              simp [decodeElems, hk, atom_roundtrip hcv.1 hcv.2, this]
        | _ => simp at hcv
      | bad => rw [hk] at hsane; simp at hsane
      | seqOf j =>
        rw [hk] at hsane
        simp only [Bool.and_eq_true, decide_eq_true_eq, Bool.not_eq_eq_eq_not, Bool.not_true] at hsane
        have hcj : conf j v = true := by
          have := hc.1; unfold conformsRef at this; rw [hk] at this; simpa using this
        have hef : elemFirst env I elem = (look I j).first := by simp [elemFirst, hk]
        rw [hef] at hhd' ⊢
        exact elems_ty_step env I enc dec conf τ elem j (Or.inl hk) (hgood j hsane.1.1) hsane.1.2
          hsane.2 v hcj vs ts' he' hhd' hd'
      | listOf j =>
        rw [hk] at hsane
        simp only [Bool.and_eq_true, decide_eq_true_eq, Bool.not_eq_eq_eq_not, Bool.not_true] at hsane
        have hcj : conf j v = true := by
          have := hc.1; unfold conformsRef at this; rw [hk] at this; simpa using this
        have hef : elemFirst env I elem = (look I j).first := by simp [elemFirst, hk]
        rw [hef] at hhd' ⊢
        exact elems_ty_step env I enc dec conf τ elem j (Or.inr (Or.inl hk)) (hgood j hsane.1.1) hsane.1.2
          hsane.2 v hcj vs ts' he' hhd' hd'
      | struct j =>
        rw [hk] at hsane
        simp only [Bool.and_eq_true, decide_eq_true_eq, Bool.not_eq_eq_eq_not, Bool.not_true] at hsane
        have hcj : conf j v = true := by
          have := hc.1; unfold conformsRef at this; rw [hk] at this; simpa using this
        have hef : elemFirst env I elem = (look I j).first := by simp [elemFirst, hk]
        rw [hef] at hhd' ⊢
        exact elems_ty_step env I enc dec conf τ elem j (Or.inr (Or.inr hk)) (hgood j hsane.1.1) hsane.1.2
          hsane.2 v hcj vs ts' he' hhd' hd'
    obtain ⟨t, r1, hcl, hp, he, hd⟩ := hone
    refine ⟨(t :: r1) ++ ts', he, by simp, ?_, ?_⟩
    · intro t0 r0 h0
      simp only [List.cons_append, List.cons.injEq] at h0
      obtain ⟨rfl, _⟩ := h0
      exact ⟨hcl, hp⟩
    · intro rest n hs hn
      exact hd rest n hs hn
end

end BacVerif.C03
