/-
  Lemmas.RouterCacheDict — laws of the association-list encoding of Python dicts
  used by Model.RouterCache, and of the cache accessors built on them.
  No side conditions (distinct keys are not required).
-/
import BacVerif.Model.RouterCache
namespace BacVerif.RouterCache

section Dict
variable {κ : Type} [DecidableEq κ] {β : Type}

@[simp] theorem aget_nil (k : κ) : aget k ([] : List (κ × β)) = none := rfl

theorem aget_cons (k k' : κ) (v : β) (t : List (κ × β)) :
    aget k ((k', v) :: t) = if k' = k then some v else aget k t := rfl

theorem aget_aset (k k' : κ) (v : β) (l : List (κ × β)) :
    aget k' (aset k v l) = if k' = k then some v else aget k' l := by
  induction l with
  | nil => simp [aset, aget_cons, eq_comm]
  | cons h t ih =>
    obtain ⟨hk, hv⟩ := h
    simp only [aset]
    by_cases e : hk = k
    · subst e
      by_cases e2 : k' = hk
      · subst e2; simp [aget_cons]
      · have e3 : ¬ hk = k' := fun h => e2 h.symm
        simp [aget_cons, e2, e3]
    · by_cases e2 : k' = k
      · subst e2; simp [aget_cons, e, ih]
      · simp [aget_cons, e, ih, e2]

theorem aget_adel (k k' : κ) (l : List (κ × β)) :
    aget k' (adel k l) = if k' = k then none else aget k' l := by
  induction l with
  | nil => simp [adel]
  | cons h t ih =>
    obtain ⟨hk, hv⟩ := h
    simp only [adel] at ih ⊢
    by_cases e : hk = k
    · subst e
      by_cases e2 : k' = hk
      · subst e2; simpa [List.filter_cons] using ih
      · have e3 : ¬ hk = k' := fun h => e2 h.symm
        simpa [List.filter_cons, aget_cons, e2, e3] using ih
    · by_cases e2 : k' = k
      · subst e2; simpa [List.filter_cons, e, aget_cons] using ih
      · simp only [List.filter_cons, ne_eq, e, not_false_eq_true, decide_true, ↓reduceIte,
          aget_cons, ih, e2]

theorem has_iff (k : κ) (l : List (κ × β)) : has k l = true ↔ ∃ v, aget k l = some v := by
  simp [has, Option.isSome_iff_exists]

theorem has_false_iff (k : κ) (l : List (κ × β)) : has k l = false ↔ aget k l = none := by
  simp [has]

theorem has_aset (k k' : κ) (v : β) (l : List (κ × β)) :
    has k' (aset k v l) = (decide (k' = k) || has k' l) := by
  simp only [has, aget_aset]; split <;> simp_all

theorem has_adel (k k' : κ) (l : List (κ × β)) :
    has k' (adel k l) = (!decide (k' = k) && has k' l) := by
  simp only [has, aget_adel]; split <;> simp_all

theorem aget_none_of_isEmpty (k : κ) (l : List (κ × β)) (h : l.isEmpty = true) : aget k l = none := by
  cases l <;> simp_all

theorem mem_items (k : κ) (v : β) (l : List (κ × β)) : (k, v) ∈ items l ↔ aget k l = some v := by
  fun_induction items l with
  | case1 => simp
  | case2 k0 v0 t ih =>
    simp only [List.mem_cons, Prod.mk.injEq, ih, aget_adel, aget_cons]
    by_cases e : k = k0
    · subst e; simp [eq_comm]
    · have e' : ¬ k0 = k := fun h => e h.symm
      simp [e, e']

theorem mem_keys_items (k : κ) (l : List (κ × β)) :
    k ∈ (items l).map (·.1) ↔ has k l = true := by
  rw [has_iff]
  constructor
  · intro h
    obtain ⟨⟨k', v⟩, hm, rfl⟩ := List.mem_map.mp h
    exact ⟨v, (mem_items _ _ _).mp hm⟩
  · rintro ⟨v, hv⟩
    exact List.mem_map.mpr ⟨(k, v), (mem_items _ _ _).mpr hv, rfl⟩

theorem items_pairwise (l : List (κ × β)) : (items l).Pairwise (fun x y => x.1 ≠ y.1) := by
  fun_induction items l with
  | case1 => simp
  | case2 k0 v0 t ih =>
    refine List.pairwise_cons.mpr ⟨?_, ih⟩
    intro y hy
    have := (mem_items y.1 y.2 (adel k0 t)).mp hy
    rw [aget_adel] at this
    intro e
    simp [← e] at this

end Dict

/-! ## accessors of the cache -/
section Cache
variable {α : Type} [DecidableEq α]

@[simp] theorem pget_rset (c : Cache α) (s : Net) (a : α) (ri : RouterInfo) (s' : Net) (d : Nat) :
    pget (rset c s a ri) s' d = pget c s' d := by
  unfold rset pget; split <;> rfl

omit [DecidableEq α] in
@[simp] theorem pget_setPath (c : Cache α) (p : List ((Net × Nat) × α)) (s : Net) (d : Nat) :
    pget { c with pathInfo := p } s d = aget (s, d) p := rfl

@[simp] theorem pathInfo_rset (c : Cache α) (s : Net) (a : α) (ri : RouterInfo) :
    (rset c s a ri).pathInfo = c.pathInfo := by
  unfold rset; split <;> rfl

theorem rget_rset (c : Cache α) (s : Net) (a : α) (ri : RouterInfo) (s' : Net) (a' : α) :
    rget (rset c s a ri) s' a' = if s' = s ∧ a' = a then some ri else rget c s' a' := by
  unfold rset
  cases h : aget s c.routers with
  | none =>
    simp only [rget, aget_aset]
    by_cases e : s' = s
    · subst e
      by_cases e2 : a' = a
      · subst e2; simp [aget_cons]
      · have e3 : ¬ a = a' := fun h => e2 h.symm
        simp [aget_cons, h, e2, e3]
    · simp [e]
  | some rs =>
    simp only [rget, aget_aset]
    by_cases e : s' = s
    · subst e; simp only [↓reduceIte, true_and, h, aget_aset]
    · simp [e]

@[simp] theorem rget_setPath (c : Cache α) (p : List ((Net × Nat) × α)) (s : Net) (a : α) :
    rget { c with pathInfo := p } s a = rget c s a := rfl

theorem rdel_spec (c : Cache α) (s : Net) (a : α) (ri : RouterInfo) (h : rget c s a = some ri) :
    ∃ c', rdel c s a = .ok c' ∧ c'.pathInfo = c.pathInfo ∧
      ∀ s' a', rget c' s' a' = if s' = s ∧ a' = a then none else rget c s' a' := by
  unfold rget at h
  unfold rdel
  split at h
  · simp at h
  · rename_i rs hrs
    have : has a rs = true := by simp [has, h]
    simp only [this, ↓reduceIte]
    refine ⟨_, rfl, rfl, ?_⟩
    intro s' a'
    unfold rget
    simp only [aget_aset]
    by_cases e : s' = s
    · subst e; simp only [↓reduceIte, true_and, hrs, aget_adel]
    · simp [e]

end Cache
end BacVerif.RouterCache
