/-
  Lemmas.BipFdt — the foreign device table of `BIPBBMD` as a finite map:
  lookup after register / delete / tick, and the no-duplicates invariant.
-/
import BacVerif.Model.Bip
namespace BacVerif.Bip

/-- the entry listed for address `a` (the first one, as `register_foreign_device` finds it) -/
def fdtLookup (fdt : List FdtEntry) (a : Addr) : Option FdtEntry :=
  fdt.find? fun e => e.addr = a

/-- no address is listed twice -/
def FdtNodup (fdt : List FdtEntry) : Prop := (fdt.map (·.addr)).Nodup

instance (fdt : List FdtEntry) : Decidable (FdtNodup fdt) := by unfold FdtNodup; exact inferInstance

theorem fdtLookup_none_iff (fdt : List FdtEntry) (a : Addr) :
    fdtLookup fdt a = none ↔ a ∉ fdt.map (·.addr) := by
  induction fdt with
  | nil => simp [fdtLookup]
  | cons e es ih =>
    by_cases h : e.addr = a
    · simp [fdtLookup, List.find?, h]
    · have : ¬ a = e.addr := fun h' => h h'.symm
      simp [fdtLookup, List.find?, h, this] at ih ⊢

theorem fdtLookup_some_addr {fdt : List FdtEntry} {a : Addr} {e : FdtEntry}
    (h : fdtLookup fdt a = some e) : e.addr = a := by
  have := List.find?_some h
  simpa using this

/-! ### register -/

theorem mem_addrs_register (fdt : List FdtEntry) (a b : Addr) (t : Nat) :
    b ∈ (fdtRegister fdt a t).map (·.addr) ↔ b = a ∨ b ∈ fdt.map (·.addr) := by
  induction fdt with
  | nil => simp [fdtRegister]
  | cons e es ih =>
    unfold fdtRegister
    by_cases h : e.addr = a
    · simp [h]
    · simp only [h, if_false, List.map_cons, List.mem_cons, ih]
      constructor
      · rintro (h1 | h1 | h1) <;> simp [h1]
      · rintro (h1 | h1 | h1) <;> simp [h1]

theorem register_nodup (fdt : List FdtEntry) (a : Addr) (t : Nat) (h : FdtNodup fdt) :
    FdtNodup (fdtRegister fdt a t) := by
  unfold FdtNodup at *
  induction fdt with
  | nil => simp [fdtRegister]
  | cons e es ih =>
    simp only [List.map_cons, List.nodup_cons] at h
    unfold fdtRegister
    by_cases he : e.addr = a
    · simp only [he, if_true, List.map_cons, List.nodup_cons]
      exact ⟨by simpa [he] using h.1, h.2⟩
    · simp only [he, if_false, List.map_cons, List.nodup_cons]
      refine ⟨?_, ih h.2⟩
      rw [mem_addrs_register]
      rintro (h1 | h1)
      · exact he h1
      · exact h.1 h1

theorem register_lookup_self (fdt : List FdtEntry) (a : Addr) (t : Nat) :
    fdtLookup (fdtRegister fdt a t) a = some ⟨a, t, t + 5⟩ := by
  induction fdt with
  | nil => simp [fdtRegister, fdtLookup]
  | cons e es ih =>
    unfold fdtRegister
    by_cases he : e.addr = a
    · simp [he, fdtLookup]
    · simp only [he, if_false]
      unfold fdtLookup at ih ⊢
      simp [List.find?, he, ih]

theorem register_lookup_other (fdt : List FdtEntry) (a b : Addr) (t : Nat) (hb : b ≠ a) :
    fdtLookup (fdtRegister fdt a t) b = fdtLookup fdt b := by
  induction fdt with
  | nil =>
    have : ¬ a = b := fun h => hb h.symm
    simp [fdtRegister, fdtLookup, List.find?, this]
  | cons e es ih =>
    unfold fdtRegister
    by_cases he : e.addr = a
    · have h2 : ¬ a = b := fun h => hb h.symm
      have h1 : ¬ e.addr = b := by rw [he]; exact h2
      simp [he, fdtLookup, List.find?, h2, h1]
    · simp only [he, if_false]
      unfold fdtLookup at ih ⊢
      by_cases hb' : e.addr = b
      · simp [List.find?, hb']
      · simp [List.find?, hb', ih]

/-- "re-registration … never duplicates": the table grows by one only for a new address -/
theorem register_length (fdt : List FdtEntry) (a : Addr) (t : Nat) :
    (fdtRegister fdt a t).length = if a ∈ fdt.map (·.addr) then fdt.length else fdt.length + 1 := by
  induction fdt with
  | nil => simp [fdtRegister]
  | cons e es ih =>
    unfold fdtRegister
    by_cases he : e.addr = a
    · simp [he]
    · have : ¬ a = e.addr := fun h => he h.symm
      simp only [he, if_false, List.length_cons, ih, List.map_cons, List.mem_cons, this, false_or]
      split <;> rfl

/-! ### tick -/

theorem mem_addrs_tick {fdt : List FdtEntry} {b : Addr} (h : b ∈ (fdtTick fdt).map (·.addr)) :
    b ∈ fdt.map (·.addr) := by
  induction fdt with
  | nil => simp [fdtTick] at h
  | cons e es ih =>
    unfold fdtTick at h ih
    rw [List.filterMap_cons] at h
    split at h
    · exact List.mem_cons_of_mem _ (ih h)
    · next x hx =>
      simp only [List.map_cons, List.mem_cons] at h ⊢
      rcases h with h | h
      · left
        split at hx
        · cases hx
        · cases hx; exact h
      · right; exact ih h

theorem tick_nodup (fdt : List FdtEntry) (h : FdtNodup fdt) : FdtNodup (fdtTick fdt) := by
  unfold FdtNodup at *
  induction fdt with
  | nil => simp [fdtTick]
  | cons e es ih =>
    simp only [List.map_cons, List.nodup_cons] at h
    have ih' := ih h.2
    unfold fdtTick at ih' ⊢
    rw [List.filterMap_cons]
    split
    · exact ih'
    · next x hx =>
      simp only [List.map_cons, List.nodup_cons]
      refine ⟨?_, ih'⟩
      have hxa : x.addr = e.addr := by
        split at hx
        · cases hx
        · cases hx; rfl
      rw [hxa]
      intro hm
      exact h.1 (mem_addrs_tick (by unfold fdtTick; exact hm))

/-- one ageing tick, seen through lookup -/
theorem tick_lookup (fdt : List FdtEntry) (a : Addr) (h : FdtNodup fdt) :
    fdtLookup (fdtTick fdt) a =
      match fdtLookup fdt a with
      | some e => if e.remain ≤ 1 then none else some { e with remain := e.remain - 1 }
      | none => none := by
  unfold FdtNodup at h
  induction fdt with
  | nil => simp [fdtTick, fdtLookup]
  | cons e es ih =>
    simp only [List.map_cons, List.nodup_cons] at h
    have ih' := ih h.2
    by_cases he : e.addr = a
    · -- the entry is the head; nothing else carries the address
      have hnot : a ∉ (fdtTick es).map (·.addr) := fun hm => h.1 (he ▸ mem_addrs_tick hm)
      have hnone : fdtLookup (fdtTick es) a = none := (fdtLookup_none_iff _ _).2 hnot
      have hl : fdtLookup (e :: es) a = some e := by simp [fdtLookup, List.find?, he]
      rw [hl]
      unfold fdtTick at hnone ⊢
      rw [List.filterMap_cons]
      by_cases hr : e.remain ≤ 1
      · simp [hr, hnone]
      · simp only [hr, if_false]
        simp [fdtLookup, List.find?, he]
    · have hl : fdtLookup (e :: es) a = fdtLookup es a := by simp [fdtLookup, List.find?, he]
      rw [hl, ← ih']
      unfold fdtTick
      rw [List.filterMap_cons]
      by_cases hr : e.remain ≤ 1
      · simp [hr]
      · simp only [hr, if_false]
        simp [fdtLookup, List.find?, he]

/-! ### delete -/

theorem delete_none_iff (fdt : List FdtEntry) (a : Addr) :
    fdtDelete fdt a = none ↔ a ∉ fdt.map (·.addr) := by
  induction fdt with
  | nil => simp [fdtDelete]
  | cons e es ih =>
    unfold fdtDelete
    cases hd : fdtDelete es a with
    | some l =>
      have : a ∈ es.map (·.addr) := Decidable.byContradiction fun hc => by
        rw [ih.2 hc] at hd; cases hd
      simp [this]
    | none =>
      have hn := ih.1 hd
      by_cases he : e.addr = a
      · simp [he]
      · have : ¬ a = e.addr := fun h => he h.symm
        simp only [he, if_false, List.map_cons, List.mem_cons, this, false_or, true_iff]
        exact hn

/-- on a duplicate-free table, deleting = filtering that address out -/
theorem delete_eq_filter (fdt : List FdtEntry) (a : Addr) (h : FdtNodup fdt)
    (l : List FdtEntry) (hd : fdtDelete fdt a = some l) :
    l = fdt.filter (fun e => e.addr ≠ a) := by
  unfold FdtNodup at h
  induction fdt generalizing l with
  | nil => simp [fdtDelete] at hd
  | cons e es ih =>
    simp only [List.map_cons, List.nodup_cons] at h
    unfold fdtDelete at hd
    cases hd' : fdtDelete es a with
    | some l' =>
      rw [hd'] at hd
      simp only [Option.some.injEq] at hd
      have hin : a ∈ es.map (·.addr) := Decidable.byContradiction fun hc => by
        rw [(delete_none_iff es a).2 hc] at hd'; cases hd'
      have he : e.addr ≠ a := fun h' => h.1 (h' ▸ hin)
      rw [← hd, ih h.2 l' hd']
      simp [he]
    | none =>
      rw [hd'] at hd
      have hn := (delete_none_iff es a).1 hd'
      by_cases he : e.addr = a
      · simp only [he, if_true, Option.some.injEq] at hd
        rw [← hd]
        simp only [he, ne_eq, not_true_eq_false, decide_false, Bool.false_eq_true,
          not_false_eq_true, List.filter_cons_of_neg]
        symm
        rw [List.filter_eq_self]
        intro x hx
        have : x.addr ≠ a := fun h' => hn (h' ▸ List.mem_map_of_mem hx)
        simpa using this
      · simp [he] at hd

theorem lookup_filter_ne (fdt : List FdtEntry) (a b : Addr) :
    fdtLookup (fdt.filter (fun e => e.addr ≠ a)) b = if b = a then none else fdtLookup fdt b := by
  induction fdt with
  | nil => simp [fdtLookup]
  | cons e es ih =>
    unfold fdtLookup at ih ⊢
    by_cases he : e.addr = a
    · simp only [he, ne_eq, not_true_eq_false, decide_false, Bool.false_eq_true, not_false_eq_true,
        List.filter_cons_of_neg]
      rw [ih]
      by_cases hb : b = a
      · simp [hb]
      · have : ¬ a = b := fun h => hb h.symm
        simp [hb, List.find?, he, this]
    · have hk : (e :: es).filter (fun e => e.addr ≠ a) = e :: es.filter (fun e => e.addr ≠ a) := by
        simp [List.filter_cons, he]
      rw [hk]
      by_cases hb : b = a
      · subst hb
        simp only [if_true] at ih ⊢
        rw [List.find?_cons_of_neg (by simpa using he), ih]
      · simp only [hb, if_false] at ih ⊢
        by_cases hb' : e.addr = b
        · rw [List.find?_cons_of_pos (by simpa using hb'), List.find?_cons_of_pos (by simpa using hb')]
        · rw [List.find?_cons_of_neg (by simpa using hb'), List.find?_cons_of_neg (by simpa using hb'), ih]

theorem filter_nodup (fdt : List FdtEntry) (a : Addr) (h : FdtNodup fdt) :
    FdtNodup (fdt.filter (fun e => e.addr ≠ a)) := by
  unfold FdtNodup at *
  exact (List.filter_sublist.map _).nodup h

end BacVerif.Bip
