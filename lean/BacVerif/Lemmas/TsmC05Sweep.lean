/-
  Lemmas.TsmC05Sweep — C05: model-side single-fault sweeps.

  TESTS, not theorems: each statement evaluates, in the kernel, the
  deterministic faithful scheduler of Lemmas/TsmC05Sched.lean on ONE concrete
  exchange for EVERY single fault {drop, duplicate, late 0.4 s, late 2.5 s} at
  EVERY frame number of the fault-free run, and asserts success: quiescent, no
  transaction or timer left on either side, A's application told exactly once —
  the ComplexAck with the exact response payload —, B's application indicated
  the exact request payload.  They are the model-side twin of the exhaustive
  single-fault sweep harness/c05_impl.py runs on the real stacks (same fault
  kinds, same frame numbering); the general statement (`single_fault_progress`)
  is NOT proved.
-/
import BacVerif.Lemmas.TsmC05Sched
import BacVerif.Gen.TsmDefaults
namespace BacVerif.Tsm

def swKinds : List Fault := [.drop, .dup, .late 400000, .late 2500000]

def swCfg (m w : Nat) : Cfg :=
  { BacVerif.Gen.TsmDefaults.cfg with seg := .both, maxSegs := some 64, maxApdu := m, window := w }

def swPat (n salt : Nat) : Bytes := (List.range n).map fun i => UInt8.ofNat (i * 131 + salt)

def swParams (np nr : Nat) : Params :=
  { peerA := 0, peerB := 1, id := 1, svc := 200, P := swPat np 3, R := swPat nr 9
    sizeP := 0, countP := 0, sizeR := 0, countR := 0, mr := 0, ms := 0, sa := true, MB := 0 }

/-- TEST: 100-octet request (3 segments) and 100-octet response (3 segments), 50-octet APDUs,
    windows 2/2: 10 frames fault-free, all 40 single faults end in success -/
theorem sweep_3x3 : Sched.sweep (swParams 100 100) (swCfg 50 2) (swCfg 50 2) swKinds 300 = (true, 10) := by
  decide +kernel

/-- TEST: 240 + 240 octets (6 + 6 segments), windows 3 (client) and 5 (server) — the shape of
    corpus/C05/03: 17 frames, all 68 single faults end in success -/
theorem sweep_6x6_w35 : Sched.sweep (swParams 240 240) (swCfg 50 3) (swCfg 50 5) swKinds 600 = (true, 17) := by
  decide +kernel

/-- TEST: unsegmented 10-octet request, 500-octet response over 206-octet APDUs (3 segments) — the
    shape of corpus/C05/01 (lost first segment ack): 6 frames, all 24 single faults end in success -/
theorem sweep_1x3_206 : Sched.sweep (swParams 10 500) (swCfg 206 2) (swCfg 206 2) swKinds 600 = (true, 6) := by
  decide +kernel

/-- the sweep discriminates: without retries a single fault is fatal (the fault-free run still succeeds) -/
theorem sweep_contrast :
    Sched.sweep (swParams 100 100) { swCfg 50 2 with retries := 0 } (swCfg 50 2) swKinds 300 = (false, 10) ∧
    Sched.success (swParams 100 100)
      (Sched.exchange (swParams 100 100) { swCfg 50 2 with retries := 0 } (swCfg 50 2) none 300) = true := by
  decide +kernel

end BacVerif.Tsm
