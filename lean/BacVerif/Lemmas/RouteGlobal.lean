/-
  Lemmas.RouteGlobal — a global broadcast on a tree-shaped internetwork (C06):
  every station other than the originator receives it exactly once.  Core Lean only.
-/
import BacVerif.Lemmas.RouteTree
set_option linter.unusedSimpArgs false
namespace BacVerif.C06
open BacVerif BacVerif.Route

/-- a global broadcast in flight below the originating network -/
def gbp (sadr : Option (Nat × Mac)) (v : Option Nat) (er : Bool) (prio : Nat) (data : Bytes) (h : Nat) : Npci :=
  { dadr := some .gb, sadr := sadr, hop := h, msg := none, vendor := v, er := er, prio := prio, data := data }

theorem Downs.ports_aids (ds : Downs) : ds.ports.map (·.aid) = ds.aids := by
  match ds with
  | .nil => rfl
  | .cons aid mac sub rest => simp [Downs.ports, Downs.aids, mkPort, Downs.ports_aids rest]

theorem Downs.ports_nets (ds : Downs) (a : Adapter) (h : a ∈ ds.ports) :
    a.lan ∈ ds.lans ∧ a.net = some a.lan ∧ a.addr = some a.mac := by
  match ds with
  | .nil => simp [Downs.ports] at h
  | .cons aid mac sub rest =>
    simp only [Downs.ports, List.mem_cons] at h
    rcases h with rfl | h
    · simp [mkPort, Downs.lans, sub.lan_mem_lans]
    · have := Downs.ports_nets rest a h
      simp [Downs.lans, this]

/-- all down ports of a router -/
def allPorts (bf ds : Downs) : List Adapter := bf.ports ++ ds.ports

theorem allPorts_aids (bf ds : Downs) (a : Adapter) (h : a ∈ allPorts bf ds) : a.aid ∈ bf.aids ++ ds.aids := by
  simp only [allPorts, List.mem_append] at h ⊢
  rcases h with h | h
  · left; rw [← Downs.ports_aids]; exact List.mem_map_of_mem h
  · right; rw [← Downs.ports_aids]; exact List.mem_map_of_mem h

theorem allPorts_nets (bf ds : Downs) (a : Adapter) (h : a ∈ allPorts bf ds) :
    a.lan ∈ bf.lans ++ ds.lans ∧ a.net = some a.lan ∧ a.addr = some a.mac := by
  simp only [allPorts, List.mem_append] at h ⊢
  rcases h with h | h
  · have := Downs.ports_nets bf a h; exact ⟨Or.inl this.1, this.2⟩
  · have := Downs.ports_nets ds a h; exact ⟨Or.inr this.1, this.2⟩

/-- the other adapters of a router, seen from its up port: the down ports -/
theorem router_others (P ua : Nat) (um : Mac) (la : Nat) (c : Cache) (bf ds : Downs)
    (hua : ua ∉ bf.aids ++ ds.aids) :
    (routerNode P ua um la c bf ds).node.others (mkPort ua um P) = allPorts bf ds := by
  have hk : ∀ l : List Adapter, (∀ a ∈ l, a.aid ≠ ua) → l.filter (fun x => x.aid != (mkPort ua um P).aid) = l := by
    intro l hl
    apply List.filter_eq_self.mpr
    intro a ha
    simp [mkPort, hl a ha]
  have hb : ∀ a ∈ bf.ports, a.aid ≠ ua := by
    intro a ha e
    exact hua (e ▸ allPorts_aids bf ds a (by simp [allPorts, ha]))
  have hd : ∀ a ∈ ds.ports, a.aid ≠ ua := by
    intro a ha e
    exact hua (e ▸ allPorts_aids bf ds a (by simp [allPorts, ha]))
  simp only [Node.others, routerNode, List.filter_append, List.filter_cons, allPorts]
  rw [hk bf.ports hb, hk ds.ports hd]
  simp [mkPort]

theorem router_loc (P ua : Nat) (um : Mac) (la : Nat) (c : Cache) (bf ds : Downs)
    (hla : la ∈ ua :: (bf.aids ++ ds.aids)) :
    ∃ loc, (routerNode P ua um la c bf ds).node.loc = some loc ∧ loc.addr.isSome ∧ loc.net.isSome ∧
      (loc = mkPort ua um P ∨ loc ∈ allPorts bf ds) := by
  unfold Node.loc routerNode
  simp only
  have : ∃ a ∈ bf.ports ++ mkPort ua um P :: ds.ports, (a.aid == la) = true := by
    simp only [List.mem_cons, List.mem_append] at hla
    rcases hla with rfl | h | h
    · exact ⟨mkPort la um P, by simp, by simp [mkPort]⟩
    · rw [← Downs.ports_aids] at h
      obtain ⟨a, ha, rfl⟩ := List.mem_map.mp h
      exact ⟨a, by simp [ha], by simp⟩
    · rw [← Downs.ports_aids] at h
      obtain ⟨a, ha, rfl⟩ := List.mem_map.mp h
      exact ⟨a, by simp [ha], by simp⟩
  obtain ⟨a, ha, hp⟩ := this
  cases hf : List.find? (fun x => x.aid == la) (bf.ports ++ mkPort ua um P :: ds.ports) with
  | none =>
    have := List.find?_eq_none.mp hf a ha
    simp [hp] at this
  | some loc =>
    refine ⟨loc, rfl, ?_⟩
    have hm := List.mem_of_find?_eq_some hf
    simp only [List.mem_append, List.mem_cons] at hm
    rcases hm with hm | rfl | hm
    · have := Downs.ports_nets bf loc hm
      simp [this, allPorts, hm]
    · simp [mkPort]
    · have := Downs.ports_nets ds loc hm
      simp [this, allPorts, hm]

theorem router_hasNet (P ua : Nat) (um : Mac) (la : Nat) (c : Cache) (bf ds : Downs) (x : Nat)
    (h1 : x ≠ P) (h2 : x ∉ bf.lans ++ ds.lans) :
    (routerNode P ua um la c bf ds).node.hasNet (some x) = false := by
  simp only [Node.hasNet, routerNode, List.any_append, List.any_cons, mkPort, Bool.or_eq_false_iff,
    List.any_eq_false]
  simp only [List.mem_append, not_or] at h2
  refine ⟨?_, by simp [Ne.symm h1], ?_⟩
  · intro a ha
    have := Downs.ports_nets bf a ha
    simp [this.2.1]
    intro e; exact h2.1 (e ▸ this.1)
  · intro a ha
    have := Downs.ports_nets ds a ha
    simp [this.2.1]
    intro e; exact h2.2 (e ▸ this.1)

theorem sends_map_send (l : List Adapter) (lk : Link) (q : Npci) (d : Decision)
    (h : d.out = l.map (fun a => Out.send a lk q)) :
    d.sends = l.map (fun a => (a, lk, q)) := by
  simp only [Decision.sends, h]
  clear h
  induction l with
  | nil => rfl
  | cons a l ih => simp [List.filterMap_cons, ih]

theorem router_len (P ua : Nat) (um : Mac) (la : Nat) (c : Cache) (bf ds : Downs) :
    ((routerNode P ua um la c bf ds).node.adapters.length == 1) = (allPorts bf ds).isEmpty := by
  simp only [routerNode, allPorts, List.length_append, List.length_cons]
  cases hb : bf.ports <;> cases hd : ds.ports <;> simp <;> omega

/-- a router hearing a global broadcast on its up port: nothing for an application, one copy on
    every down port, SADR filled in if the frame had none -/
theorem router_gb (P ua : Nat) (um : Mac) (la : Nat) (c : Cache) (bf ds : Downs)
    (sIn : Option (Nat × Mac)) (v : Option Nat) (er : Bool) (prio : Nat) (data : Bytes) (h : Nat) (u : Mac)
    (hua : ua ∉ bf.aids ++ ds.aids) (hla : la ∈ ua :: (bf.aids ++ ds.aids))
    (hs : ∀ s, sIn = some s → s.1 ≠ P ∧ s.1 ∉ bf.lans ++ ds.lans)
    (hh : allPorts bf ds = [] ∨ h ≠ 0) :
    delivered (routerNode P ua um la c bf ds) (mkPort ua um P) ⟨P, u, .bcast, gbp sIn v er prio data h⟩ = [] ∧
    emitted (routerNode P ua um la c bf ds) (mkPort ua um P) ⟨P, u, .bcast, gbp sIn v er prio data h⟩ =
      (allPorts bf ds).map (fun a => ⟨a.lan, a.mac, .bcast, gbp (some (sIn.getD (P, u))) v er prio data (h - 1)⟩) := by
  obtain ⟨loc, hloc, _, _⟩ := router_loc P ua um la c bf ds hla
  have hsp : spoofed (routerNode P ua um la c bf ds).node (gbp sIn v er prio data h) = false := by
    simp only [spoofed, gbp]
    cases sIn with
    | none => rfl
    | some s => exact router_hasNet P ua um la c bf ds s.1 (hs s rfl).1 (hs s rfl).2
  have hr : ∃ lrn, route (routerNode P ua um la c bf ds).node (routerNode P ua um la c bf ds).cache (mkPort ua um P) u .bcast
      (gbp sIn v er prio data h) =
      { learn := lrn,
        out := forward (routerNode P ua um la c bf ds).node
          (learned (routerNode P ua um la c bf ds).cache (mkPort ua um P) u (gbp sIn v er prio data h))
          (mkPort ua um P) u (gbp sIn v er prio data h) } := by
    unfold route
    simp only [hloc, hsp]
    simp [classify, gbp, routeGo, routerNode, mkPort]
  obtain ⟨lrn, hr⟩ := hr
  have hf : forward (routerNode P ua um la c bf ds).node
          (learned (routerNode P ua um la c bf ds).cache (mkPort ua um P) u (gbp sIn v er prio data h))
          (mkPort ua um P) u (gbp sIn v er prio data h) =
        (allPorts bf ds).map (fun a => Out.send a .bcast (gbp (some (sIn.getD (P, u))) v er prio data (h - 1))) := by
    have hlen := router_len P ua um la c bf ds
    unfold forward
    by_cases hall : allPorts bf ds = []
    · simp [hlen, hall]
    · have hh : h ≠ 0 := hh.resolve_left hall
      have hne : (allPorts bf ds).isEmpty = false := by
        cases hp : allPorts bf ds with
        | nil => exact absurd hp hall
        | cons _ _ => rfl
      have ho := router_others P ua um la c bf ds hua
      simp only [hlen, hne, Bool.false_eq_true, if_false]
      have ho' := ho
      simp only [mkPort] at ho'
      cases sIn with
      | none => simp [gbp, hh, fwdSadr, fwdCopies, ho', mkPort]
      | some s => simp [gbp, hh, fwdSadr, fwdCopies, ho]
  constructor
  · simp [delivered, hr]
  · simp only [emitted]
    rw [sends_map_send (allPorts bf ds) .bcast (gbp (some (sIn.getD (P, u))) v er prio data (h - 1)) _ (by rw [hr]; exact hf)]
    simp

end BacVerif.C06
namespace BacVerif.C06
open BacVerif BacVerif.Route

/-- what a station of the subtree is handed -/
def gbUp (s0 : Nat × Mac) (er : Bool) (prio : Nat) (data : Bytes) : Up :=
  ⟨.remoteStation s0.1 s0.2, some .global, er, prio, data⟩

theorem station_loc (lan : Nat) (s : Station) : (s.tnode lan).node.loc = some (s.adapter lan) := by
  simp [Node.loc, Station.tnode, Station.adapter]

/-- a station hearing a global broadcast that was routed: delivered once, nothing sent -/
theorem station_gb (lan : Nat) (s : Station) (s0 : Nat × Mac) (v : Option Nat) (er : Bool) (prio : Nat)
    (data : Bytes) (h : Nat) (u : Mac) (hs : s0.1 ≠ lan) :
    delivered (s.tnode lan) (s.adapter lan) ⟨lan, u, .bcast, gbp (some s0) v er prio data h⟩ =
      [⟨lan, s.mac, gbUp s0 er prio data⟩] ∧
    emitted (s.tnode lan) (s.adapter lan) ⟨lan, u, .bcast, gbp (some s0) v er prio data h⟩ = [] := by
  have hsp : spoofed (s.tnode lan).node (gbp (some s0) v er prio data h) = false := by
    simp only [spoofed, gbp, Node.hasNet, Station.tnode, Station.adapter, List.any_cons, List.any_nil]
    cases s.knowsNet <;> simp [Ne.symm hs]
  have hr : route (s.tnode lan).node (s.tnode lan).cache (s.adapter lan) u .bcast (gbp (some s0) v er prio data h) =
      { learn := some ((s.adapter lan).net, u, s0.1), up := some (gbUp s0 er prio data), out := [] } := by
    unfold route
    simp only [station_loc, hsp]
    simp [classify, gbp, routeGo, shown, forward, Station.tnode, gbUp, Link.toAddr]
  constructor
  · simp only [delivered, hr]
    simp [Station.adapter]
  · simp only [emitted, hr]
    simp [Decision.sends]

end BacVerif.C06
namespace BacVerif.C06
open BacVerif BacVerif.Route

theorem macs_facts (up : List Mac) (sts : List Station) (ums : List Mac)
    (h : (up ++ sts.map (·.mac) ++ ums).Nodup) :
    (∀ u ∈ up, ∀ s ∈ sts, s.mac ≠ u) ∧ (∀ u ∈ up, u ∉ ums) ∧ (sts.map (·.mac)).Nodup ∧ ums.Nodup ∧
    (∀ s ∈ sts, s.mac ∉ ums) := by
  obtain ⟨h1, h2, h3⟩ := List.nodup_append.mp h
  obtain ⟨h4, h5, h6⟩ := List.nodup_append.mp h1
  refine ⟨?_, ?_, h5, h2, ?_⟩
  · intro u hu s hs e
    exact h6 u hu s.mac (List.mem_map_of_mem hs) e.symm
  · intro u hu hm
    exact h3 u (List.mem_append_left _ hu) u hm rfl
  · intro s hs hm
    exact h3 s.mac (List.mem_append_right _ (List.mem_map_of_mem hs)) s.mac hm rfl

/-- deliveries expected in a (sub)tree -/
def gbExpect (s0 : Nat × Mac) (er : Bool) (prio : Nat) (data : Bytes) (pop : List (Nat × Station)) :
    List Delivery :=
  pop.map (fun x => ⟨x.1, x.2.mac, gbUp s0 er prio data⟩)

theorem gbExpect_append (s0 : Nat × Mac) (er : Bool) (prio : Nat) (data : Bytes) (a b : List (Nat × Station)) :
    gbExpect s0 er prio data (a ++ b) = gbExpect s0 er prio data a ++ gbExpect s0 er prio data b := by
  simp [gbExpect]

section
variable (v : Option Nat) (er : Bool) (prio : Nat) (data : Bytes)

theorem stations_gb (s0 : Nat × Mac) (topo : Topology) (lan : Nat) (sts : List Station) (u : Mac) (h : Nat)
    (hs : s0.1 ≠ lan) (hm : ∀ s ∈ sts, s.mac ≠ u) :
    (((stationEntries lan sts).filter (fun x => macOk ⟨lan, u, .bcast, gbp (some s0) v er prio data h⟩ x.2)).flatMap fun x =>
        delivered x.1 x.2 ⟨lan, u, .bcast, gbp (some s0) v er prio data h⟩ ++
          (emitted x.1 x.2 ⟨lan, u, .bcast, gbp (some s0) v er prio data h⟩).flatMap (deliverAll topo)) =
      gbExpect s0 er prio data (sts.map (fun s => (lan, s))) := by
  induction sts with
  | nil => rfl
  | cons s sts ih =>
    have h1 : s.mac ≠ u := hm s List.mem_cons_self
    have h2 := ih (fun s hs => hm s (List.mem_cons_of_mem _ hs))
    obtain ⟨hd, he⟩ := station_gb lan s s0 v er prio data h u hs
    simp only [stationEntries, List.map_cons, List.filter_cons] at h2 ⊢
    have : macOk ⟨lan, u, .bcast, gbp (some s0) v er prio data h⟩ (s.adapter lan) = true := by
      simp [macOk, Station.adapter, h1]
    simp only [this, if_true, List.flatMap_cons, hd, he, List.flatMap_nil, List.append_nil]
    rw [h2]
    simp [gbExpect]

mutual
theorem NetTree.gb (S : NetTree) (topo : Topology) (upE : List (TNode × Adapter)) (u : Mac) (h : Nat)
    (s0 : Nat × Mac) (hT : HT topo S upE) (hup : ∀ x ∈ upE, x.2.mac = u) (hnd : S.lans.Nodup) (hwf : S.wf [u] = true)
    (hs : s0.1 ∉ S.lans) (hh : S.height ≤ h) :
    deliverAll topo ⟨S.lan, u, .bcast, gbp (some s0) v er prio data h⟩ = gbExpect s0 er prio data S.population := by
  match S with
  | .mk lan sts rs =>
    simp only [NetTree.lans, List.nodup_cons] at hnd
    simp only [NetTree.lans, List.mem_cons, not_or] at hs
    simp only [NetTree.wf, Bool.and_eq_true, decide_eq_true_eq] at hwf
    obtain ⟨hm1, hm2, _, _, _⟩ := macs_facts [u] sts rs.upMacs hwf.1
    rw [deliverAll_attached]
    simp only [NetTree.lan]
    rw [hT.root hnd.1, List.filter_append, List.filter_append, List.flatMap_append, List.flatMap_append]
    have hup0 : upE.filter (fun x => macOk ⟨lan, u, .bcast, gbp (some s0) v er prio data h⟩ x.2) = [] := by
      apply List.filter_eq_nil_iff.mpr
      intro x hx
      simp [macOk, hup x hx]
    rw [hup0, List.flatMap_nil, List.nil_append]
    rw [stations_gb v er prio data s0 topo lan sts u h hs.1 (fun s hs' => hm1 u (by simp) s hs')]
    rw [Routers.gb rs topo lan u h (some s0) (hT.routers hnd.1) hnd.1 hnd.2 hwf.2 (hm2 u (by simp))
      (fun s e => by cases e; exact hs.1) hs.2 hh]
    simp [NetTree.population, gbExpect]
theorem Routers.gb (rs : Routers) (topo : Topology) (P : Nat) (u : Mac) (h : Nat) (sIn : Option (Nat × Mac))
    (hR : HR topo rs P) (hP : P ∉ rs.lans) (hnd : rs.lans.Nodup) (hwf : rs.wf = true)
    (hu : u ∉ rs.upMacs) (hsP : ∀ s, sIn = some s → s.1 ≠ P) (hs : (sIn.getD (P, u)).1 ∉ rs.lans)
    (hh : rs.height ≤ h) :
    (((rs.upEntries P).filter (fun x => macOk ⟨P, u, .bcast, gbp sIn v er prio data h⟩ x.2)).flatMap fun x =>
        delivered x.1 x.2 ⟨P, u, .bcast, gbp sIn v er prio data h⟩ ++
          (emitted x.1 x.2 ⟨P, u, .bcast, gbp sIn v er prio data h⟩).flatMap (deliverAll topo)) =
      gbExpect (sIn.getD (P, u)) er prio data rs.population := by
  match rs with
  | .nil => rfl
  | .cons ua um la c bf ds rest =>
    have hB := hR.before hP hnd
    have hD := hR.downs hP hnd
    have hRr := hR.rest hP hnd
    simp only [Routers.lans, List.mem_append, not_or] at hP hs
    simp only [Routers.lans, List.nodup_append] at hnd
    simp only [Routers.wf, Bool.and_eq_true, decide_eq_true_eq, List.nodup_cons, List.contains_iff_mem] at hwf
    obtain ⟨⟨⟨⟨⟨hua, _⟩, hla⟩, hbwf⟩, hdwf⟩, hrwf⟩ := hwf
    simp only [Routers.upMacs, List.mem_cons, not_or] at hu
    simp only [Routers.height] at hh
    have hmo : macOk ⟨P, u, .bcast, gbp sIn v er prio data h⟩ (mkPort ua um P) = true := by
      simp [macOk, mkPort, Ne.symm hu.1]
    simp only [Routers.upEntries, List.filter_cons, hmo, if_true, List.flatMap_cons]
    have hhh : allPorts bf ds = [] ∨ h ≠ 0 := by
      by_cases hall : allPorts bf ds = []
      · exact Or.inl hall
      · right
        have : 1 ≤ bf.height ∨ 1 ≤ ds.height := by
          cases bf with
          | cons _ _ _ _ => left; simp only [Downs.height]; omega
          | nil =>
            cases ds with
            | cons _ _ _ _ => right; simp only [Downs.height]; omega
            | nil => exact absurd (by simp [allPorts, Downs.ports]) hall
        omega
    have hsd : ∀ s, sIn = some s → s.1 ≠ P ∧ s.1 ∉ bf.lans ++ ds.lans := by
      intro s e
      subst e
      exact ⟨hsP s rfl, by simpa using hs.1⟩
    obtain ⟨hd, he⟩ := router_gb P ua um la c bf ds sIn v er prio data h u hua hla hsd hhh
    rw [hd, he, List.nil_append]
    simp only [allPorts, List.map_append, List.flatMap_append]
    rw [Downs.gb bf topo (routerNode P ua um la c bf ds) (h - 1) (sIn.getD (P, u)) hB hnd.1.1 hbwf hs.1.1 (by omega)]
    rw [Downs.gb ds topo (routerNode P ua um la c bf ds) (h - 1) (sIn.getD (P, u)) hD hnd.1.2.1 hdwf hs.1.2 (by omega)]
    rw [Routers.gb rest topo P u h sIn hRr hP.2 hnd.2.1 hrwf hu.2 hsP hs.2 (by omega)]
    simp [Routers.population, gbExpect]
theorem Downs.gb (ds : Downs) (topo : Topology) (r : TNode) (h' : Nat) (s0 : Nat × Mac)
    (hD : HD topo ds r) (hnd : ds.lans.Nodup) (hwf : ds.wf = true)
    (hs : s0.1 ∉ ds.lans) (hh : ds.height ≤ h' + 1) :
    (ds.ports.map (fun a => (⟨a.lan, a.mac, .bcast, gbp (some s0) v er prio data h'⟩ : Packet))).flatMap (deliverAll topo) =
      gbExpect s0 er prio data ds.population := by
  match ds with
  | .nil => rfl
  | .cons aid mac sub rest =>
    have hTs := hD.sub hnd
    have hDr := hD.rest hnd
    simp only [Downs.lans, List.mem_append, not_or] at hs
    simp only [Downs.lans, List.nodup_append] at hnd
    simp only [Downs.wf, Bool.and_eq_true] at hwf
    simp only [Downs.height] at hh
    simp only [Downs.ports, List.map_cons, List.flatMap_cons, mkPort]
    rw [NetTree.gb sub topo _ mac h' s0 hTs (by simp [mkPort]) hnd.1 hwf.1 hs.1 (by omega)]
    rw [Downs.gb rest topo r h' s0 hDr hnd.2.1 hwf.2 hs.2 (by omega)]
    simp [Downs.population, gbExpect]
end

end
end BacVerif.C06
namespace BacVerif.C06
open BacVerif BacVerif.Route

/-- the network layer state of a station -/
def Station.st (lan : Nat) (s : Station) : St := { node := (s.tnode lan).node, cache := s.cache }

/-- what a station on the originator's own network is handed -/
def lbUp (m0 : Mac) (dst : Addr) (er : Bool) (prio : Nat) (data : Bytes) : Up :=
  ⟨.localStation m0, some dst, er, prio, data⟩

/-- a station hearing a global broadcast on the originator's network -/
theorem station_gb0 (lan : Nat) (s : Station) (v : Option Nat) (er : Bool) (prio : Nat)
    (data : Bytes) (h : Nat) (u : Mac) :
    delivered (s.tnode lan) (s.adapter lan) ⟨lan, u, .bcast, gbp none v er prio data h⟩ =
      [⟨lan, s.mac, lbUp u .global er prio data⟩] ∧
    emitted (s.tnode lan) (s.adapter lan) ⟨lan, u, .bcast, gbp none v er prio data h⟩ = [] := by
  have hr : route (s.tnode lan).node (s.tnode lan).cache (s.adapter lan) u .bcast (gbp none v er prio data h) =
      { up := some (lbUp u .global er prio data), out := [] } := by
    unfold route
    simp only [station_loc]
    simp [spoofed, classify, gbp, routeGo, shown, forward, Station.tnode, lbUp, Link.toAddr]
  constructor
  · simp only [delivered, hr]
    simp [Station.adapter]
  · simp only [emitted, hr]
    simp [Decision.sends]

theorem stations_gb0 (v : Option Nat) (er : Bool) (prio : Nat) (data : Bytes)
    (topo : Topology) (lan : Nat) (sts : List Station) (u : Mac) (h : Nat) :
    (((stationEntries lan sts).filter (fun x => macOk ⟨lan, u, .bcast, gbp none v er prio data h⟩ x.2)).flatMap fun x =>
        delivered x.1 x.2 ⟨lan, u, .bcast, gbp none v er prio data h⟩ ++
          (emitted x.1 x.2 ⟨lan, u, .bcast, gbp none v er prio data h⟩).flatMap (deliverAll topo)) =
      (sts.filter (fun s => s.mac != u)).map (fun s => ⟨lan, s.mac, lbUp u .global er prio data⟩) := by
  induction sts with
  | nil => rfl
  | cons s sts ih =>
    obtain ⟨hd, he⟩ := station_gb0 lan s v er prio data h u
    simp only [stationEntries, List.map_cons, List.filter_cons] at ih ⊢
    have : macOk ⟨lan, u, .bcast, gbp none v er prio data h⟩ (s.adapter lan) = (s.mac != u) := by
      simp [macOk, Station.adapter]
    rw [this]
    by_cases hm : (s.mac != u) = true
    · simp only [hm, if_true, List.flatMap_cons, hd, he, List.flatMap_nil, List.append_nil, List.map_cons]
      rw [ih]
      rfl
    · simp only [hm, Bool.false_eq_true, if_false]
      exact ih

theorem originate_global (lan : Nat) (o : Station) (er : Bool) (prio : Nat) (data : Bytes) :
    originPackets (originate (o.st lan) .global er prio data).2 =
      [⟨lan, o.mac, .bcast, gbp none none er prio data 255⟩] := by
  simp [originate, Station.st, Station.tnode, station_loc, Node.loc, originPackets, gbp, Station.adapter]

/-- **tree_global_broadcast_once** (list form) — on any tree-shaped internetwork (any number of
    networks, routers with any number of ports, at most 255 router levels), a global broadcast
    originated by station `o` of the root network produces exactly this list of deliveries:
    one per other station of `o`'s network (source shown: `o` as a local station) and one per
    station of every other network (source shown: `o`'s network number and MAC), in depth-first
    order; nothing is delivered to `o` itself. -/
theorem tree_global_broadcast (T : NetTree) (o : Station) (er : Bool) (prio : Nat) (data : Bytes)
    (ho : o ∈ T.stations) (hnd : T.lans.Nodup) (hwf : T.wf [] = true) (hh : T.height ≤ 255) :
    (originPackets (originate (o.st T.lan) .global er prio data).2).flatMap (deliverAll T.nodes) =
      (T.stations.filter (fun s => s.mac != o.mac)).map
          (fun s => ⟨T.lan, s.mac, lbUp o.mac .global er prio data⟩)
        ++ gbExpect (T.lan, o.mac) er prio data T.routers.population := by
  rw [originate_global]
  simp only [List.flatMap_cons, List.flatMap_nil, List.append_nil]
  match T with
  | .mk lan sts rs =>
    have hT := HT.whole (.mk lan sts rs)
    simp only [NetTree.lans, List.nodup_cons] at hnd
    simp only [NetTree.wf, Bool.and_eq_true, decide_eq_true_eq] at hwf
    simp only [NetTree.lan, NetTree.stations, NetTree.routers]
    rw [deliverAll_attached]
    simp only []
    rw [hT.root hnd.1, List.nil_append, List.filter_append, List.flatMap_append]
    rw [stations_gb0 none er prio data _ lan sts o.mac 255]
    obtain ⟨_, _, _, _, hm⟩ := macs_facts [] sts rs.upMacs hwf.1
    simp only [NetTree.stations] at ho
    rw [Routers.gb none er prio data rs _ lan o.mac 255 none (hT.routers hnd.1) hnd.1 hnd.2 hwf.2
      (hm o ho) (fun s e => by cases e) (by simpa using hnd.1) (by simpa [NetTree.height] using hh)]
    rfl

end BacVerif.C06
