/-
  Lemmas.BipTopo — where one datagram goes in a well-addressed world:
  local unicast, routed unicast, local broadcast; the node that starts a
  broadcast.  Pure list reasoning over arbitrary populations.
-/
import BacVerif.Lemmas.BipStatic
namespace BacVerif.Bip

/-! ### list helpers -/

theorem key_inj {α κ} (key : α → κ) : ∀ (l : List α), (l.map key).Nodup →
    ∀ a ∈ l, ∀ b ∈ l, key a = key b → a = b := by
  intro l
  induction l with
  | nil => intro _ a ha; cases ha
  | cons x r ih =>
    intro h a ha b hb hk
    simp only [List.map_cons, List.nodup_cons] at h
    rcases List.mem_cons.1 ha with rfl | ha' <;> rcases List.mem_cons.1 hb with rfl | hb'
    · rfl
    · exact absurd (hk ▸ List.mem_map_of_mem hb') h.1
    · exact absurd (hk ▸ List.mem_map_of_mem ha') h.1
    · exact ih h.2 a ha' b hb' hk

/-- in a list with distinct keys, selecting by the key of a member selects that member -/
theorem flatMap_pick {α β κ} [DecidableEq κ] (key : α → κ) (F : α → List β) :
    ∀ (l : List α) (a : α), a ∈ l → (l.map key).Nodup →
      l.flatMap (fun m => if key m = key a then F m else []) = F a := by
  intro l
  induction l with
  | nil => intro a ha; cases ha
  | cons x r ih =>
    intro a ha h
    simp only [List.map_cons, List.nodup_cons] at h
    rw [List.flatMap_cons]
    rcases List.mem_cons.1 ha with rfl | ha'
    · have : r.flatMap (fun m => if key m = key a then F m else []) = [] := by
        rw [List.flatMap_eq_nil_iff]
        intro m hm
        have : key m ≠ key a := fun hk => h.1 (hk ▸ List.mem_map_of_mem hm)
        simp [this]
      simp [this]
    · have : key x ≠ key a := fun hk => h.1 (hk ▸ List.mem_map_of_mem ha')
      simp only [this, if_false, List.nil_append]
      exact ih a ha' h.2

/-- … and selecting by a key nobody has selects nothing -/
theorem flatMap_pick_none {α β κ} [DecidableEq κ] (key : α → κ) (F : α → List β) (k : κ)
    (l : List α) (h : ∀ m ∈ l, key m ≠ k) :
    l.flatMap (fun m => if key m = k then F m else []) = [] := by
  rw [List.flatMap_eq_nil_iff]
  intro m hm
  simp [h m hm]

theorem filter_pick {α κ} [DecidableEq κ] (key : α → κ) (P : α → Bool) :
    ∀ (l : List α) (a : α), a ∈ l → (l.map key).Nodup →
      (∀ x ∈ l, (P x = true ↔ key x = key a)) → l.filter P = [a] := by
  intro l
  induction l with
  | nil => intro a ha; cases ha
  | cons x r ih =>
    intro a ha h hp
    simp only [List.map_cons, List.nodup_cons] at h
    rcases List.mem_cons.1 ha with rfl | ha'
    · have hx : P a = true := (hp a (List.mem_cons_self ..)).2 rfl
      have hr : r.filter P = [] := by
        rw [List.filter_eq_nil_iff]
        intro m hm hpm
        have := (hp m (List.mem_cons_of_mem _ hm)).1 hpm
        exact h.1 (this ▸ List.mem_map_of_mem hm)
      simp [List.filter_cons, hx, hr]
    · have hx : ¬ P x = true := by
        intro hpx
        have := (hp x (List.mem_cons_self ..)).1 hpx
        exact h.1 (this ▸ List.mem_map_of_mem ha')
      simp only [List.filter_cons, hx, if_false]
      exact ih a ha' h.2 (fun y hy => hp y (List.mem_cons_of_mem _ hy))

theorem flatMap_nodup_unique {α β} (f : α → List β) : ∀ (l : List α), (l.flatMap f).Nodup →
    ∀ x ∈ l, ∀ y ∈ l, ∀ b, b ∈ f x → b ∈ f y → x = y := by
  intro l
  induction l with
  | nil => intro _ x hx; cases hx
  | cons a r ih =>
    intro h x hx y hy b hbx hby
    rw [List.flatMap_cons, List.nodup_append] at h
    obtain ⟨_, h2, h3⟩ := h
    rcases List.mem_cons.1 hx with rfl | hx' <;> rcases List.mem_cons.1 hy with rfl | hy'
    · rfl
    · exact absurd rfl (h3 b hbx b (List.mem_flatMap.2 ⟨y, hy', hby⟩))
    · exact absurd rfl (h3 b hby b (List.mem_flatMap.2 ⟨x, hx', hbx⟩))
    · exact ih h2 x hx' y hy' b hbx hby

theorem flatMap_nodup_each {α β} (f : α → List β) : ∀ (l : List α), (l.flatMap f).Nodup →
    ∀ x ∈ l, (f x).Nodup := by
  intro l
  induction l with
  | nil => intro _ x hx; cases hx
  | cons a r ih =>
    intro h x hx
    rw [List.flatMap_cons, List.nodup_append] at h
    rcases List.mem_cons.1 hx with rfl | hx'
    · exact h.1
    · exact ih h.2.1 x hx'

/-! ### well-addressed worlds -/

/-- the addressing plan: distinct network ids, distinct node addresses, no node sits on a
    broadcast address, the router's masks sort every node address and every broadcast address
    into exactly its own subnet.  All clauses are decidable. -/
def WF (w : World) : Prop :=
  (w.nets.map (·.id)).Nodup ∧
  (w.nets.flatMap fun n => n.nodes.map (·.addr)).Nodup ∧
  (∀ n ∈ w.nets, ∀ n' ∈ w.nets, ∀ nd ∈ n'.nodes, nd.addr ≠ n.bcast) ∧
  (∀ n ∈ w.nets, ∀ n' ∈ w.nets, ∀ nd ∈ n.nodes, (n'.covers nd.addr = true ↔ n'.id = n.id)) ∧
  (∀ n ∈ w.nets, ∀ n' ∈ w.nets, n'.covers n.bcast = true → n'.id = n.id)

instance (w : World) : Decidable (WF w) := by unfold WF; exact inferInstance

section
variable {w : World} (hw : WF w)
include hw

theorem WF.net_eq {n n' : Net} (hn : n ∈ w.nets) (hn' : n' ∈ w.nets) (h : n.id = n'.id) : n = n' :=
  key_inj (·.id) w.nets hw.1 n hn n' hn' h

theorem WF.node_net {n n' : Net} (hn : n ∈ w.nets) (hn' : n' ∈ w.nets) {x y : Node}
    (hx : x ∈ n.nodes) (hy : y ∈ n'.nodes) (h : x.addr = y.addr) : n = n' :=
  flatMap_nodup_unique _ w.nets hw.2.1 n hn n' hn' x.addr (List.mem_map_of_mem hx)
    (h ▸ List.mem_map_of_mem hy)

theorem WF.nodes_nodup {n : Net} (hn : n ∈ w.nets) : (n.nodes.map (·.addr)).Nodup :=
  flatMap_nodup_each _ w.nets hw.2.1 n hn

theorem WF.node_eq {n n' : Net} (hn : n ∈ w.nets) (hn' : n' ∈ w.nets) {x y : Node}
    (hx : x ∈ n.nodes) (hy : y ∈ n'.nodes) (h : x.addr = y.addr) : x = y := by
  have := hw.node_net hn hn' hx hy h
  subst this
  exact key_inj (·.addr) n.nodes (hw.nodes_nodup hn) x hx y hy h

theorem WF.router_some {n : Net} (hn : n ∈ w.nets) {z : Node} (hz : z ∈ n.nodes) :
    ∃ p, n.router = some p := by
  have := (hw.2.2.2.1 n hn n hn z hz).2 rfl
  unfold Net.covers at this
  cases hr : n.router with
  | none => simp [hr] at this
  | some p => exact ⟨p, rfl⟩

/-- the network a datagram sits on processes it -/
theorem obsS_on {n : Net} (hn : n ∈ w.nets) (d : Dgram) (hd : d.net = n.id) :
    obsS w d = netObs w.now n d := by
  unfold obsS
  rw [hd]
  exact flatMap_pick (·.id) (fun m => netObs w.now m d) w.nets n hn hw.1

theorem outS_on {n : Net} (hn : n ∈ w.nets) (d : Dgram) (hd : d.net = n.id) :
    outS w d = netOut w.now w.nets n d := by
  unfold outS
  rw [hd]
  exact flatMap_pick (·.id) (fun m => netOut w.now w.nets m d) w.nets n hn hw.1

/-! ### unicast to a node of the same network -/

theorem unicast_local {n : Net} (hn : n ∈ w.nets) {y : Node} (hy : y ∈ n.nodes)
    (s : Addr) (m : Bvll) :
    obsS w ⟨n.id, s, y.addr, m⟩ = outObs y.addr (y.st.up w.now s (.station y.addr) m).2 ∧
    outS w ⟨n.id, s, y.addr, m⟩ = outDgrams n y.addr (y.st.up w.now s (.station y.addr) m).2 := by
  have hne : y.addr ≠ n.bcast := hw.2.2.1 n hn n hn y hy
  have hsd : seenDst n ⟨n.id, s, y.addr, m⟩ = .station y.addr := by simp [seenDst, hne]
  have hhit : ∀ a, hits n ⟨n.id, s, y.addr, m⟩ a = decide (a = y.addr) := by
    intro a; simp [hits, hne]
  constructor
  · rw [obsS_on hw hn _ rfl]
    unfold netObs
    have : n.nodes.flatMap (reactObs w.now n ⟨n.id, s, y.addr, m⟩) =
        n.nodes.flatMap (fun nd => if nd.addr = y.addr then
          outObs nd.addr (nd.st.up w.now s (.station y.addr) m).2 else []) := by
      congr 1; funext nd
      simp only [reactObs, hhit, hsd, decide_eq_true_eq]
    rw [this]
    exact flatMap_pick (·.addr) (fun nd => outObs nd.addr (nd.st.up w.now s (.station y.addr) m).2)
      n.nodes y hy (hw.nodes_nodup hn)
  · rw [outS_on hw hn _ rfl]
    unfold netOut
    have hr : routerOuts w.nets n ⟨n.id, s, y.addr, m⟩ = [] := by
      unfold routerOuts
      rw [List.map_eq_nil_iff, List.filter_eq_nil_iff]
      intro n' hn' hp
      simp only [decide_eq_true_eq] at hp
      exact hp.1 ((hw.2.2.2.1 n hn n' hn' y hy).1 hp.2)
    have : n.nodes.flatMap (reactOut w.now n ⟨n.id, s, y.addr, m⟩) =
        n.nodes.flatMap (fun nd => if nd.addr = y.addr then
          outDgrams n nd.addr (nd.st.up w.now s (.station y.addr) m).2 else []) := by
      congr 1; funext nd
      simp only [reactOut, hhit, hsd, decide_eq_true_eq]
    rw [hr, this]
    simp only [ite_self, List.nil_append]
    exact flatMap_pick (·.addr) (fun nd => outDgrams n nd.addr (nd.st.up w.now s (.station y.addr) m).2)
      n.nodes y hy (hw.nodes_nodup hn)

/-! ### unicast to a node of another network: one hop through the router -/

theorem unicast_remote {n n' : Net} (hn : n ∈ w.nets) (hn' : n' ∈ w.nets) (hne : n.id ≠ n'.id)
    {z : Node} (hz : z ∈ n.nodes) {y : Node} (hy : y ∈ n'.nodes) (s : Addr) (m : Bvll) :
    obsS w ⟨n.id, s, y.addr, m⟩ = [] ∧
    outS w ⟨n.id, s, y.addr, m⟩ = [⟨n'.id, s, y.addr, m⟩] := by
  have hnb : y.addr ≠ n.bcast := hw.2.2.1 n hn n' hn' y hy
  have hhit : ∀ a, hits n ⟨n.id, s, y.addr, m⟩ a = decide (a = y.addr) := by
    intro a; simp [hits, hnb]
  have hnone : ∀ nd ∈ n.nodes, nd.addr ≠ y.addr := by
    intro nd hnd h
    exact hne (congrArg Net.id (hw.node_net hn hn' hnd hy h))
  constructor
  · rw [obsS_on hw hn _ rfl]
    unfold netObs
    rw [List.flatMap_eq_nil_iff]
    intro nd hnd
    simp [reactObs, hhit, hnone nd hnd]
  · rw [outS_on hw hn _ rfl]
    unfold netOut
    have h2 : n.nodes.flatMap (reactOut w.now n ⟨n.id, s, y.addr, m⟩) = [] := by
      rw [List.flatMap_eq_nil_iff]
      intro nd hnd
      simp [reactOut, hhit, hnone nd hnd]
    obtain ⟨p, hp⟩ := hw.router_some hn hz
    have hsees : routerSees n ⟨n.id, s, y.addr, m⟩ = true := by
      simp [routerSees, hp, hnb]
    have hr : routerOuts w.nets n ⟨n.id, s, y.addr, m⟩ = [⟨n'.id, s, y.addr, m⟩] := by
      unfold routerOuts
      rw [filter_pick (·.id) _ w.nets n' hn' hw.1]
      · rfl
      · intro x hx
        simp only [decide_eq_true_eq]
        have hc := hw.2.2.2.1 n' hn' x hx y hy
        constructor
        · intro h; exact hc.1 h.2
        · intro h; exact ⟨fun h' => hne (h'.symm.trans h), hc.2 h⟩
    rw [h2, hsees, hr]
    simp

/-! ### broadcast on a network -/

theorem bcast_local {n : Net} (hn : n ∈ w.nets) (s : Addr) (m : Bvll) :
    obsS w ⟨n.id, s, n.bcast, m⟩ =
      n.nodes.flatMap (fun nd => if nd.addr ≠ s then outObs nd.addr (nd.st.up w.now s .bcast m).2 else []) ∧
    outS w ⟨n.id, s, n.bcast, m⟩ =
      n.nodes.flatMap (fun nd => if nd.addr ≠ s then outDgrams n nd.addr (nd.st.up w.now s .bcast m).2 else []) := by
  have hsd : seenDst n ⟨n.id, s, n.bcast, m⟩ = .bcast := by simp [seenDst]
  have hhit : ∀ a, hits n ⟨n.id, s, n.bcast, m⟩ a = decide (a ≠ s) := by
    intro a; simp [hits]
  constructor
  · rw [obsS_on hw hn _ rfl]
    unfold netObs
    congr 1; funext nd
    simp only [reactObs, hhit, hsd, decide_eq_true_eq]
  · rw [outS_on hw hn _ rfl]
    unfold netOut
    have hr : routerOuts w.nets n ⟨n.id, s, n.bcast, m⟩ = [] := by
      unfold routerOuts
      rw [List.map_eq_nil_iff, List.filter_eq_nil_iff]
      intro n' hn' hp
      simp only [decide_eq_true_eq] at hp
      exact hp.1 (hw.2.2.2.2 n hn n' hn' hp.2)
    rw [hr]
    simp only [ite_self, List.nil_append]
    congr 1; funext nd
    simp only [reactOut, hhit, hsd, decide_eq_true_eq]

/-! ### directed broadcast into another network (one-hop BBMD distribution) -/

/-- a datagram addressed to the broadcast address of ANOTHER network `nc` whose router port
    accepts that address ("the router forwards directed broadcasts"): nobody on the sender's
    network takes it, the router puts it on `nc` -/
theorem directed_remote {n nc : Net} (hn : n ∈ w.nets) (hnc : nc ∈ w.nets) (hne : n.id ≠ nc.id)
    (hcov : nc.covers nc.bcast = true) {z : Node} (hz : z ∈ n.nodes) (s : Addr) (m : Bvll) :
    obsS w ⟨n.id, s, nc.bcast, m⟩ = [] ∧
    outS w ⟨n.id, s, nc.bcast, m⟩ = [⟨nc.id, s, nc.bcast, m⟩] := by
  have hnb : nc.bcast ≠ n.bcast := by
    intro h
    have := hw.2.2.2.2 n hn nc hnc (h ▸ hcov)
    exact hne this.symm
  have hhit : ∀ a, hits n ⟨n.id, s, nc.bcast, m⟩ a = decide (a = nc.bcast) := by
    intro a; simp [hits, hnb]
  have hnone : ∀ nd ∈ n.nodes, nd.addr ≠ nc.bcast := fun nd hnd => hw.2.2.1 nc hnc n hn nd hnd
  constructor
  · rw [obsS_on hw hn _ rfl]
    unfold netObs
    rw [List.flatMap_eq_nil_iff]
    intro nd hnd
    simp [reactObs, hhit, hnone nd hnd]
  · rw [outS_on hw hn _ rfl]
    unfold netOut
    have h2 : n.nodes.flatMap (reactOut w.now n ⟨n.id, s, nc.bcast, m⟩) = [] := by
      rw [List.flatMap_eq_nil_iff]
      intro nd hnd
      simp [reactOut, hhit, hnone nd hnd]
    obtain ⟨p, hp⟩ := hw.router_some hn hz
    have hsees : routerSees n ⟨n.id, s, nc.bcast, m⟩ = true := by
      simp [routerSees, hp, hnb]
    have hr : routerOuts w.nets n ⟨n.id, s, nc.bcast, m⟩ = [⟨nc.id, s, nc.bcast, m⟩] := by
      unfold routerOuts
      rw [filter_pick (·.id) _ w.nets nc hnc hw.1]
      · rfl
      · intro x hx
        simp only [decide_eq_true_eq]
        constructor
        · intro h; exact hw.2.2.2.2 nc hnc x hx h.2
        · intro h
          have : x = nc := hw.net_eq hx hnc h
          subst this
          exact ⟨fun h' => hne h'.symm, hcov⟩
    rw [h2, hsees, hr]
    simp

/-! ### the node that acts -/

omit hw in
theorem actNodes_at (n : Net) (f : Kind → Kind × List Out) (hf : ∀ k, (f k).1 = k) :
    ∀ (nodes : List Node) (y : Node), y ∈ nodes → (nodes.map (·.addr)).Nodup →
      actNodes y.addr f n nodes = (nodes, outObs y.addr (f y.st).2, outDgrams n y.addr (f y.st).2) := by
  intro nodes
  induction nodes with
  | nil => intro y hy; cases hy
  | cons x r ih =>
    intro y hy h
    simp only [List.map_cons, List.nodup_cons] at h
    unfold actNodes
    rcases List.mem_cons.1 hy with rfl | hy'
    · simp [hf]
    · have : x.addr ≠ y.addr := fun hk => h.1 (hk ▸ List.mem_map_of_mem hy')
      simp only [this, if_false]
      rw [ih y hy' h.2]

theorem actNets_at (f : Kind → Kind × List Out) (hf : ∀ k, (f k).1 = k)
    {n : Net} (hn : n ∈ w.nets) {y : Node} (hy : y ∈ n.nodes) :
    actNets y.addr f w.nets = (w.nets, outObs y.addr (f y.st).2, outDgrams n y.addr (f y.st).2) := by
  have key : ∀ (nets : List Net), (∀ m ∈ nets, m ∈ w.nets) → n ∈ nets →
      actNets y.addr f nets = (nets, outObs y.addr (f y.st).2, outDgrams n y.addr (f y.st).2) := by
    intro nets
    induction nets with
    | nil => intro _ h; cases h
    | cons m r ih =>
      intro hsub hmem
      unfold actNets
      by_cases hany : m.nodes.any (fun nd => nd.addr = y.addr) = true
      · obtain ⟨x, hx, hxa⟩ := List.any_eq_true.1 hany
        have hxa' : x.addr = y.addr := by simpa using hxa
        have hmn : m = n := hw.node_net (hsub m (List.mem_cons_self ..)) hn hx hy hxa'
        subst hmn
        simp only [hany, if_true]
        rw [actNodes_at m f hf m.nodes y hy (hw.nodes_nodup hn)]
      · have hmn : m ≠ n := by
          intro h; subst h
          exact hany (List.any_eq_true.2 ⟨y, hy, by simp⟩)
        have hmem' : n ∈ r := by
          rcases List.mem_cons.1 hmem with h | h
          · exact absurd h.symm hmn
          · exact h
        simp only [hany]
        rw [ih (fun x hx => hsub x (List.mem_cons_of_mem _ hx)) hmem']
        simp
  exact key w.nets (fun _ h => h) hn

end

end BacVerif.Bip
