/-
  Lemmas.CovSub — SubscribeCOV keeps the invariant.
-/
import BacVerif.Lemmas.Cov
namespace BacVerif.Cov

theorem nextPeriodic_gt {now period : Nat} (hp : period ≠ 0) : now < nextPeriodic now period := by
  unfold nextPeriodic usPerSec
  simp only
  have hpos : 0 < period * 1000000 := by omega
  have := Nat.mod_lt (now + 1) hpos
  omega

theorem getDet_ok {lo : Nat} {s : State} {ob : Obj} {d : Det} {ng : Nat} (h : InvAt lo s)
    (hob : ob ∈ s.objs) (hg : getDet s ob = some (d, ng)) :
    DetOk lo s.nextSid ng ob.period d ∧ s.nextGen ≤ ng := by
  unfold getDet at hg
  split at hg
  · rename_i d0 hd0
    cases hg
    exact ⟨h.2 ob hob d hd0, Nat.le_refl _⟩
  · split at hg
    · cases hg
    · cases hg
      refine ⟨⟨by simp [newDet], by simp [newDet], by simp [newDet], by simp [newDet], by simp [newDet]⟩, by omega⟩

theorem detOk_removeSid {lo n g p : Nat} {d : Det} (h : DetOk lo n g p d) (sid : Nat) :
    DetOk lo n g p { d with subs := removeSid d.subs sid } := by
  have hsub : List.Sublist (removeSid d.subs sid) d.subs := List.filter_sublist
  exact ⟨h.keys.sublist (hsub.map key), h.sids.sublist (hsub.map _),
         fun c hc => h.subs c (hsub.subset hc), h.gen, h.ptask⟩

theorem armLifetime_ok {lo : Nat} {s : State} (hlo : lo ≤ s.now + 1) (L : Nat) :
    (L = 0 ↔ (armLifetime s L).1 = none) ∧ ∀ t q, (armLifetime s L).1 = some (t, q) → lo ≤ t := by
  unfold armLifetime usPerSec
  split
  · rename_i hL
    refine ⟨by simp [hL], ?_⟩
    intro t q e
    simp only [Option.some.injEq, Prod.mk.injEq] at e
    omega
  · rename_i hL
    have : L = 0 := by omega
    simp [this]

theorem map_key_renew (subs : List Sub) (sid L : Nat) (c : Bool) (due : Option (Nat × Nat)) :
    (renewSubs subs sid L c due).map key = subs.map key := by
  unfold renewSubs
  rw [List.map_map]
  apply List.map_congr_left
  intro x _
  simp only [Function.comp]
  split <;> rfl

theorem map_sid_renew (subs : List Sub) (sid L : Nat) (c : Bool) (due : Option (Nat × Nat)) :
    (renewSubs subs sid L c due).map (·.sid) = subs.map (·.sid) := by
  unfold renewSubs
  rw [List.map_map]
  apply List.map_congr_left
  intro x _
  simp only [Function.comp]
  split <;> rfl

theorem detOk_renew {lo n g p : Nat} {d : Det} (h : DetOk lo n g p d) (sid L : Nat) (c : Bool)
    (due : Option (Nat × Nat)) (h1 : L = 0 ↔ due = none) (h2 : ∀ t q, due = some (t, q) → lo ≤ t) :
    DetOk lo n g p { d with subs := renewSubs d.subs sid L c due } := by
  refine ⟨?_, ?_, ?_, h.gen, h.ptask⟩
  · simp only [map_key_renew]; exact h.keys
  · simp only [map_sid_renew]; exact h.sids
  · intro x hx
    simp only [renewSubs, List.mem_map] at hx
    obtain ⟨y, hy, rfl⟩ := hx
    have hyok := h.subs y hy
    split
    · exact ⟨h1, h2, hyok.sid_lt⟩
    · exact hyok

theorem findSub_none_key {subs : List Sub} {a p : Nat} (h : findSub subs a p = none) :
    (a, p) ∉ subs.map key := by
  unfold findSub at h
  intro hm
  obtain ⟨c, hc, hk⟩ := List.mem_map.mp hm
  have := List.find?_eq_none.mp h c hc
  simp only [key, Prod.mk.injEq] at hk
  simp [hk.1, hk.2] at this

theorem findSub_some {subs : List Sub} {a p : Nat} {c : Sub} (h : findSub subs a p = some c) :
    c ∈ subs ∧ c.addr = a ∧ c.pid = p := by
  unfold findSub at h
  have h1 := List.mem_of_find?_eq_some h
  have h2 := List.find?_some h
  simp only [Bool.and_eq_true, beq_iff_eq] at h2
  exact ⟨h1, h2.1, h2.2⟩

theorem detOk_append {lo n g p : Nat} {d : Det} (h : DetOk lo n g p d) (c : Sub) (pt : Option (Nat × Nat))
    (hk : key c ∉ d.subs.map key) (hsid : c.sid = n) (hc : SubOk lo (n + 1) c)
    (hpt : ∀ t q, pt = some (t, q) → lo ≤ t ∧ p ≠ 0) :
    DetOk lo (n + 1) g p { d with subs := d.subs ++ [c], ptask := pt } := by
  refine ⟨?_, ?_, ?_, h.gen, hpt⟩
  · simp only [List.map_append, List.map_cons, List.map_nil]
    rw [List.nodup_append]
    refine ⟨h.keys, by simp, ?_⟩
    intro x hx y hy
    simp only [List.mem_singleton] at hy
    subst hy
    intro e; subst e; exact hk hx
  · simp only [List.map_append, List.map_cons, List.map_nil]
    rw [List.nodup_append]
    refine ⟨h.sids, by simp, ?_⟩
    intro x hx y hy
    simp only [List.mem_singleton] at hy
    subst hy
    obtain ⟨z, hz, rfl⟩ := List.mem_map.mp hx
    have := (h.subs z hz).sid_lt
    omega
  · intro x hx
    rcases List.mem_append.mp hx with hx | hx
    · exact (h.subs x hx).mono (Nat.le_refl _) (Nat.le_succ _)
    · simp only [List.mem_singleton] at hx
      subst hx; exact hc

theorem invAt_subscribe {lo : Nat} {s : State} (h : InvAt lo s) (hlo : lo ≤ s.now + 1)
    (a p o : Nat) (c : Option Bool) (l : Option Nat) : InvAt lo (subscribe s a p o c l).1 := by
  unfold subscribe
  simp only
  split
  · exact h
  · rename_i ob hfind
    have hob := (findObj_mem hfind).1
    have hfind' : s.objs.find? (fun ob => ob.id == o) = some ob := hfind
    split
    · exact h
    · split
      · exact h
      · rename_i d ng hmade
        obtain ⟨hd, hng⟩ := getDet_ok h hob hmade
        -- every object with identifier `o` is `ob`
        have huniq : ∀ x ∈ s.objs, x.id = o → x = ob := by
          intro x hx hxo
          have := find_of_mem h.1 hx hxo
          rw [hfind'] at this
          cases this; rfl
        split
        · rename_i cov hcov
          split
          · -- cancel an existing subscription
            unfold InvAt setObj; dsimp only
            refine invC_map h (Nat.le_refl _) hng (by intro _; rfl) ?_
            intro x hx hxo d' hd'
            cases huniq x hx hxo
            simp only at hd' ⊢
            split at hd'
            · cases hd'
            · cases hd'
              exact detOk_removeSid hd cov.sid
          · -- renew
            have harm := armLifetime_ok (s := s) hlo (l.getD 0)
            generalize armLifetime s (l.getD 0) = r at harm
            obtain ⟨due, seq⟩ := r
            simp only
            unfold InvAt setObj; dsimp only
            refine invC_map h (Nat.le_refl _) hng (by intro _; rfl) ?_
            intro x hx hxo d' hd'
            cases huniq x hx hxo
            simp only [Option.some.injEq] at hd'
            subst hd'
            exact detOk_renew hd _ _ _ _ harm.1 harm.2
        · rename_i hnone
          split
          · -- cancel without subscription: the detection object stays
            unfold InvAt setObj; dsimp only
            refine invC_map h (Nat.le_refl _) hng (by intro _; rfl) ?_
            intro x hx hxo d' hd'
            cases huniq x hx hxo
            simp only [Option.some.injEq] at hd'
            subst hd'
            exact hd
          · -- a new subscription
            have harm := armLifetime_ok (s := s) hlo (l.getD 0)
            generalize armLifetime s (l.getD 0) = r at harm
            obtain ⟨due, seq⟩ := r
            simp only
            split
            · rename_i hpulse
              simp only
              unfold InvAt setObj; dsimp only
              refine invC_map h (Nat.le_succ _) hng (by intro _; rfl) ?_
              intro x hx hxo d' hd'
              cases huniq x hx hxo
              simp only [Option.some.injEq] at hd'
              subst hd'
              simp only [Bool.and_eq_true, decide_eq_true_eq] at hpulse
              apply detOk_append hd _ _ (findSub_none_key hnone) rfl
              · exact ⟨harm.1, harm.2, Nat.lt_succ_self _⟩
              · intro t q e
                simp only [Option.some.injEq, Prod.mk.injEq] at e
                have := nextPeriodic_gt (now := s.now) hpulse.2
                exact ⟨by omega, hpulse.2⟩
            · simp only
              unfold InvAt setObj; dsimp only
              refine invC_map h (Nat.le_succ _) hng (by intro _; rfl) ?_
              intro x hx hxo d' hd'
              cases huniq x hx hxo
              simp only [Option.some.injEq] at hd'
              subst hd'
              apply detOk_append hd _ _ (findSub_none_key hnone) rfl
              · exact ⟨harm.1, harm.2, Nat.lt_succ_self _⟩
              · exact hd.ptask

end BacVerif.Cov
