/-
  C01 — the proof obligations on the tables REGENERATED from the live classes
  (`Gen/Enums.lean`).  Kept apart from `Props/C01.lean` only so that a changed table
  re-elaborates this small file and not the generic theorems; same namespace, and
  every theorem here is listed in `Audit/C01.lean`.
-/
import BacVerif.Props.C01
import BacVerif.Gen.Enums
namespace BacVerif.C01
open BacVerif

/-- kernel evaluation of the check over every table of `Gen/Enums.lean` -/
theorem all_take_drop {α} (l : List α) (n : Nat) (f : α → Bool)
    (h1 : (l.take n).all f = true) (h2 : (l.drop n).all f = true) : l.all f = true := by
  rw [← List.take_append_drop n l, List.all_append, h1, h2]; rfl

-- four chunks: independent theorems are checked in parallel
theorem gen_enums_checked_1 : ((Gen.Enums.enumTables.take 60).take 30).all (fun p => enumOK p.2) = true := by
  decide +kernel
theorem gen_enums_checked_2 : ((Gen.Enums.enumTables.take 60).drop 30).all (fun p => enumOK p.2) = true := by
  decide +kernel
theorem gen_enums_checked_3 : ((Gen.Enums.enumTables.drop 60).take 8).all (fun p => enumOK p.2) = true := by
  decide +kernel
theorem gen_enums_checked_4 : ((Gen.Enums.enumTables.drop 60).drop 8).all (fun p => enumOK p.2) = true := by
  decide +kernel

theorem gen_enums_checked : Gen.Enums.enumTables.all (fun p => enumOK p.2) = true :=
  all_take_drop _ 60 _ (all_take_drop _ 30 _ gen_enums_checked_1 gen_enums_checked_2)
    (all_take_drop _ 8 _ gen_enums_checked_3 gen_enums_checked_4)

/-- **gen_enums_ok** — every Enumerated subclass of the tree under test has
    pairwise different names, pairwise different values, all below 2^32. -/
theorem gen_enums_ok : ∀ p ∈ Gen.Enums.enumTables,
    NoDupNames p.2 ∧ NoDupValues p.2 ∧ ∀ q ∈ p.2, q.2 < 4294967296 := by
  intro p hp
  have := List.all_eq_true.mp gen_enums_checked p hp
  exact enumOK_sound p.2 this

/-- **gen_enum_roundtrip** — hence for every Enumerated subclass of the tree:
    every name round-trips to itself and every 32-bit number to itself. -/
theorem gen_enum_roundtrip : ∀ p ∈ Gen.Enums.enumTables, ∀ (a : EnumArg) (v : EnumVal),
    enumCtor p.2 a = .ok v → (∀ i, a = .int i → i < 4294967296) →
    ∃ t, enumEncode p.2 v = .ok t ∧ enumDecode p.2 t = .ok v := by
  intro p hp a v hc hb
  obtain ⟨hn, hv, hlt⟩ := gen_enums_ok p hp
  cases a with
  | int i =>
    obtain ⟨hi, hnum⟩ := enum_number_preserved p.2 hn i v hc
    exact enum_roundtrip p.2 hn hv _ v hc _ hnum (by have := hb i rfl; omega)
  | name s =>
    obtain ⟨_, n, hx, hnum⟩ := enum_name_number p.2 s v hc
    exact enum_roundtrip p.2 hn hv _ v hc n hnum (hlt _ (xlateName_mem p.2 s n hx))

/-- `_app_tag` of the thirteen live classes = the model's tag numbers -/
theorem gen_app_tags_ok : PrimTy.all.map PrimTy.appTag = Gen.Enums.genAppTags := by decide

/-- `ObjectIdentifier.maximum_instance_number` = the model's 22-bit limit -/
theorem gen_oid_max_ok : Gen.Enums.oidMaxInstance = 4194303 := by decide

/-- every named object type fits the 10-bit type field -/
theorem gen_object_types_ok :
    Gen.Enums.objectTypeTable.all (fun p => decide (p.2 < 1024)) = true := by decide +kernel

/-- the limits of the live Unsigned classes: low limit ≥ 0, high limit (if any) < 2^32 -/
theorem gen_unsigned_limits_ok :
    Gen.Enums.unsignedLimits.all (fun p =>
      decide (0 ≤ p.2.1) && (match p.2.2 with | none => true | some h => decide (h < 4294967296))) = true := by
  decide +kernel

theorem gen_bits_checked : Gen.Enums.bitTables.all (fun p => bitsOK p.2.1 p.2.2) = true := by
  decide +kernel

/-- **gen_bits_ok** — every BitString subclass of the tree under test: names
    pairwise different, positions pairwise different and below `bitLen`. -/
theorem gen_bits_ok : ∀ p ∈ Gen.Enums.bitTables,
    (p.2.2.map (·.1)).Nodup ∧ (p.2.2.map (·.2)).Nodup ∧ ∀ q ∈ p.2.2, q.2 < p.2.1 := by
  intro p hp
  have h := List.all_eq_true.mp gen_bits_checked p hp
  simp only [bitsOK, Bool.and_eq_true, List.all_eq_true, decide_eq_true_eq] at h
  exact ⟨Distinct.distinctNames_nodup _ h.1.1, Distinct.distinctNats_nodup _ h.1.2, h.2⟩


/-! ## non-vacuity on the live tables (tests of the statements) -/

-- the enumeration hypotheses are met by live tables with many entries, the bit-name ones too
example : Gen.Enums.enumTables.any (fun p => decide (p.2.length ≥ 50)) = true := by decide +kernel
example : Gen.Enums.enumTables.length ≥ 10 ∧ Gen.Enums.bitTables.any (fun p => decide (p.2.2.length ≥ 3)) = true := by
  decide +kernel

end BacVerif.C01
