/-
  Lemmas.Frame — facts about the octet getters of Model.Bytes shared by the
  frame-codec proofs (C08 network layer, C09 BVLL).  Core Lean only.

  Three families, each closed under the way the decoders compose getters:
  * round trip      `getX (putX v ++ rest) = ok (v, rest)`
  * `Ext dec`       a successful decode is unchanged by appending octets
                    (used for: "every strict prefix of a valid header is refused")
  * `OnlyDecoding`  the only failure is `Err.decoding`
-/
import BacVerif.Model.Bytes
namespace BacVerif.Frame
open BacVerif

/-! ## round trips -/

theorem toNat_ofNat_lt {n : Nat} (h : n < 256) : (UInt8.ofNat n).toNat = n := by
  simp; omega

theorem getU8_cons (n : Nat) (h : n < 256) (rest : Bytes) :
    getU8 (UInt8.ofNat n :: rest) = .ok (n, rest) := by
  simp [getU8]; omega

theorem getU16_be16 (n : Nat) (h : n < 65536) (rest : Bytes) :
    getU16 (be16 n ++ rest) = .ok (n, rest) := by
  simp [be16, getU16]; omega

theorem getU32_be32 (n : Nat) (h : n < 4294967296) (rest : Bytes) :
    getU32 (be32 n ++ rest) = .ok (n, rest) := by
  simp [be32, getU32]; omega

theorem getData_append (d rest : Bytes) : getData d.length (d ++ rest) = .ok (d, rest) := by
  simp [getData]

theorem getData_append' (d rest : Bytes) (n : Nat) (h : n = d.length) :
    getData n (d ++ rest) = .ok (d, rest) := by
  subst h; exact getData_append d rest

theorem be16_length (n : Nat) : (be16 n).length = 2 := rfl
theorem be32_length (n : Nat) : (be32 n).length = 4 := rfl

/-- `be16` is what `put_short` writes: the value masked to 16 bits -/
theorem be16_mod (n : Nat) : be16 (n % 65536) = be16 n := by
  simp [be16]; congr 1; omega

theorem beVal_be16 (n : Nat) : beVal (be16 n) = n % 65536 := by
  simp [beVal, be16]; omega

/-! ## what a successful getter returns -/

theorem getU8_ok {bs r : Bytes} {n : Nat} (h : getU8 bs = .ok (n, r)) :
    n < 256 ∧ ∃ b, bs = b :: r ∧ b.toNat = n := by
  cases bs with
  | nil => simp [getU8] at h
  | cons b bs =>
    simp only [getU8, Except.ok.injEq, Prod.mk.injEq] at h
    obtain ⟨rfl, rfl⟩ := h
    exact ⟨b.toNat_lt, b, rfl, rfl⟩

theorem getU16_ok {bs r : Bytes} {n : Nat} (h : getU16 bs = .ok (n, r)) :
    n < 65536 ∧ ∃ a b, bs = a :: b :: r ∧ a.toNat * 256 + b.toNat = n := by
  match bs, h with
  | a :: b :: rest, h =>
    simp only [getU16, Except.ok.injEq, Prod.mk.injEq] at h
    obtain ⟨rfl, rfl⟩ := h
    have := a.toNat_lt; have := b.toNat_lt
    exact ⟨by omega, a, b, rfl, rfl⟩

theorem getU32_ok {bs r : Bytes} {n : Nat} (h : getU32 bs = .ok (n, r)) :
    n < 4294967296 ∧ ∃ p, bs = p ++ r ∧ p.length = 4 := by
  match bs, h with
  | a :: b :: c :: d :: rest, h =>
    simp only [getU32, Except.ok.injEq, Prod.mk.injEq] at h
    obtain ⟨rfl, rfl⟩ := h
    have := a.toNat_lt; have := b.toNat_lt; have := c.toNat_lt; have := d.toNat_lt
    exact ⟨by omega, [a, b, c, d], rfl, rfl⟩

theorem getData_ok {bs d r : Bytes} {n : Nat} (h : getData n bs = .ok (d, r)) :
    bs = d ++ r ∧ d.length = n := by
  unfold getData at h
  split at h
  · simp at h
  · simp only [Except.ok.injEq, Prod.mk.injEq] at h
    obtain ⟨rfl, rfl⟩ := h
    refine ⟨(List.take_append_drop n bs).symm, ?_⟩
    simp; omega

/-! ## extension: appending octets does not disturb a successful decode -/

/-- a decoder for which trailing octets are passed through untouched -/
def Ext {α} (dec : Bytes → Except Err (α × Bytes)) : Prop :=
  ∀ (p s : Bytes) (a : α) (r : Bytes), dec p = .ok (a, r) → dec (p ++ s) = .ok (a, r ++ s)

theorem getU8_ext : Ext getU8 := by
  intro p s a r h
  obtain ⟨_, b, rfl, rfl⟩ := getU8_ok h
  simp [getU8]

theorem getU16_ext : Ext getU16 := by
  intro p s a r h
  obtain ⟨_, x, y, rfl, rfl⟩ := getU16_ok h
  simp [getU16]

theorem getU32_ext : Ext getU32 := by
  intro p s a r h
  match p, h with
  | a :: b :: c :: d :: rest, h =>
    simp only [getU32, Except.ok.injEq, Prod.mk.injEq] at h
    obtain ⟨rfl, rfl⟩ := h
    simp [getU32]

theorem getData_ext (n : Nat) : Ext (getData n) := by
  intro p s a r h
  obtain ⟨rfl, rfl⟩ := getData_ok h
  rw [List.append_assoc]
  exact getData_append a (r ++ s)

/-! ## the only failure is a decoding error -/

def OnlyDecoding {α} (dec : Bytes → Except Err α) : Prop :=
  ∀ (bs : Bytes) (e : Err), dec bs = .error e → e = .decoding

theorem getU8_err : OnlyDecoding getU8 := by
  intro bs e h
  cases bs with
  | nil => simp [getU8] at h; exact h.symm
  | cons b bs => simp [getU8] at h

theorem getU16_err : OnlyDecoding getU16 := by
  intro bs e h
  match bs, h with
  | [], h => simp [getU16] at h; exact h.symm
  | [_], h => simp [getU16] at h; exact h.symm
  | _ :: _ :: _, h => simp [getU16] at h

theorem getU32_err : OnlyDecoding getU32 := by
  intro bs e h
  match bs, h with
  | [], h => simp [getU32] at h; exact h.symm
  | [_], h => simp [getU32] at h; exact h.symm
  | [_, _], h => simp [getU32] at h; exact h.symm
  | [_, _, _], h => simp [getU32] at h; exact h.symm
  | _ :: _ :: _ :: _ :: _, h => simp [getU32] at h

theorem getData_err (n : Nat) : OnlyDecoding (getData n) := by
  intro bs e h
  unfold getData at h
  split at h
  · simp at h; exact h.symm
  · simp at h

/-- a getter fails exactly when the input is too short -/
theorem getU8_nil : getU8 [] = .error .decoding := rfl
theorem getData_short {n : Nat} {bs : Bytes} (h : bs.length < n) : getData n bs = .error .decoding := by
  simp [getData, h]

end BacVerif.Frame
