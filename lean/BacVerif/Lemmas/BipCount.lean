/-
  Lemmas.BipCount — what each kind of B/IP layer contributes to the progeny of a
  broadcast-carrying datagram, and the resulting totals for the three stock
  situations of BBMD forwarding (copy to a foreign device, local re-broadcast,
  unicast to a peer BBMD), for ARBITRARY node lists and tables.
-/
import BacVerif.Lemmas.BipHop
import BacVerif.Lemmas.BipFdt
namespace BacVerif.Bip

/-- the observation happened above the node with address `a` -/
def atNode (a : Addr) : Obs → Bool
  | .up n _ _ _ => n = a
  | .sap n _ _ => n = a
  | .err n _ => n = a

/-- weight `c` for every observation at node `a` (c = 1 counts deliveries, c = 0 counts nothing) -/
def poAt (a : Addr) (c : Nat) (ob : Obs) : Nat := if atNode a ob then c else 0

def hit (a y : Addr) (c : Nat) : Nat := if y = a then c else 0

def Node.isSimple (x : Node) : Bool := match x.st with | .simple => true | _ => false
def Node.isForeign (x : Node) : Bool := match x.st with | .foreign _ => true | _ => false
def Node.isBbmd (x : Node) : Bool := x.st.isBbmd

/-- `x` is a foreign device that hands up what BBMD `b` forwards to it -/
def Node.accepts (x : Node) (b : Addr) : Bool :=
  match x.st with
  | .foreign f => decide (f.status = 0 ∧ f.bbmd = some b)
  | _ => false

def Bbmd.selfListed (b : Bbmd) : Bool := b.bdt.any fun e => e.addr = b.addr

/-! ### what the multiplexer makes of output lists -/

theorem outObs_append (a : Addr) (l1 l2 : List Out) :
    outObs a (l1 ++ l2) = outObs a l1 ++ outObs a l2 := by
  induction l1 with
  | nil => rfl
  | cons o r ih =>
    cases o with
    | send dd m => cases dd <;> simp [outObs, ih]
    | up _ _ _ => simp [outObs, ih]
    | sap _ _ => simp [outObs, ih]
    | warn => simp [outObs, ih]
    | raised _ => simp [outObs, ih]

theorem outDgrams_append (n : Net) (a : Addr) (l1 l2 : List Out) :
    outDgrams n a (l1 ++ l2) = outDgrams n a l1 ++ outDgrams n a l2 := by
  induction l1 with
  | nil => rfl
  | cons o r ih =>
    cases o with
    | send dd m => cases dd <;> simp [outDgrams, ih]
    | up _ _ _ => simp [outDgrams, ih]
    | sap _ _ => simp [outDgrams, ih]
    | warn => simp [outDgrams, ih]
    | raised _ => simp [outDgrams, ih]

theorem outObs_toFdt (a : Addr) (fdt : List FdtEntry) (m : Bvll) : outObs a (toFdt fdt m) = [] := by
  induction fdt with
  | nil => rfl
  | cons e r ih => simpa [toFdt, outObs] using ih

theorem outDgrams_toFdt (n : Net) (a : Addr) (fdt : List FdtEntry) (m : Bvll) :
    outDgrams n a (toFdt fdt m) = fdt.map fun e => ⟨n.id, a, e.addr, m⟩ := by
  induction fdt with
  | nil => rfl
  | cons e r ih => simpa [toFdt, outDgrams] using ih

theorem outObs_toPeers (a : Addr) (b : Bbmd) (m : Bvll) : outObs a (toPeers b m) = [] := by
  unfold toPeers
  generalize b.bdt.filter (fun e => e.addr ≠ b.addr) = l
  induction l with
  | nil => rfl
  | cons e r ih => simpa [outObs] using ih

theorem outDgrams_toPeers (n : Net) (a : Addr) (b : Bbmd) (m : Bvll) :
    outDgrams n a (toPeers b m) =
      (b.bdt.filter fun e => e.addr ≠ b.addr).map fun e => ⟨n.id, a, dirBcast e, m⟩ := by
  unfold toPeers
  generalize b.bdt.filter (fun e => e.addr ≠ b.addr) = l
  induction l with
  | nil => rfl
  | cons e r ih => simpa [outDgrams] using ih

theorem outObs_toPeersAndSelf (a : Addr) (b : Bbmd) (m : Bvll) :
    outObs a (toPeersAndSelf b m) = [] := by
  unfold toPeersAndSelf
  generalize b.bdt = l
  induction l with
  | nil => rfl
  | cons e r ih =>
    simp only [List.map_cons]
    split <;> simpa [outObs] using ih

theorem outDgrams_toPeersAndSelf (n : Net) (a : Addr) (b : Bbmd) (m : Bvll) :
    outDgrams n a (toPeersAndSelf b m) =
      b.bdt.map fun e => if e.addr = b.addr then ⟨n.id, a, n.bcast, m⟩ else ⟨n.id, a, dirBcast e, m⟩ := by
  unfold toPeersAndSelf
  generalize b.bdt = l
  induction l with
  | nil => rfl
  | cons e r ih =>
    simp only [List.map_cons]
    split <;> simpa [outDgrams] using ih

/-! ### reactions, as contributions `nodeT` with the weight `poAt a c` -/

section react
variable (pd : Dgram → Nat) (f : Nat) (w : World) (n : Net) (a : Addr) (c : Nat)

theorem nodeT_simple_fwd (y s o : Addr) (dd : Dest) (x : Data) :
    nodeT (poAt a c) pd f w n s dd (.forwarded o x) ⟨y, .simple⟩ = hit a y c := by
  simp [nodeT, Kind.up, simpleUp, outObs, outDgrams, poAt, atNode, tot_nil, hit]

theorem nodeT_simple_ob (y s : Addr) (dd : Dest) (x : Data) :
    nodeT (poAt a c) pd f w n s dd (.origBroadcast x) ⟨y, .simple⟩ = hit a y c := by
  simp [nodeT, Kind.up, simpleUp, outObs, outDgrams, poAt, atNode, tot_nil, hit]

theorem nodeT_foreign_fwd (y s o : Addr) (dd : Dest) (x : Data) (fs : Foreign) :
    nodeT (poAt a c) pd f w n s dd (.forwarded o x) ⟨y, .foreign fs⟩ =
      if fs.status = 0 ∧ fs.bbmd = some s then hit a y c else 0 := by
  simp only [nodeT, Kind.up, foreignUp]
  by_cases h1 : fs.status = 0
  · by_cases h2 : fs.bbmd = some s
    · have : ¬ (some s ≠ fs.bbmd) := by simp [h2]
      simp [h1, h2, outObs, outDgrams, poAt, atNode, tot_nil, hit]
    · have : some s ≠ fs.bbmd := fun h => h2 h.symm
      simp [h1, h2, this, outObs, outDgrams, tot_nil]
  · simp [h1, outObs, outDgrams, tot_nil]

theorem nodeT_foreign_ob (y s : Addr) (dd : Dest) (x : Data) (fs : Foreign) :
    nodeT (poAt a c) pd f w n s dd (.origBroadcast x) ⟨y, .foreign fs⟩ = 0 := by
  simp [nodeT, Kind.up, foreignUp, outObs, outDgrams, tot_nil]

/-- a BBMD receiving a Forwarded-NPDU by unicast: up, local re-broadcast if self-listed, FDT copies -/
theorem nodeT_bbmd_fwd_unicast (y s o t : Addr) (x : Data) (b : Bbmd) (hup : b.hasUpper = true) :
    nodeT (poAt a c) pd f w n s (.station t) (.forwarded o x) ⟨y, .bbmd b⟩ =
      hit a y c
      + (if b.selfListed then tot (poAt a c) pd f w [⟨n.id, y, n.bcast, .forwarded o x⟩] else 0)
      + (b.fdt.map fun e => tot (poAt a c) pd f w [⟨n.id, y, e.addr, .forwarded o x⟩]).sum := by
  simp only [nodeT, Kind.up, bbmdUp, upIf, hup, if_true, outObs_append, outDgrams_append,
    outObs_toFdt, outDgrams_toFdt, List.map_append, List.sum_append, tot_append, tot_map,
    Bbmd.selfListed]
  by_cases hs : (b.bdt.any fun e => decide (e.addr = b.addr)) = true
  · simp [hs, outObs, outDgrams, poAt, atNode, hit, tot_nil] <;> omega
  · simp [hs, outObs, outDgrams, poAt, atNode, hit, tot_nil]

/-- … by (directed) broadcast: up and FDT copies only -/
theorem nodeT_bbmd_fwd_bcast (y s o : Addr) (x : Data) (b : Bbmd) (hup : b.hasUpper = true) :
    nodeT (poAt a c) pd f w n s .bcast (.forwarded o x) ⟨y, .bbmd b⟩ =
      hit a y c + (b.fdt.map fun e => tot (poAt a c) pd f w [⟨n.id, y, e.addr, .forwarded o x⟩]).sum := by
  simp [nodeT, Kind.up, bbmdUp, upIf, hup, outObs_append, outDgrams_append,
    outObs_toFdt, outDgrams_toFdt, tot_append, tot_map, outObs, outDgrams, poAt, atNode, hit, tot_nil]

/-- a BBMD hearing an Original-Broadcast: up, Forwarded-NPDU to every peer, FDT copies -/
theorem nodeT_bbmd_ob (y s : Addr) (dd : Dest) (x : Data) (b : Bbmd) (hup : b.hasUpper = true) :
    nodeT (poAt a c) pd f w n s dd (.origBroadcast x) ⟨y, .bbmd b⟩ =
      hit a y c
      + ((b.bdt.filter fun e => e.addr ≠ b.addr).map fun e =>
          tot (poAt a c) pd f w [⟨n.id, y, dirBcast e, .forwarded s x⟩]).sum
      + (b.fdt.map fun e => tot (poAt a c) pd f w [⟨n.id, y, e.addr, .forwarded s x⟩]).sum := by
  simp [nodeT, Kind.up, bbmdUp, upIf, hup, outObs_append, outDgrams_append,
    outObs_toFdt, outDgrams_toFdt, outObs_toPeers, outDgrams_toPeers, tot_append, tot_map,
    outObs, outDgrams, poAt, atNode, hit, tot_nil] <;> omega

/-- a BBMD receiving a Distribute-Broadcast-To-Network -/
theorem nodeT_bbmd_dist (y s : Addr) (dd : Dest) (x : Data) (b : Bbmd) (hup : b.hasUpper = true) :
    nodeT (poAt a c) pd f w n s dd (.distribute x) ⟨y, .bbmd b⟩ =
      hit a y c
      + (b.bdt.map fun e => tot (poAt a c) pd f w
          [if e.addr = b.addr then ⟨n.id, y, n.bcast, .forwarded s x⟩
           else ⟨n.id, y, dirBcast e, .forwarded s x⟩]).sum
      + ((b.fdt.filter fun e => e.addr ≠ s).map fun e =>
          tot (poAt a c) pd f w [⟨n.id, y, e.addr, .forwarded s x⟩]).sum := by
  simp [nodeT, Kind.up, bbmdUp, upIf, hup, outObs_append, outDgrams_append,
    outObs_toFdt, outDgrams_toFdt, outObs_toPeersAndSelf, outDgrams_toPeersAndSelf, tot_append,
    tot_map, outObs, outDgrams, poAt, atNode, hit, tot_nil] <;> omega

end react

/-! ### sums over keyed lists -/

theorem sum_key_indicator {α κ} [DecidableEq κ] (key : α → κ) (k : κ) (v : Nat) :
    ∀ (l : List α), (l.map key).Nodup →
      (l.map fun e => if key e = k then v else 0).sum = if k ∈ l.map key then v else 0 := by
  intro l
  induction l with
  | nil => intro _; rfl
  | cons e r ih =>
    intro h
    simp only [List.map_cons, List.nodup_cons] at h
    simp only [List.map_cons, List.sum_cons, ih h.2, List.mem_cons]
    by_cases hk : key e = k
    · have : k ∉ r.map key := hk ▸ h.1
      simp [hk, this]
    · have : ¬ k = key e := fun h' => hk h'.symm
      simp [hk, this]

/-! ### populations -/

/-- a BBMD node: own address, upper layer bound, duplicate-free tables; every BDT entry names a
    BBMD node and is either TWO-HOP (the datagram goes to that BBMD itself: `dirBcast e = e.addr`,
    e.g. an all-ones mask) or ONE-HOP (it goes to the broadcast address of that BBMD's subnet, and
    the router port of that subnet accepts its broadcast address — "routers forward directed
    broadcasts"); FDT entries name foreign-device nodes -/
def BbmdOk (w : World) (n : Net) (nd : Node) : Prop :=
  match nd.st with
  | .bbmd b =>
      b.addr = nd.addr ∧ b.hasUpper = true ∧ (b.bdt.map (·.addr)).Nodup ∧ FdtNodup b.fdt ∧
      (∀ e ∈ b.bdt, ∃ nc ∈ w.nets, ∃ cn ∈ nc.nodes, cn.addr = e.addr ∧ cn.isBbmd = true ∧
          (dirBcast e = e.addr ∨ (dirBcast e = nc.bcast ∧ nc.covers nc.bcast = true))) ∧
      (∀ e ∈ b.fdt, ∃ nf ∈ w.nets, ∃ y ∈ nf.nodes, y.addr = e.addr ∧ y.isForeign = true) ∧
      n.id = n.id
  | _ => True

instance (w : World) (n : Net) (nd : Node) : Decidable (BbmdOk w n nd) := by
  unfold BbmdOk; split <;> exact inferInstance

/-- the population hypotheses of the distribution theorems (all decidable):
    every BBMD is `BbmdOk`; at most one BBMD per subnet -/
def Pop (w : World) : Prop :=
  (∀ n ∈ w.nets, ∀ nd ∈ n.nodes, BbmdOk w n nd) ∧
  (∀ n ∈ w.nets, ∀ y ∈ n.nodes, ∀ z ∈ n.nodes, y.isBbmd = true → z.isBbmd = true → y = z)

instance (w : World) : Decidable (Pop w) := by unfold Pop; exact inferInstance

theorem dirBcast_full (e : BdtEntry) (hm : e.mask = 4294967295) (hip : e.addr.ip < 4294967296) :
    dirBcast e = e.addr := by
  unfold dirBcast
  rw [hm]
  have : (4294967295 - 4294967295 % 4294967296) = 0 := by decide
  rw [this, Nat.or_zero, Nat.mod_eq_of_lt hip]

section pop
variable {w : World} (hw : WF w) (hp : Pop w) (pd : Dgram → Nat) (c : Nat)
variable {nx : Net} (hnx : nx ∈ w.nets) {x : Node} (hx : x ∈ nx.nodes)
include hw hnx hx

/-- summing a per-node weight that is non-zero only at the target's address -/
theorem sum_nodes_at {n : Net} (hn : n ∈ w.nets) (g : Node → Nat) :
    (n.nodes.map fun nd => if nd.addr = x.addr then g nd else 0).sum =
      if nx.id = n.id then g x else 0 := by
  by_cases hid : nx.id = n.id
  · have := hw.net_eq hnx hn hid
    subst this
    simp only [if_true]
    rw [sum_unique _ nx.nodes x hx (nodup_of_map _ _ (hw.nodes_nodup hnx))]
    · simp
    · intro z hz hzx
      have : z.addr ≠ x.addr := fun h => hzx (hw.node_eq hnx hnx hz hx h)
      simp [this]
  · simp only [hid, if_false]
    apply sum_none
    intro z hz
    have : z.addr ≠ x.addr := fun h => hid (congrArg Net.id (hw.node_net hn hnx hz hx h)).symm
    simp [this]

include hp

/-- **copy to a foreign device**: a BBMD's Forwarded-NPDU to an FDT entry is handed up there
    iff that device is registered (status 0) with this very BBMD — wherever the device sits -/
theorem tot_fdt_copy {n : Net} (hn : n ∈ w.nets) {B : Node} (hB : B ∈ n.nodes)
    (e : Addr) (hent : ∃ nf ∈ w.nets, ∃ y ∈ nf.nodes, y.addr = e ∧ y.isForeign = true)
    (o : Addr) (data : Data) (f : Nat) :
    tot (poAt x.addr c) pd (f + 2) w [⟨n.id, B.addr, e, .forwarded o data⟩] =
      if e = x.addr ∧ x.accepts B.addr = true then c else 0 := by
  obtain ⟨nf, hnf, y, hy, hye, hyf⟩ := hent
  subst hye
  obtain ⟨g, _, hg⟩ := tot_unicast hw (poAt x.addr c) pd hn hnf hB hy B.addr (.forwarded o data) f
  rw [hg]
  obtain ⟨ya, yst⟩ := y
  cases yst with
  | foreign fs =>
    rw [nodeT_foreign_fwd]
    by_cases hax : ya = x.addr
    · have hyx : (⟨ya, .foreign fs⟩ : Node) = x := hw.node_eq hnf hnx hy hx hax
      subst hyx
      simp [Node.accepts, hit]
    · simp [hit, hax]
  | simple => simp [Node.isForeign] at hyf
  | bbmd _ => simp [Node.isForeign] at hyf

/-- all FDT copies of one BBMD together -/
theorem tot_fdt_sum {n : Net} (hn : n ∈ w.nets) {B : Node} (hB : B ∈ n.nodes)
    (fdt : List FdtEntry) (hnd : FdtNodup fdt)
    (hent : ∀ e ∈ fdt, ∃ nf ∈ w.nets, ∃ y ∈ nf.nodes, y.addr = e.addr ∧ y.isForeign = true)
    (o : Addr) (data : Data) (f : Nat) :
    (fdt.map fun e => tot (poAt x.addr c) pd (f + 2) w [⟨n.id, B.addr, e.addr, .forwarded o data⟩]).sum =
      if x.addr ∈ fdt.map (·.addr) ∧ x.accepts B.addr = true then c else 0 := by
  have h1 : (fdt.map fun e => tot (poAt x.addr c) pd (f + 2) w [⟨n.id, B.addr, e.addr, .forwarded o data⟩]) =
      fdt.map fun e => if e.addr = x.addr then (if x.accepts B.addr = true then c else 0) else 0 := by
    apply List.map_congr_left
    intro e he
    rw [tot_fdt_copy hw hp pd c hnx hx hn hB e.addr (hent e he)]
    by_cases h : e.addr = x.addr <;> simp [h]
  rw [h1, sum_key_indicator (fun e : FdtEntry => e.addr) x.addr _ fdt hnd]
  by_cases h : x.addr ∈ fdt.map (·.addr) <;> simp [h]

/-- **local re-broadcast** of a Forwarded-NPDU by the BBMD of a subnet: the ordinary nodes of
    that subnet hand it up — and so does a foreign device that sits there although it is
    registered with this very BBMD (the misconfiguration: it will ALSO get its FDT copy) -/
theorem tot_local_fwd {n : Net} (hn : n ∈ w.nets) {B : Node} (hB : B ∈ n.nodes) (hBb : B.isBbmd = true)
    (o : Addr) (data : Data) (f : Nat) :
    tot (poAt x.addr c) pd (f + 1) w [⟨n.id, B.addr, n.bcast, .forwarded o data⟩] =
      (if nx.id = n.id ∧ x.addr ≠ B.addr ∧ x.isSimple = true then c else 0)
      + (if nx.id = n.id ∧ x.accepts B.addr = true then c else 0) := by
  rw [tot_bcast hw _ pd hn]
  have h1 : (n.nodes.map fun nd => if nd.addr ≠ B.addr then
        nodeT (poAt x.addr c) pd f w n B.addr .bcast (.forwarded o data) nd else 0) =
      n.nodes.map fun nd => if nd.addr = x.addr then
        ((if nd.addr ≠ B.addr ∧ nd.isSimple = true then c else 0)
          + (if nd.accepts B.addr = true then c else 0)) else 0 := by
    apply List.map_congr_left
    intro nd hnd
    by_cases hne : nd.addr = B.addr
    · have : nd = B := hw.node_eq hn hn hnd hB hne
      subst this
      have : nd.accepts nd.addr = false := by
        obtain ⟨a, st⟩ := nd
        cases st <;> simp_all [Node.accepts, Node.isBbmd, Kind.isBbmd]
      simp [this]
    · simp only [ne_eq, hne, not_false_eq_true, if_true, true_and]
      obtain ⟨ya, yst⟩ := nd
      cases yst with
      | simple =>
        rw [nodeT_simple_fwd]
        simp [hit, Node.isSimple, Node.accepts]
      | foreign fs =>
        rw [nodeT_foreign_fwd]
        by_cases hacc : fs.status = 0 ∧ fs.bbmd = some B.addr
        · simp [hacc, hit, Node.isSimple, Node.accepts]
        · simp [hacc, Node.isSimple, Node.accepts]
      | bbmd b =>
        exact absurd (congrArg Node.addr (hp.2 n hn _ hnd B hB rfl hBb)) hne
  rw [h1, sum_nodes_at hw hnx hx hn]
  by_cases hid : nx.id = n.id <;> simp [hid]

/-- **one-hop arrival**: a Forwarded-NPDU of sender `sa` (a node of another subnet) sent to the
    broadcast address of subnet `nc`: every node there that is not a foreign device hands it up,
    a foreign device there does iff it is registered with the SENDER, and the subnet's BBMD adds
    its FDT copies (it does not re-broadcast what arrived as a broadcast) -/
theorem tot_directed_fwd {n : Net} (hn : n ∈ w.nets) {B : Node} (hB : B ∈ n.nodes)
    {nc : Net} (hnc : nc ∈ w.nets) (hne : n.id ≠ nc.id) (hcov : nc.covers nc.bcast = true)
    {ca : Addr} {cb : Bbmd} (hC : (⟨ca, .bbmd cb⟩ : Node) ∈ nc.nodes)
    (hup : cb.hasUpper = true) (hfn : FdtNodup cb.fdt)
    (hfd : ∀ e ∈ cb.fdt, ∃ nf ∈ w.nets, ∃ y ∈ nf.nodes, y.addr = e.addr ∧ y.isForeign = true)
    (o : Addr) (data : Data) (f : Nat) :
    tot (poAt x.addr c) pd (f + 4) w [⟨n.id, B.addr, nc.bcast, .forwarded o data⟩] =
      (if nx.id = nc.id ∧ x.isForeign = false then c else 0)
      + (if x.addr ∈ cb.fdt.map (·.addr) ∧ x.accepts ca = true then c else 0)
      + (if nx.id = nc.id ∧ x.accepts B.addr = true then c else 0) := by
  rw [show f + 4 = (f + 2) + 2 from rfl, tot_directed hw _ pd hn hnc hne hcov hB]
  have hsrc : ∀ nd ∈ nc.nodes, nd.addr ≠ B.addr := by
    intro nd hnd h
    exact hne (congrArg Net.id (hw.node_net hnc hn hnd hB h)).symm
  have h1 : (nc.nodes.map fun nd => if nd.addr ≠ B.addr then
        nodeT (poAt x.addr c) pd (f + 2) w nc B.addr .bcast (.forwarded o data) nd else 0) =
      nc.nodes.map fun nd =>
        (if nd.addr = x.addr then
          ((if nd.isForeign = false then c else 0) + (if nd.accepts B.addr = true then c else 0)) else 0)
        + (if nd.isBbmd = true then
            (if x.addr ∈ cb.fdt.map (·.addr) ∧ x.accepts ca = true then c else 0) else 0) := by
    apply List.map_congr_left
    intro nd hnd
    simp only [ne_eq, hsrc nd hnd, not_false_eq_true, if_true]
    obtain ⟨ya, yst⟩ := nd
    cases yst with
    | simple =>
      rw [nodeT_simple_fwd]
      simp [hit, Node.isForeign, Node.accepts, Node.isBbmd, Kind.isBbmd]
    | foreign fs =>
      rw [nodeT_foreign_fwd]
      by_cases hacc : fs.status = 0 ∧ fs.bbmd = some B.addr
      · simp [hacc, hit, Node.isForeign, Node.accepts, Node.isBbmd, Kind.isBbmd]
      · simp [hacc, Node.isForeign, Node.accepts, Node.isBbmd, Kind.isBbmd]
    | bbmd b =>
      have hbc : (⟨ya, .bbmd b⟩ : Node) = ⟨ca, .bbmd cb⟩ := hp.2 nc hnc _ hnd _ hC rfl rfl
      cases hbc
      rw [nodeT_bbmd_fwd_bcast _ _ _ _ _ _ _ _ _ _ _ hup,
        tot_fdt_sum hw hp pd c hnx hx hnc hC cb.fdt hfn hfd o data f]
      simp [hit, Node.isForeign, Node.accepts, Node.isBbmd, Kind.isBbmd]
  rw [h1, sum_map_add, sum_nodes_at hw hnx hx hnc]
  have h2 : (nc.nodes.map fun nd => if nd.isBbmd = true then
        (if x.addr ∈ cb.fdt.map (·.addr) ∧ x.accepts ca = true then c else 0) else 0).sum =
      (if x.addr ∈ cb.fdt.map (·.addr) ∧ x.accepts ca = true then c else 0) := by
    rw [sum_unique _ nc.nodes _ hC (nodup_of_map _ _ (hw.nodes_nodup hnc))]
    · simp [Node.isBbmd, Kind.isBbmd]
    · intro z hz hzC
      have : ¬ z.isBbmd = true := fun hb => hzC (hp.2 nc hnc z hz _ hC hb rfl)
      simp [this]
  rw [h2]
  by_cases hid : nx.id = nc.id
  · simp only [hid, true_and, if_true]
    omega
  · simp [hid]

end pop

end BacVerif.Bip
