/-
  Lemmas.TsmStep — every entry point of the access point preserves `Inv` and
  touches only the transaction its key selects (`Touch`).
-/
import BacVerif.Lemmas.TsmInv
namespace BacVerif.Tsm
set_option linter.unusedSimpArgs false
set_option linter.unusedVariables false

variable {cfg : Cfg}

/-- what every keyed entry point guarantees -/
structure Spec (k : Key) (s s' : Sap) (outs : List Out) : Prop where
  inv : Inv s'
  touch : Touch k s s' outs

/-! ### dispatch to an existing transaction -/

theorem toClient_spec (hpos : cfg.TimeoutsPos) {s : Sap} (hinv : Inv s) {k : Key} {a : Apdu}
    (hid : a.invokeId = k.id) :
    Spec k s (toClient cfg s k a).1 (toClient cfg s k a).2 ∧
    (toClient cfg s k a).1.servers = s.servers ∧ (toClient cfg s k a).1.nextId = s.nextId ∧
    (toClient cfg s k a).1.devInfo = s.devInfo := by
  unfold toClient
  cases hf : findTxn k s.clients with
  | none => exact ⟨⟨hinv, Touch.refl k s⟩, rfl, rfl, rfl⟩
  | some t =>
    obtain ⟨hmem, hkey⟩ := findTxn_some hf
    have hok := hinv.cOk t hmem
    subst hkey
    refine ⟨⟨?_, ?_⟩, rfl, rfl, rfl⟩
    · apply hinv.updClient
      intro b' hb'
      exact clientConfirmation_ok hpos hok hid (Prod.ext hb' rfl)
    · exact ⟨SameExcept.upd _ _ _, SameExcept.rfl, clientConfirmation_attr hok hid, rfl, rfl⟩

theorem toServer_spec (hpos : cfg.TimeoutsPos) {s : Sap} (hinv : Inv s) {k : Key} {a : Apdu}
    (hid : a.invokeId = k.id) :
    Spec k s (toServer cfg s k a).1 (toServer cfg s k a).2 ∧
    (toServer cfg s k a).1.clients = s.clients ∧ (toServer cfg s k a).1.nextId = s.nextId ∧
    (toServer cfg s k a).1.devInfo = s.devInfo := by
  unfold toServer
  cases hf : findTxn k s.servers with
  | none => exact ⟨⟨hinv, Touch.refl k s⟩, rfl, rfl, rfl⟩
  | some t =>
    obtain ⟨hmem, hkey⟩ := findTxn_some hf
    have hok := hinv.sOk t hmem
    subst hkey
    refine ⟨⟨?_, ?_⟩, rfl, rfl, rfl⟩
    · apply hinv.updServer
      intro b' hb'
      exact serverIndication_ok hpos hok hid (Prod.ext hb' rfl)
    · exact ⟨SameExcept.rfl, SameExcept.upd _ _ _, serverIndication_attr hok hid, rfl, rfl⟩

/-! ### the application answers -/

theorem smapResponse_spec (hpos : cfg.TimeoutsPos) {s : Sap} (hinv : Inv s) (peer : Peer) (a : Apdu) :
    Spec ⟨peer, a.invokeId⟩ s (smapResponse cfg s peer a).1 (smapResponse cfg s peer a).2 ∧
    (smapResponse cfg s peer a).1.clients = s.clients ∧
    (smapResponse cfg s peer a).1.nextId = s.nextId ∧
    (smapResponse cfg s peer a).1.devInfo = s.devInfo := by
  unfold smapResponse
  split
  · dsimp only
    cases hf : findTxn ⟨peer, a.invokeId⟩ s.servers with
    | none => exact ⟨⟨hinv, Touch.refl _ s⟩, rfl, rfl, rfl⟩
    | some t =>
      obtain ⟨hmem, hkey⟩ := findTxn_some hf
      have hok := hinv.sOk t hmem
      have hid : a.invokeId = t.key.id := by rw [hkey]
      dsimp only
      rw [← hkey]
      refine ⟨⟨?_, ?_⟩, rfl, rfl, rfl⟩
      · apply hinv.updServer
        intro b' hb'
        exact serverConfirmation_ok hpos hok hid (Prod.ext hb' rfl)
      · exact ⟨SameExcept.rfl, SameExcept.upd _ _ _, serverConfirmation_attr hid, rfl, rfl⟩
  · refine ⟨⟨hinv, ⟨SameExcept.rfl, SameExcept.rfl, ?_, rfl, rfl⟩⟩, rfl, rfl, rfl⟩
    simp

/-! ### an APDU arrives -/

theorem newBody_ctx (cfg : Cfg) (s : Sap) (p : Peer) : (newBody cfg s p).ctx = none := rfl

@[simp] theorem withDI_now (s : Sap) (p : Peer) (d : Option DeviceInfo) : (s.withDI p d).now = s.now := by
  cases d <;> rfl
@[simp] theorem withDI_nextId (s : Sap) (p : Peer) (d : Option DeviceInfo) :
    (s.withDI p d).nextId = s.nextId := by cases d <;> rfl
@[simp] theorem withDI_clients (s : Sap) (p : Peer) (d : Option DeviceInfo) :
    (s.withDI p d).clients = s.clients := by cases d <;> rfl
@[simp] theorem withDI_servers (s : Sap) (p : Peer) (d : Option DeviceInfo) :
    (s.withDI p d).servers = s.servers := by cases d <;> rfl
@[simp] theorem withDI_dcc (s : Sap) (p : Peer) (d : Option DeviceInfo) : (s.withDI p d).dcc = s.dcc := by
  cases d <;> rfl

theorem serverCreate_spec (hpos : cfg.TimeoutsPos) {s : Sap} (hinv : Inv s) {k : Key} {a : Apdu}
    (hid : a.invokeId = k.id) (hfresh : ∀ t ∈ s.servers, t.key ≠ k) :
    Spec k s (serverCreate cfg s k a).1 (serverCreate cfg s k a).2 ∧
    (serverCreate cfg s k a).1.clients = s.clients ∧
    (serverCreate cfg s k a).1.nextId = s.nextId := by
  unfold serverCreate
  dsimp only
  generalize promote a.sa (heldDI s k (newBody cfg s k.peer)) = di
  have hinv1 : Inv (s.withDI k.peer di) := hinv.congr (by simp) (by simp) (by simp)
  have hattr := serverIdle_attr (cfg := cfg) (now := s.now) (di := di) (k := k)
    (b := newBody cfg s k.peer) (a := a) hid
  cases hidle : serverIdle cfg s.now di k (newBody cfg s k.peer) a with
  | mk r outs =>
    rw [hidle] at hattr
    cases r with
    | none =>
      refine ⟨⟨hinv1, ⟨?_, ?_, hattr, ?_, ?_⟩⟩, ?_, ?_⟩ <;> simp [SameExcept.rfl]
    | some b' =>
      have hok := serverIdle_ok hpos hid (newBody_ctx cfg s k.peer) hidle
      refine ⟨⟨?_, ⟨?_, ?_, hattr, ?_, ?_⟩⟩, ?_, ?_⟩
      · exact hinv1.appServer (by simpa using hfresh) hok
      · simp [SameExcept.rfl]
      · show SameExcept k s.servers ((s.withDI k.peer di).servers ++ _)
        rw [withDI_servers]; exact SameExcept.app _ _ _
      · simp
      · simp
      · simp
      · simp

theorem clientCreate_spec (hpos : cfg.TimeoutsPos) {s : Sap} (hinv : Inv s) {k : Key}
    (service : Nat) (data : Bytes) (hfresh : ∀ t ∈ s.clients, t.key ≠ k) :
    Spec k s (clientCreate cfg s k service data).1 (clientCreate cfg s k service data).2 ∧
    (clientCreate cfg s k service data).1.servers = s.servers ∧
    (clientCreate cfg s k service data).1.nextId = s.nextId := by
  unfold clientCreate
  dsimp only
  have hattr := clientIndication_attr (cfg := cfg) (now := s.now)
    (di := heldDI s k (newBody cfg s k.peer)) (k := k) (b := newBody cfg s k.peer)
    (req := { ty := 0, service := service, invokeId := k.id, data := data }) rfl
  cases hind : clientIndication cfg s.now (heldDI s k (newBody cfg s k.peer)) k
      (newBody cfg s k.peer) { ty := 0, service := service, invokeId := k.id, data := data } with
  | mk r outs =>
    rw [hind] at hattr
    cases r with
    | none => exact ⟨⟨hinv, ⟨SameExcept.rfl, SameExcept.rfl, hattr, rfl, rfl⟩⟩, rfl, rfl⟩
    | some b' =>
      have hok := clientIndication_ok hpos (k := k) rfl hind
      exact ⟨⟨hinv.appClient hfresh hok,
        ⟨SameExcept.app _ _ _, SameExcept.rfl, hattr, rfl, rfl⟩⟩, rfl, rfl⟩

theorem smapConfirmation_spec (hpos : cfg.TimeoutsPos) {s : Sap} (hinv : Inv s) (peer : Peer)
    (a : Apdu) :
    Spec ⟨peer, a.invokeId⟩ s (smapConfirmation cfg s peer a).1 (smapConfirmation cfg s peer a).2 ∧
    (smapConfirmation cfg s peer a).1.nextId = s.nextId := by
  have hC := toClient_spec hpos hinv (k := ⟨peer, a.invokeId⟩) (a := a) rfl
  have hS := toServer_spec hpos hinv (k := ⟨peer, a.invokeId⟩) (a := a) rfl
  unfold smapConfirmation
  split
  · exact ⟨⟨hinv, Touch.refl _ s⟩, rfl⟩
  · dsimp only
    split
    · -- confirmed request
      cases hf : findTxn ⟨peer, a.invokeId⟩ s.servers with
      | some t =>
        obtain ⟨hmem, hkey⟩ := findTxn_some hf
        have hok := hinv.sOk t hmem
        have hid : a.invokeId = t.key.id := by rw [hkey]
        dsimp only
        rw [← hkey]
        refine ⟨⟨?_, ?_⟩, rfl⟩
        · apply hinv.updServer
          intro b' hb'
          exact serverIndication_ok hpos hok hid (Prod.ext hb' rfl)
        · exact ⟨SameExcept.rfl, SameExcept.upd _ _ _, serverIndication_attr hok hid, rfl, rfl⟩
      | none =>
        have := serverCreate_spec hpos hinv (k := ⟨peer, a.invokeId⟩) (a := a) rfl (findTxn_none.1 hf)
        exact ⟨this.1, this.2.2⟩
    · -- unconfirmed request
      refine ⟨⟨hinv, ⟨SameExcept.rfl, SameExcept.rfl, ?_, rfl, rfl⟩⟩, rfl⟩
      simp
    · exact ⟨hC.1, hC.2.2.1⟩
    · exact ⟨hC.1, hC.2.2.1⟩
    · exact ⟨hC.1, hC.2.2.1⟩
    · exact ⟨hC.1, hC.2.2.1⟩
    · split
      · exact ⟨hC.1, hC.2.2.1⟩
      · exact ⟨hS.1, hS.2.2.1⟩
    · split
      · exact ⟨hC.1, hC.2.2.1⟩
      · exact ⟨hS.1, hS.2.2.1⟩
    · exact ⟨⟨hinv, Touch.refl _ s⟩, rfl⟩

/-! ### a timer fires -/

theorem smapTimeout_spec (hpos : cfg.TimeoutsPos) {s : Sap} (hinv : Inv s) (srv : Bool) (k : Key) :
    Spec k s (smapTimeout cfg s srv k).1 (smapTimeout cfg s srv k).2 ∧
    (smapTimeout cfg s srv k).1.nextId = s.nextId := by
  unfold smapTimeout
  cases hf : findTxn k (if srv = true then s.servers else s.clients) with
  | none => exact ⟨⟨hinv, Touch.refl k s⟩, rfl⟩
  | some t =>
    dsimp only
    split
    · exact ⟨⟨hinv, Touch.refl k s⟩, rfl⟩
    · split
      · cases srv with
        | true =>
          simp only [if_true] at hf ⊢
          obtain ⟨hmem, hkey⟩ := findTxn_some hf
          obtain ⟨hst, _, hctx⟩ := hinv.sOk t hmem
          subst hkey
          refine ⟨⟨?_, ?_⟩, by first | rfl | trivial⟩
          · apply hinv.updServer
            intro b' hb'
            exact serverTimeout_ok (b := { t.body with timer := none }) hst hctx (Prod.ext hb' rfl)
          · exact ⟨SameExcept.rfl, SameExcept.upd _ _ _,
              serverTimeout_attr (b := { t.body with timer := none }) hctx, rfl, rfl⟩
        | false =>
          simp only [Bool.false_eq_true, if_false] at hf ⊢
          obtain ⟨hmem, hkey⟩ := findTxn_some hf
          obtain ⟨hst, _, hctx⟩ := hinv.cOk t hmem
          subst hkey
          refine ⟨⟨?_, ?_⟩, by first | rfl | trivial⟩
          · apply hinv.updClient
            intro b' hb'
            exact clientTimeout_ok (b := { t.body with timer := none }) hpos hst hctx (Prod.ext hb' rfl)
          · exact ⟨SameExcept.upd _ _ _, SameExcept.rfl,
              clientTimeout_attr (b := { t.body with timer := none }) hctx, rfl, rfl⟩
      · exact ⟨⟨hinv, Touch.refl k s⟩, rfl⟩

/-! ### the application submits a request -/

/-- the key a request event ends up with: the chosen ID, or the one the
    allocator returns (0 when it fails — no transaction is created then) -/
def requestKey (s : Sap) (peer : Peer) (chosen : Option Nat) : Key :=
  match chosen with
  | some id => ⟨peer, id⟩
  | none => ⟨peer, ((getNextInvokeId s peer).1).getD 0⟩

theorem smapRequest_spec (hpos : cfg.TimeoutsPos) {s : Sap} (hinv : Inv s) (peer : Peer)
    (service : Nat) (data : Bytes) (chosen : Option Nat) :
    Spec (requestKey s peer chosen) s (smapRequest cfg s peer service data chosen).1
      (smapRequest cfg s peer service data chosen).2 ∧
    (smapRequest cfg s peer service data chosen).1.servers = s.servers := by
  unfold smapRequest
  split
  · exact ⟨⟨hinv, Touch.refl _ s⟩, rfl⟩
  · cases chosen with
    | some id =>
      dsimp only [requestKey]
      split
      · refine ⟨⟨hinv, ⟨SameExcept.rfl, SameExcept.rfl, ?_, rfl, rfl⟩⟩, rfl⟩
        simp
      · rename_i hlive
        have hfresh := idLive_false.1 (by simpa using hlive)
        have := clientCreate_spec hpos hinv (k := ⟨peer, id⟩) service data hfresh
        exact ⟨this.1, this.2.1⟩
    | none =>
      dsimp only [requestKey]
      have hspec := getNextInvokeId_spec s peer hinv.nextLt
      cases hg : getNextInvokeId s peer with
      | mk r next =>
        rw [hg] at hspec
        cases r with
        | none =>
          dsimp only at hspec ⊢
          obtain ⟨hnext, _⟩ := hspec
          refine ⟨⟨?_, ⟨SameExcept.rfl, SameExcept.rfl, ?_, rfl, rfl⟩⟩, rfl⟩
          · exact hinv.congr hnext rfl rfl
          · simp
        | some id =>
          dsimp only at hspec ⊢
          obtain ⟨hidlt, hlive, hnext, _⟩ := hspec
          simp only [Option.getD_some]
          have hfresh := idLive_false.1 hlive
          have hinv1 : Inv { s with nextId := next } :=
            ⟨by show next < 256; omega, hinv.cKeys, hinv.sKeys, hinv.cOk, hinv.sOk⟩
          have := clientCreate_spec hpos hinv1 (k := ⟨peer, id⟩) service data hfresh
          obtain ⟨⟨hi, ht⟩, hsv, _⟩ := this
          exact ⟨⟨hi, ⟨ht.clients, ht.servers, ht.attr, ht.now, ht.dcc⟩⟩, hsv⟩

/-! ### the ASAP above -/

theorem asapUp_spec (hpos : cfg.TimeoutsPos) {s : Sap} (hinv : Inv s) {k : Key} {o : Out}
    (ho : o.attr k) :
    Spec k s (asapUp cfg s o).1 (asapUp cfg s o).2 ∧ (asapUp cfg s o).1.clients = s.clients ∧
    (asapUp cfg s o).1.nextId = s.nextId := by
  have hrefl : ∀ outs, AllAttr k outs → Spec k s s outs ∧ s.clients = s.clients ∧ s.nextId = s.nextId :=
    fun outs h => ⟨⟨hinv, ⟨SameExcept.rfl, SameExcept.rfl, h, rfl, rfl⟩⟩, rfl, rfl⟩
  cases o with
  | indicate peer a =>
    obtain ⟨hp, hi⟩ := ho
    unfold asapUp
    dsimp only
    split
    · split
      · exact hrefl _ (by simp [hp, hi])
      · rename_i r _
        have := smapResponse_spec hpos hinv peer { ty := 6, invokeId := a.invokeId, reason := r }
        have hk : (⟨peer, a.invokeId⟩ : Key) = k := by cases k; simp_all
        dsimp only at this
        rw [hk] at this
        exact ⟨this.1, this.2.1, this.2.2.1⟩
      · rename_i r _
        have := smapResponse_spec hpos hinv peer { ty := 7, invokeId := a.invokeId, reason := r }
        have hk : (⟨peer, a.invokeId⟩ : Key) = k := by cases k; simp_all
        dsimp only at this
        rw [hk] at this
        exact ⟨this.1, this.2.1, this.2.2.1⟩
    · split
      · split
        · exact hrefl _ (by simp [hp, hi])
        · exact hrefl _ (by simp)
      · exact hrefl _ (by simp)
  | confirm peer a =>
    obtain ⟨hp, hi⟩ := ho
    unfold asapUp
    dsimp only
    split
    · exact hrefl _ (by simp [hp, hi])
    · split
      · split
        · exact hrefl _ (by simp [hp, hi])
        · exact hrefl _ (by simp)
        · exact hrefl _ (by simp)
      · split
        · split
          · exact hrefl _ (by simp [hp, hi])
          · exact hrefl _ (by simp)
        · exact hrefl _ (by simp)
  | send peer a =>
    show Spec k s s [Out.send peer a] ∧ _ ∧ _
    exact hrefl _ (by simpa using ho)
  | confirmAnon c e =>
    show Spec k s s [Out.confirmAnon c e] ∧ _ ∧ _
    exact hrefl _ (by simp)
  | raised r =>
    show Spec k s s [Out.raised r] ∧ _ ∧ _
    exact hrefl _ (by simp)

theorem asapPass_spec (hpos : cfg.TimeoutsPos) {k : Key} :
    ∀ (outs : List Out) {s : Sap}, Inv s → AllAttr k outs →
      Spec k s (asapPass cfg s outs).1 (asapPass cfg s outs).2 ∧
      (asapPass cfg s outs).1.clients = s.clients ∧ (asapPass cfg s outs).1.nextId = s.nextId := by
  intro outs
  induction outs with
  | nil =>
    intro s hinv _
    exact ⟨⟨hinv, Touch.refl k s⟩, rfl, rfl⟩
  | cons o os ih =>
    intro s hinv hall
    have ho := (AllAttr_cons k o os).1 hall
    have h1 := asapUp_spec (cfg := cfg) hpos hinv ho.1
    have h2 := ih h1.1.inv ho.2
    simp only [asapPass]
    refine ⟨⟨h2.1.inv, ?_⟩, ?_, ?_⟩
    · exact h1.1.touch.trans h2.1.touch
    · exact h2.2.1.trans h1.2.1
    · exact h2.2.2.trans h1.2.2

end BacVerif.Tsm
