/-
  Lemmas.TsmC04Live — when does a client timer expiry raise?  Never, if the
  local configuration can be encoded in a request header:

      cfgOk cfg  :=  50 ≤ maxApduLengthAccepted  ∧  maxSegmentsAccepted ≠ 1

  (the two values `encode_max_apdu_length_accepted` / `encode_max_segments_
  accepted` refuse).  The proof needs what a listed client transaction
  remembers (`CliLive`): the capabilities it copied from the configuration,
  a ConfirmedRequest as segmentation context while the request is out, and a
  window start inside the segment range — an invariant of every event sequence.
-/
import BacVerif.Lemmas.TsmCap
import BacVerif.Lemmas.TsmC04Silent
namespace BacVerif.Tsm
set_option linter.unusedSimpArgs false
set_option linter.unusedVariables false
variable {cfg : Cfg}

/-- the local capabilities can be written into a ConfirmedRequest header -/
def cfgOk (cfg : Cfg) : Bool := decide (50 ≤ cfg.maxApdu) && (cfg.maxSegs != some 1)

theorem encodeMaxApdu_ok {n : Nat} (h : 50 ≤ n) : ∃ c, encodeMaxApdu n = .ok c := by
  unfold encodeMaxApdu
  repeat' split
  all_goals first
    | exact ⟨_, rfl⟩
    | omega

theorem encodeMaxSegs_ok {ms : Option Nat} (h : ms ≠ some 1) : ∃ c, encodeMaxSegs ms = .ok c := by
  unfold encodeMaxSegs
  cases ms with
  | none => exact ⟨_, rfl⟩
  | some n =>
    dsimp only
    repeat' split
    all_goals first
      | exact ⟨_, rfl⟩
      | (exfalso; apply h; congr 1; omega)

theorem cfgOk_spec (h : cfgOk cfg = true) : 50 ≤ cfg.maxApdu ∧ cfg.maxSegs ≠ some 1 := by
  simp only [cfgOk, Bool.and_eq_true, decide_eq_true_eq, bne_iff_ne, ne_eq] at h
  exact h

/-- what a listed client transaction remembers -/
structure CliLive (cfg : Cfg) (b : Body) : Prop where
  apdu : b.maxApdu = cfg.maxApdu
  segs : b.maxSegs = cfg.maxSegs
  cap : CliCap cfg b
  idx : b.st = .segReq → b.initSeq < b.segCount ∧ (b.initSeq ≠ 0 → b.window.isSome = true)

/-! ### segments can be built -/

theorem getSegment_ok (hok : cfgOk cfg = true) {k : Key} {b : Body} {c : Apdu}
    (ha : b.maxApdu = cfg.maxApdu) (hs : b.maxSegs = cfg.maxSegs)
    (hc : b.ctx = some c) (hty : c.ty = 0) {i : Nat} (hi : i < b.segCount) (w : Nat) :
    ∃ seg, getSegment cfg k b i w = .ok seg ∧
      seg.mor = decide (b.segCount ≠ 1 ∧ i < b.segCount - 1) := by
  obtain ⟨h1, h2⟩ := cfgOk_spec hok
  obtain ⟨c1, hc1⟩ := encodeMaxSegs_ok (ms := b.maxSegs) (by rw [hs]; exact h2)
  obtain ⟨c2, hc2⟩ := encodeMaxApdu_ok (n := b.maxApdu) (by rw [ha]; exact h1)
  unfold getSegment
  rw [hc]
  dsimp only
  have hn : ¬ i ≥ b.segCount := by omega
  simp only [hn, if_false, segHeader, hty, if_true, hc1, hc2]
  refine ⟨_, rfl, ?_⟩
  unfold segFlags
  split
  · rename_i h1'
    simp [h1']
  · rename_i h1'
    simp at h1'
    simp [h1']

theorem fillLoop_noErr (hok : cfgOk cfg = true) {k : Key} {b : Body} {c : Apdu}
    (ha : b.maxApdu = cfg.maxApdu) (hs : b.maxSegs = cfg.maxSegs)
    (hc : b.ctx = some c) (hty : c.ty = 0) (w : Nat) :
    ∀ (n i : Nat), i < b.segCount → (fillLoop cfg k b w n i).err = none := by
  intro n
  induction n with
  | zero => intro i _; rfl
  | succ n ih =>
    intro i hi
    obtain ⟨seg, hseg, hmor⟩ := getSegment_ok hok (k := k) ha hs hc hty hi w
    simp only [fillLoop, hseg]
    split
    · rfl
    · rename_i hm
      have hm' : seg.mor = true := by simpa using hm
      rw [hmor] at hm'
      simp only [decide_eq_true_eq] at hm'
      exact ih (i + 1) (by omega)

theorem any_raised_sends (p : Peer) (l : List Apdu) : (sends p l).any Out.isRaised = false := by
  simp [sends, List.any_map, Out.isRaised]

/-! ### `ClientSSM.indication` -/

theorem clientIndication_live {now : Nat} {di : Option DeviceInfo} {k : Key} {b b' : Body}
    {req : Apdu} {outs : List Out} (hty : req.ty = 0)
    (ha : b.maxApdu = cfg.maxApdu) (hs : b.maxSegs = cfg.maxSegs)
    (h : clientIndication cfg now di k b req = (some b', outs)) : CliLive cfg b' := by
  have hcap := (clientIndication_body hty h).1
  unfold clientIndication at h
  simp only [clientAbortApp] at h
  split at h
  · simp only [Prod.mk.injEq, reduceCtorEq, false_and] at h
  · rename_i size count hss
    have hspec := setSegmentSize_spec (by decide) hss
    hsplit h
    all_goals first
      | (simp only [Prod.mk.injEq, reduceCtorEq, false_and] at h; done)
      | (simp only [Prod.mk.injEq, Option.some.injEq] at h
         obtain ⟨rfl, _⟩ := h
         refine ⟨ha, hs, hcap, ?_⟩
         intro hst
         first
           | (simp at hst; done)
           | (refine ⟨?_, fun h0 => absurd rfl h0⟩
              show 0 < count
              omega))

theorem clientIndication_noRaise (hok : cfgOk cfg = true) {now : Nat} {di : Option DeviceInfo} {k : Key}
    {b : Body} {req : Apdu} (hty : req.ty = 0)
    (ha : b.maxApdu = cfg.maxApdu) (hs : b.maxSegs = cfg.maxSegs) :
    (clientIndication cfg now di k b req).2.any Out.isRaised = false := by
  unfold clientIndication
  simp only [clientAbortApp]
  split
  · rfl
  · rename_i size count hss
    have hspec := setSegmentSize_spec (by decide) hss
    have hpos : 0 < count := by omega
    by_cases hc1 : count = 1
    · obtain ⟨seg, hseg, _⟩ := getSegment_ok hok (k := k)
        (b := { b with ctx := some req, segSize := size, segCount := count, sentAll := true, retry := 0,
                       st := .awaitConf, timer := stateTimer now cfg.apduTimeout })
        ha hs rfl hty (i := 0) hpos 0
      simp only [if_pos hc1, hseg]
      repeat' split
      all_goals rfl
    · obtain ⟨seg, hseg, _⟩ := getSegment_ok hok (k := k)
        (b := { b with ctx := some req, segSize := size, segCount := count, sentAll := false, retry := 0,
                       segRetry := 0, initSeq := 0, window := none, st := .segReq,
                       timer := stateTimer now cfg.segTimeout })
        ha hs rfl hty (i := 0) hpos 0
      simp only [if_neg hc1, hseg]
      repeat' split
      all_goals rfl

/-! ### `ClientSSM.confirmation` -/

theorem clientConfirmation_live {now : Nat} {k : Key} {b b' : Body} {a : Apdu} {outs : List Out}
    (hl : CliLive cfg b) (h : clientConfirmation cfg now k b a = (some b', outs)) : CliLive cfg b' := by
  have hcap := (clientConfirmation_body hl.cap h).1
  obtain ⟨ha, hs, _, hidx⟩ := hl
  unfold clientConfirmation at h
  split at h
  · rename_i hst
    obtain ⟨hi1, hi2⟩ := hidx hst
    unfold clientSegmentedRequest at h
    simp only [clientAbortBoth] at h
    hsplit h
    all_goals first
      | (simp only [Prod.mk.injEq, reduceCtorEq, false_and] at h; done)
      | (simp only [Prod.mk.injEq, Option.some.injEq] at h
         obtain ⟨rfl, _⟩ := h
         refine ⟨ha, hs, hcap, ?_⟩
         intro hst'
         first
           | (simp at hst'; done)
           | exact ⟨hi1, fun _ => rfl⟩
           | exact ⟨hi1, hi2⟩
           | (refine ⟨?_, fun _ => rfl⟩
              simp only [ge_iff_le, Nat.not_le] at *
              assumption))
  · unfold clientAwaitConfirmation at h
    simp only [clientAbortBoth, clientAbortApp] at h
    rename_i hst
    hsplit h
    all_goals first
      | (simp only [Prod.mk.injEq, reduceCtorEq, false_and] at h; done)
      | (simp only [Prod.mk.injEq, Option.some.injEq] at h
         obtain ⟨rfl, _⟩ := h
         refine ⟨ha, hs, hcap, ?_⟩
         intro hst'
         simp [hst] at hst')
  · unfold clientSegmentedConfirmation at h
    simp only [clientAbortBoth] at h
    rename_i hst
    hsplit h
    all_goals first
      | (simp only [Prod.mk.injEq, reduceCtorEq, false_and] at h; done)
      | (simp only [Prod.mk.injEq, Option.some.injEq] at h
         obtain ⟨rfl, _⟩ := h
         refine ⟨ha, hs, hcap, ?_⟩
         intro hst'
         simp [hst] at hst')
  · simp only [Prod.mk.injEq, Option.some.injEq] at h
    obtain ⟨rfl, _⟩ := h
    exact ⟨ha, hs, hcap, hidx⟩

/-! ### `ClientSSM.process_task` -/

theorem clientTimeout_live {now : Nat} {di : Option DeviceInfo} {k : Key} {b b' : Body}
    {outs : List Out} (hl : CliLive cfg b) (h : clientTimeout cfg now di k b = (some b', outs)) :
    CliLive cfg b' := by
  have hcap := clientTimeout_body hl.cap h
  obtain ⟨ha, hs, hc, hidx⟩ := hl
  unfold clientTimeout at h
  simp only [clientAbortApp] at h
  split at h
  · rename_i hst
    obtain ⟨hi1, hi2⟩ := hidx hst
    hsplit h
    all_goals first
      | (simp only [Prod.mk.injEq, reduceCtorEq, false_and] at h; done)
      | (simp only [Prod.mk.injEq, Option.some.injEq] at h
         obtain ⟨rfl, _⟩ := h
         exact ⟨ha, hs, hcap, fun _ => ⟨hi1, hi2⟩⟩)
  · rename_i hst
    obtain ⟨c, hctx, hty⟩ := hc (Or.inr hst)
    split at h
    · rw [hctx] at h
      simp only at h
      split at h
      · rename_i b1 outs1 hind
        have hl1 := clientIndication_live (cfg := cfg) hty (b := { b with retry := b.retry + 1 }) ha hs hind
        split at h
        all_goals
          simp only [Prod.mk.injEq, Option.some.injEq] at h
          obtain ⟨rfl, _⟩ := h
        · exact hl1
        · exact ⟨hl1.apdu, hl1.segs, hcap, hl1.idx⟩
      · simp only [Prod.mk.injEq, reduceCtorEq, false_and] at h
    · simp only [Prod.mk.injEq, reduceCtorEq, false_and] at h
  · simp only [Prod.mk.injEq, reduceCtorEq, false_and] at h
  · simp only [Prod.mk.injEq, Option.some.injEq] at h
    obtain ⟨rfl, _⟩ := h
    exact ⟨ha, hs, hcap, hidx⟩

/-- **an expiry of a client timer raises nothing** when the local capabilities
    can be encoded -/
theorem clientTimeout_noRaise (hok : cfgOk cfg = true) {now : Nat} {di : Option DeviceInfo} {k : Key}
    {b : Body} (hst : ClientSt b) (hl : CliLive cfg b) :
    (clientTimeout cfg now di k b).2.any Out.isRaised = false := by
  obtain ⟨ha, hs, hc, hidx⟩ := hl
  unfold clientTimeout
  simp only [clientAbortApp]
  split
  · rename_i hseg
    obtain ⟨hi1, hi2⟩ := hidx hseg
    obtain ⟨c, hctx, hty⟩ := hc (Or.inl hseg)
    split
    · split
      · rename_i h0
        obtain ⟨seg, hsg, _⟩ := getSegment_ok hok (k := k)
          (b := { b with segRetry := b.segRetry + 1, timer := arm now cfg.segTimeout })
          ha hs hctx hty (i := 0) (Nat.lt_of_le_of_lt (Nat.zero_le _) hi1) 0
        simp only [hsg]
        rfl
      · rename_i h0
        have hw := hi2 h0
        cases hwin : b.window with
        | none => rw [hwin] at hw; cases hw
        | some w =>
          have herr := fillLoop_noErr hok (k := k)
            (b := { b with segRetry := b.segRetry + 1, timer := arm now cfg.segTimeout, window := some w })
            ha hs hctx hty w w b.initSeq hi1
          simp only [fillWindow, hwin, herr, raisedOf, List.append_nil]
          exact any_raised_sends _ _
    · rfl
  · rename_i haw
    obtain ⟨c, hctx, hty⟩ := hc (Or.inr haw)
    split
    · rw [hctx]
      dsimp only
      have hno := clientIndication_noRaise (cfg := cfg) hok (now := now) (di := di) (k := k)
        (b := { b with retry := b.retry + 1, ctx := some c }) hty ha hs
      split
      · rename_i b1 outs1 hind
        rw [hind] at hno
        split <;> exact hno
      · rename_i outs1 hind
        rw [hind] at hno
        exact hno
    · rfl
  · rfl
  · rename_i h1 h2 h3
    rcases hst with h | h | h
    · exact absurd h h1
    · exact absurd h h2
    · exact absurd h h3

end BacVerif.Tsm
