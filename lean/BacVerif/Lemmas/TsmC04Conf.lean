/-
  Lemmas.TsmC04Conf — counting confirmations.

  * every client handler hands exactly one `confirm` upward when it ends the
    transaction (`(none, outs)`) and none when it keeps it (`(some _, outs)`);
  * server handlers never hand a `confirm` upward;
  * the ASAP pass never adds a confirmation.
-/
import BacVerif.Lemmas.TsmSide
namespace BacVerif.Tsm
set_option linter.unusedSimpArgs false
set_option linter.unusedVariables false
variable {cfg : Cfg}

def Out.isConf : Out → Bool
  | .confirm _ _ => true
  | _ => false

/-- `confirm` outputs of the list (calls of `sap_response` resp. `Application.confirmation`) -/
def nConf (outs : List Out) : Nat := outs.countP Out.isConf

/-- a confirmation for the transaction key `k` -/
def Out.isConfFor (k : Key) : Out → Bool
  | .confirm p a => p == k.peer && a.invokeId == k.id
  | _ => false

def nConfFor (k : Key) (outs : List Out) : Nat := outs.countP (Out.isConfFor k)

@[simp] theorem nConf_nil : nConf [] = 0 := rfl
@[simp] theorem nConf_append (l1 l2 : List Out) : nConf (l1 ++ l2) = nConf l1 + nConf l2 := by
  simp [nConf, List.countP_append]
@[simp] theorem nConf_cons_send (p : Peer) (a : Apdu) (os : List Out) :
    nConf (.send p a :: os) = nConf os := by simp [nConf, List.countP_cons, Out.isConf]
@[simp] theorem nConf_cons_indicate (p : Peer) (a : Apdu) (os : List Out) :
    nConf (.indicate p a :: os) = nConf os := by simp [nConf, List.countP_cons, Out.isConf]
@[simp] theorem nConf_cons_confirm (p : Peer) (a : Apdu) (os : List Out) :
    nConf (.confirm p a :: os) = nConf os + 1 := by simp [nConf, List.countP_cons, Out.isConf]
@[simp] theorem nConf_cons_anon (c e : Nat) (os : List Out) :
    nConf (.confirmAnon c e :: os) = nConf os := by simp [nConf, List.countP_cons, Out.isConf]
@[simp] theorem nConf_cons_raised (r : Raise) (os : List Out) :
    nConf (.raised r :: os) = nConf os := by simp [nConf, List.countP_cons, Out.isConf]
@[simp] theorem nConf_sends (p : Peer) (l : List Apdu) : nConf (sends p l) = 0 := by
  induction l with
  | nil => rfl
  | cons a t ih => simpa [sends] using ih
@[simp] theorem nConf_raisedOf (r : Option Raise) : nConf (raisedOf r) = 0 := by
  cases r <;> simp [raisedOf]

@[simp] theorem nConfFor_nil (k : Key) : nConfFor k [] = 0 := rfl
@[simp] theorem nConfFor_append (k : Key) (l1 l2 : List Out) :
    nConfFor k (l1 ++ l2) = nConfFor k l1 + nConfFor k l2 := by
  simp [nConfFor, List.countP_append]

theorem nConfFor_le (k : Key) (outs : List Out) : nConfFor k outs ≤ nConf outs := by
  induction outs with
  | nil => simp
  | cons o os ih =>
    cases o <;> simp [nConfFor, nConf, List.countP_cons, Out.isConfFor, Out.isConf] at ih ⊢
    all_goals (try split) <;> omega

/-- all outputs name `k`: the confirmations for `k` are all confirmations -/
theorem nConfFor_attr {k : Key} {outs : List Out} (h : AllAttr k outs) : nConfFor k outs = nConf outs := by
  induction outs with
  | nil => rfl
  | cons o os ih =>
    have ho := (AllAttr_cons k o os).1 h
    have ih := ih ho.2
    cases o with
    | confirm p a =>
      obtain ⟨hp, hi⟩ := ho.1
      simp [nConfFor, nConf, List.countP_cons, Out.isConfFor, Out.isConf, hp, hi] at ih ⊢
      exact ih
    | send p a => simpa [nConfFor, nConf, List.countP_cons, Out.isConfFor, Out.isConf] using ih
    | indicate p a => simpa [nConfFor, nConf, List.countP_cons, Out.isConfFor, Out.isConf] using ih
    | confirmAnon c e => simpa [nConfFor, nConf, List.countP_cons, Out.isConfFor, Out.isConf] using ih
    | raised r => simpa [nConfFor, nConf, List.countP_cons, Out.isConfFor, Out.isConf] using ih

/-- all outputs name another key: no confirmation for `k` -/
theorem nConfFor_other {k k' : Key} {outs : List Out} (h : AllAttr k' outs) (hne : k ≠ k') :
    nConfFor k outs = 0 := by
  induction outs with
  | nil => rfl
  | cons o os ih =>
    have ho := (AllAttr_cons k' o os).1 h
    have ih := ih ho.2
    cases o with
    | confirm p a =>
      obtain ⟨hp, hi⟩ := ho.1
      have : (p == k.peer && a.invokeId == k.id) = false := by
        cases hb : (p == k.peer && a.invokeId == k.id) with
        | false => rfl
        | true =>
          simp only [Bool.and_eq_true, beq_iff_eq] at hb
          exact absurd (by cases k; cases k'; simp_all) hne
      simp [nConfFor, List.countP_cons, Out.isConfFor, this] at ih ⊢
      exact ih
    | send p a => simpa [nConfFor, List.countP_cons, Out.isConfFor] using ih
    | indicate p a => simpa [nConfFor, List.countP_cons, Out.isConfFor] using ih
    | confirmAnon c e => simpa [nConfFor, List.countP_cons, Out.isConfFor] using ih
    | raised r => simpa [nConfFor, List.countP_cons, Out.isConfFor] using ih

/-! ### client handlers: one confirmation iff the transaction ends -/

/-- 1 if the handler kept the transaction, 0 if it ended it -/
def kept (r : Option Body) : Nat := if r.isSome then 1 else 0
@[simp] theorem kept_none : kept none = 0 := rfl
@[simp] theorem kept_some (b : Body) : kept (some b) = 1 := rfl

theorem clientIndication_conf (now : Nat) (di : Option DeviceInfo) (k : Key) (b : Body) (req : Apdu) :
    nConf (clientIndication cfg now di k b req).2 + kept (clientIndication cfg now di k b req).1 = 1 := by
  unfold clientIndication
  simp only [clientAbortApp]
  gsplit
  all_goals simp

theorem clientConfirmation_conf (now : Nat) (k : Key) (b : Body) (a : Apdu) :
    nConf (clientConfirmation cfg now k b a).2 + kept (clientConfirmation cfg now k b a).1 = 1 := by
  unfold clientConfirmation
  split
  · unfold clientSegmentedRequest
    simp only [clientAbortBoth]
    gsplit
    all_goals simp
  · unfold clientAwaitConfirmation
    simp only [clientAbortBoth, clientAbortApp]
    gsplit
    all_goals simp
  · unfold clientSegmentedConfirmation
    simp only [clientAbortBoth]
    gsplit
    all_goals simp
  · simp

theorem clientTimeout_conf (now : Nat) (di : Option DeviceInfo) (k : Key) (b : Body) :
    nConf (clientTimeout cfg now di k b).2 + kept (clientTimeout cfg now di k b).1 = 1 := by
  unfold clientTimeout
  simp only [clientAbortApp]
  split
  · gsplit
    all_goals simp
  · split
    · split
      · simp
      · rename_i req _
        have := clientIndication_conf (cfg := cfg) now di k { b with retry := b.retry + 1 } req
        split
        · rename_i b1 outs1 hind
          rw [hind] at this
          split <;> simpa using this
        · rename_i outs1 hind
          rw [hind] at this
          simpa using this
    · simp
  · simp
  · simp

/-- when a timer expiry ends a client transaction, what goes up is one locally
    generated Abort (`self.abort(reason); self.response(abort)`) and nothing else -/
theorem clientIndication_none {now : Nat} {di : Option DeviceInfo} {k : Key} {b : Body} {req : Apdu}
    {outs : List Out} (h : clientIndication cfg now di k b req = (none, outs)) :
    ∃ reason, outs = [.confirm k.peer (mkAbort false k.id reason)] := by
  unfold clientIndication at h
  simp only [clientAbortApp] at h
  hsplit h
  all_goals first
    | (simp only [Prod.mk.injEq, reduceCtorEq, false_and] at h; done)
    | (simp only [Prod.mk.injEq, true_and] at h; exact ⟨_, h.symm⟩)

theorem clientTimeout_none {now : Nat} {di : Option DeviceInfo} {k : Key} {b : Body}
    {outs : List Out} (h : clientTimeout cfg now di k b = (none, outs)) :
    ∃ reason, outs = [.confirm k.peer (mkAbort false k.id reason)] := by
  unfold clientTimeout at h
  simp only [clientAbortApp] at h
  split at h
  · hsplit h
    all_goals first
      | (simp only [Prod.mk.injEq, reduceCtorEq, false_and] at h; done)
      | (simp only [Prod.mk.injEq, true_and] at h; exact ⟨_, h.symm⟩)
  · split at h
    · split at h
      · simp only [Prod.mk.injEq, reduceCtorEq, false_and] at h
      · split at h
        · split at h <;> simp only [Prod.mk.injEq, reduceCtorEq, false_and] at h
        · rename_i outs1 hind
          simp only [Prod.mk.injEq, true_and] at h
          subst h
          exact clientIndication_none hind
    · simp only [Prod.mk.injEq, true_and] at h; exact ⟨_, h.symm⟩
  · simp only [Prod.mk.injEq, true_and] at h; exact ⟨_, h.symm⟩
  · simp only [Prod.mk.injEq, reduceCtorEq, false_and] at h

/-! ### server handlers never confirm -/

theorem serverIdle_noConf (now : Nat) (di : Option DeviceInfo) (k : Key) (b : Body) (a : Apdu) :
    nConf (serverIdle cfg now di k b a).2 = 0 := by
  unfold serverIdle
  simp only [serverAbortNet]
  gsplit
  all_goals simp

theorem serverIndication_noConf (now : Nat) (k : Key) (b : Body) (a : Apdu) :
    nConf (serverIndication cfg now k b a).2 = 0 := by
  unfold serverIndication
  split
  · unfold serverSegmentedRequest
    simp only [serverAbortBoth]
    gsplit
    all_goals simp
  · unfold serverAwaitResponse
    gsplit
    all_goals simp
  · unfold serverSegmentedResponse
    gsplit
    all_goals simp
  · simp

theorem serverConfirmation_noConf (now : Nat) (npdu : Option Nat) (k : Key) (b : Body) (a : Apdu) :
    nConf (serverConfirmation cfg now npdu k b a).2 = 0 := by
  unfold serverConfirmation
  simp only [serverAbortNet]
  gsplit
  all_goals simp

theorem serverTimeout_noConf (now : Nat) (k : Key) (b : Body) :
    nConf (serverTimeout cfg now k b).2 = 0 := by
  unfold serverTimeout
  split
  · simp
  · simp
  · gsplit
    all_goals simp
  · simp

theorem smapResponse_noConf (s : Sap) (peer : Peer) (a : Apdu) :
    nConf (smapResponse cfg s peer a).2 = 0 := by
  unfold smapResponse
  split
  · dsimp only
    split
    · simp
    · exact serverConfirmation_noConf _ _ _ _ _
  · simp

/-! ### the ASAP pass never adds a confirmation -/

theorem asapUp_confFor (k : Key) (s : Sap) (o : Out) :
    nConfFor k (asapUp cfg s o).2 ≤ nConfFor k [o] := by
  cases o with
  | indicate p a =>
    unfold asapUp
    dsimp only
    have h0 : ∀ x, nConfFor k (smapResponse cfg s p x).2 = 0 := fun x =>
      Nat.le_zero.1 (Nat.le_trans (nConfFor_le k _) (Nat.le_of_eq (smapResponse_noConf s p x)))
    repeat' split
    all_goals first
      | exact Nat.le_refl _
      | (rw [h0]; exact Nat.zero_le _)
      | exact Nat.zero_le _
  | confirm p a =>
    unfold asapUp
    dsimp only
    repeat' split
    all_goals first
      | exact Nat.le_refl _
      | (simp [nConfFor, List.countP_cons, Out.isConfFor]; done)
  | send p a => exact Nat.le_refl _
  | confirmAnon c e => exact Nat.le_refl _
  | raised r => exact Nat.le_refl _

theorem asapPass_confFor (k : Key) : ∀ (outs : List Out) (s : Sap),
    nConfFor k (asapPass cfg s outs).2 ≤ nConfFor k outs := by
  intro outs
  induction outs with
  | nil => intro s; exact Nat.le_refl _
  | cons o os ih =>
    intro s
    simp only [asapPass]
    have h1 := asapUp_confFor (cfg := cfg) k s o
    have h2 := ih (asapUp cfg s o).1
    have : nConfFor k (o :: os) = nConfFor k [o] + nConfFor k os := by
      rw [← nConfFor_append]; rfl
    rw [nConfFor_append, this]
    omega

/-- a `raised` marker passes the ASAP unchanged -/
theorem asapPass_raised : ∀ (outs : List Out) (s : Sap) (r : Raise),
    Out.raised r ∈ outs → Out.raised r ∈ (asapPass cfg s outs).2 := by
  intro outs
  induction outs with
  | nil => intro s r h; cases h
  | cons o os ih =>
    intro s r h
    simp only [asapPass, List.mem_append]
    rcases List.mem_cons.1 h with h | h
    · subst h
      left
      simp [asapUp]
    · right
      exact ih _ r h

end BacVerif.Tsm
